import Rare.Model.C06Inflate
import Rare.Spec.C06Deflate
import Rare.Proofs.C06Gzip
/-! Stored-block round trip, member concatenation, trailing garbage and truncation for the model of `compress/gzip`. -/
namespace Rare.C06.Gz

/-! ## bits and bytes -/

theorem bitsOf_cons (b : UInt8) (s : Bytes) : bitsOf (b :: s) = byteBits b ++ bitsOf s := by
  simp [bitsOf]

theorem bitsOf_append (a b : Bytes) : bitsOf (a ++ b) = bitsOf a ++ bitsOf b := by
  simp [bitsOf]

theorem byteBits_length (b : UInt8) : (byteBits b).length = 8 := rfl

theorem bitsOf_length (s : Bytes) : (bitsOf s).length = 8 * s.length := by
  induction s with
  | nil => rfl
  | cons b s ih => rw [bitsOf_cons, List.length_append, ih, byteBits_length, List.length_cons]; omega

theorem bitsVal_testBits : ∀ n < 256, bitsVal [n.testBit 0, n.testBit 1, n.testBit 2, n.testBit 3,
    n.testBit 4, n.testBit 5, n.testBit 6, n.testBit 7] = n := by
  decide +kernel

theorem bitsVal_byteBits (b : UInt8) : bitsVal (byteBits b) = b.toNat :=
  bitsVal_testBits b.toNat b.toNat_lt

theorem byte_of_bits (b : UInt8) : UInt8.ofNat (bitsVal (byteBits b)) = b := by
  rw [bitsVal_byteBits]; simp

theorem bitsVal_append (a b : Bits) : bitsVal (a ++ b) = bitsVal a + 2 ^ a.length * bitsVal b := by
  induction a with
  | nil => simp [bitsVal]
  | cons x a ih =>
    simp only [List.cons_append, bitsVal, ih, List.length_cons, Nat.pow_succ]
    rw [Nat.mul_add, ← Nat.add_assoc]; congr 1; ac_rfl

theorem takeBits_append (l r : Bits) : takeBits l.length (l ++ r) = some (l, r) := by
  induction l with
  | nil => rfl
  | cons x l ih => simp [takeBits, ih]

theorem bytesOf_bitsOf (s : Bytes) : bytesOf (bitsOf s) = s := by
  induction s with
  | nil => rfl
  | cons b s ih =>
    rw [bitsOf_cons]
    show bytesOf (_ :: _ :: _ :: _ :: _ :: _ :: _ :: _ :: bitsOf s) = _
    rw [bytesOf, ih]
    congr 1
    exact byte_of_bits b

theorem align_bitsOf (s : Bytes) : align (bitsOf s) = bitsOf s := by
  unfold align
  rw [bitsOf_length]
  simp

/-! ## one stored block -/

theorem readBits_append (l r : Bits) : readBits l.length (l ++ r) = some (bitsVal l, r) := by
  simp [readBits, takeBits_append]

theorem bitsOf_enc16 (n : Nat) (r : Bytes) :
    bitsOf (enc16 n ++ r) = (byteBits (UInt8.ofNat (n % 256)) ++ byteBits (UInt8.ofNat (n / 256))) ++ bitsOf r := by
  simp [enc16, bitsOf]

theorem readBits16_enc16 (n : Nat) (h : n < 65536) (r : Bytes) :
    readBits 16 (bitsOf (enc16 n ++ r)) = some (n, bitsOf r) := by
  rw [bitsOf_enc16]
  have hl : (byteBits (UInt8.ofNat (n % 256)) ++ byteBits (UInt8.ofNat (n / 256))).length = 16 := rfl
  have := readBits_append (byteBits (UInt8.ofNat (n % 256)) ++ byteBits (UInt8.ofNat (n / 256))) (bitsOf r)
  rw [hl] at this
  rw [this, bitsVal_append, bitsVal_byteBits, bitsVal_byteBits, byteBits_length]
  have h1 : (UInt8.ofNat (n % 256)).toNat = n % 256 := by simp
  have h2 : (UInt8.ofNat (n / 256)).toNat = n / 256 := by
    simp only [UInt8.toNat_ofNat']; omega
  rw [h1, h2]
  congr 2
  omega

/-- the block header byte: BFINAL, BTYPE = 00, five padding bits -/
theorem readBits3_hdr (final : Bool) (r : Bytes) :
    readBits 3 (bitsOf ((if final then (1 : UInt8) else 0) :: r)) =
      some ((if final then 1 else 0), [false, false, false, false, false] ++ bitsOf r) := by
  rw [bitsOf_cons]
  cases final <;> rfl

theorem align_pad5 (r : Bytes) : align ([false, false, false, false, false] ++ bitsOf r) = bitsOf r := by
  unfold align
  have : ([false, false, false, false, false] ++ bitsOf r).length % 8 = 5 := by
    rw [List.length_append, bitsOf_length]; simp <;> omega
  rw [this]; rfl

theorem copyStored_full (c r : Bytes) (out : Array UInt8) :
    copyStored c.length (bitsOf (c ++ r)) out = (out ++ c.toArray, some (bitsOf r)) := by
  induction c generalizing out with
  | nil => simp [copyStored]
  | cons b c ih =>
    rw [List.cons_append, bitsOf_cons]
    show copyStored (c.length + 1) (_ :: _ :: _ :: _ :: _ :: _ :: _ :: _ :: bitsOf (c ++ r)) out = _
    rw [copyStored, ih]
    have := byte_of_bits b
    unfold byteBits at this
    rw [this]
    simp

theorem storedBlock_enc (c r : Bytes) (out : Array UInt8) (hc : c.length ≤ 65535) :
    storedBlock ([false, false, false, false, false] ++ bitsOf (enc16 c.length ++ enc16 (65535 - c.length) ++ c ++ r)) out
      = (out ++ c.toArray, some (bitsOf r)) := by
  unfold storedBlock
  rw [align_pad5]
  simp only [List.append_assoc]
  rw [readBits16_enc16 _ (by omega)]
  simp only []
  rw [readBits16_enc16 _ (by omega)]
  simp only [ne_eq, not_true_eq_false, ↓reduceIte]
  exact copyStored_full c r out

/-! ## a stream of stored blocks -/

theorem storedEnc_append (final : Bool) (c r : Bytes) :
    storedEnc final c ++ r = (if final then (1 : UInt8) else 0) :: (enc16 c.length ++ enc16 (65535 - c.length) ++ c ++ r) := by
  simp [storedEnc]

theorem inflate_storedEnc_final (c r : Bytes) (out : Array UInt8) (fuel : Nat) (hc : c.length ≤ 65535) :
    inflate (fuel + 1) (bitsOf (storedEnc true c ++ r)) out = (out ++ c.toArray, some (bitsOf r)) := by
  rw [storedEnc_append, inflate, readBits3_hdr]
  simp only [↓reduceIte]
  rw [storedBlock_enc c r out hc]

theorem inflate_storedEnc_nonfinal (c r : Bytes) (out : Array UInt8) (fuel : Nat) (hc : c.length ≤ 65535) :
    inflate (fuel + 1) (bitsOf (storedEnc false c ++ r)) out = inflate fuel (bitsOf r) (out ++ c.toArray) := by
  rw [storedEnc_append, inflate, readBits3_hdr]
  simp only [Bool.false_eq_true, ↓reduceIte]
  rw [storedBlock_enc c r out hc]
  simp

theorem inflate_deflateStored (chunks : List Bytes) (hne : chunks ≠ []) (hc : ∀ c ∈ chunks, c.length ≤ 65535)
    (r : Bytes) (out : Array UInt8) (fuel : Nat) (hf : chunks.length ≤ fuel) :
    inflate fuel (bitsOf (deflateStored chunks ++ r)) out = (out ++ chunks.flatten.toArray, some (bitsOf r)) := by
  induction chunks generalizing out fuel with
  | nil => exact absurd rfl hne
  | cons c cs ih =>
    cases fuel with
    | zero => simp at hf
    | succ fuel =>
      cases cs with
      | nil =>
        simp only [deflateStored, List.flatten_cons, List.flatten_nil, List.append_nil]
        exact inflate_storedEnc_final c r out fuel (hc c (by simp))
      | cons c2 cs =>
        simp only [deflateStored, List.append_assoc]
        rw [inflate_storedEnc_nonfinal c _ out fuel (hc c (by simp))]
        have := ih (by simp) (fun x hx => hc x (by simp [hx])) (out ++ c.toArray) fuel (by simp at hf ⊢; omega)
        rw [this]
        simp

/-! ## the member: trailer, next header -/

theorem storedEnc_length (final : Bool) (c : Bytes) : (storedEnc final c).length = 5 + c.length := by
  simp [storedEnc, enc16]; omega

theorem deflateStored_length_ge (chunks : List Bytes) : chunks.length ≤ (deflateStored chunks).length := by
  induction chunks with
  | nil => simp
  | cons c cs ih =>
    cases cs with
    | nil => simp [deflateStored, storedEnc_length]; omega
    | cons c2 cs =>
      simp only [deflateStored, List.length_append, storedEnc_length, List.length_cons] at ih ⊢
      omega

theorem le32_enc32 (n : Nat) (h : n < 4294967296) (x : Bytes) : le32 (enc32 n ++ x) = n := by
  simp only [le32, enc32, List.cons_append, List.nil_append, List.getD_cons_zero, List.getD_cons_succ,
    UInt8.toNat_ofNat']
  omega

theorem enc32_length (n : Nat) : (enc32 n).length = 4 := rfl

theorem trailer_length (d : Bytes) : (trailer d).length = 8 := rfl

theorem trailer_check (d x : Bytes) :
    le32 (trailer d ++ x) = (crcUpdate 0 d).toNat ∧ le32 ((trailer d ++ x).drop 4) = d.length % 4294967296 := by
  constructor
  · unfold trailer
    rw [List.append_assoc, le32_enc32 _ (crcUpdate 0 d).toNat_lt]
  · have : (trailer d ++ x).drop 4 = enc32 (d.length % 4294967296) ++ x := by
      simp [trailer, enc32]
    rw [this, le32_enc32 _ (Nat.mod_lt _ (by omega))]

theorem memberBody_stored (chunks : List Bytes) (hok : ChunksOk chunks) (rest : Bytes) :
    memberBody (deflateStored chunks ++ trailer chunks.flatten ++ rest) = (chunks.flatten, some rest) := by
  unfold memberBody
  simp only [List.append_assoc]
  rw [inflate_deflateStored chunks hok.1 hok.2 _ #[] _ (by
    rw [bitsOf_length, List.length_append]
    have := deflateStored_length_ge chunks
    omega)]
  simp only [Array.empty_append, List.toList_toArray, align_bitsOf, bytesOf_bitsOf]
  have h8 := readFull_append (trailer chunks.flatten) rest
  rw [trailer_length] at h8
  rw [h8]
  have hc := trailer_check chunks.flatten []
  simp only [List.append_nil] at hc
  simp [hc.1, hc.2]

/-! ## the file: members one after the other, then the end of the file or something that is no header -/

theorem noEOF_ne_eof (e : HdrErr) : noEOF e ≠ .eof := by cases e <;> simp [noEOF]

theorem stageExtra_ne_eof (flg : UInt8) (r : Bytes) (dg : UInt32) : stageExtra flg r dg ≠ .error .eof := by
  unfold stageExtra
  split
  · split
    · intro h; injection h with h; exact noEOF_ne_eof _ h
    · split
      · intro h; injection h with h; exact noEOF_ne_eof _ h
      · intro h; cases h
  · intro h; cases h

theorem stageString_ne_eof (flg bit : UInt8) (r : Bytes) (dg : UInt32) : stageString flg bit r dg ≠ .error .eof := by
  unfold stageString
  split
  · split
    · intro h; injection h with h; exact noEOF_ne_eof _ h
    · intro h; cases h
  · intro h; cases h

theorem stageCrc_ne_eof (flg : UInt8) (r : Bytes) (dg : UInt32) : stageCrc flg r dg ≠ .error .eof := by
  unfold stageCrc
  split
  · split
    · intro h; injection h with h; exact noEOF_ne_eof _ h
    · split <;> (intro h; cases h)
  · intro h; cases h

theorem readHeaderRest_eof (s : Bytes) : readHeaderRest s = .error .eof ↔ s = [] := by
  constructor
  · intro h
    unfold readHeaderRest at h
    split at h
    · rename_i e he
      unfold readFull at he
      split at he
      · cases he
      · split at he
        · assumption
        · injection he with he; injection h with h; rw [← he] at h; cases h
    · split at h
      · cases h
      · simp only [] at h
        split at h
        · rename_i e he; injection h with h; subst h; exact absurd he (stageExtra_ne_eof _ _ _)
        · split at h
          · rename_i e he; injection h with h; subst h; exact absurd he (stageString_ne_eof _ _ _ _)
          · split at h
            · rename_i e he; injection h with h; subst h; exact absurd he (stageString_ne_eof _ _ _ _)
            · exact absurd h (stageCrc_ne_eof _ _ _)
  · intro h; subst h; rfl

/-- what follows the last member: nothing, or bytes `gzip.NewReader` would not take for a header -/
def NoHeader (tail : Bytes) : Prop := ∀ r, readHeaderRest tail ≠ .ok r

theorem gunzipFrom_stored (ms : List (Hdr × List Bytes)) (hms : MembersOk ms) (cs : List Bytes) (hcs : ChunksOk cs)
    (tail : Bytes) (ht : NoHeader tail) (fuel : Nat) (hf : ms.length + 1 ≤ fuel) :
    gunzipFrom fuel (deflateStored cs ++ trailer cs.flatten ++ (fileStored ms ++ tail))
      = (cs.flatten ++ fileData ms, decide (tail ≠ [])) := by
  induction ms generalizing cs fuel with
  | nil =>
    cases fuel with
    | zero => simp at hf
    | succ fuel =>
      rw [gunzipFrom, memberBody_stored cs hcs]
      simp only [fileStored, List.nil_append, fileData, List.map_nil, List.flatten_nil, List.append_nil]
      cases hr : readHeaderRest tail with
      | ok r => exact absurd hr (ht r)
      | error e =>
        cases e with
        | eof =>
          have := (readHeaderRest_eof tail).1 hr
          simp [this]
        | unexpectedEOF =>
          have : tail ≠ [] := fun h => by rw [(readHeaderRest_eof tail).2 h] at hr; cases hr
          simp [this]
        | header =>
          have : tail ≠ [] := fun h => by rw [(readHeaderRest_eof tail).2 h] at hr; cases hr
          simp [this]
  | cons m ms ih =>
    cases fuel with
    | zero => simp at hf
    | succ fuel =>
      rw [gunzipFrom, memberBody_stored cs hcs]
      have hm := hms m (by simp)
      simp only [fileStored, memberStored, List.append_assoc]
      rw [readHeaderRest_encode m.1 hm.1]
      simp only []
      have := ih (fun x hx => hms x (by simp [hx])) m.2 hm.2 fuel (by simp at hf ⊢; omega)
      simp only [List.append_assoc] at this
      rw [this]
      simp [fileData]

theorem encode_length_pos (h : Hdr) : 0 < h.encode.length := by
  simp [Hdr.encode, Hdr.body] <;> omega

theorem fileStored_length_ge (ms : List (Hdr × List Bytes)) : ms.length ≤ (fileStored ms).length := by
  induction ms with
  | nil => simp
  | cons m ms ih =>
    have := encode_length_pos m.1
    simp only [fileStored, memberStored, List.length_append, List.length_cons] at ih ⊢
    omega

/-- a file of stored members followed by `tail` -/
theorem gunzip_fileStored (m : Hdr × List Bytes) (ms : List (Hdr × List Bytes)) (hms : MembersOk (m :: ms))
    (tail : Bytes) (ht : NoHeader tail) :
    gunzip (fileStored (m :: ms) ++ tail) = some (fileData (m :: ms), decide (tail ≠ [])) := by
  have hm := hms m (by simp)
  unfold gunzip
  simp only [fileStored, memberStored, List.append_assoc]
  rw [readHeaderRest_encode m.1 hm.1]
  simp only []
  have := gunzipFrom_stored ms (fun x hx => hms x (by simp [hx])) m.2 hm.2 tail ht
  simp only [List.append_assoc] at this
  rw [this]
  · simp [fileData]
  · have := fileStored_length_ge ms
    simp only [List.length_append]
    omega

/-! ## truncation: every proper prefix of a member that still has its header fails, after a prefix of the data -/

theorem takeBits_none : ∀ (n : Nat) (s : Bits), s.length < n → takeBits n s = none
  | 0, _, h => by simp at h
  | n + 1, [], _ => rfl
  | n + 1, b :: s, h => by
    simp only [List.length_cons] at h
    simp [takeBits, takeBits_none n s (by omega)]

theorem readBits_none (n : Nat) (s : Bits) (h : s.length < n) : readBits n s = none := by
  simp [readBits, takeBits_none n s h]

theorem copyStored_short (q : Bytes) (n : Nat) (out : Array UInt8) (h : q.length < n) :
    copyStored n (bitsOf q) out = (out ++ q.toArray, none) := by
  induction q generalizing n out with
  | nil =>
    cases n with
    | zero => simp at h
    | succ n => simp [bitsOf, copyStored]
  | cons b q ih =>
    cases n with
    | zero => simp at h
    | succ n =>
      rw [bitsOf_cons]
      show copyStored (n + 1) (_ :: _ :: _ :: _ :: _ :: _ :: _ :: _ :: bitsOf q) out = _
      rw [copyStored, ih n _ (by simp at h; omega)]
      have := byte_of_bits b
      unfold byteBits at this
      rw [this]
      simp

theorem readBits16_two (a b : UInt8) (q : Bytes) :
    ∃ v, readBits 16 (bitsOf (a :: b :: q)) = some (v, bitsOf q) := by
  rw [bitsOf_cons, bitsOf_cons, ← List.append_assoc]
  have := readBits_append (byteBits a ++ byteBits b) (bitsOf q)
  exact ⟨_, this⟩

/-- the block is cut inside LEN / NLEN -/
theorem storedBlock_cut_hdr (q : Bytes) (hq : q.length < 4) (out : Array UInt8) :
    storedBlock ([false, false, false, false, false] ++ bitsOf q) out = (out, none) := by
  unfold storedBlock
  rw [align_pad5]
  match q, hq with
  | [], _ => rfl
  | [a], _ => rw [readBits_none 16 _ (by simp [bitsOf_length])]
  | a :: b :: q', hq =>
    obtain ⟨v, hv⟩ := readBits16_two a b q'
    rw [hv]
    simp only []
    rw [readBits_none 16 _ (by simp [bitsOf_length] at hq ⊢; omega)]

/-- the block is cut inside its data: the bytes that are there are delivered, then the read fails -/
theorem storedBlock_cut_data (c q : Bytes) (hc : c.length ≤ 65535) (hq : q.length < c.length) (out : Array UInt8) :
    storedBlock ([false, false, false, false, false] ++ bitsOf (enc16 c.length ++ enc16 (65535 - c.length) ++ q)) out
      = (out ++ q.toArray, none) := by
  unfold storedBlock
  rw [align_pad5]
  simp only [List.append_assoc]
  rw [readBits16_enc16 _ (by omega)]
  simp only []
  rw [readBits16_enc16 _ (by omega)]
  simp only [ne_eq, not_true_eq_false, ↓reduceIte]
  exact copyStored_short q c.length out hq

theorem inflate_zero (s : Bits) (out : Array UInt8) : inflate 0 s out = (out, none) := rfl

/-- one block cut anywhere before its end -/
theorem inflate_cut_block (f : Bool) (c R : Bytes) (hc : c.length ≤ 65535) (j : Nat) (hj : j < 5 + c.length)
    (out : Array UInt8) (fuel : Nat) :
    ∃ d : Bytes, inflate fuel (bitsOf ((storedEnc f c ++ R).take j)) out = (out ++ d.toArray, none) ∧ d <+: c := by
  cases fuel with
  | zero => exact ⟨[], by simp [inflate_zero], List.nil_prefix⟩
  | succ fuel =>
    cases j with
    | zero => exact ⟨[], by simp [bitsOf, inflate, readBits, takeBits], List.nil_prefix⟩
    | succ j =>
      rw [storedEnc_append, List.take_succ_cons, inflate, readBits3_hdr]
      have h0 : (if f = true then 1 else 0) / 2 = 0 := by cases f <;> rfl
      simp only [h0]
      by_cases h4 : j < 4
      · have hl : ((enc16 c.length ++ enc16 (65535 - c.length) ++ c ++ R).take j).length < 4 := by
          rw [List.length_take]; omega
        rw [storedBlock_cut_hdr _ hl]
        exact ⟨[], by simp, List.nil_prefix⟩
      · have ht : (enc16 c.length ++ enc16 (65535 - c.length) ++ c ++ R).take j
            = enc16 c.length ++ enc16 (65535 - c.length) ++ c.take (j - 4) := by
          have e4 : (enc16 c.length ++ enc16 (65535 - c.length)).length = 4 := rfl
          rw [List.append_assoc (enc16 c.length ++ enc16 (65535 - c.length)), List.take_append, e4,
            List.take_of_length_le (by rw [e4]; omega), List.take_append_of_le_length (by omega)]
        rw [ht, storedBlock_cut_data c _ hc (by rw [List.length_take]; omega)]
        exact ⟨c.take (j - 4), rfl, List.take_prefix _ _⟩

theorem deflateStored_length (cs : List Bytes) : (deflateStored cs).length = (cs.map fun c => 5 + c.length).sum := by
  induction cs with
  | nil => rfl
  | cons c cs ih =>
    cases cs with
    | nil => simp [deflateStored, storedEnc_length]
    | cons c2 cs => simp only [deflateStored, List.length_append, storedEnc_length, ih, List.map_cons, List.sum_cons]

/-- a stream of stored blocks cut anywhere before its end -/
theorem inflate_cut (cs : List Bytes) (hc : ∀ c ∈ cs, c.length ≤ 65535) (j : Nat) (hj : j < (deflateStored cs).length)
    (out : Array UInt8) (fuel : Nat) :
    ∃ d : Bytes, inflate fuel (bitsOf ((deflateStored cs).take j)) out = (out ++ d.toArray, none) ∧ d <+: cs.flatten := by
  induction cs generalizing j out fuel with
  | nil => simp [deflateStored] at hj
  | cons c cs ih =>
    have hcc := hc c (by simp)
    cases cs with
    | nil =>
      simp only [deflateStored, storedEnc_length] at hj
      have := inflate_cut_block true c [] hcc j hj out fuel
      simp only [List.append_nil] at this
      obtain ⟨d, h1, h2⟩ := this
      exact ⟨d, by simpa [deflateStored] using h1, by simpa using h2⟩
    | cons c2 cs =>
      by_cases hb : j < 5 + c.length
      · obtain ⟨d, h1, h2⟩ := inflate_cut_block false c (deflateStored (c2 :: cs)) hcc j hb out fuel
        refine ⟨d, by simpa [deflateStored] using h1, ?_⟩
        exact h2.trans (by simp)
      · cases fuel with
        | zero => exact ⟨[], by simp [inflate_zero], List.nil_prefix⟩
        | succ fuel =>
          have ht : (deflateStored (c :: c2 :: cs)).take j
              = storedEnc false c ++ (deflateStored (c2 :: cs)).take (j - (5 + c.length)) := by
            simp only [deflateStored]
            rw [List.take_append, storedEnc_length, List.take_of_length_le (by rw [storedEnc_length]; omega)]
          rw [ht, inflate_storedEnc_nonfinal c _ out fuel hcc]
          have hj' : j - (5 + c.length) < (deflateStored (c2 :: cs)).length := by
            simp only [deflateStored, List.length_append, storedEnc_length] at hj
            omega
          obtain ⟨d, h1, h2⟩ := ih (fun x hx => hc x (by simp [hx])) (j - (5 + c.length)) hj' (out ++ c.toArray) fuel
          refine ⟨c ++ d, ?_, ?_⟩
          · rw [h1]; simp
          · simp only [List.flatten_cons] at h2 ⊢
            exact (List.prefix_append_right_inj c).2 h2

theorem readFull_short (n : Nat) (s : Bytes) (h : s.length < n) : ∃ e, readFull n s = .error e := by
  unfold readFull
  rw [if_neg (by omega)]
  split <;> exact ⟨_, rfl⟩

/-- the member body (DEFLATE stream + trailer) cut anywhere before its end -/
theorem memberBody_cut (cs : List Bytes) (hok : ChunksOk cs) (j : Nat)
    (hj : j < (deflateStored cs ++ trailer cs.flatten).length) :
    ∃ d : Bytes, memberBody ((deflateStored cs ++ trailer cs.flatten).take j) = (d, none) ∧ d <+: cs.flatten := by
  unfold memberBody
  by_cases hd : j < (deflateStored cs).length
  · rw [List.take_append_of_le_length (by omega)]
    obtain ⟨d, h1, h2⟩ := inflate_cut cs hok.2 j hd #[] ((bitsOf ((deflateStored cs).take j)).length + 1)
    dsimp only
    rw [h1]
    exact ⟨d, by simp, h2⟩
  · rw [List.take_append, List.take_of_length_le (by omega)]
    dsimp only
    rw [inflate_deflateStored cs hok.1 hok.2 _ #[] _ (by
      rw [bitsOf_length, List.length_append]
      have := deflateStored_length_ge cs
      omega)]
    simp only [Array.empty_append, List.toList_toArray, align_bitsOf, bytesOf_bitsOf]
    have hl : ((trailer cs.flatten).take (j - (deflateStored cs).length)).length < 8 := by
      rw [List.length_take, trailer_length]
      rw [List.length_append, trailer_length] at hj
      omega
    obtain ⟨e, he⟩ := readFull_short 8 _ hl
    rw [he]
    exact ⟨cs.flatten, rfl, List.prefix_refl _⟩

/-- **A gzip file cut anywhere after its header and before its end fails**, after delivering a prefix of its data. -/
theorem gunzip_cut (h : Hdr) (hw : h.WF) (cs : List Bytes) (hok : ChunksOk cs) (k : Nat)
    (hk1 : h.encode.length ≤ k) (hk2 : k < (memberStored h cs).length) :
    ∃ d : Bytes, gunzip ((memberStored h cs).take k) = some (d, true) ∧ d <+: cs.flatten := by
  unfold memberStored at hk2 ⊢
  rw [List.append_assoc, List.take_append, List.take_of_length_le hk1]
  unfold gunzip
  rw [readHeaderRest_encode h hw]
  simp only [List.length_append, gunzipFrom]
  have hj : k - h.encode.length < (deflateStored cs ++ trailer cs.flatten).length := by
    simp only [List.length_append] at hk2 ⊢; omega
  obtain ⟨d, h1, h2⟩ := memberBody_cut cs hok _ hj
  rw [h1]
  exact ⟨d, rfl, h2⟩


/-! ## truncation of a file of several members -/

/-- a proper, non-empty prefix of a header is no header (the encodings of headers are prefix-free) -/
theorem noHeader_cut_header (h : Hdr) (hw : h.WF) (j : Nat) (hj : j < h.encode.length) : NoHeader (h.encode.take j) := by
  intro r hr
  obtain ⟨hd, hdw, hs⟩ := readHeaderRest_sound _ _ hr
  have e1 : h.encode = hd.encode ++ (r ++ h.encode.drop j) := by
    rw [← List.append_assoc, ← hs, List.take_append_drop]
  have h1 := readHeaderRest_encode h hw []
  rw [List.append_nil, e1, readHeaderRest_encode hd hdw] at h1
  injection h1 with h1
  have : h.encode.drop j = [] := (List.append_eq_nil_iff.1 h1).2
  have := List.drop_eq_nil_iff.1 this
  omega

/-- complete members, then a member whose body is cut: everything decoded so far, then a read error -/
theorem gunzipFrom_stored_cut (ms : List (Hdr × List Bytes)) (hms : MembersOk ms) (cs : List Bytes) (hcs : ChunksOk cs)
    (h : Hdr) (hw : h.WF) (Y d : Bytes) (hY : memberBody Y = (d, none)) (fuel : Nat) (hf : ms.length + 2 ≤ fuel) :
    gunzipFrom fuel (deflateStored cs ++ trailer cs.flatten ++ (fileStored ms ++ (h.encode ++ Y)))
      = (cs.flatten ++ fileData ms ++ d, true) := by
  induction ms generalizing cs fuel with
  | nil =>
    match fuel, hf with
    | fuel + 2, _ =>
      rw [gunzipFrom, memberBody_stored cs hcs]
      simp only [fileStored, List.nil_append, fileData, List.map_nil, List.flatten_nil, List.append_nil]
      rw [readHeaderRest_encode h hw]
      simp only [gunzipFrom, hY]
  | cons m ms ih =>
    cases fuel with
    | zero => simp at hf
    | succ fuel =>
      rw [gunzipFrom, memberBody_stored cs hcs]
      have hm := hms m (by simp)
      simp only [fileStored, memberStored, List.append_assoc]
      rw [readHeaderRest_encode m.1 hm.1]
      simp only []
      have := ih (fun x hx => hms x (by simp [hx])) m.2 hm.2 fuel (by simp at hf ⊢; omega)
      simp only [List.append_assoc] at this
      rw [this]
      simp [fileData]

theorem memberStored_length (h : Hdr) (cs : List Bytes) :
    (memberStored h cs).length = h.encode.length + (deflateStored cs ++ trailer cs.flatten).length := by
  simp [memberStored, List.append_assoc]

/-- **A file of gzip members cut anywhere**: `ms1` complete members, then `j` bytes of the next member `m`
    (`j` < its length; for the very first member the header must be there – `gzip_cut_in_header_is_plain`).
    The data of the complete members and a prefix of `m`'s data are delivered; the stream ends with a read error
    UNLESS the cut is exactly at the member boundary (`j = 0`), where what is left is a complete gzip file. -/
theorem gunzip_cut_file (ms1 : List (Hdr × List Bytes)) (m : Hdr × List Bytes) (hms : MembersOk (ms1 ++ [m])) (j : Nat)
    (hj : j < (memberStored m.1 m.2).length) (hfirst : ms1 = [] → m.1.encode.length ≤ j) :
    ∃ d : Bytes, d <+: m.2.flatten ∧
      gunzip (fileStored ms1 ++ (memberStored m.1 m.2).take j) = some (fileData ms1 ++ d, decide (j ≠ 0)) := by
  have hm := hms m (by simp)
  by_cases hh : m.1.encode.length ≤ j
  · -- the header of `m` is there, its body is cut
    have hjb : j - m.1.encode.length < (deflateStored m.2 ++ trailer m.2.flatten).length := by
      rw [memberStored_length] at hj; omega
    obtain ⟨d, h1, h2⟩ := memberBody_cut m.2 hm.2 _ hjb
    have hcut : (memberStored m.1 m.2).take j
        = m.1.encode ++ (deflateStored m.2 ++ trailer m.2.flatten).take (j - m.1.encode.length) := by
      unfold memberStored
      rw [List.append_assoc, List.take_append, List.take_of_length_le hh]
    have hj0 : j ≠ 0 := by have := encode_length_pos m.1; omega
    refine ⟨d, h2, ?_⟩
    rw [hcut]
    simp only [hj0, ne_eq, not_false_eq_true, decide_true]
    cases ms1 with
    | nil =>
      simp only [fileStored, List.nil_append, fileData, List.map_nil, List.flatten_nil]
      unfold gunzip
      rw [readHeaderRest_encode m.1 hm.1]
      simp only [gunzipFrom, h1]
    | cons m0 ms =>
      have hm0 := hms m0 (by simp)
      unfold gunzip
      simp only [fileStored, memberStored, List.append_assoc]
      rw [readHeaderRest_encode m0.1 hm0.1]
      simp only []
      have := gunzipFrom_stored_cut ms (fun x hx => hms x (by simp [hx])) m0.2 hm0.2 m.1 hm.1 _ d h1
      simp only [List.append_assoc] at this
      rw [this]
      · simp [fileData]
      · have := fileStored_length_ge ms
        have := encode_length_pos m.1
        simp only [List.length_append]
        omega
  · -- the cut is inside the header of `m` (or right before it): `ms1` is a complete file followed by a non-header
    have hlt : j < m.1.encode.length := by omega
    cases ms1 with
    | nil => exact absurd (hfirst rfl) hh
    | cons m0 ms =>
      have hcut : (memberStored m.1 m.2).take j = m.1.encode.take j := by
        unfold memberStored
        rw [List.append_assoc, List.take_append_of_le_length (by omega)]
      refine ⟨[], List.nil_prefix, ?_⟩
      rw [hcut, gunzip_fileStored m0 ms (fun x hx => hms x (by
        simp only [List.cons_append, List.mem_cons, List.mem_append] at hx ⊢
        rcases hx with hx | hx
        · exact Or.inl hx
        · exact Or.inr (Or.inl hx))) _ (noHeader_cut_header m.1 hm.1 j hlt)]
      have : (m.1.encode.take j ≠ []) ↔ j ≠ 0 := by
        have := encode_length_pos m.1
        rw [ne_eq, List.take_eq_nil_iff]
        constructor
        · intro h1 h2; exact h1 (Or.inl h2)
        · intro h1 h2
          rcases h2 with h2 | h2
          · exact h1 h2
          · rw [h2] at this; simp at this
      simp [this]

/-- every cut point of a file of members is of that form -/
theorem fileStored_cut_decompose (ms : List (Hdr × List Bytes)) (k : Nat) (hk : k < (fileStored ms).length) :
    ∃ ms1 m ms2 j, ms = ms1 ++ m :: ms2 ∧ k = (fileStored ms1).length + j ∧ j < (memberStored m.1 m.2).length ∧
      (fileStored ms).take k = fileStored ms1 ++ (memberStored m.1 m.2).take j := by
  induction ms generalizing k with
  | nil => simp [fileStored] at hk
  | cons m ms ih =>
    by_cases hlt : k < (memberStored m.1 m.2).length
    · refine ⟨[], m, ms, k, rfl, by simp [fileStored], hlt, ?_⟩
      simp only [fileStored, List.nil_append]
      rw [List.take_append_of_le_length (by omega)]
    · simp only [fileStored, List.length_append] at hk
      obtain ⟨ms1, m', ms2, j, h1, h2, h3, h4⟩ := ih (k - (memberStored m.1 m.2).length) (by omega)
      refine ⟨m :: ms1, m', ms2, j, by simp [h1], by simp only [fileStored, List.length_append]; omega, h3, ?_⟩
      simp only [fileStored]
      rw [List.take_append, List.take_of_length_le (by omega), h4, List.append_assoc]

end Rare.C06.Gz
