import Rare.Model.C06Glob
import Rare.Spec.C06Glob
namespace Rare.C06.Glob
open Rare.C20 (decode1 isCont accLo accHi runeError)
open Rare.C06.Spec

/-! ### `decode1` -/

theorem decode1_width_pos (s : Bytes) : 1 ≤ (decode1 s).2 := by
  unfold decode1
  split
  · simp
  · simp only [apply_ite Prod.snd]
    repeat' split
    all_goals simp

theorem decode1_width_le_length (s : Bytes) (h : s ≠ []) : (decode1 s).2 ≤ s.length := by
  unfold decode1
  split
  · simp at h
  · simp only [apply_ite Prod.snd]
    repeat' split
    all_goals simp

theorem decode1_ascii (c : UInt8) (s : Bytes) (h : c.toNat < 128) : decode1 (c :: s) = (c.toNat, 1) := by
  simp [decode1, h]

/-- A well-formed sequence is read the same way whatever follows it. -/
theorem decode1_local (s tail : Bytes) (hv : ValidRune s) :
    decode1 (s.take (decode1 s).2 ++ tail) = decode1 s := by
  unfold ValidRune at hv
  match s with
  | [] => simp [decode1, runeError] at hv
  | b0 :: tl =>
    by_cases h0 : b0.toNat < 128
    · simp [decode1, h0]
    · match tl with
      | [] => simp [decode1, h0, runeError] at hv
      | b1 :: tl1 =>
        by_cases h1 : 0xC2 ≤ b0.toNat ∧ b0.toNat ≤ 0xDF ∧ isCont b1.toNat
        · simp [decode1, h0, h1]
        · match tl1 with
          | [] => simp [decode1, h0, h1, runeError] at hv
          | b2 :: tl2 =>
            by_cases h2 : 0xE0 ≤ b0.toNat ∧ b0.toNat ≤ 0xEF ∧ accLo b0.toNat ≤ b1.toNat ∧ b1.toNat ≤ accHi b0.toNat ∧ isCont b2.toNat
            · simp [decode1, h0, h1, h2]
            · match tl2 with
              | [] => simp [decode1, h0, h1, h2, runeError] at hv
              | b3 :: tl3 =>
                by_cases h3 : 0xF0 ≤ b0.toNat ∧ b0.toNat ≤ 0xF4 ∧ accLo b0.toNat ≤ b1.toNat ∧ b1.toNat ≤ accHi b0.toNat ∧ isCont b2.toNat ∧ isCont b3.toNat
                · have h2' : ¬ (224 ≤ b0.toNat ∧ b0.toNat ≤ 239) := by omega
                  simp [decode1, h0, h1, h2', h3]
                · simp [decode1, h0, h1, h2, h3, runeError] at hv

/-- The bytes of a sequence wider than one byte are all ≥ 0x80. -/
theorem decode1_wide_bytes (s : Bytes) (h : 2 ≤ (decode1 s).2) :
    ∀ b ∈ s.take (decode1 s).2, 128 ≤ b.toNat := by
  match s with
  | [] => simp [decode1] at h
  | b0 :: tl =>
    by_cases h0 : b0.toNat < 128
    · simp [decode1, h0] at h
    · match tl with
      | [] => simp [decode1, h0] at h
      | b1 :: tl1 =>
        by_cases h1 : 0xC2 ≤ b0.toNat ∧ b0.toNat ≤ 0xDF ∧ isCont b1.toNat
        · simp [decode1, h0, h1]
          simp [isCont] at h1; omega
        · match tl1 with
          | [] => simp [decode1, h0, h1] at h
          | b2 :: tl2 =>
            by_cases h2 : 0xE0 ≤ b0.toNat ∧ b0.toNat ≤ 0xEF ∧ accLo b0.toNat ≤ b1.toNat ∧ b1.toNat ≤ accHi b0.toNat ∧ isCont b2.toNat
            · simp [decode1, h0, h1, h2]
              simp [isCont, accLo] at h2
              refine ⟨by omega, ?_, by omega⟩
              have := h2.2.2.1
              split at this <;> try split at this
              all_goals omega
            · match tl2 with
              | [] => simp [decode1, h0, h1, h2] at h
              | b3 :: tl3 =>
                by_cases h3 : 0xF0 ≤ b0.toNat ∧ b0.toNat ≤ 0xF4 ∧ accLo b0.toNat ≤ b1.toNat ∧ b1.toNat ≤ accHi b0.toNat ∧ isCont b2.toNat ∧ isCont b3.toNat
                · have h2' : ¬ (224 ≤ b0.toNat ∧ b0.toNat ≤ 239) := by omega
                  simp [decode1, h0, h1, h2', h3]
                  simp [isCont, accLo] at h3
                  refine ⟨by omega, ?_, by omega, by omega⟩
                  have := h3.2.2.1
                  split at this <;> try split at this
                  all_goals omega
                · simp [decode1, h0, h1, h2, h3] at h

/-! ### `matchChunk` = parse the chunk, then run the items -/

/-- Deterministic matcher for a star-free item list: the rest of `s` after the items, if they fit. -/
def matchItems : List Item → Bytes → Option Bytes
  | [], s => some s
  | .lit b :: its, s =>
    match s with
    | [] => none
    | c :: rest => if c = b then matchItems its rest else none
  | .any :: its, s =>
    if s = [] ∨ s.head? = some 47 then none else matchItems its (s.drop (decode1 s).2)
  | .cls neg rs :: its, s =>
    if s = [] ∨ inRanges (decode1 s).1 rs = neg then none else matchItems its (s.drop (decode1 s).2)
  | .star :: _, _ => none

/-- the parsing side of `classLoop` -/
def classRanges : Nat → Bytes → Nat → Option (List (Nat × Nat) × Bytes)
  | 0, _, _ => none
  | f + 1, chunk, nrange =>
    if chunk.head? = some 93 ∧ nrange > 0 then some ([], chunk.tail)
    else match getEsc chunk with
      | none => none
      | some (lo, chunk1) =>
        match (if chunk1.head? = some 45 then getEsc chunk1.tail else some (lo, chunk1)) with
        | none => none
        | some (hi, chunk2) => (classRanges f chunk2 (nrange + 1)).map fun p => ((lo, hi) :: p.1, p.2)

theorem classLoop_eq (f : Nat) : ∀ (chunk : Bytes) (r : Nat) (m : Bool) (n : Nat),
    classLoop f chunk r m n = (classRanges f chunk n).map fun p => (m || inRanges r p.1, p.2) := by
  induction f with
  | zero => intro chunk r m n; rfl
  | succ f ih =>
    intro chunk r m n
    unfold classLoop classRanges
    by_cases h0 : chunk.head? = some 93 ∧ n > 0
    · simp [h0, inRanges]
    · simp only [h0, if_false]
      cases h1 : getEsc chunk with
      | none => rfl
      | some p1 =>
        obtain ⟨lo, chunk1⟩ := p1
        simp only []
        cases h2 : (if chunk1.head? = some 45 then getEsc chunk1.tail else some (lo, chunk1)) with
        | none => rfl
        | some p2 =>
          obtain ⟨hi, chunk2⟩ := p2
          simp only [ih, Option.map_map]
          congr 1
          funext p
          simp [inRanges, Bool.or_assoc]

/-- the parsing side of `mcLoop` -/
def chunkItems : Nat → Bytes → Option (List Item)
  | _, [] => some []
  | 0, _ :: _ => none
  | f + 1, c :: ctl =>
    if c = 91 then
      let negated := ctl.head? = some 94
      let chunk1 := if negated then ctl.tail else ctl
      match classRanges (f + 1) chunk1 0 with
      | none => none
      | some (rs, chunk2) => (chunkItems f chunk2).map (Item.cls negated rs :: ·)
    else if c = 63 then (chunkItems f ctl).map (Item.any :: ·)
    else if c = 92 then
      match ctl with
      | [] => none
      | c1 :: ctl1 => (chunkItems f ctl1).map (Item.lit c1 :: ·)
    else (chunkItems f ctl).map (Item.lit c :: ·)

theorem chunkItems_ne_nil (f : Nat) (c : UInt8) (ctl : Bytes) : chunkItems f (c :: ctl) ≠ some [] := by
  cases f with
  | zero => simp [chunkItems]
  | succ f =>
    simp only [chunkItems]
    split
    · split
      · simp
      · cases chunkItems f _ <;> simp
    · split
      · cases chunkItems f ctl <;> simp
      · split
        · split
          · simp
          · cases chunkItems f _ <;> simp
        · cases chunkItems f ctl <;> simp

theorem mcLoop_failed (f : Nat) : ∀ (chunk s : Bytes),
    mcLoop f chunk s true = match chunkItems f chunk with | none => .bad | some _ => .ok none := by
  induction f with
  | zero => intro chunk s; cases chunk <;> simp [mcLoop, chunkItems]
  | succ f ih =>
    intro chunk s
    cases chunk with
    | nil => simp [mcLoop, chunkItems]
    | cons c ctl =>
      unfold mcLoop chunkItems
      simp only [Bool.true_or, if_true]
      split
      · rw [classLoop_eq]
        cases classRanges (f + 1) (if ctl.head? = some 94 then ctl.tail else ctl) 0 with
        | none => rfl
        | some p =>
          simp only [Option.map_some, ih]
          cases chunkItems f p.2 <;> rfl
      · split
        · rw [ih]; cases chunkItems f ctl <;> rfl
        · split
          · cases ctl with
            | nil => rfl
            | cons c1 ctl1 => simp only [ih]; cases chunkItems f ctl1 <;> rfl
          · rw [ih]; cases chunkItems f ctl <;> rfl

theorem mcLoop_eq (f : Nat) : ∀ (chunk s : Bytes),
    mcLoop f chunk s false = match chunkItems f chunk with
      | none => .bad
      | some its => .ok (matchItems its s) := by
  induction f with
  | zero => intro chunk s; cases chunk <;> simp [mcLoop, chunkItems, matchItems]
  | succ f ih =>
    intro chunk s
    cases chunk with
    | nil => simp [mcLoop, chunkItems, matchItems]
    | cons c ctl =>
      cases s with
      | nil =>
        -- the name is used up: `failed` is set, the chunk is only parsed
        have := mcLoop_failed (f + 1) (c :: ctl) []
        unfold mcLoop at this ⊢
        simp only [Bool.false_or, List.isEmpty_nil, Bool.true_or] at this ⊢
        rw [this]
        cases h : chunkItems (f + 1) (c :: ctl) with
        | none => rfl
        | some its =>
          cases its with
          | nil => exact absurd h (chunkItems_ne_nil _ _ _)
          | cons it its => cases it <;> simp [matchItems]
      | cons a s =>
        unfold mcLoop chunkItems
        simp only [Bool.false_or, List.isEmpty_cons, Bool.false_eq_true, if_false]
        split
        · rw [classLoop_eq]
          cases classRanges (f + 1) (if ctl.head? = some 94 then ctl.tail else ctl) 0 with
          | none => rfl
          | some p =>
            simp only [Option.map_some, Bool.false_or]
            by_cases hm : inRanges (decode1 (a :: s)).1 p.1 = decide (ctl.head? = some 94)
            · have : (inRanges (decode1 (a :: s)).1 p.1 == decide (ctl.head? = some 94)) = true := by simp [hm]
              rw [this, mcLoop_failed]
              cases chunkItems f p.2 with
              | none => rfl
              | some its => simp [matchItems, hm]
            · have : (inRanges (decode1 (a :: s)).1 p.1 == decide (ctl.head? = some 94)) = false := by simp [hm]
              rw [this, ih]
              cases chunkItems f p.2 with
              | none => rfl
              | some its => simp [matchItems, hm]
        · split
          · by_cases ha : a = 47
            · subst ha
              simp only [List.head?_cons, beq_self_eq_true, mcLoop_failed]
              cases chunkItems f ctl with
              | none => rfl
              | some its => simp [matchItems]
            · have : (((a :: s).head? == some 47)) = false := by simp [ha]
              rw [this, ih]
              cases chunkItems f ctl with
              | none => rfl
              | some its => simp [matchItems, ha]
          · split
            · cases ctl with
              | nil => rfl
              | cons c1 ctl1 =>
                simp only [List.head?_cons, List.tail_cons]
                by_cases hc : a = c1
                · subst hc
                  simp only [bne_self_eq_false, ih]
                  cases chunkItems f ctl1 with
                  | none => rfl
                  | some its => simp [matchItems]
                · have : (some a != some c1) = true := by simp [hc]
                  rw [this, mcLoop_failed]
                  cases chunkItems f ctl1 with
                  | none => rfl
                  | some its => simp [matchItems, hc]
            · simp only [List.head?_cons, List.tail_cons]
              by_cases hc : a = c
              · subst hc
                simp only [bne_self_eq_false, ih]
                cases chunkItems f ctl with
                | none => rfl
                | some its => simp [matchItems]
              · have : (some a != some c) = true := by simp [hc]
                rw [this, mcLoop_failed]
                cases chunkItems f ctl with
                | none => rfl
                | some its => simp [matchItems, hc]

theorem matchChunk_eq (chunk s : Bytes) :
    matchChunk chunk s = match chunkItems (chunk.length + 1) chunk with
      | none => .bad
      | some its => .ok (matchItems its s) := mcLoop_eq _ _ _

/-! ### `getEsc` / `classRanges` against the grammar -/

theorem _root_.Rare.C06.Spec.ClassChar.length_lt {s rest : Bytes} {r : Nat} (h : ClassChar s r rest) : rest.length < s.length := by
  cases h with
  | plain c s _ _ _ _ =>
    have := decode1_width_pos (c :: s)
    simp only [List.length_drop, List.length_cons]; omega
  | esc c s _ =>
    have := decode1_width_pos (c :: s)
    simp only [List.length_drop, List.length_cons]; omega

theorem _root_.Rare.C06.Spec.ClassChar.head_ne {s rest : Bytes} {r : Nat} (h : ClassChar s r rest) : s.head? ≠ some 93 := by
  cases h with
  | plain c s _ _ h3 _ => simpa using h3
  | esc c s _ => simp

theorem getEsc_iff (s : Bytes) (r : Nat) (rest : Bytes) :
    getEsc s = some (r, rest) ↔ ClassChar s r rest ∧ rest ≠ [] := by
  constructor
  · intro h
    unfold getEsc at h
    match s with
    | [] => simp at h
    | c :: tl =>
      simp only at h
      by_cases hc : c = 45 ∨ c = 93
      · simp [hc] at h
      · simp only [hc, if_false] at h
        have hc45 : c ≠ 45 := fun e => hc (Or.inl e)
        have hc93 : c ≠ 93 := fun e => hc (Or.inr e)
        by_cases hb : c = 92
        · subst hb
          simp only [if_true] at h
          match tl with
          | [] => simp at h
          | c1 :: tl1 =>
            simp only [reduceCtorEq, if_false] at h
            by_cases hv : (decode1 (c1 :: tl1)).1 = 0xFFFD ∧ (decode1 (c1 :: tl1)).2 = 1
            · simp [hv] at h
            · simp only [hv, if_false] at h
              by_cases hn : List.drop (decode1 (c1 :: tl1)).2 (c1 :: tl1) = []
              · simp [hn] at h
              · simp only [hn, if_false, Option.some.injEq, Prod.mk.injEq] at h
                obtain ⟨rfl, rfl⟩ := h
                exact ⟨ClassChar.esc c1 tl1 hv, hn⟩
        · simp only [hb, if_false, reduceCtorEq] at h
          by_cases hv : (decode1 (c :: tl)).1 = 0xFFFD ∧ (decode1 (c :: tl)).2 = 1
          · simp [hv] at h
          · simp only [hv, if_false] at h
            by_cases hn : List.drop (decode1 (c :: tl)).2 (c :: tl) = []
            · simp [hn] at h
            · simp only [hn, if_false, Option.some.injEq, Prod.mk.injEq] at h
              obtain ⟨rfl, rfl⟩ := h
              exact ⟨ClassChar.plain c tl hb hc45 hc93 hv, hn⟩
  · intro ⟨h, hn⟩
    cases h with
    | plain c s h1 h2 h3 hv =>
      unfold ValidRune at hv
      simp [getEsc, h1, h2, h3, hv, hn]
    | esc c s hv =>
      unfold ValidRune at hv
      simp [getEsc, hv, hn]

theorem _root_.Rare.C06.Spec.ClassBody.ne_nil {s rest : Bytes} {rs : List (Nat × Nat)} (h : ClassBody s rs rest) : s ≠ [] := by
  cases h with
  | close => simp
  | single hc _ _ => intro e; subst e; cases hc
  | range hc _ _ => intro e; subst e; cases hc

theorem _root_.Rare.C06.Spec.ClassBody.length_lt {s rest : Bytes} {rs : List (Nat × Nat)} (h : ClassBody s rs rest) :
    rest.length < s.length := by
  induction h with
  | close => simp
  | single hc _ _ ih => have := hc.length_lt; omega
  | range hc hc2 _ ih =>
    have := hc.length_lt; have := hc2.length_lt
    simp only [List.length_cons] at *; omega

theorem classRanges_sound (f : Nat) : ∀ (s : Bytes) (n : Nat) (rs : List (Nat × Nat)) (rest : Bytes),
    classRanges f s n = some (rs, rest) → ClassBody s rs rest ∧ (n = 0 → rs ≠ []) := by
  induction f with
  | zero => intro s n rs rest h; simp [classRanges] at h
  | succ f ih =>
    intro s n rs rest h
    unfold classRanges at h
    by_cases h0 : s.head? = some 93 ∧ n > 0
    · simp only [h0, and_self, if_true, Option.some.injEq, Prod.mk.injEq] at h
      obtain ⟨rfl, rfl⟩ := h
      match s, h0 with
      | c :: tl, h0 =>
        simp only [List.head?_cons, Option.some.injEq] at h0
        rw [h0.1]
        exact ⟨ClassBody.close _, by omega⟩
    · simp only [h0, if_false] at h
      cases h1 : getEsc s with
      | none => simp [h1] at h
      | some p1 =>
        obtain ⟨lo, s1⟩ := p1
        simp only [h1] at h
        have hc1 := (getEsc_iff s lo s1).1 h1
        by_cases h45 : s1.head? = some 45
        · simp only [h45, if_true] at h
          cases h2 : getEsc s1.tail with
          | none => simp [h2] at h
          | some p2 =>
            obtain ⟨hi, s2⟩ := p2
            simp only [h2] at h
            cases h3 : classRanges f s2 (n + 1) with
            | none => simp [h3] at h
            | some p3 =>
              simp only [h3, Option.map_some, Option.some.injEq, Prod.mk.injEq] at h
              obtain ⟨rfl, rfl⟩ := h
              have hc2 := (getEsc_iff _ hi s2).1 h2
              have hb := (ih s2 (n + 1) p3.1 p3.2 (by rw [h3])).1
              match s1, h45, hc1, hc2 with
              | c :: tl, h45, hc1, hc2 =>
                simp only [List.head?_cons, Option.some.injEq] at h45
                subst h45
                exact ⟨ClassBody.range hc1.1 hc2.1 hb, by simp⟩
        · simp only [h45, if_false] at h
          cases h3 : classRanges f s1 (n + 1) with
          | none => simp [h3] at h
          | some p3 =>
            simp only [h3, Option.map_some, Option.some.injEq, Prod.mk.injEq] at h
            obtain ⟨rfl, rfl⟩ := h
            have hb := (ih s1 (n + 1) p3.1 p3.2 (by rw [h3])).1
            exact ⟨ClassBody.single hc1.1 h45 hb, by simp⟩

theorem classRanges_complete {s rest : Bytes} {rs : List (Nat × Nat)} (h : ClassBody s rs rest) :
    ∀ (f n : Nat), s.length ≤ f → (n = 0 → rs ≠ []) → classRanges f s n = some (rs, rest) := by
  induction h with
  | close rest =>
    intro f n hf hn
    cases f with
    | zero => simp at hf
    | succ f =>
      have : n > 0 := by
        cases n with
        | zero => exact absurd rfl (hn rfl)
        | succ n => omega
      simp [classRanges, this]
  | @single s s1 rest lo rs hc h45 hb ih =>
    intro f n hf _
    cases f with
    | zero => have := hb.ne_nil; have := hc.length_lt; cases s <;> simp_all
    | succ f =>
      unfold classRanges
      have h0 : ¬ (s.head? = some 93 ∧ n > 0) := fun h => hc.head_ne h.1
      have h1 : getEsc s = some (lo, s1) := (getEsc_iff s lo s1).2 ⟨hc, hb.ne_nil⟩
      have := hc.length_lt
      simp only [h0, if_false, h1, h45, ih f (n + 1) (by omega) (by omega), Option.map_some]
  | @range s s1 s2 rest lo hi rs hc hc2 hb ih =>
    intro f n hf _
    cases f with
    | zero => have := hc.length_lt; cases s <;> simp_all
    | succ f =>
      unfold classRanges
      have h0 : ¬ (s.head? = some 93 ∧ n > 0) := fun h => hc.head_ne h.1
      have h1 : getEsc s = some (lo, 45 :: s1) := (getEsc_iff s lo _).2 ⟨hc, by simp⟩
      have h2 : getEsc s1 = some (hi, s2) := (getEsc_iff s1 hi s2).2 ⟨hc2, hb.ne_nil⟩
      have := hc.length_lt
      have := hc2.length_lt
      simp only [List.length_cons] at *
      simp only [h0, if_false, h1, List.head?_cons, if_true, List.tail_cons, h2,
        ih f (n + 1) (by omega) (by omega), Option.map_some]

/-! ### `scanChunk` follows the grammar -/

theorem scanLen_cons_ord (inr : Bool) (c : UInt8) (cs : Bytes) (h92 : c ≠ 92) (h91 : c ≠ 91) (h93 : c ≠ 93)
    (h42 : c ≠ 42 ∨ inr = true) : scanLen inr (c :: cs) = 1 + scanLen inr cs := by
  cases cs <;> rcases h42 with h | h <;> simp [scanLen, h92, h91, h93, h]
theorem scanLen_cons_open (inr : Bool) (cs : Bytes) : scanLen inr (91 :: cs) = 1 + scanLen true cs := by
  cases cs <;> simp [scanLen]
theorem scanLen_cons_close (inr : Bool) (cs : Bytes) : scanLen inr (93 :: cs) = 1 + scanLen false cs := by
  cases cs <;> simp [scanLen]
theorem scanLen_cons_esc (inr : Bool) (c : UInt8) (cs : Bytes) : scanLen inr (92 :: c :: cs) = 2 + scanLen inr cs := by
  simp [scanLen]
theorem scanLen_cons_star (cs : Bytes) : scanLen false (42 :: cs) = 0 := by
  cases cs <;> simp [scanLen]

theorem scanLen_high (inr : Bool) : ∀ (pre tail : Bytes), (∀ b ∈ pre, 128 ≤ b.toNat) →
    scanLen inr (pre ++ tail) = pre.length + scanLen inr tail := by
  intro pre
  induction pre with
  | nil => intro tail _; simp
  | cons b pre ih =>
    intro tail h
    have hb : 128 ≤ b.toNat := h b (by simp)
    have h92 : b ≠ 92 := by intro e; subst e; simp at hb
    have h91 : b ≠ 91 := by intro e; subst e; simp at hb
    have h93 : b ≠ 93 := by intro e; subst e; simp at hb
    have h42 : b ≠ 42 := by intro e; subst e; simp at hb
    rw [List.cons_append, scanLen_cons_ord inr b _ h92 h91 h93 (Or.inl h42),
      ih tail (fun b hb => h b (by simp [hb])), List.length_cons]
    omega

/-- one UTF-8 character (not `\`, `]`) inside a class: the scan loop steps over it -/
theorem scanLen_rune (c : UInt8) (s tail : Bytes) (h92 : c ≠ 92) (h93 : c ≠ 93) :
    scanLen true ((c :: s).take (decode1 (c :: s)).2 ++ tail) = (decode1 (c :: s)).2 + scanLen true tail := by
  have hpos := decode1_width_pos (c :: s)
  have hlen := decode1_width_le_length (c :: s) (by simp)
  by_cases h1 : (decode1 (c :: s)).2 = 1
  · rw [h1]
    simp only [List.take_succ_cons, List.take_zero, List.cons_append, List.nil_append]
    by_cases h91 : c = 91
    · subst h91; rw [scanLen_cons_open]
    · rw [scanLen_cons_ord true c _ h92 h91 h93 (Or.inr rfl)]
  · have hw := decode1_wide_bytes (c :: s) (by omega)
    rw [scanLen_high true _ tail hw]
    simp only [List.length_take, List.length_cons] at *
    omega

theorem _root_.Rare.C06.Spec.ClassChar.scan {s rest : Bytes} {r : Nat} (h : ClassChar s r rest) :
    ∃ pre, s = pre ++ rest ∧ pre ≠ [] ∧ pre.head? = s.head? ∧ (∀ tail, ClassChar (pre ++ tail) r tail) ∧
      ∀ tail, scanLen true (pre ++ tail) = pre.length + scanLen true tail := by
  cases h with
  | plain c s h1 h2 h3 hv =>
    have hpos := decode1_width_pos (c :: s)
    have hlen := decode1_width_le_length (c :: s) (by simp)
    refine ⟨(c :: s).take (decode1 (c :: s)).2, (List.take_append_drop _ _).symm, ?_, ?_, ?_, ?_⟩
    · intro e
      have := congrArg List.length e
      simp only [List.length_take, List.length_cons, List.length_nil] at this hlen
      omega
    · cases hd : (decode1 (c :: s)).2 with
      | zero => omega
      | succ k => simp
    · intro tail
      have hloc := decode1_local (c :: s) tail hv
      obtain ⟨k, hk⟩ : ∃ k, (decode1 (c :: s)).2 = k + 1 := ⟨(decode1 (c :: s)).2 - 1, by omega⟩
      have hshape : (c :: s).take (decode1 (c :: s)).2 ++ tail = c :: (s.take k ++ tail) := by
        rw [hk]; simp
      have hv' : ValidRune (c :: (s.take k ++ tail)) := by
        unfold ValidRune; rw [← hshape, hloc]; exact hv
      have := ClassChar.plain c (s.take k ++ tail) h1 h2 h3 hv'
      rw [← hshape, hloc] at this
      rw [show (decode1 (c :: s)).1 = (decode1 (c :: s)).1 from rfl] at this
      have hdrop : List.drop (decode1 (c :: s)).2 ((c :: s).take (decode1 (c :: s)).2 ++ tail) = tail := by
        rw [List.drop_append_of_le_length (by simp only [List.length_take, List.length_cons] at *; omega)]
        simp only [List.drop_take_self, List.nil_append]
      rw [hdrop] at this
      exact this
    · intro tail
      rw [scanLen_rune c s tail h1 h3]
      simp only [List.length_take, List.length_cons] at *
      omega
  | esc c s hv =>
    have hpos := decode1_width_pos (c :: s)
    have hlen := decode1_width_le_length (c :: s) (by simp)
    refine ⟨92 :: (c :: s).take (decode1 (c :: s)).2, ?_, by simp, by simp, ?_, ?_⟩
    · simp only [List.cons_append, List.take_append_drop]
    · intro tail
      have hloc := decode1_local (c :: s) tail hv
      obtain ⟨k, hk⟩ : ∃ k, (decode1 (c :: s)).2 = k + 1 := ⟨(decode1 (c :: s)).2 - 1, by omega⟩
      have hshape : (c :: s).take (decode1 (c :: s)).2 ++ tail = c :: (s.take k ++ tail) := by
        rw [hk]; simp
      have hv' : ValidRune (c :: (s.take k ++ tail)) := by
        unfold ValidRune; rw [← hshape, hloc]; exact hv
      have := ClassChar.esc c (s.take k ++ tail) hv'
      rw [← hshape, hloc] at this
      have hdrop : List.drop (decode1 (c :: s)).2 ((c :: s).take (decode1 (c :: s)).2 ++ tail) = tail := by
        rw [List.drop_append_of_le_length (by simp only [List.length_take, List.length_cons] at *; omega)]
        simp only [List.drop_take_self, List.nil_append]
      rw [hdrop] at this
      exact this
    · intro tail
      obtain ⟨k, hk⟩ : ∃ k, (decode1 (c :: s)).2 = k + 1 := ⟨(decode1 (c :: s)).2 - 1, by omega⟩
      have hshape : (c :: s).take (decode1 (c :: s)).2 = c :: s.take k := by rw [hk]; simp
      rw [hshape]
      simp only [List.cons_append, scanLen_cons_esc, List.length_cons]
      by_cases hk0 : k = 0
      · subst hk0; simp
      · have hw := decode1_wide_bytes (c :: s) (by omega)
        rw [hshape] at hw
        rw [scanLen_high true _ tail (fun b hb => hw b (by simp [hb]))]
        omega

theorem head?_append_ne {α : Type} {l : List α} (h : l ≠ []) (l2 : List α) : (l ++ l2).head? = l.head? := by
  cases l with
  | nil => exact absurd rfl h
  | cons a l => rfl

theorem _root_.Rare.C06.Spec.ClassBody.scan {s rest : Bytes} {rs : List (Nat × Nat)} (h : ClassBody s rs rest) :
    ∃ body, s = body ++ rest ∧ body ≠ [] ∧ body.head? = s.head? ∧ (∀ tail, ClassBody (body ++ tail) rs tail) ∧
      ∀ tail, scanLen true (body ++ tail) = body.length + scanLen false tail := by
  induction h with
  | close rest =>
    refine ⟨[93], rfl, by simp, rfl, fun tail => ClassBody.close tail, fun tail => ?_⟩
    simp [scanLen_cons_close]
  | @single s s1 rest lo rs hc h45 hb ih =>
    obtain ⟨pre, hs, hpne, hph, hpl, hps⟩ := hc.scan
    obtain ⟨body, hs1, hbne, hbh, hbl, hbs⟩ := ih
    refine ⟨pre ++ body, by rw [hs, hs1, List.append_assoc], by simp [hpne], ?_, ?_, ?_⟩
    · rw [head?_append_ne hpne]; exact hph
    · intro tail
      rw [List.append_assoc]
      refine ClassBody.single (hpl _) ?_ (hbl tail)
      rw [head?_append_ne hbne, hbh]; exact h45
    · intro tail
      rw [List.append_assoc, hps, hbs, List.length_append]; omega
  | @range s s1 s2 rest lo hi rs hc hc2 hb ih =>
    obtain ⟨pre, hs, hpne, hph, hpl, hps⟩ := hc.scan
    obtain ⟨pre2, hs2, hpne2, hph2, hpl2, hps2⟩ := hc2.scan
    obtain ⟨body, hs3, hbne, hbh, hbl, hbs⟩ := ih
    refine ⟨pre ++ 45 :: (pre2 ++ body), ?_, by simp [hpne], ?_, ?_, ?_⟩
    · rw [hs, hs2, hs3]; simp
    · rw [head?_append_ne hpne]; exact hph
    · intro tail
      have h1 := hpl (45 :: (pre2 ++ (body ++ tail)))
      have h2 := hpl2 (body ++ tail)
      have := ClassBody.range h1 h2 (hbl tail)
      simpa [List.append_assoc] using this
    · intro tail
      have e : (pre ++ 45 :: (pre2 ++ body)) ++ tail = pre ++ (45 :: (pre2 ++ (body ++ tail))) := by simp
      rw [e, hps, scanLen_cons_ord true 45 _ (by decide) (by decide) (by decide) (Or.inr rfl), hps2, hbs]
      simp only [List.length_append, List.length_cons]; omega

/-- an item list without `*` -/
def StarFree (its : List Item) : Prop := ∀ it ∈ its, it ≠ Item.star

/-- Forward: a well-formed pattern is cut by the scan loop exactly before its first top-level `*`, and
    the piece before it is parsed by `matchChunk` into the items the grammar gives. -/
theorem parses_scan {q : Bytes} {ast : Pat} (h : Parses q ast) :
    ∃ chunk rest items astRest, q = chunk ++ rest ∧ scanLen false q = chunk.length ∧ ast = items ++ astRest ∧
      StarFree items ∧ (∀ f, chunk.length ≤ f → chunkItems f chunk = some items) ∧ Parses rest astRest ∧
      (rest = [] ∨ rest.head? = some 42) := by
  induction h with
  | nil => exact ⟨[], [], [], [], rfl, rfl, rfl, by simp [StarFree], fun f _ => by cases f <;> rfl, Parses.nil, Or.inl rfl⟩
  | @star p ast hp _ =>
    exact ⟨[], 42 :: p, [], .star :: ast, rfl, scanLen_cons_star p, rfl, by simp [StarFree],
      fun f _ => by cases f <;> rfl, Parses.star hp, Or.inr rfl⟩
  | @any p ast hp ih =>
    obtain ⟨chunk, rest, items, astRest, hq, hsl, hast, hsf, hci, hpr, hrest⟩ := ih
    refine ⟨63 :: chunk, rest, .any :: items, astRest, by rw [hq]; rfl, ?_, by rw [hast]; rfl, ?_, ?_, hpr, hrest⟩
    · rw [scanLen_cons_ord false 63 p (by decide) (by decide) (by decide) (Or.inl (by decide)), hsl, List.length_cons]; omega
    · intro it hit
      simp only [List.mem_cons] at hit
      rcases hit with rfl | hit
      · simp
      · exact hsf it hit
    · intro f hf
      cases f with
      | zero => simp at hf
      | succ f =>
        simp only [List.length_cons] at hf
        simp [chunkItems, hci f (by omega)]
  | @lit c p ast h42 h63 h92 h91 hp ih =>
    obtain ⟨chunk, rest, items, astRest, hq, hsl, hast, hsf, hci, hpr, hrest⟩ := ih
    refine ⟨c :: chunk, rest, .lit c :: items, astRest, by rw [hq]; rfl, ?_, by rw [hast]; rfl, ?_, ?_, hpr, hrest⟩
    · by_cases h93 : c = 93
      · subst h93; rw [scanLen_cons_close, hsl, List.length_cons]; omega
      · rw [scanLen_cons_ord false c p h92 h91 h93 (Or.inl h42), hsl, List.length_cons]; omega
    · intro it hit
      simp only [List.mem_cons] at hit
      rcases hit with rfl | hit
      · simp
      · exact hsf it hit
    · intro f hf
      cases f with
      | zero => simp at hf
      | succ f =>
        simp only [List.length_cons] at hf
        simp [chunkItems, hci f (by omega), h63, h92, h91]
  | @esc c p ast hp ih =>
    obtain ⟨chunk, rest, items, astRest, hq, hsl, hast, hsf, hci, hpr, hrest⟩ := ih
    refine ⟨92 :: c :: chunk, rest, .lit c :: items, astRest, by rw [hq]; rfl, ?_, by rw [hast]; rfl, ?_, ?_, hpr, hrest⟩
    · rw [scanLen_cons_esc, hsl]; simp only [List.length_cons]; omega
    · intro it hit
      simp only [List.mem_cons] at hit
      rcases hit with rfl | hit
      · simp
      · exact hsf it hit
    · intro f hf
      cases f with
      | zero => simp at hf
      | succ f =>
        simp only [List.length_cons] at hf
        simp [chunkItems, hci f (by omega)]
  | @cls s rest0 rs ast h94 hb hrs hp ih =>
    obtain ⟨chunk, rest, items, astRest, hq, hsl, hast, hsf, hci, hpr, hrest⟩ := ih
    obtain ⟨body, hs, hbne, hbh, hbl, hbs⟩ := hb.scan
    refine ⟨91 :: (body ++ chunk), rest, .cls false rs :: items, astRest, ?_, ?_, by rw [hast]; rfl, ?_, ?_, hpr, hrest⟩
    · rw [hs, hq]; simp
    · rw [scanLen_cons_open, hs, hbs, hsl]; simp only [List.length_cons, List.length_append]; omega
    · intro it hit
      simp only [List.mem_cons] at hit
      rcases hit with rfl | hit
      · simp
      · exact hsf it hit
    · intro f hf
      cases f with
      | zero => simp at hf
      | succ f =>
        simp only [List.length_cons, List.length_append] at hf
        have hneg : ¬ ((body ++ chunk).head? = some 94) := by
          rw [head?_append_ne hbne, hbh]; exact h94
        have hcr := classRanges_complete (hbl chunk) (f + 1) 0 (by simp only [List.length_append]; omega) (fun _ => hrs)
        simp only [chunkItems, ↓reduceIte, hneg, hcr, hci f (by omega), Option.map_some, decide_false]
  | @ncls s rest0 rs ast hb hrs hp ih =>
    obtain ⟨chunk, rest, items, astRest, hq, hsl, hast, hsf, hci, hpr, hrest⟩ := ih
    obtain ⟨body, hs, hbne, hbh, hbl, hbs⟩ := hb.scan
    refine ⟨91 :: 94 :: (body ++ chunk), rest, .cls true rs :: items, astRest, ?_, ?_, by rw [hast]; rfl, ?_, ?_, hpr, hrest⟩
    · rw [hs, hq]; simp
    · rw [scanLen_cons_open, scanLen_cons_ord true 94 _ (by decide) (by decide) (by decide) (Or.inr rfl), hs, hbs, hsl]
      simp only [List.length_cons, List.length_append]; omega
    · intro it hit
      simp only [List.mem_cons] at hit
      rcases hit with rfl | hit
      · simp
      · exact hsf it hit
    · intro f hf
      cases f with
      | zero => simp at hf
      | succ f =>
        simp only [List.length_cons, List.length_append] at hf
        have hcr := classRanges_complete (hbl chunk) (f + 1) 0 (by simp only [List.length_append]; omega) (fun _ => hrs)
        simp [chunkItems, hcr, hci f (by omega)]

/-- Backward: whatever `matchChunk` parses out of the piece the scan loop cut off is what the grammar
    says, and the piece ends at a term boundary. -/
theorem scan_parses (f : Nat) : ∀ (chunk rest : Bytes) (items astRest : Pat),
    scanLen false (chunk ++ rest) = chunk.length → chunkItems f chunk = some items → Parses rest astRest →
    Parses (chunk ++ rest) (items ++ astRest) ∧ StarFree items := by
  induction f with
  | zero =>
    intro chunk rest items astRest _ hci hp
    cases chunk with
    | nil => simp only [chunkItems, Option.some.injEq] at hci; subst hci; exact ⟨hp, by simp [StarFree]⟩
    | cons c ctl => simp [chunkItems] at hci
  | succ f ih =>
    intro chunk rest items astRest hsl hci hp
    cases chunk with
    | nil => simp only [chunkItems, Option.some.injEq] at hci; subst hci; exact ⟨hp, by simp [StarFree]⟩
    | cons c ctl =>
      have consSF : ∀ (it : Item) (its : List Item), it ≠ .star → StarFree its → StarFree (it :: its) := by
        intro it its h1 h2 x hx
        simp only [List.mem_cons] at hx
        rcases hx with rfl | hx
        · exact h1
        · exact h2 x hx
      simp only [chunkItems] at hci
      by_cases h91 : c = 91
      · subst h91
        simp only [↓reduceIte] at hci
        cases hcr : classRanges (f + 1) (if ctl.head? = some 94 then ctl.tail else ctl) 0 with
        | none => simp [hcr] at hci
        | some pr =>
          obtain ⟨rs, chunk2⟩ := pr
          simp only [hcr] at hci
          cases hci2 : chunkItems f chunk2 with
          | none => simp [hci2] at hci
          | some its =>
            simp only [hci2, Option.map_some, Option.some.injEq] at hci
            subst hci
            obtain ⟨hbody, hrs⟩ := classRanges_sound _ _ _ _ _ hcr
            obtain ⟨body, hs, hbne, hbh, hbl, hbs⟩ := hbody.scan
            by_cases hneg : ctl.head? = some 94
            · simp only [hneg, if_true] at hs
              obtain ⟨ctl', rfl⟩ : ∃ ctl', ctl = 94 :: ctl' := by
                cases ctl with
                | nil => simp at hneg
                | cons a ctl' => simp at hneg; exact ⟨ctl', by rw [hneg]⟩
              simp only [List.tail_cons] at hs
              subst hs
              have hsl' : scanLen false (chunk2 ++ rest) = chunk2.length := by
                have e : (91 :: 94 :: (body ++ chunk2)) ++ rest = 91 :: 94 :: (body ++ (chunk2 ++ rest)) := by simp
                rw [e, scanLen_cons_open, scanLen_cons_ord true 94 _ (by decide) (by decide) (by decide) (Or.inr rfl), hbs] at hsl
                simp only [List.length_cons, List.length_append] at hsl
                omega
              obtain ⟨hp2, hsf2⟩ := ih chunk2 rest its astRest hsl' hci2 hp
              refine ⟨?_, consSF _ _ (by simp) hsf2⟩
              have := Parses.ncls (hbl (chunk2 ++ rest)) (hrs rfl) hp2
              simpa [hneg] using this
            · simp only [hneg, if_false] at hs
              subst hs
              have hsl' : scanLen false (chunk2 ++ rest) = chunk2.length := by
                have e : (91 :: (body ++ chunk2)) ++ rest = 91 :: (body ++ (chunk2 ++ rest)) := by simp
                rw [e, scanLen_cons_open, hbs] at hsl
                simp only [List.length_cons, List.length_append] at hsl
                omega
              obtain ⟨hp2, hsf2⟩ := ih chunk2 rest its astRest hsl' hci2 hp
              refine ⟨?_, consSF _ _ (by simp) hsf2⟩
              have hneg' : (body ++ (chunk2 ++ rest)).head? ≠ some 94 := by
                rw [head?_append_ne hbne]
                rw [head?_append_ne hbne] at hneg
                exact hneg
              have := Parses.cls hneg' (hbl (chunk2 ++ rest)) (hrs rfl) hp2
              have hd : decide ((body ++ chunk2).head? = some 94) = false := by simp only [hneg, decide_false]
              rw [hd]
              simpa using this
      · simp only [h91, if_false] at hci
        by_cases h63 : c = 63
        · subst h63
          simp only [↓reduceIte] at hci
          cases hci2 : chunkItems f ctl with
          | none => simp [hci2] at hci
          | some its =>
            simp only [hci2, Option.map_some, Option.some.injEq] at hci
            subst hci
            have hsl' : scanLen false (ctl ++ rest) = ctl.length := by
              rw [List.cons_append, scanLen_cons_ord false 63 _ (by decide) (by decide) (by decide) (Or.inl (by decide))] at hsl
              simp only [List.length_cons] at hsl; omega
            obtain ⟨hp2, hsf2⟩ := ih ctl rest its astRest hsl' hci2 hp
            exact ⟨Parses.any hp2, consSF _ _ (by simp) hsf2⟩
        · simp only [h63, if_false] at hci
          by_cases h92 : c = 92
          · subst h92
            simp only [↓reduceIte] at hci
            cases ctl with
            | nil => simp at hci
            | cons c1 ctl1 =>
              simp only at hci
              cases hci2 : chunkItems f ctl1 with
              | none => simp [hci2] at hci
              | some its =>
                simp only [hci2, Option.map_some, Option.some.injEq] at hci
                subst hci
                have hsl' : scanLen false (ctl1 ++ rest) = ctl1.length := by
                  rw [List.cons_append, List.cons_append, scanLen_cons_esc] at hsl
                  simp only [List.length_cons] at hsl; omega
                obtain ⟨hp2, hsf2⟩ := ih ctl1 rest its astRest hsl' hci2 hp
                exact ⟨Parses.esc c1 hp2, consSF _ _ (by simp) hsf2⟩
          · simp only [h92, if_false] at hci
            cases hci2 : chunkItems f ctl with
            | none => simp [hci2] at hci
            | some its =>
              simp only [hci2, Option.map_some, Option.some.injEq] at hci
              subst hci
              have h42 : c ≠ 42 := by
                intro e; subst e
                rw [List.cons_append, scanLen_cons_star] at hsl
                simp at hsl
              have hsl' : scanLen false (ctl ++ rest) = ctl.length := by
                by_cases h93 : c = 93
                · subst h93
                  rw [List.cons_append, scanLen_cons_close] at hsl
                  simp only [List.length_cons] at hsl; omega
                · rw [List.cons_append, scanLen_cons_ord false c _ h92 h91 h93 (Or.inl h42)] at hsl
                  simp only [List.length_cons] at hsl; omega
              obtain ⟨hp2, hsf2⟩ := ih ctl rest its astRest hsl' hci2 hp
              exact ⟨Parses.lit c h42 h63 h92 h91 hp2, consSF _ _ (by simp) hsf2⟩

/-! ### the items of a chunk against the declarative semantics -/

theorem matchItems_sound : ∀ (its : List Item) (s t : Bytes), matchItems its s = some t →
    ∀ ps, Matches ps t → Matches (its ++ ps) s := by
  intro its
  induction its with
  | nil => intro s t h ps hm; simp only [matchItems, Option.some.injEq] at h; subst h; exact hm
  | cons it its ih =>
    intro s t h ps hm
    cases it with
    | lit b =>
      cases s with
      | nil => simp [matchItems] at h
      | cons c rest =>
        simp only [matchItems] at h
        by_cases hc : c = b
        · subst hc
          simp only [if_true] at h
          exact ⟨rest, rfl, ih rest t h ps hm⟩
        · simp [hc] at h
    | any =>
      simp only [matchItems] at h
      by_cases hc : s = [] ∨ s.head? = some 47
      · simp [hc] at h
      · simp only [hc, if_false] at h
        exact ⟨fun e => hc (Or.inl e), fun e => hc (Or.inr e), ih _ t h ps hm⟩
    | cls neg rs =>
      simp only [matchItems] at h
      by_cases hc : s = [] ∨ inRanges (decode1 s).1 rs = neg
      · simp [hc] at h
      · simp only [hc, if_false] at h
        exact ⟨fun e => hc (Or.inl e), fun e => hc (Or.inr e), ih _ t h ps hm⟩
    | star => simp [matchItems] at h

theorem matchItems_complete : ∀ (its : List Item), StarFree its → ∀ (s : Bytes) (ps : Pat),
    Matches (its ++ ps) s → ∃ t, matchItems its s = some t ∧ Matches ps t := by
  intro its
  induction its with
  | nil => intro _ s ps hm; exact ⟨s, rfl, hm⟩
  | cons it its ih =>
    intro hsf s ps hm
    have hsf' : StarFree its := fun x hx => hsf x (by simp [hx])
    cases it with
    | lit b =>
      obtain ⟨rest, rfl, hm'⟩ := hm
      obtain ⟨t, ht, hmt⟩ := ih hsf' rest ps hm'
      exact ⟨t, by simp [matchItems, ht], hmt⟩
    | any =>
      obtain ⟨h1, h2, hm'⟩ := hm
      obtain ⟨t, ht, hmt⟩ := ih hsf' _ ps hm'
      refine ⟨t, ?_, hmt⟩
      have : ¬ (s = [] ∨ s.head? = some 47) := fun h => h.elim h1 h2
      simp [matchItems, this, ht]
    | cls neg rs =>
      obtain ⟨h1, h2, hm'⟩ := hm
      obtain ⟨t, ht, hmt⟩ := ih hsf' _ ps hm'
      refine ⟨t, ?_, hmt⟩
      have : ¬ (s = [] ∨ inRanges (decode1 s).1 rs = neg) := fun h => h.elim h1 h2
      simp [matchItems, this, ht]
    | star => exact absurd rfl (hsf .star (by simp))

/-- where the items end when they start at byte `p` of `s` (by the widths alone) -/
def endPos : List Item → Bytes → Nat → Nat
  | [], _, p => p
  | .lit _ :: its, s, p => endPos its s (p + 1)
  | .any :: its, s, p => endPos its s (p + (decode1 (s.drop p)).2)
  | .cls _ _ :: its, s, p => endPos its s (p + (decode1 (s.drop p)).2)
  | .star :: its, s, p => endPos its s p

theorem matchItems_endPos : ∀ (its : List Item) (s : Bytes) (p : Nat) (t : Bytes),
    matchItems its (s.drop p) = some t → t = s.drop (endPos its s p) := by
  intro its
  induction its with
  | nil => intro s p t h; simp only [matchItems, Option.some.injEq] at h; exact h.symm
  | cons it its ih =>
    intro s p t h
    cases it with
    | lit b =>
      cases hd : s.drop p with
      | nil => simp [matchItems, hd] at h
      | cons c rest =>
        simp only [matchItems, hd] at h
        by_cases hc : c = b
        · simp only [hc, if_true] at h
          have : rest = s.drop (p + 1) := by
            rw [← List.drop_drop, hd]; rfl
          rw [this] at h
          exact ih s (p + 1) t h
        · simp [hc] at h
    | any =>
      simp only [matchItems] at h
      split at h
      · cases h
      · rw [List.drop_drop] at h
        exact ih s _ t h
    | cls neg rs =>
      simp only [matchItems] at h
      split at h
      · cases h
      · rw [List.drop_drop] at h
        exact ih s _ t h
    | star => simp [matchItems] at h

theorem endPos_ge : ∀ (its : List Item) (s : Bytes) (p : Nat), p ≤ endPos its s p := by
  intro its
  induction its with
  | nil => intro s p; exact Nat.le_refl _
  | cons it its ih =>
    intro s p
    cases it <;> simp only [endPos]
    · exact Nat.le_trans (by omega) (ih s (p + 1))
    · exact Nat.le_trans (by omega) (ih s _)
    · exact Nat.le_trans (by omega) (ih s _)
    · exact ih s p

/-- starting later never ends earlier, when no character is wider than two bytes or when all items are
    single bytes -/
theorem endPos_mono (s : Bytes) : ∀ (its : List Item), (NoWide s ∨ FixedWidth its) → ∀ (p q : Nat), p ≤ q →
    endPos its s p ≤ endPos its s q := by
  intro its
  induction its with
  | nil => intro _ p q h; exact h
  | cons it its ih =>
    intro hw p q h
    have hw' : NoWide s ∨ FixedWidth its := hw.imp id (fun hf x hx => hf x (by simp [hx]))
    have step : NoWide s → p + (decode1 (s.drop p)).2 ≤ q + (decode1 (s.drop q)).2 := by
      intro hw
      have h1 := hw p
      have h2 := decode1_width_pos (s.drop q)
      by_cases e : p = q
      · subst e; exact Nat.le_refl _
      · omega
    cases it with
    | lit b => simp only [endPos]; exact ih hw' _ _ (by omega)
    | star => simp only [endPos]; exact ih hw' _ _ h
    | any =>
      simp only [endPos]
      rcases hw with hw | hf
      · exact ih (Or.inl hw) _ _ (step hw)
      · have := hf .any (by simp); simp at this
    | cls neg rs =>
      simp only [endPos]
      rcases hw with hw | hf
      · exact ih (Or.inl hw) _ _ (step hw)
      · have := hf (.cls neg rs) (by simp); simp at this

/-! ### `*` -/

theorem matches_star_absorb (ps : Pat) (x t : Bytes) (hx : slash ∉ x) (h : Matches (.star :: ps) t) :
    Matches (.star :: ps) (x ++ t) := by
  obtain ⟨pre, suf, rfl, hpre, hm⟩ := h
  refine ⟨x ++ pre, suf, by simp, ?_, hm⟩
  intro hmem
  rcases List.mem_append.1 hmem with h | h
  · exact hx h
  · exact hpre h

theorem matches_star_star (ps : Pat) (s : Bytes) : Matches (.star :: .star :: ps) s ↔ Matches (.star :: ps) s := by
  constructor
  · intro ⟨pre, suf, hs, hpre, hm⟩
    rw [hs]
    exact matches_star_absorb ps pre suf hpre hm
  · intro h
    exact ⟨[], s, rfl, by simp, h⟩

theorem matches_stars (k : Nat) (ps : Pat) (s : Bytes) :
    Matches (List.replicate (k + 1) .star ++ ps) s ↔ Matches (.star :: ps) s := by
  induction k with
  | zero => rfl
  | succ k ih =>
    rw [List.replicate_succ, List.cons_append, List.replicate_succ, List.cons_append, matches_star_star]
    rw [List.replicate_succ, List.cons_append] at ih
    exact ih

theorem matches_star_of (ps : Pat) (s : Bytes) (h : Matches ps s) : Matches (.star :: ps) s :=
  ⟨[], s, rfl, by simp, h⟩

/-! ### leading stars, and what `scanChunk` returns -/

theorem scanLen_le_aux : ∀ (n : Nat) (s : Bytes) (inr : Bool), s.length ≤ n → scanLen inr s ≤ s.length := by
  intro n
  induction n with
  | zero => intro s inr h; cases s <;> simp_all [scanLen]
  | succ n ih =>
    intro s inr h
    cases s with
    | nil => simp [scanLen]
    | cons c cs =>
      simp only [List.length_cons] at h
      by_cases h92 : c = 92
      · subst h92
        cases cs with
        | nil => simp [scanLen]
        | cons d ds =>
          rw [scanLen_cons_esc]
          simp only [List.length_cons] at h ⊢
          have := ih ds inr (by omega)
          omega
      · by_cases h91 : c = 91
        · subst h91; rw [scanLen_cons_open]; have := ih cs true (by omega); simp only [List.length_cons]; omega
        · by_cases h93 : c = 93
          · subst h93; rw [scanLen_cons_close]; have := ih cs false (by omega); simp only [List.length_cons]; omega
          · by_cases h42 : c = 42 ∧ inr = false
            · obtain ⟨rfl, rfl⟩ := h42; rw [scanLen_cons_star]; omega
            · have : c ≠ 42 ∨ inr = true := by
                by_cases hc : c = 42
                · right; cases inr <;> simp_all
                · left; exact hc
              rw [scanLen_cons_ord inr c cs h92 h91 h93 this]
              have := ih cs inr (by omega); simp only [List.length_cons]; omega

theorem scanLen_le (s : Bytes) (inr : Bool) : scanLen inr s ≤ s.length := scanLen_le_aux _ s inr (Nat.le_refl _)

theorem scanLen_zero (c : UInt8) (cs : Bytes) (h : scanLen false (c :: cs) = 0) : c = 42 := by
  by_cases h92 : c = 92
  · subst h92
    cases cs with
    | nil => simp [scanLen] at h
    | cons d ds => rw [scanLen_cons_esc] at h; omega
  · by_cases h91 : c = 91
    · subst h91; rw [scanLen_cons_open] at h; omega
    · by_cases h93 : c = 93
      · subst h93; rw [scanLen_cons_close] at h; omega
      · by_cases h42 : c = 42
        · exact h42
        · rw [scanLen_cons_ord false c cs h92 h91 h93 (Or.inl h42)] at h; omega

/-- number of leading `*` -/
def nStars (pattern : Bytes) : Nat := (pattern.takeWhile (· == 42)).length

theorem nStars_cons_star (p : Bytes) : nStars (42 :: p) = nStars p + 1 := by simp [nStars]
theorem nStars_cons_ne (c : UInt8) (p : Bytes) (h : c ≠ 42) : nStars (c :: p) = 0 := by simp [nStars, h]

theorem dropWhile_length (pattern : Bytes) : (pattern.dropWhile (· == 42)).length + nStars pattern = pattern.length := by
  induction pattern with
  | nil => rfl
  | cons c p ih =>
    by_cases h : c = 42
    · subst h; simp only [List.dropWhile_cons, beq_self_eq_true, if_true, nStars_cons_star, List.length_cons]; omega
    · simp [nStars, h]

theorem parses_star_inv {p : Bytes} {ast : Pat} (h : Parses (42 :: p) ast) : ∃ ast', ast = .star :: ast' ∧ Parses p ast' := by
  cases h with
  | star hp => exact ⟨_, rfl, hp⟩
  | lit c h42 => exact absurd rfl h42

theorem parses_nil_inv {ast : Pat} (h : Parses [] ast) : ast = [] := by
  cases h; rfl

theorem parses_stars_fwd : ∀ (pattern : Bytes) (ast : Pat), Parses pattern ast →
    ∃ ast', ast = List.replicate (nStars pattern) .star ++ ast' ∧ Parses (pattern.dropWhile (· == 42)) ast' := by
  intro pattern
  induction pattern with
  | nil => intro ast h; exact ⟨ast, rfl, h⟩
  | cons c p ih =>
    intro ast h
    by_cases hc : c = 42
    · subst hc
      obtain ⟨ast1, rfl, hp⟩ := parses_star_inv h
      obtain ⟨ast', rfl, hp'⟩ := ih ast1 hp
      refine ⟨ast', ?_, by simpa using hp'⟩
      rw [nStars_cons_star, List.replicate_succ]; rfl
    · refine ⟨ast, ?_, by simpa [hc] using h⟩
      rw [nStars_cons_ne c p hc]; rfl

theorem parses_stars_bwd : ∀ (pattern : Bytes) (ast' : Pat), Parses (pattern.dropWhile (· == 42)) ast' →
    Parses pattern (List.replicate (nStars pattern) .star ++ ast') := by
  intro pattern
  induction pattern with
  | nil => intro ast' h; exact h
  | cons c p ih =>
    intro ast' h
    by_cases hc : c = 42
    · subst hc
      rw [nStars_cons_star, List.replicate_succ]
      exact Parses.star (ih ast' (by simpa using h))
    · rw [nStars_cons_ne c p hc]
      simpa [hc] using h

theorem head_star_iff (pattern : Bytes) : (pattern.head? == some 42) = decide (1 ≤ nStars pattern) := by
  cases pattern with
  | nil => rfl
  | cons c p =>
    by_cases hc : c = 42
    · subst hc; simp [nStars_cons_star]
    · simp [nStars_cons_ne c p hc, hc]

theorem dropWhile_head_ne (pattern : Bytes) : (pattern.dropWhile (· == 42)).head? ≠ some 42 := by
  induction pattern with
  | nil => simp
  | cons c p ih =>
    by_cases hc : c = 42
    · subst hc; simpa using ih
    · simp [hc]

/-! ### one iteration of the `Pattern:` loop -/

/-- the star loop, once the chunk is known to parse -/
def pickLoop (items : List Item) (last : Bool) : Bytes → Option Bytes
  | [] => none
  | c :: rest =>
    if c = 47 then none
    else match matchItems items rest with
      | some t => if last && !t.isEmpty then pickLoop items last rest else some t
      | none => pickLoop items last rest

/-- the rest of the name the loop continues with, if any -/
def pick (items : List Item) (star last : Bool) (name : Bytes) : Option Bytes :=
  match matchItems items name with
  | some t => if t.isEmpty || !last then some t else if star then pickLoop items last name else none
  | none => if star then pickLoop items last name else none

theorem starLoop_eq (chunk : Bytes) (items : List Item) (last : Bool)
    (hc : chunkItems (chunk.length + 1) chunk = some items) :
    ∀ name, starLoop chunk last name = .ok (pickLoop items last name) := by
  intro name
  induction name with
  | nil => rfl
  | cons c rest ih =>
    unfold starLoop pickLoop
    by_cases h47 : c = 47
    · simp [h47]
    · simp only [h47, if_false, matchChunk_eq, hc]
      cases matchItems items rest with
      | none => exact ih
      | some t =>
        simp only
        by_cases hl : (last && !t.isEmpty) = true
        · simp only [hl, if_true]; exact ih
        · simp only [hl]; rfl

theorem starLoop_bad (chunk : Bytes) (last : Bool) (hc : chunkItems (chunk.length + 1) chunk = none) :
    ∀ name, starLoop chunk last name = .bad ∨ starLoop chunk last name = .ok none := by
  intro name
  induction name with
  | nil => right; rfl
  | cons c rest ih =>
    unfold starLoop
    by_cases h47 : c = 47
    · simp [h47]
    · simp [h47, matchChunk_eq, hc]

theorem scanChunk_eq (pattern : Bytes) :
    scanChunk pattern = (decide (1 ≤ nStars pattern),
      (pattern.dropWhile (· == 42)).take (scanLen false (pattern.dropWhile (· == 42))),
      (pattern.dropWhile (· == 42)).drop (scanLen false (pattern.dropWhile (· == 42)))) := by
  simp only [scanChunk, head_star_iff]

/-- the loop body of `Match`, in terms of `pick` -/
theorem goMatchF_step (f : Nat) (c : UInt8) (ptl name : Bytes) (star : Bool) (chunk rest : Bytes) (items : List Item)
    (hs : scanChunk (c :: ptl) = (star, chunk, rest))
    (hc : chunkItems (chunk.length + 1) chunk = some items) :
    goMatchF (f + 1) (c :: ptl) name =
      if star && chunk.isEmpty then .matched (!name.contains 47)
      else match pick items star rest.isEmpty name with
        | some t => goMatchF f rest t
        | none => .matched false := by
  simp only [goMatchF, hs]
  by_cases h0 : (star && chunk.isEmpty) = true
  · simp only [h0, if_true]
  · simp only [h0]
    simp only [matchChunk_eq, hc, pick, starLoop_eq chunk items _ hc]
    cases hm : matchItems items name with
    | none =>
      simp only
      cases star with
      | false => simp
      | true =>
        simp only [if_true]
        cases pickLoop items rest.isEmpty name <;> rfl
    | some t =>
      simp only
      by_cases hacc : (t.isEmpty || !rest.isEmpty) = true
      · simp only [hacc, if_true]
      · simp only [hacc]
        cases star with
        | false => simp
        | true =>
          simp only [if_true]
          cases pickLoop items rest.isEmpty name <;> rfl

theorem goMatchF_step_bad (f : Nat) (c : UInt8) (ptl name : Bytes) (star : Bool) (chunk rest : Bytes)
    (hs : scanChunk (c :: ptl) = (star, chunk, rest))
    (hc : chunkItems (chunk.length + 1) chunk = none) :
    goMatchF (f + 1) (c :: ptl) name = .badPattern := by
  simp only [goMatchF, hs]
  have hne : chunk.isEmpty = false := by
    cases chunk with
    | nil => simp [chunkItems] at hc
    | cons a b => rfl
  simp only [hne, Bool.and_false, matchChunk_eq, hc]
  simp

theorem pickLoop_sound (items : List Item) (last : Bool) : ∀ (name t : Bytes),
    pickLoop items last name = some t →
    ∃ pre suf, name = pre ++ suf ∧ pre ≠ [] ∧ slash ∉ pre ∧ matchItems items suf = some t ∧ (last = true → t = []) := by
  intro name
  induction name with
  | nil => intro t h; simp [pickLoop] at h
  | cons c rest ih =>
    intro t h
    unfold pickLoop at h
    by_cases h47 : c = 47
    · simp [h47] at h
    · simp only [h47, if_false] at h
      have ext : (∃ pre suf, rest = pre ++ suf ∧ pre ≠ [] ∧ slash ∉ pre ∧ matchItems items suf = some t ∧ (last = true → t = [])) →
          ∃ pre suf, c :: rest = pre ++ suf ∧ pre ≠ [] ∧ slash ∉ pre ∧ matchItems items suf = some t ∧ (last = true → t = []) := by
        intro ⟨pre, suf, h1, _, h3, h4, h5⟩
        refine ⟨c :: pre, suf, by rw [h1]; rfl, by simp, ?_, h4, h5⟩
        intro hm
        simp only [List.mem_cons] at hm
        rcases hm with hm | hm
        · exact h47 hm.symm
        · exact h3 hm
      cases hm : matchItems items rest with
      | none => rw [hm] at h; exact ext (ih t h)
      | some t' =>
        rw [hm] at h
        simp only at h
        by_cases hl : (last && !t'.isEmpty) = true
        · simp only [hl, if_true] at h; exact ext (ih t h)
        · simp only [hl, Bool.false_eq_true, if_false, Option.some.injEq] at h
          subst h
          refine ⟨[c], rest, rfl, by simp, ?_, hm, ?_⟩
          · intro hmem
            simp only [List.mem_singleton] at hmem
            exact h47 hmem.symm
          · intro hlast
            subst hlast
            simpa using hl

theorem pick_sound (items : List Item) (star last : Bool) (name t : Bytes)
    (h : pick items star last name = some t) :
    ∃ pre suf, name = pre ++ suf ∧ (pre ≠ [] → star = true) ∧ slash ∉ pre ∧ matchItems items suf = some t ∧
      (last = true → t = []) := by
  unfold pick at h
  have viaLoop : star = true → pickLoop items last name = some t →
      ∃ pre suf, name = pre ++ suf ∧ (pre ≠ [] → star = true) ∧ slash ∉ pre ∧ matchItems items suf = some t ∧
        (last = true → t = []) := by
    intro hs hl
    obtain ⟨pre, suf, h1, _, h3, h4, h5⟩ := pickLoop_sound items last name t hl
    exact ⟨pre, suf, h1, fun _ => hs, h3, h4, h5⟩
  cases hm : matchItems items name with
  | none =>
    rw [hm] at h
    simp only at h
    cases star with
    | false => simp at h
    | true => exact viaLoop rfl (by simpa using h)
  | some t' =>
    rw [hm] at h
    simp only at h
    by_cases hacc : (t'.isEmpty || !last) = true
    · simp only [hacc, if_true, Option.some.injEq] at h
      subst h
      refine ⟨[], name, rfl, fun h => absurd rfl h, by simp, hm, ?_⟩
      intro hl
      subst hl
      simpa using hacc
    · simp only [hacc] at h
      cases star with
      | false => simp at h
      | true => exact viaLoop rfl (by simpa using h)

/-- completeness of the star loop: if the chunk fits (acceptably) after skipping `pre ≠ []`, the loop
    stops at some acceptable place not later than that. -/
theorem pickLoop_complete (items : List Item) (last : Bool) : ∀ (name pre suf tj : Bytes),
    name = pre ++ suf → pre ≠ [] → slash ∉ pre → matchItems items suf = some tj → (last = true → tj = []) →
    ∃ pre' suf' t, name = pre' ++ suf' ∧ pre' ≠ [] ∧ pre'.length ≤ pre.length ∧ matchItems items suf' = some t ∧
      (last = true → t = []) ∧ pickLoop items last name = some t := by
  intro name
  induction name with
  | nil => intro pre suf tj h hp; cases pre <;> simp_all
  | cons c rest ih =>
    intro pre suf tj hname hpre hslash hm hlast
    cases pre with
    | nil => exact absurd rfl hpre
    | cons a pre1 =>
      simp only [List.cons_append, List.cons.injEq] at hname
      obtain ⟨rfl, hrest⟩ := hname
      have hc47 : c ≠ 47 := by
        intro e; apply hslash; simp [slash, e]
      have hslash1 : slash ∉ pre1 := fun h => hslash (by simp [h])
      unfold pickLoop
      simp only [hc47, if_false]
      -- either the loop stops here, or it goes on and the induction hypothesis applies
      have goOn : pre1 ≠ [] →
          ∃ pre' suf' t, c :: rest = pre' ++ suf' ∧ pre' ≠ [] ∧ pre'.length ≤ (c :: pre1).length ∧
            matchItems items suf' = some t ∧ (last = true → t = []) ∧ pickLoop items last rest = some t := by
        intro hne
        obtain ⟨pre', suf', t, h1, h2, h3, h4, h5, h6⟩ := ih pre1 suf tj hrest hne hslash1 hm hlast
        exact ⟨c :: pre', suf', t, by rw [h1]; rfl, by simp, by simp only [List.length_cons]; omega, h4, h5, h6⟩
      cases hm0 : matchItems items rest with
      | none =>
        simp only
        by_cases hne : pre1 = []
        · subst hne; simp only [List.nil_append] at hrest; subst hrest; rw [hm] at hm0; cases hm0
        · exact goOn hne
      | some t0 =>
        simp only
        by_cases hl : (last && !t0.isEmpty) = true
        · simp only [hl, if_true]
          by_cases hne : pre1 = []
          · subst hne; simp only [List.nil_append] at hrest; subst hrest
            rw [hm] at hm0; cases hm0
            simp only [Bool.and_eq_true, Bool.not_eq_true', List.isEmpty_eq_false_iff] at hl
            exact absurd (hlast hl.1) hl.2
          · exact goOn hne
        · simp only [hl, Bool.false_eq_true, if_false]
          refine ⟨[c], rest, t0, rfl, by simp, by simp, hm0, ?_, rfl⟩
          intro hlt
          subst hlt
          simpa using hl

theorem pick_complete (items : List Item) (star last : Bool) (name pre suf tj : Bytes)
    (hname : name = pre ++ suf) (hstar : pre ≠ [] → star = true) (hslash : slash ∉ pre)
    (hm : matchItems items suf = some tj) (hlast : last = true → tj = []) :
    ∃ pre' suf' t, name = pre' ++ suf' ∧ pre'.length ≤ pre.length ∧ matchItems items suf' = some t ∧
      (last = true → t = []) ∧ pick items star last name = some t := by
  unfold pick
  have viaLoop : pre ≠ [] → ∃ pre' suf' t, name = pre' ++ suf' ∧ pre'.length ≤ pre.length ∧ matchItems items suf' = some t ∧
      (last = true → t = []) ∧ pickLoop items last name = some t := by
    intro hne
    obtain ⟨pre', suf', t, h1, _, h3, h4, h5, h6⟩ := pickLoop_complete items last name pre suf tj hname hne hslash hm hlast
    exact ⟨pre', suf', t, h1, h3, h4, h5, h6⟩
  cases hm0 : matchItems items name with
  | none =>
    simp only
    by_cases hne : pre = []
    · subst hne; simp only [List.nil_append] at hname; subst hname; rw [hm] at hm0; cases hm0
    · simp only [hstar hne, if_true]; exact viaLoop hne
  | some t0 =>
    simp only
    by_cases hacc : (t0.isEmpty || !last) = true
    · simp only [hacc, if_true]
      refine ⟨[], name, t0, rfl, by simp, hm0, ?_, rfl⟩
      intro hl; subst hl; simpa using hacc
    · simp only [hacc]
      by_cases hne : pre = []
      · subst hne; simp only [List.nil_append] at hname; subst hname
        rw [hm] at hm0; cases hm0
        simp only [Bool.or_eq_true, Bool.not_eq_true', not_or, Bool.not_eq_true, Bool.not_eq_false] at hacc
        have := hlast hacc.2
        subst this
        simp at hacc
      · simp only [hstar hne, if_true]; exact viaLoop hne

/-! ### the whole of `Match` -/

theorem scanChunk_rest_lt (c : UInt8) (ptl : Bytes) :
    (((c :: ptl).dropWhile (· == 42)).drop (scanLen false ((c :: ptl).dropWhile (· == 42)))).length < (c :: ptl).length := by
  by_cases hc : c = 42
  · subst hc
    have := dropWhile_length ptl
    simp only [List.dropWhile_cons, beq_self_eq_true, if_true, List.length_drop, List.length_cons]
    omega
  · have e : (c :: ptl).dropWhile (· == 42) = c :: ptl := by simp [hc]
    rw [e]
    have h1 : scanLen false (c :: ptl) ≠ 0 := fun h => hc (scanLen_zero c ptl h)
    have h2 := scanLen_le (c :: ptl) false
    simp only [List.length_drop, List.length_cons] at *
    omega

theorem take_scan (p : Bytes) : (p.take (scanLen false p)).length = scanLen false p := by
  rw [List.length_take]; exact Nat.min_eq_left (scanLen_le p false)

theorem goMatchF_nil (f : Nat) (name : Bytes) : goMatchF f [] name = .matched name.isEmpty := by
  cases f <;> rfl

theorem noWide_drop (s : Bytes) (n : Nat) (h : NoWide s) : NoWide (s.drop n) := by
  intro k; rw [List.drop_drop]; exact h _

theorem goMatchF_sound (f : Nat) : ∀ (pattern name : Bytes), goMatchF f pattern name = .matched true →
    ∃ ast, Parses pattern ast ∧ Matches ast name := by
  induction f with
  | zero =>
    intro pattern name h
    cases pattern with
    | nil =>
      rw [goMatchF_nil] at h
      have : name = [] := by simpa using h
      exact ⟨[], Parses.nil, this⟩
    | cons c ptl => simp [goMatchF] at h
  | succ f ih =>
    intro pattern name h
    cases pattern with
    | nil =>
      rw [goMatchF_nil] at h
      have : name = [] := by simpa using h
      exact ⟨[], Parses.nil, this⟩
    | cons c ptl =>
      have hs := scanChunk_eq (c :: ptl)
      generalize hp : (c :: ptl).dropWhile (· == 42) = p at hs
      generalize hk : nStars (c :: ptl) = k at hs
      cases hc : chunkItems ((p.take (scanLen false p)).length + 1) (p.take (scanLen false p)) with
      | none => rw [goMatchF_step_bad f c ptl name _ _ _ hs hc] at h; cases h
      | some items =>
        rw [goMatchF_step f c ptl name _ _ _ items hs hc] at h
        by_cases h0 : (decide (1 ≤ k) && (p.take (scanLen false p)).isEmpty) = true
        · simp only [h0, if_true, MatchRes.matched.injEq, Bool.not_eq_true', List.contains_eq_mem,
            decide_eq_false_iff_not] at h
          simp only [Bool.and_eq_true, decide_eq_true_eq, List.isEmpty_iff] at h0
          have hpnil : p = [] := by
            cases p with
            | nil => rfl
            | cons a ps =>
              have hz : scanLen false (a :: ps) = 0 := by
                have := take_scan (a :: ps)
                rw [h0.2] at this
                exact this.symm
              have := scanLen_zero a ps hz
              have hne := dropWhile_head_ne (c :: ptl)
              rw [hp, this] at hne
              simp at hne
          obtain ⟨k', rfl⟩ : ∃ k', k = k' + 1 := ⟨k - 1, by omega⟩
          refine ⟨List.replicate (k' + 1) .star ++ [], ?_, ?_⟩
          · have := parses_stars_bwd (c :: ptl) [] (by rw [hp, hpnil]; exact Parses.nil)
            rw [hk] at this
            exact this
          · rw [matches_stars]
            exact ⟨name, [], by simp, h, rfl⟩
        · simp only [h0] at h
          cases hpk : pick items (decide (1 ≤ k)) (p.drop (scanLen false p)).isEmpty name with
          | none => simp [hpk] at h
          | some t =>
            simp only [hpk] at h
            obtain ⟨astRest, hpr, hmr⟩ := ih _ t h
            obtain ⟨pre, suf, hname, hstar, hslash, hmi, _⟩ := pick_sound _ _ _ _ _ hpk
            have hsp := (scan_parses _ (p.take (scanLen false p)) (p.drop (scanLen false p)) items astRest
              (by rw [List.take_append_drop, take_scan]) hc hpr).1
            rw [List.take_append_drop] at hsp
            have hpat := parses_stars_bwd (c :: ptl) _ (by rw [hp]; exact hsp)
            rw [hk] at hpat
            refine ⟨_, hpat, ?_⟩
            have hm := matchItems_sound items suf t hmi astRest hmr
            cases k with
            | zero =>
              have : pre = [] := by
                by_cases e : pre = []
                · exact e
                · have := hstar e; simp at this
              subst this
              simpa [hname] using hm
            | succ k' =>
              rw [matches_stars]
              exact ⟨pre, suf, hname, hslash, hm⟩

theorem goMatchF_complete (f : Nat) : ∀ (pattern name : Bytes) (ast : Pat), pattern.length ≤ f →
    Parses pattern ast → Matches ast name → slash ∉ name → (NoWide name ∨ FixedWidth ast) →
    goMatchF f pattern name = .matched true := by
  induction f with
  | zero =>
    intro pattern name ast hf hp hm _ _
    cases pattern with
    | nil =>
      rw [parses_nil_inv hp] at hm
      rw [goMatchF_nil]
      have : name = [] := hm
      simp [this]
    | cons c ptl => simp at hf
  | succ f ih =>
    intro pattern name ast hf hp hm hsl hnw
    cases pattern with
    | nil =>
      rw [parses_nil_inv hp] at hm
      rw [goMatchF_nil]
      have : name = [] := hm
      simp [this]
    | cons c ptl =>
      have hs := scanChunk_eq (c :: ptl)
      have hlt := scanChunk_rest_lt c ptl
      obtain ⟨ast', hast, hp'⟩ := parses_stars_fwd _ _ hp
      generalize hpd : (c :: ptl).dropWhile (· == 42) = p at hs hp' hlt
      generalize hk : nStars (c :: ptl) = k at hs hast
      obtain ⟨chunk, rest, items, astRest, hq, hscan, hast', hsf, hci, hpr, hrest⟩ := parses_scan hp'
      have htake : p.take (scanLen false p) = chunk := by rw [hscan, hq]; simp
      have hdrop : p.drop (scanLen false p) = rest := by rw [hscan, hq]; simp
      rw [htake, hdrop] at hs
      rw [hdrop] at hlt
      have hc := hci (chunk.length + 1) (by omega)
      rw [goMatchF_step f c ptl name _ _ _ items hs hc]
      by_cases h0 : (decide (1 ≤ k) && chunk.isEmpty) = true
      · simp only [h0, if_true]
        have : ¬ (47 : UInt8) ∈ name := hsl
        simp [this]
      · simp only [h0]
        subst hast hast'
        -- the split of the name the semantics provides
        have hsplit : ∃ pre suf, name = pre ++ suf ∧ (pre ≠ [] → decide (1 ≤ k) = true) ∧
            Matches (items ++ astRest) suf := by
          cases k with
          | zero => exact ⟨[], name, rfl, fun h => absurd rfl h, by simpa using hm⟩
          | succ k' =>
            rw [matches_stars] at hm
            obtain ⟨pre, suf, h1, _, h3⟩ := hm
            exact ⟨pre, suf, h1, fun _ => by simp, h3⟩
        obtain ⟨pre, suf, hname, hstar, hms⟩ := hsplit
        obtain ⟨tj, hmi, hmr⟩ := matchItems_complete items hsf suf astRest hms
        have hpre_sl : slash ∉ pre := fun h => hsl (by rw [hname]; exact List.mem_append_left _ h)
        have hlast : rest.isEmpty = true → tj = [] := by
          intro hl
          have : rest = [] := by simpa using hl
          subst this
          rw [parses_nil_inv hpr] at hmr
          exact hmr
        obtain ⟨pre', suf', t, hname', hlen, hmi', hlast', hpick⟩ :=
          pick_complete items (decide (1 ≤ k)) rest.isEmpty name pre suf tj hname hstar hpre_sl hmi hlast
        simp only [hpick]
        have hsuf : suf = name.drop pre.length := by rw [hname]; simp
        have hsuf' : suf' = name.drop pre'.length := by rw [hname']; simp
        rw [hsuf] at hmi
        rw [hsuf'] at hmi'
        have htj := matchItems_endPos items name _ tj hmi
        have ht := matchItems_endPos items name _ t hmi'
        have hfw_items : NoWide name ∨ FixedWidth items :=
          hnw.imp id (fun hf x hx => hf x (by simp [hx]))
        have hmono := endPos_mono name items hfw_items _ _ hlen
        have ht_sl : slash ∉ t := by
          rw [ht]; exact fun h => hsl (List.mem_of_mem_drop h)
        have ht_nw : NoWide t ∨ FixedWidth astRest := by
          rcases hnw with hnw | hf
          · left; rw [ht]; exact noWide_drop _ _ hnw
          · right; exact fun x hx => hf x (by simp [hx])
        refine ih rest t astRest (by simp only [List.length_cons] at hf hlt; omega) hpr ?_ ht_sl ht_nw
        rcases hrest with hrn | hrh
        · subst hrn
          rw [parses_nil_inv hpr]
          exact hlast' rfl
        · obtain ⟨r, rfl⟩ : ∃ r, rest = 42 :: r := by
            cases rest with
            | nil => simp at hrh
            | cons a r => simp at hrh; exact ⟨r, by rw [hrh]⟩
          obtain ⟨ast2, rfl, _⟩ := parses_star_inv hpr
          -- `t` is `tj` with some extra bytes in front, which the `*` absorbs
          have hx : t = (List.take (endPos items name pre.length - endPos items name pre'.length) t) ++ tj := by
            have e1 : tj = t.drop (endPos items name pre.length - endPos items name pre'.length) := by
              rw [htj, ht, List.drop_drop]
              congr 1; omega
            rw [e1, List.take_append_drop]
          rw [hx]
          apply matches_star_absorb _ _ _ _ hmr
          intro h
          exact ht_sl (List.mem_of_mem_take h)

theorem goMatchF_wf_total (f : Nat) : ∀ (pattern name : Bytes) (ast : Pat), pattern.length ≤ f →
    Parses pattern ast → ∃ b, goMatchF f pattern name = .matched b := by
  induction f with
  | zero =>
    intro pattern name ast hf hp
    cases pattern with
    | nil => exact ⟨_, goMatchF_nil _ _⟩
    | cons c ptl => simp at hf
  | succ f ih =>
    intro pattern name ast hf hp
    cases pattern with
    | nil => exact ⟨_, goMatchF_nil _ _⟩
    | cons c ptl =>
      have hs := scanChunk_eq (c :: ptl)
      have hlt := scanChunk_rest_lt c ptl
      obtain ⟨ast', hast, hp'⟩ := parses_stars_fwd _ _ hp
      generalize hpd : (c :: ptl).dropWhile (· == 42) = p at hs hp' hlt
      obtain ⟨chunk, rest, items, astRest, hq, hscan, hast', hsf, hci, hpr, hrest⟩ := parses_scan hp'
      have htake : p.take (scanLen false p) = chunk := by rw [hscan, hq]; simp
      have hdrop : p.drop (scanLen false p) = rest := by rw [hscan, hq]; simp
      rw [htake, hdrop] at hs
      rw [hdrop] at hlt
      have hc := hci (chunk.length + 1) (by omega)
      rw [goMatchF_step f c ptl name _ _ _ items hs hc]
      split
      · exact ⟨_, rfl⟩
      · split
        · exact ih rest _ astRest (by simp only [List.length_cons] at hf hlt; omega) hpr
        · exact ⟨_, rfl⟩

theorem goMatchF_fuel (f : Nat) : ∀ (pattern name : Bytes), pattern.length ≤ f →
    goMatchF f pattern name ≠ .outOfFuel := by
  induction f with
  | zero =>
    intro pattern name hf
    cases pattern with
    | nil => rw [goMatchF_nil]; simp
    | cons c ptl => simp at hf
  | succ f ih =>
    intro pattern name hf
    cases pattern with
    | nil => rw [goMatchF_nil]; simp
    | cons c ptl =>
      have hs := scanChunk_eq (c :: ptl)
      have hlt := scanChunk_rest_lt c ptl
      generalize hpd : (c :: ptl).dropWhile (· == 42) = p at hs hlt
      cases hc : chunkItems ((p.take (scanLen false p)).length + 1) (p.take (scanLen false p)) with
      | none => rw [goMatchF_step_bad f c ptl name _ _ _ hs hc]; simp
      | some items =>
        rw [goMatchF_step f c ptl name _ _ _ items hs hc]
        split
        · simp
        · split
          · exact ih _ _ (by simp only [List.length_cons] at hf hlt; omega)
          · simp

/-- a pattern has at most one parse -/
theorem parses_unique_aux : ∀ (n : Nat) (q : Bytes) (a b : Pat), q.length ≤ n → Parses q a → Parses q b → a = b := by
  intro n
  induction n with
  | zero =>
    intro q a b hn ha hb
    have : q = [] := by cases q <;> simp_all
    subst this
    rw [parses_nil_inv ha, parses_nil_inv hb]
  | succ n ih =>
    intro q a b hn ha hb
    cases q with
    | nil => rw [parses_nil_inv ha, parses_nil_inv hb]
    | cons c p =>
      by_cases hc : c = 42
      · subst hc
        obtain ⟨a', rfl, ha'⟩ := parses_star_inv ha
        obtain ⟨b', rfl, hb'⟩ := parses_star_inv hb
        rw [ih p a' b' (by simp only [List.length_cons] at hn; omega) ha' hb']
      · obtain ⟨ch1, r1, it1, ar1, hq1, hs1, rfl, _, hci1, hp1, _⟩ := parses_scan ha
        obtain ⟨ch2, r2, it2, ar2, hq2, hs2, rfl, _, hci2, hp2, _⟩ := parses_scan hb
        have hlen : ch1.length = ch2.length := by rw [← hs1, ← hs2]
        have happ : ch1 ++ r1 = ch2 ++ r2 := by rw [← hq1, ← hq2]
        obtain ⟨e1, e2⟩ := List.append_inj happ hlen
        subst e1 e2
        have hit : it1 = it2 := by
          have h1 := hci1 ch1.length (Nat.le_refl _)
          have h2 := hci2 ch1.length (Nat.le_refl _)
          rw [h1] at h2
          exact Option.some.inj h2
        subst hit
        have hpos : ch1.length ≠ 0 := by
          rw [← hs1]; exact fun h => hc (scanLen_zero c p h)
        have hrl : r1.length ≤ n := by
          have := congrArg List.length hq1
          simp only [List.length_cons, List.length_append] at this hn
          omega
        rw [ih r1 ar1 ar2 hrl hp1 hp2]

theorem parses_unique {q : Bytes} {a b : Pat} (ha : Parses q a) (hb : Parses q b) : a = b :=
  parses_unique_aux _ q a b (Nat.le_refl _) ha hb

/-! ### patterns without metacharacters -/

theorem hasMeta_cons (c : UInt8) (p : Bytes) :
    hasMeta (c :: p) = false ↔ (c ≠ 42 ∧ c ≠ 63 ∧ c ≠ 91 ∧ c ≠ 92) ∧ hasMeta p = false := by
  simp only [hasMeta, List.any_cons, Bool.or_eq_false_iff, beq_eq_false_iff_ne, ne_eq]
  constructor
  · intro ⟨⟨⟨⟨h1, h2⟩, h3⟩, h4⟩, h5⟩; exact ⟨⟨h1, h2, h3, h4⟩, h5⟩
  · intro ⟨⟨h1, h2, h3, h4⟩, h5⟩; exact ⟨⟨⟨⟨h1, h2⟩, h3⟩, h4⟩, h5⟩

theorem noMeta_parses : ∀ (p : Bytes), hasMeta p = false → Parses p (p.map Item.lit) := by
  intro p
  induction p with
  | nil => intro _; exact Parses.nil
  | cons c p ih =>
    intro h
    obtain ⟨⟨h42, h63, h91, h92⟩, hp⟩ := (hasMeta_cons c p).1 h
    exact Parses.lit c h42 h63 h92 h91 (ih hp)

theorem noMeta_scanLen : ∀ (p : Bytes), hasMeta p = false → scanLen false p = p.length := by
  intro p
  induction p with
  | nil => intro _; rfl
  | cons c p ih =>
    intro h
    obtain ⟨⟨h42, h63, h91, h92⟩, hp⟩ := (hasMeta_cons c p).1 h
    by_cases h93 : c = 93
    · subst h93; rw [scanLen_cons_close, ih hp, List.length_cons]; omega
    · rw [scanLen_cons_ord false c p h92 h91 h93 (Or.inl h42), ih hp, List.length_cons]; omega

theorem noMeta_chunkItems : ∀ (p : Bytes) (f : Nat), hasMeta p = false → p.length ≤ f →
    chunkItems f p = some (p.map Item.lit) := by
  intro p
  induction p with
  | nil => intro f _ _; cases f <;> rfl
  | cons c p ih =>
    intro f h hf
    obtain ⟨⟨h42, h63, h91, h92⟩, hp⟩ := (hasMeta_cons c p).1 h
    cases f with
    | zero => simp at hf
    | succ f =>
      simp only [List.length_cons] at hf
      simp [chunkItems, h63, h91, h92, ih f hp (by omega)]

theorem matchItems_lits : ∀ (p s : Bytes) (t : Bytes), matchItems (p.map Item.lit) s = some t ↔ s = p ++ t := by
  intro p
  induction p with
  | nil => intro s t; simp [matchItems]
  | cons c p ih =>
    intro s t
    cases s with
    | nil => simp [matchItems]
    | cons a s =>
      simp only [List.map_cons, matchItems, List.cons_append, List.cons.injEq]
      by_cases h : a = c
      · simp [h, ih]
      · simp [h]

theorem noMeta_nStars : ∀ (p : Bytes), hasMeta p = false → nStars p = 0 ∧ p.dropWhile (· == 42) = p := by
  intro p h
  cases p with
  | nil => exact ⟨rfl, rfl⟩
  | cons c p =>
    obtain ⟨⟨h42, _, _, _⟩, _⟩ := (hasMeta_cons c p).1 h
    exact ⟨nStars_cons_ne c p h42, by simp [h42]⟩

/-- A pattern without metacharacters matches exactly itself. -/
theorem goMatch_noMeta (pat name : Bytes) (h : hasMeta pat = false) :
    goMatch pat name = .matched (decide (name = pat)) := by
  unfold goMatch
  cases pat with
  | nil =>
    rw [goMatchF_nil]
    cases name <;> simp
  | cons c ptl =>
    have hs := scanChunk_eq (c :: ptl)
    obtain ⟨hk, hd⟩ := noMeta_nStars _ h
    rw [hk, hd, noMeta_scanLen _ h] at hs
    simp only [List.take_length, List.drop_length] at hs
    have hc := noMeta_chunkItems (c :: ptl) ((c :: ptl).length + 1) h (by omega)
    rw [goMatchF_step _ c ptl name _ _ _ _ hs hc]
    simp only [pick, List.isEmpty_nil, Bool.not_true, Bool.or_false]
    cases hm : matchItems ((c :: ptl).map Item.lit) name with
    | none =>
      simp only
      have : name ≠ c :: ptl := by
        intro e
        have := (matchItems_lits (c :: ptl) name []).2 (by simp [e])
        rw [hm] at this; cases this
      simp [this]
    | some t =>
      have ht := (matchItems_lits _ _ _).1 hm
      cases t with
      | nil =>
        simp only [List.isEmpty_nil, if_true, goMatchF_nil]
        simp [ht]
      | cons a t =>
        simp only [List.isEmpty_cons, Bool.false_eq_true, if_false]
        have : name ≠ c :: ptl := by
          intro e; rw [e] at ht
          have := congrArg List.length ht
          simp at this
        simp [this]

/-! ### concatenation, and names with `/` -/

theorem parses_append {a b : Bytes} {x y : Pat} (ha : Parses a x) (hb : Parses b y) : Parses (a ++ b) (x ++ y) := by
  induction ha with
  | nil => exact hb
  | star _ ih => exact Parses.star ih
  | any _ ih => exact Parses.any ih
  | lit c h1 h2 h3 h4 _ ih => exact Parses.lit c h1 h2 h3 h4 ih
  | esc c _ ih => exact Parses.esc c ih
  | @cls s rest rs ast h94 hbody hrs _ ih =>
    obtain ⟨body, hs, hbne, hbh, hbl, _⟩ := hbody.scan
    have e : (91 :: s) ++ b = 91 :: (body ++ (rest ++ b)) := by rw [hs]; simp
    rw [e]
    refine Parses.cls ?_ (hbl (rest ++ b)) hrs ih
    rw [head?_append_ne hbne, hbh]; exact h94
  | @ncls s rest rs ast hbody hrs _ ih =>
    obtain ⟨body, hs, hbne, hbh, hbl, _⟩ := hbody.scan
    have e : (91 :: 94 :: s) ++ b = 91 :: 94 :: (body ++ (rest ++ b)) := by rw [hs]; simp
    rw [e]
    exact Parses.ncls (hbl (rest ++ b)) hrs ih

/-- a pattern none of whose items can match `/` matches no name with a `/` -/
theorem matches_no_slash : ∀ (ast : Pat) (name : Bytes), Matches ast name →
    (∀ it ∈ ast, it.admitsSlash = false) → slash ∉ name := by
  intro ast
  induction ast with
  | nil => intro name h _; rw [show name = [] from h]; simp
  | cons it ast ih =>
    intro name h hns
    have hns' : ∀ it ∈ ast, it.admitsSlash = false := fun x hx => hns x (by simp [hx])
    have hit := hns it (by simp)
    -- the bytes of one character that does not start with `/` contain no `/`
    have runeNoSlash : ∀ (s : Bytes), s ≠ [] → s.head? ≠ some slash → slash ∉ s.drop (decode1 s).2 →
        slash ∉ s := by
      intro s hne hh hrest hmem
      have hsplit := List.take_append_drop (decode1 s).2 s
      rw [← hsplit] at hmem
      rcases List.mem_append.1 hmem with hm | hm
      · by_cases h1 : (decode1 s).2 = 1
        · cases s with
          | nil => exact hne rfl
          | cons c tl =>
            rw [h1] at hm
            simp only [List.take_succ_cons, List.take_zero, List.mem_singleton] at hm
            exact hh (by simp [hm])
        · have := decode1_wide_bytes s (by have := decode1_width_pos s; omega) slash hm
          simp [slash] at this
      · exact hrest hm
    cases it with
    | lit b =>
      obtain ⟨rest, rfl, hm⟩ := h
      have hb : b ≠ slash := by simpa [Item.admitsSlash] using hit
      intro hmem
      simp only [List.mem_cons] at hmem
      rcases hmem with e | e
      · exact hb e.symm
      · exact ih rest hm hns' e
    | any =>
      obtain ⟨h1, h2, hm⟩ := h
      exact runeNoSlash name h1 h2 (ih _ hm hns')
    | cls neg rs =>
      obtain ⟨h1, h2, hm⟩ := h
      refine runeNoSlash name h1 ?_ (ih _ hm hns')
      intro hh
      cases name with
      | nil => exact h1 rfl
      | cons c tl =>
        simp only [List.head?_cons, Option.some.injEq] at hh
        subst hh
        have hd : decode1 (slash :: tl) = (47, 1) := decode1_ascii slash tl (by decide)
        rw [hd] at h2
        simp only [Item.admitsSlash] at hit
        have : inRanges 47 rs = neg := by simpa using hit
        exact h2 this
    | star =>
      obtain ⟨pre, suf, rfl, hpre, hm⟩ := h
      intro hmem
      rcases List.mem_append.1 hmem with e | e
      · exact hpre e
      · exact ih suf hm hns' e

/-! ### `goMatch` (the fuel `len(pattern)+1` suffices) -/

theorem goMatch_sound (pat name : Bytes) (h : goMatch pat name = .matched true) : ∃ ast, Parses pat ast ∧ Matches ast name :=
  goMatchF_sound _ pat name h

theorem goMatch_complete (pat name : Bytes) (ast : Pat) (hp : Parses pat ast) (hm : Matches ast name)
    (hs : slash ∉ name) (hg : NoWide name ∨ FixedWidth ast) : goMatch pat name = .matched true :=
  goMatchF_complete (pat.length + 1) pat name ast (by omega) hp hm hs hg

theorem goMatch_total (pat name : Bytes) (ast : Pat) (hp : Parses pat ast) : ∃ b, goMatch pat name = .matched b :=
  goMatchF_wf_total (pat.length + 1) pat name ast (by omega) hp

theorem goMatch_fuel (pat name : Bytes) : goMatch pat name ≠ .outOfFuel :=
  goMatchF_fuel (pat.length + 1) pat name (by omega)

end Rare.C06.Glob
