import Rare.Proofs.C18Dur
import Rare.Proofs.F64Arith
/-!
C18: the fractional part of a `ParseDuration` group.

Go computes it in binary64: `uint64(float64(f) * (float64(unit) / scale))` (`fracTerm`, over the shared
bit-exact model `Rare/Base/F64.lean`).  When the fraction has no more digits than the unit has decimal
places (`10^k ∣ unit`: 9 for `s`, 10 for `m`, 11 for `h`) both roundings are exact and the term is
the exact integer `f · (unit / 10^k)` – `fracTerm_exact`; `parseDurLoop_fracGroup` carries this
through one `digits . digits unit` group of the loop.
-/
namespace Rare.C18
open Rare.F64

/-- `float64(n)` of a natural number up to `2^53`: finite, exact. -/
theorem ofInt_nat (n : Nat) (h : n ≤ 9007199254740992) :
    (F64.ofInt ((n : Nat) : Int)).toRat? = some ((((n : Nat) : Int)) : Rat) := by
  obtain ⟨a, b⟩ := isFinite_ofInt (n : Int) (by simpa using h)
  exact toRat?_eq_some.mpr ⟨a, b⟩

theorem intCast_mul_div (c p : Int) (hp : p ≠ 0) : ((c * p : Int) : Rat) / ((p : Int) : Rat) = (c : Rat) := by
  have : ((p : Int) : Rat) ≠ 0 := fun h => hp (Rat.intCast_eq_zero_iff.mp h)
  rw [Rat.intCast_mul, Rat.mul_div_cancel this]

/-- The float term of a fraction whose scale divides the unit is the exact integer. -/
theorem fracTerm_exact (f unit k : Nat) (hdiv : 10 ^ k ∣ unit) (hf : f < 10 ^ k)
    (hu0 : 0 < unit) (hu : unit ≤ 3600000000000) : fracTerm f unit k = f * (unit / 10 ^ k) := by
  obtain ⟨c, hc⟩ := hdiv
  have hp : 0 < 10 ^ k := Nat.pow_pos (by decide)
  have hck : unit / 10 ^ k = c := by rw [hc]; exact Nat.mul_div_cancel_left c hp
  have hc1 : 1 ≤ c := by
    rcases Nat.eq_zero_or_pos c with h | h
    · subst h; simp at hc; omega
    · exact h
  have hple : 10 ^ k ≤ unit := by rw [hc]; exact Nat.le_mul_of_pos_right _ hc1
  have hcle : c ≤ unit := by rw [hc]; exact Nat.le_mul_of_pos_left c hp
  have hfc : f * c ≤ unit := by
    rw [hc, Nat.mul_comm (10 ^ k) c, Nat.mul_comm f c]
    exact Nat.mul_le_mul_left c (Nat.le_of_lt hf)
  have hx := ofInt_nat f (by omega)
  obtain ⟨uf, uv⟩ := toRat?_eq_some.mp (ofInt_nat unit (by omega))
  obtain ⟨sf, sv⟩ := toRat?_eq_some.mp (ofInt_nat (10 ^ k) (by omega))
  have smag : (F64.ofInt ((10 ^ k : Nat) : Int)).mag ≠ 0 := by
    intro h
    have := (toRat_eq_zero_iff _).mpr h
    rw [sv] at this
    have := Rat.intCast_eq_zero_iff.mp this
    omega
  -- the quotient is the exact integer c
  have hq : (F64.div (F64.ofInt ((unit : Nat) : Int)) (F64.ofInt ((10 ^ k : Nat) : Int))).toRat? = some (((c : Nat) : Int) : Rat) := by
    rw [div_finite uf sf smag, uv, sv]
    have e : ((unit : Nat) : Int) = ((c : Nat) : Int) * ((10 ^ k : Nat) : Int) := by
      rw [hc]; push_cast; rw [Int.mul_comm]
    rw [e, intCast_mul_div _ _ (by omega)]
    obtain ⟨a, b⟩ := ofRatS_rep (F64.sign (F64.ofInt (((c : Nat) : Int) * ((10 ^ k : Nat) : Int)))
        != F64.sign (F64.ofInt ((10 ^ k : Nat) : Int))) (rep_int (n := ((c : Nat) : Int)) (by simp; omega))
    exact toRat?_eq_some.mpr ⟨a, b⟩
  have hm := mul_exact_int hx hq (by
    have : (((f : Nat) : Int) * ((c : Nat) : Int)).natAbs = f * c := by
      rw [Int.natAbs_mul]; simp
    rw [this]; omega)
  unfold fracTerm
  rw [toInt64_of_int hm (by unfold minInt64; omega) (by
    unfold maxInt64
    have : ((f : Nat) : Int) * ((c : Nat) : Int) = ((f * c : Nat) : Int) := by push_cast; rfl
    rw [this]; omega), hck]
  have : ((f : Nat) : Int) * ((c : Nat) : Int) = ((f * c : Nat) : Int) := by push_cast; rfl
  rw [this]; rfl

/-! ## `leadingFraction`, `splitFrac` on a run of digits -/

theorem digitsVal_lt_pow (ds : Bytes) (hd : ds.all isDigitB = true) (x : Nat) :
    digitsVal ds x < (x + 1) * 10 ^ ds.length := by
  induction ds generalizing x with
  | nil => simp [digitsVal]
  | cons c r ih =>
    simp only [List.all_cons, Bool.and_eq_true] at hd
    have hc : c.toNat - 48 ≤ 9 := by
      have := hd.1; unfold isDigitB at this
      simp only [Bool.and_eq_true, decide_eq_true_eq] at this
      have h2 : c.toNat ≤ 57 := by simpa [UInt8.le_iff_toNat_le] using this.2
      omega
    simp only [digitsVal, List.length_cons]
    refine Nat.lt_of_lt_of_le (ih hd.2 _) ?_
    rw [Nat.pow_succ, Nat.mul_comm (10 ^ r.length) 10, ← Nat.mul_assoc]
    exact Nat.mul_le_mul_right _ (by omega)

theorem leadingFraction_digits (ds : Bytes) (hd : ds.all isDigitB = true) (x k : Nat)
    (hb : digitsVal ds x ≤ 922337203685477580) :
    leadingFraction ds x k = (digitsVal ds x, k + ds.length) := by
  induction ds generalizing x k with
  | nil => rfl
  | cons c r ih =>
    simp only [List.all_cons, Bool.and_eq_true] at hd
    simp only [digitsVal] at hb
    have hx' : x * 10 + (c.toNat - 48) ≤ 922337203685477580 := Nat.le_trans (digitsVal_mono r _) hb
    have h1 : ¬ (x > 9223372036854775807 / 10) := by omega
    have h2 : ¬ (x * 10 + (c.toNat - 48) > 9223372036854775808) := by omega
    simp only [leadingFraction, h1, h2, if_false, digitsVal, List.length_cons]
    rw [ih hd.2 _ _ hb]
    congr 1; omega

theorem takeWhile_digits (ds : Bytes) (hd : ds.all isDigitB = true) (u : UInt8) (rest : Bytes)
    (hu : isDigitB u = false) :
    (ds ++ u :: rest).takeWhile isDigitB = ds ∧ (ds ++ u :: rest).dropWhile isDigitB = u :: rest := by
  induction ds with
  | nil => simp [hu]
  | cons c r ih =>
    simp only [List.all_cons, Bool.and_eq_true] at hd
    simp [hd.1, ih hd.2]

/-- One group `digits . digits unit` whose fraction is not finer than the unit's decimal places: the
loop adds the exact decimal value. -/
theorem parseDurLoop_fracGroup (fuel v d : Nat) (ds : Bytes) (u : UInt8) (unit : Nat) (rest : Bytes)
    (hu : (u = 104 ∧ unit = 3600000000000) ∨ (u = 109 ∧ unit = 60000000000) ∨ (u = 115 ∧ unit = 1000000000))
    (hds : ds.all isDigitB = true) (hk : 10 ^ ds.length ∣ unit)
    (hd : d + (v + 1) * unit ≤ 9223372036854775808) (ht : GroupTail rest) :
    parseDurLoop (fuel + 1) (natDigits v ++ 46 :: (ds ++ u :: rest)) d
      = parseDurLoop fuel rest (d + (v * unit + digitsVal ds 0 * (unit / 10 ^ ds.length))) := by
  obtain ⟨c, r, hcr, hc⟩ := natDigits_head v
  have hun : isDigitB u = false := by rcases hu with ⟨h, _⟩ | ⟨h, _⟩ | ⟨h, _⟩ <;> subst h <;> decide
  have hu0 : 0 < unit := by rcases hu with ⟨_, h⟩ | ⟨_, h⟩ | ⟨_, h⟩ <;> subst h <;> decide
  have hule : unit ≤ 3600000000000 := by rcases hu with ⟨_, h⟩ | ⟨_, h⟩ | ⟨_, h⟩ <;> subst h <;> decide
  have hexp : (v + 1) * unit = v * unit + unit := by rw [Nat.add_mul, Nat.one_mul]
  rw [hexp] at hd
  have hvu : v * unit + unit ≤ 9223372036854775808 := by omega
  have hvle : v ≤ 9223372036 := by
    rcases hu with ⟨_, h⟩ | ⟨_, h⟩ | ⟨_, h⟩ <;> subst h <;> omega
  have hlead : leadingInt (natDigits v ++ 46 :: (ds ++ u :: rest)) 0 = some (v, 46 :: (ds ++ u :: rest)) := by
    rw [leadingInt_digits _ (natDigits_all v) 0 _ (by rw [digitsVal_natDigits]; omega), digitsVal_natDigits,
      leadingInt_stop 46 _ v (by decide)]
  have hfirst : isNumChar c = true := isDigit_numChar hc
  have hlen : ((46 :: (ds ++ u :: rest)).length != (natDigits v ++ 46 :: (ds ++ u :: rest)).length) = true := by
    simp only [List.length_append, bne_iff_ne, ne_eq]
    have := List.length_pos_iff.mpr (natDigits_ne_nil v)
    omega
  have hsplit : splitFrac (46 :: (ds ++ u :: rest)) = (ds, u :: rest, true) := by
    obtain ⟨a, b⟩ := takeWhile_digits ds hds u rest hun
    simp only [splitFrac, a, b]
  have hupred : isNumChar u = false := by
    rcases hu with ⟨h, _⟩ | ⟨h, _⟩ | ⟨h, _⟩ <;> subst h <;> decide
  have htw : (u :: rest).takeWhile (fun c => !isNumChar c) = [u]
      ∧ (u :: rest).dropWhile (fun c => !isNumChar c) = rest := by
    rcases ht with h | ⟨c', r', h, hc'⟩
    · subst h; simp [List.takeWhile, List.dropWhile, hupred]
    · subst h
      have := isDigit_numChar hc'
      simp [List.takeWhile, List.dropWhile, hupred, this]
  have hunit : unitOf [u] = some unit := by
    rcases hu with ⟨h, h'⟩ | ⟨h, h'⟩ | ⟨h, h'⟩ <;> subst h <;> subst h' <;> decide
  have hov : ¬ (v > 9223372036854775808 / unit) := by
    rcases hu with ⟨_, h'⟩ | ⟨_, h'⟩ | ⟨_, h'⟩ <;> subst h' <;> omega
  -- the fraction
  have hple : 10 ^ ds.length ≤ unit := Nat.le_of_dvd hu0 hk
  have hflt : digitsVal ds 0 < 10 ^ ds.length := by
    have := digitsVal_lt_pow ds hds 0; simpa using this
  have hlf : leadingFraction ds 0 0 = (digitsVal ds 0, ds.length) := by
    rw [leadingFraction_digits ds hds 0 0 (by omega)]; simp
  have hterm : digitsVal ds 0 * (unit / 10 ^ ds.length) < unit := by
    obtain ⟨q, hq⟩ := hk
    have hp : 0 < 10 ^ ds.length := Nat.pow_pos (by decide)
    have : unit / 10 ^ ds.length = q := by rw [hq]; exact Nat.mul_div_cancel_left q hp
    rw [this]
    have hq0 : 0 < q := by
      rcases Nat.eq_zero_or_pos q with h | h
      · subst h; simp at hq; omega
      · exact h
    calc digitsVal ds 0 * q < 10 ^ ds.length * q := Nat.mul_lt_mul_of_pos_right hflt hq0
      _ = unit := hq.symm
  have hs : natDigits v ++ 46 :: (ds ++ u :: rest) = c :: (r ++ 46 :: (ds ++ u :: rest)) := by rw [hcr]; rfl
  conv => lhs; unfold parseDurLoop
  rw [hs] at hlead hlen ⊢
  simp only [hfirst, Bool.not_true, Bool.false_eq_true, if_false, hlead, hsplit, hlen,
    htw.1, htw.2, hunit, hov, hlf, List.isEmpty_cons]
  by_cases hf0 : digitsVal ds 0 > 0
  · have hex := fracTerm_exact (digitsVal ds 0) unit ds.length hk hflt hu0 hule
    have h3 : ¬ (v * unit + digitsVal ds 0 * (unit / 10 ^ ds.length) > 9223372036854775808) := by omega
    have h4 : ¬ (d + (v * unit + digitsVal ds 0 * (unit / 10 ^ ds.length)) > 9223372036854775808) := by omega
    have hmod : (d + (v * unit + digitsVal ds 0 * (unit / 10 ^ ds.length))) % 18446744073709551616
        = d + (v * unit + digitsVal ds 0 * (unit / 10 ^ ds.length)) := Nat.mod_eq_of_lt (by omega)
    simp [hf0, hex, h3, h4, hmod]
  · have hz : digitsVal ds 0 = 0 := by omega
    have h3 : ¬ (v * unit > 9223372036854775808) := by omega
    have h4 : ¬ (d + v * unit > 9223372036854775808) := by omega
    have hmod : (d + v * unit) % 18446744073709551616 = d + v * unit := Nat.mod_eq_of_lt (by omega)
    simp [hz, h3, h4, hmod]

/-- The float64 sum `duration.Seconds()` that `kfDuration` used before 7d50a89: whole seconds plus
`float64(nsec)/1e9`, converted with `int64(·)`. -/
def secondsViaFloat (d : Int) : Int :=
  F64.toInt64 (F64.add (F64.ofInt (Int.tdiv d 1000000000))
    (F64.div (F64.ofInt (Int.tmod d 1000000000)) (F64.ofInt 1000000000)))

/-! ## range of the result, signs -/

theorem parseDurLoop_le (fuel : Nat) : ∀ (s : Bytes) (d r : Nat), d ≤ 9223372036854775808 →
    parseDurLoop fuel s d = some r → r ≤ 9223372036854775808 := by
  induction fuel with
  | zero => intro s d r _ h; simp [parseDurLoop] at h
  | succ n ih =>
    intro s d r hd h
    unfold parseDurLoop at h
    split at h
    · cases h; exact hd
    · split at h
      · cases h
      · split at h
        · cases h
        · simp only at h
          repeat' split at h
          all_goals first | (cases h; done) | skip
          all_goals (rename_i hle; exact ih _ _ _ (by omega) h)

/-- Every duration `ParseDuration` returns is an int64 nanosecond count. -/
theorem parseDuration_range (s : Bytes) (d : Int) (h : parseDuration s = .ok d) :
    -9223372036854775808 ≤ d ∧ d ≤ 9223372036854775807 := by
  unfold parseDuration at h
  split at h
  next neg s1 _ =>
    split at h
    · cases h; omega
    · split at h
      · cases h
      · split at h
        · cases h
        · next r hr =>
          have := parseDurLoop_le _ _ _ _ (by omega) hr
          split at h
          · cases h; omega
          · split at h
            · cases h
            · cases h; omega

/-- `ParseDuration` after the sign has been consumed. -/
def durCore (neg : Bool) (s1 : Bytes) : DurRes :=
  if s1 = [48] then .ok 0
  else if s1 = [] then .err
  else match parseDurLoop (s1.length + 1) s1 0 with
    | none => .err
    | some d =>
      if neg then .ok (-(d : Int))
      else if d > 9223372036854775807 then .err else .ok d

theorem parseDuration_minus (r : Bytes) : parseDuration (45 :: r) = durCore true r := rfl
theorem parseDuration_plus (r : Bytes) : parseDuration (43 :: r) = durCore false r := rfl
theorem parseDuration_nosign (c : UInt8) (r : Bytes) (hc : c ≠ 43 ∧ c ≠ 45) :
    parseDuration (c :: r) = durCore false (c :: r) := by
  unfold parseDuration durCore
  split
  next neg s1 heq =>
    split at heq
    · next r' h' => exact absurd (List.cons.inj h').1 hc.2
    · next r' h' => exact absurd (List.cons.inj h').1 hc.1
    · cases heq; rfl

/-- A sign in front: `-x` is the negation, `+x` the same (for a text `x` without a sign of its own). -/
theorem parseDuration_sign (c : UInt8) (r : Bytes) (d : Int) (hc : c ≠ 43 ∧ c ≠ 45)
    (h : parseDuration (c :: r) = .ok d) :
    parseDuration (45 :: c :: r) = .ok (-d) ∧ parseDuration (43 :: c :: r) = .ok d := by
  rw [parseDuration_nosign c r hc] at h
  rw [parseDuration_minus, parseDuration_plus]
  refine ⟨?_, h⟩
  unfold durCore at h ⊢
  split at h
  · next h0 => cases h; simp [h0]
  · next h0 =>
    split at h
    · cases h
    · next h1 =>
      simp only [h0, h1, if_false]
      split at h
      · cases h
      · next v hv =>
        simp only [Bool.false_eq_true, if_false] at h
        split at h
        · cases h
        · cases h; simp

end Rare.C18
