import Rare.Proofs.C20Safe
import Rare.Proofs.C20Inv
/-! C20 round 2: one `WriteForLine` / `Close` through the reference terminal `Scr` – with scrolling
and the wider text class – and the invariant over a history. -/
namespace Rare.C20

theorem Scr.feedBytes_append (t : Scr) (a b : Bytes) (ha : Clean a) :
    t.feedBytes (a ++ b) = (t.feedBytes a).feedBytes b := by
  simp [Scr.feedBytes, ha b, Scr.feed_append]

theorem Scr.feedBytes_nil (t : Scr) : t.feedBytes [] = t := rfl

/-- `goTo(line)`: the terminal scrolls by the number of line feeds that did not fit, and ends on
column 0 (cursor-up stops at the top row) -/
theorem goTo_feed_scr (w : TermWriter) (line : Nat) (t : Scr) (hps : t.ps = .ground)
    (hc : 0 ≤ w.cursor) (hr : t.row < t.height) :
    Clean (w.goTo handEsc line).2 ∧
    t.feedBytes (w.goTo handEsc line).2 =
      { t with rows := shiftN t.height (t.row + (line - w.cursor.toNat) - (t.height - 1)) t.rows,
               row := t.row + (line - w.cursor.toNat) - (t.row + (line - w.cursor.toNat) - (t.height - 1))
                        - (w.cursor.toNat - line),
               col := 0 } := by
  have ha : IsAscii (w.goTo handEsc line).2 := by
    simp only [TermWriter.goTo, up1_bytes]
    intro x hx
    simp only [List.mem_append] at hx
    rcases hx with (hx | hx) | hx
    · exact isAscii_repeat _ _ (isAscii_small _ (by decide)) x hx
    · exact isAscii_repeat _ _ (isAscii_small _ (by decide)) x hx
    · exact isAscii_small _ (by decide) x hx
  refine ⟨Clean.asciiList _ ha, ?_⟩
  rw [Scr.feedBytes, decodeUtf8_of_ascii _ ha]
  simp only [TermWriter.goTo, up1_bytes, List.map_append, map_repeat]
  by_cases hge : w.cursor ≤ (line : Int)
  · have hu : (w.cursor - (line : Int)).toNat = 0 := by omega
    have hu2 : w.cursor.toNat - line = 0 := by omega
    have hd : ((line : Int) - w.cursor).toNat = line - w.cursor.toNat := by omega
    rw [hu, hu2, hd]
    simp only [List.replicate_zero, List.flatten_nil, List.append_nil]
    have : (List.replicate (line - w.cursor.toNat) (List.map (fun x : UInt8 => x.toNat) handEsc.nl)).flatten
        = List.replicate (line - w.cursor.toNat) 10 := by
      simp [handEsc]
    rw [this]
    have e : List.map (fun x : UInt8 => x.toNat) handEsc.cr = [13] := by simp [handEsc]
    rw [e, Scr.feed_downs _ t hr]
    simp
  · have hd : ((line : Int) - w.cursor).toNat = 0 := by omega
    have hd2 : line - w.cursor.toNat = 0 := by omega
    have hu : (w.cursor - (line : Int)).toNat = w.cursor.toNat - line := by omega
    rw [hd, hd2, hu]
    simp only [List.replicate_zero, List.flatten_nil, List.nil_append]
    have e : List.map (fun x : UInt8 => x.toNat) handEsc.cr = [13] := by simp [handEsc]
    have e2 : List.map (fun x : UInt8 => x.toNat) [27, 91, 49, 65] = [27, 91, 49, 65] := by decide
    rw [e, e2, Scr.feed_ups _ t hps]
    have e3 : t.row + 0 - (t.height - 1) = 0 := by omega
    rw [e3, shiftN_zero]
    simp

/-- One `WriteForLine(l, txt)` from a synchronised state. -/
theorem write_feed_scr (W : Nat) (trim : Bool) (w : TermWriter) (t : Scr) (l : Nat) (txt : Bytes)
    (hps : t.ps = .ground) (hw : t.width = W) (hc : 0 ≤ w.cursor) (hr : t.row < t.height)
    (hclear : w.clearLine = true) (hhide : w.hideCursor = true)
    (hvis : t.cursorVisible = !w.cursorHidden) (htxt : TextSafe t.cw W trim txt) :
    Clean (w.writeForLine (cfg W trim) l txt).2 ∧
    t.feedBytes (w.writeForLine (cfg W trim) l txt).2 =
      { t with cursorVisible := false,
               row := t.row + (l - w.cursor.toNat) - (t.row + (l - w.cursor.toNat) - (t.height - 1))
                        - (w.cursor.toNat - l),
               col := (shown W trim txt).length,
               rows := setRow (shiftN t.height (t.row + (l - w.cursor.toNat) - (t.height - 1)) t.rows)
                 (t.row + (l - w.cursor.toNat) - (t.row + (l - w.cursor.toNat) - (t.height - 1))
                        - (w.cursor.toNat - l)) (shown W trim txt) } ∧
    (w.writeForLine (cfg W trim) l txt).1 =
      { w with cursorHidden := true, cursor := l, maxLine := if (l : Int) > w.maxLine then l else w.maxLine } := by
  obtain ⟨toks, tail, hp, htl, hclean, hdec, hshown, hlen⟩ := piece_safe t.cw W trim txt htxt
  obtain ⟨cursor, hidden, maxLine, clearLine, hideCursor⟩ := w
  simp only at hclear hhide hc hvis
  subst hclear hhide
  have hpieceE : Clean (writeLineNoWrap handEsc trim W txt ++ handEsc.seq handEsc.erase) :=
    Clean.append hclean (clean_small _ (by decide))
  have hline : ∀ t1 : Scr, t1.cw = t.cw → t1.ps = .ground → t1.col = 0 → t1.width = W →
      t1.feedBytes (writeLineNoWrap handEsc trim W txt ++ handEsc.seq handEsc.erase) =
        { t1 with rows := setRow t1.rows t1.row (shown W trim txt), col := (shown W trim txt).length } := by
    intro t1 hcw h1 h2 h3
    rw [Scr.feedBytes, hclean, hdec, seq_erase, decode_small [0x1b, 0x5b, 0x30, 0x4b] (by decide)]
    have e2 : List.map (fun x : UInt8 => x.toNat) [0x1b, 0x5b, 0x30, 0x4b] = [27, 91, 48, 75] := by decide
    rw [e2, Scr.feed_line toks tail t1 (by rw [hcw]; exact hp) htl h1 h2 (by rw [h3]; exact hlen), hshown]
  cases hidden with
  | false =>
    simp only [Bool.not_false] at hvis
    let s1 : TermWriter := ⟨cursor, true, maxLine, true, true⟩
    have hg := goTo_feed_scr s1 l { t with cursorVisible := false } hps hc hr
    simp only [TermWriter.writeForLine, cfg, Bool.and_self, Bool.not_false, if_true, TermWriter.writeAtCursor,
      Bool.true_and, goTo_clear]
    refine ⟨?_, ?_, ?_⟩
    · exact Clean.append (Clean.append (clean_small _ (by decide)) hg.1) hpieceE
    · rw [List.append_assoc, Scr.feedBytes_append _ _ _ (clean_small _ (by decide))]
      rw [Scr.feedBytes_append _ _ _ hg.1]
      have h1 : t.feedBytes (handEsc.seq handEsc.hide) = { t with cursorVisible := false } := by
        rw [Scr.feedBytes, seq_hide, decode_small _ (by decide)]
        have := Scr.feed_hide t
        obtain ⟨w', ht, o, cw, rows, row, col, vis, ps⟩ := t
        simp only at hps; subst hps
        exact this
      rw [h1, hg.2]
      refine (hline _ ?_ ?_ ?_ ?_).trans ?_
      · rfl
      · simpa using hps
      · rfl
      · simpa using hw
      · rfl
    · simp [TermWriter.goTo]
  | true =>
    simp only [Bool.not_true] at hvis
    let s1 : TermWriter := ⟨cursor, true, maxLine, true, true⟩
    have hg := goTo_feed_scr s1 l t hps hc hr
    simp only [TermWriter.writeForLine, cfg, Bool.not_true, Bool.and_false, Bool.false_eq_true, if_false,
      TermWriter.writeAtCursor, if_true, List.nil_append, goTo_clear]
    refine ⟨?_, ?_, ?_⟩
    · exact Clean.append hg.1 hpieceE
    · rw [Scr.feedBytes_append _ _ _ hg.1, hg.2]
      refine (hline _ ?_ ?_ ?_ ?_).trans ?_
      · rfl
      · simpa using hps
      · rfl
      · simpa using hw
      · obtain ⟨w', ht, o, cw, rows, row, col, vis, ps⟩ := t
        simp only at hvis; subst hvis; rfl
    · simp [TermWriter.goTo]

/-! ### the invariant -/

theorem latest_mem {κ α : Type} [DecidableEq κ] (h : List (κ × α)) (i : κ) (x : α) :
    latest h i = some x → ∃ u ∈ h, u.1 = i := by
  have : ∀ (h : List (κ × α)) (acc : Option α),
      h.foldl (fun acc u => if u.1 = i then some u.2 else acc) acc = some x → acc = some x ∨ ∃ u ∈ h, u.1 = i := by
    intro h
    induction h with
    | nil => intro acc hh; exact Or.inl hh
    | cons u rest ih =>
      intro acc hh
      simp only [List.foldl_cons] at hh
      rcases ih _ hh with h1 | ⟨v, hv, hvi⟩
      · by_cases hu : u.1 = i
        · exact Or.inr ⟨u, by simp, hu⟩
        · simp only [hu, if_false] at h1; exact Or.inl h1
      · exact Or.inr ⟨v, by simp [hv], hvi⟩
  intro hl
  rcases this h none hl with h1 | h1
  · cases h1
  · exact h1

/-- rows scrolled off the top so far: the block of lines `0 … maxLine` starts on row `r0` of a screen of `H` rows -/
def scrolled (H r0 : Nat) (maxLine : Int) : Nat := r0 + maxLine.toNat - (H - 1)

/-- the writer and the terminal agree (up to the rows that have scrolled off), and the screen shows
the latest texts of the lines that are still on it -/
structure Inv2 (W H r0 : Nat) (trim : Bool) (t0 : Scr) (hist : List (Nat × Bytes)) (w : TermWriter) (t : Scr) : Prop where
  ps : t.ps = .ground
  width : t.width = W
  height : t.height = H
  onlcr : t.onlcr = t0.onlcr
  cw : t.cw = t0.cw
  rowlt : t.row < H
  row : t.row + scrolled H r0 w.maxLine = r0 + w.cursor.toNat
  cur0 : 0 ≤ w.cursor
  curLe : w.cursor ≤ w.maxLine
  maxGe : ∀ u ∈ hist, (u.1 : Int) ≤ w.maxLine
  maxIn : w.maxLine = 0 ∨ ∃ u ∈ hist, (u.1 : Int) = w.maxLine
  clear : w.clearLine = true
  hideC : w.hideCursor = true
  vis : t.cursorVisible = !w.cursorHidden
  written : ∀ i txt, latest hist i = some txt → scrolled H r0 w.maxLine ≤ r0 + i →
    t.rows (r0 + i - scrolled H r0 w.maxLine) = shown W trim txt
  other : ∀ j, j < H → (∀ i, latest hist i ≠ none → r0 + i ≠ j + scrolled H r0 w.maxLine) →
    t.rows j = shiftN H (scrolled H r0 w.maxLine) t0.rows j

theorem inv2_init (W H r0 : Nat) (trim : Bool) (t0 : Scr) (hps : t0.ps = .ground) (hw : t0.width = W)
    (hh : t0.height = H) (hr : t0.row = r0) (hlt : r0 < H) (hv : t0.cursorVisible = true) :
    Inv2 W H r0 trim t0 [] TermWriter.new t0 := by
  have hs : scrolled H r0 TermWriter.new.maxLine = 0 := by simp [scrolled, TermWriter.new]; omega
  refine ⟨hps, hw, hh, rfl, rfl, by omega, by rw [hs]; simp [TermWriter.new, hr], by simp [TermWriter.new],
    by simp [TermWriter.new], by simp, Or.inl rfl, rfl, rfl, by simp [TermWriter.new, hv], ?_, ?_⟩
  · intro i txt h; simp [latest] at h
  · intro j _ _; rw [hs, shiftN_zero]

theorem inv2_step {W H r0 : Nat} {trim : Bool} {t0 : Scr} {hist : List (Nat × Bytes)} {w : TermWriter} {t : Scr}
    (inv : Inv2 W H r0 trim t0 hist w t) (l : Nat) (txt : Bytes)
    (hreach : r0 + max w.maxLine.toNat l - (H - 1) ≤ r0 + l) (htxt : TextSafe t0.cw W trim txt) :
    Clean (w.writeForLine (cfg W trim) l txt).2 ∧
    Inv2 W H r0 trim t0 (hist ++ [(l, txt)]) (w.writeForLine (cfg W trim) l txt).1
      (t.feedBytes (w.writeForLine (cfg W trim) l txt).2) := by
  obtain ⟨hclean, hfeed, hw⟩ := write_feed_scr W trim w t l txt inv.ps inv.width inv.cur0
    (by rw [inv.height]; exact inv.rowlt) inv.clear inv.hideC inv.vis (by rw [inv.cw]; exact htxt)
  refine ⟨hclean, ?_⟩
  rw [hfeed, hw]
  have hrow := inv.row
  have hrl := inv.rowlt
  have hc0 := inv.cur0
  have hcl := inv.curLe
  have hH := inv.height
  -- the new maximum and the new scroll offset
  have hmax : (if (l : Int) > w.maxLine then (l : Int) else w.maxLine).toNat = max w.maxLine.toNat l := by
    split <;> omega
  have hsc' : scrolled H r0 (if (l : Int) > w.maxLine then (l : Int) else w.maxLine) = r0 + max w.maxLine.toNat l - (H - 1) := by
    unfold scrolled; rw [hmax]
  have hsc : scrolled H r0 w.maxLine = r0 + w.maxLine.toNat - (H - 1) := rfl
  -- the scroll step
  have hk : t.row + (l - w.cursor.toNat) - (t.height - 1) + (r0 + w.maxLine.toNat - (H - 1))
      = r0 + max w.maxLine.toNat l - (H - 1) := by
    rw [hsc] at hrow; rw [hH]; omega
  have hrow' : t.row + (l - w.cursor.toNat) - (t.row + (l - w.cursor.toNat) - (t.height - 1)) - (w.cursor.toNat - l)
      + (r0 + max w.maxLine.toNat l - (H - 1)) = r0 + l := by
    rw [hsc] at hrow; rw [hH]; omega
  generalize hkd : t.row + (l - w.cursor.toNat) - (t.height - 1) = k at hk hrow' ⊢
  generalize hrd : t.row + (l - w.cursor.toNat) - k - (w.cursor.toNat - l) = row' at hrow' ⊢
  generalize hMd : max w.maxLine.toNat l = M' at hsc' hk hrow' hreach
  have hrow'lt : row' < H := by rw [hH] at hkd; omega
  refine ⟨inv.ps, inv.width, inv.height, inv.onlcr, inv.cw, hrow'lt, ?_, ?_, ?_, ?_, ?_, inv.clear, inv.hideC, rfl, ?_, ?_⟩
  · simp only; rw [hsc']; simpa using hrow'
  · simp
  · simp only; split <;> omega
  · intro u hu
    simp only [List.mem_append, List.mem_singleton] at hu
    simp only
    rcases hu with hu | hu
    · have := inv.maxGe u hu; split <;> omega
    · subst hu; simp only; split <;> omega
  · simp only
    by_cases hgt : (l : Int) > w.maxLine
    · right; exact ⟨(l, txt), by simp, by simp [hgt]⟩
    · simp only [hgt, if_false]
      rcases inv.maxIn with h | ⟨u, hu, hum⟩
      · left; exact h
      · right; exact ⟨u, by simp [hu], hum⟩
  · intro i x hx hsi
    (try simp only at hsi ⊢)
    rw [hsc'] at hsi ⊢
    rw [latest_snoc] at hx
    by_cases hli : l = i
    · subst hli; simp at hx; subst hx
      have : r0 + l - (r0 + M' - (H - 1)) = row' := by omega
      rw [this]; simp [setRow]
    · simp only [hli, if_false] at hx
      have hne : r0 + i - (r0 + M' - (H - 1)) ≠ row' := by omega
      rw [setRow_ne _ _ _ _ hne]
      obtain ⟨u, hu, hui⟩ := latest_mem hist i x hx
      have hiM := inv.maxGe u hu
      rw [hui] at hiM
      have hold := inv.written i x hx
      rw [hsc] at hold
      rw [hH]
      simp only [shiftN]
      by_cases hk0 : k = 0
      · simp only [hk0, if_true]
        have e : r0 + M' - (H - 1) = r0 + w.maxLine.toNat - (H - 1) := by omega
        rw [e]; exact hold (by omega)
      · simp only [hk0, if_false]
        have h1 : r0 + i - (r0 + M' - (H - 1)) + k < H := by omega
        simp only [h1, if_true]
        have e : r0 + i - (r0 + M' - (H - 1)) + k = r0 + i - (r0 + w.maxLine.toNat - (H - 1)) := by omega
        rw [e]; exact hold (by omega)
  · intro j hj hfree
    (try simp only at hfree ⊢)
    rw [hsc'] at hfree ⊢
    have hjl : j ≠ row' := by
      have := hfree l (by rw [latest_snoc]; simp)
      omega
    rw [setRow_ne _ _ _ _ hjl]
    have hfree_old : ∀ j', j' + (r0 + w.maxLine.toNat - (H - 1)) = j + (r0 + M' - (H - 1)) →
        ∀ i, latest hist i ≠ none → r0 + i ≠ j' + scrolled H r0 w.maxLine := by
      intro j' hj' i hi
      rw [hsc, hj']
      apply hfree i
      rw [latest_snoc]
      simp only
      split
      · simp
      · exact hi
    rw [hH]
    simp only [shiftN]
    by_cases hk0 : k = 0
    · simp only [hk0, if_true]
      have e : r0 + M' - (H - 1) = r0 + w.maxLine.toNat - (H - 1) := by omega
      have := inv.other j hj (hfree_old j (by omega))
      rw [this, hsc, e]; rfl
    · simp only [hk0, if_false]
      have hs'pos : r0 + M' - (H - 1) ≠ 0 := by omega
      simp only [hs'pos, if_false]
      by_cases h1 : j + k < H
      · simp only [h1, if_true]
        have := inv.other (j + k) h1 (hfree_old (j + k) (by omega))
        rw [this, hsc]
        simp only [shiftN]
        by_cases hs0 : r0 + w.maxLine.toNat - (H - 1) = 0
        · have e1 : j + (r0 + M' - (H - 1)) = j + k := by omega
          have e2 : j + (r0 + M' - (H - 1)) < H := by omega
          simp only [hs0, if_true, e1, h1]
        · simp only [hs0, if_false]
          have e1 : j + k + (r0 + w.maxLine.toNat - (H - 1)) = j + (r0 + M' - (H - 1)) := by omega
          rw [e1]
      · have e2 : ¬ j + (r0 + M' - (H - 1)) < H := by omega
        simp only [h1, e2, if_false]

theorem writeForLine_maxLine (c : Cfg) (w : TermWriter) (l : Int) (txt : Bytes) :
    (w.writeForLine c l txt).1.maxLine = if l > w.maxLine then l else w.maxLine := by
  simp only [TermWriter.writeForLine, TermWriter.goTo]
  split <;> rfl

/-- every update goes to a line still on the screen, starting from the writer's `maxLine` -/
theorem inv2_run (W H r0 : Nat) (trim : Bool) (t0 : Scr) : ∀ (rest hist : List (Nat × Bytes)) (w : TermWriter) (t : Scr),
    Inv2 W H r0 trim t0 hist w t → Reachable H r0 w.maxLine.toNat rest → (∀ u ∈ rest, TextSafe t0.cw W trim u.2) →
    Clean (w.runHistory (cfg W trim) (castHist rest)).2 ∧
    Inv2 W H r0 trim t0 (hist ++ rest) (w.runHistory (cfg W trim) (castHist rest)).1
      (t.feedBytes (w.runHistory (cfg W trim) (castHist rest)).2) := by
  intro rest
  induction rest with
  | nil =>
    intro hist w t inv _ _
    exact ⟨by simpa [castHist, TermWriter.runHistory] using Clean.nil,
      by simpa [castHist, TermWriter.runHistory, Scr.feedBytes_nil] using inv⟩
  | cons u rest ih =>
    intro hist w t inv hreach h
    obtain ⟨hr1, hr2⟩ := hreach
    obtain ⟨hclean, inv'⟩ := inv2_step inv u.1 u.2 hr1 (h u (by simp))
    have hm : (w.writeForLine (cfg W trim) u.1 u.2).1.maxLine.toNat = max w.maxLine.toNat u.1 := by
      have hc0 := inv.cur0; have hcl := inv.curLe
      rw [writeForLine_maxLine]
      split <;> omega
    have := ih (hist ++ [(u.1, u.2)]) _ _ inv' (by rw [hm]; exact hr2) (fun x hx => h x (by simp [hx]))
    simp only [castHist, List.map_cons, TermWriter.runHistory]
    rw [Scr.feedBytes_append _ _ _ hclean]
    exact ⟨Clean.append hclean (by simpa [castHist] using this.1), by simpa [castHist] using this.2⟩

/-- `Close()` from a synchronised state: one more row may scroll off -/
theorem close_feed_scr {W H r0 : Nat} {trim : Bool} {t0 : Scr} {hist : List (Nat × Bytes)} {w : TermWriter} {t : Scr}
    (inv : Inv2 W H r0 trim t0 hist w t) :
    t.feedBytes (w.close (cfg W trim)).2 =
      { t with rows := shiftN H (r0 + w.maxLine.toNat + 1 - (H - 1) - scrolled H r0 w.maxLine) t.rows,
               row := r0 + w.maxLine.toNat + 1 - (r0 + w.maxLine.toNat + 1 - (H - 1)),
               col := 0, cursorVisible := true } := by
  have hc0 := inv.cur0
  have hcl := inv.curLe
  have hrow := inv.row
  have hrl := inv.rowlt
  have hcast : ((w.maxLine.toNat : Nat) : Int) = w.maxLine := by omega
  have hg := goTo_feed_scr w w.maxLine.toNat t inv.ps inv.cur0 (by rw [inv.height]; exact inv.rowlt)
  rw [hcast] at hg
  simp only [TermWriter.close, cfg, goTo_hidden]
  rw [List.append_assoc, Scr.feedBytes_append _ _ _ hg.1, hg.2]
  have hk : t.row + (w.maxLine.toNat - w.cursor.toNat) - (t.height - 1) = 0 := by
    rw [inv.height]; unfold scrolled at hrow; omega
  have hu : w.cursor.toNat - w.maxLine.toNat = 0 := by omega
  have hr2 : t.row + (w.maxLine.toNat - w.cursor.toNat) = r0 + w.maxLine.toNat - scrolled H r0 w.maxLine := by
    unfold scrolled at hrow ⊢; omega
  rw [hk, hu, shiftN_zero, hr2]
  simp only [Nat.sub_zero]
  have hlt2 : r0 + w.maxLine.toNat - scrolled H r0 w.maxLine < H := by unfold scrolled at hrow ⊢; omega
  generalize hsd : scrolled H r0 w.maxLine = s at hlt2 hrow ⊢
  have hsd' : s = r0 + w.maxLine.toNat - (H - 1) := by rw [← hsd]; rfl
  obtain ⟨cursor, hidden, maxLine, clearLine, hideCursor⟩ := w
  obtain ⟨w', ht, o, cw, rows, row, col, vis, ps⟩ := t
  have hps := inv.ps; have hvis := inv.vis; have hht := inv.height
  simp only at hps hvis hht hlt2 hsd' ⊢
  subst hps hht
  have hlf : ∀ v : Bool, (Scr.mk w' ht o cw rows (r0 + maxLine.toNat - s) 0 v .ground).step 10 =
      Scr.mk w' ht o cw (shiftN ht (r0 + maxLine.toNat + 1 - (ht - 1) - s) rows)
        (r0 + maxLine.toNat + 1 - (r0 + maxLine.toNat + 1 - (ht - 1))) 0 v .ground := by
    intro v
    rw [Scr.step_lf, Scr.lineFeed_col0 _ rfl hlt2]
    have e1 : r0 + maxLine.toNat - s + 1 - (ht - 1) = r0 + maxLine.toNat + 1 - (ht - 1) - s := by omega
    have e2 : r0 + maxLine.toNat - s + 1 - (r0 + maxLine.toNat + 1 - (ht - 1) - s)
        = r0 + maxLine.toNat + 1 - (r0 + maxLine.toNat + 1 - (ht - 1)) := by omega
    simp only [e1, e2]
  cases hidden with
  | true =>
    simp only [if_true, Scr.feedBytes]
    rw [decode_small _ (by decide)]
    have : List.map (fun x : UInt8 => x.toNat) (handEsc.closeNl ++ handEsc.seq handEsc.unhide) = [10] ++ [27, 91, 63, 50, 53, 104] := by decide
    have e10 : ∀ t : Scr, t.feed [10] = t.step 10 := fun _ => rfl
    rw [this, Scr.feed_append, e10, hlf, Scr.feed_show]
  | false =>
    simp only [Bool.not_false] at hvis
    subst hvis
    simp only [Bool.false_eq_true, if_false, List.append_nil, Scr.feedBytes]
    rw [decode_small _ (by decide)]
    have : List.map (fun x : UInt8 => x.toNat) handEsc.closeNl = [10] := by decide
    have e10 : ∀ t : Scr, t.feed [10] = t.step 10 := fun _ => rfl
    rw [this, e10, hlf]

end Rare.C20
