import Rare.Proofs.C20Utf8
/-!
Go's UTF-8 decoding across an ASCII byte: whatever precedes an ASCII byte (well-formed or not,
a truncated multi-byte sequence included) decodes on its own.  This is why the padding blank that
`TableWriter.writeRow` puts after every cell keeps the cells apart for `StrLen`, for ALL cell texts.
-/
namespace Rare.C14
open Rare Rare.C20

theorem isCont_ascii {y : Nat} (h : y < 0x80) : isCont y = false := by
  unfold isCont; simp; omega

theorem accLo_ge (x : Nat) : 0x80 ≤ accLo x := by
  unfold accLo
  split
  · omega
  · split <;> omega

/-- the first rune of `b0 :: tl` does not change when an ASCII byte (and anything) follows, and its
width stays inside `b0 :: tl` -/
theorem decode1_ascii_boundary (b0 : UInt8) (tl : Bytes) (x : UInt8) (hx : x.toNat < 0x80) (rest : Bytes) :
    decode1 (b0 :: tl ++ x :: rest) = decode1 (b0 :: tl) ∧ (decode1 (b0 :: tl)).2 - 1 ≤ tl.length := by
  have hc := isCont_ascii hx
  have hlo := accLo_ge b0.toNat
  match tl with
  | [] =>
    simp only [List.cons_append, List.nil_append, decode1, hc]
    by_cases h0 : b0.toNat < 0x80
    · simp [h0]
    · simp only [h0, if_false]
      have h3 : ¬ (accLo b0.toNat ≤ x.toNat) := by omega
      cases rest with
      | nil => simp
      | cons r1 rest =>
        cases rest with
        | nil => simp [h3]
        | cons r2 rest => simp [h3]
  | [b1] =>
    simp only [List.cons_append, List.nil_append, decode1, hc]
    by_cases h0 : b0.toNat < 0x80
    · simp [h0]
    · simp only [h0, if_false]
      by_cases h2 : 0xC2 ≤ b0.toNat ∧ b0.toNat ≤ 0xDF ∧ isCont b1.toNat = true
      · simp [h2]
      · simp only [h2, if_false]
        cases rest with
        | nil => simp
        | cons r1 rest => simp
  | [b1, b2] =>
    simp only [List.cons_append, List.nil_append, decode1, hc]
    by_cases h0 : b0.toNat < 0x80
    · simp [h0]
    · simp only [h0, if_false]
      by_cases h2 : 0xC2 ≤ b0.toNat ∧ b0.toNat ≤ 0xDF ∧ isCont b1.toNat = true
      · simp [h2]
      · simp only [h2, if_false]
        by_cases h3 : 0xE0 ≤ b0.toNat ∧ b0.toNat ≤ 0xEF ∧ accLo b0.toNat ≤ b1.toNat ∧ b1.toNat ≤ accHi b0.toNat ∧ isCont b2.toNat = true
        · simp [h3]
        · simp [h3]
  | b1 :: b2 :: b3 :: tl' =>
    simp only [List.cons_append, decode1]
    by_cases h0 : b0.toNat < 0x80
    · simp [h0]
    · simp only [h0, if_false]
      by_cases h2 : 0xC2 ≤ b0.toNat ∧ b0.toNat ≤ 0xDF ∧ isCont b1.toNat = true
      · simp [h2]
      · simp only [h2, if_false]
        by_cases h3 : 0xE0 ≤ b0.toNat ∧ b0.toNat ≤ 0xEF ∧ accLo b0.toNat ≤ b1.toNat ∧ b1.toNat ≤ accHi b0.toNat ∧ isCont b2.toNat = true
        · simp [h3]
        · simp only [h3, if_false]
          split <;> simp

/-- decoding splits at every ASCII byte, whatever precedes it -/
theorem decodeUtf8_ascii_boundary (x : UInt8) (hx : x.toNat < 0x80) (rest : Bytes) :
    ∀ (n : Nat) (a : Bytes), a.length ≤ n → decodeUtf8 (a ++ x :: rest) = decodeUtf8 a ++ x.toNat :: decodeUtf8 rest := by
  intro n
  induction n with
  | zero =>
    intro a ha
    have : a = [] := List.eq_nil_of_length_eq_zero (by omega)
    subst this
    simp [decodeUtf8_ascii x hx, decodeUtf8_nil]
  | succ n ih =>
    intro a ha
    cases a with
    | nil => simp [decodeUtf8_ascii x hx, decodeUtf8_nil]
    | cons b0 tl =>
      obtain ⟨h1, h2⟩ := decode1_ascii_boundary b0 tl x hx rest
      rw [List.cons_append, decodeUtf8_cons, decodeUtf8_cons b0 tl]
      have h1' : decode1 (b0 :: (tl ++ x :: rest)) = decode1 (b0 :: tl) := by simpa using h1
      rw [h1', List.drop_append_of_le_length h2]
      rw [ih (tl.drop ((decode1 (b0 :: tl)).2 - 1)) (by simp at ha ⊢; omega)]
      simp

theorem decodeUtf8_before_ascii (a : Bytes) (x : UInt8) (hx : x.toNat < 0x80) (rest : Bytes) :
    decodeUtf8 (a ++ x :: rest) = decodeUtf8 a ++ x.toNat :: decodeUtf8 rest :=
  decodeUtf8_ascii_boundary x hx rest a.length a (Nat.le_refl _)

end Rare.C14
