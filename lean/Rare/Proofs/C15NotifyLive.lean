import Rare.Proofs.C15Notify
/-!
C15 – progress and measures for the notify system: with a silent writer the kernel goroutine and
the reader (a) deliver a byte after finitely many steps whenever unread bytes exist in the file in
place, (b) end the stream after finitely many steps once the file was removed (plain follow).
-/
namespace Rare.Follow
open Rare.C15.Spec

variable {β : Type} {cfg : NCfg} {ex : Bool} {st0 : Nat}

def rdW : NRd → Nat
  | .reading => 1
  | _ => 0

/-- Work left for kernel goroutine and reader before the reader blocks (one dispatched event leaves at most
    two tokens: a Create raises both signals in re-open mode). -/
def nmu (s : NSt β) : Nat := 5 * s.evq.length + 2 * (s.pw + s.pd) + rdW s.rd

def unreadLen (s : NSt β) : Nat :=
  match s.f with
  | some h => (unread s.fs h).length
  | none => 0

theorem sendNB_le_succ (cap n : Nat) : sendNB cap n ≤ n + 1 := by
  unfold sendNB; split <;> omega

theorem dispatch1_pw_pd (cfg : NCfg) (s : NSt β) (e : Ev) :
    (dispatch1 cfg s e).pw + (dispatch1 cfg s e).pd ≤ s.pw + s.pd + 2 := by
  cases e <;> simp only [dispatch1]
  · have := sendNB_le_succ cfg.capW s.pw; omega
  · have := sendNB_le_succ cfg.capD s.pd; omega
  · have := sendNB_le_succ cfg.capW s.pw
    have := sendNB_le_succ cfg.capD s.pd
    split <;> omega
  · omega

@[simp] theorem onWrite_evq (s : NSt β) : (onWrite cfg s).evq = s.evq := by simp only [onWrite]; split <;> rfl
@[simp] theorem onWrite_pw (s : NSt β) : (onWrite cfg s).pw = s.pw := by simp only [onWrite]; split <;> rfl
@[simp] theorem onWrite_pd (s : NSt β) : (onWrite cfg s).pd = s.pd := by simp only [onWrite]; split <;> rfl
@[simp] theorem reopen_evq (s : NSt β) : (reopenIfReplaced s).evq = s.evq := by simp only [reopenIfReplaced]; split <;> rfl
@[simp] theorem reopen_pw (s : NSt β) : (reopenIfReplaced s).pw = s.pw := by simp only [reopenIfReplaced]; split <;> rfl
@[simp] theorem reopen_pd (s : NSt β) : (reopenIfReplaced s).pd = s.pd := by simp only [reopenIfReplaced]; split <;> rfl

/-- Every step of the kernel goroutine or the reader either delivers at least one byte or strictly
    decreases `nmu`. -/
theorem nstep_measure {w : Who} {s s' : NSt β} (hw : w ≠ .writer) (hs : NStep cfg w s s') :
    (∃ bs, bs ≠ [] ∧ s'.delivered = s.delivered ++ bs) ∨ nmu s' < nmu s := by
  cases hs with
  | append _ i bs hp hbs => exact absurd rfl hw
  | remove _ i hp => exact absurd rfl hw
  | create _ hp => exact absurd rfl hw
  | noise _ => exact absurd rfl hw
  | dispatch _ e rest he =>
    right
    have := dispatch1_pw_pd cfg { s with evq := rest } e
    simp only [nmu, dispatch1_evq, dispatch1_rd, he, List.length_cons] at this ⊢
    omega
  | readSome _ x n hrd hf h1 hn =>
    left
    refine ⟨(unread s.fs x).take n, ?_, rfl⟩
    intro h0
    have : ((unread s.fs x).take n).length = 0 := by rw [h0]; rfl
    simp only [List.length_take] at this
    omega
  | readEmpty _ x hrd hf hu => right; simp [nmu, hrd, rdW]
  | readNil _ hrd hf => right; simp [nmu, hrd, rdW]
  | recvW _ hrd hpw => right; simp only [nmu, onWrite_evq, onWrite_pw, onWrite_pd, hrd, rdW]; omega
  | recvD _ hrd hpd hre => right; simp only [nmu, reopen_evq, reopen_pw, reopen_pd, hrd, rdW]; omega
  | recvDPlain _ hrd hpd hre => right; simp only [nmu, NSt.closeFile, hrd, rdW]; omega

/-- No lost wake-up, operational form: unread bytes in the open file ⇒ some non-writer step is enabled. -/
theorem unread_progress {s : NSt β} (h : NInv cfg ex st0 s) (x : Handle) (hf : s.f = some x)
    (hu : unread s.fs x ≠ []) (hne : s.rd ≠ .ended) : ∃ w s', w ≠ Who.writer ∧ NStep cfg w s s' := by
  cases hrd : s.rd with
  | ended => exact absurd hrd hne
  | reading =>
    have : 1 ≤ (unread s.fs x).length := by
      cases hl : unread s.fs x with
      | nil => exact absurd hl hu
      | cons a l => simp
    exact ⟨.reader, _, by simp, .readSome s x 1 hrd hf (Nat.le_refl 1) this⟩
  | selecting =>
    rcases h.wake x hf hu with h1 | h1 | h1
    · exact ⟨.reader, _, by simp, .recvW s hrd h1⟩
    · cases he : s.evq with
      | nil => rw [he] at h1; cases h1
      | cons e rest => exact ⟨.kernel, _, by simp, .dispatch s e rest he⟩
    · exact absurd hrd h1

/-- While the file is in place a non-delivering step of kernel goroutine / reader leaves the file,
    the handle and `removes` alone. -/
theorem sys_step_inplace {w : Who} {s s' : NSt β} (h : NInv cfg ex st0 s) (hex : ex = true) (hw : w ≠ .writer)
    (hs : NStep cfg w s s') (hr : s.removes = 0) (x : Handle) (hf : s.f = some x) :
    (∃ bs, bs ≠ [] ∧ s'.delivered = s.delivered ++ bs) ∨
    (nmu s' < nmu s ∧ s'.f = s.f ∧ s'.fs = s.fs ∧ s'.removes = s.removes ∧ s'.delivered = s.delivered ∧ s'.rd ≠ .ended) := by
  have hpd : s.pd = 0 := by
    cases hp : s.pd with
    | zero => rfl
    | succ k =>
      rcases h.dSig (Or.inl (by omega)) with h1 | ⟨_, h2⟩
      · omega
      · rw [h2] at hex; cases hex
  rcases nstep_measure hw hs with hm | hm
  · exact Or.inl hm
  · right
    refine ⟨hm, ?_⟩
    cases hs with
    | append _ i bs hp hbs => exact absurd rfl hw
    | remove _ i hp => exact absurd rfl hw
    | create _ hp => exact absurd rfl hw
    | noise _ => exact absurd rfl hw
    | dispatch _ e rest he =>
      refine ⟨by simp, by simp, by simp, by simp, ?_⟩
      simp only [dispatch1_rd]
      intro he'; have := (h.ended he').2.1; omega
    | readSome _ y n hrd hf' h1 hn =>
      exfalso
      simp only [nmu] at hm; omega
    | readEmpty _ y hrd hf' hu => exact ⟨rfl, rfl, rfl, rfl, by simp⟩
    | readNil _ hrd hf' => exact ⟨rfl, rfl, rfl, rfl, by simp⟩
    | recvW _ hrd hpw =>
      have : onWrite cfg { s with pw := s.pw - 1 } = { s with pw := s.pw - 1 } := by
        simp [onWrite, hf]
      rw [this]; exact ⟨rfl, rfl, rfl, rfl, by simp⟩
    | recvD _ hrd hpd' hre => omega
    | recvDPlain _ hrd hpd' hre => omega

theorem NSysReach.trans {s s' s'' : NSt β} (h1 : NSysReach cfg s s') (h2 : NSysReach cfg s' s'') :
    NSysReach cfg s s'' := by
  induction h1 with
  | refl => exact h2
  | step hw hs _ ih => exact .step hw hs (ih h2)

/-- Under a silent writer, unread bytes of the file in place are delivered after finitely many steps
    of kernel goroutine and reader: the reader cannot block for ever in front of unread data. -/
theorem eventually_delivered_aux (hW : 1 ≤ cfg.capW) (hD : 1 ≤ cfg.capD) :
    ∀ (k : Nat) (s : NSt β), nmu s ≤ k → NInv cfg ex st0 s → ex = true → s.removes = 0 → ∀ x, s.f = some x →
      unread s.fs x ≠ [] → s.rd ≠ .ended →
      ∃ s' bs, NSysReach cfg s s' ∧ bs ≠ [] ∧ s'.delivered = s.delivered ++ bs := by
  intro k
  induction k with
  | zero =>
    intro s hk h hex hr x hf hu hne
    obtain ⟨w, s1, hw, hs⟩ := unread_progress h x hf hu hne
    rcases sys_step_inplace h hex hw hs hr x hf with ⟨bs, hb, hd⟩ | ⟨hm, _⟩
    · exact ⟨s1, bs, .step hw hs (.refl _), hb, hd⟩
    · omega
  | succ k ih =>
    intro s hk h hex hr x hf hu hne
    obtain ⟨w, s1, hw, hs⟩ := unread_progress h x hf hu hne
    rcases sys_step_inplace h hex hw hs hr x hf with ⟨bs, hb, hd⟩ | ⟨hm, hf1, hfs1, hr1, hd1, hne1⟩
    · exact ⟨s1, bs, .step hw hs (.refl _), hb, hd⟩
    · have h1 := ninv_step hW hD h hs
      obtain ⟨s2, bs, hreach, hb, hd⟩ := ih s1 (by omega) h1 hex (by rw [hr1]; exact hr) x (by rw [hf1]; exact hf)
        (by rw [hfs1]; exact hu) hne1
      exact ⟨s2, bs, .step hw hs hreach, hb, by rw [hd, hd1]⟩

theorem eventually_delivered (hW : 1 ≤ cfg.capW) (hD : 1 ≤ cfg.capD) {s : NSt β} (h : NInv cfg ex st0 s)
    (hex : ex = true) (hr : s.removes = 0) (x : Handle) (hf : s.f = some x) (hu : unread s.fs x ≠ []) (hne : s.rd ≠ .ended) :
    ∃ s' bs, NSysReach cfg s s' ∧ bs ≠ [] ∧ s'.delivered = s.delivered ++ bs :=
  eventually_delivered_aux hW hD (nmu s) s (Nat.le_refl _) h hex hr x hf hu hne

@[simp] theorem onWrite_fs (s : NSt β) : (onWrite cfg s).fs = s.fs := by simp only [onWrite]; split <;> rfl
@[simp] theorem onWrite_removes (s : NSt β) : (onWrite cfg s).removes = s.removes := by simp only [onWrite]; split <;> rfl
@[simp] theorem reopen_fs (s : NSt β) : (reopenIfReplaced s).fs = s.fs := by simp only [reopenIfReplaced]; split <;> rfl
@[simp] theorem reopen_removes (s : NSt β) : (reopenIfReplaced s).removes = s.removes := by
  simp only [reopenIfReplaced]; split <;> rfl

/-- Kernel goroutine and reader never touch the file system. -/
theorem sys_step_fs {w : Who} {s s' : NSt β} (hw : w ≠ .writer) (hs : NStep cfg w s s') :
    s'.fs = s.fs ∧ s'.removes = s.removes := by
  cases hs with
  | append _ i bs hp hbs => exact absurd rfl hw
  | remove _ i hp => exact absurd rfl hw
  | create _ hp => exact absurd rfl hw
  | noise _ => exact absurd rfl hw
  | dispatch _ e rest he => simp
  | readSome _ x n hrd hf h1 hn => exact ⟨rfl, rfl⟩
  | readEmpty _ x hrd hf hu => exact ⟨rfl, rfl⟩
  | readNil _ hrd hf => exact ⟨rfl, rfl⟩
  | recvW _ hrd hpw => simp
  | recvD _ hrd hpd hre => simp
  | recvDPlain _ hrd hpd hre => simp [NSt.closeFile]

/-- Total work left, counting the unread bytes of the open file. -/
def nmuP (s : NSt β) : Nat := nmu s + unreadLen s

def onPath (s : NSt β) (j : Nat) : Prop := ∃ x, s.f = some x ∧ x.ino = j

/-- In re-open mode a step of kernel goroutine / reader either leaves the reader with the file at the
    path open, or strictly decreases `nmuP`. -/
theorem reopen_step_measure {w : Who} {s s' : NSt β} (hw : w ≠ .writer) (hs : NStep cfg w s s')
    (hre : cfg.reopen = true) (j : Nat) (hp : s.fs.path = some j) : onPath s' j ∨ nmuP s' < nmuP s := by
  cases hs with
  | append _ i bs hp hbs => exact absurd rfl hw
  | remove _ i hp => exact absurd rfl hw
  | create _ hp => exact absurd rfl hw
  | noise _ => exact absurd rfl hw
  | dispatch _ e rest he =>
    right
    have := dispatch1_pw_pd cfg { s with evq := rest } e
    simp only [nmuP, nmu, unreadLen, dispatch1_evq, dispatch1_rd, dispatch1_f, dispatch1_fs, he, List.length_cons] at this ⊢
    omega
  | readSome _ x n hrd hf h1 hn =>
    right
    simp only [nmuP, nmu, unreadLen, hf, unread, List.length_drop] at hn ⊢
    omega
  | readEmpty _ x hrd hf hu => right; simp [nmuP, nmu, unreadLen, hrd, rdW]
  | readNil _ hrd hf => right; simp [nmuP, nmu, unreadLen, hrd, rdW]
  | recvW _ hrd hpw =>
    by_cases hopen : (s.f.isNone && cfg.reopen) = true
    · left
      refine ⟨⟨j, 0, 0⟩, ?_, rfl⟩
      simp only [onWrite]
      rw [if_pos hopen]
      simp [openAt, hp]
    · right
      have : onWrite cfg { s with pw := s.pw - 1 } = { s with pw := s.pw - 1 } := by
        simp only [onWrite]; rw [if_neg]; simpa using hopen
      rw [this]
      simp only [nmuP, nmu, unreadLen, hrd, rdW]; omega
  | recvD _ hrd hpd _ =>
    by_cases hsame : sameFile { s with pd := s.pd - 1 } = true
    · right
      have : reopenIfReplaced { s with pd := s.pd - 1 } = { s with pd := s.pd - 1 } := by
        simp only [reopenIfReplaced]; rw [if_pos hsame]
      rw [this]
      simp only [nmuP, nmu, unreadLen, hrd, rdW]; omega
    · left
      refine ⟨⟨j, 0, 0⟩, ?_, rfl⟩
      simp only [reopenIfReplaced]
      rw [if_neg hsame]
      simp [openAt, hp]
  | recvDPlain _ hrd hpd hre' => rw [hre] at hre'; cases hre'

/-- In re-open mode, while a file exists at the path that the reader does not have open, some step of
    kernel goroutine or reader is enabled (no lost re-open). -/
theorem reopen_progress {s : NSt β} (h : NInv cfg ex st0 s) (hre : cfg.reopen = true) (j : Nat)
    (hp : s.fs.path = some j) (hno : ¬ onPath s j) : ∃ w s', w ≠ Who.writer ∧ NStep cfg w s s' := by
  cases hrd : s.rd with
  | ended => have := (h.ended hrd).1; rw [hre] at this; cases this
  | reading =>
    cases hf : s.f with
    | none => exact ⟨.reader, _, by simp, .readNil s hrd hf⟩
    | some x =>
      cases hu : unread s.fs x with
      | nil => exact ⟨.reader, _, by simp, .readEmpty s x hrd hf hu⟩
      | cons a l =>
        exact ⟨.reader, _, by simp, .readSome s x 1 hrd hf (Nat.le_refl 1) (by rw [hu]; simp)⟩
  | selecting =>
    have hsig : 0 < s.pw ∨ Ev.create ∈ s.evq ∨ 0 < s.pd ∨ Ev.remove ∈ s.evq := by
      cases hf : s.f with
      | none => exact h.fresh hre hf j hp
      | some x =>
        have hne : s.fs.path ≠ some x.ino := by
          intro he; rw [hp] at he; simp only [Option.some.injEq] at he
          exact hno ⟨x, hf, he.symm⟩
        rcases h.gone x hf hne with h1 | h1 | ⟨_, h1⟩
        · exact Or.inr (Or.inr (Or.inl h1))
        · exact Or.inr (Or.inr (Or.inr h1))
        · exact Or.inr (Or.inl h1)
    have hq : ∀ e, e ∈ s.evq → ∃ w s', w ≠ Who.writer ∧ NStep cfg w s s' := by
      intro e he
      cases hev : s.evq with
      | nil => rw [hev] at he; cases he
      | cons e' rest => exact ⟨.kernel, _, by simp, .dispatch s e' rest hev⟩
    rcases hsig with h1 | h1 | h1 | h1
    · exact ⟨.reader, _, by simp, .recvW s hrd h1⟩
    · exact hq _ h1
    · exact ⟨.reader, _, by simp, .recvD s hrd h1 hre⟩
    · exact hq _ h1

theorem eventually_reopened_aux (hW : 1 ≤ cfg.capW) (hD : 1 ≤ cfg.capD) (hre : cfg.reopen = true) (j : Nat) :
    ∀ (k : Nat) (s : NSt β), nmuP s ≤ k → NInv cfg ex st0 s → s.fs.path = some j →
      ∃ s', NSysReach cfg s s' ∧ onPath s' j := by
  intro k
  induction k with
  | zero =>
    intro s hk h hp
    by_cases hon : onPath s j
    · exact ⟨s, .refl _, hon⟩
    · obtain ⟨w, s1, hw, hs⟩ := reopen_progress h hre j hp hon
      rcases reopen_step_measure hw hs hre j hp with h1 | h1
      · exact ⟨s1, .step hw hs (.refl _), h1⟩
      · omega
  | succ k ih =>
    intro s hk h hp
    by_cases hon : onPath s j
    · exact ⟨s, .refl _, hon⟩
    · obtain ⟨w, s1, hw, hs⟩ := reopen_progress h hre j hp hon
      rcases reopen_step_measure hw hs hre j hp with h1 | h1
      · exact ⟨s1, .step hw hs (.refl _), h1⟩
      · obtain ⟨s2, hreach, hon2⟩ := ih s1 (by omega) (ninv_step hW hD h hs)
          (by rw [(sys_step_fs hw hs).1]; exact hp)
        exact ⟨s2, .step hw hs hreach, hon2⟩

/-- Plain follow: every step of kernel goroutine / reader strictly decreases `nmuP`. -/
theorem plain_step_measure {w : Who} {s s' : NSt β} (hw : w ≠ .writer) (hs : NStep cfg w s s')
    (hre : cfg.reopen = false) : nmuP s' < nmuP s := by
  cases hs with
  | append _ i bs hp hbs => exact absurd rfl hw
  | remove _ i hp => exact absurd rfl hw
  | create _ hp => exact absurd rfl hw
  | noise _ => exact absurd rfl hw
  | dispatch _ e rest he =>
    have := dispatch1_pw_pd cfg { s with evq := rest } e
    simp only [nmuP, nmu, unreadLen, dispatch1_evq, dispatch1_rd, dispatch1_f, dispatch1_fs, he, List.length_cons] at this ⊢
    omega
  | readSome _ x n hrd hf h1 hn =>
    simp only [nmuP, nmu, unreadLen, hf, unread, List.length_drop] at hn ⊢
    omega
  | readEmpty _ x hrd hf hu => simp [nmuP, nmu, unreadLen, hrd, rdW]
  | readNil _ hrd hf => simp [nmuP, nmu, unreadLen, hrd, rdW]
  | recvW _ hrd hpw =>
    have : onWrite cfg { s with pw := s.pw - 1 } = { s with pw := s.pw - 1 } := by
      simp [onWrite, hre]
    rw [this]
    simp only [nmuP, nmu, unreadLen, hrd, rdW]; omega
  | recvD _ hrd hpd hre' => rw [hre] at hre'; cases hre'
  | recvDPlain _ hrd hpd _ =>
    simp only [nmuP, nmu, unreadLen, NSt.closeFile, hrd, rdW]; omega

/-- Plain follow after a removal: until the stream has ended some step of kernel goroutine / reader is enabled. -/
theorem plain_progress {s : NSt β} (h : NInv cfg ex st0 s) (hre : cfg.reopen = false) (hrm : 0 < s.removes)
    (hne : s.rd ≠ .ended) : ∃ w s', w ≠ Who.writer ∧ NStep cfg w s s' := by
  cases hrd : s.rd with
  | ended => exact absurd hrd hne
  | reading =>
    cases hf : s.f with
    | none => exact ⟨.reader, _, by simp, .readNil s hrd hf⟩
    | some x =>
      cases hu : unread s.fs x with
      | nil => exact ⟨.reader, _, by simp, .readEmpty s x hrd hf hu⟩
      | cons a l =>
        exact ⟨.reader, _, by simp, .readSome s x 1 hrd hf (Nat.le_refl 1) (by rw [hu]; simp)⟩
  | selecting =>
    rcases h.latch hre hrm with h1 | h1 | h1
    · exact absurd h1 hne
    · exact ⟨.reader, _, by simp, .recvDPlain s hrd h1 hre⟩
    · cases hev : s.evq with
      | nil => rw [hev] at h1; cases h1
      | cons e' rest => exact ⟨.kernel, _, by simp, .dispatch s e' rest hev⟩

theorem plain_ends_aux (hW : 1 ≤ cfg.capW) (hD : 1 ≤ cfg.capD) (hre : cfg.reopen = false) :
    ∀ (k : Nat) (s : NSt β), nmuP s ≤ k → NInv cfg ex st0 s → 0 < s.removes →
      ∃ s', NSysReach cfg s s' ∧ s'.rd = .ended := by
  intro k
  induction k with
  | zero =>
    intro s hk h hrm
    by_cases he : s.rd = .ended
    · exact ⟨s, .refl _, he⟩
    · obtain ⟨w, s1, hw, hs⟩ := plain_progress h hre hrm he
      have := plain_step_measure hw hs hre
      omega
  | succ k ih =>
    intro s hk h hrm
    by_cases he : s.rd = .ended
    · exact ⟨s, .refl _, he⟩
    · obtain ⟨w, s1, hw, hs⟩ := plain_progress h hre hrm he
      have hm := plain_step_measure hw hs hre
      obtain ⟨s2, hreach, he2⟩ := ih s1 (by omega) (ninv_step hW hD h hs)
        (by rw [(sys_step_fs hw hs).2]; exact hrm)
      exact ⟨s2, .step hw hs hreach, he2⟩

end Rare.Follow
