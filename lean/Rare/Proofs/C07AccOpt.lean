import Rare.Model.C07AccCompile
import Rare.Proofs.C07Acc
import Rare.Proofs.C10
import Rare.Proofs.C08
/-!
C07 × C10: the accumulating group configured through the compiler with static optimisation ON is the
same aggregator as the one configured with optimisation OFF (`compile_opt_sound` of C10: whenever the
optimising compile succeeds, the plain compile succeeds with the same errors and the same built key).
-/
namespace Rare.C07
open Rare.Expr (Stage Registry compile buildKey compile_opt_sound)

theorem compileStage_opt (reg : Registry) (t : List Char) (c : Option Stage)
    (h : compileStage reg true t = .ok c) : compileStage reg false t = .ok c := by
  unfold compileStage at h ⊢
  cases hc : compile reg true t with
  | error m => rw [hc] at h; cases h
  | ok r =>
    obtain ⟨s, e⟩ := r
    rw [hc] at h
    obtain ⟨s', h1, h2⟩ := compile_opt_sound reg t s e hc
    rw [h1]
    simp only [Except.ok.injEq] at h ⊢
    rw [h2]; exact h

theorem map_ok {α β : Type} {f : α → β} {x : Except String α} {r : β} (h : x.map f = .ok r) :
    ∃ a, x = .ok a ∧ f a = r := by
  cases x with
  | error m => cases h
  | ok a => exact ⟨a, rfl, by simpa [Except.map] using h⟩

theorem applyT_opt (reg : Registry) (s : AccGroup) (op : AccTOp) (r : AccGroup × Option String)
    (h : s.applyT reg true op = .ok r) : s.applyT reg false op = .ok r := by
  cases op with
  | addGroup n t =>
    simp only [AccGroup.applyT] at h ⊢
    split
    · rename_i hc
      rw [if_pos hc] at h
      obtain ⟨c, h1, h2⟩ := map_ok h
      rw [compileStage_opt reg t c h1]; simp [Except.map, h2]
    · rename_i hc
      rw [if_neg hc] at h; exact h
  | addData n t i =>
    simp only [AccGroup.applyT] at h ⊢
    split
    · rename_i hc
      rw [if_pos hc] at h
      obtain ⟨c, h1, h2⟩ := map_ok h
      rw [compileStage_opt reg t c h1]; simp [Except.map, h2]
    · rename_i hc
      rw [if_neg hc] at h; exact h
  | setSort t =>
    simp only [AccGroup.applyT] at h ⊢
    obtain ⟨c, h1, h2⟩ := map_ok h
    rw [compileStage_opt reg t c h1]; simp [Except.map, h2]
  | sample e => exact h

theorem applyAllT_opt (reg : Registry) (ops : List AccTOp) : ∀ (s : AccGroup) (r : AccGroup × List (Option String)),
    s.applyAllT reg true ops = .ok r → s.applyAllT reg false ops = .ok r := by
  induction ops with
  | nil => intro s r h; exact h
  | cons op rest ih =>
    intro s r h
    unfold AccGroup.applyAllT at h ⊢
    cases h1 : s.applyT reg true op with
    | error m => rw [h1] at h; cases h
    | ok p =>
      obtain ⟨s', e⟩ := p
      rw [h1] at h
      rw [applyT_opt reg s op _ h1]
      simp only at h ⊢
      cases h2 : AccGroup.applyAllT reg true s' rest with
      | error m => rw [h2] at h; cases h
      | ok q =>
        rw [h2] at h
        rw [ih s' q h2]; exact h

/-- A template-level call is one of the `AccOp` calls the refinement proof is about. -/
theorem applyT_is_apply (reg : Registry) (opt : Bool) (s s' : AccGroup) (op : AccTOp) (e : Option String)
    (h : s.applyT reg opt op = .ok (s', e)) : ∃ aop : AccOp, s.apply aop = .ok (s', e) := by
  cases op with
  | addGroup n t =>
    simp only [AccGroup.applyT] at h
    split at h
    · obtain ⟨c, _, h2⟩ := map_ok h
      exact ⟨.addGroup n c, by simp [AccGroup.apply, h2]⟩
    · exact ⟨.addGroup n none, by simpa [AccGroup.apply] using h⟩
  | addData n t i =>
    simp only [AccGroup.applyT] at h
    split at h
    · obtain ⟨c, _, h2⟩ := map_ok h
      exact ⟨.addData n c i, by simp [AccGroup.apply, h2]⟩
    · exact ⟨.addData n none i, by simpa [AccGroup.apply] using h⟩
  | setSort t =>
    simp only [AccGroup.applyT] at h
    obtain ⟨c, _, h2⟩ := map_ok h
    exact ⟨.setSort c, by simp [AccGroup.apply, h2]⟩
  | sample el => exact ⟨.sample el, h⟩

theorem reach_applyAllT (reg : Registry) (opt : Bool) (ops : List AccTOp) : ∀ (s : AccGroup) (r : AccGroup × List (Option String)),
    AccReach s → s.applyAllT reg opt ops = .ok r → AccReach r.1 := by
  induction ops with
  | nil => intro s r hr h; simp only [AccGroup.applyAllT, Except.ok.injEq] at h; subst h; exact hr
  | cons op rest ih =>
    intro s r hr h
    unfold AccGroup.applyAllT at h
    cases h1 : s.applyT reg opt op with
    | error m => rw [h1] at h; cases h
    | ok p =>
      obtain ⟨s', e⟩ := p
      rw [h1] at h
      simp only at h
      cases h2 : AccGroup.applyAllT reg opt s' rest with
      | error m => rw [h2] at h; cases h
      | ok q =>
        rw [h2] at h
        simp only [Except.ok.injEq] at h
        subst h
        obtain ⟨aop, ha⟩ := applyT_is_apply reg opt s s' op e h1
        exact ih s' q (AccReach.step s s' aop e hr ha) h2

/-! ### configuration never panics for a registry of safe builders -/

theorem compileStage_ok (reg : Registry) (hreg : Rare.Expr.SafeRegistry reg) (opt : Bool) (t : List Char) :
    ∃ c, compileStage reg opt t = .ok c := by
  obtain ⟨st, errs, h, _⟩ := Rare.Expr.compile_total reg hreg opt t
  unfold compileStage; rw [h]; exact ⟨_, rfl⟩

theorem applyT_cfg_ok (reg : Registry) (hreg : Rare.Expr.SafeRegistry reg) (opt : Bool) (s : AccGroup) (op : AccTOp)
    (hop : op.isSample = false) : ∃ s' e, s.applyT reg opt op = .ok (s', e) ∧ s'.data = s.data := by
  have hg : ∀ n c, (s.addGroupExpr n c).1.data = s.data := by
    intro n c; unfold AccGroup.addGroupExpr; split
    · rfl
    · split
      · rfl
      · cases c <;> rfl
  have hd : ∀ n c i, (s.addDataExpr n c i).1.data = s.data := by
    intro n c i; unfold AccGroup.addDataExpr; split
    · rfl
    · split
      · rfl
      · cases c <;> rfl
  have hs : ∀ c, (s.setSort c).1.data = s.data := by
    intro c; cases c <;> rfl
  cases op with
  | addGroup n t =>
    obtain ⟨c, hc⟩ := compileStage_ok reg hreg opt t
    simp only [AccGroup.applyT]
    split
    · rw [hc]; exact ⟨_, _, rfl, hg n c⟩
    · exact ⟨_, _, rfl, hg n none⟩
  | addData n t i =>
    obtain ⟨c, hc⟩ := compileStage_ok reg hreg opt t
    simp only [AccGroup.applyT]
    split
    · rw [hc]; exact ⟨_, _, rfl, hd n c i⟩
    · exact ⟨_, _, rfl, hd n none i⟩
  | setSort t =>
    obtain ⟨c, hc⟩ := compileStage_ok reg hreg opt t
    simp only [AccGroup.applyT]
    rw [hc]; exact ⟨_, _, rfl, hs c⟩
  | sample e => cases hop

theorem applyAllT_cfg_ok (reg : Registry) (hreg : Rare.Expr.SafeRegistry reg) (opt : Bool) (ops : List AccTOp) :
    ∀ s : AccGroup, (∀ op ∈ ops, op.isSample = false) →
      ∃ s' es, s.applyAllT reg opt ops = .ok (s', es) ∧ s'.data = s.data := by
  induction ops with
  | nil => intro s _; exact ⟨s, [], rfl, rfl⟩
  | cons op rest ih =>
    intro s h
    obtain ⟨s1, e1, h1, d1⟩ := applyT_cfg_ok reg hreg opt s op (h op (by simp))
    obtain ⟨s2, es, h2, d2⟩ := ih s1 (fun o ho => h o (by simp [ho]))
    refine ⟨s2, e1 :: es, ?_, by rw [d2, d1]⟩
    unfold AccGroup.applyAllT
    rw [h1]; simp only; rw [h2]

end Rare.C07
