import Rare.Proofs.C15PollLive
/-!
C15 – plain polling follow ends the stream once the file is gone: with the path empty and a silent
writer the reader reads what is left, does its `ReadAttempts` empty reads, `Stat`s and returns EOF.
-/
namespace Rare.Follow
open Rare.C15.Spec

variable {β : Type} {cfg : PCfg} {ex : Bool} {st0 : Nat}

def unreadLenP (s : PSt β) : Nat :=
  match s.f with
  | some h => (unread s.fs h).length
  | none => 0

def prankP (a : Nat) : PRd → Nat
  | .attempt i => a + 2 - i
  | .check => 1
  | .opening _ => 0
  | .ended => 0

theorem poll_plain_inner (hre : cfg.reopen = false) :
    ∀ (k : Nat) (s : PSt β), prankP cfg.attempts s.rd ≤ k → PInv cfg ex st0 s → s.fs.path = none →
      s.rd ≠ .ended → ∃ s', PSysReach cfg s s' ∧ (s'.rd = .ended ∨ unreadLenP s' < unreadLenP s) := by
  intro k
  induction k with
  | zero =>
    intro s hk h hp hne
    exfalso
    cases hrd : s.rd with
    | ended => exact hne hrd
    | opening sz => exact h.noOpenPlain hre sz hrd
    | check => rw [hrd] at hk; simp [prankP] at hk
    | attempt i => have := h.att i hrd; rw [hrd] at hk; simp only [prankP] at hk; omega
  | succ k ih =>
    intro s hk h hp hne
    cases hrd : s.rd with
    | ended => exact absurd hrd hne
    | opening sz => exact absurd hrd (h.noOpenPlain hre sz)
    | check => exact ⟨_, .step (.statGone s hrd hre hp) (.refl _), Or.inl rfl⟩
    | attempt i =>
      have hi := h.att i hrd
      have next : ∀ s1, PStep cfg .reader s s1 → s1.rd = .check → s1.fs = s.fs →
          ∃ s', PSysReach cfg s s' ∧ (s'.rd = .ended ∨ unreadLenP s' < unreadLenP s) := by
        intro s1 hs1 hc hfs
        have hp1 : s1.fs.path = none := by rw [hfs]; exact hp
        exact ⟨_, .step hs1 (.step (.statGone s1 hc hre hp1) (.refl _)), Or.inl rfl⟩
      cases hf : s.f with
      | none => exact next _ (.nilSleep s i hrd hf) rfl rfl
      | some x =>
        by_cases hlt : i < cfg.attempts
        · cases hu : unread s.fs x with
          | cons a l =>
            refine ⟨_, .step (.readSome s x i 1 hrd hlt hf (Nat.le_refl 1) (by rw [hu]; simp)) (.refl _), Or.inr ?_⟩
            simp only [unreadLenP, hf, unread, List.length_drop] at hu ⊢
            have : (List.drop x.pos (s.fs.content x.ino)).length = l.length + 1 := by rw [hu]; simp
            simp only [List.length_drop] at this
            omega
          | nil =>
            have hs1 := PStep.readEmpty (cfg := cfg) s x i hrd hlt hf hu
            obtain ⟨s2, hreach, hres⟩ := ih _ (by
                show prankP cfg.attempts (.attempt (i + 1)) ≤ k
                rw [hrd] at hk; simp only [prankP] at hk ⊢; omega)
              (pinv_step h hs1) hp (by simp)
            refine ⟨s2, .step hs1 hreach, ?_⟩
            rcases hres with h1 | h1
            · exact Or.inl h1
            · exact Or.inr h1
        · have : i = cfg.attempts := by omega
          subst this
          exact next _ (.loopDone s x hrd hf) rfl rfl

theorem poll_plain_ends_aux (hre : cfg.reopen = false) :
    ∀ (n : Nat) (s : PSt β), unreadLenP s ≤ n → PInv cfg ex st0 s → s.fs.path = none →
      ∃ s', PSysReach cfg s s' ∧ s'.rd = .ended := by
  intro n
  induction n with
  | zero =>
    intro s hn h hp
    by_cases he : s.rd = .ended
    · exact ⟨s, .refl _, he⟩
    · obtain ⟨s1, hreach, hres⟩ := poll_plain_inner hre _ s (Nat.le_refl _) h hp he
      rcases hres with h1 | h1
      · exact ⟨s1, hreach, h1⟩
      · omega
  | succ n ih =>
    intro s hn h hp
    by_cases he : s.rd = .ended
    · exact ⟨s, .refl _, he⟩
    · obtain ⟨s1, hreach, hres⟩ := poll_plain_inner hre _ s (Nat.le_refl _) h hp he
      rcases hres with h1 | h1
      · exact ⟨s1, hreach, h1⟩
      · have hinv1 : PInv cfg ex st0 s1 ∧ s1.fs.path = none := by
          clear ih h1 hn he
          induction hreach with
          | refl => exact ⟨h, hp⟩
          | step hs _ ih' =>
            apply ih' (pinv_step h hs)
            have : ∀ {a b : PSt β}, PStep cfg .reader a b → b.fs = a.fs := by
              intro a b hab
              cases hab <;> first | rfl | (simp only [openStep, openNew]; split <;> rfl)
            rw [this hs]; exact hp
        obtain ⟨s2, hreach2, he2⟩ := ih s1 (by omega) hinv1.1 hinv1.2
        exact ⟨s2, hreach.trans hreach2, he2⟩

end Rare.Follow
