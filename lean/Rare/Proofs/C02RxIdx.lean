import Rare.Proofs.C02Rx
import Rare.Proofs.C02Filter
/-! The `[]int` the regex model hands to the extractor is an engine-shaped index list (`EngineWF`), and
`GetMatch` on it reads the group spans of the leftmost-first match. -/
namespace Rare.C02.Rx
open Rare.C02

theorem lookup_mem {c : Caps} {n a b : Nat} (h : lookup c n = some (a, b)) : (n, a, b) ∈ c := by
  unfold lookup at h
  cases hf : c.find? (fun e => e.1 == n) with
  | none => simp [hf] at h
  | some e =>
    rw [hf] at h
    simp only [Option.map_some, Option.some.injEq] at h
    have hm := List.mem_of_find?_eq_some hf
    have hp := List.find?_some hf
    have h1 : e.1 = n := by simpa using hp
    have : e = (n, a, b) := by
      rcases e with ⟨e1, e2⟩
      simp only at h1 h
      subst h1; subst h; rfl
    exact this ▸ hm

theorem groupPairs_length (c : Caps) : ∀ cnt n, (groupPairs c cnt n).length = 2 * cnt := by
  intro cnt
  induction cnt with
  | zero => intro n; rfl
  | succ cnt ih => intro n; simp only [groupPairs, List.length_cons, ih]; omega

theorem groupPairs_getD (c : Caps) : ∀ cnt n k, k < cnt →
    (groupPairs c cnt n).getD (2 * k) 0 = (spanOf c (n + k)).1 ∧
    (groupPairs c cnt n).getD (2 * k + 1) 0 = (spanOf c (n + k)).2 := by
  intro cnt
  induction cnt with
  | zero => intro n k h; omega
  | succ cnt ih =>
    intro n k h
    cases k with
    | zero => simp [groupPairs]
    | succ k =>
      have := ih (n + 1) k (by omega)
      have e1 : 2 * (k + 1) = (2 * k) + 1 + 1 := by omega
      have e2 : 2 * (k + 1) + 1 = (2 * k + 1) + 1 + 1 := by omega
      have e3 : n + (k + 1) = n + 1 + k := by omega
      simp only [groupPairs]
      rw [e2, e1, e3]
      simpa using this

theorem indicesOf_length (ng : Nat) (m : Nat × Res) : (indicesOf ng m).length = 2 * (ng + 1) := by
  simp only [indicesOf, List.length_append, groupPairs_length, List.length_cons, List.length_nil]
  omega

theorem indicesOf_zero (ng : Nat) (m : Nat × Res) :
    (indicesOf ng m).getD 0 0 = (m.1 : Int) ∧ (indicesOf ng m).getD 1 0 = (m.2.1 : Int) := by
  simp [indicesOf]

theorem indicesOf_group (ng : Nat) (m : Nat × Res) (k : Nat) (h1 : 1 ≤ k) (h2 : k ≤ ng) :
    (indicesOf ng m).getD (2 * k) 0 = (spanOf m.2.2 k).1 ∧
    (indicesOf ng m).getD (2 * k + 1) 0 = (spanOf m.2.2 k).2 := by
  obtain ⟨k', rfl⟩ : ∃ k', k = k' + 1 := ⟨k - 1, by omega⟩
  have := groupPairs_getD m.2.2 ng 1 k' (by omega)
  have e1 : 2 * (k' + 1) = (2 * k') + 1 + 1 := by omega
  have e2 : 2 * (k' + 1) + 1 = (2 * k' + 1) + 1 + 1 := by omega
  have e3 : k' + 1 = 1 + k' := by omega
  simp only [indicesOf]
  rw [e2, e1, e3]
  simpa using this

/-- capture log of a search result: every entry is a span inside the match -/
def CapsIn (p j : Nat) (c : Caps) : Prop :=
  ∀ e ∈ c, p ≤ e.2.1 ∧ e.2.1 ≤ e.2.2 ∧ e.2.2 ≤ j

theorem spanOf_cases (s : Bytes) (p j : Nat) (c : Caps) (hc : CapsIn p j c) (hj : j ≤ s.length) (n : Nat) :
    ((spanOf c n).1 = -1 ∧ (spanOf c n).2 = -1) ∨
    (0 ≤ (spanOf c n).1 ∧ (spanOf c n).1 ≤ (spanOf c n).2 ∧ (spanOf c n).2 ≤ (s.length : Int)) := by
  unfold spanOf
  cases hl : lookup c n with
  | none => left; exact ⟨rfl, rfl⟩
  | some ab =>
    obtain ⟨a, b⟩ := ab
    have := hc _ (lookup_mem hl)
    right
    simp only at this ⊢
    omega

theorem indicesOf_engineWF (s : Bytes) (ng p j : Nat) (c : Caps) (hpj : p ≤ j) (hj : j ≤ s.length)
    (hc : CapsIn p j c) : EngineWF s (indicesOf ng (p, j, c)) := by
  refine ⟨by rw [indicesOf_length]; omega, by rw [indicesOf_length]; omega, ?_⟩
  intro k hk
  rw [indicesOf_length] at hk
  by_cases h0 : k = 0
  · subst h0
    right
    have := indicesOf_zero ng (p, j, c)
    simp only [Nat.mul_zero, Nat.zero_add]
    rw [this.1, this.2]
    simp only
    omega
  · have := indicesOf_group ng (p, j, c) k (by omega) (by omega)
    rw [this.1, this.2]
    exact spanOf_cases s p j c hc hj k


/-- **the search result**: a derivation from the leftmost possible start, first in priority order there,
with a capture log whose entries are derivations of the groups' bodies inside the match -/
theorem search_some (s : Bytes) (r : Re) (p j : Nat) (c : Caps) (h : search s r = some (p, j, c)) :
    p ≤ j ∧ j ≤ s.length ∧ Derives s r p j ∧ (den s r p []).head? = some (j, c) ∧
    (∀ q, q < p → ∀ j', ¬ Derives s r q j') ∧ (∀ e ∈ c, EntryOK s r p j e) := by
  obtain ⟨_, hlt, hm, hnone⟩ := searchFrom_some s r _ 0 p (j, c) h
  have hp : p ≤ s.length := by omega
  have hhead : (den s r p []).head? = some (j, c) := by rw [← matchAt_eq]; exact hm
  have hmem : (j, c) ∈ den s r p [] := List.mem_of_head? hhead
  obtain ⟨hd, hl, new, e, hn⟩ := den_sound s r p [] (j, c) hp hmem
  simp only [List.append_nil] at e
  subst e
  refine ⟨hd.le, hl, hd, hhead, ?_, hn⟩
  intro q hq j' hd'
  exact (matchAt_none_iff s r q (by omega)).mp (hnone q (Nat.zero_le _) hq) j' hd'

theorem search_none (s : Bytes) (r : Re) (h : search s r = none) :
    ∀ q, q ≤ s.length → ∀ j', ¬ Derives s r q j' := by
  intro q hq j' hd
  exact (matchAt_none_iff s r q hq).mp (searchFrom_none s r _ 0 h q (Nat.zero_le _) (by omega)) j' hd


theorem capsIn_of_entries {s : Bytes} {r : Re} {p j : Nat} {c : Caps} (h : ∀ e ∈ c, EntryOK s r p j e) :
    CapsIn p j c := fun e he => ⟨(h e he).1, (h e he).2.1, (h e he).2.2.1⟩

theorem specGroup_zero (s : Bytes) (ng : Nat) (m : Nat × Res) :
    specGroup s (indicesOf ng m) 0 = (s.drop m.1).take (m.2.1 - m.1) := by
  unfold specGroup
  have hl := indicesOf_length ng m
  have hz := indicesOf_zero ng m
  have hc : (0 : Int) ≤ 0 ∧ 2 * (0 : Int) + 1 < ((indicesOf ng m).length : Int) := by rw [hl]; omega
  rw [if_pos hc]
  simp only [Int.toNat_zero, Nat.mul_zero, Nat.zero_add]
  rw [hz.1, hz.2]
  have : ¬ ((m.1 : Int) < 0 ∨ (m.2.1 : Int) < 0) := by omega
  rw [if_neg this]
  simp

theorem specGroup_group (s : Bytes) (ng : Nat) (m : Nat × Res) (n : Nat) (h1 : 1 ≤ n) (h2 : n ≤ ng) :
    specGroup s (indicesOf ng m) (n : Int) =
      match lookup m.2.2 n with
      | some (a, b) => (s.drop a).take (b - a)
      | none => [] := by
  unfold specGroup
  have hl := indicesOf_length ng m
  have hg := indicesOf_group ng m n h1 h2
  have hc : (0 : Int) ≤ (n : Int) ∧ 2 * (n : Int) + 1 < ((indicesOf ng m).length : Int) := by rw [hl]; omega
  rw [if_pos hc]
  simp only [Int.toNat_natCast]
  rw [hg.1, hg.2]
  unfold spanOf
  cases lookup m.2.2 n with
  | none => simp
  | some ab =>
    obtain ⟨a, b⟩ := ab
    have : ¬ ((a : Int) < 0 ∨ (b : Int) < 0) := by omega
    simp only [if_neg this]
    simp

end Rare.C02.Rx
