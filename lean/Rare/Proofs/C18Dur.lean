import Rare.Model.C18
/-!
C18: decimal digits read back (`natDigits`, `itoa`/`atoi`, `leadingInt`), and the round trip
`ParseDuration ∘ Duration.String` on whole seconds.
-/
namespace Rare.C18

def dig (d : Nat) : UInt8 := UInt8.ofNat (48 + d)

theorem digit_byte : ∀ d : Nat, d < 10 → UInt8.ofNat (Nat.digitChar d).toNat = dig d := by decide
theorem dig_isDigit : ∀ d : Nat, d < 10 → isDigitB (dig d) = true := by decide
theorem dig_val : ∀ d : Nat, d < 10 → (dig d).toNat - 48 = d := by decide
theorem dig_ge : ∀ d : Nat, d < 10 → ¬ (dig d < 48 ∨ dig d > 57) := by decide

theorem natDigits_lt (n : Nat) (h : n < 10) : natDigits n = [dig n] := by
  unfold natDigits
  rw [Nat.toDigits_of_lt_base h]
  simp [digit_byte n h]

theorem natDigits_ge (n : Nat) (h : 10 ≤ n) : natDigits n = natDigits (n / 10) ++ [dig (n % 10)] := by
  unfold natDigits
  rw [Nat.toDigits_of_base_le (by omega) (by omega)]
  simp [digit_byte (n % 10) (by omega)]

theorem natDigits_all (n : Nat) : (natDigits n).all isDigitB = true := by
  induction n using Nat.strongRecOn with
  | _ n ih =>
    by_cases h : n < 10
    · rw [natDigits_lt n h]; simp [dig_isDigit n h]
    · rw [natDigits_ge n (by omega), List.all_append, ih (n / 10) (by omega)]
      simp [dig_isDigit (n % 10) (by omega)]

theorem natDigits_ne_nil (n : Nat) : natDigits n ≠ [] := by
  by_cases h : n < 10
  · rw [natDigits_lt n h]; simp
  · rw [natDigits_ge n (by omega)]; simp

theorem digitsVal_append (a b : Bytes) (acc : Nat) : digitsVal (a ++ b) acc = digitsVal b (digitsVal a acc) := by
  induction a generalizing acc with
  | nil => rfl
  | cons c a ih => simp [digitsVal, ih]

theorem digitsVal_natDigits (n : Nat) : digitsVal (natDigits n) 0 = n := by
  induction n using Nat.strongRecOn with
  | _ n ih =>
    by_cases h : n < 10
    · rw [natDigits_lt n h]; simp [digitsVal, dig_val n h]
    · rw [natDigits_ge n (by omega), digitsVal_append, ih (n / 10) (by omega)]
      simp only [digitsVal, dig_val (n % 10) (by omega)]
      omega

theorem natDigits_head (n : Nat) : ∃ c r, natDigits n = c :: r ∧ isDigitB c = true := by
  have hne := natDigits_ne_nil n
  have hall := natDigits_all n
  cases h : natDigits n with
  | nil => exact absurd h hne
  | cons c r => rw [h] at hall; simp at hall; exact ⟨c, r, rfl, hall.1⟩

theorem isDigitB_ne_sign {c : UInt8} (h : isDigitB c = true) : c ≠ 43 ∧ c ≠ 45 := by
  constructor <;> (intro e; subst e; revert h; decide)

/-- `strconv.ParseInt(strconv.FormatInt(v, 10), 10, 64) = v`. -/
theorem atoi_itoa (v : Int) (h : inInt64 v = true) : atoi (itoa v) = some v := by
  obtain ⟨c, r, hcr, hc⟩ := natDigits_head v.natAbs
  have hall := natDigits_all v.natAbs
  have hval := digitsVal_natDigits v.natAbs
  have hs := isDigitB_ne_sign hc
  have hne : (natDigits v.natAbs).isEmpty = false := by rw [hcr]; rfl
  unfold itoa atoi
  by_cases hv : v < 0
  · simp only [hv, if_true, hne, hall, Bool.not_true, Bool.or_false, Bool.false_eq_true, if_false, hval]
    have : -(v.natAbs : Int) = v := by omega
    simp only [this, h, if_true]
  · simp only [hv, if_false]
    rw [hcr]
    have hall' : (c :: r).all isDigitB = true := hcr ▸ hall
    have hval' : digitsVal (c :: r) 0 = v.natAbs := hcr ▸ hval
    split
    · next _ ds heq => exact absurd (List.cons.inj heq).1 hs.1
    · next _ ds heq => exact absurd (List.cons.inj heq).1 hs.2
    · simp only [List.isEmpty_cons, hall', Bool.not_true, Bool.or_false, Bool.false_eq_true, if_false, hval']
      have : (v.natAbs : Int) = v := by omega
      simp only [this, h, if_true]

/-! ## `leadingInt` -/

theorem digitsVal_mono (ds : Bytes) (x : Nat) : x ≤ digitsVal ds x := by
  induction ds generalizing x with
  | nil => exact Nat.le_refl _
  | cons c r ih =>
    simp only [digitsVal]
    exact Nat.le_trans (by omega) (ih _)

theorem leadingInt_digits (ds : Bytes) (hd : ds.all isDigitB = true) (x : Nat) (tail : Bytes)
    (hb : digitsVal ds x ≤ 922337203685477580) : leadingInt (ds ++ tail) x = leadingInt tail (digitsVal ds x) := by
  induction ds generalizing x with
  | nil => rfl
  | cons c r ih =>
    simp only [List.all_cons, Bool.and_eq_true] at hd
    have hc : ¬ (c < 48 ∨ c > 57) := by
      have := hd.1; unfold isDigitB at this
      simp only [Bool.and_eq_true, decide_eq_true_eq] at this
      intro h; rcases h with h | h
      · exact absurd this.1 (by simpa using h)
      · exact absurd this.2 (by simpa using h)
    simp only [digitsVal] at hb
    have hx' : x * 10 + (c.toNat - 48) ≤ 922337203685477580 := Nat.le_trans (digitsVal_mono r _) hb
    simp only [List.cons_append, leadingInt, hc, if_false]
    have h1 : ¬ (x > 9223372036854775808 / 10) := by omega
    have h2 : ¬ (x * 10 + (c.toNat - 48) > 9223372036854775808) := by omega
    simp only [h1, h2, if_false]
    exact ih hd.2 _ hb

theorem leadingInt_stop (c : UInt8) (r : Bytes) (x : Nat) (hc : isDigitB c = false) : leadingInt (c :: r) x = some (x, c :: r) := by
  have : c < 48 ∨ c > 57 := by
    unfold isDigitB at hc
    simp only [Bool.and_eq_false_iff, decide_eq_false_iff_not] at hc
    rcases hc with h | h
    · left; simpa using h
    · right; simpa using h
  simp [leadingInt, this]

/-! ## one `number unit` group of `ParseDuration` -/

/-- The text after a group: nothing, or another group (starting with a digit). -/
def GroupTail (rest : Bytes) : Prop := rest = [] ∨ ∃ c r, rest = c :: r ∧ isDigitB c = true

theorem isDigit_numChar {c : UInt8} (h : isDigitB c = true) : isNumChar c = true := by
  unfold isDigitB at h
  simp only [Bool.and_eq_true, decide_eq_true_eq] at h
  simp [isNumChar, h.1, h.2]

theorem splitFrac_nodot (u : UInt8) (rest : Bytes) (h : u ≠ 46) : splitFrac (u :: rest) = ([], u :: rest, false) := by
  unfold splitFrac
  split
  · next r' h' => cases h'; exact absurd rfl h
  · rfl

theorem parseDurLoop_group (fuel k d : Nat) (u : UInt8) (unit : Nat) (rest : Bytes)
    (hu : (u = 104 ∧ unit = 3600000000000) ∨ (u = 109 ∧ unit = 60000000000) ∨ (u = 115 ∧ unit = 1000000000))
    (hk : k ≤ 9223372036) (hd : d + k * unit ≤ 9223372036854775808) (ht : GroupTail rest) :
    parseDurLoop (fuel + 1) (natDigits k ++ u :: rest) d = parseDurLoop fuel rest (d + k * unit) := by
  obtain ⟨c, r, hcr, hc⟩ := natDigits_head k
  have hun : isDigitB u = false := by rcases hu with ⟨h, _⟩ | ⟨h, _⟩ | ⟨h, _⟩ <;> subst h <;> decide
  have hlead : leadingInt (natDigits k ++ u :: rest) 0 = some (k, u :: rest) := by
    rw [leadingInt_digits _ (natDigits_all k) 0 _ (by rw [digitsVal_natDigits]; omega), digitsVal_natDigits,
      leadingInt_stop u rest k hun]
  have hfirst : isNumChar c = true := isDigit_numChar hc
  have hlen : ((u :: rest).length != (natDigits k ++ u :: rest).length) = true := by
    simp only [List.length_append, bne_iff_ne, ne_eq]
    have := List.length_pos_iff.mpr (natDigits_ne_nil k)
    omega
  have hu46 : u ≠ 46 := by rcases hu with ⟨h, _⟩ | ⟨h, _⟩ | ⟨h, _⟩ <;> subst h <;> decide
  have hupred : isNumChar u = false := by
    rcases hu with ⟨h, _⟩ | ⟨h, _⟩ | ⟨h, _⟩ <;> subst h <;> decide
  have htw : (u :: rest).takeWhile (fun c => !isNumChar c) = [u]
      ∧ (u :: rest).dropWhile (fun c => !isNumChar c) = rest := by
    rcases ht with h | ⟨c', r', h, hc'⟩
    · subst h; simp [List.takeWhile, List.dropWhile, hupred]
    · subst h
      have := isDigit_numChar hc'
      simp [List.takeWhile, List.dropWhile, hupred, this]
  have hunit : unitOf [u] = some unit := by
    rcases hu with ⟨h, h'⟩ | ⟨h, h'⟩ | ⟨h, h'⟩ <;> subst h <;> subst h' <;> decide
  have hov : ¬ (k > 9223372036854775808 / unit) := by
    rcases hu with ⟨_, h'⟩ | ⟨_, h'⟩ | ⟨_, h'⟩ <;> subst h' <;> omega
  have hov2 : ¬ (d + k * unit > 9223372036854775808) := by omega
  have hov3 : ¬ (k * unit > 9223372036854775808) := by omega
  have hmod : (d + k * unit) % 18446744073709551616 = d + k * unit := Nat.mod_eq_of_lt (by omega)
  have hlf : leadingFraction [] 0 0 = (0, 0) := rfl
  have hs : natDigits k ++ u :: rest = c :: (r ++ u :: rest) := by rw [hcr]; rfl
  conv => lhs; unfold parseDurLoop
  rw [hs] at hlead hlen ⊢
  simp only [hfirst, Bool.not_true, Bool.false_eq_true, if_false, hlead, splitFrac_nodot u rest hu46, hlen,
    Bool.false_and, htw.1, htw.2, hunit, hov, hov2, hov3, hlf, hmod, List.isEmpty_cons, Nat.lt_irrefl]

theorem groupTail_digits (k : Nat) (rest : Bytes) : GroupTail (natDigits k ++ rest) := by
  obtain ⟨c, r, h, hc⟩ := natDigits_head k
  exact Or.inr ⟨c, r ++ rest, by rw [h]; rfl, hc⟩

/-- `h`/`m`/`s` text of a positive whole number of seconds, as `Duration.String` lays it out. -/
def hmsText (N : Nat) : Bytes :=
  let secPart := natDigits (N % 60) ++ [115]
  let m := N / 60
  if m > 0 then
    (if m / 60 > 0 then natDigits (m / 60) ++ [104] else []) ++ natDigits (m % 60) ++ [109] ++ secPart
  else secPart

theorem durationString_seconds (n : Int) (hn : n ≠ 0) :
    durationString (n * 1000000000) = some (if n < 0 then 45 :: hmsText n.natAbs else hmsText n.natAbs) := by
  have hu : (n * 1000000000).natAbs = n.natAbs * 1000000000 := by rw [Int.natAbs_mul]; rfl
  have hpos : 0 < n.natAbs := by omega
  have h0 : ¬ (n.natAbs * 1000000000 = 0) := by omega
  have h1 : ¬ (n.natAbs * 1000000000 < 1000000000) := by omega
  have hm : n.natAbs * 1000000000 % 1000000000 = 0 := Nat.mul_mod_left _ _
  have hd : n.natAbs * 1000000000 / 1000000000 = n.natAbs := Nat.mul_div_cancel _ (by decide)
  have hf : dropTrailingZeros (natPad 0 9) = [] := by decide
  have hneg : (n * 1000000000 < 0) = (n < 0) := by
    apply propext; constructor <;> intro h <;> omega
  unfold durationString hmsText
  simp only [hu, h0, h1, if_false, hm, hd, hf, List.isEmpty_nil, if_true, List.append_nil, hneg]

theorem parse_hmsText (N : Nat) (h1 : 1 ≤ N) (hN : N ≤ 9223372036) (fuel : Nat) (hf : (hmsText N).length + 1 ≤ fuel) :
    parseDurLoop fuel (hmsText N) 0 = some (N * 1000000000) := by
  have hfin : ∀ f d, parseDurLoop (f + 1) [] d = some d := fun f d => by unfold parseDurLoop; rfl
  have hlen : ∀ k, 1 ≤ (natDigits k).length := fun k => List.length_pos_iff.mpr (natDigits_ne_nil k)
  unfold hmsText at hf ⊢
  simp only at hf ⊢
  by_cases hm : N / 60 > 0
  · simp only [hm, if_true] at hf ⊢
    by_cases hh : N / 60 / 60 > 0
    · simp only [hh, if_true] at hf ⊢
      have l1 := hlen (N / 60 / 60); have l2 := hlen (N / 60 % 60); have l3 := hlen (N % 60)
      simp only [List.length_append, List.length_cons, List.length_nil] at hf
      obtain ⟨f, rfl⟩ : ∃ f, fuel = f + 4 := ⟨fuel - 4, by omega⟩
      have e : natDigits (N / 60 / 60) ++ [104] ++ natDigits (N / 60 % 60) ++ [109] ++ (natDigits (N % 60) ++ [115])
          = natDigits (N / 60 / 60) ++ 104 :: (natDigits (N / 60 % 60) ++ 109 :: (natDigits (N % 60) ++ 115 :: [])) := by simp
      rw [e, parseDurLoop_group (f + 3) _ 0 104 3600000000000 _ (Or.inl ⟨rfl, rfl⟩) (by omega) (by omega) (groupTail_digits _ _),
        parseDurLoop_group (f + 2) _ _ 109 60000000000 _ (Or.inr (Or.inl ⟨rfl, rfl⟩)) (by omega) (by omega) (groupTail_digits _ _),
        parseDurLoop_group (f + 1) _ _ 115 1000000000 _ (Or.inr (Or.inr ⟨rfl, rfl⟩)) (by omega) (by omega) (Or.inl rfl), hfin]
      congr 1; omega
    · simp only [hh, if_false, List.nil_append] at hf ⊢
      have l2 := hlen (N / 60 % 60); have l3 := hlen (N % 60)
      simp only [List.length_append, List.length_cons, List.length_nil] at hf
      obtain ⟨f, rfl⟩ : ∃ f, fuel = f + 3 := ⟨fuel - 3, by omega⟩
      have e : natDigits (N / 60 % 60) ++ [109] ++ (natDigits (N % 60) ++ [115])
          = natDigits (N / 60 % 60) ++ 109 :: (natDigits (N % 60) ++ 115 :: []) := by simp
      rw [e, parseDurLoop_group (f + 2) _ _ 109 60000000000 _ (Or.inr (Or.inl ⟨rfl, rfl⟩)) (by omega) (by omega) (groupTail_digits _ _),
        parseDurLoop_group (f + 1) _ _ 115 1000000000 _ (Or.inr (Or.inr ⟨rfl, rfl⟩)) (by omega) (by omega) (Or.inl rfl), hfin]
      congr 1; omega
  · simp only [hm, if_false] at hf ⊢
    have l3 := hlen (N % 60)
    simp only [List.length_append, List.length_cons, List.length_nil] at hf
    obtain ⟨f, rfl⟩ : ∃ f, fuel = f + 2 := ⟨fuel - 2, by omega⟩
    have e : natDigits (N % 60) ++ [115] = natDigits (N % 60) ++ 115 :: [] := rfl
    rw [e, parseDurLoop_group (f + 1) _ _ 115 1000000000 _ (Or.inr (Or.inr ⟨rfl, rfl⟩)) (by omega) (by omega) (Or.inl rfl), hfin]
    congr 1; omega

theorem hmsText_shape (N : Nat) : ∃ c r, hmsText N = c :: r ∧ isDigitB c = true ∧ 2 ≤ (hmsText N).length := by
  unfold hmsText
  simp only
  split
  · split
    · obtain ⟨c, r, h, hc⟩ := natDigits_head (N / 60 / 60)
      refine ⟨c, _, by rw [h]; rfl, hc, ?_⟩
      simp only [List.length_append, List.length_cons, List.length_nil]; omega
    · obtain ⟨c, r, h, hc⟩ := natDigits_head (N / 60 % 60)
      refine ⟨c, _, by rw [h]; rfl, hc, ?_⟩
      simp only [List.length_append, List.length_cons, List.length_nil]; omega
  · obtain ⟨c, r, h, hc⟩ := natDigits_head (N % 60)
    refine ⟨c, _, by rw [h]; rfl, hc, ?_⟩
    have := List.length_pos_iff.mpr (natDigits_ne_nil (N % 60))
    simp only [List.length_append, List.length_cons, List.length_nil]; omega

/-- `ParseDuration` reads `Duration.String` of a whole number of seconds back. -/
theorem parseDuration_durationString (n : Int) (h1 : -9223372036 ≤ n) (h2 : n ≤ 9223372036) :
    ∃ b, durationString (n * 1000000000) = some b ∧ parseDuration b = .ok (n * 1000000000) := by
  by_cases hn : n = 0
  · subst hn; exact ⟨asc "0s", by decide, by decide⟩
  · refine ⟨_, durationString_seconds n hn, ?_⟩
    obtain ⟨c, r, hcr, hc, hl⟩ := hmsText_shape n.natAbs
    have hs := isDigitB_ne_sign hc
    have hp := parse_hmsText n.natAbs (by omega) (by omega) ((hmsText n.natAbs).length + 1) (Nat.le_refl _)
    have hne0 : hmsText n.natAbs ≠ [48] := by intro h; rw [h] at hl; simp at hl
    have hnil : hmsText n.natAbs ≠ [] := by intro h; rw [h] at hl; simp at hl
    by_cases hlt : n < 0
    · simp only [hlt, if_true]
      unfold parseDuration
      simp only [hne0, hnil, if_false, hp]
      simp only [if_true]
      congr 1; omega
    · simp only [hlt, if_false]
      unfold parseDuration
      rw [hcr] at hne0 hnil hp ⊢
      split
      next neg ds heq =>
        split at heq
        · next r' h' => exact absurd (List.cons.inj h').1 hs.2
        · next r' h' => exact absurd (List.cons.inj h').1 hs.1
        · cases heq
          simp only [hne0, hnil, if_false, hp]
          have : ¬ (n.natAbs * 1000000000 > 9223372036854775807) := by omega
          simp only [Bool.false_eq_true, if_false, this]
          congr 1; omega

end Rare.C18
