import Rare.Proofs.C16
/-! C16: from values to members to the whole object; the builder; the two loops of `json`. -/
namespace Rare.C16

/-! ### values -/

/-- the text `WriteInferred` puts after the key -/
def valueText (val : Bytes) : Bytes :=
  if isNumeric val then val
  else if equalFoldLen val litTrue then litTrue
  else if equalFoldLen val litFalse then litFalse
  else [0x22] ++ escape val ++ [0x22]

/-- what that text denotes -/
def inferredVal (val : Bytes) : JVal :=
  if isNumeric val then
    match decimalValue val with
    | some (m, e) => .num m e
    | none => .null
  else if equalFoldLen val litTrue then .bool true
  else if equalFoldLen val litFalse then .bool false
  else .str val

/-- `t` is what follows a member value inside an object -/
def Delim (t : Bytes) : Prop := ∃ r, t = 0x2c :: r ∨ t = 0x7d :: r

theorem Delim.endsNumber {t : Bytes} (h : Delim t) : EndsNumber t := by
  obtain ⟨r, h | h⟩ := h <;> subst h <;> exact endsNumber_cons _ _ (by decide)

theorem isWs_of_isDig (a : UInt8) (h : isDig a = true) : isWs a = false := by
  simp only [isWs, Bool.or_eq_false_iff, decide_eq_false_iff_not]
  refine ⟨⟨⟨?_, ?_⟩, ?_⟩, ?_⟩ <;> (intro e; subst e; exact absurd h (by decide))

theorem parseValue_valueText (val t : Bytes) (ht : Delim t) :
    parseValue (valueText val ++ t) = some (inferredVal val, t) := by
  unfold valueText inferredVal
  by_cases hn : isNumeric val = true
  · simp only [hn, if_true]
    obtain ⟨m, e, hp, hd⟩ := isNumeric_parse val t hn ht.endsNumber
    obtain ⟨a, r, hval, hda⟩ := isNumeric_head val hn
    rw [hd]
    have h1 : a ≠ 0x22 := isDig_ne a _ hda (by decide)
    have h2 : a ≠ 0x74 := isDig_ne a _ hda (by decide)
    have h3 : a ≠ 0x66 := isDig_ne a _ hda (by decide)
    have h4 : a ≠ 0x6e := isDig_ne a _ hda (by decide)
    rw [hval] at hp ⊢
    simp only [List.cons_append] at hp ⊢
    simp only [parseValue, h1, h2, h3, h4, if_false]
    exact hp
  · simp only [hn, Bool.false_eq_true, if_false]
    by_cases ht1 : equalFoldLen val litTrue = true
    · simp only [ht1, if_true]
      simp [parseValue, parseLit, litTrue]
    · simp only [ht1, Bool.false_eq_true, if_false]
      by_cases hf1 : equalFoldLen val litFalse = true
      · simp only [hf1, if_true]
        simp [parseValue, parseLit, litFalse]
      · simp only [hf1, Bool.false_eq_true, if_false]
        have := strBody_escape val t
        simp [parseValue, this]

theorem decodesTo_inferred (val : Bytes) : decodesTo (inferredVal val) val = true := by
  unfold inferredVal
  by_cases hn : isNumeric val = true
  · obtain ⟨m, e, _, hd⟩ := isNumeric_parse val [] hn endsNumber_nil
    simp [hn, hd, decodesTo, sameValue_refl]
  · simp only [hn, Bool.false_eq_true, if_false]
    by_cases ht1 : equalFoldLen val litTrue = true
    · have := ht1
      simp only [equalFoldLen, Bool.and_eq_true] at this
      simp [ht1, decodesTo, this.2]
    · simp only [ht1, Bool.false_eq_true, if_false]
      by_cases hf1 : equalFoldLen val litFalse = true
      · have := hf1
        simp only [equalFoldLen, Bool.and_eq_true] at this
        simp [hf1, decodesTo, this.2]
      · simp [hf1, decodesTo]

theorem skipWs_valueText (val t : Bytes) : skipWs (valueText val ++ t) = valueText val ++ t := by
  unfold valueText
  by_cases hn : isNumeric val = true
  · obtain ⟨a, r, hval, hda⟩ := isNumeric_head val hn
    simp only [hn, if_true]
    rw [hval]
    simp [skipWs, isWs_of_isDig a hda]
  · by_cases ht1 : equalFoldLen val litTrue = true
    · simp only [hn, ht1, if_true, Bool.false_eq_true, if_false]
      simp [litTrue, skipWs, isWs]
    · by_cases hf1 : equalFoldLen val litFalse = true
      · simp only [hn, ht1, hf1, if_true, Bool.false_eq_true, if_false]
        simp [litFalse, skipWs, isWs]
      · simp [hn, ht1, hf1, skipWs, isWs]

/-! ### members, generic in how a value is written -/

/-- A way of writing a member value: its text, what the text denotes, and the two facts the
object-level lemmas need. -/
structure ValR where
  text : Bytes → Bytes
  val : Bytes → JVal
  parse : ∀ v t, Delim t → parseValue (text v ++ t) = some (val v, t)
  skip : ∀ v t, skipWs (text v ++ t) = text v ++ t

/-- `WriteInferred` -/
def inferredR : ValR := ⟨valueText, inferredVal, parseValue_valueText, skipWs_valueText⟩

/-- `WriteString` -/
def stringR : ValR :=
  ⟨fun v => 0x22 :: (escape v ++ [0x22]), JVal.str,
   by intro v t _; simp [parseValue, strBody_escape],
   by intro v t; simp [skipWs, isWs]⟩

variable (R : ValR)

def renderMember (m : Bytes × Bytes) : Bytes :=
  0x22 :: (escape m.1 ++ 0x22 :: 0x3a :: 0x20 :: R.text m.2)

def dec (m : Bytes × Bytes) : Bytes × JVal := (m.1, R.val m.2)

theorem parseMember_render (m : Bytes × Bytes) (t : Bytes) (ht : Delim t) :
    parseMember (renderMember R m ++ t) = some (dec R m, t) := by
  have e : renderMember R m ++ t = 0x22 :: (escape m.1 ++ 0x22 :: (0x3a :: 0x20 :: (R.text m.2 ++ t))) := by
    simp [renderMember]
  have hs : skipWs (0x20 :: (R.text m.2 ++ t)) = R.text m.2 ++ t := by
    have := R.skip m.2 t
    simpa [skipWs, isWs] using this
  rw [e]
  simp only [parseMember, if_true, strBody_escape]
  have hs2 : skipWs (0x3a :: 0x20 :: (R.text m.2 ++ t)) = 0x3a :: 0x20 :: (R.text m.2 ++ t) := by
    simp [skipWs, isWs]
  rw [hs2]
  simp only [if_true, hs, R.parse m.2 t ht]
  rfl

def renderTail (ms : List (Bytes × Bytes)) : Bytes :=
  ms.flatMap fun m => 0x2c :: 0x20 :: renderMember R m

def renderList : List (Bytes × Bytes) → Bytes
  | [] => []
  | m :: r => renderMember R m ++ renderTail R r

theorem renderTail_cons (m : Bytes × Bytes) (ms : List (Bytes × Bytes)) :
    renderTail R (m :: ms) = 0x2c :: 0x20 :: (renderMember R m ++ renderTail R ms) := by
  simp [renderTail]

theorem parseMembers_render : ∀ (ms : List (Bytes × Bytes)) (m : Bytes × Bytes) (fuel : Nat) (t : Bytes),
    ms.length < fuel →
    parseMembers fuel (renderMember R m ++ (renderTail R ms ++ 0x7d :: t))
      = some ((m :: ms).map (dec R), 0x7d :: t) := by
  intro ms
  induction ms with
  | nil =>
    intro m fuel t hf
    cases fuel with
    | zero => omega
    | succ n =>
      have hp := parseMember_render R m (0x7d :: t) ⟨t, Or.inr rfl⟩
      simp [parseMembers, renderTail, hp, skipWs, isWs]
  | cons m2 ms ih =>
    intro m fuel t hf
    cases fuel with
    | zero => omega
    | succ n =>
      have hp := parseMember_render R m (0x2c :: 0x20 :: (renderMember R m2 ++ (renderTail R ms ++ 0x7d :: t)))
        ⟨_, Or.inl rfl⟩
      have ih' := ih m2 n t (by simp at hf; omega)
      have hs : skipWs (0x20 :: (renderMember R m2 ++ (renderTail R ms ++ 0x7d :: t)))
          = renderMember R m2 ++ (renderTail R ms ++ 0x7d :: t) := by
        simp [skipWs, isWs, renderMember]
      rw [renderTail_cons]
      simp only [List.cons_append, List.append_assoc]
      simp only [parseMembers, hp, skipWs]
      rw [List.dropWhile_cons]
      simp only [show isWs 0x2c = false by decide, Bool.false_eq_true, if_false, if_true]
      simp only [skipWs] at hs
      simp [hs, ih']

theorem length_le_renderTail (ms : List (Bytes × Bytes)) : ms.length ≤ (renderTail R ms).length := by
  induction ms with
  | nil => simp [renderTail]
  | cons m ms ih => rw [renderTail_cons]; simp; omega

/-- the text of an object with members `ms` -/
def objText (ms : List (Bytes × Bytes)) : Bytes := 0x7b :: (renderList R ms ++ [0x7d])

omit R in
theorem parseObj_eq (r : Bytes) (c1 : UInt8) (r1 : Bytes) (h : r = c1 :: r1) (hws : isWs c1 = false)
    (h7 : c1 ≠ 0x7d) :
    parseObj (0x7b :: r) =
      match parseMembers (r.length + 1) r with
      | some (ms, c2 :: r2) => if c2 = 0x7d ∧ skipWs r2 = [] then some ms else none
      | _ => none := by
  subst h
  have hd : List.dropWhile isWs (c1 :: r1) = c1 :: r1 := by simp [hws]
  have h0 : List.dropWhile isWs (0x7b :: c1 :: r1) = 0x7b :: c1 :: r1 := by
    rw [List.dropWhile_cons]; simp [show isWs 0x7b = false by decide]
  simp only [parseObj, skipWs, h0, hd, if_true, h7, if_false, List.length_cons]
  rfl

theorem parseObj_objText (ms : List (Bytes × Bytes)) :
    parseObj (objText R ms) = some (ms.map (dec R)) := by
  cases ms with
  | nil => simp [objText, renderList, parseObj, skipWs, isWs]
  | cons m ms =>
    have e : renderList R (m :: ms) ++ [0x7d] = renderMember R m ++ (renderTail R ms ++ [0x7d]) := by
      simp [renderList]
    have hlen : ms.length < (renderMember R m ++ (renderTail R ms ++ [0x7d])).length + 1 := by
      have := length_le_renderTail R ms
      simp; omega
    have hp := parseMembers_render R ms m _ [] hlen
    unfold objText
    rw [e, parseObj_eq _ 0x22 (escape m.1 ++ 0x22 :: 0x3a :: 0x20 :: R.text m.2 ++ (renderTail R ms ++ [0x7d]))
      (by simp [renderMember]) (by decide) (by decide), hp]
    simp [skipWs]

end Rare.C16
