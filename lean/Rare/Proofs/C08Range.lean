import Rare.Proofs.ExprSafe
import Rare.Proofs.C17Loop
/-!
Panic-freedom (C08) of every builder in `Rare/Model/Expr/Funcs/Range.lean`: on safe argument
stages no builder fails at compile time and every stage it returns is `Safe`.  In particular the
"hang" panics the model emits when a fuelled loop runs out of fuel are unreachable: the fuel the
builders pass always suffices (`splitLoop_safe`, `forLoop_safe`, `rangeLoop_ok`).
-/
namespace Rare.Expr.Funcs.Range
open Rare Rare.Expr Rare.C17

/-- The shape `SafeBuilder` asks of a builder's answer. -/
def Good (r : Except String Built) : Prop :=
  ∃ built, r = .ok built ∧ ∀ s, built.stage = some s → Safe s

theorem good_ok {s : Stage} (h : Safe s) : Good (ok s) :=
  ⟨⟨some s, none⟩, rfl, fun s' hs => by cases hs; exact h⟩

theorem good_stageErr (marker : Bytes) (tag : String) : Good (stageErr marker tag) :=
  ⟨⟨some (Stage.lit marker), some tag⟩, rfl, fun s' hs => by cases hs; exact Safe.lit _⟩

theorem good_errArgCount : Good errArgCount := good_stageErr _ _
theorem good_errNum : Good errNum := good_stageErr _ _
theorem good_errConst : Good errConst := good_stageErr _ _
theorem good_errEmpty : Good errEmpty := good_stageErr _ _

/-! ## static evaluation helpers -/

theorem getElem?_safe {args : List Stage} (h : ∀ a ∈ args, Safe a) {i : Nat} {st : Stage}
    (hs : args[i]? = some st) : Safe st :=
  h st (List.mem_of_getElem? hs)

theorem evalStageIndexOrDefault_ok (args : List Stage) (h : ∀ a ∈ args, Safe a) (idx : Nat) (d : Bytes) :
    ∃ v, evalStageIndexOrDefault args idx d = .ok v := by
  unfold evalStageIndexOrDefault
  cases hs : args[idx]? with
  | none => exact ⟨d, rfl⟩
  | some st =>
    obtain ⟨v, b, hp⟩ := (getElem?_safe h hs).probe
    simp only [hp]
    cases b
    · exact ⟨d, rfl⟩
    · exact ⟨v, rfl⟩

theorem evalStageInt_ok (st : Stage) (h : Safe st) : ∃ v, evalStageInt st = .ok v := by
  unfold evalStageInt
  obtain ⟨v, b, hp⟩ := h.probe
  simp only [hp]
  cases b
  · exact ⟨none, rfl⟩
  · exact ⟨atoi v, rfl⟩

theorem evalArgInt_ok (args : List Stage) (h : ∀ a ∈ args, Safe a) (idx : Nat) (d : Int) :
    ∃ v, evalArgInt args idx d = .ok v := by
  unfold evalArgInt
  cases hs : args[idx]? with
  | none => exact ⟨some d, rfl⟩
  | some st => exact evalStageInt_ok st (getElem?_safe h hs)

/-! ## the splitter loop never runs out of fuel -/

theorem splitLoop_safe {σ : Type} (g : σ → Bool) (body : σ → Bytes → Comp σ)
    (hb : ∀ st x, Safe (body st x)) :
    ∀ (fuel : Nat) (sp : Splitter) (st : σ), sp.Delim ≠ [] → vlen (view sp) < fuel →
      Safe (splitLoop fuel sp st g body) := by
  intro fuel
  induction fuel with
  | zero => intro sp st _ h; omega
  | succ fuel ih =>
    intro sp st hd hf
    unfold splitLoop
    split
    · rename_i hc
      have hnd : sp.Done = false := by
        simp only [Bool.and_eq_true, Bool.not_eq_eq_eq_not, Bool.not_true] at hc
        exact hc.2
      cases hv : view sp with
      | none => rw [(done_iff sp).mpr hv] at hnd; cases hnd
      | some r =>
        obtain ⟨_, h2, h3⟩ := next_view sp hd r hv
        exact Safe.bind (hb _ _) fun st' => ih _ _ (by rw [h2]; exact hd) (by omega)
    · exact .ret _

theorem splitLoop_safe_init {σ : Type} (g : σ → Bool) (body : σ → Bytes → Comp σ)
    (hb : ∀ st x, Safe (body st x)) (s d : Bytes) (hd : d ≠ []) (st : σ) :
    Safe (splitLoop (loopFuel s) { S := s, Delim := d } st g body) :=
  splitLoop_safe g body hb _ _ _ hd (by simp [view_init, vlen, loopFuel])

theorem splitLoop_safe_next {σ : Type} (g : σ → Bool) (body : σ → Bytes → Comp σ)
    (hb : ∀ st x, Safe (body st x)) (s d : Bytes) (hd : d ≠ []) (st : σ) :
    Safe (splitLoop (loopFuel s) (Splitter.Next { S := s, Delim := d }).2 st g body) := by
  obtain ⟨_, h2, h3⟩ := first_next s d hd
  exact splitLoop_safe g body hb _ _ _ (by rw [h2]; exact hd) (by simp only [loopFuel]; omega)

theorem sep_ne_nil : ArraySeparatorString ≠ [] := by simp [ArraySeparatorString]

/-! ## the slice expressions of `Splitter.Next` stay in bounds

The model writes `s.S[s.next:]` as `S.drop next`, which is total, whereas the Go expression panics
when `next > len(S)`.  `next` never gets there: from a fresh splitter (`next = 0`) every `Next()`
leaves `next = -1` or `0 ≤ next ≤ len(S)`. -/

theorem indexOf_le (d s : Bytes) (i : Nat) (h : indexOf d s = some i) : i ≤ s.length := by
  induction s generalizing i with
  | nil =>
    unfold indexOf at h
    split at h
    · cases h; simp
    · cases h
  | cons c r ih =>
    rw [indexOf_cons] at h
    split at h
    · cases h; simp
    · cases hj : indexOf d r with
      | none => simp [hj] at h
      | some j =>
        simp [hj] at h
        have := ih j hj
        simp only [List.length_cons]; omega

def InBounds (sp : Splitter) : Prop := sp.next = -1 ∨ (0 ≤ sp.next ∧ sp.next ≤ sp.S.length)

theorem inBounds_init (s d : Bytes) : InBounds { S := s, Delim := d } := Or.inr ⟨by simp, by simp⟩

theorem inBounds_next (sp : Splitter) (h : InBounds sp) : InBounds sp.Next.2 ∧ sp.Next.2.S = sp.S := by
  unfold Splitter.Next
  rcases h with h | ⟨h0, h1⟩
  · have : sp.next < 0 := by omega
    simp only [this, if_true]
    exact ⟨Or.inl h, by first | rfl | trivial⟩
  · have hn : ¬ sp.next < 0 := by omega
    simp only [hn, if_false]
    cases hi : indexOf sp.Delim (sp.S.drop sp.next.toNat) with
    | none => exact ⟨Or.inl rfl, rfl⟩
    | some i =>
      refine ⟨Or.inr ⟨by simp only; omega, ?_⟩, rfl⟩
      have hle := indexOf_le _ _ i hi
      have := congrArg List.length (indexOf_some _ _ i hi)
      simp only [List.length_append, List.length_take, List.length_drop] at this hle
      rw [Nat.min_eq_left hle] at this
      simp only
      omega

/-! ## stages -/

theorem arrayOperator_safe (arr d j : Bytes) (hd : d ≠ []) (mapper : Bytes → Stage)
    (hm : ∀ x, Safe (mapper x)) : Safe (arrayOperator arr d j mapper) := by
  unfold arrayOperator
  split
  · exact hm _
  · exact Safe.bind (hm _) fun m =>
      Safe.bind (splitLoop_safe_next _ _ (fun ret x => Safe.bind (hm x) fun _ => .ret _) arr d hd _)
        fun _ => .ret _

theorem noopMapper_safe (x : Bytes) : Safe (noopMapper x) := .ret _

theorem lenStage_safe {a0 : Stage} (h : Safe a0) : Safe (lenStage a0) :=
  Safe.bind h fun _ => .ret _

theorem splitStage_safe {a0 : Stage} (h : Safe a0) (d : Bytes) (hd : d ≠ []) : Safe (splitStage d a0) :=
  Safe.bind h fun _ => arrayOperator_safe _ _ _ hd _ noopMapper_safe

theorem joinStage_safe {a0 : Stage} (h : Safe a0) (d : Bytes) : Safe (joinStage d a0) :=
  Safe.bind h fun _ => arrayOperator_safe _ _ _ sep_ne_nil _ noopMapper_safe

theorem mapStage_safe {a0 a1 : Stage} (h0 : Safe a0) (h1 : Safe a1) : Safe (mapStage a0 a1) :=
  Safe.bind h0 fun _ => arrayOperator_safe _ _ _ sep_ne_nil _ fun _ => h1.withSub _ _

theorem selectStage_safe {a0 : Stage} (h : Safe a0) (index : Int) : Safe (selectStage index a0) :=
  Safe.bind h fun s =>
    Safe.bind (splitLoop_safe_init _ _ (fun _ _ => .ret _) s _ sep_ne_nil _) fun _ => .ret _

theorem sliceStage_safe {a0 : Stage} (h : Safe a0) (start len : Int) : Safe (sliceStage start len a0) :=
  Safe.bind h fun s =>
    Safe.bind (splitLoop_safe_init _ _ (fun _ _ => .ret _) s _ sep_ne_nil _) fun _ => .ret _

theorem filterStage_safe {a0 a1 : Stage} (h0 : Safe a0) (h1 : Safe a1) : Safe (filterStage a0 a1) :=
  Safe.bind h0 fun s =>
    Safe.bind (splitLoop_safe_init _ _
      (fun st item => Safe.bind (h1.withSub _ _) fun c => by split <;> exact .ret _) s _ sep_ne_nil _)
      fun _ => .ret _

theorem reduceStage_safe {a0 a1 : Stage} (h0 : Safe a0) (h1 : Safe a1) (initial : Bytes) :
    Safe (reduceStage initial a0 a1) := by
  unfold reduceStage
  refine Safe.bind h0 fun s => ?_
  by_cases hi : initial = []
  · simp only [hi, if_true]
    exact splitLoop_safe_next _ _ (fun memo x => h1.withSub _ _) s _ sep_ne_nil _
  · simp only [hi, if_false]
    exact splitLoop_safe_init _ _ (fun memo x => h1.withSub _ _) s _ sep_ne_nil _

theorem inStage_safe {a0 : Stage} (h : Safe a0) (set : List Bytes) : Safe (inStage set a0) :=
  Safe.bind h fun _ => .ret _

theorem joinArgsLoop_safe (delim : UInt8) (rest : List Stage) (h : ∀ a ∈ rest, Safe a) (sb : Sb) :
    Safe (joinArgsLoop delim rest sb) := by
  induction rest generalizing sb with
  | nil => exact .ret _
  | cons a r ih =>
    exact Safe.bind (h a (by simp)) fun v => ih (fun x hx => h x (by simp [hx])) _

theorem joinArgsStage_safe (delim : UInt8) {a0 : Stage} (h0 : Safe a0) (rest : List Stage)
    (h : ∀ a ∈ rest, Safe a) : Safe (joinArgsStage delim a0 rest) :=
  Safe.bind h0 fun _ => Safe.bind (joinArgsLoop_safe delim rest h _) fun _ => .ret _

/-- `@for`: the iteration cap is reached (and answered with `<INF>`) before the fuel runs out. -/
theorem forLoop_safe {cond incr : Stage} (hc : Safe cond) (hn : Safe incr) :
    ∀ (fuel : Nat) (val : Bytes) (idx : Nat) (sb : Sb),
      idx ≤ Gen.maxIterations → Gen.maxIterations + 2 ≤ fuel + idx →
      Safe (forLoop cond incr fuel val idx sb) := by
  intro fuel
  induction fuel with
  | zero => intro val idx sb h1 h2; omega
  | succ fuel ih =>
    intro val idx sb h1 h2
    unfold forLoop
    refine Safe.bind (hc.withSub _ _) fun c => ?_
    split
    · exact .ret _
    · refine Safe.bind (hn.withSub _ _) fun val' => ?_
      by_cases hm : idx + 1 > Gen.maxIterations
      · simp only [hm, if_true]; exact .ret _
      · simp only [hm, if_false]
        exact ih _ _ _ (by omega) (by omega)

theorem forStage_safe {a0 a1 a2 : Stage} (h0 : Safe a0) (h1 : Safe a1) (h2 : Safe a2) :
    Safe (forStage a0 a1 a2) :=
  Safe.bind h0 fun _ => forLoop_safe h1 h2 _ _ _ _ (by omega) (by omega)

/-- `@range`: with the fuel the builder passes the counting loop always answers. -/
theorem rangeLoop_ok (stop incr : Int) :
    ∀ (fuel : Nat) (i : Int) (count : Nat) (sb : Sb),
      count ≤ Gen.maxIterations → Gen.maxIterations + 2 ≤ fuel + count →
      ∃ r, rangeLoop fuel i stop incr count sb = .ok r := by
  intro fuel
  induction fuel with
  | zero => intro i count sb h1 h2; omega
  | succ fuel ih =>
    intro i count sb h1 h2
    unfold rangeLoop
    split
    · by_cases hm : count + 1 > Gen.maxIterations
      · exact ⟨none, by simp only [hm, if_true]⟩
      · simp only [hm, if_false]
        split
        · exact ⟨_, rfl⟩
        · exact ih _ _ _ (by omega) (by omega)
    · exact ⟨_, rfl⟩

theorem rangeBody_safe (start stop incr : Int) : Safe (rangeBody start stop incr) := by
  unfold rangeBody
  split
  · exact .ret _
  · split
    · exact .ret _
    · split
      · exact .ret _
      · obtain ⟨r, hr⟩ := rangeLoop_ok stop incr (Gen.maxIterations + 2) start 0 {} (by omega) (by omega)
        rw [hr]
        cases r <;> exact .ret _

theorem rangeStage_safe {s0 s1 s2 : Stage} (h0 : Safe s0) (h1 : Safe s1) (h2 : Safe s2) :
    Safe (rangeStage s0 s1 s2) := by
  unfold rangeStage
  refine Safe.bind h0 fun a => ?_
  split
  · exact .ret _
  · refine Safe.bind h1 fun b => ?_
    split
    · exact .ret _
    · refine Safe.bind h2 fun c => ?_
      split
      · exact .ret _
      · exact rangeBody_safe _ _ _

/-! ## builders -/

theorem kfArrayLen_safe : SafeBuilder kfArrayLen := by
  intro args h
  rcases args with _ | ⟨a0, _ | ⟨a1, r⟩⟩
  · exact good_errArgCount
  · exact good_ok (lenStage_safe (h a0 (by simp)))
  · exact good_errArgCount

theorem kfArraySplit_safe : SafeBuilder kfArraySplit := by
  intro args h
  show Good (kfArraySplit args)
  unfold kfArraySplit
  split
  · exact good_errArgCount
  · obtain ⟨v, hv⟩ := evalStageIndexOrDefault_ok args h 1 (ascii " ")
    simp only [hv]
    split
    · exact good_errEmpty
    · rename_i hl
      split
      · exact good_ok (splitStage_safe (h _ (by simp)) v (by intro e; apply hl; simp [e]))
      · exact good_errArgCount

theorem kfArrayJoin_safe : SafeBuilder kfArrayJoin := by
  intro args h
  show Good (kfArrayJoin args)
  unfold kfArrayJoin
  split
  · exact good_errArgCount
  · obtain ⟨v, hv⟩ := evalStageIndexOrDefault_ok args h 1 (ascii " ")
    simp only [hv]
    split
    · exact good_ok (joinStage_safe (h _ (by simp)) v)
    · exact good_errArgCount

theorem kfArraySelect_safe : SafeBuilder kfArraySelect := by
  intro args h
  show Good (kfArraySelect args)
  unfold kfArraySelect
  split
  · rename_i a0 a1
    obtain ⟨v, hv⟩ := evalStageInt_ok a1 (h a1 (by simp))
    simp only [hv]
    cases v with
    | none => exact good_errNum
    | some index => exact good_ok (selectStage_safe (h a0 (by simp)) index)
  · exact good_errArgCount

theorem kfArrayMap_safe : SafeBuilder kfArrayMap := by
  intro args h
  show Good (kfArrayMap args)
  unfold kfArrayMap
  split
  · rename_i a0 a1
    exact good_ok (mapStage_safe (h a0 (by simp)) (h a1 (by simp)))
  · exact good_errArgCount

theorem kfArrayReduce_safe : SafeBuilder kfArrayReduce := by
  intro args h
  show Good (kfArrayReduce args)
  unfold kfArrayReduce
  split
  · exact good_errArgCount
  · obtain ⟨v, hv⟩ := evalStageIndexOrDefault_ok args h 2 []
    simp only [hv]
    split
    · exact good_ok (reduceStage_safe (h _ (by simp)) (h _ (by simp)) v)
    · exact good_errArgCount

theorem kfArraySlice_safe : SafeBuilder kfArraySlice := by
  intro args h
  show Good (kfArraySlice args)
  rcases args with _ | ⟨a0, _ | ⟨a1, r⟩⟩
  · exact good_errArgCount
  · exact good_errArgCount
  · unfold kfArraySlice
    split
    · exact good_errArgCount
    · obtain ⟨v, hv⟩ := evalStageInt_ok a1 (h a1 (by simp))
      simp only [hv]
      cases v with
      | none => exact good_errConst
      | some start =>
        obtain ⟨w, hw⟩ := evalArgInt_ok (a0 :: a1 :: r) h 2 (-1)
        simp only [hw]
        cases w with
        | none => exact good_errConst
        | some len => exact good_ok (sliceStage_safe (h a0 (by simp)) start len)

theorem kfArrayRange_safe : SafeBuilder kfArrayRange := by
  intro args h
  show Good (kfArrayRange args)
  unfold kfArrayRange
  split
  · rename_i a0
    exact good_ok (rangeStage_safe (Safe.lit _) (h a0 (by simp)) (Safe.lit _))
  · rename_i a0 a1
    exact good_ok (rangeStage_safe (h a0 (by simp)) (h a1 (by simp)) (Safe.lit _))
  · rename_i a0 a1 a2
    exact good_ok (rangeStage_safe (h a0 (by simp)) (h a1 (by simp)) (h a2 (by simp)))
  · exact good_errArgCount

theorem kfArrayFor_safe : SafeBuilder kfArrayFor := by
  intro args h
  show Good (kfArrayFor args)
  unfold kfArrayFor
  split
  · rename_i a0 a1 a2
    exact good_ok (forStage_safe (h a0 (by simp)) (h a1 (by simp)) (h a2 (by simp)))
  · exact good_errArgCount

theorem kfArrayFilter_safe : SafeBuilder kfArrayFilter := by
  intro args h
  show Good (kfArrayFilter args)
  unfold kfArrayFilter
  split
  · rename_i a0 a1
    exact good_ok (filterStage_safe (h a0 (by simp)) (h a1 (by simp)))
  · exact good_errArgCount

theorem kfArrayIn_safe : SafeBuilder kfArrayIn := by
  intro args h
  show Good (kfArrayIn args)
  unfold kfArrayIn
  split
  · rename_i a0 a1
    obtain ⟨v, b, hp⟩ := (h a1 (by simp)).probe
    simp only [hp]
    cases b
    · exact good_errConst
    · exact good_ok (inStage_safe (h a0 (by simp)) _)
  · exact good_errArgCount

theorem joinArgs_safe (delim : UInt8) : SafeBuilder (joinArgs delim) := by
  intro args h
  show Good (joinArgs delim args)
  unfold joinArgs
  split
  · exact good_ok (Safe.lit _)
  · rename_i a
    exact good_ok (h a (by simp))
  · exact good_ok (joinArgsStage_safe delim (h _ (by simp)) _ fun x hx => h x (List.mem_cons_of_mem _ hx))

/-- Names in `table` whose builder can emit an `unmodelled:` panic node: none. -/
def rangeUnmodelled : List String := []

/-- Every array helper (`$`, `@`, `@len`, `@map`, `@split`, `@select`, `@join`, `@reduce`, `@filter`,
    `@slice`, `@in`, `@range`, `@for`) is panic-free: safe arguments in, no compile-time failure and a
    safe stage out (no index/slice panic, no nil parent, and none of the loops hangs). -/
theorem range_safe : ∀ p ∈ Rare.Expr.Funcs.Range.table, p.1 ∉ rangeUnmodelled → SafeBuilder p.2 := by
  intro p hp _
  simp only [table, List.mem_cons, List.not_mem_nil, or_false] at hp
  rcases hp with rfl | rfl | rfl | rfl | rfl | rfl | rfl | rfl | rfl | rfl | rfl | rfl | rfl
  · exact joinArgs_safe _
  · exact joinArgs_safe _
  · exact kfArrayLen_safe
  · exact kfArrayMap_safe
  · exact kfArraySplit_safe
  · exact kfArraySelect_safe
  · exact kfArrayJoin_safe
  · exact kfArrayReduce_safe
  · exact kfArrayFilter_safe
  · exact kfArraySlice_safe
  · exact kfArrayIn_safe
  · exact kfArrayRange_safe
  · exact kfArrayFor_safe

end Rare.Expr.Funcs.Range
