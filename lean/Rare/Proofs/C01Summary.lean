import Rare.Model.C01Summary
import Rare.Proofs.C11Str
import Rare.Proofs.C17Atoi
/-! Helper lemmas for the summary line of C01 (`Model/C01Summary.lean`). -/
namespace Rare.C01
open Rare

theorem huiLoop_eq : ∀ (f v ci : Nat) (acc : Bytes), huiLoop f v ci acc = C11.hiLoopN f v ci acc
  | 0, _, _, _ => rfl
  | f + 1, v, ci, acc => by
    unfold huiLoop C11.hiLoopN
    by_cases hv : v = 0
    · simp [hv]
    · simp only [hv, if_false]
      exact huiLoop_eq f _ _ _

theorem natDigits_strip (n : Nat) : C11.Spec.stripCommas (natDigits n) = natDigits n := by
  unfold C11.Spec.stripCommas
  rw [List.filter_eq_self]
  intro c hc
  have := List.all_eq_true.mp (C17.natDigits_all n) c hc
  simp only [isDigitB, Bool.and_eq_true, decide_eq_true_eq] at this
  simp only [ne_eq, decide_not, Bool.not_eq_eq_eq_not, Bool.not_true, decide_eq_false_iff_not]
  intro h; subst h
  exact absurd this.1 (by decide)

/-- Removing the separators from `Hui(n)` leaves the decimal digits of `n`, for every uint64 (and beyond). -/
theorem hui_strip (fmt : Bool) (n : Nat) (h : n < 10 ^ 20) : C11.Spec.stripCommas (hui fmt n) = natDigits n := by
  unfold hui
  cases fmt with
  | false => simpa using natDigits_strip n
  | true =>
    simp only [Bool.not_true, Bool.false_eq_true, if_false]
    unfold humanizeUint
    by_cases hs : n < 100
    · simp only [hs, if_true]; exact natDigits_strip n
    · simp only [hs, if_false]
      rw [huiLoop_eq, C11.hiLoopN_strip 20 n 0 [] h]
      have : n ≠ 0 := by omega
      simp [C11.digitsPos, this, C11.Spec.stripCommas]

/-- With separators on, the digits are grouped in threes from the right. -/
theorem hui_grouped (n : Nat) (h : n < 10 ^ 20) : C11.Spec.groupedInThrees (hui true n) = true := by
  unfold hui
  simp only [Bool.not_true, Bool.false_eq_true, if_false]
  unfold humanizeUint
  by_cases hs : n < 100
  · simp only [hs, if_true]; exact (C11.small_grouped n hs).2
  · simp only [hs, if_false]
    rw [huiLoop_eq]
    have hv0 : n ≠ 0 := by omega
    obtain ⟨g, rest, hg, hg1, hg3, hr⟩ := C11.hiLoopN_groups 20 n 0 [] h C11.groupInv_nil (fun h => absurd h hv0)
    unfold C11.Spec.groupedInThrees
    rw [hg]
    simp only [Bool.and_eq_true, decide_eq_true_eq, List.all_eq_true, beq_iff_eq]
    exact ⟨⟨hg1, hg3⟩, hr⟩

theorem isNumB_digit (d : Nat) (hd : d < 10) : isNumB (UInt8.ofNat (48 + d)) = true := by
  have : ∀ d : Nat, d < 10 → isNumB (UInt8.ofNat (48 + d)) = true := by decide
  exact this d hd

theorem hiLoopN_allNum : ∀ (f n ci : Nat) (acc : Bytes), acc.all isNumB = true →
    (C11.hiLoopN f n ci acc).all isNumB = true
  | 0, _, _, _, h => by simpa [C11.hiLoopN] using h
  | f + 1, n, ci, acc, h => by
    unfold C11.hiLoopN
    by_cases hn : n = 0
    · simpa [hn] using h
    · simp only [hn, if_false]
      apply hiLoopN_allNum
      have hd := isNumB_digit (n % 10) (by omega)
      by_cases hc : ci = 3
      · simp only [hc, if_true, List.all_cons, hd, Bool.true_and]
        simpa [isNumB] using h
      · simp only [hc, if_false, List.all_cons, hd, Bool.true_and]
        exact h

theorem natDigits_allNum (n : Nat) : (natDigits n).all isNumB = true := by
  rw [List.all_eq_true]
  intro c hc
  have := List.all_eq_true.mp (C17.natDigits_all n) c hc
  simp [isNumB, this]

theorem hui_allNum (fmt : Bool) (n : Nat) : (hui fmt n).all isNumB = true := by
  unfold hui
  cases fmt with
  | false => simpa using natDigits_allNum n
  | true =>
    simp only [Bool.not_true, Bool.false_eq_true, if_false]
    unfold humanizeUint
    split
    · exact natDigits_allNum n
    · rw [huiLoop_eq]; exact hiLoopN_allNum 20 n 0 [] rfl

/-- A number followed by text that does not start with a digit or a separator is read back exactly. -/
theorem readNum_hui (fmt : Bool) (n : Nat) (h : n < 10 ^ 20) (rest : Bytes)
    (hr : ∀ c r, rest = c :: r → isNumB c = false) :
    readNum (hui fmt n ++ rest) = (n, rest) := by
  have hall := hui_allNum fmt n
  rw [List.all_eq_true] at hall
  have ht : (hui fmt n ++ rest).takeWhile isNumB = hui fmt n := by
    rw [List.takeWhile_append_of_pos hall]
    cases rest with
    | nil => simp
    | cons c r => simp [hr c r rfl]
  have hd : (hui fmt n ++ rest).dropWhile isNumB = rest := by
    rw [List.dropWhile_append_of_pos hall]
    cases rest with
    | nil => simp
    | cons c r => simp [hr c r rfl]
  unfold readNum
  rw [ht, hd, hui_strip fmt n h, C17.decVal_natDigits]

theorem stripPrefix_append (p s : Bytes) : stripPrefix p (p ++ s) = some s := by
  unfold stripPrefix
  simp [List.prefix_append]


theorem not_isNumB_head_of_prefix (c : UInt8) (t rest : Bytes) (hc : isNumB c = false) :
    ∀ c' r, (c :: t) ++ rest = c' :: r → isNumB c' = false := by
  intro c' r h
  simp only [List.cons_append, List.cons.injEq] at h
  rw [← h.1]; exact hc

/-- The errors part, when present, does not read as the ignored part. -/
theorem errorsPart_not_ignored (fmt : Bool) (e : Nat) :
    stripPrefix (ascii " (Ignored: ")
      (if e > 0 then 32 :: wrap false cRed (ascii "(Errors: " ++ hui fmt e ++ ascii ")") else []) = none := by
  split
  · have h1 : ascii " (Ignored: " = [32, 40, 73, 103, 110, 111, 114, 101, 100, 58, 32] := by decide +kernel
    have h2 : ascii "(Errors: " = [40, 69, 114, 114, 111, 114, 115, 58, 32] := by decide +kernel
    simp [stripPrefix, wrap, h1, h2]
  · have h1 : ascii " (Ignored: " = [32, 40, 73, 103, 110, 111, 114, 101, 100, 58, 32] := by decide +kernel
    simp [stripPrefix, h1]

/-- Reading the three numbers back from the line `FWriteExtractorSummary` builds (colours off, thousands
    separators on or off, any error count): exactly the three counters. -/
theorem readSummary_extractorSummary (fmt : Bool) (m r i e : Nat)
    (hm : m < 10 ^ 20) (hr : r < 10 ^ 20) (hi : i < 10 ^ 20) :
    readSummary (extractorSummary fmt false m r i e []) = some (m, r, i) := by
  have hsl : ascii " / " = 32 :: [47, 32] := by decide +kernel
  have hig : ascii " (Ignored: " = 32 :: [40, 73, 103, 110, 111, 114, 101, 100, 58, 32] := by decide +kernel
  have hcl : ascii ")" = 41 :: [] := by decide +kernel
  have hsp : isNumB 32 = false := by decide +kernel
  have hpa : isNumB 41 = false := by decide +kernel
  unfold readSummary extractorSummary matchSummary
  simp only [wrap, Bool.not_false, if_true, List.flatMap_nil, List.append_nil, List.append_assoc]
  rw [stripPrefix_append]
  simp only []
  rw [readNum_hui fmt m hm _ (by rw [hsl]; exact not_isNumB_head_of_prefix 32 _ _ hsp)]
  simp only []
  rw [stripPrefix_append]
  simp only []
  by_cases h0 : i > 0
  · simp only [h0, if_true, List.append_assoc]
    rw [readNum_hui fmt r hr _ (by rw [hig]; exact not_isNumB_head_of_prefix 32 _ _ hsp)]
    simp only []
    rw [stripPrefix_append]
    simp only []
    rw [readNum_hui fmt i hi _ (by rw [hcl]; exact not_isNumB_head_of_prefix 41 _ _ hpa)]
  · have hi0 : i = 0 := by omega
    simp only [h0, if_false, List.nil_append]
    have hrest : ∀ c t, (if e > 0 then 32 :: (ascii "(Errors: " ++ (hui fmt e ++ ascii ")")) else []) = c :: t →
        isNumB c = false := by
      intro c t h
      split at h
      · simp only [List.cons.injEq] at h; rw [← h.1]; exact hsp
      · cases h
    rw [readNum_hui fmt r hr _ hrest]
    simp only []
    have := errorsPart_not_ignored fmt e
    simp only [wrap, Bool.not_false, if_true, List.append_assoc] at this
    rw [this, hi0]


/-! ### the `-n` consumer loop -/

theorem filterBatch_nolimit {α : Type} : ∀ (b printed : List α), filterBatch 0 b printed = (printed ++ b, false)
  | [], printed => by simp [filterBatch]
  | m :: rest, printed => by
    unfold filterBatch
    simp only [Nat.lt_irrefl, decide_false, Bool.false_and, Bool.false_eq_true, if_false]
    rw [filterBatch_nolimit rest]; simp

theorem filterLoop_nolimit {α : Type} : ∀ (bs : List (List α)) (printed : List α),
    filterLoop 0 bs printed = printed ++ bs.flatten
  | [], printed => by simp [filterLoop]
  | b :: rest, printed => by
    unfold filterLoop
    rw [filterBatch_nolimit]
    simp only []
    rw [filterLoop_nolimit rest]; simp

theorem filterBatch_limit {α : Type} (limit : Nat) : ∀ (b printed : List α), printed.length < limit →
    filterBatch limit b printed =
      if printed.length + b.length ≥ limit then (printed ++ b.take (limit - printed.length), true)
      else (printed ++ b, false)
  | [], printed, h => by
    have : ¬ (printed.length ≥ limit) := by omega
    simp [filterBatch, this]
  | m :: rest, printed, h => by
    unfold filterBatch
    have hl : limit > 0 := by omega
    by_cases hge : (printed ++ [m]).length ≥ limit
    · have h1 : printed.length + 1 = limit := by simp at hge; omega
      have h2 : limit - printed.length = 1 := by omega
      have h3 : printed.length + (m :: rest).length ≥ limit := by simp; omega
      simp only [hl, hge, decide_true, Bool.and_self, if_true, h3, h2]
      simp
    · have hlt : (printed ++ [m]).length < limit := by omega
      simp only [hl, hge, decide_true, decide_false, Bool.and_false, Bool.false_eq_true, if_false]
      rw [filterBatch_limit limit rest (printed ++ [m]) hlt]
      simp only [List.length_append, List.length_cons, List.length_nil] at *
      have e1 : limit - printed.length = (limit - (printed.length + 0 + 1)) + 1 := by omega
      by_cases hc : printed.length + 0 + 1 + rest.length ≥ limit
      · have hc' : printed.length + (rest.length + 1) ≥ limit := by omega
        simp only [hc, hc', if_true, e1, List.take_succ_cons, List.append_assoc, List.singleton_append]
      · have hc' : ¬ (printed.length + (rest.length + 1) ≥ limit) := by omega
        simp only [hc, hc', if_false, List.append_assoc, List.singleton_append]

/-- The consumer loop of `rare filter -n limit` prints the first `limit` matches of the stream it receives
    (all of them when there are fewer), whatever the batch boundaries. -/
theorem filterLoop_limit {α : Type} (limit : Nat) : ∀ (bs : List (List α)) (printed : List α),
    printed.length < limit → filterLoop limit bs printed = printed ++ bs.flatten.take (limit - printed.length)
  | [], printed, _ => by simp [filterLoop]
  | b :: rest, printed, h => by
    unfold filterLoop
    rw [filterBatch_limit limit b printed h]
    by_cases hge : printed.length + b.length ≥ limit
    · simp only [hge, if_true, List.flatten_cons]
      rw [List.take_append_of_le_length (by omega)]
    · simp only [hge, if_false, List.flatten_cons]
      rw [filterLoop_limit limit rest (printed ++ b) (by simp; omega)]
      rw [List.take_append]
      have h1 : b.take (limit - printed.length) = b := List.take_of_length_le (by omega)
      simp only [h1, List.length_append, List.append_assoc]
      rw [Nat.sub_sub]

theorem filterLoop_eq {α : Type} (limit : Nat) (bs : List (List α)) :
    filterLoop limit bs [] = if limit = 0 then bs.flatten else bs.flatten.take limit := by
  by_cases h : limit = 0
  · subst h; simp [filterLoop_nolimit]
  · simp only [h, if_false]
    rw [filterLoop_limit limit bs [] (by simp; omega)]; simp

end Rare.C01
