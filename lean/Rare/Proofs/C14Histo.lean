import Rare.Proofs.C14Unit
/-!
# C14: the histogram as a whole renderer – the redraw invariant

`HistoInv`: every WRITTEN line of the histogram shows its latest (key, value) drawn with the CURRENT state
of the writer – key column width, running maximum, total: the number is `Formatter(value, 0, maxVal)` and the
bar is `BarWrite(Scale(value, 0, maxVal), 50)` for the one `maxVal` of the writer, so the bars of one
histogram are proportional to each other.  The invariant holds for a new histogram and is preserved by EVERY
sequence of `WriteForLine` / `UpdateTotal` calls (after the repair 7b183e0; before it a full refresh skipped
the rows whose value is not positive).  Proved for every instance of the float operations satisfying
`UnitLaws` (ℚ and binary64).
-/
namespace Rare.C14
open Rare Rare.C20

section
variable {α : Type} {A : Arith α} {Dom : Int → Prop} {Unit : α → Prop} {le : α → α → Prop}

/-- the bytes `BarWrite` writes for a histogram line (it never fails, `histo_writeLine_eq`) -/
def Histo.barBytes (A : Arith α) (env : Env) (h : Histo) (val : Int) : Bytes :=
  match barWrite A env (scale A h.scaler val 0 h.maxVal) 50 with
  | .ok b => b
  | .error _ => []

/-- the text of a histogram line as a function of the writer's CURRENT state -/
def Histo.lineText (A : Arith α) (env : Env) (h : Histo) (key : Bytes) (val : Int) : Bytes :=
  let s := wrap env cYellow (padVis env key h.textSpacing) ++ ascii "    " ++ padRight (h.fmt.apply val 0 h.maxVal) 10
  let s := if h.showPct ∧ h.total > 0 then s ++ [32] ++ wrap env cCyan pctText else s
  if h.showBar ∧ h.maxVal > 0 then s ++ [32] ++ colorWrite env cBlue (h.barBytes A env val) else s

theorem histo_writeLine_eq (U : UnitLaws A Dom Unit le) (env : Env) (h : Histo) (vt : VirtualTerm) (line : Int) (key : Bytes) (val : Int)
    (hd : Dom val) (hm : Dom h.maxVal) :
    h.writeLine A env vt line key val = vt.writeForLine line (h.lineText A env key val) := by
  obtain ⟨b, hb⟩ := U.barWrite_ok env (U.scale_unit h.scaler hd U.dom_zero hm) (maxLen := 50) (by omega) (by omega)
  unfold Histo.writeLine Histo.lineText Histo.barBytes
  simp only [hb]
  split <;> rfl

/-- the text does not depend on the stored rows -/
theorem histo_lineText_items (env : Env) (h : Histo) (items : List (Option (Bytes × Int))) (key : Bytes) (val : Int) :
    ({ h with items := items } : Histo).lineText A env key val = h.lineText A env key val := rfl

/-- the redraw invariant of a histogram writing into `vt` -/
structure HistoInv (A : Arith α) (Dom : Int → Prop) (env : Env) (h : Histo) (vt : VirtualTerm) : Prop where
  isOpen : vt.closed = false
  dom_max : Dom h.maxVal
  dom_items : ∀ (i : Nat) (k : Bytes) (v : Int), h.items[i]? = some (some (k, v)) → Dom v
  /-- every written line shows its row drawn with the current state -/
  drawn : ∀ (i : Nat) (k : Bytes) (v : Int), h.items[i]? = some (some (k, v)) → vt.lines[i]? = some (h.lineText A env k v)
  /-- the running maximum covers every row, the key column every key -/
  max_cover : ∀ (i : Nat) (k : Bytes) (v : Int), h.items[i]? = some (some (k, v)) → v ≤ h.maxVal
  key_cover : ∀ (i : Nat) (k : Bytes) (v : Int), h.items[i]? = some (some (k, v)) → strLen env k ≤ h.textSpacing

/-- `fullRender`: every written line is redrawn with the state `h`, nothing else changes -/
theorem histo_fullRender_ok (U : UnitLaws A Dom Unit le) (env : Env) (h : Histo) (hm : Dom h.maxVal) :
    ∀ (l : List (Option (Bytes × Int))) (b : Nat) (vt : VirtualTerm), vt.closed = false →
      (∀ (i : Nat) (k : Bytes) (v : Int), l[i]? = some (some (k, v)) → Dom v) →
      ∃ vt', (l.zipIdx b).foldlM (h.renderItem A env) vt = .ok vt' ∧ vt'.closed = false ∧
        (∀ (i : Nat) (k : Bytes) (v : Int), l[i]? = some (some (k, v)) → vt'.lines[b + i]? = some (h.lineText A env k v)) ∧
        (∀ j x, (j < b ∨ b + l.length ≤ j) → vt.lines[j]? = some x → vt'.lines[j]? = some x) := by
  intro l
  induction l with
  | nil => intro b vt ho _; exact ⟨vt, rfl, ho, by intro i k v h; simp at h, fun j x _ h => h⟩
  | cons it l ih =>
    intro b vt ho hdom
    -- the first item
    have hstep : ∃ vt1, h.renderItem A env vt (it, b) = .ok vt1 ∧ vt1.closed = false ∧
        (∀ k v, it = some (k, v) → vt1.lines[b]? = some (h.lineText A env k v)) ∧
        (∀ j x, j ≠ b → vt.lines[j]? = some x → vt1.lines[j]? = some x) := by
      cases it with
      | none => exact ⟨vt, rfl, ho, (by intro k v e; cases e), fun j x _ hx => hx⟩
      | some kv =>
        obtain ⟨k, v⟩ := kv
        have hd : Dom v := hdom 0 k v rfl
        obtain ⟨vt1, hw, ho1, hl, hk⟩ := vt_write_ok vt ho b (h.lineText A env k v)
        refine ⟨vt1, ?_, ho1, ?_, hk⟩
        · show h.writeLine A env vt (b : Int) k v = _
          rw [histo_writeLine_eq U env h vt b k v hd hm, hw]
        · intro k' v' e; cases e; exact hl
    obtain ⟨vt1, hs, ho1, hl1, hk1⟩ := hstep
    obtain ⟨vt2, hf, ho2, hrows, hk2⟩ := ih (b + 1) vt1 ho1 (fun i k v hi => hdom (i + 1) k v (by simpa using hi))
    refine ⟨vt2, ?_, ho2, ?_, ?_⟩
    · rw [List.zipIdx_cons, List.foldlM_cons, hs]; exact hf
    · intro i k v hi
      cases i with
      | zero =>
        simp at hi
        exact hk2 b _ (Or.inl (by omega)) (hl1 k v hi)
      | succ i =>
        have := hrows i k v (by simpa using hi)
        rwa [show b + 1 + i = b + (i + 1) by omega] at this
    · intro j x hj hx
      apply hk2 j x (by simp at hj ⊢; omega)
      exact hk1 j x (by simp at hj; omega) hx

/-- the settings of the writer (they never change) -/
def Histo.SameConfig (h h' : Histo) : Prop :=
  h'.showBar = h.showBar ∧ h'.showPct = h.showPct ∧ h'.scaler = h.scaler ∧ h'.fmt = h.fmt ∧ h'.items.length = h.items.length

theorem Histo.SameConfig.refl (h : Histo) : h.SameConfig h := ⟨rfl, rfl, rfl, rfl, rfl⟩

theorem Histo.SameConfig.trans {a b c : Histo} (h1 : a.SameConfig b) (h2 : b.SameConfig c) : a.SameConfig c :=
  ⟨h2.1.trans h1.1, h2.2.1.trans h1.2.1, h2.2.2.1.trans h1.2.2.1, h2.2.2.2.1.trans h1.2.2.2.1, h2.2.2.2.2.trans h1.2.2.2.2⟩

/-- the state after `WriteForLine(n, key, val)` for `n < len(items)` -/
def Histo.afterLine (env : Env) (h : Histo) (n : Nat) (key : Bytes) (val : Int) : Histo :=
  { h with textSpacing := if strLen env key > h.textSpacing then strLen env key else h.textSpacing,
           maxVal := if val > h.maxVal then val else h.maxVal,
           items := h.items.set n (some (key, val)) }

theorem histo_writeForLine_unfold (env : Env) (h : Histo) (vt : VirtualTerm) (n : Nat) (key : Bytes) (val : Int) (hn : n < h.items.length) :
    h.writeForLine A env vt (n : Int) key val =
      if strLen env key > h.textSpacing ∨ val > h.maxVal then (do
        let vt' ← (h.afterLine env n key val).fullRender A env vt
        pure (h.afterLine env n key val, vt'))
      else (do
        let vt' ← (h.afterLine env n key val).writeLine A env vt (n : Int) key val
        pure (h.afterLine env n key val, vt')) := by
  unfold Histo.writeForLine Histo.afterLine
  rw [if_neg (by omega)]
  simp only [setIdx_nat h.items n _ hn, bind, Except.bind]
  by_cases h1 : strLen env key > h.textSpacing <;> by_cases h2 : val > h.maxVal <;> simp [h1, h2] <;> rfl

theorem histo_fullRender_eq (env : Env) (h : Histo) (vt : VirtualTerm) :
    h.fullRender A env vt = (h.items.zipIdx 0).foldlM (h.renderItem A env) vt := rfl

/-- a full refresh re-establishes "every written line is drawn with the current state" -/
theorem histo_fullRender_inv (U : UnitLaws A Dom Unit le) (env : Env) (h : Histo) (vt : VirtualTerm) (ho : vt.closed = false)
    (hm : Dom h.maxVal) (hdi : ∀ (i : Nat) (k : Bytes) (v : Int), h.items[i]? = some (some (k, v)) → Dom v)
    (hmc : ∀ (i : Nat) (k : Bytes) (v : Int), h.items[i]? = some (some (k, v)) → v ≤ h.maxVal)
    (hkc : ∀ (i : Nat) (k : Bytes) (v : Int), h.items[i]? = some (some (k, v)) → strLen env k ≤ h.textSpacing) :
    ∃ vt', h.fullRender A env vt = .ok vt' ∧ HistoInv A Dom env h vt' := by
  obtain ⟨vt', hf, ho', hrows, _⟩ := histo_fullRender_ok U env h hm h.items 0 vt ho hdi
  refine ⟨vt', by rw [histo_fullRender_eq]; exact hf, ho', hm, hdi, ?_, hmc, hkc⟩
  intro i k v hi
  have := hrows i k v hi
  rwa [Nat.zero_add] at this

theorem histo_afterLine_items (env : Env) (h : Histo) (n : Nat) (key : Bytes) (val : Int) (hn : n < h.items.length)
    (i : Nat) (k : Bytes) (v : Int) (hi : (h.afterLine env n key val).items[i]? = some (some (k, v))) :
    (i = n ∧ k = key ∧ v = val) ∨ (i ≠ n ∧ h.items[i]? = some (some (k, v))) := by
  unfold Histo.afterLine at hi
  simp only at hi
  by_cases e : i = n
  · subst e
    rw [getElem?_set_self' _ _ _ hn] at hi
    cases hi
    exact Or.inl ⟨rfl, rfl, rfl⟩
  · rw [getElem?_set_ne' _ _ _ _ e] at hi
    exact Or.inr ⟨e, hi⟩

/-- `WriteForLine(n, key, val)`, `n < len(items)`, preserves the invariant: either everything is redrawn with
the new key width / maximum, or nothing but the line changed and the other lines are still current -/
theorem histo_writeForLine_inv (U : UnitLaws A Dom Unit le) (env : Env) (h : Histo) (vt : VirtualTerm) (hinv : HistoInv A Dom env h vt)
    (n : Nat) (key : Bytes) (val : Int) (hd : Dom val) (hn : n < h.items.length) :
    ∃ vt', h.writeForLine A env vt (n : Int) key val = .ok (h.afterLine env n key val, vt') ∧
      HistoInv A Dom env (h.afterLine env n key val) vt' := by
  rw [histo_writeForLine_unfold env h vt n key val hn]
  have hm1 : Dom (h.afterLine env n key val).maxVal := by
    show Dom (if val > h.maxVal then val else h.maxVal)
    split
    · exact hd
    · exact hinv.dom_max
  have hdi1 : ∀ (i : Nat) (k : Bytes) (v : Int), (h.afterLine env n key val).items[i]? = some (some (k, v)) → Dom v := by
    intro i k v hi
    rcases histo_afterLine_items env h n key val hn i k v hi with ⟨_, _, rfl⟩ | ⟨_, h'⟩
    · exact hd
    · exact hinv.dom_items i k v h'
  have hmc1 : ∀ (i : Nat) (k : Bytes) (v : Int), (h.afterLine env n key val).items[i]? = some (some (k, v)) → v ≤ (h.afterLine env n key val).maxVal := by
    intro i k v hi
    show v ≤ (if val > h.maxVal then val else h.maxVal)
    rcases histo_afterLine_items env h n key val hn i k v hi with ⟨_, _, rfl⟩ | ⟨_, h'⟩
    · split <;> omega
    · have := hinv.max_cover i k v h'
      split <;> omega
  have hkc1 : ∀ (i : Nat) (k : Bytes) (v : Int), (h.afterLine env n key val).items[i]? = some (some (k, v)) →
      strLen env k ≤ (h.afterLine env n key val).textSpacing := by
    intro i k v hi
    show strLen env k ≤ (if strLen env key > h.textSpacing then strLen env key else h.textSpacing)
    rcases histo_afterLine_items env h n key val hn i k v hi with ⟨_, rfl, _⟩ | ⟨_, h'⟩
    · split <;> omega
    · have := hinv.key_cover i k v h'
      split <;> omega
  by_cases need : strLen env key > h.textSpacing ∨ val > h.maxVal
  · rw [if_pos need]
    obtain ⟨vt', hf, hinv'⟩ := histo_fullRender_inv U env (h.afterLine env n key val) vt hinv.isOpen hm1 hdi1 hmc1 hkc1
    exact ⟨vt', by rw [hf]; rfl, hinv'⟩
  · rw [if_neg need]
    have e : h.afterLine env n key val = { h with items := h.items.set n (some (key, val)) } := by
      unfold Histo.afterLine
      rw [if_neg (by omega), if_neg (by omega)]
    rw [histo_writeLine_eq U env _ vt n key val hd hm1]
    obtain ⟨vt', hw, ho', hl, hk⟩ := vt_write_ok vt hinv.isOpen n ((h.afterLine env n key val).lineText A env key val)
    refine ⟨vt', by rw [hw]; rfl, ho', hm1, hdi1, ?_, hmc1, hkc1⟩
    intro i k v hi
    rcases histo_afterLine_items env h n key val hn i k v hi with ⟨rfl, rfl, rfl⟩ | ⟨hne, h'⟩
    · exact hl
    · rw [e, histo_lineText_items]
      exact hk i _ hne (hinv.drawn i k v h')

/-- a line number at or beyond the end of the histogram is ignored -/
theorem histo_writeForLine_beyond (env : Env) (h : Histo) (vt : VirtualTerm) (n : Nat) (key : Bytes) (val : Int) (hn : h.items.length ≤ n) :
    h.writeForLine A env vt (n : Int) key val = .ok (h, vt) := by
  unfold Histo.writeForLine
  rw [if_pos (by omega)]; rfl

/-- `UpdateTotal(total)` preserves the invariant (everything is redrawn with the new total) -/
theorem histo_updateTotal_inv (U : UnitLaws A Dom Unit le) (env : Env) (h : Histo) (vt : VirtualTerm) (hinv : HistoInv A Dom env h vt) (total : Int) :
    ∃ vt', h.updateTotal A env vt total = .ok ({ h with total := total }, vt') ∧ HistoInv A Dom env { h with total := total } vt' := by
  obtain ⟨vt', hf, hinv'⟩ := histo_fullRender_inv U env { h with total := total } vt hinv.isOpen hinv.dom_max hinv.dom_items hinv.max_cover hinv.key_cover
  refine ⟨vt', ?_, hinv'⟩
  unfold Histo.updateTotal
  simp only [bind, Except.bind, hf]; rfl

/-! ### every sequence of calls -/

/- `HistoOp`, `Histo.applyOp`, `Histo.runOps` (a call on a `HistoWriter`, a sequence of calls) are in `Rare/Model/C14.lean`; the driver runs them. -/

/-- the call is one the float instance handles: the value is in its domain.  ANY line number is fine (after 4855857 a
line at or beyond `len(items)` is ignored; before, `line == len(items)` indexed out of range and had to be excluded here) -/
def HistoOp.Valid (Dom : Int → Prop) : HistoOp → Prop
  | .line _ _ val => Dom val
  | .total _ => True

/-- the writer's state after a call (a pure function of the call) -/
def Histo.stateAfter (env : Env) (h : Histo) : HistoOp → Histo
  | .line n key val => if n < h.items.length then h.afterLine env n key val else h
  | .total t => { h with total := t }

def Histo.stateAfterAll (env : Env) (h : Histo) (ops : List HistoOp) : Histo := ops.foldl (Histo.stateAfter env) h

theorem histo_stateAfter_line (env : Env) (h : Histo) (n : Nat) (key : Bytes) (val : Int) :
    h.stateAfter env (.line n key val) = if n < h.items.length then h.afterLine env n key val else h := rfl

theorem histo_afterLine_config (env : Env) (h : Histo) (n : Nat) (key : Bytes) (val : Int) :
    h.SameConfig (h.afterLine env n key val) ∧ h.maxVal ≤ (h.afterLine env n key val).maxVal ∧
      h.textSpacing ≤ (h.afterLine env n key val).textSpacing := by
  refine ⟨⟨rfl, rfl, rfl, rfl, by simp [Histo.afterLine]⟩, ?_, ?_⟩
  · show h.maxVal ≤ (if val > h.maxVal then val else h.maxVal); split <;> omega
  · show h.textSpacing ≤ (if strLen env key > h.textSpacing then strLen env key else h.textSpacing); split <;> omega

theorem histo_stateAfter_config (env : Env) (h : Histo) (op : HistoOp) :
    h.SameConfig (h.stateAfter env op) ∧ h.maxVal ≤ (h.stateAfter env op).maxVal ∧ h.textSpacing ≤ (h.stateAfter env op).textSpacing := by
  cases op with
  | line n key val =>
    rw [histo_stateAfter_line]
    split
    · exact histo_afterLine_config env h n key val
    · exact ⟨Histo.SameConfig.refl h, Int.le_refl _, Int.le_refl _⟩
  | total t => exact ⟨⟨rfl, rfl, rfl, rfl, rfl⟩, Int.le_refl _, Int.le_refl _⟩

/-- the settings never change, the running maximum and the key column only grow -/
theorem histo_stateAfterAll_config (env : Env) : ∀ (ops : List HistoOp) (h : Histo),
    h.SameConfig (h.stateAfterAll env ops) ∧ h.maxVal ≤ (h.stateAfterAll env ops).maxVal ∧
      h.textSpacing ≤ (h.stateAfterAll env ops).textSpacing := by
  intro ops
  induction ops with
  | nil => intro h; exact ⟨Histo.SameConfig.refl h, Int.le_refl _, Int.le_refl _⟩
  | cons op rest ih =>
    intro h
    obtain ⟨c1, m1, t1⟩ := histo_stateAfter_config env h op
    obtain ⟨c2, m2, t2⟩ := ih (h.stateAfter env op)
    exact ⟨c1.trans c2, Int.le_trans m1 m2, Int.le_trans t1 t2⟩

theorem histo_applyOp_inv (U : UnitLaws A Dom Unit le) (env : Env) (h : Histo) (vt : VirtualTerm) (hinv : HistoInv A Dom env h vt)
    (op : HistoOp) (hv : op.Valid Dom) :
    ∃ vt', Histo.applyOp A env (h, vt) op = .ok (h.stateAfter env op, vt') ∧ HistoInv A Dom env (h.stateAfter env op) vt' := by
  cases op with
  | line n key val =>
    have hd : Dom val := hv
    rw [histo_stateAfter_line]
    by_cases hn : n < h.items.length
    · rw [if_pos hn]
      exact histo_writeForLine_inv U env h vt hinv n key val hd hn
    · rw [if_neg hn]
      exact ⟨vt, histo_writeForLine_beyond env h vt n key val (by omega), hinv⟩
  | total t => exact histo_updateTotal_inv U env h vt hinv t

/-- the redraw invariant is preserved by EVERY sequence of `WriteForLine` / `UpdateTotal` calls -/
theorem histo_runOps_inv (U : UnitLaws A Dom Unit le) (env : Env) : ∀ (ops : List HistoOp) (h : Histo) (vt : VirtualTerm),
    HistoInv A Dom env h vt → (∀ op ∈ ops, op.Valid Dom) →
    ∃ vt', Histo.runOps A env (h, vt) ops = .ok (h.stateAfterAll env ops, vt') ∧ HistoInv A Dom env (h.stateAfterAll env ops) vt' := by
  intro ops
  induction ops with
  | nil => intro h vt hinv _; exact ⟨vt, rfl, hinv⟩
  | cons op rest ih =>
    intro h vt hinv hv
    obtain ⟨vt1, h1, hinv1⟩ := histo_applyOp_inv U env h vt hinv op (hv op (by simp))
    obtain ⟨vt2, h2, hinv2⟩ := ih (h.stateAfter env op) vt1 hinv1 (by
      intro o ho; exact hv o (by simp [ho]))
    refine ⟨vt2, ?_, hinv2⟩
    unfold Histo.runOps
    rw [List.foldlM_cons, h1]
    exact h2

/-- a new histogram on an empty terminal satisfies the invariant -/
theorem histo_new_inv (U : UnitLaws A Dom Unit le) (env : Env) (maxLines : Int) (showBar showPct : Bool) (scaler : Scaler) (fmt : Fmt) (h : Histo)
    (hn : Histo.new maxLines showBar showPct scaler fmt = .ok h) :
    HistoInv A Dom env h VirtualTerm.new ∧ (h.items.length : Int) = maxLines ∧ h.maxVal = 0 := by
  unfold Histo.new makeSlice at hn
  split at hn
  · cases hn
  · rename_i hml
    cases hn
    have hnone : ∀ (i : Nat) (k : Bytes) (v : Int), (List.replicate maxLines.toNat (none : Option (Bytes × Int)))[i]? ≠ some (some (k, v)) := by
      intro i k v hi
      have := List.mem_of_getElem? hi
      simp at this
    refine ⟨⟨rfl, U.dom_zero, ?_, ?_, ?_, ?_⟩, by simp; omega, rfl⟩ <;> intro i k v hi <;> exact absurd hi (hnone i k v)

/-! ### a render: `writeHistoOutput` of cmd/histo.go -/

/-- the `WriteForLine` calls of one render: the displayed items on the lines `b, b+1, …` -/
def histoLineOps (b : Nat) (l : List (Bytes × Int)) : List HistoOp := (l.zipIdx b).map fun p => HistoOp.line p.2 p.1.1 p.1.2

/-- the items a render displays: those with at least `atLeast` samples, in the sorted order -/
def histoShown (items : List (Bytes × Int)) (atLeast : Int) : List (Bytes × Int) := items.filter fun it => decide (it.2 ≥ atLeast)

/-- the calls of one render -/
def histoOutputOps (items : List (Bytes × Int)) (total atLeast : Int) : List HistoOp :=
  HistoOp.total total :: histoLineOps 0 (histoShown items atLeast)

theorem histoLineOps_cons (b : Nat) (it : Bytes × Int) (l : List (Bytes × Int)) :
    histoLineOps b (it :: l) = HistoOp.line b it.1 it.2 :: histoLineOps (b + 1) l := by
  simp [histoLineOps, List.zipIdx_cons]

theorem histo_stateAfterAll_cons (env : Env) (h : Histo) (op : HistoOp) (ops : List HistoOp) :
    h.stateAfterAll env (op :: ops) = (h.stateAfter env op).stateAfterAll env ops := rfl

/-- the rows stored after the `WriteForLine` calls of a render: line `b + i` holds the `i`-th displayed item -/
theorem histo_lineOps_items (env : Env) : ∀ (l : List (Bytes × Int)) (b : Nat) (h : Histo), b + l.length ≤ h.items.length →
    (∀ (i : Nat) (it : Bytes × Int), l[i]? = some it → (h.stateAfterAll env (histoLineOps b l)).items[b + i]? = some (some it)) ∧
    (∀ j, j < b → (h.stateAfterAll env (histoLineOps b l)).items[j]? = h.items[j]?) := by
  intro l
  induction l with
  | nil => intro b h _; exact ⟨by intro i it hi; simp at hi, fun j _ => rfl⟩
  | cons it l ih =>
    intro b h hb
    simp only [List.length_cons] at hb
    rw [histoLineOps_cons, histo_stateAfterAll_cons, histo_stateAfter_line, if_pos (by omega)]
    have hlen : (h.afterLine env b it.1 it.2).items.length = h.items.length := by simp [Histo.afterLine]
    obtain ⟨i1, i2⟩ := ih (b + 1) (h.afterLine env b it.1 it.2) (by rw [hlen]; omega)
    constructor
    · intro i x hi
      cases i with
      | zero =>
        simp at hi; subst hi
        simp only [Nat.add_zero]
        rw [i2 b (by omega)]
        show (h.items.set b (some (it.1, it.2)))[b]? = _
        rw [getElem?_set_self' _ _ _ (by omega)]
      | succ i =>
        have := i1 i x (by simpa using hi)
        rwa [show b + 1 + i = b + (i + 1) by omega] at this
    · intro j hj
      rw [i2 j (by omega)]
      show (h.items.set b (some (it.1, it.2)))[j]? = _
      rw [getElem?_set_ne' _ _ _ _ (by omega)]

/-- the item loop of `writeHistoOutput` from a state satisfying the invariant -/
theorem histo_loop_inv (U : UnitLaws A Dom Unit le) (env : Env) (atLeast : Int) : ∀ (items : List (Bytes × Int)) (h : Histo) (vt : VirtualTerm) (b : Nat),
    HistoInv A Dom env h vt → (∀ it ∈ items, Dom it.2) → b + (histoShown items atLeast).length ≤ h.items.length →
    ∃ vt', items.foldlM (fun (s : Histo × VirtualTerm × Int) (it : Bytes × Int) =>
        if it.2 ≥ atLeast then do
          let (h, vt) ← s.1.writeForLine A env s.2.1 s.2.2 it.1 it.2
          pure (h, vt, s.2.2 + 1)
        else pure s) (h, vt, (b : Int)) =
          .ok (h.stateAfterAll env (histoLineOps b (histoShown items atLeast)), vt', ((b + (histoShown items atLeast).length : Nat) : Int)) ∧
      HistoInv A Dom env (h.stateAfterAll env (histoLineOps b (histoShown items atLeast))) vt' := by
  intro items
  induction items with
  | nil => intro h vt b hinv _ _; exact ⟨vt, rfl, hinv⟩
  | cons it rest ih =>
    intro h vt b hinv hdom hb
    rw [List.foldlM_cons]
    by_cases hge : it.2 ≥ atLeast
    · have hs : histoShown (it :: rest) atLeast = it :: histoShown rest atLeast := by simp [histoShown, hge]
      rw [hs] at hb ⊢
      simp only [List.length_cons] at hb
      obtain ⟨vt1, hw, hinv1⟩ := histo_writeForLine_inv U env h vt hinv b it.1 it.2 (hdom it (by simp)) (by omega)
      have hlen : (h.afterLine env b it.1 it.2).items.length = h.items.length := by simp [Histo.afterLine]
      obtain ⟨vt2, hf, hinv2⟩ := ih (h.afterLine env b it.1 it.2) vt1 (b + 1) hinv1 (fun x hx => hdom x (by simp [hx])) (by rw [hlen]; omega)
      refine ⟨vt2, ?_, ?_⟩
      · simp only [if_pos hge, hw, bind, Except.bind, pure, Except.pure]
        rw [histoLineOps_cons, histo_stateAfterAll_cons, histo_stateAfter_line, if_pos (by omega)]
        have e1 : ((b : Int) + 1) = ((b + 1 : Nat) : Int) := by omega
        have e2 : b + (histoShown rest atLeast).length.succ = b + 1 + (histoShown rest atLeast).length := by omega
        rw [e1, List.length_cons, e2]
        exact hf
      · rw [histoLineOps_cons, histo_stateAfterAll_cons, histo_stateAfter_line, if_pos (by omega)]
        exact hinv2
    · have hs : histoShown (it :: rest) atLeast = histoShown rest atLeast := by simp [histoShown, hge]
      rw [hs] at hb ⊢
      obtain ⟨vt2, hf, hinv2⟩ := ih h vt b hinv (fun x hx => hdom x (by simp [hx])) hb
      refine ⟨vt2, ?_, hinv2⟩
      simp only [if_neg hge, bind, Except.bind, pure, Except.pure]
      exact hf

/-- ONE RENDER (`writeHistoOutput`), from any state satisfying the invariant – in particular after any number of
earlier renders: it returns, the invariant holds again, the state is the one after `UpdateTotal` and one
`WriteForLine` per displayed item -/
theorem histo_writeOutput_inv (U : UnitLaws A Dom Unit le) (env : Env) (h : Histo) (vt : VirtualTerm) (hinv : HistoInv A Dom env h vt)
    (items : List (Bytes × Int)) (total atLeast : Int) (hdom : ∀ it ∈ items, Dom it.2)
    (hfit : (histoShown items atLeast).length ≤ h.items.length) :
    ∃ vt', h.writeOutput A env vt items total atLeast = .ok (h.stateAfterAll env (histoOutputOps items total atLeast), vt') ∧
      HistoInv A Dom env (h.stateAfterAll env (histoOutputOps items total atLeast)) vt' := by
  obtain ⟨vt1, hu, hinv1⟩ := histo_updateTotal_inv U env h vt hinv total
  obtain ⟨vt2, hl, hinv2⟩ := histo_loop_inv U env atLeast items { h with total := total } vt1 0 hinv1 hdom (by simpa using hfit)
  refine ⟨vt2, ?_, hinv2⟩
  unfold Histo.writeOutput
  have e0 : ((0 : Nat) : Int) = 0 := rfl
  rw [e0] at hl
  simp only [bind, Except.bind, pure, Except.pure] at hl
  simp only [hu, bind, Except.bind, pure, Except.pure]
  rw [hl]
  rfl

/-! ### what a line drawn with the current state looks like -/

/-- the bar of a line: the glyphs of `BarWrite(Scale(val, 0, maxVal), 50)` – at most 50 -/
theorem histo_bar_shape (U : UnitLaws A Dom Unit le) (env : Env) (h : Histo) (val : Int) (hd : Dom val) (hm : Dom h.maxVal) :
    ∃ rs, barWriteR A env (scale A h.scaler val 0 h.maxVal) 50 = .ok rs ∧ h.barBytes A env val = rs.flatMap encodeRune ∧
      (rs.length : Int) = glyphCount A env 50 (scale A h.scaler val 0 h.maxVal) ∧ rs.length ≤ 50 := by
  have hu := U.scale_unit h.scaler hd U.dom_zero hm
  obtain ⟨rs, hrs, hl⟩ := U.barWriteR_ok env hu (maxLen := 50) (by omega) (by omega)
  have hle := (U.glyphCount_le env hu (maxLen := 50) (by omega) (by omega)).2
  refine ⟨rs, hrs, ?_, hl, by omega⟩
  unfold Histo.barBytes barWrite
  rw [hrs]; rfl

/-- the line: key column, `Formatter(val, 0, maxVal)` for the CURRENT maximum, percentage, bar -/
theorem histo_lineText_shape (env : Env) (h : Histo) (key : Bytes) (val : Int) :
    ∃ tail, h.lineText A env key val = h.lineHead env key val ++ tail ∧
      (h.showBar = true ∧ h.maxVal > 0 → ∃ mid, tail = mid ++ [32] ++ colorWrite env cBlue (h.barBytes A env val)) ∧
      (¬ (h.showBar = true ∧ h.maxVal > 0) → tail = if h.showPct = true ∧ h.total > 0 then [32] ++ wrap env cCyan pctText else []) := by
  unfold Histo.lineText Histo.lineHead
  by_cases hb : h.showBar = true ∧ h.maxVal > 0
  · by_cases hp : h.showPct = true ∧ h.total > 0
    · exact ⟨[32] ++ wrap env cCyan pctText ++ [32] ++ colorWrite env cBlue (h.barBytes A env val), by simp [hb, hp, List.append_assoc],
        fun _ => ⟨[32] ++ wrap env cCyan pctText, rfl⟩, fun hn => absurd hb hn⟩
    · exact ⟨[32] ++ colorWrite env cBlue (h.barBytes A env val), by simp [hb, hp, List.append_assoc],
        fun _ => ⟨[], rfl⟩, fun hn => absurd hb hn⟩
  · by_cases hp : h.showPct = true ∧ h.total > 0
    · exact ⟨[32] ++ wrap env cCyan pctText, by simp [hb, hp, List.append_assoc], fun hh => absurd hh hb, fun _ => by simp [hp]⟩
    · exact ⟨[], by simp [hb, hp], fun hh => absurd hh hb, fun _ => by simp [hp]⟩

/-- bars of one histogram are proportional: a larger value never has fewer glyphs -/
theorem histo_bars_monotone (U : UnitLaws A Dom Unit le) (env : Env) (h : Histo) (val val' : Int) (hd : Dom val) (hd' : Dom val') (hm : Dom h.maxVal)
    (hvv : val ≤ val') :
    glyphCount A env 50 (scale A h.scaler val 0 h.maxVal) ≤ glyphCount A env 50 (scale A h.scaler val' 0 h.maxVal) :=
  U.glyphCount_mono env (U.scale_unit h.scaler hd U.dom_zero hm) (U.scale_unit h.scaler hd' U.dom_zero hm)
    (U.scale_mono h.scaler hd hd' U.dom_zero hm hvv) (by omega) (by omega)

end
end Rare.C14
