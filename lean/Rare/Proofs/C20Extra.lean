import Rare.Proofs.C20Inv
/-! C20: helper lemmas for the buffered writer, and the concrete history used by the non-vacuity
examples of `Props/C20`. -/
namespace Rare.C20

theorem getD_set_pad (lines : List Bytes) (n i : Nat) (t : Bytes) :
    ((lines ++ List.replicate (n + 1 - lines.length) []).set n t).getD i [] =
      if i = n then t else lines.getD i [] := by
  have hlen : n < (lines ++ List.replicate (n + 1 - lines.length) ([] : Bytes)).length := by simp; omega
  by_cases h : i = n
  · subst h
    rw [List.getD_eq_getElem?_getD, List.getElem?_set_self hlen]; simp
  · simp only [h, if_false, List.getD_eq_getElem?_getD]
    rw [List.getElem?_set_ne (by omega)]
    by_cases hi : i < lines.length
    · rw [List.getElem?_append_left hi]
    · rw [List.getElem?_append_right (by omega)]
      have : lines[i]? = none := List.getElem?_eq_none (by omega)
      rw [this]
      by_cases hi2 : i - lines.length < n + 1 - lines.length
      · simp [hi2]
      · simp [hi2]

/-- the line store agrees with the history: latest text per line, empty for gaps -/
def VInv (hist : List (Nat × Bytes)) (v : VirtualTerm) : Prop :=
  v.closed = false ∧ (∀ i : Nat, v.lines.getD i [] = (latest hist i).getD []) ∧
  (∀ u ∈ hist, u.1 < v.lines.length) ∧ (∀ i : Nat, v.lines.length ≤ i → latest hist i = none)

theorem vrun : ∀ (rest hist : List (Nat × Bytes)) (v : VirtualTerm), VInv hist v →
    ∃ v', v.runHistory (castHist rest) = .ok v' ∧ VInv (hist ++ rest) v' := by
  intro rest
  induction rest with
  | nil => intro hist v h; exact ⟨v, rfl, by simpa using h⟩
  | cons u rest ih =>
    intro hist v ⟨hcl, hget, hlen, hnone⟩
    let v1 : VirtualTerm := { v with lines := (v.lines ++ List.replicate (u.1 + 1 - v.lines.length) []).set u.1 u.2 }
    have hstep : v.writeForLine (u.1 : Int) u.2 = .ok v1 := by
      simp [VirtualTerm.writeForLine, hcl, v1]
    have hl1 : v1.lines.length = max v.lines.length (u.1 + 1) := by simp [v1]; omega
    have inv1 : VInv (hist ++ [u]) v1 := by
      refine ⟨hcl, ?_, ?_, ?_⟩
      · intro i
        show ((v.lines ++ List.replicate (u.1 + 1 - v.lines.length) []).set u.1 u.2).getD i [] = _
        rw [getD_set_pad, latest_snoc]
        by_cases h : i = u.1
        · subst h; simp
        · have h' : ¬ u.1 = i := fun e => h e.symm
          simp only [h, h', if_false]; exact hget i
      · intro x hx
        simp only [List.mem_append, List.mem_singleton] at hx
        rcases hx with hx | hx
        · have := hlen x hx; omega
        · subst hx; omega
      · intro i hi
        rw [latest_snoc]
        have h' : ¬ u.1 = i := by omega
        simp only [h', if_false]
        exact hnone i (by omega)
    obtain ⟨v', hrun, inv'⟩ := ih (hist ++ [u]) v1 inv1
    refine ⟨v', ?_, by simpa using inv'⟩
    simp only [castHist, List.map_cons, VirtualTerm.runHistory, hstep]
    exact hrun

theorem list_eq_range_getD (l : List Bytes) : l = (List.range l.length).map (fun i => l.getD i []) := by
  apply List.ext_getElem
  · simp
  · intro i h1 h2
    simp [List.getD_eq_getElem?_getD, h1]

/-- "abcdefg" (wider than 4 columns) -/
def exLong : Bytes := [97, 98, 99, 100, 101, 102, 103]
/-- ESC[31m é 世 ESC[0m – colour codes and multi-byte runes -/
def exColour : Bytes := [0x1b, 0x5b, 0x33, 0x31, 0x6d, 0xc3, 0xa9, 0xe4, 0xb8, 0x96, 0x1b, 0x5b, 0x30, 0x6d]
/-- "xy" -/
def exShort : Bytes := [120, 121]

/-- line 1 long, line 0 coloured (jump up), line 1 rewritten shorter (jump down), gap at line 2, line 3 -/
def exHist : List (Nat × Bytes) := [(1, exLong), (0, exColour), (1, exShort), (3, exShort)]

theorem exLong_ok (trim : Bool) (h : trim = true) : TextOK 4 trim exLong :=
  ⟨[.ch 97, .ch 98, .ch 99, .ch 100, .ch 101, .ch 102, .ch 103],
   by intro t ht; simp at ht; rcases ht with rfl | rfl | rfl | rfl | rfl | rfl | rfl <;> (show _ ∧ _; omega),
   by decide, by intro h'; rw [h] at h'; cases h'⟩

theorem exColour_ok (trim : Bool) : TextOK 4 trim exColour :=
  ⟨[.sgr [91, 51, 49], .ch 233, .ch 0x4e16, .sgr [91, 48]],
   by
     intro t ht; simp at ht
     rcases ht with rfl | rfl | rfl | rfl
     · exact ⟨[51, 49], rfl, by decide⟩
     · show _ ∧ _; omega
     · show _ ∧ _; omega
     · exact ⟨[48], rfl, by decide⟩,
   by decide, by intro _; exact ⟨by decide, by unfold ValidUtf8; decide⟩⟩

theorem exShort_ok (trim : Bool) : TextOK 4 trim exShort :=
  ⟨[.ch 120, .ch 121], by intro t ht; simp at ht; rcases ht with rfl | rfl <;> (show _ ∧ _; omega),
   by decide, by intro _; exact ⟨by decide, by unfold ValidUtf8; decide⟩⟩

end Rare.C20
