import Rare.Proofs.C09Fuel
import Rare.Proofs.C09Split
/-! C09: compile errors (unterminated / empty statement / unknown function) and braced statements. -/
namespace Rare.C09
open Rare Rare.Expr

/-- What `Compile` does after its rune loop. -/
def finishC (opt : Bool) (t : List Char) (st : CompSt) : Except String (List Stage × List CErr) :=
  let errs := if st.inStatement ≠ 0
    then st.errs ++ [⟨.unterminated, t.drop st.startStatement, st.startStatement⟩] else st.errs
  let stages := if st.sb.isEmpty then st.stages else st.stages ++ [Stage.lit (charsToBytes st.sb)]
  if opt then
    match optimize stages with
    | .error m => .error m
    | .ok s => .ok (s, errs)
  else .ok (stages, errs)

theorem compileF_eq (fuel : Nat) (reg : Registry) (opt : Bool) (t : List Char) :
    compileF (fuel + 1) reg opt t =
      match compileLoop fuel reg opt t t 0 ⟨[], [], [], 0, 0⟩ with
      | .error m => .error m
      | .ok st => finishC opt t st := by
  rw [compileF]; rfl

/-! ### unterminated -/

theorem loop_depth (fuel : Nat) (reg : Registry) (opt : Bool) (all : List Char) :
    ∀ (m : Nat) (rest : List Char) (i : Nat) (st st' : CompSt), rest.length ≤ m →
      compileLoop fuel reg opt all rest i st = .ok st' →
      st'.inStatement = braceDepth false st.inStatement rest := by
  intro m
  induction m with
  | zero =>
    intro rest i st st' hm h
    have : rest = [] := List.length_eq_zero_iff.mp (by omega)
    subst this; rw [loop_nil] at h; cases h; simp [braceDepth]
  | succ m ih =>
    intro rest i st st' hm h
    cases rest with
    | nil => rw [loop_nil] at h; cases h; simp [braceDepth]
    | cons r rest =>
      simp only [List.length_cons] at hm
      by_cases h1 : r = '\\'
      · subst h1
        cases rest with
        | nil => rw [loop_esc_last] at h; cases h; simp [braceDepth]
        | cons e rest =>
          simp only [List.length_cons] at hm
          rw [loop_esc] at h
          have := ih _ _ _ _ (by omega) h
          simpa [braceDepth] using this
      · by_cases h2 : r = '{'
        · subst h2
          by_cases h0 : st.inStatement = 0
          · rw [loop_open0 _ _ _ _ _ _ _ h0] at h
            have := ih _ _ _ _ (by omega) h
            simpa [braceDepth, h0] using this
          · rw [loop_openN _ _ _ _ _ _ _ h0] at h
            have := ih _ _ _ _ (by omega) h
            simpa [braceDepth] using this
        · by_cases h3 : r = '}' ∧ st.inStatement ≠ 0
          · obtain ⟨h3, h4⟩ := h3
            subst h3
            by_cases h5 : st.inStatement = 1
            · rw [loop_close1 _ _ _ _ _ _ _ h5] at h
              cases hc : closeStatement fuel reg opt all i st with
              | error e => rw [hc] at h; cases h
              | ok st2 =>
                rw [hc] at h
                have := ih _ _ _ _ (by omega) h
                simpa [braceDepth, h5] using this
            · rw [loop_closeN _ _ _ _ _ _ _ (by omega)] at h
              have := ih _ _ _ _ (by omega) h
              simpa [braceDepth] using this
          · have h3' : r ≠ '}' ∨ st.inStatement = 0 := by
              by_cases hr : r = '}'
              · right; exact Classical.byContradiction fun hc => h3 ⟨hr, hc⟩
              · left; exact hr
            rw [loop_plain _ _ _ _ _ _ _ _ h1 h2 h3'] at h
            have := ih _ _ _ _ (by omega) h
            rcases h3' with h3' | h3'
            · simpa [braceDepth, h1, h2, h3'] using this
            · by_cases hr : r = '}'
              · simpa [braceDepth, h1, h2, hr, h3'] using this
              · simpa [braceDepth, h1, h2, hr] using this

theorem finishC_errs {opt : Bool} {t : List Char} {st : CompSt} {stages : List Stage} {errs : List CErr}
    (h : finishC opt t st = .ok (stages, errs)) :
    errs = if st.inStatement ≠ 0
      then st.errs ++ [⟨.unterminated, t.drop st.startStatement, st.startStatement⟩] else st.errs := by
  unfold finishC at h
  cases opt with
  | false =>
    simp only [Bool.false_eq_true, if_false] at h
    cases h; rfl
  | true =>
    simp only [if_true] at h
    split at h
    · cases h
    · cases h; rfl

theorem compileF_unterminated (fuel : Nat) (reg : Registry) (opt : Bool) (t : List Char)
    (stages : List Stage) (errs : List CErr)
    (h : compileF (fuel + 1) reg opt t = .ok (stages, errs)) (hu : Unterminated t) :
    ∃ e ∈ errs, e.kind = .unterminated := by
  rw [compileF_eq] at h
  cases hl : compileLoop fuel reg opt t t 0 ⟨[], [], [], 0, 0⟩ with
  | error m => rw [hl] at h; cases h
  | ok st =>
    rw [hl] at h
    have hd := loop_depth fuel reg opt t t.length t 0 _ st (Nat.le_refl _) hl
    have he := finishC_errs h
    have hne : st.inStatement ≠ 0 := by rw [hd]; exact hu
    rw [if_pos hne] at he
    exact ⟨⟨.unterminated, t.drop st.startStatement, st.startStatement⟩, by rw [he]; simp, rfl⟩

/-! ### braced statements -/

section
variable (fuel : Nat) (reg : Registry) (opt : Bool)

/-- A braced statement whose body is `Inner` text reaches `closeStatement` with exactly that body. -/
theorem compileF_braced {body : List Char} (hi : Inner body) :
    ∃ j, compileF (fuel + 1) reg opt ('{' :: (body ++ ['}'])) =
      match closeStatement fuel reg opt ('{' :: (body ++ ['}'])) j ⟨[], [], body, 0, 1⟩ with
      | .error m => .error m
      | .ok st' => finishC opt ('{' :: (body ++ ['}'])) { st' with sb := [], inStatement := 0 } := by
  obtain ⟨j, hj⟩ := loop_inner fuel reg opt ('{' :: (body ++ ['}'])) hi ['}'] 1 ⟨[], [], [], 0, 1⟩ (Nat.le_refl _)
  refine ⟨j, ?_⟩
  rw [compileF_eq, loop_open0 _ _ _ _ _ _ _ rfl]
  simp only [List.isEmpty_nil, if_true]
  rw [hj, loop_close1 _ _ _ _ _ _ _ rfl]
  simp only [List.nil_append]
  cases closeStatement fuel reg opt ('{' :: (body ++ ['}'])) j ⟨[], [], body, 0, 1⟩ with
  | error m => rfl
  | ok st' => simp [loop_nil]

theorem close_empty (all : List Char) (i : Nat) (st : CompSt) (hs : splitArgs st.sb = []) :
    closeStatement fuel reg opt all i st =
      .ok { st with errs := st.errs ++ [⟨.emptyStatement,
        (all.drop st.startStatement).take (i + 1 - st.startStatement), st.startStatement⟩] } := by
  rw [closeStatement]; simp [hs]

theorem close_var (all : List Char) (i : Nat) (st : CompSt) (a : List Char) (hs : splitArgs st.sb = [a]) :
    closeStatement fuel reg opt all i st = .ok { st with stages := st.stages ++ [stageSimpleVariable a] } := by
  rw [closeStatement]; simp [hs]

theorem close_missing (all : List Char) (i : Nat) (st : CompSt) (name b : List Char) (r : List (List Char))
    (hs : splitArgs st.sb = name :: b :: r) (hr : reg name = none) :
    closeStatement fuel reg opt all i st =
      .ok { st with stages := st.stages ++ [missingLit name],
                    errs := st.errs ++ [⟨.missingFunction, st.sb, st.startStatement⟩] } := by
  rw [closeStatement]; simp [hs, hr]

theorem close_call (all : List Char) (i : Nat) (st : CompSt) (name b : List Char) (r : List (List Char))
    (f : Builder) (cargs : List Stage) (stage : Stage)
    (hs : splitArgs st.sb = name :: b :: r) (hr : reg name = some f)
    (ha : compileArgs fuel reg opt (b :: r) = .ok (cargs, [])) (hf : f cargs = .ok ⟨some stage, none⟩) :
    closeStatement fuel reg opt all i st = .ok { st with stages := st.stages ++ [stage] } := by
  rw [closeStatement]; simp [hs, hr, ha, hf]

end

/-! ### text that is `Inner` -/

theorem inner_append {a b : List Char} (ha : Inner a) (hb : Inner b) : Inner (a ++ b) := by
  induction ha with
  | nil => simpa using hb
  | char c t hc _ ih => exact Inner.char c _ hc ih
  | quoted q t hp _ ih =>
    have : ['"'] ++ q ++ ['"'] ++ t ++ b = ['"'] ++ q ++ ['"'] ++ (t ++ b) := by simp
    rw [this]; exact Inner.quoted q _ hp ih
  | braces x t hx _ _ ih =>
    have : ['{'] ++ x ++ ['}'] ++ t ++ b = ['{'] ++ x ++ ['}'] ++ (t ++ b) := by simp
    rw [this]; exact Inner.braces x _ hx ih

theorem inner_of_plain {t : List Char} (h : plain t = true) : Inner t := by
  induction t with
  | nil => exact Inner.nil
  | cons c t ih =>
    simp only [plain, List.all_cons, Bool.and_eq_true, Bool.not_eq_true'] at h
    exact Inner.char c t h.1 (ih (by simpa [plain] using h.2))

theorem plain_of_space {w : List Char} (h : allSpace w = true) : plain w = true := by
  simp only [allSpace, plain, List.all_eq_true] at *
  intro c hc
  simp [space_not_special (h c hc)]

theorem plain_of_bare {w : List Char} (h : bare w = true) : plain w = true := by
  simp only [bare, Bool.and_eq_true, List.all_eq_true] at h
  simp only [plain, List.all_eq_true]
  intro c hc
  exact (h.2 c hc).1

theorem inner_piece {p : Piece} (h : p.ok) : Inner p.text := by
  cases p with
  | bare w => exact inner_of_plain (plain_of_bare h)
  | quoted q =>
    have := Inner.quoted q [] h Inner.nil
    simpa [Piece.text] using this
  | braced b =>
    have := Inner.braces b [] h Inner.nil
    simpa [Piece.text] using this

theorem inner_layout (l : List (List Char × Piece)) : ∀ first, LayoutOk first l → Inner (layout l) := by
  induction l with
  | nil => intro _ _; exact Inner.nil
  | cons wp rest ih =>
    intro first h
    obtain ⟨w, p⟩ := wp
    obtain ⟨hw, _, hp, hrest⟩ := h
    simp only [layout]
    exact inner_append (inner_append (inner_of_plain (plain_of_space hw)) (inner_piece hp)) (ih false hrest)

/-! ### `{}` and `{   }` -/

theorem compileF_empty_statement (fuel : Nat) (reg : Registry) (opt : Bool) (w : List Char) (hw : allSpace w = true) :
    ∃ ctx, compileF (fuel + 1) reg opt ('{' :: (w ++ ['}'])) = .ok ([], [⟨.emptyStatement, ctx, 0⟩]) := by
  obtain ⟨j, hj⟩ := compileF_braced fuel reg opt (inner_of_plain (plain_of_space hw))
  have hs : splitArgs w = [] := by
    have := splitArgs_layout [] w trivial hw
    simpa [layout] using this
  rw [hj, close_empty fuel reg opt _ j ⟨[], [], w, 0, 1⟩ hs]
  refine ⟨(('{' :: (w ++ ['}'])).drop 0).take (j + 1 - 0), ?_⟩
  cases opt <;> simp [finishC, optimize, optimizeGo]

/-! ### unknown function -/

theorem optimize_single_lit (b : Bytes) :
    ∃ st, optimize [Stage.lit b] = .ok st ∧ ∀ ctx, (buildKey st).run ctx = .ok b := by
  by_cases hb : b.isEmpty
  · refine ⟨[], by simp [optimize, optimizeGo, Stage.lit, Comp.probe, Comp.probeN, hb], fun ctx => ?_⟩
    have : b = [] := by simpa using hb
    rw [this]; rfl
  · refine ⟨[Stage.lit b], by simp [optimize, optimizeGo, Stage.lit, Comp.probe, Comp.probeN, hb], fun ctx => ?_⟩
    rw [buildKey, run_concat_single]; rfl

theorem compileF_missing_function (fuel : Nat) (reg : Registry) (opt : Bool)
    (w0 name : List Char) (w1 : List Char) (p1 : Piece) (rest : List (List Char × Piece)) (trail : List Char)
    (hl : LayoutOk true ((w0, .bare name) :: (w1, p1) :: rest)) (ht : allSpace trail = true)
    (hr : reg name = none) :
    ∃ st, compileF (fuel + 1) reg opt
        ('{' :: ((layout ((w0, .bare name) :: (w1, p1) :: rest) ++ trail) ++ ['}'])) =
      .ok (st, [⟨.missingFunction, layout ((w0, .bare name) :: (w1, p1) :: rest) ++ trail, 0⟩]) ∧
      ∀ ctx, (buildKey st).run ctx = .ok (utf8 ("<Err:".toList ++ name ++ ">".toList)) := by
  have hin : Inner (layout ((w0, .bare name) :: (w1, p1) :: rest) ++ trail) :=
    inner_append (inner_layout _ true hl) (inner_of_plain (plain_of_space ht))
  obtain ⟨j, hj⟩ := compileF_braced fuel reg opt hin
  have hs : splitArgs (layout ((w0, .bare name) :: (w1, p1) :: rest) ++ trail) =
      name :: p1.value :: rest.map (·.2.value) := splitArgs_layout _ trail hl ht
  rw [hj, close_missing fuel reg opt _ j ⟨[], [], _, 0, 1⟩ name _ _ hs hr]
  have hlit : missingLit name = Stage.lit (utf8 ("<Err:".toList ++ name ++ ">".toList)) := rfl
  cases opt with
  | false =>
    refine ⟨[missingLit name], by simp [finishC], fun ctx => ?_⟩
    rw [buildKey, run_concat_single, hlit]; rfl
  | true =>
    obtain ⟨st, h1, h2⟩ := optimize_single_lit (utf8 ("<Err:".toList ++ name ++ ">".toList))
    refine ⟨st, ?_, h2⟩
    simp only [finishC, List.nil_append, List.isEmpty_nil, if_true, hlit, h1]
    simp

end Rare.C09
