import Rare.Spec.C06Gzip
namespace Rare.C06.Gz

theorem crcUpdate_append (c : UInt32) (a b : Bytes) : crcUpdate (crcUpdate c a) b = crcUpdate c (a ++ b) := by
  simp [crcUpdate, List.foldl_append]

theorem readFull_append (a r : Bytes) : readFull a.length (a ++ r) = .ok (a, r) := by
  simp [readFull]

theorem le16_enc16 (n : Nat) (h : n < 65536) : le16 (enc16 n) = n := by
  simp [le16, enc16]
  omega

theorem enc16_length (n : Nat) : (enc16 n).length = 2 := rfl

theorem readString_enc : ∀ (name rest acc : Bytes) (i : Nat), (0 : UInt8) ∉ name → i + name.length ≤ 511 →
    readString (name ++ 0 :: rest) i acc = .ok (acc ++ name ++ [0], rest)
  | [], rest, acc, i, _, hl => by
    unfold readString
    have : ¬ i ≥ 512 := by simp at hl; omega
    simp [this]
  | b :: name, rest, acc, i, h0, hl => by
    unfold readString
    have : ¬ i ≥ 512 := by simp at hl; omega
    have hb : b ≠ 0 := by intro e; subst e; simp at h0
    have h0' : (0 : UInt8) ∉ name := by intro hm; exact h0 (by simp [hm])
    simp only [this, if_false, List.cons_append, hb]
    rw [readString_enc name rest (acc ++ [b]) (i + 1) h0' (by simp at hl; omega)]
    simp

theorem readString_sound : ∀ (s acc : Bytes) (i : Nat) (str r : Bytes), readString s i acc = .ok (str, r) →
    ∃ name, str = acc ++ name ++ [0] ∧ s = name ++ 0 :: r ∧ (0 : UInt8) ∉ name ∧ i + name.length ≤ 511
  | [], acc, i, str, r, h => by
    unfold readString at h
    split at h <;> simp at h
  | b :: s, acc, i, str, r, h => by
    unfold readString at h
    split at h
    · simp at h
    · rename_i hi
      simp only at h
      split at h
      · rename_i hb
        simp only [Except.ok.injEq, Prod.mk.injEq] at h
        exact ⟨[], by simp [← h.1, hb], by simp [← h.2, hb], by simp, by simp; omega⟩
      · rename_i hb
        obtain ⟨name, h1, h2, h3, h4⟩ := readString_sound s (acc ++ [b]) (i + 1) str r h
        refine ⟨b :: name, by simp [h1], by simp [h2], ?_, by simp; omega⟩
        intro hm
        rcases List.mem_cons.1 hm with e | e
        · exact hb e.symm
        · exact h3 e


/-! ### the optional fields as a writer lays them out -/

def encExtra (flg : UInt8) (extra : Bytes) : Bytes := if flg &&& flagExtra ≠ 0 then enc16 extra.length ++ extra else []
def encString (flg bit : UInt8) (str : Bytes) : Bytes := if flg &&& bit ≠ 0 then str ++ [0] else []
def encCrc (flg : UInt8) (dg : UInt32) : Bytes := if flg &&& flagHdrCrc ≠ 0 then enc16 (dg.toNat % 65536) else []

theorem stageExtra_enc (flg : UInt8) (extra rest : Bytes) (dg : UInt32) (hx : extra.length < 65536) :
    stageExtra flg (encExtra flg extra ++ rest) dg = .ok (rest, crcUpdate dg (encExtra flg extra)) := by
  unfold stageExtra encExtra
  by_cases hf : flg &&& flagExtra ≠ 0
  · simp only [if_pos hf, List.append_assoc]
    have h1 : readFull 2 (enc16 extra.length ++ (extra ++ rest)) = .ok (enc16 extra.length, extra ++ rest) :=
      readFull_append (enc16 extra.length) _
    simp only [h1, le16_enc16 _ hx, readFull_append, crcUpdate_append]
  · simp [hf, crcUpdate]

theorem stageString_enc (flg bit : UInt8) (str rest : Bytes) (dg : UInt32) (h0 : (0 : UInt8) ∉ str) (hl : str.length ≤ 511) :
    stageString flg bit (encString flg bit str ++ rest) dg = .ok (rest, crcUpdate dg (encString flg bit str)) := by
  unfold stageString encString
  by_cases hf : flg &&& bit ≠ 0
  · simp only [if_pos hf, List.append_assoc, List.singleton_append]
    rw [readString_enc str rest [] 0 h0 (by omega)]
    simp
  · simp [hf, crcUpdate]

theorem stageCrc_enc (flg : UInt8) (rest : Bytes) (dg : UInt32) :
    stageCrc flg (encCrc flg dg ++ rest) dg = .ok rest := by
  unfold stageCrc encCrc
  by_cases hf : flg &&& flagHdrCrc ≠ 0
  · simp only [if_pos hf]
    have h1 : readFull 2 (enc16 (dg.toNat % 65536) ++ rest) = .ok (enc16 (dg.toNat % 65536), rest) :=
      readFull_append (enc16 _) _
    have h2 : dg.toNat % 65536 < 65536 := Nat.mod_lt _ (by decide)
    simp [h1, le16_enc16 _ h2]
  · simp [hf]

theorem body_eq (h : Hdr) : h.body = [0x1f, 0x8b, 8, h.flg] ++ h.mid ++ encExtra h.flg h.extra ++
    encString h.flg flagName h.name ++ encString h.flg flagComment h.comment := rfl

theorem encode_eq (h : Hdr) : h.encode = h.body ++ encCrc h.flg (crcUpdate 0 h.body) := rfl

/-- every header a writer can produce is accepted, and the compressed data is found right behind it -/
theorem readHeaderRest_encode (h : Hdr) (hw : h.WF) (rest : Bytes) : readHeaderRest (h.encode ++ rest) = .ok rest := by
  obtain ⟨hm, hx, ⟨hn0, hnl⟩, ⟨hc0, hcl⟩⟩ := hw
  rw [encode_eq, body_eq]
  have h10 : ([0x1f, 0x8b, 8, h.flg] ++ h.mid : Bytes).length = 10 := by simp [hm]
  have hsplit : ([0x1f, 0x8b, 8, h.flg] ++ h.mid ++ encExtra h.flg h.extra ++ encString h.flg flagName h.name ++
        encString h.flg flagComment h.comment ++
        encCrc h.flg (crcUpdate 0 ([0x1f, 0x8b, 8, h.flg] ++ h.mid ++ encExtra h.flg h.extra ++
          encString h.flg flagName h.name ++ encString h.flg flagComment h.comment)) ++ rest : Bytes)
      = ([0x1f, 0x8b, 8, h.flg] ++ h.mid) ++ (encExtra h.flg h.extra ++ (encString h.flg flagName h.name ++
        (encString h.flg flagComment h.comment ++
        (encCrc h.flg (crcUpdate 0 ([0x1f, 0x8b, 8, h.flg] ++ h.mid ++ encExtra h.flg h.extra ++
          encString h.flg flagName h.name ++ encString h.flg flagComment h.comment)) ++ rest)))) := by
    simp only [List.append_assoc]
  rw [hsplit]
  unfold readHeaderRest
  have hrf := readFull_append ([0x1f, 0x8b, 8, h.flg] ++ h.mid) (encExtra h.flg h.extra ++ (encString h.flg flagName h.name ++
        (encString h.flg flagComment h.comment ++
        (encCrc h.flg (crcUpdate 0 ([0x1f, 0x8b, 8, h.flg] ++ h.mid ++ encExtra h.flg h.extra ++
          encString h.flg flagName h.name ++ encString h.flg flagComment h.comment)) ++ rest))))
  rw [h10] at hrf
  rw [hrf]
  have hg0 : ([0x1f, 0x8b, 8, h.flg] ++ h.mid : Bytes).getD 0 0 = 0x1f := rfl
  have hg1 : ([0x1f, 0x8b, 8, h.flg] ++ h.mid : Bytes).getD 1 0 = 0x8b := rfl
  have hg2 : ([0x1f, 0x8b, 8, h.flg] ++ h.mid : Bytes).getD 2 0 = 8 := rfl
  have hg3 : ([0x1f, 0x8b, 8, h.flg] ++ h.mid : Bytes).getD 3 0 = h.flg := rfl
  simp only [hg0, hg1, hg2, hg3, ne_eq, not_true_eq_false, or_self, if_false]
  rw [stageExtra_enc _ _ _ _ hx]
  simp only []
  rw [stageString_enc _ _ _ _ _ hn0 hnl]
  simp only []
  rw [stageString_enc _ _ _ _ _ hc0 hcl]
  simp only [crcUpdate_append]
  exact stageCrc_enc _ _ _


/-! ### … and nothing else is -/

theorem readFull_sound (n : Nat) (s a r : Bytes) (h : readFull n s = .ok (a, r)) : s = a ++ r ∧ a.length = n := by
  unfold readFull at h
  split at h
  · rename_i hn
    simp only [Except.ok.injEq, Prod.mk.injEq] at h
    rw [← h.1, ← h.2]
    exact ⟨(List.take_append_drop n s).symm, by simp; omega⟩
  · split at h <;> cases h

theorem two_bytes (l : Bytes) (h : l.length = 2) : l = enc16 (le16 l) ∧ le16 l < 65536 := by
  match l, h with
  | [x, y], _ =>
    have hx := x.toNat_lt
    have hy := y.toNat_lt
    have e1 : (x.toNat + 256 * y.toNat) % 256 = x.toNat := by omega
    have e2 : (x.toNat + 256 * y.toNat) / 256 = y.toNat := by omega
    constructor
    · simp [le16, enc16, e1, e2]
    · simp [le16]; omega

theorem stageExtra_sound (flg : UInt8) (r r' : Bytes) (dg dg' : UInt32) (h : stageExtra flg r dg = .ok (r', dg')) :
    ∃ extra, extra.length < 65536 ∧ r = encExtra flg extra ++ r' ∧ dg' = crcUpdate dg (encExtra flg extra) := by
  unfold stageExtra at h
  by_cases hf : flg &&& flagExtra ≠ 0
  · simp only [if_pos hf] at h
    cases h1 : readFull 2 r with
    | error e => simp [h1] at h
    | ok p =>
      obtain ⟨l, r1⟩ := p
      simp only [h1] at h
      cases h2 : readFull (le16 l) r1 with
      | error e => simp [h2] at h
      | ok q =>
        obtain ⟨data, r2⟩ := q
        simp only [h2, Except.ok.injEq, Prod.mk.injEq] at h
        obtain ⟨hs1, hl1⟩ := readFull_sound _ _ _ _ h1
        obtain ⟨hs2, hl2⟩ := readFull_sound _ _ _ _ h2
        obtain ⟨he, hlt⟩ := two_bytes l hl1
        refine ⟨data, by omega, ?_, ?_⟩
        · unfold encExtra
          simp only [if_pos hf, hl2, ← he]
          rw [hs1, hs2, h.1]; simp
        · unfold encExtra
          simp only [if_pos hf, hl2, ← he]
          rw [← h.2, crcUpdate_append]
  · simp only [if_neg hf, Except.ok.injEq, Prod.mk.injEq] at h
    exact ⟨[], by simp, by simp [encExtra, if_neg hf, h.1], by simp [encExtra, if_neg hf, crcUpdate, h.2]⟩

theorem stageString_sound (flg bit : UInt8) (r r' : Bytes) (dg dg' : UInt32) (h : stageString flg bit r dg = .ok (r', dg')) :
    ∃ str, (0 : UInt8) ∉ str ∧ str.length ≤ 511 ∧ r = encString flg bit str ++ r' ∧ dg' = crcUpdate dg (encString flg bit str) := by
  unfold stageString at h
  by_cases hf : flg &&& bit ≠ 0
  · simp only [if_pos hf] at h
    cases h1 : readString r 0 [] with
    | error e => simp [h1] at h
    | ok p =>
      obtain ⟨str, r1⟩ := p
      simp only [h1, Except.ok.injEq, Prod.mk.injEq] at h
      obtain ⟨name, e1, e2, h0, hl⟩ := readString_sound _ _ _ _ _ h1
      refine ⟨name, h0, by omega, ?_, ?_⟩
      · simp only [encString, if_pos hf]; rw [e2, h.1]; simp
      · simp only [encString, if_pos hf]; rw [← h.2, e1]; simp
  · simp only [if_neg hf, Except.ok.injEq, Prod.mk.injEq] at h
    exact ⟨[], by simp, by simp, by simp [encString, if_neg hf, h.1], by simp [encString, if_neg hf, crcUpdate, h.2]⟩

theorem stageCrc_sound (flg : UInt8) (r r' : Bytes) (dg : UInt32) (h : stageCrc flg r dg = .ok r') :
    r = encCrc flg dg ++ r' := by
  unfold stageCrc at h
  by_cases hf : flg &&& flagHdrCrc ≠ 0
  · simp only [if_pos hf] at h
    cases h1 : readFull 2 r with
    | error e => simp [h1] at h
    | ok p =>
      obtain ⟨c, r1⟩ := p
      simp only [h1] at h
      split at h
      · cases h
      · rename_i hc
        simp only [Except.ok.injEq] at h
        obtain ⟨hs1, hl1⟩ := readFull_sound _ _ _ _ h1
        obtain ⟨he, _⟩ := two_bytes c hl1
        have hc' : le16 c = dg.toNat % 65536 := by simpa using hc
        simp only [encCrc, if_pos hf, ← hc', ← he]
        rw [hs1, h]
  · simp only [if_neg hf, Except.ok.injEq] at h
    simp [encCrc, if_neg hf, h]

/-- whatever `readHeader` accepts is a header as a writer lays it out (FLG as found, reserved bits and all) -/
theorem readHeaderRest_sound (s rest : Bytes) (h : readHeaderRest s = .ok rest) :
    ∃ hd : Hdr, hd.WF ∧ s = hd.encode ++ rest := by
  unfold readHeaderRest at h
  cases h0 : readFull 10 s with
  | error e => simp [h0] at h
  | ok p =>
    obtain ⟨h10, r0⟩ := p
    simp only [h0] at h
    obtain ⟨hs0, hl0⟩ := readFull_sound _ _ _ _ h0
    split at h
    · cases h
    · rename_i hmagic
      simp only [not_or, ne_eq, Decidable.not_not] at hmagic
      cases h1 : stageExtra (h10.getD 3 0) r0 (crcUpdate 0 h10) with
      | error e => simp only [h1] at h; cases h
      | ok p1 =>
        obtain ⟨r1, dg1⟩ := p1
        simp only [h1] at h
        cases h2 : stageString (h10.getD 3 0) flagName r1 dg1 with
        | error e => simp only [h2] at h; cases h
        | ok p2 =>
          obtain ⟨r2, dg2⟩ := p2
          simp only [h2] at h
          cases h3 : stageString (h10.getD 3 0) flagComment r2 dg2 with
          | error e => simp only [h3] at h; cases h
          | ok p3 =>
            obtain ⟨r3, dg3⟩ := p3
            simp only [h3] at h
            obtain ⟨extra, hx, e1, d1⟩ := stageExtra_sound _ _ _ _ _ h1
            obtain ⟨name, hn0, hnl, e2, d2⟩ := stageString_sound _ _ _ _ _ _ h2
            obtain ⟨comment, hc0, hcl, e3, d3⟩ := stageString_sound _ _ _ _ _ _ h3
            have e4 := stageCrc_sound _ _ _ _ h
            match h10, hl0, hmagic with
            | [b0, b1, b2, flg, m0, m1, m2, m3, m4, m5], _, hmagic =>
              simp only [List.getD_cons_zero, List.getD_cons_succ] at hmagic e1 d1 e2 d2 e3 d3 e4
              obtain ⟨hb0, hb1, hb2⟩ := hmagic
              subst hb0 hb1 hb2
              refine ⟨⟨flg, [m0, m1, m2, m3, m4, m5], extra, name, comment⟩, ⟨rfl, hx, ⟨hn0, hnl⟩, ⟨hc0, hcl⟩⟩, ?_⟩
              rw [encode_eq, body_eq]
              simp only []
              rw [hs0, e1, e2, e3, e4, d3, d2, d1]
              simp only [crcUpdate_append, List.append_assoc, List.cons_append, List.nil_append]

end Rare.C06.Gz
