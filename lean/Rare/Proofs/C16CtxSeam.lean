import Rare.Proofs.C16Seam
import Rare.Proofs.C16Ctx
/-! C16's model of the whole `GetKey` (`Ctx.getKey`) and C02's (`C02.getKey`) are one function. -/
namespace Rare.C16

theorem arrayGo_done (half i : Nat) (get : Nat → Except String Bytes) (hlt : ¬ i < half) (n : Nat) :
    C02.arrayGo get half n i = .ok [] := by
  cases n with
  | zero => simp [C02.arrayGo]
  | succ n => simp [C02.arrayGo, hlt]

/-- the left fold of `Ctx.array` and the fuelled loop of C02's `array`, over an abstract `GetMatch` -/
theorem arrayStep_fold (c : Ctx) (get : Nat → Except String Bytes)
    (hget : ∀ i : Nat, c.getMatch (i : Nat) = get i) (half : Nat) :
    ∀ (k i : Nat) (sb : Bytes) (n : Nat), k ≤ n → i + k = half →
      (List.range' i k).foldlM (arrayStep c) sb = (C02.arrayGo get half n i).map (sb ++ ·) := by
  intro k
  induction k with
  | zero =>
    intro i sb n _ hik
    rw [arrayGo_done half i get (by omega) n]
    simp [Except.map, pure, Except.pure]
  | succ k ih =>
    intro i sb n hn hik
    obtain ⟨n', rfl⟩ : ∃ n', n = n' + 1 := ⟨n - 1, by omega⟩
    have hlt : i < half := by omega
    have hstep : arrayStep c sb i = (get i).map (fun v => (if 1 < i then sb ++ [0] else sb) ++ v) := by
      unfold arrayStep
      rw [hget]
      cases get i <;> rfl
    rw [List.range'_succ, List.foldlM_cons, hstep, C02.arrayGo, if_pos hlt]
    cases hg : get i with
    | error e => simp only [Except.map, bind, Except.bind]
    | ok v =>
      simp only [Except.map, bind, Except.bind]
      rw [ih (i + 1) _ n' (by omega) (by omega)]
      cases C02.arrayGo get half n' (i + 1) with
      | error e => simp only [Except.map]
      | ok rest =>
        simp only [Except.map]
        by_cases h1 : 1 < i
        · simp [h1]
        · simp [h1]

theorem ctx_array_eq_c02 (c : Ctx) : c.array = C02.array c.linePtr c.indices := by
  unfold Ctx.array C02.array
  rw [List.range_eq_range', List.drop_range']
  have hget : ∀ i : Nat, c.getMatch (i : Nat) = (fun i : Nat => C02.getMatch c.linePtr c.indices (i : Nat)) i :=
    fun i => getMatch_eq_c02 c.indices c.linePtr i
  generalize (fun i : Nat => C02.getMatch c.linePtr c.indices (i : Nat)) = get at hget
  by_cases h0 : c.indices.length / 2 = 0
  · rw [h0]; simp [C02.arrayGo, pure, Except.pure]
  · have := arrayStep_fold c get hget (c.indices.length / 2) (c.indices.length / 2 - 1) 1 []
      (c.indices.length / 2) (by omega) (by omega)
    simp only [Nat.zero_add] at this ⊢
    rw [this]
    cases C02.arrayGo get (c.indices.length / 2) (c.indices.length / 2) 1 <;> simp [Except.map]

end Rare.C16
