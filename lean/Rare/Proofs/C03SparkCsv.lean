import Rare.Proofs.C03Spark
import Rare.Proofs.C03Cmd
/-! The CSV text (and the whole command result) of `rare spark` as a function of the CELLS of the final table: the
name-ordered sorters of `csv.WriteTable` never look at the row sums / column totals they are handed, so two tables with
the same cells, row set and column set export the same text – which turns `spark_final` (same cells after any
interleaving of samples and render-trims) into a statement about the `--csv` file. -/
namespace Rare.C03
open Rare.C07 Rare.C13

/-! ### the row map keeps duplicate-free keys under `Sample` and `Trim` -/

theorem trimCell_ndr (p : Pred) (c : Bytes) (st : Table × Nat × Bool) (rn : Bytes) (h : (akeys st.1.rows).Nodup) :
    (akeys (Table.trimCell p c st rn).1.rows).Nodup := by
  obtain ⟨t, n, ra⟩ := st
  unfold Table.trimCell
  simp only
  split
  · exact h
  · split
    · split
      · split
        · exact akeys_adel_nodup _ _ h
        · exact nodup_aset _ _ _ h
      · split
        · exact akeys_adel_nodup _ _ h
        · exact nodup_aset _ _ _ h
    · split
      · exact akeys_adel_nodup _ _ h
      · exact nodup_aset _ _ _ h

theorem trimCol_ndr (p : Pred) (L : List Bytes) (st : Table × Nat) (c : Bytes) (h : (akeys st.1.rows).Nodup) :
    (akeys (Table.trimCol p L st c).1.rows).Nodup := by
  unfold Table.trimCol
  split
  · exact h
  · have := foldl_keeps (Table.trimCell p c) (fun s => (akeys s.1.rows).Nodup)
      (fun s b hs => trimCell_ndr p c s b hs) L (st.1, st.2, true) h
    simp only
    split
    · exact this
    · exact this

theorem trim_ndr (t : Table) (p : Pred) (co : List Bytes) (ro : Bytes → List Bytes) (h : (akeys t.rows).Nodup) :
    (akeys (t.trim p co ro).1.rows).Nodup := by
  unfold Table.trim
  exact foldl_keeps (fun st c => Table.trimCol p (ro c) st c) (fun s => (akeys s.1.rows).Nodup)
    (fun s b hs => trimCol_ndr p (ro b) s b hs) co (t, 0) h

theorem sampleItem_ndr (t : Table) (c r : Bytes) (inc : Int) (h : (akeys t.rows).Nodup) :
    (akeys (t.sampleItem c r inc).rows).Nodup := by
  unfold Table.sampleItem
  exact nodup_aset _ _ _ h

theorem sample_ndr (t : Table) (e : Bytes) (h : (akeys t.rows).Nodup) : (akeys (t.sample e).rows).Nodup := by
  unfold Table.sample
  simp only
  split
  · split
    · exact h
    · exact sampleItem_ndr _ _ _ _ h
  · split <;> exact sampleItem_ndr _ _ _ _ h

theorem sparkTrim_nd (n : Nat) (t : Table) (hr : (akeys t.rows).Nodup) (hc : (akeys t.cols).Nodup) :
    (akeys (sparkTrim n t).rows).Nodup ∧ (akeys (sparkTrim n t).cols).Nodup := by
  rw [sparkTrim_eq]; unfold renderStep; split
  · exact ⟨trim_ndr _ _ _ _ hr, trim_nd _ _ _ _ hc⟩
  · exact ⟨hr, hc⟩

theorem sparkRun_nd (n : Nat) (d : Bytes) (evs : List SparkEv) :
    (akeys (sparkRun n d evs).rows).Nodup ∧ (akeys (sparkRun n d evs).cols).Nodup := by
  unfold sparkRun
  apply foldl_keeps (sparkStep n) (fun t => (akeys t.rows).Nodup ∧ (akeys t.cols).Nodup)
  · intro t ev ⟨hr, hc⟩
    cases ev with
    | sample e => exact ⟨sample_ndr t e hr, sample_nd t e hc⟩
    | render => exact sparkTrim_nd n t hr hc
  · simp [akeys]

theorem renderStep_nd (n : Nat) (t : Table) (s co : List Bytes) (ro : Bytes → List Bytes)
    (hr : (akeys t.rows).Nodup) (hc : (akeys t.cols).Nodup) :
    (akeys (renderStep n t s co ro).rows).Nodup ∧ (akeys (renderStep n t s co ro).cols).Nodup := by
  unfold renderStep; split
  · exact ⟨trim_ndr _ _ _ _ hr, trim_nd _ _ _ _ hc⟩
  · exact ⟨hr, hc⟩

/-- every table a `spark` run can hold – any interleaving of samples and render steps with any sorted column lists and
map iteration orders – has duplicate-free row and column keys (they are Go maps) -/
theorem reach_nd {lt : Bytes → Bytes → Bool} {n : Nat} {d : Bytes} {h : List Bytes} {t : Table}
    (hr : SparkReach lt n d h t) : (akeys t.rows).Nodup ∧ (akeys t.cols).Nodup := by
  induction hr with
  | init => simp [akeys]
  | sample h t e _ ih => exact ⟨sample_ndr t e ih.1, sample_nd t e ih.2⟩
  | render h t s co ro _ _ _ ih => exact renderStep_nd n t s co ro ih.1 ih.2

/-! ### `csv.WriteTable` looks at names and cells only -/

theorem ins_name (x : Bytes) (v : Int) : ∀ l : List NV,
    (ins nvNameLess (⟨x, v⟩ : NV) l).map (·.name) = ins bytesLt x (l.map (·.name))
  | [] => rfl
  | y :: ys => by
    unfold ins
    rw [nvNameLess_eq]
    simp only [List.map_cons]
    split
    · rfl
    · simp only [List.map_cons, ins_name x v ys]

/-- sorting rows by name and reading the names off is sorting the names – whatever values the rows carry -/
theorem isort_names (f : Bytes → Int) : ∀ o : List Bytes,
    (isort nvNameLess (o.map fun k => (⟨k, f k⟩ : NV))).map (·.name) = isort bytesLt o
  | [] => rfl
  | x :: xs => by
    simp only [List.map_cons, isort]
    rw [ins_name, isort_names f xs]

theorem bytesLt_orderOn (P : Bytes → Prop) : OrderOn P bytesLt :=
  (bytesLt_strictTotal.mono (fun _ _ => trivial)).toOrderOn

/-- the cell `WriteTable` prints: `row.Value(col)` of an existing row, 0 otherwise -/
theorem cellD_eq (t : Table) (r c : Bytes) :
    ((aget t.rows r).map (·.value c)).getD 0 = (t.cell c r).getD 0 := by
  unfold Table.cell TableRow.value
  cases aget t.rows r with
  | none => rfl
  | some row => rfl

/-- `WriteTable` with the reference sort, spelled with names and cells only. -/
theorem tableCsvRows_names (co ro : List Bytes) (t : Table) :
    tableCsvRows isortFn co ro t =
      ([] :: isort bytesLt co) ::
        (isort bytesLt ro).map fun r => r :: (isort bytesLt co).map fun c => itoa ((t.cell c r).getD 0) := by
  unfold tableCsvRows tableRows isortFn
  simp only [isort_names]
  rw [← isort_names (fun r => ((aget t.rows r).map (·.sum)).getD 0) ro, List.map_map]
  simp only [cellD_eq]
  rfl

/-- The CSV rows of a table are a function of its cells, its row set and its column set, whatever the map iteration
orders.  (Row sums and column totals – which a `Trim` may leave behind differently – are handed to the name sorters but
never looked at.) -/
theorem tableCsvRows_of_cells_ref (t₁ t₂ : Table)
    (hcell : ∀ c r, t₁.cell c r = t₂.cell c r)
    (hrows : ∀ r, (aget t₁.rows r).isSome = (aget t₂.rows r).isSome)
    (hcols : ∀ c, (aget t₁.cols c).isSome = (aget t₂.cols c).isSome)
    (co₁ co₂ ro₁ ro₂ : List Bytes) (hco₁ : IsRangeOf co₁ t₁.cols) (hco₂ : IsRangeOf co₂ t₂.cols)
    (hro₁ : IsRangeOf ro₁ t₁.rows) (hro₂ : IsRangeOf ro₂ t₂.rows) :
    tableCsvRows isortFn co₁ ro₁ t₁ = tableCsvRows isortFn co₂ ro₂ t₂ := by
  rw [tableCsvRows_names, tableCsvRows_names]
  have pc : co₁.Perm co₂ := range_perm hco₁ hco₂ hcols
  have pr : ro₁.Perm ro₂ := range_perm hro₁ hro₂ hrows
  rw [isort_perm_invariant hco₁.1 (bytesLt_orderOn _) pc, isort_perm_invariant hro₁.1 (bytesLt_orderOn _) pr]
  simp only [hcell]

/-- … and for every contract-abiding `sort.Sort`. -/
theorem tableCsvRows_of_cells (alg : List NV → Algo NV (List NV)) (hc : SortContract alg) (t₁ t₂ : Table)
    (hcell : ∀ c r, t₁.cell c r = t₂.cell c r)
    (hrows : ∀ r, (aget t₁.rows r).isSome = (aget t₂.rows r).isSome)
    (hcols : ∀ c, (aget t₁.cols c).isSome = (aget t₂.cols c).isSome)
    (co₁ co₂ ro₁ ro₂ : List Bytes) (hco₁ : IsRangeOf co₁ t₁.cols) (hco₂ : IsRangeOf co₂ t₂.cols)
    (hro₁ : IsRangeOf ro₁ t₁.rows) (hro₂ : IsRangeOf ro₂ t₂.rows) :
    tableCsvRows (sortOf alg) co₁ ro₁ t₁ = tableCsvRows isortFn co₂ ro₂ t₂ := by
  have own : tableCsvRows (sortOf alg) co₁ ro₁ t₁ = tableCsvRows isortFn co₁ ro₁ t₁ := by
    have c1 := sorted_rows_eq alg hc nvNameLess nvNameLess_order co₁ co₁ t₁.colTotal t₁.colTotal hco₁.1 (List.Perm.refl _) (fun _ _ => rfl)
    have w1 := sorted_rows_eq alg hc nvNameLess nvNameLess_order ro₁ ro₁ (fun r => ((aget t₁.rows r).map (·.sum)).getD 0)
      (fun r => ((aget t₁.rows r).map (·.sum)).getD 0) hro₁.1 (List.Perm.refl _) (fun _ _ => rfl)
    simp only [tableCsvRows, tableRows, c1, w1, isortFn]
  rw [own]
  exact tableCsvRows_of_cells_ref t₁ t₂ hcell hrows hcols co₁ co₂ ro₁ ro₂ hco₁ hco₂ hro₁ hro₂

/-- every record `WriteTable` writes has at least one field -/
theorem tableCsvRows_nonempty (srt : SortFn) (co ro : List Bytes) (t : Table) : ∀ r ∈ tableCsvRows srt co ro t, r ≠ [] := by
  intro r hr
  simp [tableCsvRows, tableRows] at hr
  rcases hr with rfl | ⟨_, _, rfl⟩ <;> simp

end Rare.C03
