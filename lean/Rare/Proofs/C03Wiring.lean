import Rare.Proofs.C03Det
import Rare.Proofs.C07Acc
import Rare.Model.C03Wiring
/-! Helper lemmas for the theorems about the regenerated wiring table (`Rare/Gen/C03.lean`). -/
namespace Rare.C03
open Rare.C07 Rare.C13

/-- C07's and C13's byte-wise string orders are one function (Go's `<` on strings). -/
theorem bLt_eq_bytesLt : bLt = bytesLt := by
  funext a b
  induction a generalizing b with
  | nil => cases b <;> rfl
  | cons x xs ih =>
    cases b with
    | nil => rfl
    | cons y ys =>
      simp only [bLt, bytesLt, ih ys]
      congr 1

/-- `DetermineErrorState` as an if-chain of the shape the translator emits. -/
theorem evalExitChain_model (readErrors : Int) (aggNil : Bool) (parseErrors matched : Nat) :
    evalExitChain [(.gt0 .readErrors, 2), (.and .aggNotNil (.gt0 .parseErrors), 2), (.eq0 .matchedLines, 1)] 0
      readErrors aggNil parseErrors matched = determineErrorState readErrors aggNil parseErrors matched := by
  cases aggNil <;> by_cases h1 : readErrors > 0 <;> by_cases h2 : parseErrors > 0 <;> by_cases h3 : matched = 0 <;>
    simp [evalExitChain, Cond.eval, Obs.eval, determineErrorState, h1, h2, h3]

end Rare.C03
