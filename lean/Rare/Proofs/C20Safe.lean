import Rare.Proofs.C20Main
import Rare.Proofs.C20Scr
/-! C20 round 2: the wider text class `TextSafe` (printable width-one runes, terminated colour
sequences, optionally an unterminated colour sequence at the very end; arbitrary bytes) through the
trimming scanner and through the reference terminal `Scr`. -/
namespace Rare.C20

/-! ### the scanner on a text that ends inside a colour sequence -/

/-- inner loop on an escape body without `m` that runs to the end of the text: everything is consumed -/
theorem trimGo_inner_end (E : Esc) (cols vis : Int) (b : List Rune) (hb : E.trimEnd ∉ b) :
    trimGo E cols true vis b = b.length := by
  induction b with
  | nil => simp [trimGo]
  | cons x b ih =>
    have hx : x ≠ E.trimEnd := fun h => hb (by simp [h])
    have hb' : E.trimEnd ∉ b := fun h => hb (by simp [h])
    by_cases hn : b = []
    · subst hn; simp [trimGo]
    · simp [trimGo, hx, hn, ih hb']; omega

/-- what the scanner keeps of the unterminated sequence at the end -/
def keptTail (cols : Int) : Int → List Tok → List Rune → List Rune
  | vis, [], tail => if vis < cols then tail else []
  | vis, t :: ts, tail =>
    if vis < cols then
      match t with
      | .ch _ => keptTail cols (vis + 1) ts tail
      | .sgr _ => keptTail cols vis ts tail
    else []

/-- a scanner tail: nothing, or the scanner's escape rune and a body without the end rune -/
def ScanTail (E : Esc) (tail : List Rune) : Prop := tail = [] ∨ ∃ b, tail = E.trimEsc :: b ∧ E.trimEnd ∉ b

theorem trimGo_toks_tail (E : Esc) (hE : E.trimEsc ≠ E.trimEnd) (cols : Int) (toks : List Tok) (tail : List Rune)
    (htail : ScanTail E tail) :
    ∀ vis : Int, (∀ t ∈ toks, TokScannable E t) →
    trimGo E cols false vis (rtoks E toks ++ tail) =
      (rtoks E (trimToks cols vis toks)).length + (keptTail cols vis toks tail).length := by
  induction toks with
  | nil =>
    intro vis _
    simp only [rtoks_nil, List.nil_append, trimToks, keptTail, List.length_nil, Nat.zero_add]
    rcases htail with h | ⟨b, h, hb⟩
    · subst h; simp [trimGo]
    · subst h
      by_cases hv : vis < cols
      · simp only [hv, if_true]
        by_cases hn : b = []
        · subst hn; simp [trimGo, hv, hE]
        · simp only [trimGo, hv, if_true, hE, ne_eq, not_false_eq_true, hn, and_self,
            trimGo_inner_end E cols vis b hb, List.length_cons]
          omega
      · simp [trimGo, hv]
  | cons t ts ih =>
    intro vis h
    have hts := fun t ht => h t (List.mem_cons_of_mem _ ht)
    have ht := h t (List.mem_cons_self)
    by_cases hv : vis < cols
    · cases t with
      | ch r =>
        have ht' : r ≠ E.trimEsc := ht
        have e1 : rtoks E (Tok.ch r :: ts) ++ tail = r :: (rtoks E ts ++ tail) := by simp [rtoks_cons, rtok]
        have e2 : trimToks cols vis (Tok.ch r :: ts) = Tok.ch r :: trimToks cols (vis + 1) ts := by
          simp [trimToks, hv]
        have e3 : keptTail cols vis (Tok.ch r :: ts) tail = keptTail cols (vis + 1) ts tail := by
          simp [keptTail, hv]
        rw [e1, e2, e3, rtoks_cons]
        simp only [trimGo, hv, if_true, ht', if_false, ih (vis + 1) hts, rtok, List.length_append, List.length_cons, List.length_nil]
        omega
      | sgr b =>
        have ht' : E.trimEnd ∉ b := ht
        have e1 : rtoks E (Tok.sgr b :: ts) ++ tail = E.trimEsc :: (b ++ E.trimEnd :: (rtoks E ts ++ tail)) := by
          simp [rtoks_cons, rtok]
        have e2 : trimToks cols vis (Tok.sgr b :: ts) = Tok.sgr b :: trimToks cols vis ts := by
          simp [trimToks, hv]
        have e3 : keptTail cols vis (Tok.sgr b :: ts) tail = keptTail cols vis ts tail := by
          simp [keptTail, hv]
        have hne : b ++ E.trimEnd :: (rtoks E ts ++ tail) ≠ [] := by simp
        rw [e1, e2, e3, rtoks_cons]
        simp only [trimGo, hv, if_true, hE, ne_eq, not_false_eq_true, hne, and_self, trimGo_inner E cols vis b _ ht',
          ih vis hts, rtok, List.length_append, List.length_cons, List.length_nil]
        omega
    · have e2 : trimToks cols vis (t :: ts) = [] := by simp [trimToks, hv]
      have e3 : keptTail cols vis (t :: ts) tail = [] := by simp [keptTail, hv]
      have : ∃ r R, rtoks E (t :: ts) ++ tail = r :: R := by
        cases t with
        | ch r => exact ⟨r, rtoks E ts ++ tail, by simp [rtoks_cons, rtok]⟩
        | sgr b => exact ⟨E.trimEsc, b ++ E.trimEnd :: (rtoks E ts ++ tail), by simp [rtoks_cons, rtok]⟩
      obtain ⟨r, R, hr⟩ := this
      rw [e2, e3, hr]; simp [trimGo, hv, rtoks_nil]

/-- the tail is kept whole (and then every token was kept), or not at all -/
theorem keptTail_cases (cols : Int) (toks : List Tok) (tail : List Rune) :
    ∀ vis, (keptTail cols vis toks tail = tail ∧ trimToks cols vis toks = toks) ∨ keptTail cols vis toks tail = [] := by
  induction toks with
  | nil => intro vis; by_cases hv : vis < cols <;> simp [keptTail, trimToks, hv]
  | cons t ts ih =>
    intro vis
    by_cases hv : vis < cols
    · cases t with
      | ch r =>
        rcases ih (vis + 1) with h | h
        · left; simp [keptTail, trimToks, hv, h.1, h.2]
        · right; simp [keptTail, hv, h]
      | sgr b =>
        rcases ih vis with h | h
        · left; simp [keptTail, trimToks, hv, h.1, h.2]
        · right; simp [keptTail, hv, h]
    · right; simp [keptTail, hv]

/-! ### the class -/

theorem safe_scannable (cw : Rune → Nat) (t : Tok) (h : t.Safe cw) : TokScannable handEsc t := by
  cases t with
  | ch r =>
    have h' : 32 ≤ r ∧ r ≠ 127 ∧ cw r = 1 := h
    show r ≠ 27
    omega
  | sgr b =>
    obtain ⟨p, hb, hp⟩ := h
    show (109 : Nat) ∉ b
    subst hb
    intro hm
    simp at hm
    have := hp 109 hm
    omega

theorem sgrTail_scanTail (tail : List Rune) (h : SgrTail tail) : ScanTail handEsc tail := by
  rcases h with h | h | ⟨p, h, hp⟩
  · exact Or.inl h
  · exact Or.inr ⟨[], h, by simp⟩
  · refine Or.inr ⟨91 :: p, h, ?_⟩
    intro hm
    simp only [List.mem_cons] at hm
    rcases hm with hm | hm
    · exact absurd hm (by decide)
    · have := hp _ hm
      have e : handEsc.trimEnd = 109 := rfl
      omega

/-- trimmed runes of a text of the class: the trimmed tokens, and the tail if there was room left -/
theorem trimRunes_safe (cw : Rune → Nat) (cols : Int) (toks : List Tok) (tail : List Rune)
    (h : ∀ t ∈ toks, t.Safe cw) (ht : SgrTail tail) :
    trimRunes handEsc cols (renderToks toks ++ tail) =
      renderToks (trimToks cols 0 toks) ++ keptTail cols 0 toks tail := by
  have hs : ∀ t ∈ toks, TokScannable handEsc t := fun t ht => safe_scannable cw t (h t ht)
  have := trimGo_toks_tail handEsc (by decide) cols toks tail (sgrTail_scanTail tail ht) 0 hs
  rw [rtoks_hand, rtoks_hand] at this
  unfold trimRunes
  rw [this]
  rcases keptTail_cases cols toks tail 0 with ⟨h1, h2⟩ | h1
  · rw [h1, h2, ← List.length_append, List.take_length]
  · rw [h1]
    obtain ⟨rest, hr⟩ := trimToks_prefix cols toks 0
    have : renderToks toks = renderToks (trimToks cols 0 toks) ++ renderToks rest := by
      conv => lhs; rw [hr]
      simp [renderToks]
    rw [this]; simp

theorem skipSgr_no_m (q : List Rune) (hq : (109 : Nat) ∉ q) : visibleRunes.skipSgr q = [] := by
  induction q with
  | nil => rfl
  | cons c q ih =>
    have hc : c ≠ 109 := fun h => hq (by simp [h])
    simp [visibleRunes.skipSgr, hc, ih (fun h => hq (by simp [h]))]

theorem visibleRunes_tail (tail : List Rune) (h : SgrTail tail) : visibleRunes tail = [] := by
  rcases h with h | h | ⟨p, h, hp⟩
  · subst h; rfl
  · subst h; rfl
  · subst h
    have : (109 : Nat) ∉ (91 :: p) := by
      intro hm
      simp only [List.mem_cons] at hm
      rcases hm with hm | hm
      · exact absurd hm (by decide)
      · have := hp _ hm; omega
    simp [visibleRunes, ESC, skipSgr_no_m _ this]

theorem visibleRunes_safe (cw : Rune → Nat) (toks : List Tok) (tail : List Rune)
    (h : ∀ t ∈ toks, t.Safe cw) (ht : SgrTail tail) :
    visibleRunes (renderToks toks ++ tail) = visToks toks := by
  induction toks with
  | nil => simp [renderToks, visToks, visibleRunes_tail tail ht]
  | cons t ts ih =>
    have ih' := ih (fun t ht => h t (by simp [ht]))
    have ht := h t (by simp)
    cases t with
    | ch r =>
      have h' : 32 ≤ r ∧ r ≠ 127 ∧ cw r = 1 := ht
      have : r ≠ ESC := by unfold ESC; omega
      simp [renderToks_cons, visToks_cons, Tok.render, Tok.vis, visibleRunes, this, ih']
    | sgr b =>
      obtain ⟨p, hb, hp⟩ := ht
      subst hb
      have hskip : ∀ (q : List Nat), (∀ c ∈ q, 48 ≤ c ∧ c ≤ 59) → ∀ R, visibleRunes.skipSgr (q ++ 109 :: R) = visibleRunes R := by
        intro q
        induction q with
        | nil => intro _ R; simp [visibleRunes.skipSgr]
        | cons c q ihq =>
          intro hq R
          have hc := hq c (by simp)
          have : c ≠ 109 := by omega
          simp [visibleRunes.skipSgr, this, ihq (fun x hx => hq x (by simp [hx]))]
      have h91 : (91 : Nat) ≠ 109 := by decide
      simp [renderToks_cons, visToks_cons, Tok.render, Tok.vis, visibleRunes, ESC, visibleRunes.skipSgr, h91, hskip p hp, ih']

theorem sgrTail_valid (tail : List Rune) (h : SgrTail tail) : ∀ r ∈ tail, validScalar r := by
  intro r hr
  rcases h with h | h | ⟨p, h, hp⟩
  · subst h; simp at hr
  · subst h; simp at hr; subst hr; unfold validScalar; omega
  · subst h
    simp only [List.mem_cons] at hr
    rcases hr with hr | hr | hr
    · subst hr; unfold validScalar; omega
    · subst hr; unfold validScalar; omega
    · have := hp _ hr; unfold validScalar; omega

/-- What `WriteLineNoWrap` writes for a text of the class: self-delimiting bytes that decode to
tokens of the class (plus possibly the unterminated sequence) whose visible part is exactly
`shown`, no longer than the width. -/
theorem piece_safe (cw : Rune → Nat) (W : Nat) (trim : Bool) (txt : Bytes) (h : TextSafe cw W trim txt) :
    ∃ (toks' : List Tok) (tail' : List Rune), (∀ t ∈ toks', t.Safe cw) ∧ SgrTail tail' ∧
      Clean (writeLineNoWrap handEsc trim W txt) ∧
      decodeUtf8 (writeLineNoWrap handEsc trim W txt) = renderToks toks' ++ tail' ∧
      visToks toks' = shown W trim txt ∧ (visToks toks').length ≤ W := by
  obtain ⟨toks, tail, hp, htl, hd, hfit⟩ := h
  cases trim with
  | false =>
    obtain ⟨hl, hv⟩ := hfit rfl
    refine ⟨toks, tail, hp, htl, ?_, ?_, ?_, hl⟩
    · simp only [writeLineNoWrap, Bool.not_false, if_true]
      rw [← hv]; exact Clean.encode _ (decodeUtf8_valid txt)
    · simpa [writeLineNoWrap] using hd
    · simp [shown, hd, visibleRunes_safe cw toks tail hp htl]
  | true =>
    have hkt : keptTail W 0 toks tail = tail ∨ keptTail W 0 toks tail = [] := by
      rcases keptTail_cases W toks tail 0 with h | h
      · exact Or.inl h.1
      · exact Or.inr h
    have htl' : SgrTail (keptTail W 0 toks tail) := by
      rcases hkt with h | h <;> rw [h]
      · exact htl
      · exact Or.inl rfl
    have hvalid : ∀ r ∈ renderToks (trimToks W 0 toks) ++ keptTail W 0 toks tail, validScalar r := by
      intro r hr
      simp only [List.mem_append] at hr
      rcases hr with hr | hr
      · obtain ⟨rest, hrest⟩ := trimToks_prefix W toks 0
        apply decodeUtf8_valid txt
        rw [hd, hrest]
        simp [renderToks] at hr ⊢
        exact Or.inl hr
      · exact sgrTail_valid _ htl' r hr
    have hw : writeLineNoWrap handEsc true W txt =
        encodeUtf8 (renderToks (trimToks W 0 toks) ++ keptTail W 0 toks tail) := by
      simp [writeLineNoWrap, hd, trimRunes_safe cw W toks tail hp htl]
    have hp' : ∀ t ∈ trimToks W 0 toks, t.Safe cw := fun t ht => hp t (trimToks_mem W toks 0 t ht)
    refine ⟨trimToks W 0 toks, keptTail W 0 toks tail, hp', htl', ?_, ?_, ?_, ?_⟩
    · rw [hw]; exact Clean.encode _ hvalid
    · rw [hw]; exact decodeUtf8_encodeUtf8 _ hvalid
    · have := visToks_trimToks W toks 0 (by omega)
      simp [shown, hd, visibleRunes_safe cw toks tail hp htl, this]
    · have := trimToks_vis_le W toks 0 (by omega)
      omega

/-! ### tokens through the terminal -/

theorem Scr.feed_toks (cw : Rune → Nat) (toks : List Tok) (hp : ∀ t ∈ toks, t.Safe cw) :
    ∀ (t : Scr), t.ps = .ground → t.feed (renderToks toks) = t.feed (visToks toks) := by
  induction toks with
  | nil => intro t _; rfl
  | cons k ks ih =>
    intro t h
    have hk := hp k (by simp)
    have ih' := ih (fun t ht => hp t (by simp [ht]))
    cases k with
    | ch r =>
      have h' : 32 ≤ r ∧ r ≠ 127 ∧ cw r = 1 := hk
      simp only [renderToks_cons, visToks_cons, Tok.render, Tok.vis, List.singleton_append, Scr.feed_cons]
      exact ih' _ (Scr.step_print_ps t h r ⟨h'.1, h'.2.1⟩)
    | sgr b =>
      obtain ⟨p, hb, hpp⟩ := hk
      subst hb
      have : t.feed (Tok.render (Tok.sgr (91 :: p))) = t := by
        have := Scr.feed_sgr t p hpp
        obtain ⟨w, ht, o, cw', rows, row, col, vis, ps⟩ := t
        simp only at h; subst h
        exact this
      rw [renderToks_cons, visToks_cons, Scr.feed_append, this]
      exact ih' t h

theorem toks_vis_safe (cw : Rune → Nat) (toks : List Tok) (hp : ∀ t ∈ toks, t.Safe cw) :
    ∀ r ∈ visToks toks, 32 ≤ r ∧ r ≠ 127 ∧ cw r = 1 := by
  intro r hr
  simp only [visToks, List.mem_flatMap] at hr
  obtain ⟨k, hk, hrk⟩ := hr
  cases k with
  | ch x =>
    simp [Tok.vis] at hrk; subst hrk
    exact hp _ hk
  | sgr b => simp [Tok.vis] at hrk

/-- write a line at the cursor (column 0) and erase the rest: the row is exactly the visible text,
also when the text ends inside a colour sequence (the erase sequence's ESC restarts the parser) -/
theorem Scr.feed_line (toks : List Tok) (tail : List Rune) (t : Scr) (hp : ∀ k ∈ toks, k.Safe t.cw)
    (htl : SgrTail tail) (h : t.ps = .ground) (hc : t.col = 0) (hfit : (visToks toks).length ≤ t.width) :
    t.feed (renderToks toks ++ tail ++ [27, 91, 48, 75]) =
      { t with rows := setRow t.rows t.row (visToks toks), col := (visToks toks).length } := by
  rw [Scr.feed_append, Scr.feed_append, Scr.feed_toks t.cw toks hp t h,
    Scr.feed_printables (visToks toks) t (toks_vis_safe t.cw toks hp) h (by omega)]
  obtain ⟨q, hq⟩ := Scr.feed_tail
    { t with rows := setRow t.rows t.row (writeCells (t.rows t.row) t.col (visToks toks)),
             col := t.col + (visToks toks).length } tail htl h
  rw [hq, Scr.feed_erase]
  obtain ⟨w, ht, o, cw, rows, row, col, vis, ps⟩ := t
  simp only at hc h; subst hc h
  have := writeCells_take (visToks toks) (rows row) 0 (by omega)
  simp only [Nat.zero_add, List.take_zero, List.nil_append] at this
  simp [Scr.eraseToEol, setRow_at, setRow_same, this]

end Rare.C20
