import Rare.Spec.C20
/-! C20 helper lemmas: what the reference terminal does with the pieces the writer emits. -/
namespace Rare.C20

theorem feed_nil (t : Term) : t.feed [] = t := rfl
theorem feed_cons (t : Term) (r : Rune) (rs : List Rune) : t.feed (r :: rs) = (t.step r).feed rs := rfl
theorem feed_append (t : Term) (a b : List Rune) : t.feed (a ++ b) = (t.feed a).feed b := by
  simp [Term.feed, List.foldl_append]

theorem setRow_same (rows : Nat → List Rune) (i : Nat) (a b : List Rune) :
    setRow (setRow rows i a) i b = setRow rows i b := by
  funext j; by_cases h : j = i <;> simp [setRow, h]

theorem setRow_self (rows : Nat → List Rune) (i : Nat) : setRow rows i (rows i) = rows := by
  funext j; by_cases h : j = i <;> simp [setRow, h]

theorem setRow_at (rows : Nat → List Rune) (i : Nat) (a : List Rune) : setRow rows i a i = a := by
  simp [setRow]

theorem setRow_ne (rows : Nat → List Rune) (i j : Nat) (a : List Rune) (h : j ≠ i) : setRow rows i a j = rows j := by
  simp [setRow, h]

/-! ### control sequences -/

theorem feed_hide (t : Term) (h : t.ps = .ground) :
    t.feed [27, 91, 63, 50, 53, 108] = { t with cursorVisible := false } := by
  obtain ⟨w, ht, o, rows, row, col, vis, ps⟩ := t
  simp only at h; subst h; rfl

theorem feed_show (t : Term) (h : t.ps = .ground) :
    t.feed [27, 91, 63, 50, 53, 104] = { t with cursorVisible := true } := by
  obtain ⟨w, ht, o, rows, row, col, vis, ps⟩ := t
  simp only at h; subst h; rfl

theorem feed_erase (t : Term) (h : t.ps = .ground) :
    t.feed [27, 91, 48, 75] = t.eraseToEol := by
  obtain ⟨w, ht, o, rows, row, col, vis, ps⟩ := t
  simp only at h; subst h; rfl

theorem feed_up1 (t : Term) (h : t.ps = .ground) :
    t.feed [27, 91, 49, 65] = { t with row := t.row - min 1 t.row } := by
  obtain ⟨w, ht, o, rows, row, col, vis, ps⟩ := t
  simp only at h; subst h; rfl

theorem step_cr (t : Term) (h : t.ps = .ground) : t.step 13 = { t with col := 0 } := by
  obtain ⟨w, ht, o, rows, row, col, vis, ps⟩ := t
  simp only at h; subst h; rfl

theorem step_lf (t : Term) (h : t.ps = .ground) : t.step 10 = t.lineFeed := by
  obtain ⟨w, ht, o, rows, row, col, vis, ps⟩ := t
  simp only at h; subst h; rfl

/-- `n` line feeds, then a carriage return (no scrolling) -/
theorem feed_downs (n : Nat) : ∀ (t : Term), t.ps = .ground → t.row + n < t.height →
    t.feed (List.replicate n 10 ++ [13]) = { t with row := t.row + n, col := 0 } := by
  induction n with
  | zero => intro t h _; simp [feed_cons, feed_nil, step_cr t h]
  | succ n ih =>
    intro t h hn
    have hlf : t.lineFeed.ps = .ground := by
      simp only [Term.lineFeed, Term.down]; split <;> split <;> simp [h]
    have e : List.replicate (n + 1) 10 ++ [13] = 10 :: (List.replicate n 10 ++ [13]) := by
      simp [List.replicate_succ]
    rw [e, feed_cons, step_lf t h, ih _ hlf]
    · obtain ⟨w, ht, o, rows, row, col, vis, ps⟩ := t
      have h1 : row + 1 < ht := by simp at hn; omega
      cases o <;> simp [Term.lineFeed, Term.down, h1] <;> omega
    · obtain ⟨w, ht, o, rows, row, col, vis, ps⟩ := t
      have h1 : row + 1 < ht := by simp at hn; omega
      cases o <;> simp [Term.lineFeed, Term.down, h1] <;> simp at hn <;> omega

/-- `n` times `ESC[1A`, then a carriage return -/
theorem feed_ups (n : Nat) : ∀ (t : Term), t.ps = .ground → n ≤ t.row →
    t.feed ((List.replicate n [27, 91, 49, 65]).flatten ++ [13]) = { t with row := t.row - n, col := 0 } := by
  induction n with
  | zero => intro t h _; simp [feed_cons, feed_nil, step_cr t h]
  | succ n ih =>
    intro t h hn
    have e : (List.replicate (n + 1) [27, 91, 49, 65]).flatten ++ [13]
        = [27, 91, 49, 65] ++ ((List.replicate n [27, 91, 49, 65]).flatten ++ [13]) := by
      simp [List.replicate_succ]
    rw [e, feed_append, feed_up1 t h, ih]
    · obtain ⟨w, ht, o, rows, row, col, vis, ps⟩ := t
      simp at hn ⊢; omega
    · exact h
    · simp; omega

/-! ### SGR: zero width -/

theorem feed_csi_params (p : List Rune) (hp : ∀ c ∈ p, 48 ≤ c ∧ c ≤ 59) :
    ∀ (t : Term) (acc : List Rune), t.ps = .csi acc →
    t.feed (p ++ [109]) = { t with ps := .ground } := by
  induction p with
  | nil =>
    intro t acc h
    obtain ⟨w, ht, o, rows, row, col, vis, ps⟩ := t
    simp only at h; subst h
    simp [feed_cons, feed_nil, Term.step, Term.dispatch]
  | cons c p ih =>
    intro t acc h
    have hc := hp c (by simp)
    have hp' : ∀ x ∈ p, 48 ≤ x ∧ x ≤ 59 := fun x hx => hp x (by simp [hx])
    obtain ⟨w, ht, o, rows, row, col, vis, ps⟩ := t
    simp only at h; subst h
    have h1 : 0x20 ≤ c ∧ c ≤ 0x3F := by omega
    rw [List.cons_append, feed_cons]
    simp only [Term.step, h1, and_self, if_true]
    rw [ih hp' _ (acc ++ [c]) rfl]

theorem feed_sgr (t : Term) (h : t.ps = .ground) (p : List Rune) (hp : ∀ c ∈ p, 48 ≤ c ∧ c ≤ 59) :
    t.feed (27 :: 91 :: p ++ [109]) = t := by
  obtain ⟨w, ht, o, rows, row, col, vis, ps⟩ := t
  simp only at h; subst h
  rw [List.cons_append, List.cons_append, feed_cons, feed_cons]
  have : (Term.step (Term.step ⟨w, ht, o, rows, row, col, vis, .ground⟩ 27) 91) = ⟨w, ht, o, rows, row, col, vis, .csi []⟩ := rfl
  rw [this, feed_csi_params p hp _ [] rfl]

/-! ### printable runes -/

/-- cells of a row after writing `vs` from column `c` on -/
def writeCells (cells : List Rune) : Nat → List Rune → List Rune
  | _, [] => cells
  | c, v :: vs => writeCells (writeAt cells c v) (c + 1) vs

theorem step_print (t : Term) (h : t.ps = .ground) (r : Rune) (hr : 32 ≤ r ∧ r ≠ 127) (hc : t.col < t.width) :
    t.step r = { t with rows := setRow t.rows t.row (writeAt (t.rows t.row) t.col r), col := t.col + 1 } := by
  obtain ⟨w, ht, o, rows, row, col, vis, ps⟩ := t
  simp only at h; subst h
  have h1 : r ≠ ESC := by unfold ESC; omega
  have h2 : r ≠ LF := by unfold LF; omega
  have h3 : r ≠ CR := by unfold CR; omega
  have h4 : ¬ (r < 32 ∨ r = 127) := by omega
  have hc' : col < w := hc
  have h5 : ¬ (col ≥ w) := by omega
  simp [Term.step, h1, h2, h3, h4, Term.putChar, h5]

/-- printable runes that fit before the right margin -/
theorem feed_printables (vs : List Rune) (hv : ∀ r ∈ vs, 32 ≤ r ∧ r ≠ 127) :
    ∀ (t : Term), t.ps = .ground → t.col + vs.length ≤ t.width →
    t.feed vs = { t with rows := setRow t.rows t.row (writeCells (t.rows t.row) t.col vs),
                         col := t.col + vs.length } := by
  induction vs with
  | nil =>
    intro t _ _
    obtain ⟨w, ht, o, rows, row, col, vis, ps⟩ := t
    simp [feed_nil, writeCells, setRow_self]
  | cons v vs ih =>
    intro t h hfit
    have hv1 := hv v (by simp)
    have hv' : ∀ r ∈ vs, 32 ≤ r ∧ r ≠ 127 := fun r hr => hv r (by simp [hr])
    rw [feed_cons, step_print t h v hv1 (by simp at hfit; omega), ih hv']
    · obtain ⟨w, ht, o, rows, row, col, vis, ps⟩ := t
      simp [writeCells, setRow_same, setRow_at]; omega
    · exact h
    · simp at hfit ⊢; omega

theorem writeAt_le (cells : List Rune) (c : Nat) (r : Rune) (h : c ≤ cells.length) :
    writeAt cells c r = cells.take c ++ r :: cells.drop (c + 1) := by
  have : c - cells.length = 0 := by omega
  simp [writeAt, this]

theorem writeCells_take (vs : List Rune) : ∀ (cells : List Rune) (c : Nat), c ≤ cells.length →
    (writeCells cells c vs).take (c + vs.length) = cells.take c ++ vs := by
  induction vs with
  | nil => intro cells c _; simp [writeCells]
  | cons v vs ih =>
    intro cells c h
    have hl : c + 1 ≤ (writeAt cells c v).length := by
      rw [writeAt_le cells c v h]; simp; omega
    have e : c + (v :: vs).length = (c + 1) + vs.length := by simp; omega
    rw [writeCells, e, ih _ _ hl, writeAt_le cells c v h]
    have hlen : (cells.take c).length = c := by simp [h]
    have : (cells.take c ++ v :: cells.drop (c + 1)).take (c + 1) = cells.take c ++ [v] := by
      simp [List.take_append, hlen]
      exact List.take_of_length_le (by omega)
    rw [this]; simp

end Rare.C20
