import Rare.Proofs.F64Arith
import Rare.Base.F64Str
/-!
`strconv.ParseFloat` (the model `F64.parseFloat`) on plain integer spellings: whatever
`strconv.Atoi` accepts is accepted, and the result is the correctly rounded integer
(`parseFloat_of_atoi`); for `|n| ≤ 2^53` its value is exactly `n` (`parseFloat_of_atoi_small`).
-/
namespace Rare.F64
open Rare

/-! ### `ParseFloat` of a plain integer spelling -/

theorem isDigitB_iff (c : UInt8) : isDigitB c = true ↔ 48 ≤ c.toNat ∧ c.toNat ≤ 57 := by
  unfold isDigitB
  simp [UInt8.le_iff_toNat_le]

/-- `readMant` over a run of decimal digits (no dot seen so far): all digits are consumed, the
    significand is their value, and `nd` counts the digits after the leading zeros. -/
theorem readMant_digits : ∀ (ds : Bytes) (st : Mant), ds.all isDigitB = true → st.sawdot = false →
    (st.nd = 0 → st.mant = 0) → (0 < st.nd → 10 ^ (st.nd - 1) ≤ st.mant) →
    ∃ st', readMant false ds st = (st', []) ∧ st'.mant = digitsVal ds st.mant ∧ st'.sawdot = false ∧
      st'.underscores = st.underscores ∧ (st'.sawdigits = (st.sawdigits || !ds.isEmpty)) ∧
      (st'.nd = 0 → st'.mant = 0) ∧ (0 < st'.nd → 10 ^ (st'.nd - 1) ≤ st'.mant)
  | [], st, _, h1, h2, h3 => ⟨st, rfl, rfl, h1, rfl, by simp, h2, h3⟩
  | c :: r, st, hall, h1, h2, h3 => by
    simp only [List.all_cons, Bool.and_eq_true] at hall
    obtain ⟨hc, hr⟩ := hall
    have hcd := (isDigitB_iff c).mp hc
    have hne95 : c ≠ 95 := by intro e; subst e; simp at hcd
    have hne46 : c ≠ 46 := by intro e; subst e; simp at hcd
    unfold readMant
    rw [if_neg hne95, if_neg hne46, if_pos hc]
    by_cases hz : (c = 48 ∧ st.nd = 0)
    · have hcond : (c = 48 && st.nd = 0) = true := by simp [hz.1, hz.2]
      rw [if_pos (by simpa using hz)]
      obtain ⟨st', e, m, d, u, sd, i1, i2⟩ := readMant_digits r
        { st with sawdigits := true, dp := st.dp - 1 } hr h1 h2 h3
      refine ⟨st', e, ?_, d, u, ?_, i1, i2⟩
      · rw [m]
        have : st.mant = 0 := h2 hz.2
        simp only [digitsVal, this, hz.1]; rfl
      · rw [sd]; simp
    · rw [if_neg (by simpa using hz)]
      have hm : st.mant * 10 + (c.toNat - 48) = st.mant * 10 + (c.toNat - 48) := rfl
      obtain ⟨st', e, m, d, u, sd, i1, i2⟩ := readMant_digits r
        { st with sawdigits := true, nd := st.nd + 1, mant := st.mant * 10 + (c.toNat - 48) } hr h1
        (by intro h; simp at h)
        (by
          intro _
          simp only [Nat.add_sub_cancel]
          by_cases hnd : st.nd = 0
          · -- first significant digit: it is not '0'
            have hc48 : c ≠ 48 := fun e => hz ⟨e, hnd⟩
            have : c.toNat ≠ 48 := fun e => hc48 (UInt8.toNat_inj.mp (by simpa using e))
            rw [hnd, Nat.pow_zero]; omega
          · have := h3 (by omega)
            have e2 : 10 ^ st.nd = 10 ^ (st.nd - 1) * 10 := by
              rw [← Nat.pow_succ]; congr 1; omega
            rw [e2]; omega)
      refine ⟨st', ?_, ?_, d, u, ?_, i1, i2⟩
      · simpa using e
      · rw [m]; rfl
      · rw [sd]; simp

end Rare.F64

namespace Rare.F64
open Rare

theorem ascii_infinity : ascii "infinity" = [105, 110, 102, 105, 110, 105, 116, 121] := by decide +kernel
theorem ascii_nan : ascii "nan" = [110, 97, 110] := by decide +kernel

theorem lowerAZ_digit {c : UInt8} (h : isDigitB c = true) : lowerAZ c = c := by
  have := (isDigitB_iff c).mp h
  unfold lowerAZ
  have : ¬ ((65 : UInt8) ≤ c ∧ c ≤ 90) := by
    rw [UInt8.le_iff_toNat_le, UInt8.le_iff_toNat_le]; simp; omega
  simp [this]

theorem commonPrefixLen_digit {c : UInt8} (r p : Bytes) (h : isDigitB c = true) (hp : ∀ x ∈ p.head?, ¬ isDigitB x = true) :
    commonPrefixLen (c :: r) p = 0 := by
  cases p with
  | nil => rfl
  | cons x ps =>
    unfold commonPrefixLen
    rw [lowerAZ_digit h]
    have : c ≠ x := by
      intro e; subst e; exact hp c (by simp) h
    simp [this]

/-- `special` does not fire on a digit string, signed or not. -/
theorem special_digits (sign : Option UInt8) (c : UInt8) (r : Bytes) (hc : isDigitB c = true)
    (hs : sign = none ∨ sign = some 43 ∨ sign = some 45) :
    special ((match sign with | some b => [b] | none => []) ++ c :: r) = none := by
  have h0 : commonPrefixLen (c :: r) (ascii "infinity") = 0 :=
    commonPrefixLen_digit r _ hc (by rw [ascii_infinity]; intro x hx; simp at hx; subst hx; decide)
  have hcd := (isDigitB_iff c).mp hc
  rcases hs with e | e | e <;> subst e
  · simp only [List.nil_append]
    unfold special
    have n1 : c ≠ 43 := by intro e; subst e; simp at hcd
    have n2 : c ≠ 45 := by intro e; subst e; simp at hcd
    have n3 : ¬ (c = 105 ∨ c = 73) := by rintro (e | e) <;> subst e <;> simp at hcd
    have n4 : ¬ (c = 110 ∨ c = 78) := by rintro (e | e) <;> subst e <;> simp at hcd
    split
    · rename_i heq; cases heq
    · rename_i heq; injection heq with h1 h2; exact absurd h1 n1
    · rename_i heq; injection heq with h1 h2; exact absurd h1 n2
    · rename_i c' r' _ _ heq
      injection heq with h1 h2; subst h1
      simp [n3, n4]
  · show special (43 :: c :: r) = none
    unfold special
    simp [h0]
  · show special (45 :: c :: r) = none
    unfold special
    simp [h0]

end Rare.F64

namespace Rare.F64
open Rare

theorem lower20_digit {c : UInt8} (h : isDigitB c = true) : lower20 c ≠ 120 ∧ lower20 c ≠ 101 := by
  have hd := (isDigitB_iff c).mp h
  unfold lower20
  constructor <;> intro e <;> have := congrArg UInt8.toNat e <;> simp [UInt8.toNat_or] at this <;>
    (have h2 : c.toNat ||| 32 = c.toNat := by
      have : c.toNat ∈ [48,49,50,51,52,53,54,55,56,57] := by simp; omega
      simp at this
      rcases this with e|e|e|e|e|e|e|e|e|e <;> rw [e] <;> decide) <;> omega

/-- Rounding anything up to `2^63` in magnitude does not overflow. -/
theorem not_inf_ofRatS_small (s : Bool) (q : Rat) (h : absRat q ≤ ((P63 : Nat) : Rat)) :
    (ofRatS s q).isInf = false := by
  unfold ofRatS
  split
  · decide +revert
  · have hn : 0 ≤ absRat q := by unfold absRat; split <;> grind
    have := roundMag_mono hn h
    have e : roundMag ((P63 : Nat) : Rat) = 4890909195324358656 := by
      have := rawMag_exact 1085 P52 (by omega) (Or.inr (by omega))
      have hv : ((P52 * 2 ^ 1085 : Nat) : Rat) / two1074 = ((P63 : Nat) : Rat) := by
        have : P52 * 2 ^ 1085 = P63 * 2 ^ 1074 := by
          rw [show (1085 : Nat) = 11 + 1074 by rfl, Nat.pow_add, ← Nat.mul_assoc]
        rw [this, Rat.natCast_mul, ← two1074_eq]
        exact Rat.mul_div_cancel two1074_ne
      rw [hv] at this
      rw [roundMag_eq, this]; omega
    rw [e] at this
    unfold isInf
    rw [mag_ofSM _ (by omega)]
    simp; omega

end Rare.F64

namespace Rare.F64
open Rare

theorem pow10_zero : pow10 0 = 1 := by unfold pow10; simp

theorem hexPrefix_digits (ds : Bytes) (hall : ds.all isDigitB = true) : hexPrefix ds = (false, ds) := by
  unfold hexPrefix
  split
  · rename_i c r
    simp only [List.all_cons, Bool.and_eq_true] at hall
    have := (lower20_digit hall.2.1).1
    simp [this]
  · rfl

/-- `nd` significant digits whose value is at most `2^63`: at most 20 of them. -/
theorem nd_small {nd mant : Nat} (h : 0 < nd → 10 ^ (nd - 1) ≤ mant) (hm : mant ≤ P63) : nd ≤ 20 := by
  apply Classical.byContradiction
  intro hc
  have h1 := h (by omega)
  have h2 : 10 ^ 20 ≤ 10 ^ (nd - 1) := Nat.pow_le_pow_right (by decide) (by omega)
  have : (10 : Nat) ^ 20 = 100000000000000000000 := by decide
  omega

/-- The tail of `parseFloat` for a mantissa that was a plain digit run (no dot, no exponent). -/
theorem finishParse_digits (s : Bytes) (neg : Bool) (st : Mant) (hsd : st.sawdigits = true)
    (hdot : st.sawdot = false) (hu : st.underscores = false)
    (_i1 : st.nd = 0 → st.mant = 0) (i2 : 0 < st.nd → 10 ^ (st.nd - 1) ≤ st.mant) (hm : st.mant ≤ P63) :
    finishParse s neg false st [] =
      some (ofRatS neg (if neg then -((st.mant : Nat) : Rat) else ((st.mant : Nat) : Rat))) := by
  have hnd := nd_small i2 hm
  unfold finishParse
  simp only [hsd, hdot, hu, Bool.not_true, Bool.false_eq_true, if_false, readExp, List.isEmpty_nil,
    Bool.false_or, Bool.false_and]
  have hsv : scaledValue false st.mant st.nd (st.nd : Int) = some ((st.mant : Nat) : Rat) := by
    unfold scaledValue
    by_cases h0 : st.mant = 0
    · simp [h0]
    · have c1 : ¬ ((st.nd : Int) > 310) := by omega
      have c2 : ¬ ((st.nd : Int) < -330) := by omega
      simp only [h0, if_false, Bool.false_eq_true, c1, c2, Int.sub_self, ge_iff_le, Int.le_refl, if_true,
        Int.toNat_zero, pow10_zero, Rat.mul_one]
  simp only [hsv]
  have habs : absRat (if neg then -((st.mant : Nat) : Rat) else ((st.mant : Nat) : Rat)) ≤ ((P63 : Nat) : Rat) := by
    have h1 : ((st.mant : Nat) : Rat) ≤ ((P63 : Nat) : Rat) := Rat.natCast_le_natCast.mpr hm
    have h0 : (0 : Rat) ≤ ((st.mant : Nat) : Rat) := Rat.natCast_nonneg
    unfold absRat
    cases neg <;> simp <;> split <;> grind
  rw [not_inf_ofRatS_small neg _ habs]
  simp

/-- **`ParseFloat` of a plain integer spelling** (`[+-]digits`, value at most `2^63` in magnitude):
    the correctly rounded float of that integer (`-0` for `"-0"`). -/
theorem parseFloat_digits (sign : Option UInt8) (ds : Bytes) (hne : ds ≠ []) (hall : ds.all isDigitB = true)
    (hs : sign = none ∨ sign = some 43 ∨ sign = some 45) (hlt : digitsVal ds 0 ≤ P63) :
    parseFloat ((match sign with | some b => [b] | none => []) ++ ds) =
      some (ofRatS (sign == some 45)
        (if (sign == some 45) = true then -((digitsVal ds 0 : Nat) : Rat) else ((digitsVal ds 0 : Nat) : Rat))) := by
  obtain ⟨c, r, rfl⟩ : ∃ c r, ds = c :: r := by
    cases ds with
    | nil => exact absurd rfl hne
    | cons c r => exact ⟨c, r, rfl⟩
  have hc : isDigitB c = true := by simp only [List.all_cons, Bool.and_eq_true] at hall; exact hall.1
  have hcd := (isDigitB_iff c).mp hc
  have hsp := special_digits sign c r hc hs
  obtain ⟨st', e, m, d, u, sd, i1, i2⟩ := readMant_digits (c :: r) {} hall rfl (fun _ => rfl) (by intro h; simp at h)
  have hm : st'.mant ≤ P63 := by rw [m]; exact hlt
  have hsd : st'.sawdigits = true := by rw [sd]; simp
  have fin := fun s neg => finishParse_digits s neg st' hsd d u i1 i2 hm
  unfold parseFloat
  rw [hsp]
  have n1 : c ≠ 43 := by intro e; subst e; simp at hcd
  have n2 : c ≠ 45 := by intro e; subst e; simp at hcd
  rcases hs with e' | e' | e' <;> subst e'
  · have hss : splitSign (c :: r) = (false, c :: r) := by
      unfold splitSign
      split
      · rename_i heq; injection heq with h1 _; exact absurd h1 n1
      · rename_i heq; injection heq with h1 _; exact absurd h1 n2
      · rfl
    simp only [List.nil_append, List.isEmpty_cons, Bool.false_eq_true, if_false, hss, hexPrefix_digits _ hall, e, fin, m]
    rfl
  · have hss : splitSign (43 :: c :: r) = (false, c :: r) := rfl
    simp only [List.cons_append, List.nil_append, List.isEmpty_cons, Bool.false_eq_true, if_false, hss,
      hexPrefix_digits _ hall, e, fin, m]
    rfl
  · have hss : splitSign (45 :: c :: r) = (true, c :: r) := rfl
    simp only [List.cons_append, List.nil_append, List.isEmpty_cons, Bool.false_eq_true, if_false, hss,
      hexPrefix_digits _ hall, e, fin, m]
    rfl

end Rare.F64

namespace Rare.F64
open Rare

/-- **An `int64` spelling is a float spelling**: whatever `strconv.Atoi` accepts, `strconv.ParseFloat`
    accepts, and the float is the correctly rounded integer (with the sign of a leading `-`, so
    `"-0"` is `-0`). -/
theorem parseFloat_of_atoi {s : Bytes} {n : Int} (h : atoi s = some n) :
    parseFloat s = some (ofRatS (s.head? == some 45) (n : Rat)) := by
  unfold atoi at h
  split at h
  rename_i neg ds hsplit
  simp only [] at h
  split at h
  · cases h
  · rename_i hok
    simp only [Bool.or_eq_true, Bool.not_eq_true', not_or, Bool.not_eq_true, Bool.not_eq_false] at hok
    obtain ⟨hne, hall⟩ := hok
    have hne' : ds ≠ [] := by intro e; subst e; simp at hne
    by_cases hin : inInt64 (if neg = true then -(digitsVal ds 0 : Int) else (digitsVal ds 0 : Int)) = true
    · rw [if_pos hin] at h
      cases h
      have hb : digitsVal ds 0 ≤ P63 := by
        simp only [inInt64, minInt64, maxInt64, Bool.and_eq_true] at hin
        cases neg <;> simp at hin <;> omega
      split at hsplit
      · rename_i r
        cases hsplit
        have := parseFloat_digits (some 43) ds hne' hall (Or.inr (Or.inl rfl)) hb
        simp only [List.cons_append, List.nil_append] at this
        rw [this]
        rfl
      · rename_i r
        cases hsplit
        have := parseFloat_digits (some 45) ds hne' hall (Or.inr (Or.inr rfl)) hb
        simp only [List.cons_append, List.nil_append] at this
        rw [this]
        simp [Rat.intCast_neg]
        rfl
      · rename_i r h43 h45
        cases hsplit
        have := parseFloat_digits none s hne' hall (Or.inl rfl) hb
        simp only [List.nil_append] at this
        rw [this]
        have hh : (s.head? == some 45) = false := by
          cases s with
          | nil => rfl
          | cons c r =>
            simp only [List.head?_cons]
            have : c ≠ 45 := fun e => h45 r (by rw [e])
            simp [this]
        rw [hh]
        rfl
    · rw [if_neg hin] at h; cases h

/-- For `|n| ≤ 2^53` the parsed float has exactly the value `n`. -/
theorem parseFloat_of_atoi_small {s : Bytes} {n : Int} (h : atoi s = some n) (hs : n.natAbs ≤ P53) :
    ∃ y, parseFloat s = some y ∧ y.toRat? = some (n : Rat) := by
  refine ⟨_, parseFloat_of_atoi h, ?_⟩
  obtain ⟨a, b⟩ := ofRatS_rep (s.head? == some 45) (rep_int hs)
  unfold toRat?; rw [a, b]; rfl

end Rare.F64
