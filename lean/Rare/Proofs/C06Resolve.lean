import Rare.Proofs.C06Path
/-! C06: what path resolution returns is a node of the tree; listings of a well-formed tree. -/
namespace Rare.C06.Glob

theorem Ents.find_wf : ∀ (e : Ents) (n : Name) (node : Node), e.WF → e.find n = some node → node.WF
  | .nil, _, _, _, h => by simp [Ents.find] at h
  | .cons m nd rest, n, node, hw, h => by
    simp only [Ents.WF] at hw
    unfold Ents.find at h
    split at h
    · cases h; exact hw.2.2.1
    · exact Ents.find_wf rest n node hw.2.2.2 h

theorem Ents.find_mem_names : ∀ (e : Ents) (n : Name) (node : Node), e.find n = some node → n ∈ e.names
  | .nil, _, _, h => by simp [Ents.find] at h
  | .cons m nd rest, n, node, h => by
    unfold Ents.find at h
    simp only [Ents.names, List.mem_cons]
    split at h
    · rename_i e; exact Or.inl e.symm
    · exact Or.inr (Ents.find_mem_names rest n node h)

theorem Ents.mem_names_find : ∀ (e : Ents) (n : Name), n ∈ e.names → ∃ node, e.find n = some node
  | .nil, _, h => by simp [Ents.names] at h
  | .cons m nd rest, n, h => by
    unfold Ents.find
    by_cases hm : m = n
    · exact ⟨nd, by simp [hm]⟩
    · simp only [hm, if_false]
      simp only [Ents.names, List.mem_cons] at h
      rcases h with h | h
      · exact absurd h.symm hm
      · exact Ents.mem_names_find rest n h

theorem Ents.names_wf : ∀ (e : Ents), e.WF → e.names.Nodup ∧ ∀ n ∈ e.names, NormalName n
  | .nil, _ => by simp [Ents.names]
  | .cons m nd rest, hw => by
    simp only [Ents.WF] at hw
    obtain ⟨ih1, ih2⟩ := Ents.names_wf rest hw.2.2.2
    refine ⟨List.nodup_cons.2 ⟨hw.2.1, ih1⟩, ?_⟩
    intro n hn
    simp only [Ents.names, List.mem_cons] at hn
    rcases hn with rfl | hn
    · exact hw.1
    · exact ih2 n hn

theorem Node.at_wf : ∀ (stack : List Name) (root node : Node), root.WF → root.at stack = some node → node.WF
  | [], root, node, hw, h => by simp only [Node.at, Option.some.injEq] at h; subst h; exact hw
  | c :: cs, root, node, hw, h => by
    cases root with
    | file => simp [Node.at] at h
    | link t => simp [Node.at] at h
    | dir e =>
      simp only [Node.at] at h
      cases hf : e.find c with
      | none => simp [hf] at h
      | some child =>
        simp only [hf] at h
        exact Node.at_wf cs child node (Ents.find_wf e c child hw hf) h

theorem dirNodeAt_wf (root : Node) (stack : List Name) (node : Node) (hw : root.WF)
    (h : dirNodeAt root stack = some node) : node.WF := by
  unfold dirNodeAt at h
  split at h
  · rename_i e he
    cases h
    exact Node.at_wf stack root _ hw he
  · cases h

theorem resolveAt_wf (root : Node) (hw : root.WF) : ∀ (d : Nat) (st : RState) (path : Bytes) (follow : Bool) (node : Node),
    resolveAt d root st path follow = some node → node.WF := by
  intro d
  induction d with
  | zero =>
    intro st path follow node h
    unfold resolveAt at h
    simp only at h
    repeat' split at h
    all_goals first
      | (cases h; done)
      | exact dirNodeAt_wf root _ node hw h
      | (cases h; first | trivial | exact Node.at_wf _ root _ hw (by assumption))
  | succ d ih =>
    intro st path follow node h
    unfold resolveAt at h
    simp only at h
    repeat' split at h
    all_goals first
      | (cases h; done)
      | exact dirNodeAt_wf root _ node hw h
      | exact ih _ _ _ _ h
      | (cases h; first | trivial | exact Node.at_wf _ root _ hw (by assumption))

theorem stat_wf (root : Node) (hw : root.WF) (p : Bytes) (node : Node) (h : stat root p = some node) : node.WF :=
  resolveAt_wf root hw _ _ _ _ _ h

theorem lstat_wf (root : Node) (hw : root.WF) (p : Bytes) (node : Node) (h : lstat root p = some node) : node.WF :=
  resolveAt_wf root hw _ _ _ _ _ h

/-- the listing of a directory of a well-formed tree: proper names, strictly increasing -/
theorem readDirNames_wf (root : Node) (hw : root.WF) (p : Bytes) (names : List Name)
    (h : readDirNames root p = some names) :
    (∀ n ∈ names, NormalName n) ∧ names.Pairwise (fun a b => lexLe a b = true ∧ a ≠ b) := by
  unfold readDirNames at h
  split at h
  · rename_i ents hs
    cases h
    have hwf : Node.WF (.dir ents) := stat_wf root hw p _ hs
    simp only [Node.WF] at hwf
    obtain ⟨h1, h2⟩ := Ents.names_wf ents hwf
    exact ⟨fun n hn => h2 n (mem_sortNames.1 hn), sortNames_strict h1⟩
  · cases h

end Rare.C06.Glob
