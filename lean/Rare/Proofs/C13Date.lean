import Rare.Proofs.C13Model
import Rare.Model.C13Date
import Rare.Proofs.C18Cal
import Rare.Proofs.C18Layout
import Rare.Proofs.C18RT
/-!
C13 `date` over the modelled `time.Parse`: the `layoutLib` plumbing, the order the closure computes
on keys that parse with the inferred layout, and – composing with C18's format/parse round trip –
keys that denote ONE instant in different zones.
-/
namespace Rare.C13

/-! ### `layoutLib` -/

theorem layoutId_get {layouts : List Bytes} {l : Bytes} (hl : l ∈ layouts) :
    ∃ i, layoutId layouts l = some i ∧ layouts[i]? = some l := by
  have hi : layouts.idxOf l < layouts.length := List.idxOf_lt_length_of_mem hl
  refine ⟨layouts.idxOf l, by simp [layoutId, hi], ?_⟩
  rw [List.getElem?_eq_getElem hi]
  simp

/-- A key whose inferred layout is `l`: its id stands for `l`, i.e. `time.Parse` with that id is the
model of `time.Parse(l, ·)`. -/
theorem layoutLib_spec (layouts : List Bytes) (lay : Key → Option Bytes) {l : Bytes} (hl : l ∈ layouts) :
    ∃ i, (∀ k, lay k = some l → (layoutLib layouts lay).dfmt k = some i)
      ∧ ∀ k, (layoutLib layouts lay).dparse i k = timeParseNs l k := by
  obtain ⟨i, h1, h2⟩ := layoutId_get hl
  refine ⟨i, ?_, ?_⟩
  · intro k hk
    simp [layoutLib, hk, h1]
  · intro k
    simp [layoutLib, h2]

/-- The two statements of `ByDate` after both keys parsed are the model's `if d0 = d1 …`. -/
theorem byDateParsed_eq (d0 d1 : Int) (a b : Key) :
    byDateParsed d0 d1 a b = (if d0 = d1 then bytesLt a b else decide (d0 < d1)) := by
  simp [byDateParsed, instEqual, instBefore]

/-- The order of the instants the modelled `time.Parse` gives under layout `l`, ties by text. -/
def realChrono (l : Bytes) : Key → Key → Bool := chronoLess (fun k => (timeParseNs l k).getD 0)

/-- Every key of `P` has the inferred layout `l` and parses with it: whatever was compared before,
the `ByDate` closure answers `realChrono l`. -/
theorem date_real_faithful {σ : Type} (layouts : List Bytes) (lay : Key → Option Bytes) (l : Bytes)
    (hl : l ∈ layouts) (fb : SCmp Key σ) (init : σ) (P : Key → Prop)
    (hlay : ∀ k, P k → lay k = some l) (hp : ∀ k, P k → (timeParseNs l k).isSome = true) :
    Faithful (byDate (realOracle (layoutLib layouts lay)) fb) ({}, init) P (realChrono l) := by
  obtain ⟨i, hi1, hi2⟩ := layoutLib_spec layouts lay hl
  have e : realChrono l = chronoLess (fun k => ((realOracle (layoutLib layouts lay)).dparse i k).getD 0) := by
    unfold realChrono
    congr 1
    funext k
    show (timeParseNs l k).getD 0 = ((layoutLib layouts lay).dparse i k).getD 0
    rw [hi2]
  rw [e]
  refine date_faithful_layout _ fb init P i (fun k hk => hi1 k (hlay k hk)) (fun k hk => ?_)
  show ((layoutLib layouts lay).dparse i k).isSome = true
  rw [hi2]
  exact hp k hk

/-- A fresh closure on two keys that parse with the layout inferred from the first. -/
theorem byDate_fresh_real {σ : Type} (layouts : List Bytes) (lay : Key → Option Bytes) (l : Bytes)
    (hl : l ∈ layouts) (fb : SCmp Key σ) (s0 : σ) (a b : Key) (x y : Int)
    (hlay : lay a = some l) (ha : timeParseNs l a = some x) (hb : timeParseNs l b = some y) :
    (byDate (realOracle (layoutLib layouts lay)) fb ({}, s0) a b).1 = byDateParsed x y a b := by
  obtain ⟨i, hi1, hi2⟩ := layoutLib_spec layouts lay hl
  have h1 : (realOracle (layoutLib layouts lay)).dfmt a = some i := hi1 a hlay
  have h2 : (realOracle (layoutLib layouts lay)).dparse i a = some x := by
    show (layoutLib layouts lay).dparse i a = some x
    rw [hi2, ha]
  have h3 : (realOracle (layoutLib layouts lay)).dparse i b = some y := by
    show (layoutLib layouts lay).dparse i b = some y
    rw [hi2, hb]
  rw [byDateParsed_eq]
  simp [byDate, h1, h2, h3]


/-- Under the same hypotheses the set is `dateUniform` (so the permutation theorems apply) and what
the `date` mode denotes on it is `realChrono l`. -/
theorem dateUniform_real (layouts : List Bytes) (lay : Key → Option Bytes) (l : Bytes) (hl : l ∈ layouts)
    (sets : List SortSet) (keys : List Key)
    (hlay : ∀ k ∈ keys, lay k = some l) (hp : ∀ k ∈ keys, (timeParseNs l k).isSome = true) :
    dateUniform (realOracle (layoutLib layouts lay)) sets keys = true
    ∧ (keys ≠ [] → dateSpec (realOracle (layoutLib layouts lay)) sets keys = realChrono l) := by
  obtain ⟨i, hi1, hi2⟩ := layoutLib_spec layouts lay hl
  cases keys with
  | nil => exact ⟨rfl, fun h => absurd rfl h⟩
  | cons k0 rest =>
    have h0 : (realOracle (layoutLib layouts lay)).dfmt k0 = some i := hi1 k0 (hlay k0 (List.mem_cons_self ..))
    have hall : ∀ k ∈ k0 :: rest, (realOracle (layoutLib layouts lay)).dfmt k = some i
        ∧ ((realOracle (layoutLib layouts lay)).dparse i k).isSome = true := by
      intro k hk
      refine ⟨hi1 k (hlay k hk), ?_⟩
      show ((layoutLib layouts lay).dparse i k).isSome = true
      rw [hi2]
      exact hp k hk
    have e : (fun k => ((realOracle (layoutLib layouts lay)).dparse i k).getD 0) = fun k => (timeParseNs l k).getD 0 := by
      funext k
      show ((layoutLib layouts lay).dparse i k).getD 0 = _
      rw [hi2]
    refine ⟨?_, fun _ => ?_⟩
    · simp only [dateUniform, h0]
      simpa [List.all_eq_true] using hall
    · unfold dateSpec dateSpecLess
      simp only [h0]
      rw [if_pos (by simpa [List.all_eq_true] using hall)]
      unfold realChrono
      rw [e]

/-! ### one instant, several zones (composition with C18's round trip) -/

/-- Layouts that carry the instant: full date, time of day to the second, a numeric zone offset and
no two-digit year (the decidable classifier of C18, restated here so that this file depends on C18's
proof files only). -/
def carriesInstant (ts : List C18.Tok) : Bool :=
  C18.holdsInstant ts && (C18.carries ts).contains 's' && !(C18.carries ts).contains 'y'

open C18 in
/-- The wall clock of an instant denotes that instant again. -/
theorem wall_of_instant' (unix off : Int) : wallSeconds (civilOf unix off) - off = unix := by
  have h := civil_roundtrip' (localDays unix off)
  unfold wallSeconds civilOf
  simp only
  rw [h]
  unfold localDays localSecs
  omega

open C18 in
/-- For every layout of C18's round-trip class that carries the instant (date, time to the second,
numeric offset, four-digit year), every instant `unix` and every zone offset (whole minutes,
|off| < 25 h): the text `time.Format` prints for `unix` in that zone is read back by the modelled
`time.Parse` as exactly `unix` – whatever the zone.  (C18's `roundtrip_core` + the civil calendar.) -/
theorem timeParseNs_format (layout : Bytes) (hRT : RT (tokenize layout) = true)
    (hC : carriesInstant (tokenize layout) = true) (unix off : Int) (abbr : Bytes) (hoff : OffOK off)
    (hy : 0 ≤ (civilOf unix off).y ∧ (civilOf unix off).y ≤ 9999)
    (habbr : Tok.std .tz ∈ tokenize layout → AbbrOK abbr off) :
    timeParseNs layout (formatLayout layout (timeVOf unix off abbr)) = some (unix * 1000000000) := by
  simp only [carriesInstant, Bool.and_eq_true, Bool.not_eq_true'] at hC
  obtain ⟨⟨hI, cs⟩, cy⟩ := hC
  have hs : 0 ≤ localSecs unix off ∧ localSecs unix off < 86400 := by unfold localSecs; omega
  have hc := civil_month_day (localDays unix off)
  have hvalid : (timeVOf unix off abbr).dt.valid := by
    simp only [timeVOf, civilOf, DateTime.valid] at hy ⊢
    refine ⟨hy.1, hy.2, hc.1, hc.2.1, hc.2.2.1, hc.2.2.2, ?_, ?_, ?_, ?_, ?_, ?_, by omega, by omega⟩ <;> omega
  have hnoy : ¬ (Tok.std .year ∈ tokenize layout) := by
    intro hm
    have : 'y' ∈ carries (tokenize layout) := by
      simp only [carries, List.mem_filterMap]
      exact ⟨_, hm, rfl⟩
    rw [List.contains_iff_mem.mpr this] at cy; cases cy
  obtain ⟨p, hp, hdt, hinst⟩ := roundtrip_core (tokenize layout) hRT hI (timeVOf unix off abbr)
    ⟨hvalid, rfl, weekday_range' _, hoff, fun hm => absurd hm hnoy, habbr⟩
  have hprec : precOf (tokenize layout) = .second ∨ precOf (tokenize layout) = .nano := by
    simp only [holdsInstant, Bool.and_eq_true] at hI
    obtain ⟨⟨⟨⟨⟨cY, cM⟩, cD⟩, ch⟩, cm⟩, cz⟩ := hI
    simp only [precOf, cY, cM, cD, ch, cm, cs, Bool.not_true, Bool.false_eq_true, if_false]
    split <;> simp
  have hwall : wallSeconds (truncTo (precOf (tokenize layout)) (timeVOf unix off abbr).dt) - (timeVOf unix off abbr).off = unix := by
    have hw := wall_of_instant' unix off
    rcases hprec with h | h <;> rw [h]
    · simp only [wallSeconds, truncTo, timeVOf, civilOf, localSecs] at hw ⊢
      exact hw
    · exact hw
  have hns : p.dt.ns = 0 := by
    rw [hdt]
    cases precOf (tokenize layout) <;> rfl
  -- the instant: `instantOf` with the location that matches whatever zone source the text has
  have hw : wallSeconds p.dt - parsedOffset p = unix := by
    have h := hinst 0 (match p.zone with | .name n => n | _ => [])
    rw [hwall] at h
    unfold instantOf at h
    unfold parsedOffset
    cases hz : p.zone <;> simp only [hz] at h ⊢
    · simpa using h
    · simpa using h
    · simp only [if_true] at h
      simpa using h
    · simpa using h
  have hp' : parseLayout layout (formatLayout layout (timeVOf unix off abbr)) = .ok p := hp
  unfold timeParseNs
  rw [hp']
  simp only [parsedNs, hw, hns, Int.add_zero]

end Rare.C13
