import Rare.Proofs.C19F64a
import Rare.Spec.C19F64
import Rare.Proofs.F64Fmt
/-!
C19, IEEE instance, part (b): the operator table unfolded, integer formulas are exact, comparisons
answer 0 or 1, NaN facts, the guarded integer operators, rendering of integer results.
-/
set_option linter.unusedSimpArgs false

namespace Rare.C19.IEEE
open Rare Rare.F64 Rare.C19

variable (L : Libm)

/-! ### the operator table, unfolded once -/

theorem bin_add (a b : F64) : (arith L).bin [43] a b = add a b := by
  simp [arith, arithOf, binOf, prim, ltF, leF, eqF, andF, orF]
theorem bin_mul (a b : F64) : (arith L).bin [42] a b = mul a b := by
  simp [arith, arithOf, binOf, prim, ltF, leF, eqF, andF, orF]
theorem bin_sub (a b : F64) : (arith L).bin [45] a b = sub a b := by
  simp [arith, arithOf, binOf, prim, ltF, leF, eqF, andF, orF]
theorem bin_div (a b : F64) : (arith L).bin [47] a b = div a b := by
  simp [arith, arithOf, binOf, prim, ltF, leF, eqF, andF, orF]
theorem bin_pow (a b : F64) : (arith L).bin [94] a b = (powCore a b).getD (L.pow a b) := by
  simp [arith, arithOf, binOf, prim, ltF, leF, eqF, andF, orF]
theorem bin_mod (a b : F64) : (arith L).bin [37] a b = intBinF modI a b := by
  simp [arith, arithOf, binOf, prim, ltF, leF, eqF, andF, orF]
theorem bin_shl (a b : F64) : (arith L).bin [60, 60] a b = intBinF shlI a b := by
  simp [arith, arithOf, binOf, prim, ltF, leF, eqF, andF, orF]
theorem bin_shr (a b : F64) : (arith L).bin [62, 62] a b = intBinF shrI a b := by
  simp [arith, arithOf, binOf, prim, ltF, leF, eqF, andF, orF]
theorem bin_and (a b : F64) : (arith L).bin [38] a b = intBinF andI a b := by
  simp [arith, arithOf, binOf, prim, ltF, leF, eqF, andF, orF]
theorem bin_or (a b : F64) : (arith L).bin [124] a b = intBinF orI a b := by
  simp [arith, arithOf, binOf, prim, ltF, leF, eqF, andF, orF]
theorem bin_lt (a b : F64) : (arith L).bin [60] a b = cond (lt a b) := by
  simp [arith, arithOf, binOf, prim, ltF, leF, eqF, andF, orF]
theorem bin_le (a b : F64) : (arith L).bin [60, 61] a b = cond (le a b) := by
  simp [arith, arithOf, binOf, prim, ltF, leF, eqF, andF, orF]
theorem bin_gt (a b : F64) : (arith L).bin [62] a b = cond (lt b a) := by
  simp [arith, arithOf, binOf, prim, ltF, leF, eqF, andF, orF]
theorem bin_ge (a b : F64) : (arith L).bin [62, 61] a b = cond (le b a) := by
  simp [arith, arithOf, binOf, prim, ltF, leF, eqF, andF, orF]
theorem bin_eq (a b : F64) : (arith L).bin [61, 61] a b = cond (F64.eq a b) := by
  simp [arith, arithOf, binOf, prim, ltF, leF, eqF, andF, orF]
theorem bin_andand (a b : F64) : (arith L).bin [38, 38] a b = cond (truthy a && truthy b) := by
  simp [arith, arithOf, binOf, prim, ltF, leF, eqF, andF, orF]
theorem bin_oror (a b : F64) : (arith L).bin [124, 124] a b = cond (truthy a || truthy b) := by
  simp [arith, arithOf, binOf, prim, ltF, leF, eqF, andF, orF]
theorem un_neg (a : F64) : (arith L).un [45] a = neg a := by
  simp [arith, arithOf, unOf, prim, exactFn, notF]
theorem un_not (a : F64) : (arith L).un [33] a = cond (!truthy a) := by
  simp [arith, arithOf, unOf, prim, exactFn, notF]
theorem un_abs (a : F64) : (arith L).un [97, 98, 115] a = F64.abs a := by
  simp [arith, arithOf, unOf, prim, exactFn, notF]
theorem un_sqrt (a : F64) : (arith L).un [115, 113, 114, 116] a = sqrt a := by
  simp [arith, arithOf, unOf, prim, exactFn, notF]
theorem un_floor (a : F64) : (arith L).un [102, 108, 111, 111, 114] a = F64.floor a := by
  simp [arith, arithOf, unOf, prim, exactFn, notF]
theorem un_ceil (a : F64) : (arith L).un [99, 101, 105, 108] a = F64.ceil a := by
  simp [arith, arithOf, unOf, prim, exactFn, notF]
theorem un_round (a : F64) : (arith L).un [114, 111, 117, 110, 100] a = roundHalfAway a := by
  simp [arith, arithOf, unOf, prim, exactFn, notF]
theorem un_log (a : F64) : (arith L).un [108, 111, 103] a = Rare.C11.Log.logAsm a := by
  simp [arith, arithOf, unOf, prim, exactFn, notF]
theorem un_log10 (a : F64) : (arith L).un [108, 111, 103, 49, 48] a = Rare.C11.Log.log10 a := by
  simp [arith, arithOf, unOf, prim, exactFn, notF]
theorem un_log2 (a : F64) : (arith L).un [108, 111, 103, 50] a = Rare.C11.Log.log2 a := by
  simp [arith, arithOf, unOf, prim, exactFn, notF]
theorem un_sin (a : F64) : (arith L).un [115, 105, 110] a = Rare.C19.Trig.sin a := by
  simp [arith, arithOf, unOf, prim, exactFn, notF]
theorem un_cos (a : F64) : (arith L).un [99, 111, 115] a = Rare.C19.Trig.cos a := by
  simp [arith, arithOf, unOf, prim, exactFn, notF]
theorem un_tan (a : F64) : (arith L).un [116, 97, 110] a = Rare.C19.Trig.tan a := by
  simp [arith, arithOf, unOf, prim, exactFn, notF]
theorem un_asin (a : F64) : (arith L).un [97, 115, 105, 110] a = Rare.C19.Trig.asin a := by
  simp [arith, arithOf, unOf, prim, exactFn, notF]
theorem un_acos (a : F64) : (arith L).un [97, 99, 111, 115] a = Rare.C19.Trig.acos a := by
  simp [arith, arithOf, unOf, prim, exactFn, notF]
theorem un_atan (a : F64) : (arith L).un [97, 116, 97, 110] a = Rare.C19.Trig.atan a := by
  simp [arith, arithOf, unOf, prim, exactFn, notF]
theorem un_exp2 (a : F64) : (arith L).un [101, 120, 112, 50] a = exp2 a := by
  simp [arith, arithOf, unOf, prim, exactFn, notF]

/-! ### small facts about values -/

theorem cond_cases (c : Bool) : cond c = one ∨ cond c = zeroP := by
  cases c
  · exact Or.inr rfl
  · exact Or.inl rfl

theorem one_eq_ofInt : one = ofInt 1 := by decide +kernel
theorem zeroP_eq_ofInt : zeroP = ofInt 0 := by decide +kernel

theorem toRat?_ofInt {k : Int} (h : k.natAbs ≤ 9007199254740992) : (ofInt k).toRat? = some (k : Rat) :=
  toRat?_eq_some.mpr (isFinite_ofInt k h)

theorem toRat?_cond (c : Bool) : (cond c).toRat? = some ((b2i c : Int) : Rat) := by
  cases c
  · show zeroP.toRat? = _
    rw [zeroP_eq_ofInt]; exact toRat?_ofInt (by decide)
  · show one.toRat? = _
    rw [one_eq_ofInt]; exact toRat?_ofInt (by decide)

theorem toRat?_neg {x : F64} {q : Rat} (h : x.toRat? = some q) : (neg x).toRat? = some (-q) := by
  obtain ⟨hf, hv⟩ := toRat?_eq_some.mp h
  exact toRat?_eq_some.mpr ⟨by rw [isFinite_neg]; exact hf, by rw [toRat_neg, hv]⟩

theorem inRange_some {x n : Int} (h : inRange x = some n) : x = n ∧ n.natAbs ≤ 9007199254740992 := by
  unfold inRange at h
  split at h
  · injection h with h; subst h; exact ⟨rfl, by assumption⟩
  · cases h

theorem eq_as_le (x y : F64) : F64.eq x y = (le x y && le y x) := by
  unfold F64.eq le
  cases x.isNaN <;> cases y.isNaN <;> simp
  by_cases h : x.key = y.key
  · simp [h]
  · simp [h]; omega

/-- Comparisons of integer-valued floats are comparisons of the integers. -/
theorem lt_int {x y : F64} {a b : Int} (hx : x.toRat? = some (a : Rat)) (hy : y.toRat? = some (b : Rat)) :
    lt x y = decide (a < b) := by
  obtain ⟨fx, vx⟩ := toRat?_eq_some.mp hx
  obtain ⟨fy, vy⟩ := toRat?_eq_some.mp hy
  have h := lt_iff_toRat_lt fx fy
  rw [vx, vy, Rat.intCast_lt_intCast] at h
  by_cases hab : a < b
  · rw [h.mpr hab]; simp [hab]
  · have : ¬ (lt x y = true) := fun hc => hab (h.mp hc)
    simp [hab]; simpa using this

theorem le_int {x y : F64} {a b : Int} (hx : x.toRat? = some (a : Rat)) (hy : y.toRat? = some (b : Rat)) :
    le x y = decide (a ≤ b) := by
  obtain ⟨fx, vx⟩ := toRat?_eq_some.mp hx
  obtain ⟨fy, vy⟩ := toRat?_eq_some.mp hy
  have h := le_iff_toRat_le fx fy
  rw [vx, vy, Rat.intCast_le_intCast] at h
  by_cases hab : a ≤ b
  · rw [h.mpr hab]; simp [hab]
  · have : ¬ (le x y = true) := fun hc => hab (h.mp hc)
    simp [hab]; simpa using this

theorem eq_int {x y : F64} {a b : Int} (hx : x.toRat? = some (a : Rat)) (hy : y.toRat? = some (b : Rat)) :
    F64.eq x y = decide (a = b) := by
  rw [eq_as_le, le_int hx hy, le_int hy hx]
  by_cases h : a = b
  · subst h; simp
  · simp [h]; omega

/-! ### integer formulas are exact -/

/-- The float binding carries the integers of the integer binding (wherever they are within ±2^53). -/
def IntBinding (ib : Binding Int) (b : Binding F64) : Prop :=
  (∀ k, (ib.getKey k).natAbs ≤ 9007199254740992 → (b.getKey k).toRat? = some ((ib.getKey k : Int) : Rat)) ∧
  (∀ i, (ib.getMatch i).natAbs ≤ 9007199254740992 → (b.getMatch i).toRat? = some ((ib.getMatch i : Int) : Rat))

theorem alpha_facts : ∀ c : UInt8, isAlpha c = true → isDigitB c = false ∧ c ≠ 46 := by
  apply byte_forall
  decide +kernel

theorem alpha_alnum : ∀ c : UInt8, (isAlpha c || isDigitB c) = true → isAlnumB c = true := by
  apply byte_forall
  decide +kernel

/-- A valid variable name has no underscore, so `ParseInt` reads it as it reads any underscore-free text. -/
theorem varname_no_underscore {v : Bytes} (h : validVariableName v = true) : v.contains 95 = false := by
  cases hc : v.contains 95 with
  | false => rfl
  | true =>
    have hm : (95 : UInt8) ∈ v := by simpa using hc
    cases v with
    | nil => cases hm
    | cons c r =>
      simp only [validVariableName, Bool.and_eq_true, List.all_eq_true] at h
      rcases List.mem_cons.mp hm with e | hr
      · rw [← e] at h; exact absurd h.1 (by decide)
      · exact absurd (h.2 95 hr) (by decide)

theorem all_alnum {v : Bytes} (h : v.all isAlnumB = true) : ∀ b ∈ v, isAlnumB b = true := by
  intro b hb
  exact List.all_eq_true.mp h b hb

theorem intLeaf_sound {ib : Binding Int} {b : Binding F64} (hb : IntBinding ib b) (v : Bytes) (n : Int)
    (h : intLeaf ib v = some n) :
    ∃ a, classify (arith L) v = some a ∧ (a.eval b).toRat? = some (n : Rat) := by
  unfold intLeaf at h
  by_cases hbox : isBoxed v = true
  · simp only [hbox, if_true] at h
    cases hat : atoi ((v.drop 1).dropLast) with
    | some i =>
      rw [hat] at h
      obtain ⟨e, hr⟩ := inRange_some h
      refine ⟨.idx i, by simp only [classify, classifyE, hbox, if_true, hat], ?_⟩
      have := hb.2 i (by rw [e]; exact hr)
      rw [e] at this
      exact this
    | none =>
      rw [hat] at h
      obtain ⟨e, hr⟩ := inRange_some h
      refine ⟨.named ((v.drop 1).dropLast), by simp only [classify, classifyE, hbox, if_true, hat], ?_⟩
      have := hb.1 ((v.drop 1).dropLast) (by rw [e]; exact hr)
      rw [e] at this
      exact this
  · simp only [hbox, Bool.false_eq_true, if_false] at h
    cases hp : parseIntLit v with
    | some k =>
      rw [hp] at h
      simp only at h
      by_cases hal : v.all isAlnumB = true
      · simp only [hal, if_true] at h
        obtain ⟨e, hr⟩ := inRange_some h
        subst e
        have hne : v ≠ [] := by
          intro hv; subst hv; simp [parseIntLit] at hp
        have hc := classifyE_int (arith L) v k hne (all_alnum hal) hp
        refine ⟨.num ((arith L).ofInt k), by simp [classify, hc], ?_⟩
        exact toRat?_ofInt hr
      · simp [hal] at h
    | none =>
      rw [hp] at h
      simp only at h
      by_cases hv : (validVariableName v && (F64.parseFloat v).isNone) = true
      · simp only [hv, if_true] at h
        obtain ⟨e, hr⟩ := inRange_some h
        simp only [Bool.and_eq_true, Option.isNone_iff_eq_none] at hv
        obtain ⟨hvn, hpf⟩ := hv
        have hcl : classify (arith L) v = some (.named v) := by
          cases v with
          | nil => simp [validVariableName] at hvn
          | cons c r =>
            have hc : isAlpha c = true := by
              simp only [validVariableName, Bool.and_eq_true] at hvn; exact hvn.1
            obtain ⟨hd, h46⟩ := alpha_facts c hc
            have hpl : (arith L).parseFloat (c :: r) = .notNum := by
              show parseLit (c :: r) = _
              unfold parseLit; rw [hpf]
            have hu : parseIntU (c :: r) = none := by
              unfold parseIntU; rw [varname_no_underscore hvn]; exact hp
            simp [classify, classifyE, hbox, parseNum, hu, hpl, hvn]
        refine ⟨.named v, hcl, ?_⟩
        have := hb.1 v (by rw [e]; exact hr)
        rw [e] at this
        exact this
      · simp [hv] at h

theorem intEval_sound {ib : Binding Int} {b : Binding F64} (hb : IntBinding ib b) : ∀ (t : Tree) (n : Int),
    Tree.intEval ib t = some n → (t.eval (arith L) (classify (arith L)) b).toRat? = some (n : Rat) := by
  intro t
  induction t with
  | lit v =>
    intro n h
    obtain ⟨a, hc, hv⟩ := intLeaf_sound L hb v n h
    simp only [Tree.eval, hc]; exact hv
  | grp s e ih => intro n h; exact ih n h
  | un m e ih =>
    intro n h
    simp only [Tree.intEval] at h
    cases he : Tree.intEval ib e with
    | none => rw [he] at h; cases h
    | some x =>
      rw [he] at h
      simp only at h
      by_cases hm : m = [45]
      · subst hm
        simp only [if_true] at h
        obtain ⟨e1, _⟩ := inRange_some h
        subst e1
        simp only [Tree.eval, un_neg]
        have := toRat?_neg (ih x he)
        rw [Rat.intCast_neg]; exact this
      · simp [hm] at h
  | bin i op l r ihl ihr =>
    intro n h
    simp only [Tree.intEval] at h
    cases hl : Tree.intEval ib l with
    | none => rw [hl] at h; cases h
    | some a =>
      cases hr : Tree.intEval ib r with
      | none => rw [hl, hr] at h; cases h
      | some c =>
        rw [hl, hr] at h
        simp only at h
        have ha := ihl a hl
        have hc := ihr c hr
        simp only [Tree.eval]
        by_cases h1 : op = [43]
        · subst h1
          simp only [if_true] at h
          obtain ⟨e1, hb1⟩ := inRange_some h
          subst e1
          rw [bin_add]; exact add_exact_int ha hc hb1
        simp only [h1, if_false] at h
        by_cases h2 : op = [45]
        · subst h2
          simp only [if_true] at h
          obtain ⟨e1, hb1⟩ := inRange_some h
          subst e1
          rw [bin_sub]; exact sub_exact_int ha hc hb1
        simp only [h2, if_false] at h
        by_cases h3 : op = [42]
        · subst h3
          simp only [if_true] at h
          obtain ⟨e1, hb1⟩ := inRange_some h
          subst e1
          rw [bin_mul]; exact mul_exact_int ha hc hb1
        simp only [h3, if_false] at h
        by_cases h4 : op = [60]
        · subst h4
          simp only [if_true] at h
          injection h with h; subst h
          rw [bin_lt, lt_int ha hc]; exact toRat?_cond _
        simp only [h4, if_false] at h
        by_cases h5 : op = [60, 61]
        · subst h5
          simp only [if_true] at h
          injection h with h; subst h
          rw [bin_le, le_int ha hc]; exact toRat?_cond _
        simp only [h5, if_false] at h
        by_cases h6 : op = [62]
        · subst h6
          simp only [if_true] at h
          injection h with h; subst h
          rw [bin_gt, lt_int hc ha]; exact toRat?_cond _
        simp only [h6, if_false] at h
        by_cases h7 : op = [62, 61]
        · subst h7
          simp only [if_true] at h
          injection h with h; subst h
          rw [bin_ge, le_int hc ha]; exact toRat?_cond _
        simp only [h7, if_false] at h
        by_cases h8 : op = [61, 61]
        · subst h8
          simp only [if_true] at h
          injection h with h; subst h
          rw [bin_eq, eq_int ha hc]; exact toRat?_cond _
        simp [h8] at h

/-- A non-zero integer value within ±2^53 is rendered as that integer (`strconv.Itoa`). -/
theorem render_int {x : F64} {n : Int} (h : x.toRat? = some (n : Rat)) (hn : n ≠ 0)
    (hr : n.natAbs ≤ 9007199254740992) : render x = itoa n := by
  obtain ⟨hf, hv⟩ := toRat?_eq_some.mp h
  obtain ⟨hf', hv'⟩ := isFinite_ofInt n hr
  have hne : x.toRat ≠ 0 := by
    rw [hv]; intro e
    have : (n : Rat) = ((0 : Int) : Rat) := e
    exact hn (Rat.intCast_inj.mp this)
  have : x = ofInt n := eq_of_toRat_eq hf hf' (by rw [hv, hv']) hne
  rw [this]
  exact format_ofInt hr

/-! ### NaN -/

theorem isNaN_nan : F64.nan.isNaN = true := by decide

theorem isNaN_neg (x : F64) : (neg x).isNaN = x.isNaN := by
  unfold isNaN; rw [mag_neg]

theorem add_nan {a b : F64} (h : a.isNaN = true ∨ b.isNaN = true) : add a b = F64.nan := by
  unfold add
  rcases h with h | h <;> simp [h]

theorem sub_nan {a b : F64} (h : a.isNaN = true ∨ b.isNaN = true) : sub a b = F64.nan := by
  unfold sub
  apply add_nan
  rw [isNaN_neg]; exact h

theorem mul_nan {a b : F64} (h : a.isNaN = true ∨ b.isNaN = true) : mul a b = F64.nan := by
  unfold mul
  rcases h with h | h <;> simp [h]

theorem div_nan {a b : F64} (h : a.isNaN = true ∨ b.isNaN = true) : div a b = F64.nan := by
  unfold div
  rcases h with h | h <;> simp [h]

theorem lt_nan {a b : F64} (h : a.isNaN = true ∨ b.isNaN = true) : lt a b = false := by
  unfold lt
  rcases h with h | h <;> simp [h]

theorem le_nan {a b : F64} (h : a.isNaN = true ∨ b.isNaN = true) : le a b = false := by
  unfold le
  rcases h with h | h <;> simp [h]

theorem eq_nan {a b : F64} (h : a.isNaN = true ∨ b.isNaN = true) : F64.eq a b = false := by
  unfold F64.eq
  rcases h with h | h <;> simp [h]

theorem truthy_nan {a : F64} (h : a.isNaN = true) : truthy a = true := by
  unfold truthy
  rw [eq_nan (Or.inl h)]; rfl

theorem integral_nan (f : Rat → Int) {a : F64} (h : a.isNaN = true) : integral f a = F64.nan := by
  unfold integral; simp [h]

theorem sqrt_nan {a : F64} (h : a.isNaN = true) : sqrt a = F64.nan := by
  unfold sqrt; simp [h]

theorem abs_isNaN (a : F64) : (F64.abs a).isNaN = a.isNaN := by
  unfold F64.abs isNaN
  rw [mag_ofSM false (mag_lt a)]

/-! ### `math.Pow`'s leading special cases -/

theorem eq_zero_of_mag {y : F64} (h : y.mag = 0) : F64.eq y zeroP = true := by
  have hk : y.key = 0 := by unfold key; rw [h]; split <;> rfl
  have hn : y.isNaN = false := by unfold isNaN; rw [h]; decide
  unfold F64.eq
  rw [hn, hk]; decide

theorem pow_y_zero {x y : F64} (h : y.mag = 0) : powCore x y = some one := by
  unfold powCore powSpecial
  rw [eq_zero_of_mag h]; rfl

theorem eq_self_one : F64.eq one one = true := by decide

theorem pow_one_y (y : F64) : powCore one y = some one := by
  unfold powCore powSpecial
  rw [eq_self_one, Bool.or_true]; rfl

/-- `==` on a non-NaN pattern and itself, and `x == 1` only for `x = 1`. -/
theorem eq_one_iff (x : F64) : F64.eq x one = true ↔ x = one := by
  constructor
  · intro h
    unfold F64.eq at h
    simp only [Bool.and_eq_true, Bool.not_eq_true', decide_eq_true_eq] at h
    obtain ⟨_, hk⟩ := h
    have h1 : one.key = 4607182418800017408 := by decide
    rw [h1] at hk
    have hs : x.sign = false := by
      cases hs : x.sign with
      | false => rfl
      | true => unfold key at hk; rw [hs] at hk; simp at hk; omega
    have hm : x.mag = 4607182418800017408 := by
      unfold key at hk; rw [hs] at hk; simp at hk; omega
    rw [← ofSM_sign_mag x, hs, hm]; rfl
  · intro h; subst h; decide

theorem pow_x_one {x : F64} (h : x ≠ one) : powCore x one = some x := by
  have h1 : F64.eq x one = false := by
    cases hx : F64.eq x one with
    | false => rfl
    | true => exact absurd ((eq_one_iff x).mp hx) h
  have h2 : F64.eq one zeroP = false := by decide
  unfold powCore powSpecial
  rw [h2, h1, eq_self_one]; rfl

theorem eq_zero_iff_mag (y : F64) (_hn : y.isNaN = false) : F64.eq y zeroP = true ↔ y.mag = 0 := by
  constructor
  · intro h
    unfold F64.eq at h
    simp only [Bool.and_eq_true, decide_eq_true_eq] at h
    have hz : zeroP.key = 0 := by decide
    have hk := h.2
    rw [hz] at hk
    unfold key at hk
    split at hk <;> omega
  · exact eq_zero_of_mag

theorem pow_nan_x {x y : F64} (hx : x.isNaN = true) (hy : y.mag ≠ 0) :
    ∃ r, powCore x y = some r ∧ r.isNaN = true := by
  have h1 : F64.eq y zeroP = false := by
    cases hy0 : F64.eq y zeroP with
    | false => rfl
    | true =>
      have : y.isNaN = false := by unfold F64.eq at hy0; simp at hy0; exact hy0.1.1
      exact absurd ((eq_zero_iff_mag y this).mp hy0) hy
  have h2 : F64.eq x one = false := eq_nan (Or.inl hx)
  cases h3 : F64.eq y one with
  | false =>
    refine ⟨F64.nan, ?_, isNaN_nan⟩
    unfold powCore powSpecial
    simp [h1, h2, h3, hx]
  | true =>
    -- `Pow(NaN, 1)` returns `x` itself
    have := (eq_one_iff y).mp h3
    subst this
    have hne : x ≠ one := by intro e; subst e; exact absurd hx (by decide)
    exact ⟨x, pow_x_one hne, hx⟩

theorem pow_nan_y {x y : F64} (hy : y.isNaN = true) (hx : x ≠ one) : powCore x y = some F64.nan := by
  have h1 : F64.eq y zeroP = false := eq_nan (Or.inl hy)
  have h2 : F64.eq x one = false := by
    cases hx1 : F64.eq x one with
    | false => rfl
    | true => exact absurd ((eq_one_iff x).mp hx1) hx
  have h3 : F64.eq y one = false := eq_nan (Or.inl hy)
  unfold powCore powSpecial
  simp [h1, h2, h3, hy]

theorem pow_half {x : F64} (hf : x.isFinite = true) (hz : x.mag ≠ 0) (h1 : x ≠ one) :
    powCore x half = some (sqrt x) := by
  have hn := not_nan_of_finite hf
  have hi := not_inf_of_finite hf
  have e1 : F64.eq half zeroP = false := by decide
  have e2 : F64.eq x one = false := by
    cases hx1 : F64.eq x one with
    | false => rfl
    | true => exact absurd ((eq_one_iff x).mp hx1) h1
  have e3 : F64.eq half one = false := by decide
  have e4 : half.isNaN = false := by decide
  have e5 : F64.eq x zeroP = false := by
    cases hx0 : F64.eq x zeroP with
    | false => rfl
    | true => exact absurd ((eq_zero_iff_mag x hn).mp hx0) hz
  have e6 : half.isInf = false := by decide
  have e7 : F64.eq half half = true := by decide
  unfold powCore powSpecial
  simp [e1, e2, e3, e4, e5, e6, e7, hn, hi]

/-! ### the guarded integer operators -/

theorem mod_zero {a b : F64} (h : toInt64 b = 0) : intBinF modI a b = F64.nan := by
  unfold intBinF modI; simp [h]

theorem mod_nonzero {a b : F64} (h : toInt64 b ≠ 0) :
    intBinF modI a b = ofInt (Int.tmod (toInt64 a) (toInt64 b)) := by
  unfold intBinF modI; simp [h]

/-- `int64(x)` truncates toward zero inside the int64 range. -/
theorem toInt64_trunc {x : F64} (hf : x.isFinite = true) (h1 : minInt64 ≤ truncRat x.toRat)
    (h2 : truncRat x.toRat ≤ maxInt64) : toInt64 x = truncRat x.toRat := by
  unfold toInt64
  have : ¬ (truncRat x.toRat < minInt64 ∨ maxInt64 < truncRat x.toRat) := by omega
  simp [hf, this]

theorem shl_neg {a b : F64} (h : toInt64 b < 0) : intBinF shlI a b = F64.nan := by
  unfold intBinF shlI; simp [h]

theorem shr_neg {a b : F64} (h : toInt64 b < 0) : intBinF shrI a b = F64.nan := by
  unfold intBinF shrI; simp [h]

end Rare.C19.IEEE
