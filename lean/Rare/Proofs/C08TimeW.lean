import Rare.Proofs.C08Arith
import Rare.Model.Expr.Funcs.TimeW
/-!
C08 for the time helpers (`Funcs/TimeW.lean`): `time`, `timeformat`, `timeattr`, `buckettime`, `duration`,
`durationformat` are panic-free on safe arguments in EVERY time world whose oracles return – any zone
database (`lookup`, `zones`, `loadOk`), any `dateparse` behaviour, any wall clock.
-/
namespace Rare.Expr.Funcs.TimeW
open Rare Rare.Expr

/-- The calls into the world return (they may answer anything). -/
structure TimeWorld.Returns (w : TimeWorld) : Prop where
  lookup : ∀ l u, Safe (w.lookup l u)
  detect : ∀ s, Safe (w.detect s)
  parseAny : ∀ l s, Safe (w.parseAny l s)
  nowBuild : Safe w.nowBuild
  nowLive : Safe w.nowLive
  nowDelta : Safe w.nowDelta
  lib : ∀ r, Safe (w.lib r)

variable {w : TimeWorld}

theorem SafeResult.errParsing : SafeResult errParsing := SafeResult.stageErr _ _

theorem lookupL_safe (hw : w.Returns) (loc : C18.Loc) (sec : Int) : Safe (lookupL w loc sec) := by
  unfold lookupL
  split
  · exact .ret _
  · exact hw.lookup _ _

theorem lookupNameFirst_safe (hw : w.Returns) (loc : C18.Loc) (name : Bytes) (unix : Int) :
    ∀ zs, Safe (lookupNameFirst w loc name unix zs) := by
  intro zs
  induction zs with
  | nil => exact .ret _
  | cons z rest ih =>
    obtain ⟨zn, zoff⟩ := z
    simp only [lookupNameFirst]
    split
    · refine Safe.bind' (lookupL_safe hw _ _) fun z => ?_
      split
      · exact Safe.pure _
      · exact ih
    · exact ih

theorem lookupName_safe (hw : w.Returns) (loc : C18.Loc) (name : Bytes) (unix : Int) :
    Safe (lookupName w loc name unix) := by
  unfold lookupName
  refine Safe.bind' (lookupNameFirst_safe hw _ _ _ _) fun r => ?_
  split
  · exact Safe.pure _
  · split <;> exact Safe.pure _

theorem dateResolve_safe (hw : w.Returns) (loc : C18.Loc) (wall : Int) : Safe (dateResolve w loc wall) := by
  unfold dateResolve
  refine Safe.bind' (lookupL_safe hw _ _) fun z => ?_
  split
  · simp only []
    split
    · exact Safe.bind' (lookupL_safe hw _ _) fun _ => Safe.pure _
    · exact Safe.pure _
  · exact Safe.pure _

theorem timeOfParsed_safe (hw : w.Returns) (loc : C18.Loc) (p : C18.Parsed) : Safe (timeOfParsed w loc p) := by
  unfold timeOfParsed
  simp only []
  split
  · exact .ret _
  · exact .ret _
  · refine Safe.bind' (lookupName_safe hw _ _ _) fun r => ?_
    split
    · exact Safe.bind' (lookupL_safe hw _ _) fun _ => Safe.pure _
    · exact Safe.pure _
  · exact Safe.bind' (dateResolve_safe hw _ _) fun _ => Safe.bind' (lookupL_safe hw _ _) fun _ => Safe.pure _

theorem formatR_safe (hw : w.Returns) (layout : Bytes) (t : TimeR) : Safe (formatR w layout t) := by
  unfold formatR
  split
  · exact .ret _
  · exact hw.lib _

theorem timeAt_safe (hw : w.Returns) (loc : C18.Loc) (unix : Int) : Safe (timeAt w loc unix) := by
  unfold timeAt
  exact Safe.bind' (lookupL_safe hw _ _) fun _ => Safe.pure _

theorem parseThen_safe (hw : w.Returns) (loc : C18.Loc) (layout str : Bytes) (f : TimeR → Comp Bytes)
    (hf : ∀ t, Safe (f t)) : Safe (parseThen w loc layout str f) := by
  unfold parseThen
  split
  · exact hw.lib _
  · split
    · exact Safe.bind' (timeOfParsed_safe hw _ _) fun t => hf t
    · exact .ret _

theorem touchUnless_safe (c : Bool) (k : Comp Bytes) (h : Safe k) : Safe (touchUnless c k) := by
  unfold touchUnless
  split
  · exact h
  · exact .getMatch _ _ fun _ => h

theorem smartDateParse_safe (hw : w.Returns) (format : Bytes) (loc : C18.Loc) (dateStage : Stage)
    (f : TimeR → Comp Bytes) (hd : Safe dateStage) (hf : ∀ t, Safe (f t)) :
    ∃ st, smartDateParse w format loc dateStage f = .ok st ∧ Safe st := by
  unfold smartDateParse
  split
  · refine ⟨_, rfl, Safe.bind' hd fun s => Safe.bind' (hw.parseAny _ _) fun r => ?_⟩
    split
    · exact Safe.pure _
    · exact hf _
  · obtain ⟨v, b, hp⟩ := hd.probe
    rw [hp]
    refine ⟨_, rfl, Safe.bind' hd fun s => ?_⟩
    split
    · exact Safe.pure _
    · refine touchUnless_safe _ _ (Safe.bind' (hw.detect _) fun live => ?_)
      split
      · exact Safe.pure _
      · exact parseThen_safe hw _ _ _ _ hf
  · exact ⟨_, rfl, Safe.bind' hd fun s => parseThen_safe hw _ _ _ _ hf⟩

theorem SafeResult.decline (hw : w.Returns) (why : String) : SafeResult (declineBuild w why) := by
  refine ⟨_, rfl, fun s hs => ?_⟩
  simp only [Option.some.injEq] at hs
  subst hs
  exact hw.lib _

theorem evalIdx_ok {args : List Stage} (h : ∀ a ∈ args, Safe a) (i : Nat) (d : Bytes) :
    ∃ v, evalStageIndexOrDefault args i d = .ok v := by
  unfold evalStageIndexOrDefault
  cases hi : args[i]? with
  | none => exact ⟨_, rfl⟩
  | some st =>
    have hs : Safe st := h st (List.mem_of_getElem? hi)
    obtain ⟨v, b, hp⟩ := hs.probe
    simp only [hp]
    cases b <;> exact ⟨_, rfl⟩

theorem kfTimeParse_safe (hw : w.Returns) : SafeBuilder (kfTimeParse w) := by
  intro args h
  show SafeResult _
  unfold kfTimeParse
  split
  · exact SafeResult.errArgCount
  · rename_i a0 rest
    have h0 : Safe a0 := h a0 (by simp)
    split
    · exact SafeResult.errArgCount
    · obtain ⟨val, isStatic, hp⟩ := h0.probe
      rw [hp]
      simp only []
      split
      · exact SafeResult.decline hw _
      split
      · exact SafeResult.ok hw.nowBuild
      split
      · exact SafeResult.ok (.getMatch _ _ fun _ => hw.nowLive)
      split
      · exact SafeResult.ok (.getMatch _ _ fun _ => hw.nowDelta)
      · obtain ⟨f, hf⟩ := evalIdx_ok h 1 []
        obtain ⟨tz, htz⟩ := evalIdx_ok h 2 []
        rw [hf, htz]
        simp only []
        split
        · exact SafeResult.decline hw _
        · split
          · exact SafeResult.decline hw _
          · exact TimeW.SafeResult.errParsing
          · rename_i loc _
            obtain ⟨st, hst, hs⟩ := smartDateParse_safe hw f loc a0 (fun t => .ret (itoa t.unix)) h0 (fun _ => .ret _)
            rw [hst]
            exact SafeResult.ok hs

theorem kfTimeFormat_safe (hw : w.Returns) : SafeBuilder (kfTimeFormat w) := by
  intro args h
  show SafeResult _
  unfold kfTimeFormat
  split
  · exact SafeResult.errArgCount
  · rename_i a0 rest
    have h0 : Safe a0 := h a0 (by simp)
    split
    · exact SafeResult.errArgCount
    · obtain ⟨f, hf⟩ := evalIdx_ok h 1 C18.rfc3339
      obtain ⟨tz, htz⟩ := evalIdx_ok h 2 []
      rw [hf, htz]
      simp only []
      split
      · exact SafeResult.decline hw _
      · split
        · exact SafeResult.decline hw _
        · exact TimeW.SafeResult.errParsing
        · refine SafeResult.ok (Safe.bind' h0 fun s => ?_)
          split
          · exact Safe.pure _
          · exact Safe.bind' (timeAt_safe hw _ _) fun t => formatR_safe hw _ _

theorem kfDuration_safe (hw : w.Returns) : SafeBuilder (kfDuration w) := by
  intro args h
  show SafeResult _
  unfold kfDuration
  split
  · rename_i a0
    refine SafeResult.ok (Safe.bind' (h a0 (by simp)) fun s => ?_)
    split
    · exact Safe.pure _
    · exact hw.lib _
  · exact SafeResult.errArgCount

theorem kfDurationFormat_safe (hw : w.Returns) : SafeBuilder (kfDurationFormat w) := by
  intro args h
  show SafeResult _
  unfold kfDurationFormat
  split
  · rename_i a0
    refine SafeResult.ok (Safe.bind' (h a0 (by simp)) fun s => ?_)
    split
    · exact Safe.pure _
    · exact hw.lib _
  · exact SafeResult.errArgCount

theorem kfBucketTime_safe (hw : w.Returns) : SafeBuilder (kfBucketTime w) := by
  intro args h
  show SafeResult _
  unfold kfBucketTime
  split
  · rename_i a0 a1 rest
    have h0 : Safe a0 := h a0 (by simp)
    have h1 : Safe a1 := h a1 (by simp)
    split
    · exact SafeResult.errArgCount
    · obtain ⟨v, b, hp⟩ := h1.probe
      rw [hp]
      cases b with
      | false => exact SafeResult.errConst
      | true =>
        simp only []
        split
        · exact SafeResult.decline hw _
        · split
          · exact SafeResult.errEnum
          · obtain ⟨f, hf⟩ := evalIdx_ok h 2 []
            obtain ⟨tz, htz⟩ := evalIdx_ok h 3 []
            rw [hf, htz]
            simp only []
            split
            · exact SafeResult.decline hw _
            · split
              · exact SafeResult.decline hw _
              · exact TimeW.SafeResult.errParsing
              · rename_i loc _
                obtain ⟨st, hst, hs⟩ := smartDateParse_safe hw f loc a0
                  (fun t => formatR w (C18.timeBucketToFormat C18.bucketTable v) t) h0 (fun t => formatR_safe hw _ t)
                rw [hst]
                exact SafeResult.ok hs
  · exact SafeResult.errArgCount

theorem attrStage_safe (hw : w.Returns) (attr : Bytes) (loc : C18.Loc) {a0 : Stage} (h0 : Safe a0) :
    Safe (attrStage w attr loc a0) := by
  unfold attrStage
  refine Safe.bind' h0 fun s => ?_
  split
  · exact Safe.pure _
  · refine Safe.bind' (timeAt_safe hw _ _) fun t => ?_
    split
    · exact hw.lib _
    · split
      · exact Safe.pure _
      · exact hw.lib _

theorem kfTimeAttr_safe (hw : w.Returns) : SafeBuilder (kfTimeAttr w) := by
  intro args h
  show SafeResult _
  unfold kfTimeAttr
  split
  · rename_i a0 a1 rest
    have h0 : Safe a0 := h a0 (by simp)
    have h1 : Safe a1 := h a1 (by simp)
    split
    · exact SafeResult.errArgCount
    · obtain ⟨v, b, hp⟩ := h1.probe
      rw [hp]
      cases b with
      | false => exact SafeResult.errConst
      | true =>
        simp only []
        obtain ⟨tz, htz⟩ := evalIdx_ok h 2 []
        rw [htz]
        simp only []
        split
        · exact SafeResult.decline hw _
        · split
          · exact SafeResult.decline hw _
          · exact TimeW.SafeResult.errParsing
          · split
            · exact SafeResult.errEnum
            · exact SafeResult.ok (attrStage_safe hw _ _ h0)
  · exact SafeResult.errArgCount

/-- Every time helper is a safe builder in every world whose oracles return. -/
theorem time_safe (w : TimeWorld) (hw : w.Returns) : ∀ p ∈ table w, SafeBuilder p.2 := by
  intro p hp
  simp only [table, List.mem_cons, List.not_mem_nil, or_false] at hp
  rcases hp with e | e | e | e | e | e <;> subst e
  · exact kfTimeParse_safe hw
  · exact kfTimeFormat_safe hw
  · exact kfTimeAttr_safe hw
  · exact kfBucketTime_safe hw
  · exact kfDuration_safe hw
  · exact kfDurationFormat_safe hw

end Rare.Expr.Funcs.TimeW
