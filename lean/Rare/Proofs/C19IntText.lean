import Rare.Proofs.C19F64c
import Rare.Proofs.F64Parse
import Rare.Proofs.F64Val
/-!
C19, round 4b: a decimal integer as CONSTANT of a formula (`strconv.ParseInt(s, 0, 64)`, then `float64(n)`) and as
the TEXT a variable is bound to (`strconv.ParseFloat(s, 64)` in the wrapper's look-up) denote the same binary64
value – for every int64, not only below 2^53 (both round the integer once, to nearest even).  With a leading
`-` the bound text denotes the negation, which is what the formula `-n` (unary minus applied to the constant)
evaluates to.
-/
namespace Rare.C19
open Rare Rare.F64 Rare.C19.IEEE

theorem dec_digit_facts : ∀ b : UInt8, isBaseDigit 10 b = true → isDigitB b = true ∧ litDigit b = b.toNat - 48 := by
  apply byte_forall
  decide +kernel

theorem baseVal_foldl_digitsVal : ∀ (ds : Bytes) (acc : Nat), (∀ d ∈ ds, isBaseDigit 10 d = true) →
    ds.foldl (fun a d => a * 10 + litDigit d) acc = digitsVal ds acc := by
  intro ds
  induction ds with
  | nil => intro acc _; rfl
  | cons d r ih =>
    intro acc h
    simp only [List.foldl_cons, digitsVal, (dec_digit_facts d (h d (by simp))).2]
    exact ih _ (fun x hx => h x (by simp [hx]))

theorem baseVal_digitsVal (ds : Bytes) (h : ∀ d ∈ ds, isBaseDigit 10 d = true) :
    baseVal 10 ds = digitsVal ds 0 := baseVal_foldl_digitsVal ds 0 h

theorem all_isDigitB (ds : Bytes) (h : ∀ d ∈ ds, isBaseDigit 10 d = true) : ds.all isDigitB = true := by
  rw [List.all_eq_true]
  intro d hd
  exact (dec_digit_facts d (h d hd)).1

/-- `ParseFloat` of a decimal integer text up to 2^63 is `float64` of the integer. -/
theorem parseFloat_dec_int (ds : Bytes) (hne : ds ≠ []) (hd : ∀ d ∈ ds, isBaseDigit 10 d = true)
    (hr : baseVal 10 ds ≤ 9223372036854775808) :
    F64.parseFloat ds = some (ofInt (baseVal 10 ds)) := by
  have h := parseFloat_digits none ds hne (all_isDigitB ds hd) (Or.inl rfl) (by rw [← baseVal_digitsVal ds hd]; exact hr)
  simp only [List.nil_append] at h
  rw [h, ← baseVal_digitsVal ds hd]
  rfl

theorem ofRatS_neg_pos {q : Rat} (hq : 0 < q) : ofRatS true (-q) = F64.neg (ofRatS false q) := by
  have hq0 : q ≠ 0 := by grind
  have hn0 : -q ≠ 0 := by grind
  have hnlt : ¬ q < 0 := by grind
  have hneg : -q < 0 := by grind
  have ha1 : absRat (-q) = q := by unfold absRat; simp [hneg]
  have ha2 : absRat q = q := by unfold absRat; simp [hnlt]
  unfold ofRatS
  simp only [hq0, hn0, if_false, hneg, hnlt, decide_true, decide_false, ha1, ha2]
  have hm := roundMag_lt_P63 q
  unfold F64.neg
  rw [sign_ofSM false hm, mag_ofSM false hm]
  rfl

theorem ofRatS_neg_nat (n : Nat) : ofRatS true (-(n : Rat)) = F64.neg (ofInt (n : Int)) := by
  have e : ((n : Int) : Rat) = (n : Rat) := rfl
  unfold ofInt ofRat
  rw [e]
  by_cases h0 : n = 0
  · subst h0; decide +kernel
  · exact ofRatS_neg_pos (by
      have : 0 < n := Nat.pos_of_ne_zero h0
      exact_mod_cast this)

/-- …and with a leading `-` the negation of it (also for 0: `-0`). -/
theorem parseFloat_neg_dec_int (ds : Bytes) (hne : ds ≠ []) (hd : ∀ d ∈ ds, isBaseDigit 10 d = true)
    (hr : baseVal 10 ds ≤ 9223372036854775808) :
    F64.parseFloat (45 :: ds) = some (F64.neg (ofInt (baseVal 10 ds))) := by
  have h := parseFloat_digits (some 45) ds hne (all_isDigitB ds hd) (Or.inr (Or.inr rfl))
    (by rw [← baseVal_digitsVal ds hd]; exact hr)
  simp only [List.cons_append, List.nil_append] at h
  rw [h, ← baseVal_digitsVal ds hd]
  congr 1
  simp only [beq_self_eq_true, if_true]
  exact ofRatS_neg_nat _

theorem digit_not_alpha : ∀ b : UInt8, isDigitB b = true → isAlpha b = false := by
  apply byte_forall
  decide +kernel

theorem parseIntLit_dec_big(ds : Bytes) (hne : ds ≠ []) (h0 : ds.head? ≠ some 48)
    (hd : ∀ d ∈ ds, isBaseDigit 10 d = true) (hr : ¬ baseVal 10 ds ≤ 9223372036854775807) :
    parseIntLit ds = none := by
  have hdb := digitsBase_spec 10 ds 0 hd
  have hv : ds.foldl (fun a d => a * 10 + litDigit d) 0 = baseVal 10 ds := rfl
  rw [hv] at hdb
  cases ds with
  | nil => exact absurd rfl hne
  | cons d r =>
    have hd0 : d ≠ 48 := by intro e; subst e; simp at h0
    unfold parseIntLit
    split
    · rename_i heq; cases heq
    · rename_i heq; injection heq with h1 _; exact absurd h1 hd0
    · simp [hdb, hr]

/-- **A decimal integer spelling (no leading zero, ANY length) reads the same as constant and as bound text**:
    what `compileToken` makes of the token (`ParseInt(s, 0, 64)` then `float64`, or – beyond int64 –
    `ParseFloat`) is what `ParseFloat` makes of the same text in the wrapper's look-up; a spelling too long
    for `ParseFloat` (≥ 1.8e308) is neither a constant nor a legal binding. -/
theorem classify_dec (L : Libm) (ds : Bytes) (hne : ds ≠ []) (h0 : ds.head? ≠ some 48)
    (hd : ∀ d ∈ ds, isBaseDigit 10 d = true) :
    classify (arith L) ds = (F64.parseFloat ds).map Atom.num := by
  have hal : ∀ b ∈ ds, isAlnumB b = true := by
    intro b hb
    have := hd b hb
    simp only [isBaseDigit, Bool.and_eq_true] at this
    exact this.1
  by_cases hr : baseVal 10 ds ≤ 9223372036854775807
  · have hcl := classifyE_int (arith L) ds _ hne hal (parseIntLit_dec ds hne h0 hd hr)
    rw [parseFloat_dec_int ds hne hd (by omega)]
    simp only [classify, hcl, Option.map_some]
    rfl
  · have hp := parseIntLit_dec_big ds hne h0 hd hr
    cases ds with
    | nil => exact absurd rfl hne
    | cons c r =>
      have hc := alnum_facts c (hal c (by simp))
      have hbox : isBoxed (c :: r) = false := by
        have : ¬ (c = 91) := hc.2.2.2.2.1
        simp [isBoxed, this]
      have hund : (c :: r).contains 95 = false := by
        cases hx : (c :: r).contains 95 with
        | false => rfl
        | true =>
          have hm : (95 : UInt8) ∈ c :: r := by simpa using hx
          exact absurd rfl (alnum_facts 95 (hal 95 hm)).2.2.2.1
      have hu : parseIntU (c :: r) = none := by
        unfold parseIntU; rw [hund]; exact hp
      have hpl : (arith L).parseFloat (c :: r) = parseLit (c :: r) := rfl
      have hvar : validVariableName (c :: r) = false := by
        have hdig := (dec_digit_facts c (hd c (by simp))).1
        have : isAlpha c = false := digit_not_alpha c hdig
        simp [validVariableName, this]
      simp only [classify, classifyE, hbox, Bool.false_eq_true, if_false, parseNum, hu, hpl, parseLit]
      cases F64.parseFloat (c :: r) with
      | none => simp [hvar]
      | some x => rfl

end Rare.C19
