import Rare.Model.PipelineTrace
import Rare.Proofs.Pipeline
import Rare.Proofs.Batcher
import Rare.Proofs.TraceOrder
/-!
The named, executable transition function `Pipeline.apply` is exactly the transition relation
`Pipeline.Step`; a successful replay of logged events is a labelled path, hence a path of `Step`.
-/
namespace Rare.Pipeline

variable {α : Type}

theorem apply_sound {cls : α → Cls} {R B K : Nat} {s s' : St α} {l : Label}
    (h : apply cls R B K s l = some s') : Step cls R B K s s' := by
  cases l with
  | start i =>
    simp only [apply] at h
    split at h
    · rename_i bs hs
      split at h
      · rename_i hlt
        simp only [Option.some.injEq] at h; subst h
        exact .start s i bs hs hlt
      · simp at h
    · simp at h
  | send i =>
    simp only [apply] at h
    split at h
    · rename_i b bs hs
      split at h
      · rename_i hlt
        simp only [Option.some.injEq] at h; subst h
        exact .send s i b bs hs hlt
      · simp at h
    · simp at h
  | finish i =>
    simp only [apply] at h
    split at h
    · rename_i hs
      simp only [Option.some.injEq] at h; subst h
      exact .finish s i hs
    · simp at h
  | closeC =>
    simp only [apply] at h
    split at h
    · rename_i hc
      simp only [Option.some.injEq] at h; subst h
      exact .closeC s hc.1 hc.2
    · simp at h
  | wrecv j =>
    simp only [apply] at h
    split at h
    · rename_i b rest hw hc
      simp only [Option.some.injEq] at h; subst h
      exact .wrecv s j b rest hw hc
    · simp at h
  | wproc j =>
    simp only [apply] at h
    split at h
    · rename_i x todo acc hw
      simp only [Option.some.injEq] at h; subst h
      exact .wproc s j x todo acc hw
    · simp at h
  | wsend j =>
    simp only [apply] at h
    split at h
    · rename_i a acc hw
      split at h
      · rename_i hlt
        simp only [Option.some.injEq] at h; subst h
        exact .wsend s j (a :: acc) hw (by simp) hlt
      · simp at h
    · simp at h
  | wskip j =>
    simp only [apply] at h
    split at h
    · rename_i hw
      simp only [Option.some.injEq] at h; subst h
      exact .wskip s j hw
    · simp at h
  | wexit j =>
    simp only [apply] at h
    split at h
    · rename_i hw hc
      split at h
      · rename_i hcl
        simp only [Option.some.injEq] at h; subst h
        exact .wexit s j hw hc hcl
      · simp at h
    · simp at h
  | closeRC =>
    simp only [apply] at h
    split at h
    · rename_i hc
      simp only [Option.some.injEq] at h; subst h
      exact .closeRC s hc.1 hc.2
    · simp at h
  | crecv =>
    simp only [apply] at h
    split at h
    · rename_i m rest hrc
      split at h
      · rename_i hd
        simp only [Option.some.injEq] at h; subst h
        exact .crecv s m rest hrc hd
      · simp at h
    · simp at h
  | cdone =>
    simp only [apply] at h
    split at h
    · rename_i hrc
      split at h
      · rename_i hd
        simp only [Option.some.injEq] at h; subst h
        exact .cdone s hrc hd.1 hd.2
      · simp at h
    · simp at h

/-- Every transition of the relation has a name: `apply` is not a restriction of `Step`. -/
theorem apply_complete {cls : α → Cls} {R B K : Nat} {s s' : St α}
    (h : Step cls R B K s s') : ∃ l, apply cls R B K s l = some s' := by
  cases h with
  | start i bs hs hlt => exact ⟨.start i, by simp [apply, hs, hlt]⟩
  | send i b bs hs hlt => exact ⟨.send i, by simp [apply, hs, hlt]⟩
  | finish i hs => exact ⟨.finish i, by simp [apply, hs]⟩
  | closeC h1 h2 => exact ⟨.closeC, by simp only [apply]; rw [if_pos ⟨h1, h2⟩]⟩
  | wrecv j b rest hw hc => exact ⟨.wrecv j, by simp [apply, hw, hc]⟩
  | wproc j x todo acc hw => exact ⟨.wproc j, by simp [apply, hw]⟩
  | wsend j acc hw hne hlt =>
    cases acc with
    | nil => exact absurd rfl hne
    | cons a acc => exact ⟨.wsend j, by simp [apply, hw, hlt]⟩
  | wskip j hw => exact ⟨.wskip j, by simp [apply, hw]⟩
  | wexit j hw hc hcl => exact ⟨.wexit j, by simp [apply, hw, hc, hcl]⟩
  | closeRC h1 h2 => exact ⟨.closeRC, by simp only [apply]; rw [if_pos ⟨h1, h2⟩]⟩
  | crecv m rest hrc hd => exact ⟨.crecv, by simp [apply, hrc, hd]⟩
  | cdone hrc h1 h2 => exact ⟨.cdone, by simp [apply, hrc, h1, h2]⟩

theorem applyAll_lpath {cls : α → Cls} {R B K : Nat} : ∀ (ls : List Label) (s s' : St α),
    applyAll cls R B K s ls = some s' → LPath cls R B K s ls s'
  | [], s, s', h => by
    simp only [applyAll, Option.some.injEq] at h; subst h; exact .nil s
  | l :: ls, s, s', h => by
    simp only [applyAll] at h
    cases ha : apply cls R B K s l with
    | none => rw [ha] at h; simp at h
    | some s1 =>
      rw [ha] at h
      simp only [Option.bind_some] at h
      exact .cons ha (applyAll_lpath ls s1 s' h)

theorem LPath.append {cls : α → Cls} {R B K : Nat} {s s' s'' : St α} {l1 l2 : List Label}
    (h1 : LPath cls R B K s l1 s') (h2 : LPath cls R B K s' l2 s'') : LPath cls R B K s (l1 ++ l2) s'' := by
  induction h1 with
  | nil s => exact h2
  | cons ha _ ih => exact .cons ha (ih h2)

/-- A labelled path is a path of the transition relation. -/
theorem LPath.reach {cls : α → Cls} {R B K : Nat} {s0 s s' : St α} {ls : List Label}
    (h : LPath cls R B K s ls s') (hr : Reach cls R B K s0 s) : Reach cls R B K s0 s' := by
  induction h with
  | nil s => exact hr
  | cons ha _ ih => exact ih (.step hr (apply_sound ha))

theorem lpath_nil_eq {α : Type} {cls : α → Cls} {R B K : Nat} {s s' : St α} (h : LPath cls R B K s [] s') : s' = s := by
  generalize hl : ([] : List Label) = l at h
  cases h with
  | nil => rfl
  | cons _ _ => cases hl

end Rare.Pipeline

namespace Rare.PipelineTrace
open Rare.Pipeline Rare.C01 Rare.TraceOrder

/-- The labelled path a sequence of logged events stands for: every event contributes, in order, the
    transitions `evLabels` assigns to it in the state reached so far. -/
inductive EvPath (cfg : Cfg) (wg : List Nat) : PSt → List Ev → List Label → PSt → Prop
  | nil (ps) : EvPath cfg wg ps [] [] ps
  | cons {ps ps1 ps' e es ls ls'} : evLabels cfg wg ps e = some ls →
      LPath cfg.cls cfg.R cfg.B cfg.K ps.lts ls ps1.lts →
      EvPath cfg wg ps1 es ls' ps' → EvPath cfg wg ps (e :: es) (ls ++ ls') ps'

theorem pstep_sound {cfg : Cfg} {wg : List Nat} {ps ps' : PSt} {e : Ev} (h : pstep cfg wg ps e = some ps') :
    ∃ ls, evLabels cfg wg ps e = some ls ∧ LPath cfg.cls cfg.R cfg.B cfg.K ps.lts ls ps'.lts := by
  unfold pstep at h
  split at h
  · simp at h
  · rename_i ls hl
    split at h
    · simp at h
    · rename_i s' ha
      simp only [Option.some.injEq] at h
      subst h
      exact ⟨ls, hl, applyAll_lpath ls _ _ ha⟩

theorem replay_evpath {cfg : Cfg} {wg : List Nat} : ∀ (evs : List Ev) (ps ps' : PSt),
    replay (machine cfg wg) ps evs = some ps' → ∃ labels, EvPath cfg wg ps evs labels ps'
  | [], ps, ps', h => by
    simp only [replay, Option.some.injEq] at h; subst h; exact ⟨[], .nil ps⟩
  | e :: es, ps, ps', h => by
    simp only [replay] at h
    cases hs : (machine cfg wg).step ps e with
    | none => rw [hs] at h; simp at h
    | some ps1 =>
      rw [hs] at h
      simp only [Option.bind_some] at h
      obtain ⟨ls, hl, hp⟩ := pstep_sound (cfg := cfg) (wg := wg) hs
      obtain ⟨ls', hr⟩ := replay_evpath es ps1 ps' h
      exact ⟨ls ++ ls', .cons hl hp hr⟩

theorem EvPath.lpath {cfg : Cfg} {wg : List Nat} {ps ps' : PSt} {evs : List Ev} {labels : List Label}
    (h : EvPath cfg wg ps evs labels ps') : LPath cfg.cls cfg.R cfg.B cfg.K ps.lts labels ps'.lts := by
  induction h with
  | nil ps => exact .nil _
  | cons _ hp _ ih => exact hp.append ih

/-! ### The derived batches are a partition of the inputs' lines -/

theorem batchesWith_flatten {batch : Nat} {oracle : List Bool} {ls : List Line} {fl : List (Nat × Nat)}
    {bs : List (List Line)} (h : batchesWith batch oracle ls fl = some bs) : bs.flatten = ls := by
  unfold batchesWith at h
  simp only at h
  split at h
  · simp only [Option.some.injEq] at h
    subst h
    have hinv := Batcher.inv_fold batch (flagged oracle ls) (Batcher.inv_init (α := Line))
    simp only [List.nil_append] at hinv
    have hf := (Batcher.finish_spec hinv).1
    have := congrArg (List.map Prod.fst) hf
    rw [List.zipIdx_map_fst, List.map_flatMap] at this
    have h2 : (flagged oracle ls).map (·.1) = ls := by
      unfold flagged
      rw [List.map_map]
      have : ((fun x : Line × Bool => x.1) ∘ fun p : Line × Nat => (p.1, (oracle[p.2]?).getD false)) = Prod.fst := by
        funext p; rfl
      rw [this, List.zipIdx_map_fst]
    rw [h2] at this
    have h3 : (List.map (·.lines) (Batcher.run batch (flagged oracle ls))).flatten =
        List.flatMap (fun a => List.map Prod.fst (Batcher.lineNumbers a)) (Batcher.run batch (flagged oracle ls)) := by
      rw [List.flatten_eq_flatMap, List.flatMap_map]
      congr 1
      funext b
      simp [Batcher.lineNumbers, List.zipIdx_map_fst]
    rw [h3]
    exact this
  · simp at h

theorem batchesOfSource_flatten {cfg : Cfg} {tr : List Ev} {i : Nat} {data : Bytes} {bs : List (List Line)}
    (h : batchesOfSource cfg tr i data = some bs) : bs.flatten = linesOf i data :=
  batchesWith_flatten h

theorem mapM_flatten_aux {cfg : Cfg} {tr : List Ev} : ∀ (l : List (Bytes × Nat)) (bss : List (List (List Line))),
    l.mapM (fun p => batchesOfSource cfg tr p.2 p.1) = some bss →
    bss.flatMap List.flatten = l.flatMap fun p => linesOf p.2 p.1
  | [], bss, h => by
    simp at h; subst h; rfl
  | p :: l, bss, h => by
    rw [List.mapM_cons] at h
    cases h1 : batchesOfSource cfg tr p.2 p.1 with
    | none => rw [h1] at h; simp at h
    | some bs =>
      rw [h1] at h
      cases h2 : l.mapM (fun p => batchesOfSource cfg tr p.2 p.1) with
      | none => rw [h2] at h; simp at h
      | some rest =>
        rw [h2] at h
        simp at h
        subst h
        simp only [List.flatMap_cons]
        rw [batchesOfSource_flatten h1, mapM_flatten_aux l rest h2]

theorem batchesOf_lines {cfg : Cfg} {tr : List Ev} {bss : List (List (List Line))}
    (h : batchesOf cfg tr = some bss) : bss.flatMap List.flatten = allLines cfg.inputs := by
  unfold batchesOf at h
  exact mapM_flatten_aux _ _ h

end Rare.PipelineTrace
