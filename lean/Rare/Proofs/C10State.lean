import Rare.Proofs.C10
import Rare.Model.C10State
/-! Hidden state of stage closures: the date-layout cache and pooled context objects (C10, round 4). -/
namespace Rare.C10
open Rare.Expr

/-! ### probing = running against the all-empty context -/

theorem probeN_run_empty {α : Type} (c : Comp α) : ∀ n,
    c.run emptyCtx = match c.probeN n with
      | .ok (a, _) => .ok a
      | .error m => .error m := by
  induction c with
  | ret a => intro n; rfl
  | getMatch i k ih => intro n; exact ih _ _
  | getKey s k ih => intro n; exact ih _ _
  | panic m => intro n; rfl

theorem sprobeN_bind {α β : Type} (c : Comp α) (f : α → Comp β) : ∀ n,
    (c.bind f).probeN n = match c.probeN n with
      | .ok (a, n') => (f a).probeN n'
      | .error m => .error m := by
  induction c with
  | ret a => intro n; rfl
  | getMatch i k ih => intro n; simp only [Comp.bind, Comp.probeN]; exact ih _ _
  | getKey s k ih => intro n; simp only [Comp.bind, Comp.probeN]; exact ih _ _
  | panic m => intro n; rfl

theorem bind_eq_ret {α β : Type} {c : Comp α} {f : α → Comp β} {b : β} (h : c.bind f = .ret b) :
    ∃ a, c = .ret a ∧ f a = .ret b := by
  cases c with
  | ret a => exact ⟨a, rfl, h⟩
  | getMatch i k => simp [Comp.bind] at h
  | getKey s k => simp [Comp.bind] at h
  | panic m => simp [Comp.bind] at h

theorem emptyOf_of_probeN {s : Stage} {v : Bytes} {n m : Nat} (h : s.probeN n = .ok (v, m)) : emptyOf s = v := by
  have h0 := probeN_run_empty s 0
  have hn := probeN_run_empty s n
  rw [h] at hn
  rw [hn] at h0
  unfold emptyOf Comp.probe
  cases hp : s.probeN 0 with
  | error e => rw [hp] at h0; cases h0
  | ok p => obtain ⟨a, k⟩ := p; rw [hp] at h0; simp only [Except.ok.injEq] at h0; simp [h0]

/-! ### the touch -/

@[simp] theorem timeTouches_real (rev : TimeRev) (c : Bool) (s : Bytes) : timeTouches rev c false s = false := by
  simp [timeTouches]

@[simp] theorem timeTouches_const (rev : TimeRev) (static : Bool) (s : Bytes) : timeTouches rev true static s = false := by
  simp [timeTouches]

@[simp] theorem timeTouches_empty (rev : TimeRev) (c static : Bool) : timeTouches rev c static [] = false := by
  simp [timeTouches]

theorem timeTouches_cur_static {s : Bytes} (h : s ≠ []) : timeTouches .cur false true s = true := by
  simp [timeTouches, h]

@[simp] theorem touchIf_false {α : Type} (c : Comp α) : touchIf false c = c := rfl

theorem touchIf_true {α : Type} (c : Comp α) : touchIf true c = .getMatch (-1) fun _ => c := rfl

/-- A touch is invisible to an evaluation (the answer is dropped). -/
theorem run_touchIf {α : Type} (b : Bool) (c : Comp α) (ctx : Ctx) : (touchIf b c).run ctx = c.run ctx := by
  cases b <;> rfl

/-- …and counted by the monitor. -/
theorem probeN_touchIf {α : Type} (b : Bool) (c : Comp α) (n : Nat) :
    (touchIf b c).probeN n = c.probeN (if b then n + 1 else n) := by
  cases b <;> rfl

theorem constOf_ret (d : Bytes) : constOf (.ret d : Stage) = true := rfl

/-! ### histories: static analyses are invisible when they only touch what real evaluations do not see -/

/-- `π` projects the state onto what evaluations on input see; if they depend on the state through `π` only and a
    static analysis leaves `π` alone, static analyses can be struck out of every history. -/
theorem probe_invisible_of {σ ρ : Type} (s : SStage σ) (π : σ → ρ)
    (hreal : ∀ st st' ctx, π st = π st' → (s.step st ctx).1 = (s.step st' ctx).1 ∧ π (s.step st ctx).2 = π (s.step st' ctx).2)
    (hprobe : ∀ st, π (s.probeStep st).2 = π st) (evs : List Ev) :
    ∀ st st', π st = π st' → runEvents s st evs = runEvents s st' (evs.filter Ev.isReal) := by
  induction evs with
  | nil => intro st st' _; rfl
  | cons e rest ih =>
    intro st st' h
    cases e with
    | real ctx =>
      simp only [runEvents, List.filter_cons, Ev.isReal, if_true]
      rw [(hreal st st' ctx h).1, ih _ _ (hreal st st' ctx h).2]
    | probe =>
      simp only [runEvents, List.filter_cons, Ev.isReal, Bool.false_eq_true, if_false]
      exact ih _ _ ((hprobe st).trans h)

/-! ### the date-layout cache -/

/-- A static analysis never writes `atomicFormat` (code as it is). -/
theorem timeStep_cur_static {L : Type} (lib : TimeLib L) (e s : Bytes) (st : TimeSt L) :
    (timeStep .cur lib e true s st).2.real = st.real := by
  unfold timeStep
  by_cases h : s = []
  · simp [h]
  · simp only [h, if_false]
    cases hs : st.static with
    | some l => simp
    | none =>
      cases lib.detect s with
      | none => simp
      | some l => by_cases h2 : s = e <;> simp [h2]

/-- An evaluation on input sees `atomicFormat` only. -/
theorem timeStep_cur_real {L : Type} (lib : TimeLib L) (e s : Bytes) (st st' : TimeSt L) (h : st.real = st'.real) :
    (timeStep .cur lib e false s st).1 = (timeStep .cur lib e false s st').1 ∧
      (timeStep .cur lib e false s st).2.real = (timeStep .cur lib e false s st').2.real := by
  unfold timeStep
  by_cases hs : s = []
  · simp [hs, h]
  · simp only [hs, if_false]
    rw [← h]
    cases hr : st.real with
    | some l => simp [← h, hr]
    | none =>
      cases lib.detect s with
      | none => simp [← h, hr]
      | some l => by_cases h2 : s = e <;> simp [← h, hr, h2]

theorem timeCache_hreal {L : Type} (lib : TimeLib L) (date : Stage) (st st' : TimeSt L) (ctx : Ctx)
    (h : st.real = st'.real) :
    ((timeCache lib date).step st ctx).1 = ((timeCache lib date).step st' ctx).1 ∧
      ((timeCache lib date).step st ctx).2.real = ((timeCache lib date).step st' ctx).2.real := by
  unfold SComp.step timeCache timeCacheRev
  rw [run_bind, run_bind]
  cases date.run ctx with
  | error m => exact ⟨rfl, h⟩
  | ok s =>
    have := timeStep_cur_real lib (emptyOf date) s st st' h
    simp only [timeTouches_real, touchIf_false, Comp.run]
    exact ⟨by rw [this.1], this.2⟩

theorem timeCache_probeStep {L : Type} (lib : TimeLib L) (date : Stage) (st : TimeSt L) :
    ((timeCache lib date).probeStep st).2.real = st.real := by
  unfold SComp.probeStep Comp.probe timeCache timeCacheRev
  rw [sprobeN_bind]
  cases hp : date.probeN 0 with
  | error m => rfl
  | ok p =>
    obtain ⟨v, n⟩ := p
    simp only [probeN_touchIf, Comp.probeN]
    exact timeStep_cur_static lib _ v st

theorem time_probe_invisible {L : Type} (lib : TimeLib L) (date : Stage) (evs : List Ev) (st : TimeSt L) :
    runEvents (timeCache lib date) st evs = runEvents (timeCache lib date) st (evs.filter Ev.isReal) :=
  probe_invisible_of _ TimeSt.real (fun a b c h => timeCache_hreal lib date a b c h)
    (timeCache_probeStep lib date) evs st st rfl

/-- A literal has no hidden state: every history gives the literal. -/
theorem runEvents_lit {σ : Type} (v : Bytes) (evs : List Ev) : ∀ st : σ,
    runEvents (fun _ st' => (.ret (v, st') : Comp (Bytes × σ))) st evs = (evs.filter Ev.isReal).map fun _ => .ok v := by
  induction evs with
  | nil => intro st; rfl
  | cons e rest ih =>
    intro st
    cases e with
    | real ctx =>
      simp only [runEvents, List.filter_cons, Ev.isReal, if_true, List.map_cons, SComp.step, Comp.run]
      rw [ih]
    | probe =>
      simp only [runEvents, List.filter_cons, Ev.isReal, Bool.false_eq_true, if_false, SComp.probeStep, Comp.probe,
        Comp.probeN]
      exact ih st

/-- What the `cache` stage answers for a CONSTANT date `d` while nothing is remembered: `d` parsed by its own
    layout. -/
def ownLayout {L : Type} (lib : TimeLib L) (d : Bytes) : Bytes :=
  if d = [] then ErrorParsing else
  match lib.detect d with
  | none => ErrorParsing
  | some l => lib.parseOr l d

theorem timeStep_const {L : Type} (lib : TimeLib L) (d : Bytes) (static : Bool) (st : TimeSt L)
    (h : (if static then st.static else st.real) = none) :
    timeStep .cur lib d static d st = (ownLayout lib d, st) := by
  unfold timeStep ownLayout
  by_cases hd : d = []
  · simp [hd]
  · cases static <;> simp only [Bool.false_eq_true, if_false, if_true] at h <;>
      cases lib.detect d <;> simp [hd, h]

/-- A `cache` stage over a CONSTANT date never remembers anything and answers the same every time. -/
theorem runEvents_time_const {L : Type} (lib : TimeLib L) (d : Bytes) (evs : List Ev) :
    runEvents (timeCache lib (.ret d)) TimeSt.fresh evs = (evs.filter Ev.isReal).map fun _ => .ok (ownLayout lib d) := by
  have he : emptyOf (.ret d : Stage) = d := rfl
  induction evs with
  | nil => rfl
  | cons e rest ih =>
    cases e with
    | real ctx =>
      simp only [runEvents, List.filter_cons, Ev.isReal, if_true, List.map_cons, SComp.step, timeCache, timeCacheRev,
        Comp.bind, timeTouches_real, touchIf_false, Comp.run, he, timeStep_const lib d false TimeSt.fresh rfl]
      exact congrArg _ ih
    | probe =>
      simp only [runEvents, List.filter_cons, Ev.isReal, Bool.false_eq_true, if_false, SComp.probeStep, Comp.probe,
        timeCache, timeCacheRev, Comp.bind, constOf_ret, timeTouches_const, touchIf_false, Comp.probeN, he,
        timeStep_const lib d true TimeSt.fresh rfl]
      exact ih

theorem time_optimize_events {L : Type} (lib : TimeLib L) (date : Stage) (evs : List Ev) :
    runEvents (optimizeS (timeCache lib date) TimeSt.fresh) ((timeCache lib date).probeStep TimeSt.fresh).2 evs
      = runEvents (timeCache lib date) TimeSt.fresh evs := by
  unfold optimizeS
  cases hp : ((timeCache lib date).probeStep TimeSt.fresh).1 with
  | error m =>
    simp only
    rw [time_probe_invisible lib date evs TimeSt.fresh]
    exact probe_invisible_of _ TimeSt.real (fun a b c h => timeCache_hreal lib date a b c h)
      (timeCache_probeStep lib date) evs _ _ (timeCache_probeStep lib date _)
  | ok p =>
    obtain ⟨v, c⟩ := p
    cases c with
    | false =>
      simp only
      rw [time_probe_invisible lib date evs TimeSt.fresh]
      exact probe_invisible_of _ TimeSt.real (fun a b c h => timeCache_hreal lib date a b c h)
        (timeCache_probeStep lib date) evs _ _ (timeCache_probeStep lib date _)
    | true =>
      simp only
      -- the stage made no look-up: the date expression is a literal
      have hprobe : (timeCache lib date true TimeSt.fresh).probe
          = .ok ((v, ((timeCache lib date).probeStep TimeSt.fresh).2), true) := by
        unfold SComp.probeStep at hp ⊢
        cases hq : (timeCache lib date true TimeSt.fresh).probe with
        | error m => rw [hq] at hp; cases hp
        | ok q =>
          obtain ⟨⟨v', s'⟩, c'⟩ := q
          rw [hq] at hp
          simp only [Except.ok.injEq, Prod.mk.injEq] at hp
          simp [hp.1, hp.2]
      have hret := Comp.probe_constant _ _ hprobe
      obtain ⟨d, hd, hf⟩ := bind_eq_ret (c := date) hret
      subst hd
      have hv : v = ownLayout lib d := by
        have he : emptyOf (.ret d : Stage) = d := rfl
        rw [he, constOf_ret, timeTouches_const, touchIf_false, timeStep_const lib d true TimeSt.fresh rfl] at hf
        simp only [Comp.ret.injEq, Prod.mk.injEq] at hf
        exact hf.1.symm
      rw [runEvents_lit, runEvents_time_const, hv]

/-! ### counterexamples (a toy library: the layout of a date is its length) -/

/-- `detect s` = the length of `s`; `parse l s` succeeds iff `s` has length `l`. -/
def toyLib : TimeLib Nat := ⟨fun s => some s.length, fun l s => if s.length = l then some s else none⟩

/-- `"ab{0}"` -/
def toyDate : Stage := .getMatch 0 fun b => .ret ([97, 98] ++ b)

def toyCtx (v : Bytes) : Ctx := ⟨fun _ => v, fun _ => []⟩

/-! ### a `cache` stage reached through sub-contexts -/

theorem timeOnElems_probe {L : Type} (lib : TimeLib L) (elems : List Stage) :
    ∀ (st : TimeSt L) (n : Nat) (r : List Bytes × TimeSt L) (m : Nat),
    (timeOnElems .cur lib elems true st).probeN n = .ok (r, m) → r.2.real = st.real := by
  induction elems with
  | nil => intro st n r m h; simp only [timeOnElems, Comp.probeN, Except.ok.injEq, Prod.mk.injEq] at h; rw [← h.1]
  | cons e rest ih =>
    intro st n r m h
    simp only [timeOnElems] at h
    rw [sprobeN_bind] at h
    cases hp : e.probeN n with
    | error msg => rw [hp] at h; cases h
    | ok p =>
      obtain ⟨v, n'⟩ := p
      rw [hp] at h
      simp only [probeN_touchIf] at h
      rw [sprobeN_bind] at h
      generalize (if timeTouches .cur false true v = true then n' + 1 else n') = n'' at h
      cases hr : (timeOnElems .cur lib rest true (timeStep .cur lib [] true v st).2).probeN n'' with
      | error msg => rw [hr] at h; cases h
      | ok q =>
        obtain ⟨q1, m'⟩ := q
        rw [hr] at h
        simp only [Comp.probeN, Except.ok.injEq, Prod.mk.injEq] at h
        have := ih _ n'' q1 m' hr
        rw [← h.1]; simp only; rw [this]; exact timeStep_cur_static lib [] v st

theorem timeMap_probeStep {L : Type} (lib : TimeLib L) (elems : List Stage) (st : TimeSt L) :
    ((timeMapStage .cur lib elems).probeStep st).2.real = st.real := by
  unfold SComp.probeStep Comp.probe timeMapStage
  rw [sprobeN_bind]
  cases hp : (timeOnElems .cur lib elems true st).probeN 0 with
  | error m => rfl
  | ok p =>
    obtain ⟨r, n⟩ := p
    simp only [Comp.probeN]
    exact timeOnElems_probe lib elems st 0 r n hp

/-- Evaluations on input of the enclosing stage see `atomicFormat` only. -/
theorem timeOnElems_real {L : Type} (lib : TimeLib L) (elems : List Stage) (ctx : Ctx) :
    ∀ (st st' : TimeSt L), st.real = st'.real →
    (match (timeOnElems .cur lib elems false st).run ctx with
      | .ok p => (.ok (p.1, p.2.real) : Except String (List Bytes × Option L))
      | .error m => .error m) =
    (match (timeOnElems .cur lib elems false st').run ctx with
      | .ok p => .ok (p.1, p.2.real)
      | .error m => .error m) := by
  induction elems with
  | nil => intro st st' h; simp only [timeOnElems, Comp.run, h]
  | cons e rest ih =>
    intro st st' h
    simp only [timeOnElems]
    rw [run_bind, run_bind]
    cases e.run ctx with
    | error m => rfl
    | ok v =>
      simp only [timeTouches_real, touchIf_false]
      rw [run_bind, run_bind]
      have hs := timeStep_cur_real lib [] v st st' h
      have := ih _ _ hs.2
      rw [hs.1]
      cases h1 : (timeOnElems .cur lib rest false (timeStep .cur lib [] false v st).2).run ctx with
      | error m =>
        rw [h1] at this
        cases h2 : (timeOnElems .cur lib rest false (timeStep .cur lib [] false v st').2).run ctx with
        | error m' => rw [h2] at this; simp only [Except.error.injEq] at this; simp [this]
        | ok q => rw [h2] at this; cases this
      | ok q =>
        rw [h1] at this
        cases h2 : (timeOnElems .cur lib rest false (timeStep .cur lib [] false v st').2).run ctx with
        | error m' => rw [h2] at this; cases this
        | ok q' =>
          rw [h2] at this
          simp only [Except.ok.injEq, Prod.mk.injEq] at this
          simp only [Comp.run, this.1, this.2]

theorem timeMap_hreal {L : Type} (lib : TimeLib L) (elems : List Stage) (st st' : TimeSt L) (ctx : Ctx)
    (h : st.real = st'.real) :
    ((timeMapStage .cur lib elems).step st ctx).1 = ((timeMapStage .cur lib elems).step st' ctx).1 ∧
      ((timeMapStage .cur lib elems).step st ctx).2.real = ((timeMapStage .cur lib elems).step st' ctx).2.real := by
  have := timeOnElems_real lib elems ctx st st' h
  unfold SComp.step timeMapStage
  rw [run_bind, run_bind]
  cases h1 : (timeOnElems .cur lib elems false st).run ctx with
  | error m =>
    rw [h1] at this
    cases h2 : (timeOnElems .cur lib elems false st').run ctx with
    | error m' => rw [h2] at this; simp only [Except.error.injEq] at this; simp [this, h]
    | ok q => rw [h2] at this; cases this
  | ok q =>
    rw [h1] at this
    cases h2 : (timeOnElems .cur lib elems false st').run ctx with
    | error m' => rw [h2] at this; cases this
    | ok q' =>
      rw [h2] at this
      simp only [Except.ok.injEq, Prod.mk.injEq] at this
      simp [Comp.run, this.1, this.2]

theorem timeMap_probe_invisible {L : Type} (lib : TimeLib L) (elems : List Stage) (evs : List Ev) (st : TimeSt L) :
    runEvents (timeMapStage .cur lib elems) st evs = runEvents (timeMapStage .cur lib elems) st (evs.filter Ev.isReal) :=
  probe_invisible_of _ TimeSt.real (fun a b c h => timeMap_hreal lib elems a b c h)
    (timeMap_probeStep lib elems) evs st st rfl

/-! ### pooled objects -/

theorem withSub_run' {α : Type} (ctx : Ctx) (v0 v1 : Bytes) (c : Comp α) :
    (c.withSub v0 v1).run ctx = c.run (SubObj.ctx ⟨ctx, v0, v1⟩) := by
  induction c with
  | ret a => rfl
  | getMatch i k ih =>
    simp only [Comp.withSub]
    split
    · rename_i h; simp only [Comp.run, ih, SubObj.ctx, h, if_true]
    · rename_i h; simp only [Comp.run, ih, SubObj.ctx, h, if_false]
  | getKey s k ih => simp only [Comp.withSub, Comp.run, ih, SubObj.ctx]
  | panic m => rfl

end Rare.C10
