import Rare.Model.C04
/-! Helper lemmas for C04 (line splitting). -/
namespace Rare.C04

/-! ### spec lemmas -/

theorem splitGo_noNl (cur a rest : Bytes) (h : nl ∉ a) :
    splitGo cur (a ++ rest) = splitGo (cur ++ a) rest := by
  induction a generalizing cur with
  | nil => simp
  | cons b a ih =>
    have hb : b ≠ nl := fun e => h (by simp [e])
    have ha : nl ∉ a := fun e => h (by simp [e])
    simp [splitGo, hb, ih _ ha]

theorem splitGo_line (cur a rest : Bytes) (h : nl ∉ a) :
    splitGo cur (a ++ nl :: rest) = dropCR (cur ++ a) :: splitGo [] rest := by
  rw [splitGo_noNl _ _ _ h]; simp [splitGo]

theorem splitGo_tail (cur a : Bytes) (h : nl ∉ a) :
    splitGo cur a = if cur ++ a = [] then [] else [cur ++ a] := by
  have := splitGo_noNl cur a [] h
  simp at this; rw [this]; simp [splitGo]

/-- `E` is exactly the list of lines of the consumed prefix `C`, and `C` ends at a line boundary. -/
def Boundary (C : Bytes) (E : List Bytes) : Prop :=
  ∀ rest, splitLines (C ++ rest) = E ++ splitLines rest

theorem Boundary.nil : Boundary [] [] := by intro r; simp

theorem Boundary.line {C E} (h : Boundary C E) (a : Bytes) (ha : nl ∉ a) :
    Boundary (C ++ a ++ [nl]) (E ++ [dropCR a]) := by
  intro rest
  have := h (a ++ nl :: rest)
  simp only [List.append_assoc, List.singleton_append] at *
  rw [this]; simp [splitLines, splitGo_line _ _ _ ha]

/-! ### idxNl -/

theorem idxNl_none {l : Bytes} : idxNl l = none ↔ nl ∉ l := by
  induction l with
  | nil => simp [idxNl]
  | cons b r ih =>
    by_cases hb : b = nl
    · simp [idxNl, hb]
    · have : ¬ nl = b := fun e => hb e.symm
      simp [idxNl, hb, ih, this]

theorem idxNl_some {l : Bytes} {k : Nat} (h : idxNl l = some k) :
    nl ∉ l.take k ∧ l = l.take k ++ nl :: l.drop (k + 1) := by
  induction l generalizing k with
  | nil => simp [idxNl] at h
  | cons b r ih =>
    by_cases hb : b = nl
    · simp [idxNl, hb] at h; subst h; simp [hb]
    · simp [idxNl, hb] at h
      obtain ⟨k', hk', rfl⟩ := h
      have := ih hk'
      have hne : ¬ nl = b := fun e => hb e.symm
      refine ⟨by simp [List.take_succ_cons, hne, this.1], ?_⟩
      simp only [List.take_succ_cons, List.drop_succ_cons, List.cons_append]
      exact congrArg _ this.2

theorem idxNl_append_noNl {a b : Bytes} (h : nl ∉ a) :
    idxNl (a ++ b) = (idxNl b).map (· + a.length) := by
  induction a with
  | nil => simp
  | cons x a ih =>
    have hx : x ≠ nl := fun e => h (by simp [e])
    have ha : nl ∉ a := fun e => h (by simp [e])
    simp [idxNl, hx, ih ha, Option.map_map]
    cases idxNl b <;> simp; omega

end Rare.C04

namespace Rare.C04

/-! ### ImmediateReadAhead: invariant and per-step lemmas -/

def Imm.pending (s : Imm) : Bytes := s.buf.drop s.offset

structure Inv (s : Imm) (C : Bytes) : Prop where
  off : s.offset ≤ s.buf.length
  del : s.delivered = C ++ s.pending
  bs : 1 ≤ s.bufSize

theorem pending_length (s : Imm) : s.pending.length = s.buf.length - s.offset := by
  simp [Imm.pending]

/-- Effect of `emitAt` at the position of a newline. -/
theorem emitAt_spec {s : Imm} {C a r : Bytes} (h : Inv s C) (hp : s.pending = a ++ nl :: r) :
    (s.emitAt a.length).1 = .tok ⟨s.arr, s.offset, s.offset + (dropCR a).length⟩ (dropCR a) ∧
    Inv (s.emitAt a.length).2 (C ++ a ++ [nl]) ∧ (s.emitAt a.length).2.pending = r ∧
    (s.emitAt a.length).2.eof = s.eof ∧ (s.emitAt a.length).2.rd = s.rd ∧
    (s.emitAt a.length).2.errs = s.errs ∧ (s.emitAt a.length).2.delivered = s.delivered ∧
    (s.emitAt a.length).2.mem = s.mem ∧ (s.emitAt a.length).2.buf = s.buf ∧
    (s.emitAt a.length).2.cap = s.cap ∧ (s.emitAt a.length).2.bufSize = s.bufSize := by
  have hl : a.length + r.length + 1 = s.buf.length - s.offset := by
    have := pending_length s
    rw [hp] at this
    simp at this; omega
  have hoff := h.off
  have htake : (s.buf.drop s.offset).take a.length = a := by
    have : s.buf.drop s.offset = a ++ nl :: r := hp
    rw [this]; simp
  have hpend' : s.buf.drop (s.offset + a.length + 1) = r := by
    have : s.buf.drop (s.offset + (a.length + 1)) = (s.buf.drop s.offset).drop (a.length + 1) := by
      rw [List.drop_drop]
    rw [Nat.add_assoc, this]
    have : s.buf.drop s.offset = a ++ nl :: r := hp
    rw [this]
    have : a.length + 1 = (a ++ [nl]).length := by simp
    rw [this, show a ++ nl :: r = (a ++ [nl]) ++ r by simp, List.drop_left]
  refine ⟨by simp [Imm.emitAt, htake], ⟨by simp [Imm.emitAt]; omega, ?_, h.bs⟩, ?_, rfl, rfl, rfl, rfl, rfl, rfl, rfl, rfl⟩
  · simp only [Imm.emitAt, Imm.pending, hpend']
    rw [h.del, hp]; simp
  · simp only [Imm.emitAt, Imm.pending, hpend']

theorem emitTail_spec {s : Imm} {C : Bytes} (h : Inv s C) :
    s.emitTail.1 = .tok ⟨s.arr, s.offset, s.buf.length⟩ s.pending ∧
    Inv s.emitTail.2 (C ++ s.pending) ∧ s.emitTail.2.pending = [] ∧
    s.emitTail.2.eof = s.eof ∧ s.emitTail.2.rd = s.rd ∧ s.emitTail.2.errs = s.errs ∧
    s.emitTail.2.delivered = s.delivered ∧ s.emitTail.2.mem = s.mem ∧ s.emitTail.2.buf = s.buf := by
  refine ⟨rfl, ⟨by simp [Imm.emitTail], ?_, h.bs⟩, by simp [Imm.emitTail, Imm.pending], rfl, rfl, rfl, rfl, rfl, rfl⟩
  simp [Imm.emitTail, Imm.pending]; exact h.del

/-! ### views into the backing arrays -/

def ViewOK (arrays : List Bytes) (v : View) : Prop :=
  v.arr < arrays.length ∧ v.start ≤ v.stop ∧ v.stop ≤ (arrays.getD v.arr []).length

/-- `B` extends `A`: no array disappears and every array only grows at its end. -/
def Ext (A B : List Bytes) : Prop :=
  A.length ≤ B.length ∧ ∀ i, i < A.length → A.getD i [] <+: B.getD i []

theorem Ext.refl (A : List Bytes) : Ext A A := ⟨Nat.le_refl _, fun _ _ => List.prefix_refl _⟩

theorem Ext.trans {A B D : List Bytes} (h1 : Ext A B) (h2 : Ext B D) : Ext A D :=
  ⟨Nat.le_trans h1.1 h2.1, fun i hi => List.IsPrefix.trans (h1.2 i hi) (h2.2 i (Nat.lt_of_lt_of_le hi h1.1))⟩

theorem readView_ext {A B : List Bytes} {v : View} (h : Ext A B) (hv : ViewOK A v) :
    readView B v = readView A v ∧ ViewOK B v := by
  obtain ⟨t, ht⟩ := h.2 v.arr hv.1
  have hlen : (A.getD v.arr []).length ≤ (B.getD v.arr []).length := by rw [← ht]; simp
  refine ⟨?_, Nat.lt_of_lt_of_le hv.1 h.1, hv.2.1, Nat.le_trans hv.2.2 hlen⟩
  unfold readView
  rw [← ht, List.drop_append_of_le_length (Nat.le_trans hv.2.1 hv.2.2), List.take_append_of_le_length]
  rw [List.length_drop]; have := hv.2.1; have := hv.2.2; omega

theorem dropCR_prefix (a : Bytes) : dropCR a <+: a := by
  unfold dropCR; split
  · exact List.dropLast_prefix a
  · exact List.prefix_refl a

theorem arrays_getD_arr (s : Imm) : s.arrays.getD s.arr [] = s.buf := by
  simp [Imm.arrays, Imm.arr, List.getD]

theorem emitAt_view {s : Imm} {C a r : Bytes} (h : Inv s C) (hp : s.pending = a ++ nl :: r) :
    ViewOK (s.emitAt a.length).2.arrays ⟨s.arr, s.offset, s.offset + (dropCR a).length⟩ ∧
    readView (s.emitAt a.length).2.arrays ⟨s.arr, s.offset, s.offset + (dropCR a).length⟩ = dropCR a := by
  have harr : (s.emitAt a.length).2.arrays = s.arrays := rfl
  have hlen : (dropCR a).length ≤ a.length := (dropCR_prefix a).length_le
  have hpl := pending_length s
  rw [hp] at hpl; simp at hpl
  have hoff := h.off
  rw [harr]
  refine ⟨⟨by simp [Imm.arrays, Imm.arr], by simp, ?_⟩, ?_⟩
  · show s.offset + (dropCR a).length ≤ (s.arrays.getD s.arr []).length
    rw [arrays_getD_arr]; omega
  · unfold readView
    show List.take (s.offset + (dropCR a).length - s.offset) (List.drop s.offset (s.arrays.getD s.arr [])) = dropCR a
    rw [arrays_getD_arr]
    have : s.buf.drop s.offset = a ++ nl :: r := hp
    rw [this, Nat.add_sub_cancel_left]
    have hpre : dropCR a <+: a ++ nl :: r := (dropCR_prefix a).trans (List.prefix_append _ _)
    exact (List.prefix_iff_eq_take.mp hpre).symm

theorem emitTail_view {s : Imm} {C : Bytes} (h : Inv s C) :
    ViewOK s.emitTail.2.arrays ⟨s.arr, s.offset, s.buf.length⟩ ∧
    readView s.emitTail.2.arrays ⟨s.arr, s.offset, s.buf.length⟩ = s.pending := by
  have harr : s.emitTail.2.arrays = s.arrays := rfl
  rw [harr]
  refine ⟨⟨by simp [Imm.arrays, Imm.arr], h.off, ?_⟩, ?_⟩
  · show s.buf.length ≤ (s.arrays.getD s.arr []).length
    rw [arrays_getD_arr]; exact Nat.le_refl _
  · unfold readView
    show List.take (s.buf.length - s.offset) (List.drop s.offset (s.arrays.getD s.arr [])) = s.pending
    rw [arrays_getD_arr]
    exact List.take_of_length_le (by simp)

/-- What one `Scan()` call achieved, relative to the consumed prefix `C`. -/
def Post (C : Bytes) : Res → Imm → Prop
  | .tok v b, s' =>
      (ViewOK s'.arrays v ∧ readView s'.arrays v = b) ∧
      ((∃ a, nl ∉ a ∧ b = dropCR a ∧ Inv s' (C ++ a ++ [nl])) ∨
       (nl ∉ b ∧ b ≠ [] ∧ s'.eof = true ∧ s'.pending = [] ∧ Inv s' (C ++ b)))
  | .done, s' => s'.eof = true ∧ s'.pending = [] ∧ Inv s' C
  | .fuel, _ => True

theorem split_at_idx {p : Bytes} {k : Nat} (h : idxNl p = some k) :
    ∃ a r, nl ∉ a ∧ p = a ++ nl :: r ∧ a.length = k := by
  have := idxNl_some h
  refine ⟨p.take k, p.drop (k + 1), this.1, this.2, ?_⟩
  have hk : k < p.length := by
    have h2 := congrArg List.length this.2
    simp at h2; omega
  simp; omega

theorem topEof_post {s : Imm} {C : Bytes} (h : Inv s C) (he : s.eof = true) :
    Post C s.topEof.1 s.topEof.2 := by
  unfold Imm.topEof
  split
  · rename_i hlt
    split
    · rename_i eol heq
      obtain ⟨a, r, ha, hp, hl⟩ := split_at_idx heq
      have := emitAt_spec h (a := a) (r := r) hp
      have hv := emitAt_view h (a := a) (r := r) hp
      rw [hl] at this hv
      rw [this.1]
      exact ⟨hv, Or.inl ⟨a, ha, rfl, this.2.1⟩⟩
    · rename_i heq
      have hn : nl ∉ s.pending := idxNl_none.mp heq
      have := emitTail_spec h
      rw [this.1]
      refine ⟨emitTail_view h, Or.inr ⟨hn, ?_, by rw [this.2.2.2.1, he], this.2.2.1, this.2.1⟩⟩
      intro hp; have := pending_length s; rw [hp] at this; simp at this; omega
  · rename_i hge
    refine ⟨he, ?_, h⟩
    simp [Imm.pending]; omega

theorem top_some_post {s : Imm} {C : Bytes} (h : Inv s C) {r : Res} {s' : Imm}
    (ht : s.top = some (r, s')) : Post C r s' := by
  unfold Imm.top at ht
  split at ht
  · split at ht
    · rename_i eol heq
      obtain ⟨a, rr, ha, hp, hl⟩ := split_at_idx heq
      have := emitAt_spec h (a := a) (r := rr) hp
      have hv := emitAt_view h (a := a) (r := rr) hp
      rw [hl] at this hv
      simp at ht
      have h1 : r = (s.emitAt eol).1 := by rw [ht]
      have h2 : s' = (s.emitAt eol).2 := by rw [ht]
      rw [h1, h2, this.1]
      exact ⟨hv, Or.inl ⟨a, ha, rfl, this.2.1⟩⟩
    · rename_i heq
      split at ht
      · rename_i he
        have hn : nl ∉ s.pending := idxNl_none.mp heq
        have := emitTail_spec h
        simp at ht
        have h1 : r = s.emitTail.1 := by rw [ht]
        have h2 : s' = s.emitTail.2 := by rw [ht]
        rw [h1, h2, this.1]
        refine ⟨emitTail_view h, Or.inr ⟨hn, ?_, by rw [this.2.2.2.1, he], this.2.2.1, this.2.1⟩⟩
        intro hp; have := pending_length s; rw [hp] at this; simp at this; omega
      · simp at ht
  · split at ht
    · rename_i hge he
      simp at ht
      obtain ⟨rfl, rfl⟩ := ht
      refine ⟨he, ?_, h⟩
      simp [Imm.pending]; omega
    · simp at ht

theorem top_none {s : Imm} (ht : s.top = none) : nl ∉ s.pending ∧ s.eof = false := by
  unfold Imm.top at ht
  split at ht
  · split at ht
    · simp at ht
    · rename_i heq
      split at ht
      · simp at ht
      · rename_i he
        exact ⟨idxNl_none.mp heq, by simpa using he⟩
  · rename_i hge
    split at ht
    · simp at ht
    · rename_i he
      refine ⟨?_, by simpa using he⟩
      have : s.pending = [] := by simp [Imm.pending]; omega
      simp [this]

end Rare.C04

namespace Rare.C04

theorem grown_spec {s : Imm} {C : Bytes} (h : Inv s C) :
    Inv s.grown C ∧ s.grown.pending = s.pending ∧ s.grown.buf.length < s.grown.cap ∧
    s.grown.eof = s.eof ∧ s.grown.rd = s.rd ∧ s.grown.errs = s.errs ∧
    s.grown.delivered = s.delivered ∧ s.grown.bufSize = s.bufSize := by
  unfold Imm.grown
  split
  · rename_i hge
    have hb := h.bs
    have ho := h.off
    refine ⟨⟨by simp [Imm.regrow], ?_, h.bs⟩, by simp [Imm.regrow, Imm.pending], ?_, rfl, rfl, rfl, rfl, rfl⟩
    · simp [Imm.regrow, Imm.pending]; exact h.del
    · simp [Imm.regrow]; omega
  · rename_i hlt
    exact ⟨h, rfl, by omega, rfl, rfl, rfl, rfl, rfl⟩

theorem recv_spec {s : Imm} {C : Bytes} (h : Inv s C) (bs : Bytes) (rd' : Reader) :
    Inv (s.recv bs rd') C ∧ (s.recv bs rd').pending = s.pending ++ bs ∧
    (s.recv bs rd').eof = s.eof ∧ (s.recv bs rd').errs = s.errs ∧ (s.recv bs rd').rd = rd' ∧
    (s.recv bs rd').offset = s.offset ∧ (s.recv bs rd').buf = s.buf ++ bs := by
  have hp : (s.recv bs rd').pending = s.pending ++ bs := by
    simp [Imm.recv, Imm.pending, List.drop_append_of_le_length h.off]
  refine ⟨⟨by simp [Imm.recv]; have := h.off; omega, ?_, h.bs⟩, hp, rfl, rfl, rfl, rfl, rfl⟩
  rw [hp]; simp [Imm.recv, h.del]

theorem fail_spec {s : Imm} {C : Bytes} (h : Inv s C) (e : RErr) :
    Inv (s.fail e) C ∧ (s.fail e).eof = true ∧ (s.fail e).pending = s.pending :=
  ⟨⟨h.off, h.del, h.bs⟩, rfl, rfl⟩

theorem readLoop_post (f : Nat) : ∀ {s : Imm} {C : Bytes}, Inv s C → nl ∉ s.pending →
    Post C (s.readLoop f).1 (s.readLoop f).2 := by
  induction f with
  | zero => intro s C _ _; simp [Imm.readLoop, Post]
  | succ f ih =>
    intro s C h hn
    have hg := grown_spec h
    simp only [Imm.readLoop]
    generalize hr : s.grown.rd.read (s.grown.cap - s.grown.buf.length) = r
    have h1 := recv_spec hg.1 r.1 r.2.2
    split
    · rename_i e _
      have hf := fail_spec h1.1 e
      exact topEof_post hf.1 hf.2.1
    · split
      · rename_i eol heq
        obtain ⟨a', rr, ha', hbs, hl⟩ := split_at_idx heq
        have hpend : (s.grown.recv r.1 r.2.2).pending = (s.pending ++ a') ++ nl :: rr := by
          rw [h1.2.1, hg.2.1, hbs]; simp
        have hna : nl ∉ s.pending ++ a' := by
          simp; exact ⟨hn, ha'⟩
        have hlen : (s.pending ++ a').length = s.grown.buf.length + eol - s.grown.offset := by
          have := pending_length s.grown
          rw [hg.2.1] at this
          have ho := hg.1.off
          simp [this, hl]; omega
        have := emitAt_spec h1.1 hpend
        have hv := emitAt_view h1.1 hpend
        rw [hlen] at this hv
        rw [this.1]
        exact ⟨hv, Or.inl ⟨_, hna, rfl, this.2.1⟩⟩
      · rename_i heq
        have hnb : nl ∉ r.1 := idxNl_none.mp heq
        apply ih h1.1
        rw [h1.2.1, hg.2.1]; simp; exact ⟨hn, hnb⟩

theorem scan_post (f : Nat) {s : Imm} {C : Bytes} (h : Inv s C) :
    Post C (s.scan f).1 (s.scan f).2 := by
  unfold Imm.scan
  split
  · rename_i r ht
    exact top_some_post h ht
  · rename_i ht
    exact readLoop_post f h (top_none ht).1

/-- A finished scanner (`eof`, nothing pending) answers `false` and stays put. -/
theorem scan_final (f : Nat) {s : Imm} {C : Bytes} (h : Inv s C) (he : s.eof = true) (hp : s.pending = []) :
    s.scan f = (.done, s) := by
  have hl := pending_length s
  rw [hp] at hl
  have := h.off
  have hge : ¬ s.offset < s.buf.length := by simp at hl; omega
  simp [Imm.scan, Imm.top, hge, he]

/-- Scanner state `s` is consistent with having emitted exactly the lines `E`. -/
def Good (s : Imm) (E : List Bytes) : Prop :=
  ∃ C, Inv s C ∧ (Boundary C E ∨ (s.eof = true ∧ s.pending = [] ∧ splitLines s.delivered = E))

theorem good_init (bufSize : Nat) (rd : Reader) (h : 1 ≤ bufSize) : Good (Imm.init bufSize rd) [] :=
  ⟨[], ⟨by simp [Imm.init], by simp [Imm.init, Imm.pending], h⟩, Or.inl Boundary.nil⟩

theorem scan_good (f : Nat) {s : Imm} {E : List Bytes} (hg : Good s E) :
    match s.scan f with
    | (.tok _ b, s') => Good s' (E ++ [b])
    | (.done, s') => splitLines s'.delivered = E ∧ Good s' E
    | (.fuel, _) => True := by
  obtain ⟨C, hinv, hb⟩ := hg
  rcases hb with hb | ⟨he, hp, hs⟩
  · have hpost := scan_post f hinv
    generalize s.scan f = r at hpost
    obtain ⟨res, s'⟩ := r
    cases res with
    | tok v b =>
      simp only [Post] at hpost
      rcases hpost with ⟨_, ⟨a, ha, rfl, hi⟩ | ⟨hnb, hne, he', hp', hi⟩⟩
      · exact ⟨_, hi, Or.inl (hb.line a ha)⟩
      · refine ⟨_, hi, Or.inr ⟨he', hp', ?_⟩⟩
        rw [hi.del, hp']
        have := hb (b ++ [])
        simp only [List.append_nil] at *
        rw [this, splitLines, splitGo_tail _ _ hnb]; simp [hne]
    | done =>
      simp only [Post] at hpost
      obtain ⟨he', hp', hi⟩ := hpost
      have hs : splitLines s'.delivered = E := by
        rw [hi.del, hp']
        have := hb []
        simpa [splitLines, splitGo] using this
      exact ⟨hs, _, hi, Or.inr ⟨he', hp', hs⟩⟩
    | fuel => trivial
  · rw [scan_final f hinv he hp]
    exact ⟨hs, C, hinv, Or.inr ⟨he, hp, hs⟩⟩

theorem scanAll_good (f : Nat) : ∀ (n : Nat) {s : Imm} {E : List Bytes}, Good s E →
    (s.scanAll f n).2.1 = true →
    splitLines (s.scanAll f n).2.2.delivered = E ++ (s.scanAll f n).1.map (·.2) := by
  intro n
  induction n with
  | zero => intro s E _ h; simp [Imm.scanAll] at h
  | succ n ih =>
    intro s E hg hdone
    have hsg := scan_good f hg
    simp only [Imm.scanAll] at hdone ⊢
    generalize s.scan f = r at hsg hdone
    obtain ⟨res, s'⟩ := r
    cases res with
    | tok v b =>
      simp only at hsg hdone ⊢
      have := ih hsg hdone
      rw [this]; simp
    | done => simp only at hsg ⊢; simp [hsg.1]
    | fuel => simp at hdone

end Rare.C04

namespace Rare.C04

/-! ### predicates preserved by every step of `Scan()` -/

structure Closed (P : Imm → Prop) : Prop where
  emitAt : ∀ s k, P s → P (s.emitAt k).2
  emitTail : ∀ s, P s → P s.emitTail.2
  grown : ∀ s, P s → P s.grown
  /-- a `Read` into a buffer with room, its result appended, and, if it returned an error, `fail` -/
  read : ∀ s, P s → s.eof = false → s.buf.length < s.cap →
    let r := s.rd.read (s.cap - s.buf.length)
    match r.2.1 with
    | none => P (s.recv r.1 r.2.2)
    | some e => P ((s.recv r.1 r.2.2).fail e)

theorem topEof_closed {P} (hP : Closed P) {s : Imm} (h : P s) : P s.topEof.2 := by
  unfold Imm.topEof
  split
  · split
    · exact hP.emitAt _ _ h
    · exact hP.emitTail _ h
  · exact h

theorem readLoop_closed {P} (hP : Closed P) (f : Nat) : ∀ {s : Imm} {C : Bytes}, Inv s C → s.eof = false →
    P s → P (s.readLoop f).2 := by
  induction f with
  | zero => intro s C _ _ h; exact h
  | succ f ih =>
    intro s C hinv he h
    have hg := grown_spec hinv
    have hr := hP.read s.grown (hP.grown _ h) (by rw [hg.2.2.2.1, he]) hg.2.2.1
    simp only [Imm.readLoop]
    generalize s.grown.rd.read (s.grown.cap - s.grown.buf.length) = r at hr
    have h1 := recv_spec hg.1 r.1 r.2.2
    split
    · rename_i e heq
      simp only [heq] at hr
      exact topEof_closed hP hr
    · rename_i heq
      simp only [heq] at hr
      split
      · exact hP.emitAt _ _ hr
      · exact ih h1.1 (by rw [h1.2.2.1, hg.2.2.2.1, he]) hr

theorem scan_closed {P} (hP : Closed P) (f : Nat) {s : Imm} {C : Bytes} (hinv : Inv s C) (h : P s) :
    P (s.scan f).2 := by
  unfold Imm.scan
  split
  · rename_i r ht
    unfold Imm.top at ht
    split at ht
    · split at ht
      · simp at ht; rw [← ht]; exact hP.emitAt _ _ h
      · split at ht
        · simp at ht; rw [← ht]; exact hP.emitTail _ h
        · simp at ht
    · split at ht
      · simp at ht; rw [← ht]; exact h
      · simp at ht
  · rename_i ht
    exact readLoop_closed hP f hinv (top_none ht).2 h

theorem scanAll_closed {P} (hP : Closed P) (f : Nat) : ∀ (n : Nat) {s : Imm} {E : List Bytes}, Good s E →
    P s → P (s.scanAll f n).2.2 := by
  intro n
  induction n with
  | zero => intro s E _ h; exact h
  | succ n ih =>
    intro s E hg h
    obtain ⟨C, hinv, _⟩ := id hg
    have hsg := scan_good f hg
    have hc := scan_closed hP f hinv h
    simp only [Imm.scanAll]
    generalize s.scan f = r at hsg hc
    obtain ⟨res, s'⟩ := r
    cases res with
    | tok v b => exact ih hsg hc
    | done => exact hc
    | fuel => exact hc

/-! ### reader facts -/

theorem read_take_drop (r : Reader) (room : Nat) :
    (r.read room).1 ++ (r.read room).2.2.rest = r.rest := by
  unfold Reader.read
  split
  · split
    · rename_i h; simp [h]
    · simp
  · simp

theorem read_measure (r : Reader) (room : Nat) (hroom : 0 < room) (hn : (r.read room).2.1 = none) :
    (r.read room).2.2.measure < r.measure := by
  unfold Reader.read at hn ⊢
  split
  · rename_i hs
    split
    · rename_i h; simp [hs, h] at hn
    · rename_i h
      have : 0 < r.rest.length := List.length_pos_iff.mpr h
      simp [Reader.measure, hs]; omega
  · rename_i s ss hs
    simp [Reader.measure, hs]; omega

theorem read_measure_le (r : Reader) (room : Nat) : (r.read room).2.2.measure ≤ r.measure := by
  unfold Reader.read
  split
  · split
    · exact Nat.le_refl _
    · rename_i hs h; simp [Reader.measure, hs]
  · rename_i s ss hs
    simp [Reader.measure, hs]; omega

theorem read_script_sub (r : Reader) (room : Nat) : ∀ st ∈ (r.read room).2.2.script, st ∈ r.script := by
  unfold Reader.read
  split
  · split <;> simp_all
  · rename_i s ss hs; intro st h; simp at h; simp [hs, h]

theorem read_err_mem (r : Reader) (room : Nat) (e : RErr) (h : (r.read room).2.1 = some e) :
    (e = .eof ∧ r.script = [] ∧ r.rest = []) ∨ ∃ st ∈ r.script, st.err = some e := by
  unfold Reader.read at h
  split at h
  · rename_i hs
    split at h
    · rename_i hr; simp at h; exact Or.inl ⟨h.symm, hs, hr⟩
    · simp at h
  · rename_i s ss hs
    simp at h
    exact Or.inr ⟨s, by simp [hs], h⟩

/-- Everything read so far plus what the reader still holds is the original stream. -/
theorem closed_stream (data : Bytes) : Closed (fun s => s.delivered ++ s.rd.rest = data) where
  emitAt := fun s k h => h
  emitTail := fun s h => h
  grown := fun s h => by unfold Imm.grown; split <;> exact h
  read := fun s h _ _ => by
    have := read_take_drop s.rd (s.cap - s.buf.length)
    dsimp only
    split <;> (simp only [Imm.recv, Imm.fail]; rw [List.append_assoc, this]; exact h)

theorem closed_measure (m : Nat) : Closed (fun s => s.rd.measure ≤ m) where
  emitAt := fun s k h => h
  emitTail := fun s h => h
  grown := fun s h => by unfold Imm.grown; split <;> exact h
  read := fun s h _ _ => by
    have := read_measure_le s.rd (s.cap - s.buf.length)
    dsimp only
    split <;> (simp only [Imm.recv, Imm.fail]; omega)

/-- The error callback fires at most once, and only together with end of stream. -/
theorem closed_errs : Closed (fun s => s.errs = 0 ∨ (s.errs = 1 ∧ s.eof = true)) where
  emitAt := fun s k h => h
  emitTail := fun s h => h
  grown := fun s h => by unfold Imm.grown; split <;> exact h
  read := fun s h he _ => by
    have h0 : s.errs = 0 := by
      rcases h with h | ⟨_, h⟩
      · exact h
      · rw [he] at h; cases h
    dsimp only
    split
    · simp only [Imm.recv]; exact Or.inl h0
    · rename_i e _
      simp only [Imm.recv, Imm.fail]
      by_cases hf : e = .fail <;> simp [hf, h0]

/-- With no failing step in the script the callback never fires. -/
theorem closed_nofail : Closed (fun s => (∀ st ∈ s.rd.script, st.err ≠ some .fail) ∧ s.errs = 0) where
  emitAt := fun s k h => h
  emitTail := fun s h => h
  grown := fun s h => by unfold Imm.grown; split <;> exact h
  read := fun s h _ _ => by
    have hsub := read_script_sub s.rd (s.cap - s.buf.length)
    have herr := read_err_mem s.rd (s.cap - s.buf.length)
    dsimp only
    split
    · simp only [Imm.recv]; exact ⟨fun st hst => h.1 st (hsub st hst), h.2⟩
    · rename_i e heq
      simp only [Imm.recv, Imm.fail]
      refine ⟨fun st hst => h.1 st (hsub st hst), ?_⟩
      have : e ≠ .fail := by
        intro hf
        rcases herr e heq with ⟨h1, _⟩ | ⟨st, hst, hse⟩
        · rw [hf] at h1; cases h1
        · exact h.1 st hst (by rw [hse, hf])
      simp [this, h.2]

/-- With an error-free script, end of stream is only ever signalled when the reader is drained. -/
theorem closed_drained : Closed (fun s => (∀ st ∈ s.rd.script, st.err = none) ∧ (s.eof = true → s.rd.rest = [])) where
  emitAt := fun s k h => h
  emitTail := fun s h => h
  grown := fun s h => by unfold Imm.grown; split <;> exact h
  read := fun s h he _ => by
    have hsub := read_script_sub s.rd (s.cap - s.buf.length)
    have herr := read_err_mem s.rd (s.cap - s.buf.length)
    have htd := read_take_drop s.rd (s.cap - s.buf.length)
    dsimp only
    split
    · simp only [Imm.recv]
      exact ⟨fun st hst => h.1 st (hsub st hst), fun h' => by rw [he] at h'; cases h'⟩
    · rename_i e heq
      simp only [Imm.recv, Imm.fail]
      refine ⟨fun st hst => h.1 st (hsub st hst), fun _ => ?_⟩
      rcases herr e heq with ⟨_, _, hr⟩ | ⟨st, hst, hse⟩
      · rw [hr] at htd; simp at htd; exact htd.2
      · rw [h.1 st hst] at hse; cases hse

/-! ### `Scan()` always returns (fuel is sufficient) -/

theorem topEof_nofuel (s : Imm) : s.topEof.1 ≠ .fuel := by
  unfold Imm.topEof
  split
  · split <;> simp [Imm.emitAt, Imm.emitTail]
  · simp

theorem readLoop_nofuel (f : Nat) : ∀ {s : Imm} {C : Bytes}, Inv s C → s.rd.measure < f →
    (s.readLoop f).1 ≠ .fuel := by
  induction f with
  | zero => intro s C _ h; omega
  | succ f ih =>
    intro s C hinv hm
    have hg := grown_spec hinv
    simp only [Imm.readLoop]
    have hlt := read_measure s.grown.rd (s.grown.cap - s.grown.buf.length) (by have := hg.2.2.1; omega)
    generalize s.grown.rd.read (s.grown.cap - s.grown.buf.length) = r at hlt
    have h1 := recv_spec hg.1 r.1 r.2.2
    split
    · exact topEof_nofuel _
    · rename_i heq
      split
      · simp [Imm.emitAt]
      · apply ih h1.1
        rw [h1.2.2.2.2.1]
        have := hlt heq
        rw [hg.2.2.2.2.1] at this
        omega

theorem scan_nofuel (f : Nat) {s : Imm} {C : Bytes} (hinv : Inv s C) (hm : s.rd.measure < f) :
    (s.scan f).1 ≠ .fuel := by
  unfold Imm.scan
  split
  · rename_i r ht
    unfold Imm.top at ht
    split at ht
    · split at ht
      · simp at ht; rw [← ht]; simp [Imm.emitAt]
      · split at ht
        · simp at ht; rw [← ht]; simp [Imm.emitTail]
        · simp at ht
    · split at ht
      · simp at ht; rw [← ht]; simp
      · simp at ht
  · exact readLoop_nofuel f hinv hm

def Imm.consumed (s : Imm) : Nat := s.delivered.length - s.pending.length

theorem consumed_eq {s : Imm} {C : Bytes} (h : Inv s C) : s.consumed = C.length := by
  simp [Imm.consumed, h.del]

theorem scanAll_done (f : Nat) (data : Bytes) : ∀ (n : Nat) {s : Imm} {E : List Bytes}, Good s E →
    s.delivered ++ s.rd.rest = data → s.rd.measure < f → data.length - s.consumed < n →
    (s.scanAll f n).2.1 = true := by
  intro n
  induction n with
  | zero => intro s E _ _ _ h; omega
  | succ n ih =>
    intro s E hg hd hm hn
    obtain ⟨C, hinv, _⟩ := id hg
    have hsg := scan_good f hg
    have hpost := scan_post f hinv
    have hnf := scan_nofuel f hinv hm
    have hd' := scan_closed (closed_stream data) f hinv hd
    have hm' := scan_closed (closed_measure s.rd.measure) f hinv (Nat.le_refl _)
    simp only [Imm.scanAll]
    generalize s.scan f = r at hsg hpost hnf hd' hm'
    obtain ⟨res, s'⟩ := r
    cases res with
    | tok v b =>
      simp only at hsg hd' hm' ⊢
      apply ih hsg hd' (by omega)
      have hc := consumed_eq hinv
      have hlen : s'.consumed ≤ data.length ∧ s.consumed < s'.consumed := by
        simp only [Post] at hpost
        rcases hpost with ⟨_, ⟨a, _, _, hi⟩ | ⟨_, hne, _, _, hi⟩⟩
        · have := consumed_eq hi
          have hle : s'.consumed ≤ s'.delivered.length := by simp [Imm.consumed]
          have : s'.delivered.length ≤ data.length := by rw [← hd']; simp
          simp at *; omega
        · have := consumed_eq hi
          have hle : s'.consumed ≤ s'.delivered.length := by simp [Imm.consumed]
          have : s'.delivered.length ≤ data.length := by rw [← hd']; simp
          have : 0 < b.length := List.length_pos_iff.mpr hne
          simp at *; omega
      omega
    | done => rfl
    | fuel => simp at hnf

/-! ### handed-out slices keep their contents -/

theorem Ext.append (A X : List Bytes) : Ext A (A ++ X) := by
  refine ⟨by simp, fun i hi => ?_⟩
  simp [List.getD, List.getElem?_append_left hi]

theorem Ext.last (mem : List Bytes) (buf bs : Bytes) : Ext (mem ++ [buf]) (mem ++ [buf ++ bs]) := by
  refine ⟨by simp, fun i hi => ?_⟩
  simp at hi
  by_cases h : i < mem.length
  · simp [List.getD, List.getElem?_append_left h]
  · have : i = mem.length := by omega
    subst this
    simp [List.getD]

theorem closed_ext (A : List Bytes) : Closed (fun s => Ext A s.arrays) where
  emitAt := fun s k h => h
  emitTail := fun s h => h
  grown := fun s h => by
    unfold Imm.grown; split
    · exact h.trans (by simpa [Imm.arrays, Imm.regrow] using Ext.append (s.mem ++ [s.buf]) [s.buf.drop s.offset])
    · exact h
  read := fun s h _ _ => by
    dsimp only
    split <;> exact h.trans (Ext.last s.mem s.buf _)

theorem scanAll_views (f : Nat) : ∀ (n : Nat) {s : Imm} {E : List Bytes}, Good s E →
    ∀ vb ∈ (s.scanAll f n).1, readView (s.scanAll f n).2.2.arrays vb.1 = vb.2 := by
  intro n
  induction n with
  | zero => intro s E _ vb h; simp [Imm.scanAll] at h
  | succ n ih =>
    intro s E hg vb hvb
    obtain ⟨C, hinv, _⟩ := id hg
    have hsg := scan_good f hg
    have hpost := scan_post f hinv
    simp only [Imm.scanAll] at hvb ⊢
    generalize s.scan f = r at hsg hpost hvb
    obtain ⟨res, s'⟩ := r
    cases res with
    | tok v b =>
      simp only at hsg hvb ⊢
      simp only [List.mem_cons] at hvb
      rcases hvb with rfl | hmem
      · have hext := scanAll_closed (closed_ext s'.arrays) f n hsg (Ext.refl _)
        simp only [Post] at hpost
        rw [(readView_ext hext hpost.1.1).1]
        exact hpost.1.2
      · exact ih hsg vb hmem
    | done => simp at hvb
    | fuel => simp at hvb

theorem scanAll_eof (f : Nat) : ∀ (n : Nat) {s : Imm} {E : List Bytes}, Good s E →
    (s.scanAll f n).2.1 = true → (s.scanAll f n).2.2.eof = true := by
  intro n
  induction n with
  | zero => intro s E _ h; simp [Imm.scanAll] at h
  | succ n ih =>
    intro s E hg hdone
    obtain ⟨C, hinv, _⟩ := id hg
    have hsg := scan_good f hg
    have hpost := scan_post f hinv
    simp only [Imm.scanAll] at hdone ⊢
    generalize s.scan f = r at hsg hpost hdone
    obtain ⟨res, s'⟩ := r
    cases res with
    | tok v b => exact ih hsg hdone
    | done => exact hpost.1
    | fuel => simp at hdone

end Rare.C04
