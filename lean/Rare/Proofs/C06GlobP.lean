import Rare.Proofs.C06Match
import Rare.Proofs.C06Resolve
/-! C06: `filepath.Glob` over a tree returns exactly the component-wise matching paths, in sorted order. -/
namespace Rare.C06.Glob
open Rare.C06.Spec

/-! ### the order of the answer -/

theorem components_eq : ∀ s : Bytes, components s = splitSlash s
  | [] => rfl
  | c :: cs => by
    simp only [components, splitSlash, components_eq cs, slash]
    rfl

theorem bytesLt_of_le_ne : ∀ a b : Bytes, lexLe a b = true → a ≠ b → bytesLt a b
  | [], [], _, h => absurd rfl h
  | [], _ :: _, _, _ => trivial
  | _ :: _, [], h, _ => by simp [lexLe] at h
  | a :: as, b :: bs, h, hne => by
    simp only [lexLe, Bool.or_eq_true, decide_eq_true_eq, Bool.and_eq_true, beq_iff_eq] at h
    rcases h with h | ⟨rfl, h⟩
    · exact Or.inl h
    · exact Or.inr ⟨rfl, bytesLt_of_le_ne as bs h (fun e => hne (by rw [e]))⟩

theorem bytesLt_irrefl : ∀ a : Bytes, ¬ bytesLt a a
  | [] => id
  | a :: as => by
    intro h
    rcases h with h | ⟨_, h⟩
    · exact UInt8.lt_irrefl _ h
    · exact bytesLt_irrefl as h

theorem compsLt_irrefl : ∀ a : List Bytes, ¬ compsLt a a
  | [] => id
  | a :: as => by
    intro h
    rcases h with h | ⟨_, h⟩
    · exact bytesLt_irrefl _ h
    · exact compsLt_irrefl as h

theorem compsLt_snoc (xs : List Bytes) (a b : Bytes) (h : bytesLt a b) : compsLt (xs ++ [a]) (xs ++ [b]) := by
  induction xs with
  | nil => exact Or.inl h
  | cons x xs ih => exact Or.inr ⟨rfl, ih⟩

theorem compsLt_append : ∀ (xs ys : List Bytes) (a b : List Bytes), xs.length = ys.length → compsLt xs ys →
    compsLt (xs ++ a) (ys ++ b)
  | xs, [], _, _, _, h => by cases xs <;> exact absurd h (by simp [compsLt])
  | [], _ :: _, _, _, hl, _ => by simp at hl
  | x :: xs, y :: ys, a, b, hl, h => by
    rcases h with h | ⟨rfl, h⟩
    · exact Or.inl h
    · exact Or.inr ⟨rfl, compsLt_append xs ys a b (by simpa using hl) h⟩

/-! ### the text of a multi-component pattern -/

theorem hasMeta_append (a b : Bytes) : hasMeta (a ++ b) = (hasMeta a || hasMeta b) := by
  simp [hasMeta, List.any_append]

theorem hasMeta_intercalate : ∀ cs : List Bytes, hasMeta (intercalateSlash cs) = cs.any hasMeta
  | [] => rfl
  | [a] => by simp [intercalateSlash]
  | a :: b :: rest => by
    have ih := hasMeta_intercalate (b :: rest)
    simp only [intercalateSlash, hasMeta_append, List.any_cons] at ih ⊢
    have : hasMeta (47 :: intercalateSlash (b :: rest)) = hasMeta (intercalateSlash (b :: rest)) := by
      simp [hasMeta]
    rw [this, ih]

theorem wellFormed_intercalate : ∀ cs : List Bytes, (∀ c ∈ cs, WellFormed c) → WellFormed (intercalateSlash cs)
  | [], _ => ⟨[], Parses.nil⟩
  | [a], h => h a (by simp)
  | a :: b :: rest, h => by
    obtain ⟨x, hx⟩ := h a (by simp)
    obtain ⟨y, hy⟩ := wellFormed_intercalate (b :: rest) (fun c hc => h c (by simp [hc]))
    exact ⟨_, parses_append hx (Parses.lit 47 (by decide) (by decide) (by decide) (by decide) hy)⟩

theorem takeWhile_append_stop {α : Type} (p : α → Bool) : ∀ (l : List α) (x : α) (r : List α), (∀ y ∈ l, p y = true) → p x = false →
    (l ++ x :: r).takeWhile p = l
  | [], x, r, _, hx => by simp [hx]
  | y :: l, x, r, hl, hx => by
    simp only [List.cons_append, List.takeWhile_cons, hl y (by simp), if_true]
    rw [takeWhile_append_stop p l x r (fun z hz => hl z (by simp [hz])) hx]

theorem splitPath_slash (a c : Bytes) (hc : (47 : UInt8) ∉ c) : splitPath (a ++ 47 :: c) = (a ++ [47], c) := by
  unfold splitPath
  have hrev : (a ++ 47 :: c).reverse = c.reverse ++ 47 :: a.reverse := by simp
  have htw : (a ++ 47 :: c).reverse.takeWhile (· ≠ 47) = c.reverse := by
    rw [hrev]
    apply takeWhile_append_stop
    · intro y hy
      have : y ∈ c := by simpa using hy
      simp only [ne_eq, decide_not, Bool.not_eq_true', decide_eq_false_iff_not]
      intro e; subst e; exact hc this
    · simp
  simp only [htw, List.reverse_reverse, List.length_append, List.length_cons]
  have : a.length + (c.length + 1) - c.length = a.length + 1 := by omega
  rw [this]
  have e : a ++ 47 :: c = (a ++ [47]) ++ c := by simp
  rw [e, List.take_left' (by simp)]

theorem takeWhile_all {α : Type} (p : α → Bool) : ∀ (l : List α), (∀ y ∈ l, p y = true) → l.takeWhile p = l
  | [], _ => rfl
  | y :: l, hl => by
    simp only [List.takeWhile_cons, hl y (by simp), if_true]
    rw [takeWhile_all p l (fun z hz => hl z (by simp [hz]))]

theorem splitPath_noslash (c : Bytes) (hc : (47 : UInt8) ∉ c) : splitPath c = ([], c) := by
  unfold splitPath
  have htw : c.reverse.takeWhile (· ≠ 47) = c.reverse := by
    apply takeWhile_all
    intro y hy
    have : y ∈ c := by simpa using hy
    simp only [ne_eq, decide_not, Bool.not_eq_true', decide_eq_false_iff_not]
    intro e; subst e; exact hc this
  rw [htw]
  simp

/-! ### one directory, one level -/

/-- the entries of one directory that match, as paths -/
def dirHits (root : Node) (d c : Bytes) : List Bytes :=
  match readDirNames root d with
  | none => []
  | some names => (names.filter (fun n => goMatch c n == .matched true)).map (join d)

theorem globNames_ok (d c : Bytes) : ∀ (names : List Name) (m : List Bytes),
    (∀ n ∈ names, ∃ b, goMatch c n = .matched b) →
    globNames d c names m = .ok (m ++ (names.filter (fun n => goMatch c n == .matched true)).map (join d))
  | [], m, _ => by simp [globNames]
  | n :: ns, m, h => by
    obtain ⟨b, hb⟩ := h n (by simp)
    have ih := globNames_ok d c ns
    cases b with
    | true =>
      simp only [globNames, hb, List.filter_cons, beq_self_eq_true, if_true, List.map_cons]
      rw [ih _ (fun x hx => h x (by simp [hx]))]
      simp
    | false =>
      simp only [globNames, hb, List.filter_cons]
      rw [ih _ (fun x hx => h x (by simp [hx]))]
      simp

theorem goMatch_wf_total (c name : Bytes) (h : WellFormed c) : ∃ b, goMatch c name = .matched b := by
  obtain ⟨ast, hp⟩ := h
  exact goMatchF_wf_total _ c name ast (by omega) hp

theorem globDir_ok (root : Node) (d c : Bytes) (m : List Bytes) (h : WellFormed c) :
    globDir root d c m = .ok (m ++ dirHits root d c) := by
  unfold globDir dirHits
  cases readDirNames root d with
  | none => simp
  | some names => exact globNames_ok d c names m (fun n _ => goMatch_wf_total c n h)

theorem globDirs_ok (root : Node) (c : Bytes) (h : WellFormed c) : ∀ (ds : List Bytes) (m : List Bytes),
    globDirs root c ds m = .ok (m ++ ds.flatMap (dirHits root · c))
  | [], m => by simp [globDirs]
  | d :: ds, m => by
    simp only [globDirs, globDir_ok root d c m h, globDirs_ok root c h ds, List.flatMap_cons, List.append_assoc]

/-- `d` is `.` (`ds = []`) or the path made of the proper names `ds` -/
def Dirish (k : Nat) (d : Bytes) (ds : List Name) : Prop :=
  ds.length = k ∧ (∀ x ∈ ds, NormalName x) ∧ d = (if ds = [] then dot else intercalateSlash ds)

theorem snoc_normal {ds : List Name} {n : Name} (h1 : ∀ x ∈ ds, NormalName x) (h2 : NormalName n) :
    ∀ x ∈ ds ++ [n], NormalName x := by
  intro x hx
  rcases List.mem_append.1 hx with h | h
  · exact h1 x h
  · simp only [List.mem_singleton] at h; subst h; exact h2

theorem simple_ne_dot (ds : List Name) (hne : ds ≠ []) (hn : ∀ x ∈ ds, NormalName x) : intercalateSlash ds ≠ dot := by
  match ds, hne with
  | [a], _ => exact (hn a (by simp)).2.2.2.1
  | a :: b :: rest, _ =>
    simp only [intercalateSlash]
    intro e
    have hlen := congrArg List.length e
    have ha : a ≠ [] := (hn a (by simp)).1
    have hb := intercalateSlash_ne_nil (b :: rest) (by simp) (fun x hx => (hn x (by simp [hx])).1)
    cases a with
    | nil => exact ha rfl
    | cons x xs =>
      cases hi : intercalateSlash (b :: rest) with
      | nil => exact hb hi
      | cons y ys => rw [hi] at hlen; simp [dot] at hlen

theorem Dirish.join {k : Nat} {d : Bytes} {ds : List Name} (h : Dirish k d ds) {n : Name} (hn : NormalName n) :
    Glob.join d n = intercalateSlash (ds ++ [n]) ∧ pjoin d n = intercalateSlash (ds ++ [n]) ∧
      Dirish (k + 1) (intercalateSlash (ds ++ [n])) (ds ++ [n]) ∧
      components (intercalateSlash (ds ++ [n])) = ds ++ [n] := by
  obtain ⟨hk, hnorm, hd⟩ := h
  have hall := snoc_normal hnorm hn
  refine ⟨?_, ?_, ⟨by simp [hk], hall, by simp⟩, ?_⟩
  · by_cases hds : ds = []
    · subst hds; simp only [if_true] at hd; subst hd
      simpa [intercalateSlash] using (join_dot n hn).1
    · simp only [hds, if_false] at hd; subst hd
      exact join_simple ds n hds hnorm hn
  · unfold pjoin
    by_cases hds : ds = []
    · subst hds; simp only [if_true] at hd; subst hd
      simp [dotPath, dot, intercalateSlash]
    · simp only [hds, if_false] at hd; subst hd
      have : intercalateSlash ds ≠ dotPath := simple_ne_dot ds hds hnorm
      simp only [this, if_false, slash]
      exact (intercalateSlash_append_singleton ds n hds).symm
  · rw [components_eq]
    exact splitSlash_intercalate _ (by simp) (fun x hx => (hall x hx).2.1)

theorem Dirish.components {k : Nat} {d : Bytes} {ds : List Name} (h : Dirish k d ds) (hne : ds ≠ []) :
    components d = ds := by
  obtain ⟨_, hnorm, hd⟩ := h
  simp only [hne, if_false] at hd; subst hd
  rw [components_eq]
  exact splitSlash_intercalate _ hne (fun x hx => (hnorm x hx).2.1)

theorem Dirish.unique {k : Nat} {d : Bytes} {ds ds' : List Name} (h : Dirish k d ds) (h' : Dirish k d ds') : ds = ds' := by
  by_cases e : ds = []
  · subst e
    have : k = 0 := h.1.symm
    have := h'.1
    cases ds' <;> simp_all
  · have e' : ds' ≠ [] := by
      intro e'; subst e'
      have h1 := h.1; have h2 := h'.1
      simp only [List.length_nil] at h2
      rw [← h2] at h1
      exact e (List.length_eq_zero_iff.1 h1)
    rw [← h.components e, ← h'.components e']

theorem pairwise_filter_map_of {α β : Type} {R : α → α → Prop} {S : β → β → Prop} (f : α → β) (p : α → Bool)
    (hf : ∀ a b, R a b → S (f a) (f b)) : ∀ l : List α, l.Pairwise R → ((l.filter p).map f).Pairwise S := by
  intro l hl
  exact List.Pairwise.map f hf (hl.sublist List.filter_sublist)

/-- One level of the expansion: from the directories `D` to the matching entries below them. -/
theorem glob_level (root : Node) (hw : root.WF) (c : Bytes) (ast : Pat) (k : Nat) (D : List Bytes) (R : Bytes → Prop)
    (hmem : ∀ d, d ∈ D ↔ R d) (hdir : ∀ d ∈ D, ∃ ds, Dirish k d ds) (hord : D.Pairwise pathLt)
    (hok : ∀ d ∈ D, ∀ names n, readDirNames root d = some names → n ∈ names →
      (goMatch c n = .matched true ↔ Matches ast n)) :
    (∀ p, p ∈ D.flatMap (dirHits root · c) ↔
      ∃ d names n, R d ∧ readDirNames root d = some names ∧ n ∈ names ∧ Matches ast n ∧ p = pjoin d n) ∧
    (∀ p ∈ D.flatMap (dirHits root · c), ∃ ds, Dirish (k + 1) p ds) ∧
    (D.flatMap (dirHits root · c)).Pairwise pathLt := by
  -- what one directory contributes
  have one : ∀ d ∈ D, ∀ ds, Dirish k d ds → ∀ p, p ∈ dirHits root d c ↔
      ∃ names n, readDirNames root d = some names ∧ n ∈ names ∧ Matches ast n ∧ p = intercalateSlash (ds ++ [n]) := by
    intro d hd ds hds p
    unfold dirHits
    cases hr : readDirNames root d with
    | none => simp
    | some names =>
      have hnn := (readDirNames_wf root hw d names hr).1
      simp only [List.mem_map, List.mem_filter, beq_iff_eq]
      constructor
      · intro ⟨n, ⟨hn, hm⟩, hp⟩
        exact ⟨names, n, rfl, hn, (hok d hd names n hr hn).1 hm, by rw [← hp, (hds.join (hnn n hn)).1]⟩
      · intro ⟨names', n, he, hn, hm, hp⟩
        cases he
        exact ⟨n, ⟨hn, (hok d hd names n hr hn).2 hm⟩, by rw [hp, (hds.join (hnn n hn)).1]⟩
  refine ⟨?_, ?_, ?_⟩
  · intro p
    simp only [List.mem_flatMap]
    constructor
    · intro ⟨d, hd, hp⟩
      obtain ⟨ds, hds⟩ := hdir d hd
      obtain ⟨names, n, hr, hn, hm, hpe⟩ := (one d hd ds hds p).1 hp
      have hnn := (readDirNames_wf root hw d names hr).1 n hn
      exact ⟨d, names, n, (hmem d).1 hd, hr, hn, hm, by rw [hpe, (hds.join hnn).2.1]⟩
    · intro ⟨d, names, n, hR, hr, hn, hm, hpe⟩
      have hd := (hmem d).2 hR
      obtain ⟨ds, hds⟩ := hdir d hd
      have hnn := (readDirNames_wf root hw d names hr).1 n hn
      exact ⟨d, hd, (one d hd ds hds p).2 ⟨names, n, hr, hn, hm, by rw [hpe, (hds.join hnn).2.1]⟩⟩
  · intro p hp
    simp only [List.mem_flatMap] at hp
    obtain ⟨d, hd, hp⟩ := hp
    obtain ⟨ds, hds⟩ := hdir d hd
    obtain ⟨names, n, hr, hn, _, hpe⟩ := (one d hd ds hds p).1 hp
    have hnn := (readDirNames_wf root hw d names hr).1 n hn
    exact ⟨ds ++ [n], by rw [hpe]; exact (hds.join hnn).2.2.1⟩
  · -- sorted: within one directory by the names, across directories by the directories
    have within : ∀ d ∈ D, (dirHits root d c).Pairwise pathLt := by
      intro d hd
      obtain ⟨ds, hds⟩ := hdir d hd
      unfold dirHits
      cases hr : readDirNames root d with
      | none => exact List.Pairwise.nil
      | some names =>
        obtain ⟨hnn, hsorted⟩ := readDirNames_wf root hw d names hr
        -- restrict to the names of this listing to have their normality at hand
        have : ((names.filter (fun n => goMatch c n == .matched true)).map (Glob.join d)).Pairwise pathLt := by
          have hs2 : names.Pairwise (fun a b => (lexLe a b = true ∧ a ≠ b) ∧ NormalName a ∧ NormalName b) := by
            apply List.Pairwise.imp_of_mem _ hsorted
            intro a b ha hb h
            exact ⟨h, hnn a ha, hnn b hb⟩
          apply pairwise_filter_map_of (Glob.join d) _ _ names hs2
          intro a b ⟨⟨hle, hne⟩, ha, hb⟩
          unfold pathLt
          rw [(hds.join ha).1, (hds.join hb).1, (hds.join ha).2.2.2, (hds.join hb).2.2.2]
          exact compsLt_snoc ds a b (bytesLt_of_le_ne a b hle hne)
        exact this
    have across : ∀ d ∈ D, ∀ d' ∈ D, pathLt d d' → ∀ p ∈ dirHits root d c, ∀ q ∈ dirHits root d' c, pathLt p q := by
      intro d hd d' hd' hlt p hp q hq
      obtain ⟨ds, hds⟩ := hdir d hd
      obtain ⟨ds', hds'⟩ := hdir d' hd'
      obtain ⟨names, n, hr, hn, _, hpe⟩ := (one d hd ds hds p).1 hp
      obtain ⟨names', n', hr', hn', _, hqe⟩ := (one d' hd' ds' hds' q).1 hq
      have hnn := (readDirNames_wf root hw d names hr).1 n hn
      have hnn' := (readDirNames_wf root hw d' names' hr').1 n' hn'
      unfold pathLt
      rw [hpe, hqe, (hds.join hnn).2.2.2, (hds'.join hnn').2.2.2]
      by_cases e : ds = []
      · -- both are `.`: impossible, `.` is not below itself
        subst e
        have hk : k = 0 := hds.1.symm
        have e' : ds' = [] := by
          have := hds'.1; rw [hk] at this
          exact List.length_eq_zero_iff.1 this
        subst e'
        have h1 := hds.2.2; have h2 := hds'.2.2
        simp only [if_true] at h1 h2
        rw [h1, h2] at hlt
        exact absurd hlt (compsLt_irrefl _)
      · have e' : ds' ≠ [] := by
          intro e'; subst e'
          have h1 := hds.1; have h2 := hds'.1
          simp only [List.length_nil] at h2
          rw [← h2] at h1
          exact e (List.length_eq_zero_iff.1 h1)
        unfold pathLt at hlt
        rw [hds.components e, hds'.components e'] at hlt
        exact compsLt_append ds ds' [n] [n'] (by rw [hds.1, hds'.1]) hlt
    clear one hmem hok
    induction D with
    | nil => exact List.Pairwise.nil
    | cons d D ih =>
      simp only [List.flatMap_cons]
      rw [List.pairwise_append]
      have hord' := List.pairwise_cons.1 hord
      refine ⟨within d (by simp), ?_, ?_⟩
      · exact ih (fun x hx => hdir x (by simp [hx])) hord'.2 (fun x hx => within x (by simp [hx]))
          (fun x hx y hy => across x (by simp [hx]) y (by simp [hy]))
      · intro p hp q hq
        simp only [List.mem_flatMap] at hq
        obtain ⟨d', hd', hq⟩ := hq
        exact across d (by simp) d' (by simp [hd']) (hord'.1 d' hd') p hp q hq

/-! ### the whole expansion -/

/-- the file system as `Glob` sees it -/
def treeView (root : Node) : FsView := ⟨readDirNames root⟩

theorem split_last (xs : List Bytes) (c : Bytes) (hxs : xs ≠ []) (hne : ∀ x ∈ xs, x ≠ []) (hc : (47 : UInt8) ∉ c) :
    splitPath (intercalateSlash (xs ++ [c])) = (intercalateSlash xs ++ [47], c) ∧
    cleanGlobPath (intercalateSlash xs ++ [47]) = intercalateSlash xs := by
  constructor
  · rw [intercalateSlash_append_singleton xs c hxs]
    exact splitPath_slash _ c hc
  · have h1 := intercalateSlash_ne_nil xs hxs hne
    unfold cleanGlobPath
    have h2 : intercalateSlash xs ++ [47] ≠ [] := by simp
    have h3 : intercalateSlash xs ++ [47] ≠ [47] := by
      intro e
      have := congrArg List.length e
      simp only [List.length_append, List.length_cons, List.length_nil] at this
      exact h1 (List.length_eq_zero_iff.1 (by omega))
    simp [h2, h3]

theorem globRel_cons_iff (fs : FsView) (start c : Bytes) (rcs : List Bytes) (ast : Pat) (hp : Parses c ast) (p : Bytes) :
    GlobRel fs start (c :: rcs) p ↔
      ∃ d names n, GlobRel fs start rcs d ∧ fs.list d = some names ∧ n ∈ names ∧ Matches ast n ∧ p = pjoin d n := by
  simp only [GlobRel]
  constructor
  · intro ⟨d, names, n, ast', h1, h2, h3, h4, h5, h6⟩
    rw [parses_unique h4 hp] at h5
    exact ⟨d, names, n, h1, h2, h3, h5, h6⟩
  · intro ⟨d, names, n, h1, h2, h3, h5, h6⟩
    exact ⟨d, names, n, ast, h1, h2, h3, hp, h5, h6⟩

theorem globF_spec (root : Node) (hw : root.WF) (lits : List Name)
    (hl : ∀ x ∈ lits, NormalName x ∧ hasMeta x = false) :
    ∀ (rcs : List Bytes), rcs ≠ [] → (∀ c ∈ rcs, c ≠ [] ∧ (47 : UInt8) ∉ c ∧ WellFormed c) →
      (∀ c ∈ rcs, ∀ ast, Parses c ast → ∀ d names n, readDirNames root d = some names → n ∈ names →
        (goMatch c n = .matched true ↔ Matches ast n)) →
      (∀ c, rcs.getLast? = some c → hasMeta c = true) →
      ∀ f, rcs.length < f →
      ∃ L, globF f root (intercalateSlash (lits ++ rcs.reverse)) = .ok L ∧
        (∀ p, p ∈ L ↔ GlobRel (treeView root) (if lits = [] then dot else intercalateSlash lits) rcs p) ∧
        (∀ p ∈ L, ∃ ds, Dirish (lits.length + rcs.length) p ds) ∧ L.Pairwise pathLt := by
  intro rcs
  induction rcs with
  | nil => intro h; exact absurd rfl h
  | cons c rcs' ih =>
    intro _ hcs hmatch hmeta f hf
    obtain ⟨hcne, hcsl, hcwf⟩ := hcs c (by simp)
    obtain ⟨ast, hpc⟩ := hcwf
    cases f with
    | zero => omega
    | succ f =>
      -- the components before the last one
      have hlits_ne : ∀ x ∈ lits, x ≠ [] := fun x hx => (hl x hx).1.1
      have hxs_ne : ∀ x ∈ lits ++ rcs'.reverse, x ≠ [] := by
        intro x hx
        rcases List.mem_append.1 hx with h | h
        · exact hlits_ne x h
        · exact (hcs x (by simp [List.mem_reverse.1 h])).1
      have hall_wf : ∀ x ∈ lits ++ (c :: rcs').reverse, WellFormed x := by
        intro x hx
        rcases List.mem_append.1 hx with h | h
        · exact ⟨_, noMeta_parses x (hl x h).2⟩
        · exact (hcs x (List.mem_reverse.1 h)).2.2
      have hpat_wf := wellFormed_intercalate _ hall_wf
      obtain ⟨b, hb⟩ := goMatch_wf_total _ [] hpat_wf
      have hpat_meta : hasMeta (intercalateSlash (lits ++ (c :: rcs').reverse)) = true := by
        rw [hasMeta_intercalate, List.any_eq_true]
        cases hg : (c :: rcs').getLast? with
        | none => simp at hg
        | some g =>
          exact ⟨g, List.mem_append_right _ (List.mem_reverse.2 (List.mem_of_getLast? hg)), hmeta g hg⟩
      have hrev : lits ++ (c :: rcs').reverse = (lits ++ rcs'.reverse) ++ [c] := by simp
      unfold globF
      simp only [hb, hpat_meta, Bool.not_true, Bool.false_eq_true, if_false]
      by_cases hx : lits ++ rcs'.reverse = []
      · -- a single component: the directory is `.`
        have hl0 : lits = [] := (List.append_eq_nil_iff.1 hx).1
        have hr0 : rcs' = [] := by simpa using (List.append_eq_nil_iff.1 hx).2
        subst hl0 hr0
        simp only [List.reverse_cons, List.reverse_nil, List.nil_append, intercalateSlash, splitPath_noslash c hcsl]
        have hcg : cleanGlobPath [] = dot := rfl
        have hdm : hasMeta dot = false := by decide
        simp only [hcg, hdm, Bool.not_false, if_true, globDir_ok root dot c [] ⟨ast, hpc⟩, List.nil_append]
        have hlev := glob_level root hw c ast 0 [dot] (fun d => d = dot) (by simp)
          (by intro d hd; simp only [List.mem_singleton] at hd; subst hd; exact ⟨[], rfl, by simp, rfl⟩)
          (List.pairwise_singleton _ _)
          (fun d _ names n hr hn => hmatch c (by simp) ast hpc d names n hr hn)
        simp only [List.flatMap_cons, List.flatMap_nil, List.append_nil] at hlev
        refine ⟨_, rfl, ?_, by simpa using hlev.2.1, hlev.2.2⟩
        intro p
        rw [hlev.1 p, globRel_cons_iff _ _ _ _ ast hpc]
        simp [GlobRel, treeView]
      · obtain ⟨hsp, hcgp⟩ := split_last (lits ++ rcs'.reverse) c hx hxs_ne hcsl
        rw [hrev]
        simp only [hsp, hcgp]
        have hdir_ne : intercalateSlash (lits ++ rcs'.reverse) ≠ intercalateSlash (lits ++ rcs'.reverse ++ [c]) := by
          rw [intercalateSlash_append_singleton _ c hx]
          intro e
          have := congrArg List.length e
          simp at this
        by_cases hr0 : rcs' = []
        · -- the first pattern component: the directory is the literal prefix
          subst hr0
          simp only [List.reverse_nil, List.append_nil] at hx hsp hcgp hdir_ne ⊢
          have hdm : hasMeta (intercalateSlash lits) = false := by
            rw [hasMeta_intercalate]
            simp only [List.any_eq_false]
            intro x hxm
            simp [(hl x hxm).2]
          simp only [hdm, Bool.not_false, if_true, globDir_ok root _ c [] ⟨ast, hpc⟩, List.nil_append, hx, if_false]
          have hlev := glob_level root hw c ast lits.length [intercalateSlash lits] (fun d => d = intercalateSlash lits)
            (by simp)
            (by
              intro d hd; simp only [List.mem_singleton] at hd; subst hd
              exact ⟨lits, rfl, fun x hxm => (hl x hxm).1, by simp [hx]⟩)
            (List.pairwise_singleton _ _)
            (fun d _ names n hr hn => hmatch c (by simp) ast hpc d names n hr hn)
          simp only [List.flatMap_cons, List.flatMap_nil, List.append_nil] at hlev
          refine ⟨_, rfl, ?_, by simpa using hlev.2.1, hlev.2.2⟩
          intro p
          rw [hlev.1 p, globRel_cons_iff _ _ _ _ ast hpc]
          simp [GlobRel, treeView]
        · -- a deeper component: expand the directory part first
          have hdm : hasMeta (intercalateSlash (lits ++ rcs'.reverse)) = true := by
            rw [hasMeta_intercalate, List.any_eq_true]
            cases hg : (c :: rcs').getLast? with
            | none => simp at hg
            | some g =>
              have hg' : rcs'.getLast? = some g := by
                cases rcs' with
                | nil => exact absurd rfl hr0
                | cons a as => simpa [List.getLast?_cons_cons] using hg
              exact ⟨g, List.mem_append_right _ (List.mem_reverse.2 (List.mem_of_getLast? hg')), hmeta g hg⟩
          simp only [hdm, Bool.not_true, Bool.false_eq_true, if_false, hdir_ne]
          obtain ⟨L', hL', hmem', hdir', hord'⟩ := ih hr0 (fun x hxm => hcs x (by simp [hxm]))
            (fun x hxm => hmatch x (by simp [hxm]))
            (by
              intro g hg
              apply hmeta g
              cases rcs' with
              | nil => exact absurd rfl hr0
              | cons a as => simpa [List.getLast?_cons_cons] using hg)
            f (by simp only [List.length_cons] at hf; omega)
          simp only [hL', globDirs_ok root c ⟨ast, hpc⟩, List.nil_append]
          have hlev := glob_level root hw c ast (lits.length + rcs'.length) L' _ hmem' hdir' hord'
            (fun d _ names n hr hn => hmatch c (by simp) ast hpc d names n hr hn)
          refine ⟨_, rfl, ?_, ?_, hlev.2.2⟩
          · intro p
            rw [hlev.1 p, globRel_cons_iff _ _ _ _ ast hpc]
            simp [treeView]
          · simpa [Nat.add_assoc] using hlev.2.1

end Rare.C06.Glob
