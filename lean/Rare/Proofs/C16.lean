import Rare.Model.C16
/-! Helper lemmas for property C16 (JSON views). -/
namespace Rare.C16

/-- ASCII literal as bytes, reducible by `decide` (for examples) -/
def lit (s : String) : Bytes := s.toList.map (fun c => UInt8.ofNat c.toNat)

/-! ### `escape` is a byte-wise substitution -/

/-- what `escape` does to one byte -/
def esc1 (c : UInt8) : Bytes := if lookup c ≠ [] then lookup c else [c]

theorem escapeLoop_spec (s : Bytes) : ∀ (r pre : Bytes) (hm : Bool) (sb : Bytes),
    s = pre ++ r →
    (hm = true → sb = pre.flatMap esc1) →
    (hm = false → sb = [] ∧ pre.flatMap esc1 = pre) →
    (if (escapeLoop s pre.length hm sb r).1 then (escapeLoop s pre.length hm sb r).2 else s)
      = s.flatMap esc1 := by
  intro r
  induction r with
  | nil =>
    intro pre hm sb hs h1 h2
    simp only [escapeLoop]
    cases hm with
    | true => simp [h1 rfl, hs]
    | false => simp [hs, (h2 rfl).2]
  | cons c r ih =>
    intro pre hm sb hs h1 h2
    have hlen : (pre ++ [c]).length = pre.length + 1 := by simp
    have hs' : s = (pre ++ [c]) ++ r := by simp [hs]
    unfold escapeLoop
    by_cases hl : lookup c ≠ []
    · simp only [if_pos hl]
      rw [← hlen]
      apply ih (pre ++ [c]) true _ hs'
      · intro _
        cases hm with
        | true => simp [h1 rfl, esc1, hl]
        | false =>
          have := h2 rfl
          simp [this.1, hs, esc1, hl, List.flatMap_append, this.2]
      · intro h; cases h
    · simp only [if_neg hl]
      have hl' : lookup c = [] := by simpa using hl
      cases hm with
      | true =>
        simp only [↓reduceIte]
        rw [← hlen]
        apply ih (pre ++ [c]) true _ hs'
        · intro _; simp [h1 rfl, esc1, hl']
        · intro h; cases h
      | false =>
        simp only [Bool.false_eq_true, ↓reduceIte]
        rw [← hlen]
        apply ih (pre ++ [c]) false _ hs'
        · intro h; cases h
        · intro _
          have := h2 rfl
          exact ⟨this.1, by simp [List.flatMap_append, this.2, esc1, hl']⟩

theorem escape_eq_flatMap (s : Bytes) : escape s = s.flatMap esc1 := by
  have := escapeLoop_spec s s [] false [] (by simp) (by intro h; cases h) (by intro _; simp)
  simpa [escape] using this

theorem escape_nil : escape [] = [] := by simp [escape_eq_flatMap]

theorem escape_cons (c : UInt8) (s : Bytes) : escape (c :: s) = esc1 c ++ escape s := by
  simp [escape_eq_flatMap]

theorem escape_append (a b : Bytes) : escape (a ++ b) = escape a ++ escape b := by
  simp [escape_eq_flatMap]


/-! ### every table entry is an escape sequence the RFC parser reads back as the byte -/

/-- shape check of one table entry `e` for byte `c` -/
def entryOk (c : UInt8) (e : Bytes) : Bool :=
  match e with
  | [] => 0x20 ≤ c && c != 0x22 && c != 0x5c
  | [a, x] => a == 0x5c && x != 0x75 && unescape1 x == some c
  | [a, u, z1, z2, h3, h4] =>
    a == 0x5c && u == 0x75 && z1 == 0x30 && z2 == 0x30 &&
      (match hexVal h3, hexVal h4 with
       | some p, some q => p * 16 + q == c.toNat && c.toNat < 0x80
       | _, _ => false)
  | _ => false

set_option maxRecDepth 100000 in
theorem table_ok : ∀ n, n < 256 → entryOk (UInt8.ofNat n) (lookup (UInt8.ofNat n)) = true := by
  decide

theorem lookup_ok (c : UInt8) : entryOk c (lookup c) = true := by
  have := table_ok c.toNat c.toNat_lt
  simpa using this

abbrev consOut (c : UInt8) (o : Option (Bytes × Bytes)) : Option (Bytes × Bytes) :=
  o.map fun p => (c :: p.1, p.2)

theorem strBody_plain (c : UInt8) (tail : Bytes) (h1 : 0x20 ≤ c) (h2 : c ≠ 0x22) (h3 : c ≠ 0x5c) :
    strBody .norm (c :: tail) = consOut c (strBody .norm tail) := by
  have : ¬ c < 0x20 := UInt8.not_lt.mpr h1
  simp [strBody, h2, h3, this]

theorem strBody_short (x c : UInt8) (tail : Bytes) (hx : x ≠ 0x75) (hu : unescape1 x = some c) :
    strBody .norm (0x5c :: x :: tail) = consOut c (strBody .norm tail) := by
  simp [strBody, hx, hu]

theorem hexVal_zero : hexVal 0x30 = some 0 := by decide

theorem strBody_u (h3 h4 c : UInt8) (p q : Nat) (tail : Bytes)
    (hp : hexVal h3 = some p) (hq : hexVal h4 = some q) (hc : p * 16 + q = c.toNat) (hlt : c.toNat < 0x80) :
    strBody .norm (0x5c :: 0x75 :: 0x30 :: 0x30 :: h3 :: h4 :: tail) = consOut c (strBody .norm tail) := by
  have e : utf8Enc c.toNat = [c] := by simp [utf8Enc, hlt]
  have ns : ¬ (0xD800 ≤ c.toNat ∧ c.toNat < 0xE000) := by omega
  simp [strBody, hexVal_zero, hp, hq, hc, e, ns]

theorem strBody_esc1 (c : UInt8) (tail : Bytes) :
    strBody .norm (esc1 c ++ tail) = consOut c (strBody .norm tail) := by
  have ok := lookup_ok c
  unfold esc1
  generalize lookup c = e at ok
  match e, ok with
  | [], ok =>
    simp [entryOk] at ok
    simpa using strBody_plain c tail ok.1.1 ok.1.2 ok.2
  | [a, x], ok =>
    simp [entryOk] at ok
    obtain ⟨⟨ha, hx⟩, hu⟩ := ok
    subst ha
    simpa using strBody_short x c tail hx hu
  | [a, u, z1, z2, h3, h4], ok =>
    simp only [entryOk, Bool.and_eq_true, beq_iff_eq] at ok
    obtain ⟨⟨⟨⟨ha, hu⟩, hz1⟩, hz2⟩, hh⟩ := ok
    subst ha hu hz1 hz2
    cases hp : hexVal h3 with
    | none => simp [hp] at hh
    | some p =>
      cases hq : hexVal h4 with
      | none => simp [hp, hq] at hh
      | some q =>
        simp [hp, hq] at hh
        simpa using strBody_u h3 h4 c p q tail hp hq hh.1 hh.2
  | [_], ok => simp [entryOk] at ok
  | [_, _, _], ok => simp [entryOk] at ok
  | [_, _, _, _], ok => simp [entryOk] at ok
  | [_, _, _, _, _], ok => simp [entryOk] at ok
  | _ :: _ :: _ :: _ :: _ :: _ :: _ :: _, ok => simp [entryOk] at ok

/-- A string written as `escape s` followed by a quote reads back as `s`. -/
theorem strBody_escape (s tail : Bytes) :
    strBody .norm (escape s ++ 0x22 :: tail) = some (s, tail) := by
  induction s with
  | nil => simp [escape_nil, strBody]
  | cons c s ih =>
    rw [escape_cons, List.append_assoc, strBody_esc1, ih]
    rfl


/-! ### numbers -/

theorem isDig_false_of (c : UInt8) (h : c < 0x30 ∨ c > 0x39) : isDig c = false := by
  simp only [isDig, Bool.and_eq_false_iff, decide_eq_false_iff_not, UInt8.not_le]
  rcases h with h | h
  · exact Or.inl h
  · exact Or.inr h

theorem isDig_true_of (c : UInt8) (h : ¬ (c < 0x30 ∨ c > 0x39)) : isDig c = true := by
  simp only [isDig, Bool.and_eq_true, decide_eq_true_eq]
  constructor
  · exact UInt8.not_lt.mp (fun h' => h (Or.inl h'))
  · exact UInt8.not_lt.mp (fun h' => h (Or.inr h'))

theorem isDig_ne (c d : UInt8) (h : isDig c = true) (hd : isDig d = false) : c ≠ d := by
  intro e; subst e; simp [h] at hd

theorem numLoop2_some : ∀ (r : Bytes) (i j : Nat), numLoop2 i r = some j →
    r.all isDig = true ∧ j = i + r.length := by
  intro r
  induction r with
  | nil => intro i j h; simp [numLoop2] at h; simp [h]
  | cons c r ih =>
    intro i j h
    unfold numLoop2 at h
    by_cases hc : c < 0x30 ∨ c > 0x39
    · simp [hc] at h
    · rw [if_neg hc] at h
      have := ih _ _ h
      refine ⟨by simp [isDig_true_of c hc, this.1], by simp [this.2]; omega⟩

theorem numLoop1_some : ∀ (s : Bytes) (i j : Nat) (rest : Bytes), numLoop1 i s = some (j, rest) →
    ∃ ip, ip.all isDig = true ∧
      ((s = ip ∧ rest = [] ∧ j = i + ip.length) ∨
       (s = ip ++ 0x2e :: rest ∧ rest ≠ [] ∧ 0 < i + ip.length ∧ j = i + ip.length + 1)) := by
  intro s
  induction s with
  | nil =>
    intro i j rest h
    simp [numLoop1] at h
    exact ⟨[], by simp, Or.inl ⟨rfl, h.2, by simp [h.1]⟩⟩
  | cons c r ih =>
    intro i j rest h
    unfold numLoop1 at h
    by_cases hdot : c = 0x2e
    · rw [if_pos hdot] at h
      by_cases hi : i = 0
      · simp [hi] at h
      · rw [if_neg hi] at h
        by_cases hr : r = []
        · simp [hr] at h
        · rw [if_neg hr] at h
          simp at h
          refine ⟨[], by simp, Or.inr ⟨by simp [hdot, h.2], by simpa [← h.2] using hr, by simp; omega, by simp [h.1]⟩⟩
    · rw [if_neg hdot] at h
      by_cases hc : c < 0x30 ∨ c > 0x39
      · simp [hc] at h
      · rw [if_neg hc] at h
        obtain ⟨ip, hall, hcase⟩ := ih _ _ _ h
        refine ⟨c :: ip, by simp [isDig_true_of c hc, hall], ?_⟩
        rcases hcase with ⟨h1, h2, h3⟩ | ⟨h1, h2, h3, h4⟩
        · exact Or.inl ⟨by simp [h1], h2, by simp [h3]; omega⟩
        · exact Or.inr ⟨by simp [h1], h2, by simp; omega, by simp [h4]; omega⟩

/-- the shapes `isNumeric` accepts: `int` or `int.frac` without a superfluous leading zero -/
theorem isNumeric_shape (s : Bytes) (h : isNumeric s = true) :
    ∃ ip fp, ip ≠ [] ∧ ip.all isDig = true ∧ fp.all isDig = true ∧
      ¬ (1 < ip.length ∧ ip.head? = some 0x30) ∧
      ((s = ip ∧ fp = []) ∨ (s = ip ++ 0x2e :: fp ∧ fp ≠ [])) := by
  unfold isNumeric at h
  by_cases hz : 1 < s.length ∧ s.head? = some 0x30 ∧ s.tail.head? ≠ some 0x2e
  · rw [if_pos hz] at h; cases h
  · rw [if_neg hz] at h
    cases h1 : numLoop1 0 s with
    | none => simp [h1] at h
    | some p =>
      obtain ⟨i, r⟩ := p
      simp only [h1] at h
      cases h2 : numLoop2 i r with
      | none => simp [h2] at h
      | some j =>
        simp only [h2, decide_eq_true_eq] at h
        obtain ⟨ip, hall, hcase⟩ := numLoop1_some s 0 i r h1
        obtain ⟨hr, hj⟩ := numLoop2_some r i j h2
        have hnz : ¬ (1 < ip.length ∧ ip.head? = some 0x30) := by
          rintro ⟨hl, hh⟩
          match ip, hl, hh, hall with
          | a :: b :: ip', _, hh, hall =>
            simp at hh hall
            apply hz
            have hb : b ≠ 0x2e := isDig_ne b 0x2e hall.2.1 (by decide)
            rcases hcase with ⟨e1, _, _⟩ | ⟨e1, _, _, _⟩
            · subst e1; simp [hh, hb]
            · subst e1; simp [hh, hb]
        rcases hcase with ⟨e1, e2, e3⟩ | ⟨e1, e2, e3, e4⟩
        · subst e2
          have : ip ≠ [] := by
            intro e; subst e; simp at e3 hj; omega
          exact ⟨ip, [], this, hall, by simp, hnz, Or.inl ⟨e1, rfl⟩⟩
        · have : ip ≠ [] := by
            intro e; subst e; simp at e3
          exact ⟨ip, r, this, hall, hr, hnz, Or.inr ⟨e1, e2⟩⟩

/-- `t` cannot continue a number -/
def EndsNumber (t : Bytes) : Prop :=
  ∀ c, t.head? = some c → isDig c = false ∧ c ≠ 0x2e ∧ c ≠ 0x65 ∧ c ≠ 0x45

theorem endsNumber_nil : EndsNumber [] := by intro c h; simp at h

theorem endsNumber_cons (c : UInt8) (r : Bytes) (h : isDig c = false ∧ c ≠ 0x2e ∧ c ≠ 0x65 ∧ c ≠ 0x45) :
    EndsNumber (c :: r) := by
  intro d hd; simp at hd; subst hd; exact h

theorem span_loop_digits : ∀ (ip t acc : Bytes), ip.all isDig = true →
    (∀ c, t.head? = some c → isDig c = false) →
    List.span.loop isDig (ip ++ t) acc = (acc.reverse ++ ip, t) := by
  intro ip
  induction ip with
  | nil =>
    intro t acc _ ht
    cases t with
    | nil => simp [List.span.loop]
    | cons c r => simp [List.span.loop, ht c (by simp)]
  | cons a ip ih =>
    intro t acc hall ht
    simp at hall
    simp [List.span.loop, hall.1, ih t (a :: acc) (by simpa using hall.2) ht]

theorem span_digits (ip t : Bytes) (hall : ip.all isDig = true)
    (ht : ∀ c, t.head? = some c → isDig c = false) : (ip ++ t).span isDig = (ip, t) := by
  simp [List.span, span_loop_digits ip t [] hall ht]

theorem parseFrac_end (t : Bytes) (h : EndsNumber t) : parseFrac t = some ([], t) := by
  cases t with
  | nil => simp [parseFrac]
  | cons c r => simp [parseFrac, (h c (by simp)).2.1]

theorem parseExp_end (t : Bytes) (h : EndsNumber t) : parseExp t = some (0, t) := by
  cases t with
  | nil => simp [parseExp]
  | cons c r => simp [parseExp, (h c (by simp)).2.2.1, (h c (by simp)).2.2.2]

theorem head_digit_append (ip t : Bytes) (hne : ip ≠ []) (hall : ip.all isDig = true) :
    ∃ a, (ip ++ t).head? = some a ∧ isDig a = true := by
  cases ip with
  | nil => exact absurd rfl hne
  | cons a ip' => simp at hall; exact ⟨a, by simp, hall.1⟩

theorem parseNumber_int (ip t : Bytes) (hne : ip ≠ []) (hall : ip.all isDig = true)
    (hnz : ¬ (1 < ip.length ∧ ip.head? = some 0x30)) (ht : EndsNumber t) :
    parseNumber (ip ++ t) = some (.num (digVal ip) 0, t) := by
  obtain ⟨a, ha, hda⟩ := head_digit_append ip t hne hall
  have hneg : ¬ ((ip ++ t).head? = some 0x2d) := by
    rw [ha]; intro e; simp at e; subst e; simp [isDig] at hda
  have hsp := span_digits ip t hall (fun c hc => (ht c hc).1)
  simp only [parseNumber, hneg, if_false, hsp, hne, hnz, parseFrac_end t ht, parseExp_end t ht]
  simp

theorem parseNumber_frac (ip fp t : Bytes) (hne : ip ≠ []) (hall : ip.all isDig = true)
    (hfne : fp ≠ []) (hfall : fp.all isDig = true)
    (hnz : ¬ (1 < ip.length ∧ ip.head? = some 0x30)) (ht : EndsNumber t) :
    parseNumber (ip ++ 0x2e :: (fp ++ t)) = some (.num (digVal (ip ++ fp)) (-(fp.length : Int)), t) := by
  obtain ⟨a, ha, hda⟩ := head_digit_append ip (0x2e :: (fp ++ t)) hne hall
  have hneg : ¬ ((ip ++ 0x2e :: (fp ++ t)).head? = some 0x2d) := by
    rw [ha]; intro e; simp at e; subst e; simp [isDig] at hda
  have hsp := span_digits ip (0x2e :: (fp ++ t)) hall (by intro c hc; simp at hc; subst hc; decide)
  have hsp2 := span_digits fp t hfall (fun c hc => (ht c hc).1)
  have hfr : parseFrac (0x2e :: (fp ++ t)) = some (fp, t) := by
    simp [parseFrac, hsp2, hfne]
  simp only [parseNumber, hneg, if_false, hsp, hne, hnz, hfr, parseExp_end t ht]
  simp

theorem decimalValue_int (ip : Bytes) (hne : ip ≠ []) (hall : ip.all isDig = true) :
    decimalValue ip = some ((digVal ip : Int), (0 : Int)) := by
  have hsp := span_digits ip [] hall (by intro c hc; simp at hc)
  simp only [List.append_nil] at hsp
  simp [decimalValue, hsp, hne]

theorem decimalValue_frac (ip fp : Bytes) (hne : ip ≠ []) (hall : ip.all isDig = true)
    (hfne : fp ≠ []) (hfall : fp.all isDig = true) :
    decimalValue (ip ++ 0x2e :: fp) = some ((digVal (ip ++ fp) : Int), -(fp.length : Int)) := by
  have hsp := span_digits ip (0x2e :: fp) hall (by intro c hc; simp at hc; subst hc; decide)
  simp only [decimalValue, hsp, hne, if_false]
  simp [hfne]
  simpa using hfall

theorem sameValue_refl (m e : Int) : sameValue m e m e = true := by simp [sameValue]

/-- Whatever `isNumeric` accepts is, followed by a delimiter, a JSON number whose value is the
decimal reading of the text. -/
theorem isNumeric_parse (s t : Bytes) (h : isNumeric s = true) (ht : EndsNumber t) :
    ∃ m e, parseNumber (s ++ t) = some (.num m e, t) ∧ decimalValue s = some (m, e) := by
  obtain ⟨ip, fp, hne, hall, hfall, hnz, hcase⟩ := isNumeric_shape s h
  rcases hcase with ⟨e1, _⟩ | ⟨e1, hfne⟩
  · rw [e1]
    exact ⟨digVal ip, 0, parseNumber_int ip t hne hall hnz ht, decimalValue_int ip hne hall⟩
  · rw [e1]
    refine ⟨digVal (ip ++ fp), -(fp.length : Int), ?_, decimalValue_frac ip fp hne hall hfne hfall⟩
    have := parseNumber_frac ip fp t hne hall hfne hfall hnz ht
    simpa using this

theorem isNumeric_head (s : Bytes) (h : isNumeric s = true) : ∃ a r, s = a :: r ∧ isDig a = true := by
  obtain ⟨ip, fp, hne, hall, _, _, hcase⟩ := isNumeric_shape s h
  cases ip with
  | nil => exact absurd rfl hne
  | cons a ip' =>
    simp at hall
    rcases hcase with ⟨e1, _⟩ | ⟨e1, _⟩
    · exact ⟨a, ip', e1, hall.1⟩
    · exact ⟨a, ip' ++ 0x2e :: fp, by simp [e1], hall.1⟩

end Rare.C16
