import Rare.Proofs.C17Wf
import Rare.Proofs.C17Range
/-!
C17, list-level lemmas behind the composition laws of the array helpers (`Props/C17.lean`, section
"Composition laws"): what a packed list reads back as when it is handed to the next helper.
-/
namespace Rare.C17
open Rare Rare.Expr Rare.Expr.Funcs.Range

theorem elems_ne_nil (s : Bytes) : elems s ≠ [] := by
  unfold elems splitOn; exact splitGo_ne_nil _ _ _ _

theorem elems_nil : elems [] = [[]] := rfl

theorem pack_nil : pack [] = [] := rfl
theorem pack_single (x : Bytes) : pack [x] = x := rfl

theorem pack_cons_cons_ne (x y : Bytes) (r : List Bytes) : pack (x :: y :: r) ≠ [] := by
  have : pack (x :: y :: r) = x ++ [NUL] ++ join [NUL] (y :: r) := rfl
  rw [this]; simp

/-- The array value is the empty string exactly for the empty list and for the list whose only element is
    the empty string: the two are the same VALUE. -/
theorem pack_eq_nil_iff (ys : List Bytes) : pack ys = [] ↔ ys = [] ∨ ys = [[]] := by
  match ys with
  | [] => simp [pack_nil]
  | [x] => simp [pack_single]
  | x :: y :: r =>
    constructor
    · intro h; exact absurd h (pack_cons_cons_ne x y r)
    · intro h; rcases h with h | h <;> simp at h

/-- A packed list of separator-free members, read back by the next helper: the list itself – except that the
    EMPTY list reads back as the one-element list `[""]` (the empty string is both). -/
theorem elems_pack_of_free (ys : List Bytes) (h : ∀ y ∈ ys, NUL ∉ y) :
    elems (pack ys) = if ys = [] then [[]] else ys := by
  by_cases hy : ys = []
  · subst hy; rfl
  · rw [if_neg hy]; exact (elems_pack_iff ys hy).mpr h

/-- `@len` of a packed separator-free list: the number of members, except that `[""]` counts as 0. -/
theorem len_pack (ys : List Bytes) (h : ∀ y ∈ ys, NUL ∉ y) :
    len (pack ys) = if ys = [[]] then 0 else ys.length := by
  unfold len
  by_cases hp : pack ys = []
  · rw [if_pos hp]
    rcases (pack_eq_nil_iff ys).mp hp with h1 | h1 <;> subst h1 <;> simp
  · rw [if_neg hp]
    have h1 : ys ≠ [] := fun e => hp (by subst e; rfl)
    have h2 : ys ≠ [[]] := fun e => hp (by subst e; rfl)
    rw [(elems_pack_iff ys h1).mpr h, if_neg h2]

theorem len_le_elems (s : Bytes) : len s ≤ (elems s).length := by
  unfold len; split <;> omega

theorem len_pos_eq (s : Bytes) (h : s ≠ []) : len s = (elems s).length := by
  unfold len; rw [if_neg h]

/-! ### sub-lists of `[""]` -/

theorem pack_sublist_unit (zs : List Bytes) (h : zs.Sublist [[]]) : pack zs = [] := by
  have hl : zs.length ≤ 1 := by simpa using h.length_le
  match zs, h, hl with
  | [], _, _ => rfl
  | [z], h, _ =>
    have : z ∈ ([[]] : List Bytes) := h.subset (by simp)
    have : z = [] := by simpa using this
    subst this; rfl
  | _ :: _ :: _, _, hl => simp at hl

theorem slice_sublist (xs : List Bytes) (start len : Int) : (slice xs start len).Sublist xs := by
  unfold slice
  simp only
  split
  · exact List.drop_sublist _ _
  · exact (List.take_sublist _ _).trans (List.drop_sublist _ _)

/-- Slicing what an earlier helper packed: on the VALUE level the empty list and `[""]` cannot be told apart,
    and need not be – both slice to the empty value. -/
theorem pack_slice_pack (ys : List Bytes) (h : ∀ y ∈ ys, NUL ∉ y) (start len : Int) :
    pack (slice (elems (pack ys)) start len) = pack (slice ys start len) := by
  rw [elems_pack_of_free ys h]
  by_cases hy : ys = []
  · subst hy
    rw [if_pos rfl, pack_sublist_unit _ (slice_sublist _ _ _)]
    have : slice ([] : List Bytes) start len = [] := List.eq_nil_of_sublist_nil (slice_sublist _ _ _)
    rw [this]; rfl
  · rw [if_neg hy]

/-- `slice ∘ slice` for non-negative starts: one slice, from the sum of the starts; the second length is cut
    to what the first one left. -/
theorem slice_slice_nonneg (xs : List Bytes) (s1 l1 s2 l2 : Int) (h1 : 0 ≤ s1) (h2 : 0 ≤ s2) :
    slice (slice xs s1 l1) s2 l2 =
      slice xs (s1 + s2) (if l1 < 0 then l2 else if l2 < 0 then max 0 (l1 - s2) else min l2 (max 0 (l1 - s2))) := by
  have e1 : ¬ s1 < 0 := by omega
  have e2 : ¬ s2 < 0 := by omega
  have e3 : ¬ s1 + s2 < 0 := by omega
  have ht : (s1 + s2).toNat = s1.toNat + s2.toNat := by omega
  unfold slice
  simp only [e1, e2, e3, if_false]
  by_cases hl1 : l1 < 0
  · simp only [hl1, if_true]
    by_cases hl2 : l2 < 0
    · simp only [hl2, if_true, List.drop_drop, ht]
    · simp only [hl2, if_false, List.drop_drop, ht]
  · simp only [hl1, if_false]
    rw [List.drop_take]
    have hm : (max 0 (l1 - s2)).toNat = l1.toNat - s2.toNat := by omega
    by_cases hl2 : l2 < 0
    · have : ¬ max 0 (l1 - s2) < 0 := by omega
      simp only [hl2, if_true, this, if_false, List.drop_drop, ht, hm]
    · have : ¬ min l2 (max 0 (l1 - s2)) < 0 := by omega
      simp only [hl2, if_false, this, List.drop_drop, ht, List.take_take]
      congr 1
      omega

/-- Is `i` (negative: from the end) a position of a list of `n` elements? -/
def inRange (n : Nat) (i : Int) : Bool := (decide (0 ≤ i) && decide (i < n)) || (decide (i < 0) && decide (0 ≤ i + n))

/-- `select ∘ map`: mapping then selecting is selecting then mapping – when the position exists; otherwise
    nothing (NOT the function applied to nothing). -/
theorem select_map (g : Bytes → Bytes) (xs : List Bytes) (i : Int) :
    select (xs.map g) i = if inRange xs.length i then g (select xs i) else [] := by
  unfold select inRange
  simp only [List.length_map]
  by_cases hi : i < 0
  · simp only [hi, if_true]
    by_cases hj : i + (xs.length : Int) < 0
    · have : ¬ (0 ≤ i + (xs.length : Int)) := by omega
      have h0 : ¬ (0 ≤ i) := by omega
      simp [hj, this, h0]
    · have hlt : (i + (xs.length : Int)).toNat < xs.length := by omega
      have h0 : ¬ (0 ≤ i) := by omega
      have h1 : 0 ≤ i + (xs.length : Int) := by omega
      simp [hj, h0, h1, List.getD_eq_getElem?_getD, hlt]
  · simp only [hi, if_false]
    have h0 : 0 ≤ i := by omega
    by_cases hlt : i < xs.length
    · have hn : i.toNat < xs.length := by omega
      simp [h0, hlt, List.getD_eq_getElem?_getD, hn]
    · have hn : ¬ i.toNat < xs.length := by omega
      have hn' : xs.length ≤ i.toNat := by omega
      simp [h0, hlt, List.getD_eq_getElem?_getD]

theorem select_mem_or_nil (xs : List Bytes) (i : Int) : select xs i = [] ∨ select xs i ∈ xs := by
  have hsel : select xs i =
      (if (if i < 0 then i + (xs.length : Int) else i) < 0 then []
       else xs.getD (if i < 0 then i + (xs.length : Int) else i).toNat []) := rfl
  rw [hsel]
  generalize (if i < 0 then i + (xs.length : Int) else i) = j
  by_cases hj : j < 0
  · simp [hj]
  · rw [if_neg hj, List.getD_eq_getElem?_getD]
    cases hg : xs[j.toNat]? with
    | none => exact Or.inl rfl
    | some x => exact Or.inr (List.mem_of_getElem? hg)

/-- Selecting from what an earlier helper packed (separator-free members): the empty list and `[""]` both give
    nothing at every position. -/
theorem select_elems_pack (ys : List Bytes) (h : ∀ y ∈ ys, NUL ∉ y) (i : Int) :
    select (elems (pack ys)) i = select ys i := by
  rw [elems_pack_of_free ys h]
  by_cases hy : ys = []
  · subst hy
    rw [if_pos rfl]
    have e : select ([] : List Bytes) i = [] := by
      rcases select_mem_or_nil [] i with h | h
      · exact h
      · simp at h
    rw [e]
    rcases select_mem_or_nil [[]] i with h | h
    · exact h
    · simpa using h
  · rw [if_neg hy]

theorem flatMap_congr_mem {α β : Type} (f g : α → List β) (l : List α) (h : ∀ x ∈ l, f x = g x) :
    l.flatMap f = l.flatMap g := by
  induction l with
  | nil => rfl
  | cons x r ih =>
    simp only [List.flatMap_cons]
    rw [h x (by simp), ih (fun y hy => h y (by simp [hy]))]

/-! ### the length of a range -/

theorem range_length (start stop incr : Int) : (range start stop incr).length = rangeCount start stop incr := by
  simp [range]

end Rare.C17
