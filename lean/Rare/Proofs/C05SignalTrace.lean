import Rare.Model.C05SignalTrace
import Rare.Proofs.AggLoopTrace
namespace Rare.AggLoopTrace
open Rare.AggLoop Rare.TraceOrder

theorem lpath_sreach {s0 : SSt Bytes} {b b' : St Bytes} {ls : List Label} (f : Bool)
    (h : LPath b ls b') (hr : SReach s0 ⟨b, f⟩) : SReach s0 ⟨b', f⟩ := by
  induction h with
  | nil s => exact hr
  | cons ha _ ih => exact ih (.step hr (.base ⟨_, f⟩ _ (apply_sound ha)))

/-- One step of the signal machine is a (possibly empty) sequence of steps of the signal transition system. -/
theorem sastep_sound {s0 : SSt Bytes} {s s' : SASt} {e : Ev} (h : sastep s e = some s')
    (hr : SReach s0 s.sst) : SReach s0 s'.sst := by
  unfold sastep at h
  split at h
  · split at h
    · rename_i hm
      simp only [Option.some.injEq] at h; subst h
      exact .step hr (.signal s.sst hm)
    · simp at h
  · cases ha : astep s.a e with
    | none => rw [ha] at h; simp at h
    | some a' =>
      rw [ha] at h
      simp only [Option.map_some, Option.some.injEq] at h; subst h
      obtain ⟨ls, _, hp⟩ := astep_sound ha
      exact lpath_sreach s.signalled hp hr

theorem sreplay_reach {s0 : SSt Bytes} : ∀ (evs : List Ev) (s s' : SASt),
    replay smachine s evs = some s' → SReach s0 s.sst → SReach s0 s'.sst
  | [], s, s', h, hr => by
    simp only [replay, Option.some.injEq] at h; subst h; exact hr
  | e :: es, s, s', h, hr => by
    simp only [replay] at h
    cases hs : smachine.step s e with
    | none => rw [hs] at h; simp at h
    | some s1 =>
      rw [hs] at h
      simp only [Option.bind_some] at h
      exact sreplay_reach es s1 s' h (sastep_sound hs hr)

/-- The flag is faithful: it is set exactly when the replayed events contain an `ms`. -/
theorem sreplay_signalled : ∀ (evs : List Ev) (s s' : SASt),
    replay smachine s evs = some s' → s'.signalled = (s.signalled || evs.any fun e => e.kind = "ms")
  | [], s, s', h => by
    simp only [replay, Option.some.injEq] at h; subst h; simp
  | e :: es, s, s', h => by
    simp only [replay] at h
    cases hs : smachine.step s e with
    | none => rw [hs] at h; simp at h
    | some s1 =>
      rw [hs] at h
      simp only [Option.bind_some] at h
      have ih := sreplay_signalled es s1 s' h
      have h1 : s1.signalled = (s.signalled || decide (e.kind = "ms")) := by
        have hs' : sastep s e = some s1 := hs
        unfold sastep at hs'
        split at hs'
        · rename_i hk
          split at hs'
          · simp only [Option.some.injEq] at hs'; subst hs'; simp [hk]
          · simp at hs'
        · rename_i hk
          cases ha : astep s.a e with
          | none => rw [ha] at hs'; simp at hs'
          | some a' =>
            rw [ha] at hs'
            simp only [Option.map_some, Option.some.injEq] at hs'; subst hs'; simp [hk]
      rw [ih, h1]; simp [Bool.or_assoc]

end Rare.AggLoopTrace
