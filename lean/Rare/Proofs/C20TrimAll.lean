import Rare.Spec.C20Screen
import Rare.Proofs.C20Utf8
import Rare.Model.C20
/-! C20 round 2: the trimming scanner on ARBITRARY rune strings (unterminated colour sequences,
control characters, anything), and the cell-width bound. -/
namespace Rare.C20

theorem trimGo_hand_true (cols vis : Int) (r : Rune) (rest : List Rune) :
    trimGo handEsc cols true vis (r :: rest) =
      if r ≠ 109 ∧ rest ≠ [] then 1 + trimGo handEsc cols true vis rest else 1 + trimGo handEsc cols false vis rest := rfl

theorem trimGo_hand_false (cols vis : Int) (r : Rune) (rest : List Rune) :
    trimGo handEsc cols false vis (r :: rest) =
      if vis < cols then
        if r = 27 then
          if r ≠ 109 ∧ rest ≠ [] then 1 + trimGo handEsc cols true vis rest else 1 + trimGo handEsc cols false vis rest
        else 1 + trimGo handEsc cols false (vis + 1) rest
      else 0 := rfl

theorem visibleRunes_esc (X : List Rune) : visibleRunes (27 :: X) = visibleRunes.skipSgr X := by
  simp [visibleRunes, ESC]

theorem visibleRunes_ch (r : Rune) (h : r ≠ 27) (X : List Rune) : visibleRunes (r :: X) = r :: visibleRunes X := by
  have : r ≠ ESC := h
  simp [visibleRunes, this]

theorem skipSgr_m (X : List Rune) : visibleRunes.skipSgr (109 :: X) = visibleRunes X := by
  simp [visibleRunes.skipSgr]

theorem skipSgr_ch (r : Rune) (h : r ≠ 109) (X : List Rune) : visibleRunes.skipSgr (r :: X) = visibleRunes.skipSgr X := by
  simp [visibleRunes.skipSgr, h]

/-- the observable of one scan: visible runes of the kept prefix (in the mode the scan started in) -/
def scanVis (inEsc : Bool) (out : List Rune) : List Rune :=
  if inEsc then visibleRunes.skipSgr out else visibleRunes out

/-- The scan loop in both of its modes, on any rune string.  `inEsc = false`: head of the outer loop
with `vis ≤ cols` visible runes so far; `inEsc = true`: inside the inner loop. -/
theorem trimGo_any (cols : Int) : ∀ (rs : List Rune) (inEsc : Bool) (vis : Int), vis ≤ cols →
    trimGo handEsc cols inEsc vis rs ≤ rs.length ∧
    vis + ((scanVis inEsc (rs.take (trimGo handEsc cols inEsc vis rs))).length : Int) ≤ cols ∧
      (trimGo handEsc cols inEsc vis rs = rs.length ∨
        (endsInEsc inEsc (rs.take (trimGo handEsc cols inEsc vis rs)) = false ∧
         vis + ((scanVis inEsc (rs.take (trimGo handEsc cols inEsc vis rs))).length : Int) = cols)) := by
  intro rs
  induction rs with
  | nil =>
    intro inEsc vis h
    cases inEsc <;> simp [trimGo, scanVis, visibleRunes, visibleRunes.skipSgr] <;> omega
  | cons r rest ih =>
    intro inEsc vis h
    cases inEsc with
    | true =>
      rw [trimGo_hand_true]
      by_cases hc : r ≠ 109 ∧ rest ≠ []
      · obtain ⟨h1, h2, h3⟩ := ih true vis h
        rw [if_pos hc, Nat.add_comm 1, List.take_succ_cons]
        simp only [scanVis, if_true, skipSgr_ch r hc.1, endsInEsc, List.length_cons, hc.1, ne_eq,
          not_false_eq_true, decide_true] at h2 h3 ⊢
        refine ⟨by omega, h2, ?_⟩
        rcases h3 with h3 | h3
        · left; omega
        · right; exact h3
      · rw [if_neg hc, Nat.add_comm 1, List.take_succ_cons]
        by_cases hr : r = 109
        · obtain ⟨h1, h2, h3⟩ := ih false vis h
          rw [hr]
          simp only [scanVis, if_true, skipSgr_m, endsInEsc, List.length_cons, Bool.false_eq_true, if_false,
            ne_eq, not_true_eq_false, decide_false] at h2 h3 ⊢
          refine ⟨by omega, h2, ?_⟩
          rcases h3 with h3 | h3
          · left; omega
          · right; exact h3
        · have hrest : rest = [] := by
            by_cases hn : rest = []
            · exact hn
            · exact absurd ⟨hr, hn⟩ hc
          rw [hrest]
          simp [trimGo, scanVis, visibleRunes.skipSgr, hr]; omega
    | false =>
      rw [trimGo_hand_false]
      by_cases hv : vis < cols
      · rw [if_pos hv]
        by_cases he : r = 27
        · rw [if_pos he, he]
          by_cases hn : rest = []
          · rw [hn]
            simp [trimGo, scanVis, visibleRunes_esc, visibleRunes.skipSgr]; omega
          · obtain ⟨h1, h2, h3⟩ := ih true vis h
            have hc : (27 : Nat) ≠ 109 ∧ rest ≠ [] := ⟨by decide, hn⟩
            rw [if_pos hc, Nat.add_comm 1, List.take_succ_cons]
            simp only [scanVis, if_true, Bool.false_eq_true, if_false, visibleRunes_esc, endsInEsc, List.length_cons,
              decide_true] at h2 h3 ⊢
            refine ⟨by omega, h2, ?_⟩
            rcases h3 with h3 | h3
            · left; omega
            · right; exact h3
        · obtain ⟨h1, h2, h3⟩ := ih false (vis + 1) (by omega)
          rw [if_neg he, Nat.add_comm 1, List.take_succ_cons]
          simp only [scanVis, Bool.false_eq_true, if_false, visibleRunes_ch r he, endsInEsc, List.length_cons, he,
            decide_false] at h2 h3 ⊢
          refine ⟨by omega, by omega, ?_⟩
          rcases h3 with h3 | h3
          · left; omega
          · right; exact ⟨h3.1, by omega⟩
      · rw [if_neg hv]
        simp [scanVis, visibleRunes, endsInEsc]; omega

/-- cells occupied by a rune string: at most two per rune when no rune is wider than two cells -/
theorem cellsOf_le (cw : Rune → Nat) (hcw : ∀ r, cw r ≤ 2) (l : List Rune) : cellsOf cw l ≤ 2 * l.length := by
  induction l with
  | nil => simp [cellsOf]
  | cons r l ih =>
    have := hcw r
    simp only [cellsOf, List.map_cons, List.sum_cons, List.length_cons] at ih ⊢
    omega

theorem cellsOf_one (cw : Rune → Nat) (l : List Rune) (h : ∀ r ∈ l, cw r = 1) : cellsOf cw l = l.length := by
  induction l with
  | nil => simp [cellsOf]
  | cons r l ih =>
    have h1 := h r (by simp)
    have := ih (fun x hx => h x (by simp [hx]))
    simp only [cellsOf, List.map_cons, List.sum_cons, List.length_cons] at this ⊢
    omega

end Rare.C20
