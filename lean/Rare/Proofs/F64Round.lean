import Rare.Base.F64
/-!
Rounding lemmas for the software binary64 model: `roundNE` (nearest integer, ties to even),
`scaleOf`, `roundMag` (magnitude pattern of the nearest float).

Main results
* `roundNE_mono`, `roundNE_intCast`, `roundNE_err` (|x − roundNE x| ≤ 1/2);
* `roundMag_mono`: `0 ≤ q₁ ≤ q₂ → roundMag q₁ ≤ roundMag q₂` (patterns of non-negative floats are
  ordered like their values);
* `roundMag_exact`: a value `m·2^E/2^1074` with a significand that fits (`m < 2^53`, normalised
  unless `E = 0`) rounds to the pattern `E·2^52 + m` itself.
-/
namespace Rare.F64

/-! ### small facts about `Rat` -/

theorem rat_div_le_div_right {a b c : Rat} (hc : 0 < c) (h : a ≤ b) : a / c ≤ b / c := by
  rw [Rat.div_def, Rat.div_def]
  exact Rat.mul_le_mul_of_nonneg_right h (Rat.le_of_lt (Rat.inv_pos.mpr hc))

theorem rat_le_div_iff {a b c : Rat} (hc : 0 < c) : a ≤ b / c ↔ a * c ≤ b := by
  rw [← Rat.not_lt, ← Rat.not_lt, Rat.div_lt_iff hc]

theorem rat_div_le_iff {a b c : Rat} (hc : 0 < c) : a / c ≤ b ↔ a ≤ b * c := by
  rw [← Rat.not_lt, ← Rat.not_lt, Rat.lt_div_iff hc]

theorem natCast_pos_of_pos {n : Nat} (h : 0 < n) : (0 : Rat) < (n : Rat) := by
  have := (Rat.natCast_lt_natCast (a := 0) (b := n)).mpr h
  simpa using this

theorem pow2_cast_pos (E : Nat) : (0 : Rat) < ((2 ^ E : Nat) : Rat) :=
  natCast_pos_of_pos (Nat.pow_pos (by decide))

theorem two1074_eq : two1074 = ((2 ^ 1074 : Nat) : Rat) := by
  unfold two1074
  rw [Rat.natCast_pow]
  rfl

theorem two1074_pos : 0 < two1074 := by
  rw [two1074_eq]; exact pow2_cast_pos _

theorem two1074_ne : two1074 ≠ 0 := Rat.ne_of_gt two1074_pos

/-- `⌊x⌋ = f` from the two bounds. -/
theorem floor_eq_of {x : Rat} {f : Int} (h1 : (f : Rat) ≤ x) (h2 : x < (f : Rat) + 1) : x.floor = f := by
  have a : f ≤ x.floor := Rat.le_floor_iff.mpr h1
  have b : x.floor < f + 1 := Rat.floor_lt_iff.mpr (by simpa using h2)
  omega

/-! ### `roundNE` -/

theorem roundNE_intCast (n : Int) : roundNE (n : Rat) = n := by
  unfold roundNE
  simp only [Rat.floor_intCast]
  have : (n : Rat) - (n : Rat) < 1 / 2 := by grind
  simp [this]

theorem floor_le_roundNE (x : Rat) : x.floor ≤ roundNE x := by
  unfold roundNE
  simp only []
  split
  · omega
  · split
    · omega
    · split <;> omega

theorem roundNE_le_floor_add_one (x : Rat) : roundNE x ≤ x.floor + 1 := by
  unfold roundNE
  simp only []
  split
  · omega
  · split
    · omega
    · split <;> omega

theorem roundNE_mono {x y : Rat} (h : x ≤ y) : roundNE x ≤ roundNE y := by
  have hf : x.floor ≤ y.floor := Rat.floor_monotone h
  by_cases hlt : x.floor < y.floor
  · have a := roundNE_le_floor_add_one x
    have b := floor_le_roundNE y
    omega
  · have he : x.floor = y.floor := by omega
    unfold roundNE
    simp only [he]
    have hr : x - (y.floor : Rat) ≤ y - (y.floor : Rat) := by grind
    repeat' split
    all_goals first | omega | (exfalso; grind)

/-- An integer below `x` is below its rounding; an integer above `x` is above it. -/
theorem le_roundNE_of_intCast_le {n : Int} {x : Rat} (h : (n : Rat) ≤ x) : n ≤ roundNE x := by
  have := roundNE_mono h
  rwa [roundNE_intCast] at this

theorem roundNE_le_of_le_intCast {n : Int} {x : Rat} (h : x ≤ (n : Rat)) : roundNE x ≤ n := by
  have := roundNE_mono h
  rwa [roundNE_intCast] at this

theorem roundNE_nonneg {x : Rat} (h : 0 ≤ x) : 0 ≤ roundNE x :=
  le_roundNE_of_intCast_le (n := 0) (by simpa using h)

/-- Rounding error: at most one half. -/
theorem roundNE_err (x : Rat) : x - 1/2 ≤ (roundNE x : Rat) ∧ (roundNE x : Rat) ≤ x + 1/2 := by
  have h1 := Rat.floor_le x
  have h2 := Rat.lt_floor_add_one x
  rw [Rat.intCast_add] at h2
  unfold roundNE
  simp only []
  split
  · constructor <;> grind
  · split
    · rw [Rat.intCast_add]; constructor <;> grind
    · split
      · constructor <;> grind
      · rw [Rat.intCast_add]; constructor <;> grind

/-! ### `scaleOf` -/

theorem log2_mono {a b : Nat} (h : a ≤ b) : a.log2 ≤ b.log2 := by
  by_cases ha : a = 0
  · subst ha; simp [Nat.log2_zero]
  · have hb : b ≠ 0 := by omega
    exact (Nat.le_log2 hb).mpr (Nat.le_trans (Nat.log2_self_le ha) h)

theorem scaleOf_mono {a b : Nat} (h : a ≤ b) : scaleOf a ≤ scaleOf b := by
  unfold scaleOf
  split
  · omega
  · split
    · omega
    · have := log2_mono h; omega

/-- When the scale is positive, `t` has exactly `scale + 53` bits. -/
theorem scaleOf_pos_bounds {t : Nat} (h : 0 < scaleOf t) :
    2 ^ (scaleOf t + 52) ≤ t ∧ t < 2 ^ (scaleOf t + 53) := by
  unfold scaleOf at h ⊢
  split at h
  · omega
  · rename_i ht
    have ht0 : t ≠ 0 := by omega
    have hl : 53 ≤ t.log2 := (Nat.le_log2 ht0).mpr (by omega)
    simp only [ht, if_false]
    have e1 : t.log2 - 52 + 52 = t.log2 := by omega
    have e2 : t.log2 - 52 + 53 = t.log2 + 1 := by omega
    rw [e1, e2]
    exact ⟨Nat.log2_self_le ht0, Nat.lt_log2_self⟩

theorem scaleOf_zero_iff {t : Nat} : scaleOf t = 0 ↔ t < P53 := by
  unfold scaleOf
  split
  · simp [*]
  · rename_i ht
    have ht0 : t ≠ 0 := by omega
    have hl : 53 ≤ t.log2 := (Nat.le_log2 ht0).mpr (by omega)
    constructor
    · intro h; omega
    · intro h; omega

/-! ### `roundMag` -/

/-- The pieces of `roundMag q`. -/
def yOf (q : Rat) : Rat := q * two1074
def tOf (q : Rat) : Nat := (yOf q).floor.toNat
def eOf (q : Rat) : Nat := scaleOf (tOf q)
def xOf (q : Rat) : Rat := yOf q / ((2 ^ eOf q : Nat) : Rat)
def mOf (q : Rat) : Nat := (roundNE (xOf q)).toNat
def rawMag (q : Rat) : Nat := eOf q * P52 + mOf q

theorem roundMag_eq (q : Rat) : roundMag q = min (rawMag q) InfMag := rfl

theorem yOf_nonneg {q : Rat} (h : 0 ≤ q) : 0 ≤ yOf q :=
  Rat.mul_nonneg h (Rat.le_of_lt two1074_pos)

theorem yOf_mono {q₁ q₂ : Rat} (h : q₁ ≤ q₂) : yOf q₁ ≤ yOf q₂ :=
  Rat.mul_le_mul_of_nonneg_right h (Rat.le_of_lt two1074_pos)

theorem tOf_cast {q : Rat} (h : 0 ≤ q) : ((tOf q : Nat) : Int) = (yOf q).floor := by
  unfold tOf
  have : 0 ≤ (yOf q).floor := Rat.le_floor_iff.mpr (by simpa using yOf_nonneg h)
  omega

theorem tOf_le {q : Rat} (h : 0 ≤ q) : ((tOf q : Nat) : Rat) ≤ yOf q := by
  have := Rat.floor_le (yOf q)
  rw [← tOf_cast h] at this
  exact this

theorem lt_tOf_succ {q : Rat} (h : 0 ≤ q) : yOf q < ((tOf q + 1 : Nat) : Rat) := by
  have := Rat.lt_floor_add_one (yOf q)
  rw [← tOf_cast h, Rat.intCast_add, Rat.intCast_natCast] at this
  rw [Rat.natCast_add]
  exact this

theorem tOf_mono {q₁ q₂ : Rat} (h : q₁ ≤ q₂) : tOf q₁ ≤ tOf q₂ := by
  unfold tOf
  have := Rat.floor_monotone (yOf_mono h)
  omega

theorem eOf_mono {q₁ q₂ : Rat} (h : q₁ ≤ q₂) : eOf q₁ ≤ eOf q₂ := scaleOf_mono (tOf_mono h)

theorem xOf_nonneg {q : Rat} (h : 0 ≤ q) : 0 ≤ xOf q := by
  unfold xOf
  rw [rat_le_div_iff (pow2_cast_pos _)]
  simpa using yOf_nonneg h

theorem mOf_cast {q : Rat} (h : 0 ≤ q) : ((mOf q : Nat) : Int) = roundNE (xOf q) := by
  unfold mOf
  have := roundNE_nonneg (xOf_nonneg h)
  omega

/-- In the normal range the scaled value lies in `[2^52, 2^53)`. -/
theorem xOf_bounds {q : Rat} (h : 0 ≤ q) (hE : 0 < eOf q) :
    ((P52 : Nat) : Rat) ≤ xOf q ∧ xOf q < ((P53 : Nat) : Rat) := by
  obtain ⟨b1, b2⟩ := scaleOf_pos_bounds hE
  have c1 : ((2 ^ (eOf q + 52) : Nat) : Rat) ≤ yOf q :=
    Rat.le_trans (Rat.natCast_le_natCast.mpr b1) (tOf_le h)
  have c2 : yOf q < ((2 ^ (eOf q + 53) : Nat) : Rat) := by
    have d1 := lt_tOf_succ h
    have d2 : ((tOf q + 1 : Nat) : Rat) ≤ ((2 ^ (eOf q + 53) : Nat) : Rat) := Rat.natCast_le_natCast.mpr b2
    grind
  unfold xOf
  constructor
  · rw [rat_le_div_iff (pow2_cast_pos _), ← Rat.natCast_mul]
    have : P52 * 2 ^ eOf q = 2 ^ (eOf q + 52) := by rw [Nat.pow_add]; omega
    rw [this]; exact c1
  · rw [Rat.div_lt_iff (pow2_cast_pos _), ← Rat.natCast_mul]
    have : P53 * 2 ^ eOf q = 2 ^ (eOf q + 53) := by rw [Nat.pow_add]; omega
    rw [this]; exact c2


/-- Normal range: the rounded significand lies in `[2^52, 2^53]`. -/
theorem mOf_bounds_pos {q : Rat} (h : 0 ≤ q) (hE : 0 < eOf q) : P52 ≤ mOf q ∧ mOf q ≤ P53 := by
  obtain ⟨b1, b2⟩ := xOf_bounds h hE
  have c1 : ((P52 : Nat) : Int) ≤ roundNE (xOf q) := le_roundNE_of_intCast_le (by simpa using b1)
  have c2 : roundNE (xOf q) ≤ ((P53 : Nat) : Int) :=
    roundNE_le_of_le_intCast (by simpa using Rat.le_of_lt b2)
  have := mOf_cast h
  omega

/-- Subnormal range (scale 0): the rounded significand is at most `2^53`. -/
theorem mOf_le_zero {q : Rat} (h : 0 ≤ q) (hE : eOf q = 0) : mOf q ≤ P53 := by
  have ht : tOf q < P53 := scaleOf_zero_iff.mp hE
  have hx : xOf q = yOf q := by
    unfold xOf; rw [hE]; simp only [Nat.pow_zero]; grind
  have c : yOf q ≤ ((P53 : Nat) : Rat) := by
    have d1 := lt_tOf_succ h
    have d2 : ((tOf q + 1 : Nat) : Rat) ≤ ((P53 : Nat) : Rat) := Rat.natCast_le_natCast.mpr ht
    grind
  have c2 : roundNE (xOf q) ≤ ((P53 : Nat) : Int) := by
    rw [hx]; exact roundNE_le_of_le_intCast (by simpa using c)
  have := mOf_cast h
  omega

theorem mOf_le {q : Rat} (h : 0 ≤ q) : mOf q ≤ P53 := by
  by_cases hE : eOf q = 0
  · exact mOf_le_zero h hE
  · exact (mOf_bounds_pos h (by omega)).2

/-- The unclamped pattern is monotone. -/
theorem rawMag_mono {q₁ q₂ : Rat} (h0 : 0 ≤ q₁) (h : q₁ ≤ q₂) : rawMag q₁ ≤ rawMag q₂ := by
  have h2 : 0 ≤ q₂ := Rat.le_trans h0 h
  have hE := eOf_mono h
  unfold rawMag
  by_cases he : eOf q₁ = eOf q₂
  · -- same scale: the significands are ordered
    have hx : xOf q₁ ≤ xOf q₂ := by
      unfold xOf; rw [he]; exact rat_div_le_div_right (pow2_cast_pos _) (yOf_mono h)
    have hm := roundNE_mono hx
    have a := mOf_cast h0
    have b := mOf_cast h2
    rw [he]; omega
  · have hlt : eOf q₁ < eOf q₂ := by omega
    have a := mOf_le h0
    have b := (mOf_bounds_pos h2 (by omega)).1
    have : (eOf q₁ + 1) * P52 ≤ eOf q₂ * P52 := Nat.mul_le_mul_right _ hlt
    omega

/-- **Rounding is monotone**: the pattern of the float nearest to `q` grows with `q ≥ 0`. -/
theorem roundMag_mono {q₁ q₂ : Rat} (h0 : 0 ≤ q₁) (h : q₁ ≤ q₂) : roundMag q₁ ≤ roundMag q₂ := by
  rw [roundMag_eq, roundMag_eq]
  have := rawMag_mono h0 h
  omega

theorem roundMag_le_inf (q : Rat) : roundMag q ≤ InfMag := by
  rw [roundMag_eq]; omega

/-- **Exactness**: `m·2^E/2^1074` with a significand that fits is its own rounding. -/
theorem rawMag_exact (E m : Nat) (hm : m < P53) (hn : E = 0 ∨ P52 ≤ m) :
    rawMag (((m * 2 ^ E : Nat) : Rat) / two1074) = E * P52 + m := by
  have hy : yOf (((m * 2 ^ E : Nat) : Rat) / two1074) = ((m * 2 ^ E : Nat) : Rat) := by
    unfold yOf; exact Rat.div_mul_cancel two1074_ne
  have ht : tOf (((m * 2 ^ E : Nat) : Rat) / two1074) = m * 2 ^ E := by
    unfold tOf; rw [hy]
    have : ((m * 2 ^ E : Nat) : Rat) = (((m * 2 ^ E : Nat) : Int) : Rat) := rfl
    rw [this, Rat.floor_intCast]; omega
  have he : eOf (((m * 2 ^ E : Nat) : Rat) / two1074) = E := by
    unfold eOf; rw [ht]
    rcases hn with h0 | h52
    · subst h0; simp only [Nat.pow_zero, Nat.mul_one]; exact scaleOf_zero_iff.mpr hm
    · by_cases hE0 : E = 0
      · subst hE0; simp only [Nat.pow_zero, Nat.mul_one]; exact scaleOf_zero_iff.mpr hm
      · -- m·2^E has exactly E+53 bits
        have hpos : 0 < 2 ^ E := Nat.pow_pos (by decide)
        have h2E : 2 ≤ 2 ^ E := by
          have : 2 ^ 1 ≤ 2 ^ E := Nat.pow_le_pow_right (by decide) (by omega)
          simpa using this
        have hge : P53 ≤ m * 2 ^ E := by
          have : P52 * 2 ≤ m * 2 ^ E := Nat.mul_le_mul h52 h2E
          omega
        have hne : m * 2 ^ E ≠ 0 := by omega
        unfold scaleOf
        rw [if_neg (by omega)]
        have hlog : (m * 2 ^ E).log2 = E + 52 := by
          rw [Nat.log2_eq_iff hne]
          constructor
          · rw [Nat.pow_add, Nat.mul_comm]; exact Nat.mul_le_mul_right _ h52
          · have e : 2 ^ (E + 52 + 1) = P53 * 2 ^ E := by
              rw [show E + 52 + 1 = 53 + E by omega, Nat.pow_add]
            rw [e]; exact Nat.mul_lt_mul_of_pos_right hm hpos
        omega
  have hx : xOf (((m * 2 ^ E : Nat) : Rat) / two1074) = ((m : Nat) : Rat) := by
    unfold xOf; rw [hy, he, Rat.natCast_mul]
    exact Rat.mul_div_cancel (Rat.ne_of_gt (pow2_cast_pos E))
  have hmm : mOf (((m * 2 ^ E : Nat) : Rat) / two1074) = m := by
    unfold mOf; rw [hx]
    have : ((m : Nat) : Rat) = (((m : Nat) : Int) : Rat) := rfl
    rw [this, roundNE_intCast]; omega
  unfold rawMag; rw [he, hmm]

end Rare.F64
