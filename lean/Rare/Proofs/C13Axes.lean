import Rare.Model.C13Axes
import Rare.Proofs.C13Main
import Rare.Proofs.C13Algo
/-! The render loop and the two axes of table/heatmap/spark (helper lemmas for C13). -/
namespace Rare.C13

/-- Like `Algo.run_eq_runPure`, and the invariant still holds for the closure's variables afterwards. -/
theorem Algo.run_inv {α ρ σ : Type} (cmp : σ → α → α → Bool × σ) (less : α → α → Bool)
    (Inv : σ → Prop) (P : α → Prop)
    (hstep : ∀ s a b, Inv s → P a → P b → (cmp s a b).1 = less a b ∧ Inv (cmp s a b).2) :
    ∀ (alg : Algo α ρ), Algo.Within P alg → ∀ s, Inv s →
      (Algo.run cmp s alg).1 = Algo.runPure less alg ∧ Inv (Algo.run cmp s alg).2 := by
  intro alg hw
  induction hw with
  | done r => intro s hs; exact ⟨rfl, hs⟩
  | ask a b k ha hb _ ih =>
    intro s hs
    have := hstep s a b hs ha hb
    simp only [Algo.run, Algo.runPure]
    rw [this.1]
    exact ih (less a b) _ this.2

/-- The rows of every render are what the row sorter alone produces from the rows of the renders so far,
the columns what the column sorter alone produces: no information flows between the axes. -/
theorem tableRenders_split {α σr σc : Type} (rowRun : σr → List α → List α × σr)
    (colRun : σc → List α → List α × σc) : ∀ (renders : List (List α × List α)) (sr : σr) (sc : σc),
    tableRenders rowRun colRun sr sc renders
      = (axisRenders colRun sc (renders.map (·.1))).zip (axisRenders rowRun sr (renders.map (·.2)))
  | [], _, _ => rfl
  | (cols, rows) :: rest, sr, sc => by
    simp only [tableRenders, List.map_cons, axisRenders, List.zip_cons_cons]
    rw [tableRenders_split rowRun colRun rest]

theorem axisRenders_length {α σ : Type} (sortRun : σ → List α → List α × σ) :
    ∀ (arrivals : List (List α)) (s : σ), (axisRenders sortRun s arrivals).length = arrivals.length
  | [], _ => rfl
  | a :: rest, s => by simp [axisRenders, axisRenders_length sortRun rest]

/-- A closure that is faithful to an order of `items`, used for a whole render loop (its variables are kept
between the renders): every render of a duplicate-free part of `items` is the sorted arrangement of that part. -/
theorem axisRenders_faithful {α σ : Type} {cmp : SCmp α σ} {init : σ} {less : α → α → Bool}
    (alg : List α → Algo α (List α)) (hc : SortContract alg) (items : List α)
    (hf : Faithful cmp init (· ∈ items) less) (ho : OrderOn (· ∈ items) less)
    (arrivals : List (List α)) (ha : ∀ a ∈ arrivals, a.Nodup ∧ ∀ x ∈ a, x ∈ items) :
    axisRenders (fun s l => Algo.run cmp s (alg l)) init arrivals = arrivals.map (isort less) := by
  obtain ⟨Inv, h0, hstep⟩ := hf
  have main : ∀ (arrivals : List (List α)) (s : σ), Inv s → (∀ a ∈ arrivals, a.Nodup ∧ ∀ x ∈ a, x ∈ items) →
      axisRenders (fun s l => Algo.run cmp s (alg l)) s arrivals = arrivals.map (isort less) := by
    intro arrivals
    induction arrivals with
    | nil => intros; rfl
    | cons a rest ih =>
      intro s hs hall
      obtain ⟨hnd, hsub⟩ := hall a (List.mem_cons_self ..)
      have hw : Algo.Within (· ∈ items) (alg a) := (hc.within a).mono hsub
      have hr := Algo.run_inv cmp less Inv (· ∈ items) hstep (alg a) hw s hs
      have hoa : OrderOn (· ∈ a) less := ho.mono hsub
      simp only [axisRenders, List.map_cons]
      rw [hr.1, hc.result hnd hoa, ih _ hr.2 (fun b hb => hall b (List.mem_cons_of_mem _ hb))]
  exact main arrivals init h0 ha

/-- Two render histories whose renders are permutations of each other (same keys, other map order). -/
theorem forall₂_perm_within {α : Type} {items : List α} {l1 l2 : List (List α)} (h : SameRenders l1 l2)
    (h1 : ∀ a ∈ l1, a.Nodup ∧ ∀ x ∈ a, x ∈ items) : ∀ a ∈ l2, a.Nodup ∧ ∀ x ∈ a, x ∈ items := by
  induction h with
  | nil => intro a ha; cases ha
  | @cons a b l1' l2' hp _ ih =>
    intro c hc
    rcases List.mem_cons.mp hc with e | e
    · subst e
      obtain ⟨hnd, hsub⟩ := h1 a (List.mem_cons_self ..)
      exact ⟨hp.nodup_iff.mp hnd, fun x hx => hsub x (hp.mem_iff.mpr hx)⟩
    · exact ih (fun a' ha' => h1 a' (List.mem_cons_of_mem _ ha')) c e

theorem map_isort_perm {α : Type} {items : List α} {less : α → α → Bool} (ho : OrderOn (· ∈ items) less)
    {l1 l2 : List (List α)} (h : SameRenders l1 l2)
    (h1 : ∀ a ∈ l1, a.Nodup ∧ ∀ x ∈ a, x ∈ items) : l1.map (isort less) = l2.map (isort less) := by
  induction h with
  | nil => rfl
  | @cons a b l1' l2' hp _ ih =>
    obtain ⟨hnd, hsub⟩ := h1 a (List.mem_cons_self ..)
    simp only [List.map_cons]
    rw [isort_perm_invariant hnd (ho.mono hsub) hp, ih (fun a' ha' => h1 a' (List.mem_cons_of_mem _ ha'))]

end Rare.C13
