import Rare.Model.C19
import Rare.Model.C19F64
/-!
C19, round 4: the MEANING of the operator tables of ops.go.

`harness/extract/c19.go` regenerates, next to the keys, a description of what every entry of `ops` and
`uniOps` computes (`Gen.C19.opsDesc`, `Gen.C19.uniDesc`): the kind of function literal (plain float
arithmetic, comparison through `conditionalOp`, `truthy` combination, int64 operation with an optional
NaN guard, a function of package `math`), its Go operator and its guard, recognised on the AST with the
operands in the order `(left, right)`.  This file interprets such a description over the primitive
arithmetic `Prim α` of the model (`binInterp`, `unInterp`) – `Props/C19.lean` proves that the model's
`binOf` / `unOf` are the interpretation of the generated descriptions, entry by entry
(`ops_table_covered`, `uniops_table_covered`), so an entry that is added, dropped or changed in /repo
(`<` computing `<=`, a removed zero-divisor guard, `"floor": math.Ceil`) breaks a theorem.
-/
namespace Rare.C19

/-- What a description of an entry of `ops` means; `none` = a shape the model has no counterpart of. -/
def binInterp {α : Type} (P : Prim α) (kind op guard : String) : Option (α → α → α) :=
  if kind = "arith" ∧ guard = "" then
    (if op = "+" then some P.add else if op = "-" then some P.sub
     else if op = "*" then some P.mul else if op = "/" then some P.div else none)
  else if kind = "fn" ∧ guard = "" then
    (if op = "Pow" then some P.pow else none)
  else if kind = "cmp" ∧ guard = "" then
    (if op = "<" then some P.ltF else if op = "<=" then some P.leF
     else if op = ">" then some (fun l r => P.ltF r l) else if op = ">=" then some (fun l r => P.leF r l)
     else if op = "==" then some P.eqF else none)
  else if kind = "logic" ∧ guard = "" then
    (if op = "&&" then some P.andF else if op = "||" then some P.orF else none)
  else if kind = "int" then
    (if op = "%" ∧ guard = "==0" then some (P.intBin modI)          -- `r == 0` answers NaN
     else if op = "<<" ∧ guard = "<0" then some (P.intBin shlI)     -- `n < 0` answers NaN
     else if op = ">>" ∧ guard = "<0" then some (P.intBin shrI)
     else if op = "&" ∧ guard = "" then some (P.intBin andI)
     else if op = "|" ∧ guard = "" then some (P.intBin orI)
     else none)
  else none

/-- `math.<Name>` for a key of `uniOps`: the key with its first letter in upper case (`abs` ↦ `Abs`). -/
def goMathName (key : Bytes) : String :=
  match key with
  | [] => ""
  | c :: r => String.ofList (Char.ofNat (c.toNat - 32) :: r.map fun b => Char.ofNat b.toNat)

/-- What a description of an entry of `uniOps` means. -/
def unInterp {α : Type} (P : Prim α) (key : Bytes) (kind name : String) : Option (α → α) :=
  if kind = "neg" then some P.neg
  else if kind = "not" then some P.notF
  else if kind = "fn" ∧ name = goMathName key then some (P.fn key)
  else none

/-- The operand of every unary application (also inside groups) is an atom: a literal, a group or another
    unary application – never a binary node. -/
def Tree.unaryAtomic : Tree → Bool
  | .lit _ => true
  | .grp _ e => unaryAtomic e
  | .un _ e => e.isAtom && unaryAtomic e
  | .bin _ _ l r => unaryAtomic l && unaryAtomic r

theorem wp_unaryAtomic (table : List (List Bytes)) (t : Tree) (h : WellPrec table t) : t.unaryAtomic = true := by
  induction h with
  | lit v => rfl
  | grp s e _ ih => exact ih
  | un m e ha _ ih => simp only [Tree.unaryAtomic, ha, ih, Bool.and_self]
  | bin i op l r lv _ _ _ _ _ _ ihl ihr => simp only [Tree.unaryAtomic, ihl, ihr, Bool.and_self]

namespace IEEE
open Rare.F64

/-- The functions of Go's `math` package the model computes, by their Go name: those IEEE-754 determines and
    (round 4b) the logarithms as they run on amd64 (`Model/C11Log.lean`), (round 4c) the trigonometric functions and
    `Exp2` (pure Go on amd64, `Model/C19Trig.lean`, `IEEE.exp2`).  Only `Exp` is left to the parameter. -/
def goMathExact (name : String) : Option (F64 → F64) :=
  if name = "Abs" then some F64.abs
  else if name = "Sqrt" then some sqrt
  else if name = "Floor" then some F64.floor
  else if name = "Ceil" then some F64.ceil
  else if name = "Round" then some roundHalfAway
  else if name = "Log" then some Rare.C11.Log.logAsm
  else if name = "Log10" then some Rare.C11.Log.log10
  else if name = "Log2" then some Rare.C11.Log.log2
  else if name = "Sin" then some Rare.C19.Trig.sin
  else if name = "Cos" then some Rare.C19.Trig.cos
  else if name = "Tan" then some Rare.C19.Trig.tan
  else if name = "Asin" then some Rare.C19.Trig.asin
  else if name = "Acos" then some Rare.C19.Trig.acos
  else if name = "Atan" then some Rare.C19.Trig.atan
  else if name = "Exp2" then some exp2
  else none

end IEEE

end Rare.C19
