import Rare.Proofs.C07NumF64
import Rare.Proofs.C07Num
/-!
C07: the float order statistics against the EXACT spec (`Spec/C07.lean`: `IsSortedOf`, `IsRank`, `IsMode` over `Rat`).
For finite samples Go's float order is the order of the exact values, so a sorted arrangement of the floats, read as
rationals, IS the sorted list of the values (`sorted_map_toRat`), and `Mode()` commutes with `toRat` (`modeF_toRat`).
-/
namespace Rare.C07
open Rare Rare.F64

theorem goLess_false_iff_toRat {x y : F64} (hx : x.isFinite = true) (hy : y.isFinite = true) :
    goLess y x = false ↔ x.toRat ≤ y.toRat := by
  rw [goLess_false_iff, ← F64.le_iff_toRat_le hx hy, le_iff_key]
  have nx := F64.not_nan_of_finite hx
  have ny := F64.not_nan_of_finite hy
  simp [skey, nx, ny]

theorem eq_iff_toRat_eq {x y : F64} (hx : x.isFinite = true) (hy : y.isFinite = true) :
    F64.eq x y = true ↔ x.toRat = y.toRat := by
  have nx := F64.not_nan_of_finite hx
  have ny := F64.not_nan_of_finite hy
  have h1 := F64.le_iff_toRat_le hx hy
  have h2 := F64.le_iff_toRat_le hy hx
  rw [le_iff_key] at h1 h2
  rw [eq_iff_key]
  constructor
  · intro ⟨_, _, hk⟩
    exact Rat.le_antisymm (h1.mp ⟨nx, ny, by omega⟩) (h2.mp ⟨ny, nx, by omega⟩)
  · intro h
    have a := (h1.mpr (by rw [h]; exact Rat.le_refl)).2.2
    have b := (h2.mpr (by rw [h]; exact Rat.le_refl)).2.2
    exact ⟨nx, ny, by omega⟩

/-- A sorted arrangement of finite floats, read as exact values, is sorted in the spec's sense. -/
theorem isSortedOf_map_toRat (rev : Bool) (l s : List F64) (hf : ∀ x ∈ l, x.isFinite = true) (hs : IsSortedF rev s l) :
    IsSortedOf rev (s.map F64.toRat) (l.map F64.toRat) := by
  refine ⟨hs.1.map _, ?_⟩
  rw [List.pairwise_map]
  have hfs : ∀ x ∈ s, x.isFinite = true := fun x hx => hf x (hs.1.mem_iff.mp hx)
  refine hs.2.imp_of_mem ?_
  intro a b ha hb h
  cases rev
  · simp only [Bool.false_eq_true, if_false] at h ⊢
    exact (goLess_false_iff_toRat (hfs a ha) (hfs b hb)).mp h
  · simp only [if_true] at h ⊢
    exact (goLess_false_iff_toRat (hfs b hb) (hfs a ha)).mp h

theorem isSortedOf_unique (rev : Bool) (s s' l : List Rat) (h : IsSortedOf rev s l) (h' : IsSortedOf rev s' l) : s = s' := by
  refine List.Perm.eq_of_pairwise ?_ h.2 h'.2 (h.1.trans h'.1.symm)
  intro a b _ _ h1 h2
  cases rev
  · exact Rat.le_antisymm h1 h2
  · exact Rat.le_antisymm h2 h1

theorem sorted_map_toRat (rev : Bool) (l s : List F64) (hf : ∀ x ∈ l, x.isFinite = true) (hs : IsSortedF rev s l) :
    s.map F64.toRat = analyze ratOps rev (l.map F64.toRat) :=
  isSortedOf_unique rev _ _ _ (isSortedOf_map_toRat rev l s hf hs) (analyze_sorted rev _)

theorem toRat_zero : (F64.zero false).toRat = 0 := by decide +kernel

theorem modeF_toRat (s : List F64) (hf : ∀ x ∈ s, x.isFinite = true) :
    (modeF s).toRat = mode 0 (fun a b => decide (a = b)) (s.map F64.toRat) := by
  unfold modeF
  rw [mode_map F64.toRat (F64.zero false) F64.eq (fun a b => decide (a = b)) s, toRat_zero]
  intro a ha b hb
  have fa := hf a ha
  have fb : b.isFinite = true := by
    rcases hb with hb | hb
    · exact hf b hb
    · rw [hb]; decide
  cases h : F64.eq a b
  · have : a.toRat ≠ b.toRat := fun e => by
      have := (eq_iff_toRat_eq fa fb).mpr e; rw [h] at this; cases this
    simp [this]
  · have := (eq_iff_toRat_eq fa fb).mp h
    simp [this]

end Rare.C07
