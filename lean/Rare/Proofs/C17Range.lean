import Rare.Spec.C17
/-!
Helper lemmas for C17, part 7: the term-by-term progression `progWhile` of the specification is the
closed form `range` (`rangeCount` terms `start + k·incr`).
-/
namespace Rare.C17
open Rare

/-- The `k`-th term lies before `stop` exactly when `k` is below the closed-form count. -/
theorem before_iff_lt_count (start stop incr : Int) (h0 : incr ≠ 0) (k : Nat) :
    before incr (start + (k : Int) * incr) stop = true ↔ k < rangeCount start stop incr := by
  unfold before rangeCount
  by_cases hp : incr > 0
  · have hn : ¬ incr < 0 := by omega
    simp only [hp, hn, decide_true, decide_false, Bool.true_and, Bool.false_and, Bool.or_false,
      decide_eq_true_eq, if_true]
    have key : ((k : Int) + 1 ≤ (stop - start + incr - 1) / incr) ↔ ((k : Int) + 1) * incr ≤ stop - start + incr - 1 :=
      Int.le_ediv_iff_mul_le hp
    have e : ((k : Int) + 1) * incr = (k : Int) * incr + incr := by rw [Int.add_mul, Int.one_mul]
    rw [e] at key
    constructor
    · intro h
      have := key.mpr (by omega)
      omega
    · intro h
      have := key.mp (by omega)
      omega
  · have hn : incr < 0 := by omega
    have hd : (0 : Int) < -incr := by omega
    simp only [hp, hn, decide_true, decide_false, Bool.true_and, Bool.false_and, Bool.false_or,
      decide_eq_true_eq, if_false]
    have key : ((k : Int) + 1 ≤ (start - stop + -incr - 1) / -incr) ↔ ((k : Int) + 1) * -incr ≤ start - stop + -incr - 1 :=
      Int.le_ediv_iff_mul_le hd
    have e : ((k : Int) + 1) * -incr = -((k : Int) * incr) + -incr := by
      rw [Int.add_mul, Int.one_mul, Int.mul_neg]
    rw [e] at key
    constructor
    · intro h
      have := key.mpr (by omega)
      omega
    · intro h
      have := key.mp (by omega)
      omega

theorem progWhile_closed (start stop incr : Int) (h0 : incr ≠ 0) :
    ∀ (limit k : Nat), progWhile start stop incr limit k =
      if rangeCount start stop incr - k ≤ limit then
        some ((List.range' k (rangeCount start stop incr - k)).map fun (j : Nat) => start + (j : Int) * incr)
      else none := by
  intro limit
  induction limit with
  | zero =>
    intro k
    simp only [progWhile]
    by_cases hb : before incr (start + (k : Int) * incr) stop = true
    · have := (before_iff_lt_count start stop incr h0 k).mp hb
      have hgt : ¬ rangeCount start stop incr - k ≤ 0 := by omega
      simp [hb, hgt]
    · have hlt : ¬ k < rangeCount start stop incr := fun h => hb ((before_iff_lt_count start stop incr h0 k).mpr h)
      have e : rangeCount start stop incr - k = 0 := by omega
      simp [hb, e]
  | succ limit ih =>
    intro k
    simp only [progWhile]
    by_cases hb : before incr (start + (k : Int) * incr) stop = true
    · have hk := (before_iff_lt_count start stop incr h0 k).mp hb
      have e : rangeCount start stop incr - k = (rangeCount start stop incr - (k + 1)) + 1 := by omega
      rw [if_pos hb, ih (k + 1), e]
      by_cases hl : rangeCount start stop incr - (k + 1) ≤ limit
      · have hl' : rangeCount start stop incr - (k + 1) + 1 ≤ limit + 1 := by omega
        simp [hl, hl', List.range'_succ]
      · have hl' : ¬ rangeCount start stop incr - (k + 1) + 1 ≤ limit + 1 := by omega
        simp [hl, hl']
    · have hlt : ¬ k < rangeCount start stop incr := fun h => hb ((before_iff_lt_count start stop incr h0 k).mpr h)
      have e : rangeCount start stop incr - k = 0 := by omega
      simp [hb, e]

/-- The term-by-term progression is the closed form: `rangeCount` terms, or "too many". -/
theorem progWhile_eq_range (start stop incr : Int) (h0 : incr ≠ 0) (limit : Nat) :
    progWhile start stop incr limit 0 =
      if rangeCount start stop incr ≤ limit then some (range start stop incr) else none := by
  rw [progWhile_closed start stop incr h0 limit 0]
  simp only [Nat.sub_zero, range, List.range_eq_range']

end Rare.C17
