import Rare.Proofs.C04
import Rare.Proofs.C04Buf
/-!
Translator tie for C04 (helpers; nothing here mentions `Rare.Gen`).

`harness/extract/c04.go` translates every condition, integer update, slice expression and `make`
size of `ImmediateReadAhead.Scan`, `BufferedReadAhead.Scan` and `dropCR` into Lean functions over
`Int` (`Rare.Gen.C04`).  Here the two `Scan` bodies are *re-assembled* from such fragments,
following the control skeleton of the source (which `Props/C04.lean` pins with `rfl`):
`Imm.scanG F` / `Buf.scanG F` are programs parametric in a bundle `F` of fragments.  The theorems
of this file say that the hand model equals the re-assembled program instantiated with the
fragments the model was written against (`ImmFrags.hand`, `BufFrags.hand`) for every state with
`offset ≤ end`.  `Props/C04.lean` then proves that the *generated* fragments are those fragments.
-/
namespace Rare.C04

/-- A Go slice expression `base[lo:hi]` read on the list that abstracts the array contents. -/
def goSlice (base : Bytes) (lo hi : Int) : Bytes := (base.drop lo.toNat).take (hi.toNat - lo.toNat)

/-- `bytes.IndexByte(l, '\n')` -/
def goIndexByte (l : Bytes) : Int :=
  match idxNl l with
  | some k => (k : Int)
  | none => -1

/-- bounds of a slice expression; `cr` = wrapped in `dropCR( … )` (same shape as `Rare.Gen.C04.Sl`) -/
structure SlB where
  cr : Bool
  lo : Int
  hi : Int

def evalSl (base : Bytes) (sl : SlB) : Bytes :=
  if sl.cr then dropCR (goSlice base sl.lo sl.hi) else goSlice base sl.lo sl.hi

/-! ### ImmediateReadAhead.Scan re-assembled -/

/-- The fragments of `ImmediateReadAhead.Scan`, in source order. -/
structure ImmFrags where
  c0 : Int → Int → Bool           -- s.offset < s.end
  sl0 : Int → Int → SlB           -- s.buf[s.offset:s.end]                 (searched)
  c1 : Int → Bool                 -- eol >= 0
  sl1 : Int → Int → SlB           -- dropCR(s.buf[s.offset:s.offset+eol])  (token)
  set0 : Int → Int → Int          -- s.offset += eol + 1
  c2 : Bool → Bool                -- s.eof
  sl2 : Int → Int → SlB           -- s.buf[s.offset:s.end]                 (tail token)
  set1 : Int → Int                -- s.offset = s.end
  c3 : Bool → Bool                -- s.eof
  c4 : Int → Int → Bool           -- s.end >= len(s.buf)
  make0 : Int → Int → Int → Int   -- make([]byte, s.end-s.offset+s.bufSize)
  sl3 : Int → Int → SlB           -- old[s.offset:s.end]                   (copied)
  set2 : Int → Int → Int          -- s.end -= s.offset
  set3 : Int                      -- s.offset = 0
  sl4 : Int → Int → SlB           -- s.buf[s.end:]                         (Read target)
  set4 : Int → Int → Int          -- s.end += n
  c5 : Bool → Bool                -- err != nil
  c6 : Bool → Bool → Bool         -- err != io.EOF && s.onError != nil
  sl5 : Int → Int → SlB           -- s.buf[s.end-n:s.end]                  (searched)
  c7 : Int → Bool                 -- eol >= 0
  set5 : Int → Int → Int → Int    -- end := s.end - n + eol
  sl6 : Int → Int → SlB           -- dropCR(s.buf[s.offset:end])           (token)
  set6 : Int → Int                -- s.offset = end + 1

/-- What the hand model assumes the fragments to be. -/
def ImmFrags.hand : ImmFrags where
  c0 := fun offset end_ => decide (offset < end_)
  sl0 := fun offset end_ => ⟨false, offset, end_⟩
  c1 := fun eol => decide (eol ≥ 0)
  sl1 := fun offset eol => ⟨true, offset, offset + eol⟩
  set0 := fun offset eol => offset + (eol + 1)
  c2 := fun eof => eof
  sl2 := fun offset end_ => ⟨false, offset, end_⟩
  set1 := fun end_ => end_
  c3 := fun eof => eof
  c4 := fun end_ len_buf => decide (end_ ≥ len_buf)
  make0 := fun end_ offset bufSize => (end_ - offset) + bufSize
  sl3 := fun offset end_ => ⟨false, offset, end_⟩
  set2 := fun end_ offset => end_ - offset
  set3 := 0
  sl4 := fun end_ len_buf => ⟨false, end_, len_buf⟩
  set4 := fun end_ n => end_ + n
  c5 := fun err_nonnil => err_nonnil
  c6 := fun err_not_eof has_onError => (err_not_eof && has_onError)
  sl5 := fun end_ n => ⟨false, end_ - n, end_⟩
  c7 := fun eol => decide (eol ≥ 0)
  set5 := fun end_ n eol => (end_ - n) + eol
  sl6 := fun offset endL => ⟨true, offset, endL⟩
  set6 := fun endL => endL + 1

@[simp] theorem ImmFrags.hand_c0 {a b} : ImmFrags.hand.c0 a b = decide (a < b) := rfl
@[simp] theorem ImmFrags.hand_sl0 {a b} : ImmFrags.hand.sl0 a b = ⟨false, a, b⟩ := rfl
@[simp] theorem ImmFrags.hand_c1 {a} : ImmFrags.hand.c1 a = decide (a ≥ 0) := rfl
@[simp] theorem ImmFrags.hand_sl1 {a b} : ImmFrags.hand.sl1 a b = ⟨true, a, a + b⟩ := rfl
@[simp] theorem ImmFrags.hand_set0 {a b} : ImmFrags.hand.set0 a b = a + (b + 1) := rfl
@[simp] theorem ImmFrags.hand_c2 {a} : ImmFrags.hand.c2 a = a := rfl
@[simp] theorem ImmFrags.hand_sl2 {a b} : ImmFrags.hand.sl2 a b = ⟨false, a, b⟩ := rfl
@[simp] theorem ImmFrags.hand_set1 {a} : ImmFrags.hand.set1 a = a := rfl
@[simp] theorem ImmFrags.hand_c3 {a} : ImmFrags.hand.c3 a = a := rfl
@[simp] theorem ImmFrags.hand_c4 {a b} : ImmFrags.hand.c4 a b = decide (a ≥ b) := rfl
@[simp] theorem ImmFrags.hand_make0 {a b c} : ImmFrags.hand.make0 a b c = (a - b) + c := rfl
@[simp] theorem ImmFrags.hand_sl3 {a b} : ImmFrags.hand.sl3 a b = ⟨false, a, b⟩ := rfl
@[simp] theorem ImmFrags.hand_set2 {a b} : ImmFrags.hand.set2 a b = a - b := rfl
@[simp] theorem ImmFrags.hand_sl4 {a b} : ImmFrags.hand.sl4 a b = ⟨false, a, b⟩ := rfl
@[simp] theorem ImmFrags.hand_set4 {a b} : ImmFrags.hand.set4 a b = a + b := rfl
@[simp] theorem ImmFrags.hand_c5 {a} : ImmFrags.hand.c5 a = a := rfl
@[simp] theorem ImmFrags.hand_c6 {a b} : ImmFrags.hand.c6 a b = (a && b) := rfl
@[simp] theorem ImmFrags.hand_sl5 {a b} : ImmFrags.hand.sl5 a b = ⟨false, a - b, a⟩ := rfl
@[simp] theorem ImmFrags.hand_c7 {a} : ImmFrags.hand.c7 a = decide (a ≥ 0) := rfl
@[simp] theorem ImmFrags.hand_set5 {a b c} : ImmFrags.hand.set5 a b c = (a - b) + c := rfl
@[simp] theorem ImmFrags.hand_sl6 {a b} : ImmFrags.hand.sl6 a b = ⟨true, a, b⟩ := rfl
@[simp] theorem ImmFrags.hand_set6 {a} : ImmFrags.hand.set6 a = a + 1 := rfl
@[simp] theorem ImmFrags.hand_set3 : ImmFrags.hand.set3 = 0 := rfl

/-- `s.token = <slice>; s.offset = <newOff>; return true` -/
def Imm.emitG (s : Imm) (sl : SlB) (newOff : Int) : Res × Imm :=
  let line := evalSl s.buf sl
  (.tok ⟨s.arr, sl.lo.toNat, sl.lo.toNat + line.length⟩ line, { s with offset := newOff.toNat })

/-- from `RESTART:` to the read loop (`none` = fall through into the loop) -/
def Imm.topG (F : ImmFrags) (s : Imm) : Option (Res × Imm) :=
  let off : Int := s.offset
  let end_ : Int := s.buf.length
  if F.c0 off end_ then
    let eol := goIndexByte (evalSl s.buf (F.sl0 off end_))
    if F.c1 eol then some (s.emitG (F.sl1 off eol) (F.set0 off eol))
    else if F.c2 s.eof then some (s.emitG (F.sl2 off end_) (F.set1 end_))
    else none
  else if F.c3 s.eof then some (.done, s) else none

/-- `if s.end >= len(s.buf) { old := s.buf; s.buf = make(…); copy(s.buf, old[…]); s.end -= s.offset; s.offset = 0 }` -/
def Imm.grownG (F : ImmFrags) (s : Imm) : Imm :=
  let off : Int := s.offset
  let end_ : Int := s.buf.length
  if F.c4 end_ s.cap then
    { s with mem := s.mem ++ [s.buf], cap := (F.make0 end_ off s.bufSize).toNat,
             buf := evalSl s.buf (F.sl3 off end_), offset := F.set3.toNat }
  else s

def Imm.readLoopG (F : ImmFrags) : Nat → Imm → Res × Imm
  | 0, s => (.fuel, s)
  | f + 1, s =>
    let s0 := s.grownG F
    let tgt := F.sl4 s0.buf.length s0.cap
    let r := s0.rd.read (tgt.hi.toNat - tgt.lo.toNat)          -- n, err := s.r.Read(s.buf[s.end:])
    let s1 := s0.recv r.1 r.2.2                                 -- s.end += n
    let n : Int := r.1.length
    let end_ : Int := s1.buf.length
    if F.c5 r.2.1.isSome then
      let s2 := { s1 with eof := true,
                          errs := if F.c6 (decide (r.2.1 = some .fail)) true then s1.errs + 1 else s1.errs }
      match s2.topG F with                                      -- goto RESTART
      | some res => res
      | none => Imm.readLoopG F f s2
    else
      let eol := goIndexByte (evalSl s1.buf (F.sl5 end_ n))
      if F.c7 eol then
        let endL := F.set5 end_ n eol
        s1.emitG (F.sl6 s1.offset endL) (F.set6 endL)
      else Imm.readLoopG F f s1

def Imm.scanG (F : ImmFrags) (fuel : Nat) (s : Imm) : Res × Imm :=
  match s.topG F with
  | some r => r
  | none => s.readLoopG F fuel

/-! #### the hand model is the re-assembled program -/

theorem goSlice_nat (base : Bytes) (a b : Nat) :
    goSlice base (a : Int) (b : Int) = (base.drop a).take (b - a) := by
  simp [goSlice]

theorem goSlice_all (base : Bytes) (a : Nat) (_h : a ≤ base.length) :
    goSlice base (a : Int) (base.length : Int) = base.drop a := by
  rw [goSlice_nat]
  apply List.take_of_length_le
  simp

theorem evalSl_full (acc : Bytes) : evalSl acc ⟨false, 0, (acc.length : Int)⟩ = acc := by
  simp only [evalSl, Bool.false_eq_true, if_false]
  exact goSlice_all acc 0 (Nat.zero_le _)

theorem goIndexByte_some {l : Bytes} {k : Nat} (h : idxNl l = some k) : goIndexByte l = k := by
  simp [goIndexByte, h]

theorem goIndexByte_none {l : Bytes} (h : idxNl l = none) : goIndexByte l = -1 := by
  simp [goIndexByte, h]

theorem emitG_emitAt (s : Imm) (eol : Nat) :
    s.emitG ⟨true, (s.offset : Int), (s.offset : Int) + (eol : Int)⟩ ((s.offset : Int) + ((eol : Int) + 1))
      = s.emitAt eol := by
  have h1 : ((s.offset : Int) + (eol : Int)).toNat - s.offset = eol := by omega
  have h2 : ((s.offset : Int) + ((eol : Int) + 1)).toNat = s.offset + eol + 1 := by omega
  simp only [Imm.emitG, Imm.emitAt, evalSl, goSlice, Int.toNat_natCast, if_true, h1, h2]

theorem emitG_emitTail (s : Imm) (h : s.offset ≤ s.buf.length) :
    s.emitG ⟨false, (s.offset : Int), (s.buf.length : Int)⟩ (s.buf.length : Int) = s.emitTail := by
  have hl : (List.take (s.buf.length - s.offset) (List.drop s.offset s.buf)) = List.drop s.offset s.buf := by
    apply List.take_of_length_le; simp
  simp only [Imm.emitG, Imm.emitTail, evalSl, goSlice, Int.toNat_natCast, hl]
  simp
  omega

theorem topG_hand (s : Imm) (h : s.offset ≤ s.buf.length) : s.topG ImmFrags.hand = s.top := by
  have hs : evalSl s.buf ⟨false, (s.offset : Int), (s.buf.length : Int)⟩ = s.buf.drop s.offset := by
    simp only [evalSl]; exact goSlice_all _ _ h
  simp only [Imm.topG, Imm.top, ImmFrags.hand_c0, ImmFrags.hand_sl0, ImmFrags.hand_c1, ImmFrags.hand_sl1,
    ImmFrags.hand_set0, ImmFrags.hand_c2, ImmFrags.hand_sl2, ImmFrags.hand_set1, ImmFrags.hand_c3, hs]
  by_cases hlt : s.offset < s.buf.length
  · have hlt' : ((s.offset : Int) < (s.buf.length : Int)) := by omega
    simp only [hlt, hlt', decide_true, if_true]
    cases hi : idxNl (s.buf.drop s.offset) with
    | some k =>
      simp only [goIndexByte_some hi, show ((k : Int) ≥ 0) by omega, decide_true, if_true, emitG_emitAt]
    | none =>
      simp only [goIndexByte_none hi, show ¬ ((-1 : Int) ≥ 0) by omega, decide_false, Bool.false_eq_true,
        if_false, emitG_emitTail s h]
  · have hlt' : ¬ ((s.offset : Int) < (s.buf.length : Int)) := by omega
    simp only [hlt, hlt', decide_false, Bool.false_eq_true, if_false]
    rfl

theorem grownG_hand (s : Imm) (h : s.offset ≤ s.buf.length) : s.grownG ImmFrags.hand = s.grown := by
  have hs : evalSl s.buf ⟨false, (s.offset : Int), (s.buf.length : Int)⟩ = s.buf.drop s.offset := by
    simp only [evalSl]; exact goSlice_all _ _ h
  have hm : (((s.buf.length : Int) - (s.offset : Int)) + (s.bufSize : Int)).toNat
      = s.buf.length - s.offset + s.bufSize := by omega
  simp only [Imm.grownG, Imm.grown, Imm.regrow, ImmFrags.hand_c4, ImmFrags.hand_make0, ImmFrags.hand_sl3,
    ImmFrags.hand_set3, hs, hm]
  by_cases hc : s.buf.length ≥ s.cap
  · have hc' : ((s.buf.length : Int) ≥ (s.cap : Int)) := by omega
    simp only [hc, hc', decide_true, if_true]
    rfl
  · have hc' : ¬ ((s.buf.length : Int) ≥ (s.cap : Int)) := by omega
    simp only [hc, hc', decide_false, Bool.false_eq_true, if_false]

theorem grown_off (s : Imm) (h : s.offset ≤ s.buf.length) : s.grown.offset ≤ s.grown.buf.length := by
  unfold Imm.grown Imm.regrow
  split <;> simp [h]

theorem topEof_eq_top (s : Imm) (he : s.eof = true) : s.top = some s.topEof := by
  unfold Imm.top Imm.topEof
  simp only [he, if_true]
  split
  · split <;> rfl
  · rfl

theorem fail_eq (s1 : Imm) (e : RErr) :
    ({ s1 with eof := true,
               errs := if (decide (some e = some RErr.fail) && true) = true then s1.errs + 1 else s1.errs } : Imm)
      = s1.fail e := by
  cases e <;> simp [Imm.fail]

theorem readLoopG_hand (f : Nat) : ∀ (s : Imm), s.offset ≤ s.buf.length →
    s.readLoopG ImmFrags.hand f = s.readLoop f := by
  induction f with
  | zero => intro s _; rfl
  | succ f ih =>
    intro s h
    simp only [Imm.readLoopG, Imm.readLoop, grownG_hand s h, ImmFrags.hand_sl4, ImmFrags.hand_c5,
      ImmFrags.hand_c6, ImmFrags.hand_sl5, ImmFrags.hand_c7, ImmFrags.hand_set5, ImmFrags.hand_sl6,
      ImmFrags.hand_set6, Int.toNat_natCast]
    have h0 := grown_off s h
    generalize s.grown = s0 at h0
    generalize s0.rd.read (s0.cap - s0.buf.length) = r
    obtain ⟨bs, err, rd'⟩ := r
    have h1 : (s0.recv bs rd').offset ≤ (s0.recv bs rd').buf.length := by
      simp [Imm.recv]; omega
    cases err with
    | some e =>
      simp only [Option.isSome_some, if_true, fail_eq]
      rw [topG_hand ((s0.recv bs rd').fail e) (by simpa [Imm.fail] using h1),
        topEof_eq_top _ (by simp [Imm.fail])]
    | none =>
      have hs : evalSl (s0.recv bs rd').buf
          ⟨false, ((s0.recv bs rd').buf.length : Int) - (bs.length : Int), ((s0.recv bs rd').buf.length : Int)⟩ = bs := by
        simp only [evalSl, Imm.recv, goSlice, Bool.false_eq_true, if_false, List.length_append]
        have e1 : (((s0.buf.length + bs.length : Nat) : Int) - (bs.length : Int)).toNat = s0.buf.length := by omega
        rw [e1]
        have e4 : ((s0.buf.length : Int) + (bs.length : Int)).toNat - s0.buf.length = bs.length := by omega
        simp [e4]
      simp only [Option.isSome_none, Bool.false_eq_true, if_false, hs]
      cases hi : idxNl bs with
      | some k =>
        have hlen : (s0.recv bs rd').buf.length = s0.buf.length + bs.length := by simp [Imm.recv]
        have hoff : (s0.recv bs rd').offset = s0.offset := rfl
        have e2 : (((s0.recv bs rd').buf.length : Int) - (bs.length : Int)) + (k : Int)
            = ((s0.recv bs rd').offset : Int) + ((s0.buf.length + k - s0.offset : Nat) : Int) := by
          rw [hlen, hoff]; omega
        have e3 : ((((s0.recv bs rd').buf.length : Int) - (bs.length : Int)) + (k : Int)) + 1
            = ((s0.recv bs rd').offset : Int) + (((s0.buf.length + k - s0.offset : Nat) : Int) + 1) := by
          rw [hlen, hoff]; omega
        simp only [goIndexByte_some hi, show ((k : Int) ≥ 0) by omega, decide_true, if_true]
        rw [e3, e2, emitG_emitAt]
      | none =>
        simp only [goIndexByte_none hi, show ¬ ((-1 : Int) ≥ 0) by omega, decide_false, Bool.false_eq_true, if_false]
        exact ih _ h1

/-- The hand model of `ImmediateReadAhead.Scan` is the program re-assembled from the fragments. -/
theorem scanG_hand (f : Nat) (s : Imm) (h : s.offset ≤ s.buf.length) :
    s.scanG ImmFrags.hand f = s.scan f := by
  unfold Imm.scanG Imm.scan
  rw [topG_hand s h, readLoopG_hand f s h]
  rfl

/-! ### BufferedReadAhead.Scan re-assembled -/

/-- `maxi` of pkg/readahead/util.go -/
def goMaxi (a b : Int) : Int := if decide (a > b) then a else b

/-- The fragments of `BufferedReadAhead.Scan`, in source order. -/
structure BufFrags where
  sl0 : Int → Int → SlB   -- s.buf[s.offset:]                    (searched)
  c0 : Int → Bool   -- relIndex >= 0
  set0 : Int → Int   -- start := s.offset
  set1 : Int → Int → Int   -- s.offset += relIndex + 1
  sl1 : Int → Int → SlB   -- dropCR(s.buf[start:start+relIndex])  (token)
  c1 : Bool → Int → Int → Bool   -- s.eof && s.offset < len(s.buf)
  sl2 : Int → Int → SlB   -- s.buf[s.offset:]                    (tail token)
  set2 : Int → Int   -- s.offset = len(s.buf)
  c2 : Bool → Bool   -- !s.eof
  make0 : Int → Int → Int → Int   -- make([]byte, maxi(s.maxBufLen, len(oldbuf)-s.offset+s.maxBufLen/2))
  sl3 : Int → Int → SlB   -- oldbuf[s.offset:]                   (copied)
  set3 : Int → Int → Int   -- readOffset := len(oldbuf) - s.offset
  c3 : Int → Int → Bool   -- readOffset < len(s.buf)
  sl4 : Int → Int → SlB   -- s.buf[readOffset:]                  (Read target)
  set4 : Int → Int → Int   -- readOffset += n
  c4 : Bool → Bool   -- err != nil
  c5 : Bool → Bool → Bool   -- err != io.EOF && s.onError != nil
  sl5 : Int → SlB   -- s.buf[:readOffset]
  set5 : Int   -- s.offset = 0

/-- What the hand model assumes the fragments to be. -/
def BufFrags.hand : BufFrags where
  sl0 := fun a b => ⟨false, a, b⟩
  c0 := fun a => decide (a ≥ 0)
  set0 := fun a => a
  set1 := fun a b => a + (b + 1)
  sl1 := fun a b => ⟨true, a, a + b⟩
  c1 := fun e a b => (e && decide (a < b))
  sl2 := fun a b => ⟨false, a, b⟩
  set2 := fun a => a
  c2 := fun e => (!e)
  make0 := fun m l o => goMaxi m ((l - o) + Int.tdiv m 2)
  sl3 := fun a b => ⟨false, a, b⟩
  set3 := fun l o => l - o
  c3 := fun a b => decide (a < b)
  sl4 := fun a b => ⟨false, a, b⟩
  set4 := fun a n => a + n
  c4 := fun e => e
  c5 := fun a b => (a && b)
  sl5 := fun a => ⟨false, 0, a⟩
  set5 := 0

@[simp] theorem BufFrags.hand_sl0 {a b} : BufFrags.hand.sl0 a b = ⟨false, a, b⟩ := rfl
@[simp] theorem BufFrags.hand_c0 {a} : BufFrags.hand.c0 a = decide (a ≥ 0) := rfl
@[simp] theorem BufFrags.hand_set0 {a} : BufFrags.hand.set0 a = a := rfl
@[simp] theorem BufFrags.hand_set1 {a b} : BufFrags.hand.set1 a b = a + (b + 1) := rfl
@[simp] theorem BufFrags.hand_sl1 {a b} : BufFrags.hand.sl1 a b = ⟨true, a, a + b⟩ := rfl
@[simp] theorem BufFrags.hand_c1 {e a b} : BufFrags.hand.c1 e a b = (e && decide (a < b)) := rfl
@[simp] theorem BufFrags.hand_sl2 {a b} : BufFrags.hand.sl2 a b = ⟨false, a, b⟩ := rfl
@[simp] theorem BufFrags.hand_set2 {a} : BufFrags.hand.set2 a = a := rfl
@[simp] theorem BufFrags.hand_c2 {e} : BufFrags.hand.c2 e = (!e) := rfl
@[simp] theorem BufFrags.hand_make0 {m l o} : BufFrags.hand.make0 m l o = goMaxi m ((l - o) + Int.tdiv m 2) := rfl
@[simp] theorem BufFrags.hand_sl3 {a b} : BufFrags.hand.sl3 a b = ⟨false, a, b⟩ := rfl
@[simp] theorem BufFrags.hand_set3 {l o} : BufFrags.hand.set3 l o = l - o := rfl
@[simp] theorem BufFrags.hand_c3 {a b} : BufFrags.hand.c3 a b = decide (a < b) := rfl
@[simp] theorem BufFrags.hand_sl4 {a b} : BufFrags.hand.sl4 a b = ⟨false, a, b⟩ := rfl
@[simp] theorem BufFrags.hand_set4 {a n} : BufFrags.hand.set4 a n = a + n := rfl
@[simp] theorem BufFrags.hand_c4 {e} : BufFrags.hand.c4 e = e := rfl
@[simp] theorem BufFrags.hand_c5 {a b} : BufFrags.hand.c5 a b = (a && b) := rfl
@[simp] theorem BufFrags.hand_sl5 {a} : BufFrags.hand.sl5 a = ⟨false, 0, a⟩ := rfl
@[simp] theorem BufFrags.hand_set5 : BufFrags.hand.set5 = 0 := rfl

def Buf.emitG (s : Buf) (sl : SlB) (newOff : Int) : Res × Buf :=
  let line := evalSl s.buf sl
  (.tok ⟨s.mem.length, sl.lo.toNat, sl.lo.toNat + line.length⟩ line, { s with offset := newOff.toNat })

/-- the inner `for readOffset < len(s.buf)` loop; `acc.length` is `readOffset` -/
def Buf.fillG (F : BufFrags) : Nat → Nat → Bytes → Reader → Nat → Bytes → Option (Bytes × Reader × Bool × Nat × Bytes)
  | 0, _, _, _, _, _ => none
  | f + 1, cap, acc, rd, errs, dl =>
    if F.c3 acc.length cap then
      let tgt := F.sl4 acc.length cap
      let r := rd.read (tgt.hi.toNat - tgt.lo.toNat)           -- n, err := s.r.Read(s.buf[readOffset:])
      let acc' := acc ++ r.1                                    -- readOffset += n
      bif F.c4 r.2.1.isSome then
        some (acc', r.2.2, true, bif F.c5 (decide (r.2.1 = some .fail)) true then errs + 1 else errs, dl ++ r.1)
      else Buf.fillG F f cap acc' r.2.2 errs (dl ++ r.1)
    else some (acc, rd, false, errs, dl)

def Buf.scanG (F : BufFrags) : Nat → Buf → Res × Buf
  | 0, s => (.fuel, s)
  | f + 1, s =>
    let off : Int := s.offset
    let len : Int := s.buf.length
    let relIndex := goIndexByte (evalSl s.buf (F.sl0 off len))
    if F.c0 relIndex then
      let start := F.set0 off
      s.emitG (F.sl1 start relIndex) (F.set1 off relIndex)
    else if F.c1 s.eof off len then s.emitG (F.sl2 off len) (F.set2 len)
    else if F.c2 s.eof then
      let cap := (F.make0 s.maxBufLen len off).toNat
      let keep := evalSl s.buf (F.sl3 off len)
      match Buf.fillG F (s.rd.measure + 2) cap keep s.rd s.errs s.delivered with
      | none => (.fuel, s)
      | some (acc, rd', eof', errs', dl') =>
        Buf.scanG F f { s with mem := s.mem ++ [s.buf], buf := evalSl acc (F.sl5 acc.length),
                               offset := F.set5.toNat, rd := rd', eof := eof', errs := errs', delivered := dl' }
    else (.done, s)

theorem fillG_hand (f : Nat) : ∀ (cap : Nat) (acc : Bytes) (rd : Reader) (errs : Nat) (dl : Bytes),
    Buf.fillG BufFrags.hand f cap acc rd errs dl = Buf.fill f cap acc rd errs dl := by
  induction f with
  | zero => intros; rfl
  | succ f ih =>
    intro cap acc rd errs dl
    simp only [Buf.fillG, Buf.fill, BufFrags.hand_c3, BufFrags.hand_sl4, BufFrags.hand_c4, BufFrags.hand_c5,
      Int.toNat_natCast]
    by_cases hlt : acc.length < cap
    · have hlt' : ((acc.length : Int) < (cap : Int)) := by omega
      simp only [hlt, hlt', decide_true, if_true]
      split
      · rename_i e heq
        cases e <;> simp [heq]
      · rename_i heq
        simp [heq, ih]
    · have hlt' : ¬ ((acc.length : Int) < (cap : Int)) := by omega
      simp only [hlt, hlt', decide_false, Bool.false_eq_true, if_false]

theorem goMaxi_nat (m l o : Nat) (h : o ≤ l) :
    (goMaxi (m : Int) (((l : Int) - (o : Int)) + Int.tdiv (m : Int) 2)).toNat = max m (l - o + m / 2) := by
  have ht : Int.tdiv (m : Int) 2 = (m : Int) / 2 := Int.tdiv_eq_ediv_of_nonneg (by omega)
  rw [ht]
  unfold goMaxi
  by_cases hc : (m : Int) > ((l : Int) - (o : Int)) + (m : Int) / 2
  · simp only [hc, decide_true, if_true]
    omega
  · simp only [hc, decide_false, Bool.false_eq_true, if_false]
    omega

theorem bemitG_line (s : Buf) (k : Nat) :
    s.emitG ⟨true, (s.offset : Int), (s.offset : Int) + (k : Int)⟩ ((s.offset : Int) + ((k : Int) + 1))
      = (.tok ⟨s.mem.length, s.offset, s.offset + (dropCR ((s.buf.drop s.offset).take k)).length⟩
            (dropCR ((s.buf.drop s.offset).take k)), { s with offset := s.offset + k + 1 }) := by
  have h1 : ((s.offset : Int) + (k : Int)).toNat - s.offset = k := by omega
  have h2 : ((s.offset : Int) + ((k : Int) + 1)).toNat = s.offset + k + 1 := by omega
  simp only [Buf.emitG, evalSl, goSlice, Int.toNat_natCast, if_true, h1, h2]

theorem bemitG_tail (s : Buf) (h : s.offset ≤ s.buf.length) :
    s.emitG ⟨false, (s.offset : Int), (s.buf.length : Int)⟩ (s.buf.length : Int)
      = (.tok ⟨s.mem.length, s.offset, s.buf.length⟩ (s.buf.drop s.offset), { s with offset := s.buf.length }) := by
  have hl : (List.take (s.buf.length - s.offset) (List.drop s.offset s.buf)) = List.drop s.offset s.buf := by
    apply List.take_of_length_le; simp
  simp only [Buf.emitG, evalSl, goSlice, Int.toNat_natCast, hl]
  simp
  omega

/-- The hand model of `BufferedReadAhead.Scan` is the program re-assembled from the fragments. -/
theorem bscanG_hand (f : Nat) : ∀ (s : Buf), s.offset ≤ s.buf.length →
    s.scanG BufFrags.hand f = s.scan f := by
  induction f with
  | zero => intro s _; rfl
  | succ f ih =>
    intro s h
    have hs : evalSl s.buf ⟨false, (s.offset : Int), (s.buf.length : Int)⟩ = s.buf.drop s.offset := by
      simp only [evalSl]; exact goSlice_all _ _ h
    simp only [Buf.scanG, Buf.scan, BufFrags.hand_sl0, BufFrags.hand_c0, BufFrags.hand_set0, BufFrags.hand_set1,
      BufFrags.hand_sl1, BufFrags.hand_c1, BufFrags.hand_sl2, BufFrags.hand_set2, BufFrags.hand_c2,
      BufFrags.hand_make0, BufFrags.hand_sl3, BufFrags.hand_sl5, BufFrags.hand_set5, hs, fillG_hand,
      goMaxi_nat _ _ _ h]
    cases hi : idxNl (s.buf.drop s.offset) with
    | some k =>
      simp only [goIndexByte_some hi, show ((k : Int) ≥ 0) by omega, decide_true, if_true, bemitG_line]
    | none =>
      simp only [goIndexByte_none hi, show ¬ ((-1 : Int) ≥ 0) by omega, decide_false, Bool.false_eq_true, if_false]
      cases he : s.eof
      · simp only [Bool.false_and, Bool.false_eq_true, if_false, Bool.not_false, if_true, List.length_drop]
        generalize Buf.fill (s.rd.measure + 2) _ _ s.rd s.errs s.delivered = fr
        cases fr with
        | none => rfl
        | some t =>
          obtain ⟨acc, rd', eof', errs', dl'⟩ := t
          simp only [evalSl_full]
          exact ih _ (by simp)
      · by_cases hlt : s.offset < s.buf.length
        · have hlt' : ((s.offset : Int) < (s.buf.length : Int)) := by omega
          simp only [hlt, hlt', decide_true, Bool.and_self, if_true, bemitG_tail s h]
          simp [he]
        · have hlt' : ¬ ((s.offset : Int) < (s.buf.length : Int)) := by omega
          simp only [hlt, hlt', decide_false, Bool.and_false, Bool.false_eq_true, if_false, Bool.not_true]

/-! ### the integer variables that the model keeps implicitly (`s.end`, `readOffset` = length of the valid part) -/

theorem imm_end_after_regrow (s : Imm) (h : s.offset ≤ s.buf.length) :
    (s.regrow.buf.length : Int) = ImmFrags.hand.set2 s.buf.length s.offset := by
  simp [Imm.regrow]; omega

theorem imm_end_after_read (s : Imm) (bs : Bytes) (rd' : Reader) :
    ((s.recv bs rd').buf.length : Int) = ImmFrags.hand.set4 s.buf.length bs.length := by
  simp [Imm.recv]

theorem buf_readOffset_init (s : Buf) (h : s.offset ≤ s.buf.length) :
    ((evalSl s.buf (BufFrags.hand.sl3 s.offset s.buf.length)).length : Int)
      = BufFrags.hand.set3 s.buf.length s.offset := by
  simp only [BufFrags.hand_sl3, BufFrags.hand_set3, evalSl, Bool.false_eq_true, if_false, goSlice_all _ _ h]
  simp; omega

theorem buf_readOffset_after_read (acc bs : Bytes) :
    (((acc ++ bs).length : Nat) : Int) = BufFrags.hand.set4 acc.length bs.length := by
  simp

/-- `dropCR` of util.go, assembled from its condition and its slice, on the list abstraction. -/
def dropCRG (cond : Int → (Int → Int) → Bool) (sl : Int → SlB) (data : Bytes) : Bytes :=
  if cond data.length (fun i => ((data.getD i.toNat 0).toNat : Int)) then evalSl data (sl data.length) else data

theorem dropCRG_hand (data : Bytes) :
    dropCRG (fun len_data data_at => (decide (len_data > 0) && decide (data_at (len_data - 1) = 13)))
      (fun len_data => ⟨false, 0, len_data - 1⟩) data = dropCR data := by
  rcases List.eq_nil_or_concat data with rfl | ⟨l, b, rfl⟩
  · simp [dropCRG, dropCR]
  · have h1 : (((l ++ [b]).length : Nat) : Int) > 0 := by simp
    have h2 : ((((l ++ [b]).length : Nat) : Int) - 1).toNat = l.length := by simp
    have h3 : (l ++ [b]).getD l.length 0 = b := by simp
    have h4 : evalSl (l ++ [b]) ⟨false, 0, (((l ++ [b]).length : Nat) : Int) - 1⟩ = l := by
      simp only [evalSl, goSlice, Bool.false_eq_true, if_false, h2]
      simp
    simp only [dropCRG, dropCR, List.concat_eq_append]
    simp only [h1, decide_true, Bool.true_and, h2, h3, h4]
    by_cases hb : b = cr
    · subst hb
      simp [cr]
    · have : ¬ ((b.toNat : Int) = 13) := by
        intro h
        apply hb
        have : b.toNat = 13 := by omega
        exact UInt8.toNat_inj.mp (by simpa [cr] using this)
      simp [this, hb]

end Rare.C04
