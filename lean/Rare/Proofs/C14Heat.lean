import Rare.Proofs.C14Render
/-!
Sparkline and heatmap as whole renderers: no panic for every aggregated state, one cell per displayed
column (colour and ASCII modes, no columns, more columns than fit), the "(n more)" notes.
-/
namespace Rare.C14
open Rare Rare.C20

/-! ### cells are one visible cell wide -/

theorem sparkGlyph_width (env : Env) (c : Bytes) (h : IsSparkGlyph c) : strLen env c = 1 := by
  obtain ⟨g, hg, rfl⟩ := h
  have : ∀ g ∈ sparkBlocks ++ sparkAscii, strLen env (encodeRune g) = 1 := by
    obtain ⟨col, uni⟩ := env
    cases col <;> cases uni <;> decide +kernel
  exact this g (by simp [hg])

/-- what `HeatWrite` writes: one character, or one coloured block -/
def IsHeatCell (env : Env) (c : Bytes) : Prop :=
  c ∈ heatmapAscii ∨ ∃ hc ∈ heatmapColors, c = wrap env hc (encodeRune (if env.unicode then fullBlock else heatmapNonUnicode))

theorem heatCell_width (env : Env) (c : Bytes) (h : IsHeatCell env c) : strLen env c = 1 := by
  rcases h with h | ⟨hc, hhc, rfl⟩
  · have : ∀ c ∈ heatmapAscii, strLen env c = 1 := by
      obtain ⟨col, uni⟩ := env
      cases col <;> cases uni <;> decide +kernel
    exact this c h
  · have : ∀ hc ∈ heatmapColors,
        strLen env (wrap env hc (encodeRune (if env.unicode then fullBlock else heatmapNonUnicode))) = 1 := by
      obtain ⟨col, uni⟩ := env
      cases col <;> cases uni <;> decide +kernel
    exact this hc hhc

section
variable {L2 L10 : Rat → Rat}

theorem heatWrite_cell (env : Env) {u : Rat} (h0 : 0 ≤ u) (h1 : u ≤ 1) :
    ∃ b, heatWrite (ratArith L2 L10) env u = .ok b ∧ IsHeatCell env b := by
  obtain ⟨b, hb⟩ := heatWrite_ok (L2 := L2) (L10 := L10) env h0 h1
  refine ⟨b, hb, ?_⟩
  unfold heatWrite at hb
  by_cases hc : env.color
  · simp only [hc, Bool.not_true, Bool.false_eq_true, if_false, bind, Except.bind] at hb
    split at hb
    · cases hb
    · rename_i x hx
      cases hb
      exact Or.inr ⟨x, getIdx_mem hx, rfl⟩
  · simp only [hc, Bool.not_false, if_true] at hb
    exact Or.inl (getIdx_mem hb)

/-! ### heatmap -/

theorem heat_writeRow_ok (h2 : LogLike L2) (h10 : LogLike L10) (env : Env) (h : Heatmap) (vt : VirtualTerm) (ho : vt.closed = false)
    (idx : Nat) (name : Bytes) (vals : List Int) :
    ∃ h' vt' pad cells, h.writeRow (ratArith L2 L10) env vt (idx : Int) name vals = .ok (h', vt') ∧ vt'.closed = false ∧
      vt'.lines[2 + idx]? = some (wrap env cYellow name ++ writeRepeat 32 pad ++ List.flatten cells) ∧
      cells.length = vals.length ∧ (∀ cell ∈ cells, IsHeatCell env cell) ∧
      (∀ j x, j ≠ 2 + idx → vt.lines[j]? = some x → vt'.lines[j]? = some x) := by
  have key : ∀ h1 : Heatmap, h1 = (if strLen env name > h.maxRowKeyWidth then { h with maxRowKeyWidth := strLen env name } else h) →
      h.writeRow (ratArith L2 L10) env vt (idx : Int) name vals = (do
        let cells ← vals.mapM fun v => heatWrite (ratArith L2 L10) env (scale (ratArith L2 L10) h1.scaler v h1.minVal h1.maxVal)
        let vt' ← vt.writeForLine (2 + (idx : Int)) (wrap env cYellow name ++ writeRepeat 32 (h1.maxRowKeyWidth - strLen env name + 1) ++ cells.flatten)
        pure (h1, vt')) := by
    intro h1 e; subst e; rfl
  rw [key _ rfl]
  generalize (if strLen env name > h.maxRowKeyWidth then { h with maxRowKeyWidth := strLen env name } else h) = h1
  obtain ⟨cells, hcells, hlen, hall⟩ := mapM_ok_all
    (fun v => heatWrite (ratArith L2 L10) env (scale (ratArith L2 L10) h1.scaler v h1.minVal h1.maxVal)) (IsHeatCell env) vals
    (by
      intro v _
      obtain ⟨a, b⟩ := scale_bounds h2 h10 h1.scaler v h1.minVal h1.maxVal
      exact heatWrite_cell env a b)
  have hcast : (2 : Int) + (idx : Int) = ((2 + idx : Nat) : Int) := by omega
  obtain ⟨vt', hw, ho', hline, hkeep⟩ := vt_write_ok vt ho (2 + idx)
    (wrap env cYellow name ++ writeRepeat 32 (h1.maxRowKeyWidth - strLen env name + 1) ++ cells.flatten)
  refine ⟨h1, vt', _, cells, ?_, ho', hline, hlen, hall, hkeep⟩
  simp only [hcells, bind, Except.bind, hcast, hw]
  rfl

/-- the body of the row loop of `Heatmap.WriteTable` -/
def heatRowStep (A : Arith Rat) (env : Env) (rkeys : List Bytes) (c : Cells) (shownCols : List Nat)
    (st : Heatmap × VirtualTerm) (ri : Nat × Nat) : Res (Heatmap × VirtualTerm) :=
  st.1.writeRow A env st.2 ri.2 (keyAt rkeys ri.1) (shownCols.map (c.value ri.1))

/-- what a drawn heatmap row looks like: the key, padding blanks, one cell per displayed column -/
def IsHeatRow (env : Env) (key : Bytes) (ncols : Nat) (line : Bytes) : Prop :=
  ∃ pad cells, line = wrap env cYellow key ++ writeRepeat 32 pad ++ List.flatten cells ∧ cells.length = ncols ∧
    ∀ cell ∈ cells, IsHeatCell env cell

theorem heat_rows_ok (h2 : LogLike L2) (h10 : LogLike L10) (env : Env) (rkeys : List Bytes) (c : Cells) (shownCols : List Nat) :
    ∀ (l : List Nat) (b : Nat) (st : Heatmap × VirtualTerm), st.2.closed = false →
    ∃ st', (l.zipIdx b).foldlM (heatRowStep (ratArith L2 L10) env rkeys c shownCols) st = .ok st' ∧ st'.2.closed = false ∧
      (∀ (i : Nat) (r : Nat), l[i]? = some r → ∃ line, st'.2.lines[2 + (b + i)]? = some line ∧ IsHeatRow env (keyAt rkeys r) shownCols.length line) ∧
      (∀ j x, (j < 2 + b ∨ 2 + b + l.length ≤ j) → st.2.lines[j]? = some x → st'.2.lines[j]? = some x) := by
  intro l
  induction l with
  | nil =>
    intro b st ho
    exact ⟨st, rfl, ho, by intro i r h; simp at h, fun j x _ h => h⟩
  | cons r l ih =>
    intro b st ho
    obtain ⟨h1, vt1, pad, cells, hw, ho1, hline, hlen, hall, hkeep⟩ :=
      heat_writeRow_ok h2 h10 env st.1 st.2 ho b (keyAt rkeys r) (shownCols.map (c.value r))
    obtain ⟨st2, hf, ho2, hrows, hkeep2⟩ := ih (b + 1) (h1, vt1) ho1
    refine ⟨st2, ?_, ho2, ?_, ?_⟩
    · rw [List.zipIdx_cons, List.foldlM_cons]
      show (do let s ← heatRowStep (ratArith L2 L10) env rkeys c shownCols st (r, b); List.foldlM _ s _) = _
      unfold heatRowStep
      rw [hw]
      exact hf
    · intro i r' hi
      cases i with
      | zero =>
        simp at hi; subst hi
        refine ⟨_, hkeep2 (2 + b) _ (Or.inl (by omega)) hline, pad, cells, rfl, by simpa using hlen, hall⟩
      | succ i =>
        obtain ⟨line, hl, hrow⟩ := hrows i r' (by simpa using hi)
        exact ⟨line, by rw [show 2 + (b + (i + 1)) = 2 + (b + 1 + i) by omega]; exact hl, hrow⟩
    · intro j x hj hx
      apply hkeep2 j x (by simp at hj ⊢; omega)
      exact hkeep j x (by simp at hj; omega) hx

theorem heat_writeRows_eq (env : Env) (h : Heatmap) (vt : VirtualTerm) (rkeys : List Bytes) (c : Cells) (shownCols rows : List Nat) :
    h.writeRows (ratArith L2 L10) env vt rkeys c shownCols rows
      = (rows.zipIdx 0).foldlM (heatRowStep (ratArith L2 L10) env rkeys c shownCols) (h, vt) := rfl

theorem heat_updateMinMax_ok (h2 : LogLike L2) (h10 : LogLike L10) (env : Env) (h : Heatmap) (vt : VirtualTerm) (ho : vt.closed = false)
    (mn mx : Int) :
    ∃ vt', h.updateMinMax (ratArith L2 L10) env vt mn mx = .ok ({ h with minVal := mn, maxVal := mx }, vt') ∧ vt'.closed = false ∧
      (∀ j x, j ≠ 0 → vt.lines[j]? = some x → vt'.lines[j]? = some x) := by
  unfold Heatmap.updateMinMax
  obtain ⟨parts, hparts, _⟩ := mapM_ok
    (fun (x : Int × Nat) =>
      match x with
      | (item, idx) => do
        let cell ← heatWrite (ratArith L2 L10) env (scale (ratArith L2 L10) h.scaler item mn mx)
        (pure ((if idx > 0 then ascii "    " else []) ++ cell ++ [32] ++ h.fmt.apply item mn mx) : Res Bytes))
    (scaleKeys (ratArith L2 L10) h.scaler 6 mn mx).zipIdx
    (by
      intro x _
      obtain ⟨item, idx⟩ := x
      obtain ⟨a, b⟩ := scale_bounds h2 h10 h.scaler item mn mx
      obtain ⟨cell, hcell⟩ := heatWrite_ok (L2 := L2) (L10 := L10) env a b
      exact ⟨_, by simp only [hcell, bind, Except.bind]; rfl⟩)
  obtain ⟨vt', hw, ho', _, hkeep⟩ := vt_write_ok vt ho 0 (writeRepeat 32 (h.maxRowKeyWidth + 1) ++ parts.flatten)
  refine ⟨vt', ?_, ho', hkeep⟩
  simp only [bind, Except.bind] at hparts ⊢
  rw [hparts]
  simp only [Int.natCast_zero] at hw
  simp only [hw]
  rfl

/-- `WriteHeader`: the header is the loop's text, plus the column note exactly when columns are cut -/
theorem headerText_note (env : Env) (h : Heatmap) (names : List Bytes) (r : Bytes × Int) (hr : h.headerText env names = .ok r) :
    ∃ body, r.1 = (if mini (names.length : Int) h.colCount < names.length
      then body ++ wrap env cBrightBlack ([32] ++ moreNote ((names.length : Int) - h.colCount)) else body) := by
  unfold Heatmap.headerText at hr
  simp only [bind, Except.bind, pure, Except.pure] at hr
  split at hr
  · cases hr
  · rename_i body _
    cases hr
    exact ⟨body, rfl⟩

theorem sliceTo_ok {α : Type} (l : List α) (n : Int) (h0 : 0 ≤ n) (h1 : n ≤ l.length) : sliceTo l n = .ok (l.take n.toNat) := by
  unfold sliceTo; rw [if_neg (by omega)]

theorem mini_nonneg {a b : Int} (ha : 0 ≤ a) (hb : 0 ≤ b) : 0 ≤ mini a b := by unfold mini; split <;> omega
theorem mini_le_left (a b : Int) : mini a b ≤ a := by unfold mini; split <;> omega
theorem mini_le_right (a b : Int) : mini a b ≤ b := by unfold mini; split <;> omega

/-- `Heatmap.WriteTable` on ANY aggregated state (zero, negative, huge, equal values; any keys; more rows
or columns than fit; no rows or columns), any scale, colour and unicode on or off, limits ≥ 0:
it returns, every displayed row is the key, blanks and exactly one cell per DISPLAYED column
(`min(#columns, colCount)`), and the notes count exactly what is not shown. -/
theorem heat_writeTable_ok (h2 : LogLike L2) (h10 : LogLike L10) (env : Env) (h : Heatmap) (vt : VirtualTerm) (ho : vt.closed = false)
    (hrc : 0 ≤ h.rowCount) (hcc : 0 ≤ h.colCount) (rkeys ckeys : List Bytes) (c : Cells) :
    ∃ h' vt' hdr, h.writeTable (ratArith L2 L10) env vt rkeys ckeys c = .ok (h', vt') ∧ vt'.closed = false ∧
      (∀ (i : Nat) (r : Nat), (c.rows.take (mini c.rows.length h.rowCount).toNat)[i]? = some r →
        ∃ line, vt'.lines[2 + i]? = some line ∧ IsHeatRow env (keyAt rkeys r) (mini c.cols.length h.colCount).toNat line) ∧
      ((c.rows.length : Int) > mini c.rows.length h.rowCount →
        vt'.lines[2 + (mini c.rows.length h.rowCount).toNat]? =
          some (wrap env cBrightBlack (moreNote ((c.rows.length : Int) - mini c.rows.length h.rowCount))) ∧
        h'.currentRows = 3 + mini c.rows.length h.rowCount) ∧
      (¬ (c.rows.length : Int) > mini c.rows.length h.rowCount → h'.currentRows = 2 + mini c.rows.length h.rowCount) ∧
      vt'.lines[1]? = some hdr ∧
      (∃ body, hdr = (if mini (c.cols.length : Int) h.colCount < c.cols.length
        then body ++ wrap env cBrightBlack ([32] ++ moreNote ((c.cols.length : Int) - h.colCount)) else body)) := by
  -- legend
  obtain ⟨vt1, hu, ho1, _⟩ := heat_updateMinMax_ok h2 h10 env h vt ho (h.range c).1 (h.range c).2
  generalize hh1 : ({ h with minVal := (h.range c).1, maxVal := (h.range c).2 } : Heatmap) = h1 at hu
  have hrc1 : h1.rowCount = h.rowCount := by rw [← hh1]
  have hcc1 : h1.colCount = h.colCount := by rw [← hh1]
  -- header
  obtain ⟨r, hr⟩ := headerText_ok env h1 (c.cols.map (keyAt ckeys))
  have hcount := headerText_count env h1 _ r hr
  obtain ⟨body, hbody⟩ := headerText_note env h1 _ r hr
  simp only [List.length_map, hcc1] at hcount hbody
  obtain ⟨vt2, hw2, ho2, hline2, hkeep2⟩ := vt_write_ok vt1 ho1 1 r.1
  -- displayed columns
  have hc0 : 0 ≤ r.2 := by rw [hcount]; exact mini_nonneg (by omega) hcc
  have hc1 : r.2 ≤ c.cols.length := by rw [hcount]; exact mini_le_left _ _
  have hslice := sliceTo_ok c.cols r.2 hc0 hc1
  -- rows
  obtain ⟨st3, hf3, ho3, hrows3, hkeep3⟩ := heat_rows_ok h2 h10 env rkeys c (c.cols.take r.2.toNat)
    (c.rows.take (mini c.rows.length h.rowCount).toNat) 0 (h1, vt2) ho2
  have hnr0 : 0 ≤ mini (c.rows.length : Int) h.rowCount := mini_nonneg (by omega) hrc
  have hnr1 := mini_le_left (c.rows.length : Int) h.rowCount
  have htl : (c.rows.take (mini (c.rows.length : Int) h.rowCount).toNat).length = (mini (c.rows.length : Int) h.rowCount).toNat := by
    rw [List.length_take]; omega
  have hncols : (c.cols.take r.2.toNat).length = (mini (c.cols.length : Int) h.colCount).toNat := by
    rw [List.length_take, hcount]; omega
  have hmain : h.writeTable (ratArith L2 L10) env vt rkeys ckeys c =
      st3.1.writeRowsNote env st3.2 c.rows.length (mini c.rows.length h.rowCount) := by
    unfold Heatmap.writeTable
    simp only [hu, bind, Except.bind, hr]
    have : (1 : Int) = ((1 : Nat) : Int) := rfl
    rw [this, hw2]
    simp only [hslice, hrc1, heat_writeRows_eq, hf3]
  rw [hmain]
  unfold Heatmap.writeRowsNote
  have hrow : ∀ (i : Nat) (r' : Nat), (c.rows.take (mini (c.rows.length : Int) h.rowCount).toNat)[i]? = some r' →
      ∃ line, st3.2.lines[2 + i]? = some line ∧ IsHeatRow env (keyAt rkeys r') (mini (c.cols.length : Int) h.colCount).toNat line := by
    intro i r' hi
    obtain ⟨line, hl, hrow⟩ := hrows3 i r' hi
    rw [hncols] at hrow
    exact ⟨line, by simpa using hl, hrow⟩
  have hhdr : st3.2.lines[1]? = some r.1 := hkeep3 1 _ (Or.inl (by omega)) hline2
  by_cases hmore : (c.rows.length : Int) > mini c.rows.length h.rowCount
  · rw [if_pos hmore]
    have hcast : (2 : Int) + mini (c.rows.length : Int) h.rowCount = ((2 + (mini (c.rows.length : Int) h.rowCount).toNat : Nat) : Int) := by omega
    obtain ⟨vt4, hw4, ho4, hline4, hkeep4⟩ := vt_write_ok st3.2 ho3 (2 + (mini (c.rows.length : Int) h.rowCount).toNat)
      (wrap env cBrightBlack (moreNote ((c.rows.length : Int) - mini c.rows.length h.rowCount)))
    refine ⟨_, vt4, r.1, by rw [hcast, hw4]; rfl, ho4, ?_, fun _ => ⟨hline4, rfl⟩, fun hn => absurd hmore hn, ?_, body, hbody⟩
    · intro i r' hi
      obtain ⟨line, hl, hrow⟩ := hrow i r' hi
      have hil : i < (mini (c.rows.length : Int) h.rowCount).toNat := by
        rcases Nat.lt_or_ge i (c.rows.take (mini (c.rows.length : Int) h.rowCount).toNat).length with hh | hh
        · rw [htl] at hh; exact hh
        · rw [List.getElem?_eq_none hh] at hi; cases hi
      exact ⟨line, hkeep4 _ _ (by omega) hl, hrow⟩
    · exact hkeep4 1 _ (by omega) hhdr
  · rw [if_neg hmore]
    exact ⟨_, st3.2, r.1, rfl, ho3, hrow, fun hm => absurd hm hmore, fun _ => rfl, hhdr, body, hbody⟩

/-! ### sparkline -/

theorem mapM_eq_map {α β : Type} (f : α → Res β) (g : α → β) (l : List α) (h : ∀ x ∈ l, f x = .ok (g x)) :
    l.mapM f = .ok (l.map g) := by
  induction l with
  | nil => rfl
  | cons x r ih =>
    rw [List.mapM_cons, h x (by simp), ih (fun z hz => h z (by simp [hz]))]
    rfl

/-- the cells of a sparkline row: key, first value, one glyph per displayed column, last value -/
def IsSparkRow (env : Env) (s : Spark) (rkeys : List Bytes) (c : Cells) (colIdx : List Nat) (r : Nat) (row : List Bytes) : Prop :=
  ∃ cells first last, row = [wrap env cYellow (keyAt rkeys r), wrap env cBrightBlack first, List.flatten cells, wrap env cBrightBlack last] ∧
    cells.length = colIdx.length ∧ (∀ cell ∈ cells, IsSparkGlyph cell) ∧
    (∀ f l, colIdx.head? = some f → colIdx.getLast? = some l →
      first = s.fmt.apply (c.value r f) c.minMax.1 c.minMax.2 ∧ last = s.fmt.apply (c.value r l) c.minMax.1 c.minMax.2)

theorem spark_rowCells_ok (h2 : LogLike L2) (h10 : LogLike L10) (env : Env) (s : Spark) (rkeys : List Bytes) (c : Cells)
    (colIdx : List Nat) (r : Nat) :
    ∃ row, s.rowCells (ratArith L2 L10) env rkeys c colIdx c.minMax.1 c.minMax.2 r = .ok row ∧ IsSparkRow env s rkeys c colIdx r row := by
  unfold Spark.rowCells
  obtain ⟨cells, hc, hlen, hall⟩ := sparkCells_ok h2 h10 env s.scaler (colIdx.map (c.value r)) c.minMax.1 c.minMax.2
  simp only [hc, bind, Except.bind, pure, Except.pure]
  refine ⟨_, rfl, cells, _, _, rfl, by simpa using hlen, hall, ?_⟩
  intro f l hf hl
  simp [hf, hl]

theorem spark_shownCols_ok (s : Spark) (hcc : 0 ≤ s.colCount) (c : Cells) :
    ∃ colIdx, s.shownCols c = .ok colIdx ∧ (colIdx.length : Int) = mini c.cols.length s.colCount := by
  unfold Spark.shownCols
  simp only
  split
  · rename_i hgt
    unfold sliceFrom
    rw [if_neg (by omega)]
    refine ⟨_, rfl, ?_⟩
    rw [List.length_drop]; unfold mini; split <;> omega
  · rename_i hle
    refine ⟨_, rfl, ?_⟩
    unfold mini; split <;> omega

theorem runOps_append (env : Env) (st : TableWriter × VirtualTerm) (a b : List TableOp) :
    TableWriter.runOps env st (a ++ b) = (do let st' ← TableWriter.runOps env st a; TableWriter.runOps env st' b) := by
  unfold TableWriter.runOps; rw [List.foldlM_append]

/-- `Spark.WriteTable` on ANY aggregated state, any scale, colour/unicode on or off, limits ≥ 0: it returns,
the table invariant holds (columns line up), every displayed row has exactly one glyph per DISPLAYED
column (`min(#columns, colCount)`, none for 0) and the first/last values under the formatter, and the
rows note counts exactly the rows not shown -/
theorem spark_writeTable_ok (h2 : LogLike L2) (h10 : LogLike L10) (env : Env) (s : Spark) (vt : VirtualTerm)
    (hinv : TableInv env s.table vt) (hrc : 0 ≤ s.rowCount) (hcc : 0 ≤ s.colCount) (hmr : s.table.maxRows = s.rowCount + 1)
    (rkeys ckeys : List Bytes) (c : Cells) :
    ∃ s' vt' colIdx, s.writeTable (ratArith L2 L10) env vt rkeys ckeys c = .ok (s', vt') ∧ TableInv env s'.table vt' ∧
      s.shownCols c = .ok colIdx ∧ (colIdx.length : Int) = mini c.cols.length s.colCount ∧
      (∀ (i : Nat) (r : Nat), (s.shownRows c)[i]? = some r →
        ∃ row, s'.table.rows[i + 1]? = some row ∧ IsSparkRow env s rkeys c colIdx r row) ∧
      ((c.rows.length : Int) > mini c.rows.length s.rowCount →
        s'.footerOffset = 1 ∧ vt'.lines[s'.table.activeRows.toNat]? =
          some (wrap env cBrightBlack (moreNote ((c.rows.length : Int) - mini c.rows.length s.rowCount)))) ∧
      (¬ (c.rows.length : Int) > mini c.rows.length s.rowCount → s'.footerOffset = 0) := by
  obtain ⟨colIdx, hcols, hncols⟩ := spark_shownCols_ok s hcc c
  -- a total version of the row cells
  let g : Nat → List Bytes := fun r =>
    match s.rowCells (ratArith L2 L10) env rkeys c colIdx c.minMax.1 c.minMax.2 r with
    | .ok row => row
    | .error _ => []
  have hg : ∀ r, s.rowCells (ratArith L2 L10) env rkeys c colIdx c.minMax.1 c.minMax.2 r = .ok (g r) ∧ IsSparkRow env s rkeys c colIdx r (g r) := by
    intro r
    obtain ⟨row, hrow, hsr⟩ := spark_rowCells_ok h2 h10 env s rkeys c colIdx r
    have : g r = row := by show (match s.rowCells _ env rkeys c colIdx c.minMax.1 c.minMax.2 r with | .ok row => row | .error _ => []) = row; rw [hrow]
    rw [this]; exact ⟨hrow, hsr⟩
  let hdr : List TableOp := Spark.headerOps env (colIdx.map (keyAt ckeys))
  let rowOps : List TableOp := (s.shownRows c).zipIdx.map fun (ri : Nat × Nat) => TableOp.row ((ri.2 : Int) + 1) (g ri.1)
  have hrowOps : (s.shownRows c).zipIdx.mapM (s.rowOp (ratArith L2 L10) env rkeys c colIdx) = .ok rowOps := by
    apply mapM_eq_map
    intro x _
    unfold Spark.rowOp
    rw [(hg x.1).1]; rfl
  have hscript : s.script (ratArith L2 L10) env rkeys ckeys c = .ok (hdr ++ rowOps ++ (s.noteOps env c).1, (s.noteOps env c).2) := by
    unfold Spark.script
    rw [hcols]
    show (do let rowOps ← (s.shownRows c).zipIdx.mapM (s.rowOp (ratArith L2 L10) env rkeys c colIdx)
             (pure (Spark.headerOps env (colIdx.map (keyAt ckeys)) ++ rowOps ++ (s.noteOps env c).1, (s.noteOps env c).2) : Res (List TableOp × Int))) = _
    rw [hrowOps]; rfl
  have hnr0 : 0 ≤ mini (c.rows.length : Int) s.rowCount := mini_nonneg (by omega) hrc
  have hnr1 := mini_le_left (c.rows.length : Int) s.rowCount
  have hshl : ((s.shownRows c).length : Int) = mini c.rows.length s.rowCount := by
    unfold Spark.shownRows; rw [List.length_take]; omega
  have hnn1 : ∀ op ∈ hdr ++ rowOps, op.NonNeg := by
    intro op hop
    rcases List.mem_append.mp hop with hop | hop
    · show op.NonNeg
      have : op ∈ (if (colIdx.map (keyAt ckeys)).length > 0 then [TableOp.row 0 (Spark.headerCells env (colIdx.map (keyAt ckeys)))] else []) := hop
      split at this
      · simp only [List.mem_singleton] at this; subst this; exact Int.le_refl 0
      · simp at this
    · exact rowOps_nonneg g _ 0 op hop
  obtain ⟨t1, vt1, hrun1, hinv1, _, hmr1, _, _, hrows1⟩ := runOps_inv env (hdr ++ rowOps) s.table vt hinv hnn1
  have hrl := hinv.rows_len
  have hrowsAt : ∀ (i : Nat) (r : Nat), (s.shownRows c)[i]? = some r → t1.rows[i + 1]? = some (g r) := by
    intro i r hi
    have hil : i < (s.shownRows c).length := by
      rcases Nat.lt_or_ge i (s.shownRows c).length with hh | hh
      · exact hh
      · rw [List.getElem?_eq_none hh] at hi; cases hi
    have hle := mini_le_right (c.rows.length : Int) s.rowCount
    rw [hrows1, rowsAfter_get s.table.maxRows (i + 1) (by omega) _ s.table.rows (by omega) hnn1]
    congr 1
    rw [latestRow_append]
    have h2' := latestRow_seq g (s.shownRows c) 0 i r hi
    rw [show 0 + i + 1 = i + 1 by omega] at h2'
    show ((latestRow rowOps (i + 1)).orElse fun _ => latestRow hdr (i + 1)).getD _ = _
    rw [h2']; rfl
  have hwt : s.writeTable (ratArith L2 L10) env vt rkeys ckeys c = (do
      let r ← TableWriter.runOps env (t1, vt1) (s.noteOps env c).1
      (pure ({ s with table := r.1, footerOffset := (s.noteOps env c).2 }, r.2) : Res (Spark × VirtualTerm))) := by
    unfold Spark.writeTable
    rw [hscript]
    show (do let r ← TableWriter.runOps env (s.table, vt) (hdr ++ rowOps ++ (s.noteOps env c).1)
             (pure ({ s with table := r.1, footerOffset := (s.noteOps env c).2 }, r.2) : Res (Spark × VirtualTerm))) = _
    rw [runOps_append, hrun1]; rfl
  rw [hwt]
  by_cases hmore : (c.rows.length : Int) > mini c.rows.length s.rowCount
  · -- with the note
    have hnote : s.noteOps env c = ([TableOp.footer 0 (wrap env cBrightBlack (moreNote ((c.rows.length : Int) - mini c.rows.length s.rowCount)))], 1) := by
      unfold Spark.noteOps; simp only; rw [if_pos hmore]
    obtain ⟨vt2, hw2, hinv2, hline2⟩ := writeFooter_inv env t1 vt1 hinv1 0
      (wrap env cBrightBlack (moreNote ((c.rows.length : Int) - mini c.rows.length s.rowCount)))
    refine ⟨{ s with table := t1, footerOffset := 1 }, vt2, colIdx, ?_, hinv2, hcols, hncols, ?_, fun _ => ⟨rfl, by simpa using hline2⟩, fun hn => absurd hmore hn⟩
    · rw [hnote]
      unfold TableWriter.runOps
      rw [foldlM_singleton]
      show (do let r ← (do let v ← t1.writeFooter vt1 0 _; (pure (t1, v) : Res (TableWriter × VirtualTerm)))
               (pure ({ s with table := r.1, footerOffset := 1 }, r.2) : Res (Spark × VirtualTerm))) = _
      simp only [Int.natCast_zero] at hw2
      rw [hw2]; rfl
    · intro i r hi
      exact ⟨g r, hrowsAt i r hi, (hg r).2⟩
  · have hnote : s.noteOps env c = ([], 0) := by
      unfold Spark.noteOps; simp only; rw [if_neg hmore]
    refine ⟨{ s with table := t1, footerOffset := 0 }, vt1, colIdx, ?_, hinv1, hcols, hncols, ?_, fun hm => absurd hm hmore, fun _ => rfl⟩
    · rw [hnote]; rfl
    · intro i r hi
      exact ⟨g r, hrowsAt i r hi, (hg r).2⟩

/-! ### histogram and bar graph lines: the number shown -/

theorem barWrite_ok50 (env : Env) {u : Rat} (h0 : 0 ≤ u) (h1 : u ≤ 1) : ∃ b, barWrite (ratArith L2 L10) env u 50 = .ok b := by
  obtain ⟨rs, hrs, _⟩ := barWriteR_ok (L2 := L2) (L10 := L10) env h0 h1 (maxLen := 50) (by omega) (by omega)
  exact ⟨_, by unfold barWrite; rw [hrs]; rfl⟩

/-- a histogram line: the key column, then the count under the formatter with the CURRENT maximum -/
def Histo.lineHead (env : Env) (h : Histo) (key : Bytes) (val : Int) : Bytes :=
  wrap env cYellow (padVis env key h.textSpacing) ++ ascii "    " ++ padRight (h.fmt.apply val 0 h.maxVal) 10

/-- `HistoWriter.writeLine` never panics, and the line it writes starts with the key and `Formatter(val, 0, maxVal)` -/
theorem histo_writeLine_ok (h2 : LogLike L2) (h10 : LogLike L10) (env : Env) (h : Histo) (vt : VirtualTerm) (ho : vt.closed = false)
    (line : Nat) (key : Bytes) (val : Int) :
    ∃ vt' tail, h.writeLine (ratArith L2 L10) env vt (line : Int) key val = .ok vt' ∧ vt'.closed = false ∧
      vt'.lines[line]? = some (h.lineHead env key val ++ tail) ∧
      (∀ j x, j ≠ line → vt.lines[j]? = some x → vt'.lines[j]? = some x) := by
  unfold Histo.writeLine
  simp only
  split
  · obtain ⟨a, b⟩ := scale_bounds h2 h10 h.scaler val 0 h.maxVal
    obtain ⟨bar, hbar⟩ := barWrite_ok50 (L2 := L2) (L10 := L10) env a b
    simp only [hbar, bind, Except.bind]
    obtain ⟨vt', hw, ho', hl, hk⟩ := vt_write_ok vt ho line
      ((if h.showPct = true ∧ h.total > 0 then
          wrap env cYellow (padVis env key h.textSpacing) ++ ascii "    " ++ padRight (h.fmt.apply val 0 h.maxVal) 10 ++ [32] ++ wrap env cCyan pctText
        else wrap env cYellow (padVis env key h.textSpacing) ++ ascii "    " ++ padRight (h.fmt.apply val 0 h.maxVal) 10) ++ [32] ++ colorWrite env cBlue bar)
    refine ⟨vt', (if h.showPct = true ∧ h.total > 0 then [32] ++ wrap env cCyan pctText else []) ++ [32] ++ colorWrite env cBlue bar,
      hw, ho', ?_, hk⟩
    rw [hl]
    unfold Histo.lineHead
    split <;> simp [List.append_assoc]
  · obtain ⟨vt', hw, ho', hl, hk⟩ := vt_write_ok vt ho line
      (if h.showPct = true ∧ h.total > 0 then
          wrap env cYellow (padVis env key h.textSpacing) ++ ascii "    " ++ padRight (h.fmt.apply val 0 h.maxVal) 10 ++ [32] ++ wrap env cCyan pctText
        else wrap env cYellow (padVis env key h.textSpacing) ++ ascii "    " ++ padRight (h.fmt.apply val 0 h.maxVal) 10)
    refine ⟨vt', (if h.showPct = true ∧ h.total > 0 then [32] ++ wrap env cCyan pctText else []), hw, ho', ?_, hk⟩
    rw [hl]
    unfold Histo.lineHead
    split <;> simp [List.append_assoc]

/-- `BarGraph.writeBarStacked` never panics; the line ends with the row total under the formatter and the
CURRENT running maximum (raised first when this row's drawn sum exceeds it) -/
theorem bars_stacked_line (env : Env) (g : BarGraph) (vt : VirtualTerm) (ho : vt.closed = false) (idx : Nat) (key : Bytes) (vals : List Int)
    (hp : 0 ≤ g.prefixLines) (hsm : g.prefixLines < 9223372036854775808 - idx) :
    ∃ g' vt' pre, g.writeBarStacked env vt (idx : Int) key vals = .ok (g', vt') ∧ vt'.closed = false ∧
      g'.maxLineVal = (if sumPositive vals > g.maxLineVal then sumPositive vals else g.maxLineVal) ∧
      vt'.lines[idx + g.prefixLines.toNat]? = some (pre ++ ascii "  " ++ g'.fmt.apply (sumWrap vals) 0 g'.maxLineVal) := by
  unfold BarGraph.writeBarStacked
  simp only
  generalize hg1 : (if sumPositive vals > g.maxLineVal then { g with maxLineVal := sumPositive vals } else g) = g1
  have hg1m : g1.maxLineVal = (if sumPositive vals > g.maxLineVal then sumPositive vals else g.maxLineVal) := by
    rw [← hg1]; split <;> rfl
  have hg1p : g1.prefixLines = g.prefixLines := by rw [← hg1]; split <;> rfl
  have hg1f : g1.fmt = g.fmt := by rw [← hg1]; split <;> rfl
  obtain ⟨bar, hbar⟩ := barWriteStacked_ok env g1.maxLineVal g1.barSize vals
  have hwrap : wrap64 ((idx : Int) + g1.prefixLines) = ((idx + g.prefixLines.toNat : Nat) : Int) := by
    rw [hg1p, wrap64_small (by omega) (by omega)]; omega
  obtain ⟨vt', hw, ho', hl, _⟩ := vt_write_ok vt ho (idx + g.prefixLines.toNat)
    (wrap env cYellow (padVis env key g1.maxKeyLength) ++ ascii "  " ++ bar ++ ascii "  " ++ g1.fmt.apply (sumWrap vals) 0 g1.maxLineVal)
  generalize hg2 : (if wrap64 ((idx : Int) + g1.prefixLines) + 1 > g1.maxRows then { g1 with maxRows := wrap64 ((idx : Int) + g1.prefixLines) + 1 } else g1) = g2
  have hg2m : g2.maxLineVal = g1.maxLineVal := by rw [← hg2]; split <;> rfl
  have hg2f : g2.fmt = g1.fmt := by rw [← hg2]; split <;> rfl
  have hg2k : g2.maxKeyLength = g1.maxKeyLength := by rw [← hg2]; split <;> rfl
  have hg2b : g2.barSize = g1.barSize := by rw [← hg2]; split <;> rfl
  refine ⟨g2, vt', wrap env cYellow (padVis env key g1.maxKeyLength) ++ ascii "  " ++ bar, ?_, ho', by rw [hg2m, hg1m], ?_⟩
  · simp only [hg2m, hg2f, hg2b, hbar, bind, Except.bind, hwrap, hw]
    rfl
  · rw [hl, hg2m, hg2f]

/-! ### the sparkline header spans the sparkline (c54b92c) -/

theorem codeState_fill (r : Nat) (hr : r ≠ 27) (k : Nat) : codeState false (List.replicate k r) = false := by
  induction k with
  | zero => rfl
  | succ k ih => simp [List.replicate_succ, codeState, hr, ih]

theorem strLenGo_fill (r : Nat) (hr : r ≠ 27) (k : Nat) (rest : List Nat) (n : Nat) :
    strLenGo false (List.replicate k r ++ rest) n = strLenGo false rest (n + k) := by
  induction k generalizing n with
  | zero => simp
  | succ k ih =>
    simp only [List.replicate_succ, List.cons_append, strLenGo, hr, if_false, Bool.false_and, Bool.false_eq_true, Bool.not_false, if_true]
    rw [ih]; congr 1; omega

/-- a text, then at least one ASCII filler character, then anything: the visible widths add up -/
theorem strLen_fill_append (env : Env) (x : UInt8) (hx : x.toNat < 0x80) (hne : x.toNat ≠ 27) (c : Bytes) (m : Nat) (rest : Bytes)
    (ht : Terminated env c) :
    strLen env (c ++ List.replicate (m + 1) x ++ rest) = strLen env c + (m + 1 : Nat) + strLen env rest := by
  have hd : decodeUtf8 (c ++ List.replicate (m + 1) x ++ rest)
      = decodeUtf8 c ++ List.replicate (m + 1) x.toNat ++ decodeUtf8 rest := by
    rw [List.replicate_succ, List.append_assoc, List.cons_append, decodeUtf8_before_ascii c x hx]
    rw [decodeUtf8_asciiList _ (by intro y hy; rw [List.eq_of_mem_replicate hy]; exact hx)]
    simp [List.replicate_succ]
  unfold strLen
  rw [hd]
  by_cases hcol : env.color
  · have ht' := ht hcol
    simp only [hcol, Bool.not_true, Bool.false_eq_true, if_false]
    rw [List.append_assoc, strLenGo_append, ht', strLenGo_fill _ hne, strLenGo_acc]
    omega
  · simp only [hcol, Bool.not_false, if_true]
    simp only [List.length_append, List.length_replicate]
    omega

theorem writeRepeat_dots (n : Nat) : writeRepeat 46 (n : Int) = List.replicate n (46 : UInt8) := by
  unfold writeRepeat
  have : encodeRune 46 = [46] := by decide
  rw [this, Int.toNat_natCast]
  induction n with
  | zero => rfl
  | succ n ih => simp [List.replicate_succ, ih]

/-- when the first and the last column name fit next to each other, the `First...Last` text is exactly as
wide as the sparkline below it (one cell per displayed column), so the last name ends above the last
column – for multi-byte names too (c54b92c); otherwise it is the two names back to back -/
theorem spark_header_spans (env : Env) (names : List Bytes) (ht : Terminated env names.head!)
    (hfit : strLen env names.head! + strLen env names.getLast! < names.length) :
    strLen env (sparkHeaderText env names) = names.length := by
  unfold sparkHeaderText
  simp only
  have h1 := strLen_nonneg env names.head!
  have h2 := strLen_nonneg env names.getLast!
  rw [if_neg (by omega)]
  obtain ⟨m, hm⟩ : ∃ m : Nat, (names.length : Int) - strLen env names.head! - strLen env names.getLast! = ((m + 1 : Nat) : Int) :=
    ⟨((names.length : Int) - strLen env names.head! - strLen env names.getLast!).toNat - 1, by omega⟩
  rw [hm, writeRepeat_dots, strLen_fill_append env 46 (by decide) (by decide) _ m _ ht]
  omega

end
end Rare.C14
