import Rare.Proofs.C20Trim
import Rare.Proofs.C20Utf8
import Rare.Proofs.C20Term
/-! C20: the writer's bytes, piece by piece, through the reference terminal. -/
namespace Rare.C20

/-- hypotheses on a text: printable runes and SGR colour sequences only; with trimming off it
must fit and be well-formed UTF-8 -/
def TextOK (W : Nat) (trim : Bool) (txt : Bytes) : Prop :=
  ∃ toks : List Tok, (∀ t ∈ toks, t.Printable) ∧ decodeUtf8 txt = renderToks toks ∧
    (trim = false → (visToks toks).length ≤ W ∧ ValidUtf8 txt)

theorem feedBytes_append (t : Term) (a b : Bytes) (ha : Clean a) :
    t.feedBytes (a ++ b) = (t.feedBytes a).feedBytes b := by
  simp [Term.feedBytes, ha b, feed_append]

theorem feedBytes_nil (t : Term) : t.feedBytes [] = t := rfl

/-! ### tokens -/

theorem rtok_hand (t : Tok) : rtok handEsc t = t.render := by cases t <;> rfl

theorem rtoks_hand (ts : List Tok) : rtoks handEsc ts = renderToks ts := by
  have : rtok handEsc = Tok.render := funext rtok_hand
  simp [rtoks, renderToks, this]

theorem printable_scannable (t : Tok) (h : t.Printable) : TokScannable handEsc t := by
  cases t with
  | ch r =>
    have h' : 32 ≤ r ∧ r ≠ 127 := h
    show r ≠ 27
    omega
  | sgr b =>
    obtain ⟨p, hb, hp⟩ := h
    show (109 : Nat) ∉ b
    subst hb
    intro hm
    simp at hm
    have := hp 109 hm
    omega

theorem trimToks_mem (cols : Int) (toks : List Tok) : ∀ vis, ∀ t ∈ trimToks cols vis toks, t ∈ toks := by
  intro vis t ht
  obtain ⟨rest, hr⟩ := trimToks_prefix cols toks vis
  rw [hr]; exact List.mem_append_left _ ht

/-- trimmed runes of a well-formed text are the rendering of the trimmed tokens -/
theorem trimRunes_toks (cols : Int) (toks : List Tok) (h : ∀ t ∈ toks, t.Printable) :
    trimRunes handEsc cols (renderToks toks) = renderToks (trimToks cols 0 toks) := by
  have hs : ∀ t ∈ toks, TokScannable handEsc t := fun t ht => printable_scannable t (h t ht)
  have := trimGo_toks handEsc (by decide) cols toks 0 hs
  rw [rtoks_hand, rtoks_hand] at this
  unfold trimRunes
  rw [this]
  obtain ⟨rest, hr⟩ := trimToks_prefix cols toks 0
  have : renderToks toks = renderToks (trimToks cols 0 toks) ++ renderToks rest := by
    conv => lhs; rw [hr]
    simp [renderToks]
  rw [this]; simp

theorem visibleRunes_toks (toks : List Tok) (h : ∀ t ∈ toks, t.Printable) :
    visibleRunes (renderToks toks) = visToks toks := by
  induction toks with
  | nil => simp [renderToks, visToks, visibleRunes]
  | cons t ts ih =>
    have ih' := ih (fun t ht => h t (by simp [ht]))
    have ht := h t (by simp)
    cases t with
    | ch r =>
      have h' : 32 ≤ r ∧ r ≠ 127 := ht
      have : r ≠ ESC := by unfold ESC; omega
      simp [renderToks_cons, visToks_cons, Tok.render, Tok.vis, visibleRunes, this, ih']
    | sgr b =>
      obtain ⟨p, hb, hp⟩ := ht
      subst hb
      have hskip : ∀ (q : List Nat), (∀ c ∈ q, 48 ≤ c ∧ c ≤ 59) → ∀ R, visibleRunes.skipSgr (q ++ 109 :: R) = visibleRunes R := by
        intro q
        induction q with
        | nil => intro _ R; simp [visibleRunes.skipSgr]
        | cons c q ihq =>
          intro hq R
          have hc := hq c (by simp)
          have : c ≠ 109 := by omega
          simp [visibleRunes.skipSgr, this, ihq (fun x hx => hq x (by simp [hx]))]
      have h91 : (91 : Nat) ≠ 109 := by decide
      simp [renderToks_cons, visToks_cons, Tok.render, Tok.vis, visibleRunes, ESC, visibleRunes.skipSgr, h91, hskip p hp, ih']

/-! ### the text piece -/

/-- What `WriteLineNoWrap` writes for an admissible text: self-delimiting bytes that decode to
printable tokens whose visible part is exactly `shown`, no longer than the width. -/
theorem piece_spec (W : Nat) (trim : Bool) (txt : Bytes) (h : TextOK W trim txt) :
    ∃ toks' : List Tok, (∀ t ∈ toks', t.Printable) ∧
      Clean (writeLineNoWrap handEsc trim W txt) ∧
      decodeUtf8 (writeLineNoWrap handEsc trim W txt) = renderToks toks' ∧
      visToks toks' = shown W trim txt ∧ (visToks toks').length ≤ W := by
  obtain ⟨toks, hp, hd, hfit⟩ := h
  cases trim with
  | false =>
    obtain ⟨hl, hv⟩ := hfit rfl
    refine ⟨toks, hp, ?_, ?_, ?_, hl⟩
    · simp only [writeLineNoWrap, Bool.not_false, if_true]
      rw [← hv]; exact Clean.encode _ (decodeUtf8_valid txt)
    · simpa [writeLineNoWrap] using hd
    · simp [shown, hd, visibleRunes_toks toks hp]
  | true =>
    have hvalid : ∀ r ∈ renderToks (trimToks W 0 toks), validScalar r := by
      intro r hr
      obtain ⟨rest, hrest⟩ := trimToks_prefix W toks 0
      apply decodeUtf8_valid txt
      rw [hd, hrest]
      simp [renderToks] at hr ⊢
      exact Or.inl hr
    have hw : writeLineNoWrap handEsc true W txt = encodeUtf8 (renderToks (trimToks W 0 toks)) := by
      simp [writeLineNoWrap, hd, trimRunes_toks W toks hp]
    have hp' : ∀ t ∈ trimToks W 0 toks, t.Printable := fun t ht => hp t (trimToks_mem W toks 0 t ht)
    refine ⟨trimToks W 0 toks, hp', ?_, ?_, ?_, ?_⟩
    · rw [hw]; exact Clean.encode _ hvalid
    · rw [hw]; exact decodeUtf8_encodeUtf8 _ hvalid
    · have := visToks_trimToks W toks 0 (by omega)
      simp [shown, hd, visibleRunes_toks toks hp, this]
    · have := trimToks_vis_le W toks 0 (by omega)
      omega

/-! ### tokens through the terminal -/

theorem step_printable_ground (t : Term) (h : t.ps = .ground) (r : Nat) (hr : 32 ≤ r ∧ r ≠ 127) :
    (t.step r).ps = .ground := by
  obtain ⟨w, ht, o, rows, row, col, vis, ps⟩ := t
  simp only at h; subst h
  have h1 : r ≠ ESC := by unfold ESC; omega
  have h2 : r ≠ LF := by unfold LF; omega
  have h3 : r ≠ CR := by unfold CR; omega
  have h4 : ¬ (r < 32 ∨ r = 127) := by omega
  simp only [Term.step, h1, h2, h3, h4, if_false, Term.putChar]
  split <;> simp [Term.down] <;> split <;> rfl

theorem feed_toks (toks : List Tok) (hp : ∀ t ∈ toks, t.Printable) :
    ∀ (t : Term), t.ps = .ground → t.feed (renderToks toks) = t.feed (visToks toks) := by
  induction toks with
  | nil => intro t _; rfl
  | cons k ks ih =>
    intro t h
    have hk := hp k (by simp)
    have ih' := ih (fun t ht => hp t (by simp [ht]))
    cases k with
    | ch r =>
      have h' : 32 ≤ r ∧ r ≠ 127 := hk
      simp only [renderToks_cons, visToks_cons, Tok.render, Tok.vis, List.singleton_append, feed_cons]
      exact ih' _ (step_printable_ground t h r h')
    | sgr b =>
      obtain ⟨p, hb, hpp⟩ := hk
      subst hb
      have : t.feed (Tok.render (Tok.sgr (91 :: p))) = t := feed_sgr t h p hpp
      rw [renderToks_cons, visToks_cons, feed_append, this]
      exact ih' t h

theorem toks_vis_printable (toks : List Tok) (hp : ∀ t ∈ toks, t.Printable) :
    ∀ r ∈ visToks toks, 32 ≤ r ∧ r ≠ 127 := by
  intro r hr
  simp only [visToks, List.mem_flatMap] at hr
  obtain ⟨k, hk, hrk⟩ := hr
  cases k with
  | ch x =>
    simp [Tok.vis] at hrk; subst hrk
    exact hp _ hk
  | sgr b => simp [Tok.vis] at hrk

/-- write a line at the cursor (column 0) and erase the rest: the row is exactly the visible text -/
theorem feed_line (toks : List Tok) (hp : ∀ t ∈ toks, t.Printable) (t : Term) (h : t.ps = .ground)
    (hc : t.col = 0) (hfit : (visToks toks).length ≤ t.width) :
    t.feed (renderToks toks ++ [27, 91, 48, 75]) =
      { t with rows := setRow t.rows t.row (visToks toks), col := (visToks toks).length } := by
  rw [feed_append, feed_toks toks hp t h,
    feed_printables (visToks toks) (toks_vis_printable toks hp) t h (by omega)]
  rw [feed_erase _ (by simpa using h)]
  obtain ⟨w, ht, o, rows, row, col, vis, ps⟩ := t
  simp only at hc; subst hc
  have := writeCells_take (visToks toks) (rows row) 0 (by omega)
  simp only [Nat.zero_add, List.take_zero, List.nil_append] at this
  simp [Term.eraseToEol, setRow_at, setRow_same, this]

end Rare.C20
