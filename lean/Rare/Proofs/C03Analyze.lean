import Rare.Proofs.C07NumF64
import Rare.Proofs.C07Num
import Rare.Model.C03Analyze
/-! Helper lemmas for the `rare analyze` theorems of C03: what a permutation of the sample history cannot change. -/
namespace Rare.C03
open Rare.C07 Rare.F64

/-- A sample value whose bit pattern is determined by its place in the float order: not NaN, not `-0`. -/
def Ordinary (x : F64) : Prop := x.isNaN = false ∧ x ≠ F64.zero true

instance (x : F64) : Decidable (Ordinary x) := by unfold Ordinary; exact inferInstance

theorem f64_ext {x y : F64} (h : x.bits = y.bits) : x = y := by
  cases x; cases y; simp only [F64.mk.injEq]; exact h

theorem bits_eq_sign_mag (x : F64) : x.bits = (if x.sign then P63 else 0) + x.mag := by
  have := x.hlt
  unfold F64.sign F64.mag
  by_cases h : P63 ≤ x.bits
  · simp only [h, decide_true, if_true]; omega
  · simp only [h, decide_false, Bool.false_eq_true, if_false]; omega

theorem zero_true_iff (x : F64) : x = F64.zero true ↔ x.sign = true ∧ x.mag = 0 := by
  constructor
  · intro h; subst h; decide
  · intro ⟨h1, h2⟩
    apply f64_ext
    rw [bits_eq_sign_mag, h1, h2]
    decide

/-- On ordinary values the sort key is injective. -/
theorem skey_inj {x y : F64} (hx : Ordinary x) (hy : Ordinary y) (h : skey x = skey y) : x = y := by
  rw [skey_of_not_nan hx.1, skey_of_not_nan hy.1] at h
  have bx := bits_eq_sign_mag x
  have b := bits_eq_sign_mag y
  have nx : ¬ (x.sign = true ∧ x.mag = 0) := fun hh => hx.2 ((zero_true_iff x).mpr hh)
  have ny : ¬ (y.sign = true ∧ y.mag = 0) := fun hh => hy.2 ((zero_true_iff y).mpr hh)
  apply f64_ext
  unfold F64.key at h
  cases hsx : x.sign <;> cases hsy : y.sign
  all_goals (rw [hsx] at bx nx h; rw [hsy] at b ny h)
  all_goals simp only [if_true, if_false, Bool.false_eq_true, true_and, false_and, not_false_eq_true] at h bx b nx ny
  all_goals omega

/-- The sorted arrangement of ordinary samples is unique, whatever (unstable) algorithm produced it and in
whatever order the samples arrived. -/
theorem sorted_unique_ordinary (rev : Bool) (s s' l l' : List F64) (hp : l.Perm l')
    (h : IsSortedF rev s l) (h' : IsSortedF rev s' l') (ho : ∀ x ∈ l, Ordinary x) : s = s' := by
  have h2 : IsSortedF rev s' l := ⟨h'.1.trans hp.symm, h'.2⟩
  have e := sorted_skey_eq rev s s' l h h2
  have hs : ∀ x ∈ s, Ordinary x := fun x hx => ho x (h.1.mem_iff.mp hx)
  have hs' : ∀ x ∈ s', Ordinary x := fun x hx => ho x (h2.1.mem_iff.mp hx)
  clear h h' h2 hp
  induction s generalizing s' with
  | nil => cases s' with
    | nil => rfl
    | cons b t => simp at e
  | cons a r ih =>
    cases s' with
    | nil => simp at e
    | cons b t =>
      simp only [List.map_cons, List.cons.injEq] at e
      have hab := skey_inj (hs a (by simp)) (hs' b (by simp)) e.1
      rw [hab, ih t e.2 (fun x hx => hs x (by simp [hx])) (fun x hx => hs' x (by simp [hx]))]

/-- The start values of `Min` / `Max` (whatever sentinels `NewNumericalAggregator` uses) are ordinary. -/
theorem ordinary_new : Ordinary NumF.new.min ∧ Ordinary NumF.new.max := by
  refine ⟨⟨by decide, by decide⟩, ⟨by decide, by decide⟩⟩

theorem key_eq_of_le_le {x y : F64} (h1 : F64.le x y = true) (h2 : F64.le y x = true) : skey x = skey y := by
  obtain ⟨a1, a2, a3⟩ := (le_iff_key x y).mp h1
  obtain ⟨_, _, b3⟩ := (le_iff_key y x).mp h2
  rw [skey_of_not_nan a1, skey_of_not_nan a2]; omega

/-- Count, minimum and maximum after a run of `Samplef` calls do not depend on the order of ordinary samples. -/
theorem runFv_minmax_perm (keep : Bool) {l l' : List F64} (hp : l.Perm l') (ho : ∀ x ∈ l, Ordinary x) :
    (runFv keep l).samples = (runFv keep l').samples ∧ (runFv keep l).min = (runFv keep l').min ∧
    (runFv keep l).max = (runFv keep l').max := by
  have ho' : ∀ x ∈ l', Ordinary x := fun x hx => ho x (hp.mem_iff.mpr hx)
  have hn1 := ordinary_new.1.1
  have hn2 := ordinary_new.2.1
  refine ⟨by rw [runFv_samples, runFv_samples, hp.length_eq], ?_, ?_⟩
  · obtain ⟨n1, _, m1, le1, all1, _⟩ := minmax_fold keep l NumF.new hn1 hn2
    obtain ⟨n2, _, m2, le2, all2, _⟩ := minmax_fold keep l' NumF.new hn1 hn2
    show (l.foldl (NumF.samplef keep) NumF.new).min = (l'.foldl (NumF.samplef keep) NumF.new).min
    generalize (l.foldl (NumF.samplef keep) NumF.new).min = a at n1 m1 le1 all1
    generalize (l'.foldl (NumF.samplef keep) NumF.new).min = b at n2 m2 le2 all2
    have oa : Ordinary a := by
      rcases m1 with rfl | h
      · exact ordinary_new.1
      · exact ho a h
    have ob : Ordinary b := by
      rcases m2 with rfl | h
      · exact ordinary_new.1
      · exact ho' b h
    apply skey_inj oa ob
    have hab : F64.le a b = true := by
      rcases m2 with rfl | h
      · exact le1
      · exact all1 b (hp.mem_iff.mpr h) ob.1
    have hba : F64.le b a = true := by
      rcases m1 with rfl | h
      · exact le2
      · exact all2 a (hp.mem_iff.mp h) oa.1
    exact key_eq_of_le_le hab hba
  · obtain ⟨_, n1, _, _, _, _, m1, le1, all1, _⟩ := minmax_fold keep l NumF.new hn1 hn2
    obtain ⟨_, n2, _, _, _, _, m2, le2, all2, _⟩ := minmax_fold keep l' NumF.new hn1 hn2
    show (l.foldl (NumF.samplef keep) NumF.new).max = (l'.foldl (NumF.samplef keep) NumF.new).max
    generalize (l.foldl (NumF.samplef keep) NumF.new).max = a at n1 m1 le1 all1
    generalize (l'.foldl (NumF.samplef keep) NumF.new).max = b at n2 m2 le2 all2
    have oa : Ordinary a := by
      rcases m1 with rfl | h
      · exact ordinary_new.2
      · exact ho a h
    have ob : Ordinary b := by
      rcases m2 with rfl | h
      · exact ordinary_new.2
      · exact ho' b h
    apply skey_inj oa ob
    have hab : F64.le b a = true := by
      rcases m2 with rfl | h
      · exact le1
      · exact all1 b (hp.mem_iff.mpr h) ob.1
    have hba : F64.le a b = true := by
      rcases m1 with rfl | h
      · exact le2
      · exact all2 a (hp.mem_iff.mp h) oa.1
    exact key_eq_of_le_le hba hab

/-- The parsed values of a history; a permutation of the history permutes them and keeps the error count. -/
def parsedValues (h : List Bytes) : List F64 := h.filterMap F64.parseFloat

theorem parsedValues_perm {h h' : List Bytes} (hp : h.Perm h') :
    (parsedValues h).Perm (parsedValues h') ∧
    h.countP (fun e => (F64.parseFloat e).isNone) = h'.countP (fun e => (F64.parseFloat e).isNone) :=
  ⟨hp.filterMap _, hp.countP_eq _⟩

theorem runF_values (keep : Bool) (h : List Bytes) : (runF keep h).values = if keep then parsedValues h else [] := by
  rw [runF_eq]; exact runFv_values keep _

theorem runF_fields (keep : Bool) (h : List Bytes) :
    (runF keep h).samples = (runFv keep (parsedValues h)).samples ∧ (runF keep h).min = (runFv keep (parsedValues h)).min ∧
    (runF keep h).max = (runFv keep (parsedValues h)).max ∧ (runF keep h).mean = (runFv keep (parsedValues h)).mean ∧
    (runF keep h).variance = (runFv keep (parsedValues h)).variance ∧
    (runF keep h).parseErrors = h.countP (fun e => (F64.parseFloat e).isNone) := by
  rw [runF_eq]; exact ⟨rfl, rfl, rfl, rfl, rfl, rfl⟩

/-! ### exact arithmetic: mean and variance are functions of the multiset -/

theorem ratSum_perm {a b : List Rat} (h : a.Perm b) : ratSum a = ratSum b := by
  induction h with
  | nil => rfl
  | cons x _ ih => simp only [ratSum, ih]
  | swap x y l => simp only [ratSum]; rw [← Rat.add_assoc, ← Rat.add_assoc, Rat.add_comm y x]
  | trans _ _ ih1 ih2 => exact ih1.trans ih2

theorem mean_perm {a b : List Rat} (h : a.Perm b) : mean a = mean b := by
  unfold mean; rw [ratSum_perm h, h.length_eq]

theorem m2_perm {a b : List Rat} (h : a.Perm b) : m2 a = m2 b := by
  unfold m2; rw [mean_perm h]; exact ratSum_perm (h.map _)

theorem sampleVariance_perm {a b : List Rat} (h : a.Perm b) : sampleVariance a = sampleVariance b := by
  unfold sampleVariance; rw [m2_perm h, h.length_eq]

end Rare.C03
