import Rare.Model.C01Unbuffered
import Rare.Proofs.Pipeline
/-! The unbuffered pipeline refines the buffered one with capacity 1; progress and termination. -/
namespace Rare.Pipeline

variable {α : Type}

/-- a step that is possible with capacity 0 is possible with any capacity -/
theorem step_mono {cls : α → Cls} {R B K : Nat} {s s' : St α} (h : Step cls R 0 K s s') : Step cls R B K s s' := by
  cases h with
  | start i bs h hr => exact .start s i bs h hr
  | send i b bs h hcap => exact absurd hcap (Nat.not_lt_zero _)
  | finish i h => exact .finish s i h
  | closeC h1 h2 => exact .closeC s h1 h2
  | wrecv j b rest h hc => exact .wrecv s j b rest h hc
  | wproc j x todo acc h => exact .wproc s j x todo acc h
  | wsend j acc h hne hcap => exact .wsend s j acc h hne hcap
  | wskip j h => exact .wskip s j h
  | wexit j h hc hcl => exact .wexit s j h hc hcl
  | closeRC h1 h2 => exact .closeRC s h1 h2
  | crecv m rest h hd => exact .crecv s m rest h hd
  | cdone h1 h2 h3 => exact .cdone s h1 h2 h3

/-- with capacity 0 and an empty channel the channel stays empty -/
theorem step_zero_c {cls : α → Cls} {R K : Nat} {s s' : St α} (h : Step cls R 0 K s s') (hc : s.c = []) : s'.c = [] := by
  cases h with
  | send i b bs h hcap => exact absurd hcap (Nat.not_lt_zero _)
  | wrecv j b rest h hc' => rw [hc] at hc'; cases hc'
  | _ => exact hc

/-- One unbuffered transition is one or two transitions of the buffered system with capacity 1, and leaves the
    channel empty. -/
theorem step0_sim {cls : α → Cls} {R K : Nat} {s s' : St α} (h : Step0 cls R K s s') (hc : s.c = []) :
    s'.c = [] ∧ (Step cls R 1 K s s' ∨ ∃ mid, Step cls R 1 K s mid ∧ Step cls R 1 K mid s') := by
  cases h with
  | other _ hst => exact ⟨step_zero_c hst hc, .inl (step_mono hst)⟩
  | handoff i j b bs hi hj hc' =>
    refine ⟨hc, .inr ⟨{ s with srcs := s.srcs.set i (.active bs), c := s.c ++ [b] }, ?_, ?_⟩⟩
    · exact .send s i b bs hi (by rw [hc]; exact Nat.zero_lt_one)
    · have := Step.wrecv (cls := cls) (R := R) (B := 1) (K := K)
        { s with srcs := s.srcs.set i (.active bs), c := s.c ++ [b] } j b [] hj (by simp [hc])
      simpa [hc] using this

theorem reach0_reach {cls : α → Cls} {R K : Nat} {s0 s : St α} (h0 : s0.c = []) (h : Reach0 cls R K s0 s) :
    s.c = [] ∧ Reach cls R 1 K s0 s := by
  induction h with
  | refl => exact ⟨h0, .refl⟩
  | step _ hs ih =>
    obtain ⟨hc, hr⟩ := ih
    obtain ⟨hc', hsim⟩ := step0_sim hs hc
    refine ⟨hc', ?_⟩
    rcases hsim with h1 | ⟨mid, h1, h2⟩
    · exact .step hr h1
    · exact .step (.step hr h1) h2

theorem step0_measure {cls : α → Cls} {R K : Nat} {s s' : St α} (h : Step0 cls R K s s') (hc : s.c = []) :
    measure s' < measure s := by
  rcases (step0_sim h hc).2 with h1 | ⟨mid, h1, h2⟩
  · exact step_measure h1
  · exact Nat.lt_trans (step_measure h2) (step_measure h1)

/-- No deadlock with an unbuffered batch channel. -/
theorem progress0 {cls : α → Cls} {R K : Nat} {s : St α}
    (hR : 1 ≤ R) (hK : 1 ≤ K) (hc : s.c = []) (hd : s.consDone = false) : ∃ s', Step0 cls R K s s' := by
  cases hrc : s.rc with
  | cons m rest => exact ⟨_, .other _ _ (.crecv s m rest hrc hd)⟩
  | nil =>
  cases hrcl : s.rcClosed with
  | true => exact ⟨_, .other _ _ (.cdone s hrc hrcl hd)⟩
  | false =>
  cases hwall : s.workers.all WSt.isExited with
  | true => exact ⟨_, .other _ _ (.closeRC s hwall hrcl)⟩
  | false =>
  obtain ⟨j, w, hj, hw⟩ := exists_of_all_false _ hwall
  cases w with
  | exited => simp [WSt.isExited] at hw
  | busy todo acc =>
    cases todo with
    | cons x todo => exact ⟨_, .other _ _ (.wproc s j x todo acc hj)⟩
    | nil =>
      cases acc with
      | nil => exact ⟨_, .other _ _ (.wskip s j hj)⟩
      | cons a acc => exact ⟨_, .other _ _ (.wsend s j (a :: acc) hj (by simp) (by rw [hrc]; simp; omega))⟩
  | idle =>
  cases hcl : s.cClosed with
  | true => exact ⟨_, .other _ _ (.wexit s j hj hc hcl)⟩
  | false =>
  cases hsall : s.srcs.all SrcSt.isDone with
  | true => exact ⟨_, .other _ _ (.closeC s hsall hcl)⟩
  | false =>
  obtain ⟨i, src, hi, hsrc⟩ := exists_of_all_false _ hsall
  cases hact : (s.srcs.filter SrcSt.isActive) with
  | nil =>
    cases src with
    | done => simp [SrcSt.isDone] at hsrc
    | active bs =>
      have : SrcSt.active bs ∈ s.srcs.filter SrcSt.isActive :=
        List.mem_filter.mpr ⟨List.mem_of_getElem? hi, rfl⟩
      rw [hact] at this; simp at this
    | waiting bs =>
      exact ⟨_, .other _ _ (.start s i bs hi (by simp [activeCount, hact]; omega))⟩
  | cons a as =>
    have ha : a ∈ s.srcs.filter SrcSt.isActive := by rw [hact]; simp
    obtain ⟨hmem, hisa⟩ := List.mem_filter.mp ha
    obtain ⟨k, hk⟩ := List.getElem?_of_mem hmem
    cases a with
    | done => simp [SrcSt.isActive] at hisa
    | waiting bs => simp [SrcSt.isActive] at hisa
    | active bs =>
      cases bs with
      | nil => exact ⟨_, .other _ _ (.finish s k hk)⟩
      | cons b bs => exact ⟨_, .handoff s k j b bs hk hj hc⟩

end Rare.Pipeline
