import Rare.Proofs.Pipeline
/-!
C01: what travels on the match channel.  For ANY number of workers, every batch of matches a worker hands to the
consumer is the in-order list of the matched lines of ONE input batch (the worker collects `matchBatch` while it
walks one `InputBatch` and sends it iff it is not empty) – workers may overtake each other (Proofs/C01Order), but
inside a delivered batch the order of the source is kept and no line of another batch is mixed in.
-/
namespace Rare.Pipeline
variable {α : Type}

def SrcSt.batches : SrcSt α → List (List α)
  | .waiting bs => bs
  | .active bs => bs
  | .done => []

/-- invariant: every batch in flight is an input batch (`A`), a busy worker is somewhere inside one, every match
    batch on `rc` is the non-empty matched sublist of one -/
structure BatchInv (cls : α → Cls) (A : List (List α)) (s : St α) : Prop where
  srcs : ∀ (i : Nat) (st : SrcSt α), s.srcs[i]? = some st → ∀ b ∈ st.batches, b ∈ A
  c : ∀ b ∈ s.c, b ∈ A
  workers : ∀ (j : Nat) (todo acc : List α), s.workers[j]? = some (WSt.busy todo acc) →
    ∃ b ∈ A, acc ++ todo.filter (isMatched cls) = b.filter (isMatched cls)
  rc : ∀ mb ∈ s.rc, mb ≠ [] ∧ ∃ b ∈ A, mb = b.filter (isMatched cls)

theorem getElem?_set_cases {β : Type} {l : List β} {i j : Nat} {a b : β} (h : (l.set i a)[j]? = some b) :
    (i = j ∧ b = a) ∨ (i ≠ j ∧ l[j]? = some b) := by
  by_cases hij : i = j
  · subst hij
    rw [List.getElem?_set] at h
    split at h
    · split at h
      · left; exact ⟨rfl, by cases h; rfl⟩
      · cases h
    · exact absurd rfl ‹_›
  · right; rw [List.getElem?_set_ne hij] at h; exact ⟨hij, h⟩

theorem batchInv_step (cls : α → Cls) (A : List (List α)) {R B K : Nat} {s s' : St α} (h : Step cls R B K s s')
    (hi : BatchInv cls A s) : BatchInv cls A s' := by
  cases h with
  | start i bs h1 h2 =>
    refine ⟨?_, hi.c, hi.workers, hi.rc⟩
    intro k st hk b hb
    rcases getElem?_set_cases hk with ⟨_, rfl⟩ | ⟨_, hk'⟩
    · exact hi.srcs i _ h1 b hb
    · exact hi.srcs k st hk' b hb
  | send i b bs h1 h2 =>
    refine ⟨?_, ?_, hi.workers, hi.rc⟩
    · intro k st hk b' hb'
      rcases getElem?_set_cases hk with ⟨_, rfl⟩ | ⟨_, hk'⟩
      · exact hi.srcs i _ h1 b' (by simp only [SrcSt.batches] at hb' ⊢; exact List.mem_cons_of_mem _ hb')
      · exact hi.srcs k st hk' b' hb'
    · intro b' hb'
      simp only [List.mem_append, List.mem_singleton] at hb'
      rcases hb' with hb' | rfl
      · exact hi.c b' hb'
      · exact hi.srcs i _ h1 b' (by simp [SrcSt.batches])
  | finish i h1 =>
    refine ⟨?_, hi.c, hi.workers, hi.rc⟩
    intro k st hk b hb
    rcases getElem?_set_cases hk with ⟨_, rfl⟩ | ⟨_, hk'⟩
    · simp [SrcSt.batches] at hb
    · exact hi.srcs k st hk' b hb
  | closeC h1 h2 => exact ⟨hi.srcs, hi.c, hi.workers, hi.rc⟩
  | wrecv j b rest h1 h2 =>
    refine ⟨hi.srcs, ?_, ?_, hi.rc⟩
    · intro b' hb'; exact hi.c b' (by rw [h2]; exact List.mem_cons_of_mem _ hb')
    · intro k todo acc hk
      rcases getElem?_set_cases hk with ⟨_, hk'⟩ | ⟨_, hk'⟩
      · cases hk'
        exact ⟨b, hi.c b (by rw [h2]; simp), by simp⟩
      · exact hi.workers k todo acc hk'
  | wproc j x todo acc h1 =>
    refine ⟨hi.srcs, hi.c, ?_, hi.rc⟩
    intro k todo' acc' hk
    rcases getElem?_set_cases hk with ⟨_, hk'⟩ | ⟨_, hk'⟩
    · cases hk'
      obtain ⟨b, hb, he⟩ := hi.workers j _ _ h1
      refine ⟨b, hb, ?_⟩
      rw [← he]
      by_cases hx : cls x = .matched
      · simp [hx, isMatched]
      · simp [hx, isMatched]
    · exact hi.workers k todo' acc' hk'
  | wsend j acc h1 h2 h3 =>
    refine ⟨hi.srcs, hi.c, ?_, ?_⟩
    · intro k todo acc' hk
      rcases getElem?_set_cases hk with ⟨_, hk'⟩ | ⟨_, hk'⟩
      · cases hk'
      · exact hi.workers k todo acc' hk'
    · intro mb hmb
      simp only [List.mem_append, List.mem_singleton] at hmb
      rcases hmb with hmb | rfl
      · exact hi.rc mb hmb
      · obtain ⟨b, hb, he⟩ := hi.workers j _ _ h1
        exact ⟨h2, b, hb, by simpa using he⟩
  | wskip j h1 =>
    refine ⟨hi.srcs, hi.c, ?_, hi.rc⟩
    intro k todo acc' hk
    rcases getElem?_set_cases hk with ⟨_, hk'⟩ | ⟨_, hk'⟩
    · cases hk'
    · exact hi.workers k todo acc' hk'
  | wexit j h1 h2 h3 =>
    refine ⟨hi.srcs, hi.c, ?_, hi.rc⟩
    intro k todo acc' hk
    rcases getElem?_set_cases hk with ⟨_, hk'⟩ | ⟨_, hk'⟩
    · cases hk'
    · exact hi.workers k todo acc' hk'
  | closeRC h1 h2 => exact ⟨hi.srcs, hi.c, hi.workers, hi.rc⟩
  | crecv m rest h1 h2 =>
    refine ⟨hi.srcs, hi.c, hi.workers, ?_⟩
    intro mb hmb
    exact hi.rc mb (by rw [h1]; exact List.mem_cons_of_mem _ hmb)
  | cdone h1 h2 h3 => exact ⟨hi.srcs, hi.c, hi.workers, hi.rc⟩

theorem batchInv_init (cls : α → Cls) (inputs : List (List (List α))) (W : Nat) :
    BatchInv cls inputs.flatten (init inputs W) := by
  refine ⟨?_, by simp [init], ?_, by simp [init]⟩
  · intro i st hst b hb
    simp only [init, List.getElem?_map, Option.map_eq_some_iff] at hst
    obtain ⟨bs, hbs, rfl⟩ := hst
    exact List.mem_flatten.mpr ⟨bs, List.mem_of_getElem? hbs, hb⟩
  · intro j todo acc hj
    simp only [init] at hj
    rw [List.getElem?_replicate] at hj
    split at hj <;> cases hj

theorem batchInv_reach (cls : α → Cls) {R B K : Nat} (inputs : List (List (List α))) (W : Nat) {s : St α}
    (hr : Reach cls R B K (init inputs W) s) : BatchInv cls inputs.flatten s := by
  induction hr with
  | refl => exact batchInv_init cls inputs W
  | step _ hs ih => exact batchInv_step cls _ hs ih

end Rare.Pipeline
