import Rare.Model.C16
import Rare.Model.C02
/-! The two hand models of `SliceSpaceExpressionContext.GetMatch` (C16's and C02's) are one function. -/
namespace Rare.C16

theorem getMatch_eq_c02 (indices : List Int) (line : Bytes) (idx : Int) :
    getMatch indices line idx = C02.getMatch line indices idx := by
  unfold getMatch C02.getMatch
  simp only []
  by_cases hg : idx < 0 ∨ wrap64 (idx * 2) < 0 ∨ wrap64 (idx * 2) + 1 ≥ indices.length
  · rw [if_pos hg, if_pos hg]
  · rw [if_neg hg, if_neg hg]
    have h0 : 0 ≤ wrap64 (idx * 2) := by omega
    have e : (wrap64 (idx * 2) + 1).toNat = (wrap64 (idx * 2)).toNat + 1 := by omega
    rw [e]
    generalize indices.getD (wrap64 (idx * 2)).toNat 0 = start
    generalize indices.getD ((wrap64 (idx * 2)).toNat + 1) 0 = stop
    by_cases hn : start < 0 ∨ stop < 0
    · rw [if_pos hn, if_pos hn]
    · rw [if_neg hn, if_neg hn]
      unfold C02.goSlice
      by_cases hb : stop > line.length ∨ start > stop
      · rw [if_pos hb, if_neg (by omega)]
      · rw [if_neg hb, if_pos (by omega)]
        rw [List.drop_take]

end Rare.C16
