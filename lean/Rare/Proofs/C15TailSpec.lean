import Rare.Proofs.C15Tail
/-!
Consequences of the invariant `J` for `tailToChan` / `tailAfter`: termination, the numbered partition
in terms of BYTES (reading each line through its view), the delivered stream, prefix facts.
-/
namespace Rare.C15.Tail
open Rare.C04 Rare.C15.Batch

theorem iterN_add (source : String) (batchSize fuel : Nat) (timer : Nat → Bool) (a b : Nat) (s : TSt) :
    iterN source batchSize fuel timer (a + b) s =
      iterN source batchSize fuel timer b (iterN source batchSize fuel timer a s) := by
  induction a generalizing s with
  | zero => simp [iterN]
  | succ a ih => rw [Nat.succ_add]; simp only [iterN]; exact ih _

theorem lineNumbers_map {α β : Type} (f : α → β) (l : List α) (st : Nat) :
    Batcher.lineNumbers (⟨l.map f, st⟩ : Batcher.Batch β) =
      (Batcher.lineNumbers (⟨l, st⟩ : Batcher.Batch α)).map (Prod.map f id) := by
  simp [Batcher.lineNumbers, List.zipIdx_map]

/-- reading the views of all tokens gives their bytes -/
theorem toks_read {source : String} {s : TSt} (h : J source s) :
    (s.toks.map (·.1)).map (readView s.imm.arrays) = s.toks.map (·.2) := by
  rw [List.map_map]
  exact List.map_congr_left fun vb hvb => (h.views vb hvb).2

theorem numbered_eq (s : TSt) :
    s.numbered = (s.b.out.map s.b.read).map fun b => ⟨b.lines.map (readView s.imm.arrays), b.start⟩ := by
  simp [TSt.numbered, TSt.readBatch, St.read, List.map_map, Function.comp_def]

theorem numbered_numbers (s : TSt) :
    s.numbered.flatMap Batcher.lineNumbers =
      ((s.b.out.map s.b.read).flatMap Batcher.lineNumbers).map (Prod.map (readView s.imm.arrays) id) := by
  rw [numbered_eq, List.flatMap_map, List.map_flatMap]
  congr 1
  funext b
  exact lineNumbers_map _ _ _

/-- After the loop: the batches on the channel, read (late) through both heaps, are a numbered
    partition of the lines of the stream the follow reader delivered. -/
theorem closed_spec {source : String} {s : TSt} (h : J source s) (hc : s.status = .closed) :
    s.numbered.flatMap Batcher.lineNumbers = (splitLines s.imm.delivered).zipIdx 1 ∧
    (∀ b ∈ s.numbered, b.lines ≠ []) ∧ s.imm.eof = true := by
  obtain ⟨h1, h2, h3, h4⟩ := h.fin hc
  refine ⟨?_, ?_, h4⟩
  · rw [numbered_numbers, h1, h3, ← toks_read h]
    exact List.zipIdx_map.symm
  · intro b hb
    rw [numbered_eq] at hb
    simp only [List.mem_map] at hb
    obtain ⟨b0, ⟨x, hx, rfl⟩, rfl⟩ := hb
    have := h2 (s.b.read x) (List.mem_map.mpr ⟨x, hx, rfl⟩)
    simpa using this

/-- While the loop runs: what was sent plus what is pending is a numbered partition of the tokens so
    far; every sent batch is non-empty. -/
theorem running_spec {source : String} {s : TSt} (h : J source s) (hc : s.status ≠ .closed) :
    s.numbered.flatMap Batcher.lineNumbers ++ s.pending.zipIdx s.b.start = (s.toks.map (·.2)).zipIdx 1 ∧
    (∀ b ∈ s.numbered, b.lines ≠ []) ∧ s.b.start + s.pending.length = 1 + s.toks.length := by
  obtain ⟨_, hinv⟩ := h.loop hc
  have hn := congrArg (List.map (Prod.map (readView s.imm.arrays) id)) hinv.nums
  rw [List.map_append, ← List.zipIdx_map, ← List.zipIdx_map, toks_read h] at hn
  refine ⟨?_, ?_, ?_⟩
  · rw [numbered_numbers]; exact hn
  · intro b hb
    rw [numbered_eq] at hb
    simp only [List.mem_map] at hb
    obtain ⟨b0, ⟨x, hx, rfl⟩, rfl⟩ := hb
    have := hinv.nonempty (s.b.read x) (List.mem_map.mpr ⟨x, hx, rfl⟩)
    simpa using this
  · have := hinv.start
    simpa [TSt.pending, TSt.readBatch, St.abs] using this

variable (source : String) (bufSize batchSize : Nat) (timer : Nat → Bool) (data : Bytes) (script : List Step)

theorem j_after (h : 1 ≤ bufSize) (k : Nat) : J source (tailAfter source bufSize batchSize timer data script k) :=
  j_iterN batchSize _ timer k (j_init source bufSize batchSize ⟨data, script⟩ h)

theorem tailToChan_eq : tailToChan source bufSize batchSize timer data script =
    tailAfter source bufSize batchSize timer data script (budget data script) := rfl

theorem tail_closed (h : 1 ≤ bufSize) : (tailToChan source bufSize batchSize timer data script).status = .closed := by
  have hg := good_init bufSize ⟨data, script⟩ h
  have hd : (Imm.scanAll (budget data script) (budget data script) (Imm.init bufSize ⟨data, script⟩)).2.1 = true := by
    apply scanAll_done _ data _ hg
    · simp [Imm.init]
    · simp [Imm.init, Reader.measure, budget]; omega
    · simp [Imm.init, Imm.consumed, budget]; omega
  exact (iterN_scanAll source batchSize (budget data script) timer (budget data script)
    (s := TSt.init bufSize batchSize ⟨data, script⟩) rfl hd).1

theorem after_nostuck (h : 1 ≤ bufSize) (k : Nat) :
    (tailAfter source bufSize batchSize timer data script k).status ≠ .stuck :=
  iterN_nostuck batchSize _ timer k (j_init source bufSize batchSize ⟨data, script⟩ h) (by simp [TSt.init])
    (by simp [TSt.init, Imm.init, Reader.measure, budget]; omega)

/-- What the scanner got from the follow reader is a prefix of the stream; all of it if no `Read` failed. -/
theorem after_delivered (h : 1 ≤ bufSize) (k : Nat) :
    (tailAfter source bufSize batchSize timer data script k).imm.delivered <+: data := by
  have := iterN_pred (closed_stream data) batchSize (budget data script) timer k
    (j_init source bufSize batchSize ⟨data, script⟩ h) (by simp [TSt.init, Imm.init])
  exact ⟨_, this⟩

theorem closed_delivered (h : 1 ≤ bufSize) (hs : ∀ st ∈ script, st.err = none) :
    (tailToChan source bufSize batchSize timer data script).imm.delivered = data := by
  have hj := j_after source bufSize batchSize timer data script h (budget data script)
  have hc := tail_closed source bufSize batchSize timer data script h
  have hstream := iterN_pred (closed_stream data) batchSize (budget data script) timer (budget data script)
    (j_init source bufSize batchSize ⟨data, script⟩ h) (by simp [TSt.init, Imm.init])
  have hdr := iterN_pred closed_drained batchSize (budget data script) timer (budget data script)
    (j_init source bufSize batchSize ⟨data, script⟩ h)
    (show (∀ st ∈ (TSt.init bufSize batchSize ⟨data, script⟩).imm.rd.script, st.err = none) ∧ _ from
      ⟨by simpa [TSt.init, Imm.init] using hs, by simp [TSt.init, Imm.init]⟩)
  have heof := (closed_spec hj hc).2.2
  have hrest := hdr.2 heof
  rw [← tailToChan_eq] at hj
  change (tailToChan source bufSize batchSize timer data script).imm.delivered ++
    (tailToChan source bufSize batchSize timer data script).imm.rd.rest = data at hstream
  change (tailToChan source bufSize batchSize timer data script).imm.rd.rest = [] at hrest
  rw [hrest] at hstream; simpa using hstream

/-- Later states extend earlier ones: the channel only grows and every batch keeps reading the same. -/
theorem after_stable (h : 1 ≤ bufSize) (k j : Nat) :
    (tailAfter source bufSize batchSize timer data script k).b.out <+:
      (tailAfter source bufSize batchSize timer data script (k + j)).b.out ∧
    ∀ x ∈ (tailAfter source bufSize batchSize timer data script k).b.out,
      (tailAfter source bufSize batchSize timer data script (k + j)).readBatch x.batch =
        (tailAfter source bufSize batchSize timer data script k).readBatch x.batch := by
  have hj := j_after source bufSize batchSize timer data script h k
  have heq : tailAfter source bufSize batchSize timer data script (k + j) =
      iterN source batchSize (budget data script) timer j (tailAfter source bufSize batchSize timer data script k) := by
    unfold tailAfter; exact iterN_add _ _ _ _ _ _ _
  rw [heq]
  exact ⟨(iterN_mono batchSize _ timer j hj).1, iterN_stable batchSize _ timer j hj⟩

/-- Once the channel is closed nothing changes any more. -/
theorem after_closed_fix (h : 1 ≤ bufSize) (k : Nat) (hk : budget data script ≤ k) :
    tailAfter source bufSize batchSize timer data script k = tailToChan source bufSize batchSize timer data script := by
  obtain ⟨d, rfl⟩ := Nat.exists_eq_add_of_le hk
  unfold tailAfter
  rw [iterN_add]
  apply iterN_not_running
  have := tail_closed source bufSize batchSize timer data script h
  unfold tailToChan at this
  rw [this]; decide

theorem lineNumbers_length {α : Type} (b : Batcher.Batch α) : (Batcher.lineNumbers b).length = b.lines.length := by
  simp [Batcher.lineNumbers]

theorem flat_numbers_length {α : Type} (bs : List (Batcher.Batch α)) :
    (bs.flatMap Batcher.lineNumbers).length = (bs.flatMap (·.lines)).length := by
  induction bs with
  | nil => rfl
  | cons b bs ih => simp [List.flatMap_cons, lineNumbers_length, ih]

/-- In a numbered partition the `BatchStart` of every (non-empty) batch is one more than the number of
    lines in the batches before it. -/
theorem numbers_start {α : Type} {bs : List (Batcher.Batch α)} {L : List α}
    (h : bs.flatMap Batcher.lineNumbers = L.zipIdx 1) (pre post : List (Batcher.Batch α)) (b : Batcher.Batch α)
    (hb : bs = pre ++ b :: post) (hne : b.lines ≠ []) :
    b.start = 1 + (pre.flatMap (·.lines)).length := by
  obtain ⟨x, xs, hx⟩ := List.exists_cons_of_ne_nil hne
  have hl : (Batcher.lineNumbers b) = (x, b.start) :: xs.zipIdx (b.start + 1) := by
    simp [Batcher.lineNumbers, hx, List.zipIdx_cons]
  have hget : (bs.flatMap Batcher.lineNumbers)[(pre.flatMap Batcher.lineNumbers).length]? = some (x, b.start) := by
    rw [hb, List.flatMap_append, List.flatMap_cons, hl]
    simp
  rw [h, List.getElem?_zipIdx] at hget
  cases hL : L[(pre.flatMap Batcher.lineNumbers).length]? with
  | none => rw [hL] at hget; simp at hget
  | some a =>
    rw [hL] at hget
    simp only [Option.map_some, Option.some.injEq, Prod.mk.injEq] at hget
    rw [← hget.2, flat_numbers_length]


end Rare.C15.Tail
