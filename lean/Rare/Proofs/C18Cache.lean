import Rare.Model.C18
/-! C18: the `cache` stage of `smartDateParseWrapper` as a function of the history of texts it has seen. -/
namespace Rare.C18

abbrev Inp := Bytes × Option Bytes × (Parsed → Out)

theorem cacheStep_eq_E (st str : Bytes) (det : Option Bytes) (f : Parsed → Out) :
    cacheStep st str det f = cacheStepE [] st str det f := by
  unfold cacheStep cacheStepE
  by_cases hs : str = []
  · simp [hs]
  · simp only [hs, if_false]

/-- Answer for one text once the layout `L` is what the stage uses. -/
def answerWith (L : Bytes) (x : Inp) : Out := if x.1 = [] then .val errorParsing else parseThen L x.1 x.2.2

theorem cache_sticky' (e st : Bytes) (hst : st ≠ []) (xs : List Inp) :
    cacheState e st xs = st ∧ cacheRun e st xs = xs.map (answerWith st) := by
  induction xs with
  | nil => exact ⟨rfl, rfl⟩
  | cons x xs ih =>
    obtain ⟨str, det, f⟩ := x
    have h2 : (cacheStepE e st str det f).2 = st := by
      unfold cacheStepE; by_cases hs : str = [] <;> simp [hs, hst]
    have h1 : (cacheStepE e st str det f).1 = answerWith st (str, det, f) := by
      unfold cacheStepE answerWith; by_cases hs : str = [] <;> simp [hs, hst]
    simp only [cacheState, cacheRun, h2, h1, List.map_cons]
    exact ⟨ih.1, by rw [ih.2]⟩

/-- The first text of a history that is remembered: non-empty, not the value of the date expression
without input, and with a detectable format. -/
def firstRemembered (e : Bytes) (xs : List Inp) : Bytes :=
  match xs.find? (fun x => !(x.1 == []) && !(x.1 == e) && x.2.1.isSome) with
  | some x => x.2.1.getD []
  | none => []

theorem cache_state_first' (e : Bytes) (xs : List Inp) (hdet : ∀ x ∈ xs, x.2.1 ≠ some []) :
    cacheState e [] xs = firstRemembered e xs := by
  induction xs with
  | nil => rfl
  | cons x xs ih =>
    obtain ⟨str, det, f⟩ := x
    have ih' := ih (fun x hx => hdet x (List.mem_cons_of_mem _ hx))
    have hd := hdet (str, det, f) List.mem_cons_self
    simp only [cacheState, firstRemembered, List.find?_cons]
    by_cases hs : str = []
    · simp only [cacheStepE, hs, if_true, beq_self_eq_true, Bool.not_true, Bool.false_and]
      exact ih'
    · cases det with
      | none =>
        simp only [cacheStepE, hs, if_false, if_true, Option.isSome_none, Bool.and_false]
        exact ih'
      | some live =>
        have hl : live ≠ [] := fun h => hd (by rw [h])
        by_cases he : str = e
        · subst he
          simp only [cacheStepE, hs, if_false, if_true, beq_self_eq_true, Bool.not_true, Bool.and_false, Bool.false_and]
          exact ih'
        · have h1 : (str == []) = false := by simpa using hs
          have h2 : (str == e) = false := by simpa using he
          simp only [cacheStepE, hs, if_false, if_true, he, h1, h2, Bool.not_false, Bool.true_and, Option.isSome_some, Option.getD_some]
          exact (cache_sticky' e live hl xs).1

theorem cache_order_independent' (e L : Bytes) (hL : L ≠ []) (xs : List Inp)
    (h : ∀ x ∈ xs, x.1 ≠ e ∧ (x.1 ≠ [] → x.2.1 = some L)) (st : Bytes) (hst : st = [] ∨ st = L) :
    cacheRun e st xs = xs.map (answerWith L) := by
  induction xs generalizing st with
  | nil => rfl
  | cons x xs ih =>
    obtain ⟨str, det, f⟩ := x
    obtain ⟨hne, hd⟩ := h (str, det, f) List.mem_cons_self
    have ih' := ih (fun x hx => h x (List.mem_cons_of_mem _ hx))
    simp only [cacheRun, List.map_cons]
    by_cases hs : str = []
    · have h1 : (cacheStepE e st str det f) = (.val errorParsing, st) := by simp [cacheStepE, hs]
      rw [h1]
      simp only [answerWith, hs, if_true]
      rw [ih' st hst]
    · have hdet := hd hs
      simp only at hne hdet
      rcases hst with hst | hst
      · have h1 : (cacheStepE e st str det f) = (parseThen L str f, L) := by
          simp [cacheStepE, hs, hst, hdet, hne]
        rw [h1, ih' L (Or.inr rfl)]
        simp [answerWith, hs]
      · have h1 : (cacheStepE e st str det f) = (parseThen L str f, L) := by
          simp [cacheStepE, hs, hst, hL]
        rw [h1, ih' L (Or.inr rfl)]
        simp [answerWith, hs]

end Rare.C18
