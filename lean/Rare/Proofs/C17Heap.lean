import Rare.Model.C17Heap
import Rare.Proofs.C17Loop
import Rare.Proofs.C17Pool
/-!
C17: the heap machine of `Model/C17Heap.lean` computes, for every template, what the pool-free reading says –
from ANY heap whose free objects hold arbitrary leftovers, as long as the objects on the current context's
parent chain are checked out.

* `val` – the value of a template as a list function of its context (no pool, no model loops);
* `Good h l ref` – the context value `ref` is the chain `l` of distinct, checked-out objects ending in the root;
* `Frame h h' ex` – what an evaluation may do to the heap: the pool stays duplicate-free, objects are only ever
  ADDED (fresh numbers), every checked-out object outside `ex` keeps all its fields;
* `ev_val` – `ev` returns `val` and a `Frame`d heap (in particular: no stack overflow with fuel above chain
  length + nesting depth, the object a helper holds is never handed to a nested helper, and every helper leaves
  the pool's free list as it found it, up to order and fresh objects).
-/
namespace Rare.C17
open Rare Rare.Expr Rare.C17Pool Rare.C17Heap

/-! ### total stages -/

inductive NoPanic : Stage → Prop
  | ret (a : Bytes) : NoPanic (.ret a)
  | getMatch (i : Int) (k : Bytes → Stage) : (∀ b, NoPanic (k b)) → NoPanic (.getMatch i k)
  | getKey (s : Bytes) (k : Bytes → Stage) : (∀ b, NoPanic (k b)) → NoPanic (.getKey s k)

/-- The value of a stage (`[]` for a panic, which `NoPanic` excludes). -/
def evalD (ctx : Ctx) : Stage → Bytes
  | .ret a => a
  | .getMatch i k => evalD ctx (k (ctx.getMatch i))
  | .getKey s k => evalD ctx (k (ctx.getKey s))
  | .panic _ => []

theorem run_noPanic (ctx : Ctx) (c : Stage) (h : NoPanic c) : c.run ctx = .ok (evalD ctx c) := by
  induction h with
  | ret a => rfl
  | getMatch i k _ ih => simp only [Comp.run, evalD]; exact ih _
  | getKey s k _ ih => simp only [Comp.run, evalD]; exact ih _

/-- Every leaf of the template is a stage that cannot panic. -/
def Total : Tm → Prop
  | .scalar c => NoPanic c
  | .app1 _ a => Total a
  | .app2 _ a b => Total a ∧ Total b
  | .map a f => Total a ∧ Total f
  | .filter a p => Total a ∧ Total p
  | .reduce _ a f => Total a ∧ Total f
  | .for_ s c n => Total s ∧ Total c ∧ Total n

/-- The value of a template: the list reading of the helpers, sub-expressions in `subCtx`. -/
def val : Tm → Ctx → Bytes
  | .scalar c, ctx => evalD ctx c
  | .app1 g a, ctx => g (val a ctx)
  | .app2 g a b, ctx => g (val a ctx) (val b ctx)
  | .map a f, ctx => pack ((elems (val a ctx)).map fun x => val f (subCtx ctx x []))
  | .filter a p, ctx => pack ((elems (val a ctx)).filter fun x => truthy (val p (subCtx ctx x [])))
  | .reduce init a f, ctx => reduce (fun m x => val f (subCtx ctx m x)) init (elems (val a ctx))
  | .for_ s c n, ctx =>
    match iterateWhile (fun v k => truthy (val c (subCtx ctx v (itoa (k : Nat)))))
        (fun v k => val n (subCtx ctx v (itoa (k : Nat)))) Gen.maxIterations 0 (val s ctx) with
    | some ys => pack ys
    | none => Funcs.Range.InfMarker

/-! ### chains -/

def chainOf (objs : Nat → Obj) : List Nat → Ref → Prop
  | [], .root => True
  | o :: l, .obj o' => o' = o ∧ chainOf objs l (objs o).parent
  | _, _ => False

/-- The context a chain of objects denotes. -/
def ctxOf (root : Ctx) (objs : Nat → Obj) : List Nat → Ctx
  | [] => root
  | o :: l => subCtx (ctxOf root objs l) (objs o).v0 (objs o).v1

theorem chainOf_congr (objs objs' : Nat → Obj) : ∀ (l : List Nat) (ref : Ref),
    (∀ x ∈ l, objs' x = objs x) → chainOf objs l ref → chainOf objs' l ref
  | [], .root, _, _ => trivial
  | [], .obj _, _, h => h.elim
  | _ :: _, .root, _, h => h.elim
  | o :: l, .obj o', he, h => by
    obtain ⟨e, hc⟩ := h
    refine ⟨e, ?_⟩
    rw [he o (by simp)]
    exact chainOf_congr objs objs' l _ (fun x hx => he x (by simp [hx])) hc

theorem ctxOf_congr (root : Ctx) (objs objs' : Nat → Obj) : ∀ (l : List Nat),
    (∀ x ∈ l, objs' x = objs x) → ctxOf root objs' l = ctxOf root objs l
  | [], _ => rfl
  | o :: l, he => by
    simp only [ctxOf]
    rw [he o (by simp), ctxOf_congr root objs objs' l (fun x hx => he x (by simp [hx]))]

theorem getMatchH_root (root : Ctx) (objs : Nat → Obj) (fuel : Nat) (i : Int) :
    getMatchH root objs fuel .root i = .ok (root.getMatch i) := by
  cases fuel <;> rfl

theorem getKeyH_root (root : Ctx) (objs : Nat → Obj) (fuel : Nat) (k : Bytes) :
    getKeyH root objs fuel .root k = .ok (root.getKey k) := by
  cases fuel <;> rfl

theorem getMatchH_chain (root : Ctx) (objs : Nat → Obj) (i : Int) : ∀ (l : List Nat) (ref : Ref) (fuel : Nat),
    chainOf objs l ref → l.length < fuel →
    getMatchH root objs fuel ref i = .ok ((ctxOf root objs l).getMatch i)
  | [], .root, fuel, _, _ => getMatchH_root root objs fuel i
  | [], .obj _, _, h, _ => h.elim
  | _ :: _, .root, _, h, _ => h.elim
  | o :: l, .obj o', fuel, h, hf => by
    obtain ⟨e, hc⟩ := h
    subst e
    cases fuel with
    | zero => simp at hf
    | succ f =>
      simp only [getMatchH, ctxOf, subCtx]
      by_cases hi : i < 0
      · simp only [hi, if_true]
        exact getMatchH_chain root objs i l _ f hc (by simpa using hf)
      · simp [hi]

theorem getKeyH_chain (root : Ctx) (objs : Nat → Obj) (k : Bytes) : ∀ (l : List Nat) (ref : Ref) (fuel : Nat),
    chainOf objs l ref → l.length < fuel →
    getKeyH root objs fuel ref k = .ok ((ctxOf root objs l).getKey k)
  | [], .root, fuel, _, _ => getKeyH_root root objs fuel k
  | [], .obj _, _, h, _ => h.elim
  | _ :: _, .root, _, h, _ => h.elim
  | o :: l, .obj o', fuel, h, hf => by
    obtain ⟨e, hc⟩ := h
    subst e
    cases fuel with
    | zero => simp at hf
    | succ f =>
      simp only [getKeyH, ctxOf, subCtx]
      exact getKeyH_chain root objs k l _ f hc (by simpa using hf)

theorem runH_chain (root : Ctx) (objs : Nat → Obj) (l : List Nat) (ref : Ref) (fuel : Nat)
    (hc : chainOf objs l ref) (hf : l.length < fuel) (c : Stage) :
    runH root objs fuel ref c = c.run (ctxOf root objs l) := by
  induction c with
  | ret a => rfl
  | getMatch i k ih => simp only [runH, Comp.run, getMatchH_chain root objs i l ref fuel hc hf]; exact ih _
  | getKey s k ih => simp only [runH, Comp.run, getKeyH_chain root objs s l ref fuel hc hf]; exact ih _
  | panic m => rfl

/-! ### the pool -/

def PoolOk (p : Pool) : Prop := p.free.Nodup ∧ ∀ o ∈ p.free, o < p.next

/-- allocated and not in the free list: checked out -/
def Held (p : Pool) (o : Nat) : Prop := o < p.next ∧ o ∉ p.free

structure Good (h : Heap) (l : List Nat) (ref : Ref) : Prop where
  pool : PoolOk h.pool
  chain : chainOf h.objs l ref
  nodup : l.Nodup
  held : ∀ o ∈ l, Held h.pool o

structure Frame (h h' : Heap) (ex : List Nat) : Prop where
  pool : PoolOk h'.pool
  next_le : h.pool.next ≤ h'.pool.next
  free : ∀ x, x ∈ h'.pool.free ↔ x ∈ h.pool.free ∨ (h.pool.next ≤ x ∧ x < h'.pool.next)
  keep : ∀ x, Held h.pool x → x ∉ ex → h'.objs x = h.objs x

theorem Frame.refl (h : Heap) (hp : PoolOk h.pool) (ex : List Nat) : Frame h h ex :=
  ⟨hp, Nat.le_refl _, fun x => ⟨Or.inl, fun e => e.elim id (fun ⟨a, b⟩ => by omega)⟩, fun _ _ _ => rfl⟩

theorem Frame.held {h h' : Heap} {ex : List Nat} (f : Frame h h' ex) {x : Nat} (hx : Held h.pool x) :
    Held h'.pool x := by
  refine ⟨Nat.lt_of_lt_of_le hx.1 f.next_le, fun hm => ?_⟩
  rcases (f.free x).mp hm with e | ⟨e, _⟩
  · exact hx.2 e
  · have := hx.1; omega

theorem Frame.trans {h h1 h2 : Heap} {ex : List Nat} (f1 : Frame h h1 ex) (f2 : Frame h1 h2 ex) :
    Frame h h2 ex := by
  refine ⟨f2.pool, Nat.le_trans f1.next_le f2.next_le, fun x => ?_, fun x hx hn => ?_⟩
  · have a := f1.free x
    have b := f2.free x
    have n1 := f1.next_le
    have n2 := f2.next_le
    constructor
    · intro hm
      rcases b.mp hm with e | ⟨e1, e2⟩
      · rcases a.mp e with e | ⟨e1, e2⟩
        · exact Or.inl e
        · exact Or.inr ⟨e1, by omega⟩
      · exact Or.inr ⟨by omega, e2⟩
    · intro hm
      rcases hm with e | ⟨e1, e2⟩
      · exact b.mpr (Or.inl (a.mpr (Or.inl e)))
      · by_cases hlt : x < h1.pool.next
        · exact b.mpr (Or.inl (a.mpr (Or.inr ⟨e1, hlt⟩)))
        · exact b.mpr (Or.inr ⟨by omega, e2⟩)
  · rw [f2.keep x (f1.held hx) hn, f1.keep x hx hn]

theorem Frame.mono {h h' : Heap} {ex : List Nat} (f : Frame h h' []) : Frame h h' ex :=
  ⟨f.pool, f.next_le, f.free, fun x hx _ => f.keep x hx (by simp)⟩

theorem Good.frame {h h' : Heap} {l : List Nat} {ref : Ref} {ex : List Nat} (g : Good h l ref)
    (f : Frame h h' ex) (hd : ∀ x ∈ l, x ∉ ex) : Good h' l ref :=
  ⟨f.pool, chainOf_congr h.objs h'.objs l ref (fun x hx => f.keep x (g.held x hx) (hd x hx)) g.chain, g.nodup,
    fun o ho => f.held (g.held o ho)⟩

theorem ctxOf_frame (root : Ctx) {h h' : Heap} {l : List Nat} {ref : Ref} {ex : List Nat} (g : Good h l ref)
    (f : Frame h h' ex) (hd : ∀ x ∈ l, x ∉ ex) : ctxOf root h'.objs l = ctxOf root h.objs l :=
  ctxOf_congr root h.objs h'.objs l (fun x hx => f.keep x (g.held x hx) (hd x hx))

/-- `s.vals[0] = a; s.vals[1] = b` on the head of the chain. -/
theorem setVals_good {h : Heap} {o : Nat} {l : List Nat} (g : Good h (o :: l) (.obj o)) (a b : Bytes) :
    Good (h.setVals o a b) (o :: l) (.obj o) ∧ Frame h (h.setVals o a b) [o] ∧
    (∀ root, ctxOf root (h.setVals o a b).objs (o :: l) = subCtx (ctxOf root h.objs l) a b) ∧
    (∀ root, ctxOf root (h.setVals o a b).objs l = ctxOf root h.objs l) := by
  have hnd := List.nodup_cons.mp g.nodup
  have hagree : ∀ x ∈ l, (h.setVals o a b).objs x = h.objs x := by
    intro x hx
    have : x ≠ o := fun e => hnd.1 (e ▸ hx)
    simp [Heap.setVals, Heap.set, this]
  have hpar : ((h.setVals o a b).objs o).parent = (h.objs o).parent := by simp [Heap.setVals, Heap.set]
  refine ⟨⟨g.pool, ⟨rfl, ?_⟩, g.nodup, g.held⟩, ⟨g.pool, Nat.le_refl _, fun x => ?_, fun x _ hx => ?_⟩, fun root => ?_,
    fun root => ctxOf_congr root h.objs _ l hagree⟩
  · rw [hpar]
    exact chainOf_congr h.objs _ l _ hagree g.chain.2
  · exact ⟨Or.inl, fun e => e.elim id (fun ⟨p, q⟩ => by
      have : (h.setVals o a b).pool = h.pool := rfl
      rw [this] at q; omega)⟩
  · have : x ≠ o := by simpa using hx
    simp [Heap.setVals, Heap.set, this]
  · simp only [ctxOf]
    rw [ctxOf_congr root h.objs _ l hagree]
    simp [Heap.setVals, Heap.set]

/-! ### Get … Return -/

theorem acquire_spec {h : Heap} {l : List Nat} {ref : Ref} (g : Good h l ref) :
    Good (acquire h ref).2 ((acquire h ref).1 :: l) (.obj (acquire h ref).1) ∧
    Good (acquire h ref).2 l ref ∧
    (∀ root, ctxOf root (acquire h ref).2.objs l = ctxOf root h.objs l) ∧
    ¬ Held h.pool (acquire h ref).1 ∧
    h.pool.next ≤ (acquire h ref).2.pool.next ∧
    (∀ x, x ∈ (acquire h ref).2.pool.free ∨ x = (acquire h ref).1 ↔
      x ∈ h.pool.free ∨ (h.pool.next ≤ x ∧ x < (acquire h ref).2.pool.next)) ∧
    (∀ x, x ≠ (acquire h ref).1 → (acquire h ref).2.objs x = h.objs x) ∧
    (∀ x, Held h.pool x → Held (acquire h ref).2.pool x) := by
  obtain ⟨hn, hb⟩ := g.pool
  -- the two cases of `Get`
  have key : ∃ o p1, h.pool.get = (o, p1) ∧ PoolOk p1 ∧ Held p1 o ∧ ¬ Held h.pool o ∧ h.pool.next ≤ p1.next ∧
      (∀ x, x ∈ p1.free ∨ x = o ↔ x ∈ h.pool.free ∨ (h.pool.next ≤ x ∧ x < p1.next)) ∧
      (∀ x, Held h.pool x → Held p1 x) := by
    cases hl : h.pool.free.getLast? with
    | none =>
      have hf : h.pool.free = [] := List.getLast?_eq_none_iff.mp hl
      refine ⟨h.pool.next, { h.pool with next := h.pool.next + 1 }, get_of_empty hl, ?_, ?_, ?_, ?_, ?_, ?_⟩
      · exact ⟨by simp [hf], by simp [hf]⟩
      · exact ⟨by simp, by simp [hf]⟩
      · exact fun hh => Nat.lt_irrefl _ hh.1
      · simp
      · intro x; simp only [hf, List.not_mem_nil, false_or]; constructor
        · intro e; subst e; exact ⟨Nat.le_refl _, by simp⟩
        · rintro ⟨a, b⟩; exact Nat.le_antisymm (Nat.le_of_lt_succ b) a
      · intro x hx; exact ⟨by simp; have := hx.1; omega, by simp [hf]⟩
    | some o =>
      obtain ⟨ys, hy⟩ := List.getLast?_eq_some_iff.mp hl
      have hd : h.pool.free.dropLast = ys := by rw [hy]; simp
      have hnd : (ys ++ [o]).Nodup := hy ▸ hn
      have ho : o ∉ ys := by
        intro hm
        have := List.nodup_append.mp hnd
        exact this.2.2 o hm o (by simp) rfl
      refine ⟨o, { h.pool with free := h.pool.free.dropLast }, get_of_last hl, ?_, ?_, ?_, ?_, ?_, ?_⟩
      · rw [hd]
        exact ⟨(List.nodup_append.mp hnd).1, fun x hx => hb x (by rw [hy]; simp [hx])⟩
      · rw [hd]; exact ⟨hb o (by rw [hy]; simp), ho⟩
      · exact fun hh => hh.2 (by rw [hy]; simp)
      · exact Nat.le_refl _
      · intro x; rw [hd, hy]; simp only [List.mem_append, List.mem_singleton]
        constructor
        · intro e; exact Or.inl e
        · rintro (e | ⟨a, b⟩)
          · exact e
          · exact absurd b (Nat.not_lt.mpr a)
      · intro x hx; rw [hd]
        exact ⟨hx.1, fun hm => hx.2 (by rw [hy]; simp [hm])⟩
  obtain ⟨o, p1, hget, hp1, hho, hnh, hle, hfree, hheld⟩ := key
  have e1 : (acquire h ref).1 = o := by simp [acquire, hget]
  have e2 : (acquire h ref).2 = ({ h with pool := p1 } : Heap).set o ⟨ref, [], []⟩ := by simp [acquire, hget]
  rw [e1, e2]
  have hol : o ∉ l := fun hm => hnh (g.held o hm)
  have hagree : ∀ x, x ≠ o → (({ h with pool := p1 } : Heap).set o ⟨ref, [], []⟩).objs x = h.objs x := by
    intro x hx; simp [Heap.set, hx]
  have hagl : ∀ x ∈ l, (({ h with pool := p1 } : Heap).set o ⟨ref, [], []⟩).objs x = h.objs x :=
    fun x hx => hagree x (fun e => hol (e ▸ hx))
  have hchain : chainOf (({ h with pool := p1 } : Heap).set o ⟨ref, [], []⟩).objs l ref :=
    chainOf_congr h.objs _ l ref hagl g.chain
  refine ⟨⟨hp1, ⟨rfl, ?_⟩, List.nodup_cons.mpr ⟨hol, g.nodup⟩, ?_⟩, ⟨hp1, hchain, g.nodup, fun x hx => hheld x (g.held x hx)⟩,
    fun root => ctxOf_congr root h.objs _ l hagl, hnh, hle, hfree, hagree, hheld⟩
  · have : ((({ h with pool := p1 } : Heap).set o ⟨ref, [], []⟩).objs o).parent = ref := by simp [Heap.set]
    rw [this]; exact hchain
  · intro x hx
    rcases List.mem_cons.mp hx with e | hx
    · subst e; exact hho
    · exact hheld x (g.held x hx)

/-- From `Get` to the deferred `Return`: whatever happened in between respected the object. -/
theorem release_frame {h h1 h3 : Heap} {o : Nat}
    (hnh : ¬ Held h.pool o) (hle : h.pool.next ≤ h1.pool.next)
    (hfree : ∀ x, x ∈ h1.pool.free ∨ x = o ↔ x ∈ h.pool.free ∨ (h.pool.next ≤ x ∧ x < h1.pool.next))
    (hagree : ∀ x, x ≠ o → h1.objs x = h.objs x)
    (hheld1 : Held h1.pool o) (hh : ∀ x, Held h.pool x → Held h1.pool x)
    (f : Frame h1 h3 [o]) : Frame h (release h3 o) [] := by
  have ho3 : Held h3.pool o := f.held hheld1
  have n3 := f.next_le
  refine ⟨⟨?_, ?_⟩, Nat.le_trans hle f.next_le, fun x => ?_, fun x hx _ => ?_⟩
  · show (h3.pool.free ++ [o]).Nodup
    refine List.nodup_append.mpr ⟨f.pool.1, by simp, ?_⟩
    intro a ha b hb e
    simp at hb; subst hb; subst e; exact ho3.2 ha
  · intro x hx
    have : x ∈ h3.pool.free ++ [o] := hx
    simp only [List.mem_append, List.mem_singleton] at this
    rcases this with e | e
    · exact f.pool.2 x e
    · subst e; exact ho3.1
  · show x ∈ h3.pool.free ++ [o] ↔ _
    simp only [List.mem_append, List.mem_singleton]
    have a := f.free x
    have b := hfree x
    show x ∈ h3.pool.free ∨ x = o ↔ x ∈ h.pool.free ∨ (h.pool.next ≤ x ∧ x < h3.pool.next)
    constructor
    · rintro (e | e)
      · rcases a.mp e with e | ⟨e1, e2⟩
        · rcases b.mp (Or.inl e) with e | ⟨e1, e2⟩
          · exact Or.inl e
          · exact Or.inr ⟨e1, by omega⟩
        · exact Or.inr ⟨by omega, e2⟩
      · rcases b.mp (Or.inr e) with e | ⟨e1, e2⟩
        · exact Or.inl e
        · exact Or.inr ⟨e1, by omega⟩
    · intro hm
      have hb' : x ∈ h.pool.free ∨ (h.pool.next ≤ x ∧ x < h1.pool.next) ∨ (h1.pool.next ≤ x ∧ x < h3.pool.next) := by
        rcases hm with e | ⟨e1, e2⟩
        · exact Or.inl e
        · by_cases hlt : x < h1.pool.next
          · exact Or.inr (Or.inl ⟨e1, hlt⟩)
          · exact Or.inr (Or.inr ⟨by omega, e2⟩)
      rcases hb' with e | e | e
      · rcases b.mpr (Or.inl e) with e | e
        · exact Or.inl (a.mpr (Or.inl e))
        · exact Or.inr e
      · rcases b.mpr (Or.inr e) with e | e
        · exact Or.inl (a.mpr (Or.inl e))
        · exact Or.inr e
      · exact Or.inl (a.mpr (Or.inr e))
  · have hxo : x ≠ o := fun e => hnh (e ▸ hx)
    show h3.objs x = h.objs x
    rw [f.keep x (hh x hx) (by simpa using hxo), hagree x hxo]

/-! ### the loops against the object -/

/-- The invariant of a helper's loop: its object heads the chain, the enclosing context is `ctx`. -/
def LoopInv (root ctx : Ctx) (o : Nat) (l : List Nat) (h : Heap) : Prop :=
  Good h (o :: l) (.obj o) ∧ ctxOf root h.objs l = ctx

/-- The sub-expression, run against the object after `Eval` stored `a`, `b`, answers `F a b`. -/
def SubOk (root ctx : Ctx) (evf : Ref → Heap → Res) (o : Nat) (l : List Nat) (F : Bytes → Bytes → Bytes) : Prop :=
  ∀ h a b, LoopInv root ctx o l h →
    ∃ h', evf (.obj o) (h.setVals o a b) = .ok (F a b, h') ∧ Frame (h.setVals o a b) h' []

theorem loopInv_step {root ctx : Ctx} {o : Nat} {l : List Nat} {h h' : Heap} (hi : LoopInv root ctx o l h)
    (a b : Bytes) (f : Frame (h.setVals o a b) h' []) : LoopInv root ctx o l h' ∧ Frame h h' [o] := by
  obtain ⟨g1, f1, _, hc⟩ := setVals_good hi.1 a b
  refine ⟨⟨g1.frame f (by simp), ?_⟩, f1.trans f.mono⟩
  rw [ctxOf_congr root (h.setVals o a b).objs h'.objs l
    (fun x hx => f.keep x (g1.held x (List.mem_cons_of_mem _ hx)) (by simp)), hc root, hi.2]

theorem objLoop_spec {σ : Type} (root ctx : Ctx) (evf : Ref → Heap → Res) (o : Nat) (l : List Nat)
    (F : Bytes → Bytes → Bytes) (hsub : SubOk root ctx evf o l F)
    (args : σ → Bytes → Bytes × Bytes) (upd : σ → Bytes → Bytes → σ) :
    ∀ (xs : List Bytes) (s : σ) (h : Heap), LoopInv root ctx o l h →
      ∃ h', objLoop evf o args upd xs s h =
          .ok (xs.foldl (fun s x => upd s x (F (args s x).1 (args s x).2)) s, h') ∧
        LoopInv root ctx o l h' ∧ Frame h h' [o]
  | [], s, h, hi => ⟨h, rfl, hi, Frame.refl h hi.1.pool _⟩
  | x :: xs, s, h, hi => by
    obtain ⟨h1, e1, f1⟩ := hsub h (args s x).1 (args s x).2 hi
    obtain ⟨hi1, fr1⟩ := loopInv_step hi _ _ f1
    obtain ⟨h2, e2, hi2, fr2⟩ := objLoop_spec root ctx evf o l F hsub args upd xs
      (upd s x (F (args s x).1 (args s x).2)) h1 hi1
    refine ⟨h2, ?_, hi2, fr1.trans fr2⟩
    simp only [objLoop, e1, List.foldl_cons]
    exact e2

theorem forLoopH_spec (root ctx : Ctx) (evc evn : Ref → Heap → Res) (o : Nat) (l : List Nat)
    (Fc Fn : Bytes → Bytes → Bytes) (hc : SubOk root ctx evc o l Fc) (hn : SubOk root ctx evn o l Fn) :
    ∀ (fuel idx : Nat) (v : Bytes) (acc : List Bytes) (h : Heap), LoopInv root ctx o l h →
      idx ≤ Gen.maxIterations → Gen.maxIterations - idx < fuel →
      ∃ h', forLoopH evc evn o fuel idx v acc h =
          .ok ((iterateWhile (fun v k => truthy (Fc v (itoa (k : Nat)))) (fun v k => Fn v (itoa (k : Nat)))
                  (Gen.maxIterations - idx) idx v).map (acc ++ ·), h') ∧
        LoopInv root ctx o l h' ∧ Frame h h' [o]
  | 0, idx, v, acc, h, _, _, hf => by omega
  | fuel + 1, idx, v, acc, h, hi, hle, hf => by
    obtain ⟨h1, e1, f1⟩ := hc h v (itoa (idx : Nat)) hi
    obtain ⟨hi1, fr1⟩ := loopInv_step hi _ _ f1
    by_cases ht : truthy (Fc v (itoa (idx : Nat))) = true
    · obtain ⟨h2, e2, f2⟩ := hn h1 v (itoa (idx : Nat)) hi1
      obtain ⟨hi2, fr2⟩ := loopInv_step hi1 _ _ f2
      by_cases hmax : idx + 1 > Gen.maxIterations
      · have e0 : Gen.maxIterations - idx = 0 := by omega
        refine ⟨h2, ?_, hi2, fr1.trans fr2⟩
        simp only [forLoopH, e1, ht, Bool.not_true, Bool.false_eq_true, if_false, e2, hmax, if_true, e0,
          iterateWhile, Option.map_none]
      · have es : Gen.maxIterations - idx = (Gen.maxIterations - (idx + 1)) + 1 := by omega
        obtain ⟨h3, e3, hi3, fr3⟩ := forLoopH_spec root ctx evc evn o l Fc Fn hc hn fuel (idx + 1)
          (Fn v (itoa (idx : Nat))) (acc ++ [v]) h2 hi2 (by omega) (by omega)
        refine ⟨h3, ?_, hi3, (fr1.trans fr2).trans fr3⟩
        simp only [forLoopH, e1, ht, Bool.not_true, Bool.false_eq_true, if_false, e2, hmax, e3]
        rw [es]
        simp only [iterateWhile, ht, if_true, Option.map_map]
        have : (fun x => acc ++ [v] ++ x) = ((fun x => acc ++ x) ∘ fun x => v :: x) := by funext ys; simp
        rw [this]
    · have ht' : truthy (Fc v (itoa (idx : Nat))) = false := by simpa using ht
      refine ⟨h1, ?_, hi1, fr1⟩
      simp only [forLoopH, e1, ht', Bool.not_false, if_true]
      cases hlim : Gen.maxIterations - idx <;> simp [iterateWhile, ht']

theorem foldl_snoc_map (g : Bytes → Bytes) (xs : List Bytes) (init : List Bytes) :
    xs.foldl (fun s x => s ++ [g x]) init = init ++ xs.map g := by
  induction xs generalizing init with
  | nil => simp
  | cons x r ih => simp [ih]

theorem foldl_snoc_filter (p : Bytes → Bool) (xs : List Bytes) (init : List Bytes) :
    xs.foldl (fun s x => if p x then s ++ [x] else s) init = init ++ xs.filter p := by
  induction xs generalizing init with
  | nil => simp
  | cons x r ih =>
    by_cases hp : p x = true <;> simp [ih, hp]

/-! ### every template -/

/-- The induction hypothesis for a sub-template, as a statement about its evaluator. -/
def EvOk (root : Ctx) (fuel : Nat) (t : Tm) : Prop :=
  ∀ (ref : Ref) (h : Heap) (l : List Nat), Good h l ref → l.length + depth t < fuel →
    ∃ h', ev root fuel t ref h = .ok (val t (ctxOf root h.objs l), h') ∧ Frame h h' []

theorem subOk_of_evOk {root : Ctx} {fuel : Nat} {f : Tm} (ih : EvOk root fuel f) (ctx : Ctx) (o : Nat) (l : List Nat)
    (hlen : (o :: l).length + depth f < fuel) :
    SubOk root ctx (ev root fuel f) o l (fun a b => val f (subCtx ctx a b)) := by
  intro h a b hi
  obtain ⟨g1, _, hc, _⟩ := setVals_good hi.1 a b
  obtain ⟨h', e, fr⟩ := ih (.obj o) (h.setVals o a b) (o :: l) g1 hlen
  refine ⟨h', ?_, fr⟩
  rw [e, hc root, hi.2]

/-- `Get` … element loop … deferred `Return`, when the array argument is evaluated AFTER `Get` (`@map`, `@reduce`). -/
theorem helper_get_first {σ : Type} {root : Ctx} {fuel : Nat} {a f : Tm} (iha : EvOk root fuel a) (ihf : EvOk root fuel f)
    {ref : Ref} {h : Heap} {l : List Nat} (g : Good h l ref)
    (hda : l.length + depth a < fuel) (hdf : l.length + 1 + depth f < fuel)
    (args : σ → Bytes → Bytes × Bytes) (upd : σ → Bytes → Bytes → σ) (items : Bytes → List Bytes) (s0 : Bytes → σ) :
    ∃ h2 h3, ev root fuel a ref (acquire h ref).2 = .ok (val a (ctxOf root h.objs l), h2) ∧
      objLoop (ev root fuel f) (acquire h ref).1 args upd (items (val a (ctxOf root h.objs l)))
          (s0 (val a (ctxOf root h.objs l))) h2 =
        .ok ((items (val a (ctxOf root h.objs l))).foldl
          (fun s x => upd s x (val f (subCtx (ctxOf root h.objs l) (args s x).1 (args s x).2)))
          (s0 (val a (ctxOf root h.objs l))), h3) ∧
      Frame h (release h3 (acquire h ref).1) [] := by
  obtain ⟨g1, g1l, hctx1, hnh, hle, hfree, hagree, hheld⟩ := acquire_spec g (ref := ref)
  obtain ⟨h2, e2, fr2⟩ := iha ref (acquire h ref).2 l g1l hda
  rw [hctx1 root] at e2
  have hi2 : LoopInv root (ctxOf root h.objs l) (acquire h ref).1 l h2 :=
    ⟨g1.frame fr2 (by simp), by rw [ctxOf_frame root g1l fr2 (by simp), hctx1 root]⟩
  have hsub := subOk_of_evOk ihf (ctxOf root h.objs l) (acquire h ref).1 l (by simp; omega)
  obtain ⟨h3, e3, _, fr3⟩ := objLoop_spec root _ _ _ l _ hsub args upd
    (items (val a (ctxOf root h.objs l))) (s0 (val a (ctxOf root h.objs l))) h2 hi2
  exact ⟨h2, h3, e2, e3,
    release_frame hnh hle hfree hagree (g1.held _ (by simp)) hheld ((fr2.mono (ex := [(acquire h ref).1])).trans fr3)⟩

theorem ev_val (root : Ctx) (fuel : Nat) : ∀ (t : Tm), Total t → EvOk root fuel t
  | .scalar c, ht => by
    intro ref h l g hf
    refine ⟨h, ?_, Frame.refl h g.pool _⟩
    simp only [ev, val, runH_chain root h.objs l ref fuel g.chain (by simp [depth] at hf; omega) c,
      run_noPanic _ c ht]
  | .app1 gf a, ht => by
    intro ref h l g hf
    obtain ⟨h1, e1, f1⟩ := ev_val root fuel a ht ref h l g (by simpa [depth] using hf)
    exact ⟨h1, by simp only [ev, e1, val], f1⟩
  | .app2 gf a b, ht => by
    intro ref h l g hf
    have hd : l.length + depth a < fuel ∧ l.length + depth b < fuel := by simp only [depth] at hf; omega
    obtain ⟨h1, e1, f1⟩ := ev_val root fuel a ht.1 ref h l g hd.1
    obtain ⟨h2, e2, f2⟩ := ev_val root fuel b ht.2 ref h1 l (g.frame f1 (by simp)) hd.2
    rw [ctxOf_frame root g f1 (by simp)] at e2
    exact ⟨h2, by simp only [ev, e1, e2, val], f1.trans f2⟩
  | .map a f, ht => by
    intro ref h l g hf
    have hd : l.length + depth a < fuel ∧ l.length + 1 + depth f < fuel := by simp only [depth] at hf; omega
    obtain ⟨h2, h3, e2, e3, fr⟩ := helper_get_first (ev_val root fuel a ht.1) (ev_val root fuel f ht.2) g hd.1 hd.2
      (fun (_ : List Bytes) x => (x, [])) (fun s _ y => s ++ [y]) elems (fun _ => [])
    refine ⟨_, ?_, fr⟩
    simp only [ev, e2, e3, val, foldl_snoc_map, List.nil_append]
  | .filter a p, ht => by
    intro ref h l g hf
    have hd : l.length + depth a < fuel ∧ l.length + 1 + depth p < fuel := by simp only [depth] at hf; omega
    obtain ⟨h1, e1, f1⟩ := ev_val root fuel a ht.1 ref h l g hd.1
    have g1 := g.frame f1 (by simp)
    have hc1 := ctxOf_frame root g f1 (by simp)
    obtain ⟨ga, _, hctx, hnh, hle, hfree, hagree, hheld⟩ := acquire_spec g1 (ref := ref)
    have hi : LoopInv root (ctxOf root h.objs l) (acquire h1 ref).1 l (acquire h1 ref).2 :=
      ⟨ga, by rw [hctx root, hc1]⟩
    have hsub := subOk_of_evOk (ev_val root fuel p ht.2) (ctxOf root h.objs l) (acquire h1 ref).1 l (by simp; omega)
    obtain ⟨h3, e3, _, fr3⟩ := objLoop_spec root _ _ _ l _ hsub (fun (_ : List Bytes) x => (x, []))
      (fun s x y => if truthy y then s ++ [x] else s) (elems (val a (ctxOf root h.objs l))) [] _ hi
    refine ⟨release h3 (acquire h1 ref).1, ?_,
      f1.trans (release_frame hnh hle hfree hagree (ga.held _ (by simp)) hheld fr3)⟩
    simp only [ev, e1, e3, val]
    rw [foldl_snoc_filter (fun x => truthy (val p (subCtx (ctxOf root h.objs l) x [])))]
    simp
  | .reduce init a f, ht => by
    intro ref h l g hf
    have hd : l.length + depth a < fuel ∧ l.length + 1 + depth f < fuel := by simp only [depth] at hf; omega
    obtain ⟨h2, h3, e2, e3, fr⟩ := helper_get_first (ev_val root fuel a ht.1) (ev_val root fuel f ht.2) g hd.1 hd.2
      (fun (memo : Bytes) x => (memo, x)) (fun _ _ y => y)
      (fun arr => (if init = [] then ((elems arr).headD [], (elems arr).tail) else (init, elems arr) : Bytes × List Bytes).2)
      (fun arr => (if init = [] then ((elems arr).headD [], (elems arr).tail) else (init, elems arr) : Bytes × List Bytes).1)
    refine ⟨_, ?_, fr⟩
    simp only [ev, e2, e3, val]
    congr 2
    unfold reduce
    by_cases hi : init = []
    · simp only [hi, if_true]
      cases elems (val a (ctxOf root h.objs l)) <;> simp
    · simp [hi]
  | .for_ s c n, ht => by
    intro ref h l g hf
    have hd : l.length + depth s < fuel ∧ l.length + 1 + depth c < fuel ∧ l.length + 1 + depth n < fuel := by
      simp only [depth] at hf; omega
    obtain ⟨h1, e1, f1⟩ := ev_val root fuel s ht.1 ref h l g hd.1
    have g1 := g.frame f1 (by simp)
    have hc1 := ctxOf_frame root g f1 (by simp)
    obtain ⟨ga, _, hctx, hnh, hle, hfree, hagree, hheld⟩ := acquire_spec g1 (ref := ref)
    have hi : LoopInv root (ctxOf root h.objs l) (acquire h1 ref).1 l (acquire h1 ref).2 :=
      ⟨ga, by rw [hctx root, hc1]⟩
    have hsc := subOk_of_evOk (ev_val root fuel c ht.2.1) (ctxOf root h.objs l) (acquire h1 ref).1 l (by simp; omega)
    have hsn := subOk_of_evOk (ev_val root fuel n ht.2.2) (ctxOf root h.objs l) (acquire h1 ref).1 l (by simp; omega)
    obtain ⟨h3, e3, _, fr3⟩ := forLoopH_spec root _ _ _ _ l _ _ hsc hsn (Gen.maxIterations + 2) 0
      (val s (ctxOf root h.objs l)) [] _ hi (by omega) (by omega)
    refine ⟨release h3 (acquire h1 ref).1, ?_,
      f1.trans (release_frame hnh hle hfree hagree (ga.held _ (by simp)) hheld fr3)⟩
    simp only [ev, e1, e3, val, Nat.sub_zero]
    cases iterateWhile (fun v k => truthy (val c (subCtx (ctxOf root h.objs l) v (itoa (k : Nat)))))
      (fun v k => val n (subCtx (ctxOf root h.objs l) v (itoa (k : Nat)))) Gen.maxIterations 0
      (val s (ctxOf root h.objs l)) <;> simp

/-- The initial situation of an evaluation: the line's match context and any pool in order. -/
theorem good_root (h : Heap) (hp : PoolOk h.pool) : Good h [] .root := ⟨hp, trivial, by simp, by simp⟩

/-- `NewObjectPool(n)` is in order. -/
theorem poolOk_new (n : Nat) : PoolOk (Pool.new n) := by
  constructor
  · simp [Pool.new, List.nodup_range]
  · intro o ho; simpa [Pool.new] using ho

end Rare.C17
