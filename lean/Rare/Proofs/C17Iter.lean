import Rare.Spec.C17
import Rare.Spec.C17Iter
/-!
C17: `iterateWhile` (the specification of `@for`) with a condition that only counts rounds: exactly `N` values
when they fit under the limit, `none` (the `<INF>` answer) as soon as there is one more.
-/
namespace Rare.C17

theorem iterN_length (next : Bytes → Nat → Bytes) : ∀ (n k : Nat) (v : Bytes), (iterN next n k v).length = n
  | 0, _, _ => rfl
  | n + 1, k, v => by simp [iterN, iterN_length next n]

/-- The condition is only looked at in the rounds `k … k + limit`. -/
theorem iterateWhile_counted (cond : Bytes → Nat → Bool) (next : Bytes → Nat → Bytes) (N : Nat) :
    ∀ (limit k : Nat) (v : Bytes), (∀ w k', k' ≤ k + limit → cond w k' = decide (k' < N)) →
      iterateWhile cond next limit k v = if N - k ≤ limit then some (iterN next (N - k) k v) else none
  | 0, k, v, hc => by
    have h := hc v k (by omega)
    by_cases hk : k < N
    · have : ¬ N - k ≤ 0 := by omega
      simp [iterateWhile, h, hk, this]
    · have e : N - k = 0 := by omega
      simp [iterateWhile, h, hk, e, iterN]
  | limit + 1, k, v, hc => by
    have h := hc v k (by omega)
    have ih := iterateWhile_counted cond next N limit (k + 1) (next v k)
      (fun w k' hk' => hc w k' (by omega))
    by_cases hk : k < N
    · have e : N - k = (N - (k + 1)) + 1 := by omega
      simp only [iterateWhile, h, hk, decide_true, if_true, ih]
      by_cases hl : N - (k + 1) ≤ limit
      · have : N - k ≤ limit + 1 := by omega
        simp only [hl, this, if_true, Option.map_some]
        rw [e, iterN]
      · have : ¬ N - k ≤ limit + 1 := by omega
        simp [hl, this]
    · have e : N - k = 0 := by omega
      simp [iterateWhile, h, hk, e, iterN]

end Rare.C17
