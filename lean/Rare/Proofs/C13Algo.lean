import Rare.Proofs.C13Order
/-! The `sort.Sort` contract (`SortContract`) is satisfiable: insertion sort written as a
comparison tree meets it (non-vacuity of the C13 permutation-invariance theorems). -/
namespace Rare.C13
namespace Algo
variable {α ρ τ : Type}

def map (f : ρ → τ) : Algo α ρ → Algo α τ
  | done r => done (f r)
  | ask a b k => ask a b (fun r => map f (k r))

def bind (x : Algo α ρ) (f : ρ → Algo α τ) : Algo α τ :=
  match x with
  | done r => f r
  | ask a b k => ask a b (fun r => bind (k r) f)

/-- Every possible result (whatever the answers) satisfies `Q`. -/
inductive AllOut (Q : ρ → Prop) : Algo α ρ → Prop
  | done (r : ρ) : Q r → AllOut Q (done r)
  | ask (a b : α) (k : Bool → Algo α ρ) : (∀ r, AllOut Q (k r)) → AllOut Q (ask a b k)

theorem runPure_map (less : α → α → Bool) (f : ρ → τ) : ∀ x : Algo α ρ,
    runPure less (map f x) = f (runPure less x)
  | done r => rfl
  | ask a b k => by simp only [map, runPure]; exact runPure_map less f (k (less a b))

theorem runPure_bind (less : α → α → Bool) (f : ρ → Algo α τ) : ∀ x : Algo α ρ,
    runPure less (bind x f) = runPure less (f (runPure less x))
  | done r => rfl
  | ask a b k => by simp only [bind, runPure]; exact runPure_bind less f (k (less a b))

theorem Within.mono {P Q : α → Prop} {x : Algo α ρ} (h : Within P x) (hpq : ∀ a, P a → Q a) : Within Q x := by
  induction h with
  | done r => exact Within.done r
  | ask a b k ha hb _ ih => exact Within.ask a b k (hpq a ha) (hpq b hb) ih

theorem AllOut.mono {Q R : ρ → Prop} {x : Algo α ρ} (h : AllOut Q x) (hqr : ∀ r, Q r → R r) : AllOut R x := by
  induction h with
  | done r hr => exact AllOut.done r (hqr r hr)
  | ask a b k _ ih => exact AllOut.ask a b k ih

theorem within_map {P : α → Prop} (f : ρ → τ) {x : Algo α ρ} (h : Within P x) : Within P (map f x) := by
  induction h with
  | done r => exact Within.done _
  | ask a b k ha hb _ ih => exact Within.ask a b _ ha hb ih

theorem allOut_map {Q : ρ → Prop} {R : τ → Prop} (f : ρ → τ) {x : Algo α ρ} (h : AllOut Q x)
    (hf : ∀ r, Q r → R (f r)) : AllOut R (map f x) := by
  induction h with
  | done r hr => exact AllOut.done _ (hf r hr)
  | ask a b k _ ih => exact AllOut.ask a b _ ih

theorem within_bind {P : α → Prop} {Q : ρ → Prop} {x : Algo α ρ} {f : ρ → Algo α τ}
    (hw : Within P x) (ho : AllOut Q x) (hf : ∀ r, Q r → Within P (f r)) : Within P (bind x f) := by
  induction hw with
  | done r => cases ho with | done _ hr => exact hf r hr
  | ask a b k ha hb _ ih =>
    cases ho with
    | ask _ _ _ hk => exact Within.ask a b _ ha hb (fun r => ih r (hk r))

theorem allOut_bind {Q : ρ → Prop} {R : τ → Prop} {x : Algo α ρ} {f : ρ → Algo α τ}
    (ho : AllOut Q x) (hf : ∀ r, Q r → AllOut R (f r)) : AllOut R (bind x f) := by
  induction ho with
  | done r hr => exact hf r hr
  | ask a b k _ ih => exact AllOut.ask a b _ ih

end Algo

open Algo

/-- Insertion of `x` into a list, as a comparison tree. -/
def insA {α : Type} (x : α) : List α → Algo α (List α)
  | [] => .done [x]
  | y :: ys => .ask x y (fun r => if r then .done (x :: y :: ys) else (insA x ys).map (y :: ·))

/-- Insertion sort as a comparison tree. -/
def isortA {α : Type} : List α → Algo α (List α)
  | [] => .done []
  | x :: xs => (isortA xs).bind (insA x)

theorem runPure_insA {α : Type} (less : α → α → Bool) (x : α) : ∀ l : List α,
    (insA x l).runPure less = ins less x l
  | [] => rfl
  | y :: ys => by
    simp only [insA, Algo.runPure, ins]
    cases less x y with
    | true => rfl
    | false => simp [Algo.runPure_map, runPure_insA less x ys]

theorem runPure_isortA {α : Type} (less : α → α → Bool) : ∀ l : List α,
    (isortA l).runPure less = isort less l
  | [] => rfl
  | x :: xs => by
    simp only [isortA, isort, Algo.runPure_bind, runPure_isortA less xs, runPure_insA]

theorem insA_within {α : Type} {P : α → Prop} (x : α) (hx : P x) : ∀ l : List α, (∀ y ∈ l, P y) →
    Within P (insA x l)
  | [], _ => Within.done _
  | y :: ys, h => by
    refine Within.ask x y _ hx (h y (List.mem_cons_self ..)) (fun r => ?_)
    cases r with
    | true => exact Within.done _
    | false => exact within_map _ (insA_within x hx ys (fun z hz => h z (List.mem_cons_of_mem _ hz)))

theorem insA_allOut {α : Type} (x : α) : ∀ l : List α, AllOut (fun r => r.Perm (x :: l)) (insA x l)
  | [] => AllOut.done _ (List.Perm.refl _)
  | y :: ys => by
    refine AllOut.ask x y _ (fun r => ?_)
    cases r with
    | true => exact AllOut.done _ (List.Perm.refl _)
    | false =>
      exact allOut_map _ (insA_allOut x ys) (fun r hr => (hr.cons y).trans (List.Perm.swap x y ys))

theorem isortA_spec {α : Type} : ∀ l : List α,
    Within (· ∈ l) (isortA l) ∧ AllOut (fun r => r.Perm l) (isortA l)
  | [] => ⟨Within.done _, AllOut.done _ (List.Perm.refl _)⟩
  | x :: xs => by
    obtain ⟨hw, ho⟩ := isortA_spec xs
    constructor
    · refine within_bind (hw.mono (fun a h => List.mem_cons_of_mem _ h)) ho (fun r hr => ?_)
      exact insA_within x (List.mem_cons_self ..) r (fun y hy => List.mem_cons_of_mem _ (hr.mem_iff.mp hy))
    · refine allOut_bind ho (fun r hr => ?_)
      exact (insA_allOut x r).mono (fun r' hr' => hr'.trans (hr.cons x))

/-- Insertion sort meets the `sort.Sort` contract. -/
theorem isortA_contract {α : Type} : SortContract (isortA (α := α)) :=
  ⟨fun l => (isortA_spec l).1,
   fun less l hnd ho => by rw [runPure_isortA]; exact isort_sorted hnd ho⟩

end Rare.C13
