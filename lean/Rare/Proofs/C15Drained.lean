import Rare.Proofs.C15Notify
/-!
C15 – plain notify follow, "remove-after-drain": if the reader had delivered everything when the
file was removed, the removed file never changes again and the reader's handle stays where it is,
so whatever happens afterwards the delivered stream is the complete content after the start position.
-/
namespace Rare.Follow
open Rare.C15.Spec

variable {β : Type} {cfg : NCfg}

/-- the file with inode 0 is gone from the path, its content is `c`, and the only handle there ever
    was sits at its end -/
structure Drained (c : List β) (st0 : Nat) (s : NSt β) : Prop where
  content : s.fs.content 0 = c
  handles : s.hist ++ s.f.toList = [⟨0, st0, c.length⟩]
  away : s.fs.path ≠ some 0
  next : 1 ≤ s.fs.next
  pathLt : ∀ i, s.fs.path = some i → i < s.fs.next

theorem drained_step (hre : cfg.reopen = false) {c : List β} {st0 : Nat} {w : Who} {s s' : NSt β}
    (h : Drained c st0 s) (hs : NStep cfg w s s') : Drained c st0 s' := by
  cases hs with
  | append _ i bs hp hbs =>
    refine ⟨?_, h.handles, h.away, h.next, h.pathLt⟩
    have : (0 : Nat) ≠ i := by intro h0; subst h0; exact h.away hp
    simp only [FS.append, this, if_false]; exact h.content
  | remove _ i hp => exact ⟨h.content, h.handles, by simp [FS.remove], h.next, by intro i hi; cases hi⟩
  | create _ hp =>
    have hn := h.next
    refine ⟨?_, h.handles, ?_, by simp only [FS.create]; omega, ?_⟩
    · have : (0 : Nat) ≠ s.fs.next := by omega
      simp only [FS.create, this, if_false]; exact h.content
    · simp only [FS.create, ne_eq, Option.some.injEq]; omega
    · intro i hi; simp only [FS.create, Option.some.injEq] at hi; simp only [FS.create]; omega
  | noise _ => exact ⟨h.content, h.handles, h.away, h.next, h.pathLt⟩
  | dispatch _ e rest he =>
    exact ⟨by simpa using h.content, by simpa using h.handles, by simpa using h.away, by simpa using h.next,
      by simpa using h.pathLt⟩
  | readSome _ x n hrd hf h1 hn =>
    exfalso
    have hh := h.handles
    rw [hf] at hh
    cases hhist : s.hist with
    | nil =>
      rw [hhist] at hh
      simp only [Option.toList_some, List.nil_append, List.cons.injEq, and_true] at hh
      subst hh
      simp only [unread, h.content, List.drop_length, List.length_nil] at hn
      omega
    | cons a l =>
      rw [hhist] at hh
      have := congrArg List.length hh
      simp at this
  | readEmpty _ x hrd hf hu => exact ⟨h.content, h.handles, h.away, h.next, h.pathLt⟩
  | readNil _ hrd hf => exact ⟨h.content, h.handles, h.away, h.next, h.pathLt⟩
  | recvW _ hrd hpw =>
    have : onWrite cfg { s with pw := s.pw - 1 } = { s with pw := s.pw - 1 } := by simp [onWrite, hre]
    rw [this]
    exact ⟨h.content, h.handles, h.away, h.next, h.pathLt⟩
  | recvD _ hrd hpd hre' => rw [hre] at hre'; cases hre'
  | recvDPlain _ hrd hpd _ =>
    exact ⟨h.content, by simpa [NSt.closeFile] using h.handles, h.away, h.next, h.pathLt⟩

theorem drained_reach (hre : cfg.reopen = false) {c : List β} {st0 : Nat} {s1 s2 : NSt β}
    (h : Drained c st0 s1) (hr : NReach cfg s1 s2) : Drained c st0 s2 := by
  induction hr with
  | refl => exact h
  | step _ hs ih => exact drained_step hre ih hs

theorem NReach.trans' {cfg : NCfg} {s0 s s' : NSt β} (h1 : NReach cfg s0 s) (h2 : NReach cfg s s') :
    NReach cfg s0 s' := by
  induction h2 with
  | refl => exact h1
  | step _ hs ih => exact .step ih hs

end Rare.Follow
