import Rare.Model.C07Acc
import Rare.Spec.C07Acc
import Rare.Proofs.C07Split
import Rare.Proofs.C07SubKeyA
/-! Refinement proof: the `AccumulatingGroup` model computes the spec fold (`Spec/C07Acc`). -/
namespace Rare.C07
open Rare.Expr (Comp Stage Ctx)

/-! ### the part look-up -/

theorem nul_ne_nil : nul ≠ [] := by decide

theorem nthNext_tracks (n : Nat) (s : Splitter) (fs : List Bytes) (r : Bytes) (hd : s.delim ≠ [])
    (h : Tracks s fs) : Splitter.nthNext (n + 1) s r = fs.getD n [] := by
  induction n generalizing s fs r with
  | zero =>
    obtain ⟨a, _, _⟩ := tracks_next s fs hd h
    have hdone := tracks_done s fs h
    simp only [Splitter.nthNext, hdone]
    cases fs with
    | nil => simp
    | cons x t => simpa using a
  | succ m ih =>
    obtain ⟨a, t, d⟩ := tracks_next s fs hd h
    have hdone := tracks_done s fs h
    rw [Splitter.nthNext, hdone]
    cases fs with
    | nil => simp
    | cons x t' =>
      simp only [List.isEmpty_cons, Bool.false_eq_true, if_false]
      rw [ih s.next'.2 t' s.next'.1 (by rw [d]; exact hd) t]
      simp

theorem accGetMatch_eq (m : Bytes) : accGetMatch m = partOf m := by
  funext idx
  unfold accGetMatch partOf
  by_cases h0 : idx = 0
  · simp [h0]
  · simp only [h0, if_false]
    by_cases hneg : idx < 0
    · have : idx.toNat = 0 := by omega
      simp [hneg, this, Splitter.nthNext]
    · simp only [hneg, if_false]
      obtain ⟨n, hn⟩ : ∃ n, idx.toNat = n + 1 := ⟨idx.toNat - 1, by omega⟩
      rw [hn, nthNext_tracks n _ (splitOn nul m) [] nul_ne_nil (tracks_init nul m)]
      simp

/-- The sort context numbers the parts of the group key from 0. -/
theorem sortGetMatch_eq (k : Bytes) (idx : Int) :
    sortGetMatch k idx = if idx < 0 then [] else (splitOn nul k).getD idx.toNat [] := by
  unfold sortGetMatch
  split
  · rfl
  · rw [nthNext_tracks _ _ (splitOn nul k) [] nul_ne_nil (tracks_init nul k)]

/-! ### the group key -/

theorem nulJoin_cons (a : Bytes) (r : List Bytes) : nulJoin (a :: r) = a ++ r.flatMap (fun x => nul ++ x) := by
  induction r generalizing a with
  | nil => simp [nulJoin]
  | cons b r ih => rw [nulJoin, ih]; simp

/-- Evaluate a list of stages in order (what `mapM` does in `Except`). -/
theorem mapM_except_cons {α β : Type} (f : α → Except String β) (a : α) (l : List α) :
    (a :: l).mapM f = (match f a with
      | .error m => .error m
      | .ok b => match l.mapM f with
        | .error m => .error m
        | .ok bs => .ok (b :: bs)) := by
  rw [List.mapM_cons]
  cases f a <;> simp [bind, Except.bind, pure, Except.pure]
  cases l.mapM f <;> rfl

theorem joinGroupKey_succ (ctx : Ctx) (gs : List AccGroupDef) (i : Nat) (sb : Bytes) :
    joinGroupKey ctx gs (i + 1) sb =
      (gs.mapM (m := Except String) fun g => g.expr.run ctx).map fun vs => sb ++ vs.flatMap (fun x => nul ++ x) := by
  induction gs generalizing i sb with
  | nil => simp [joinGroupKey, Except.map, pure, Except.pure]
  | cons g rest ih =>
    rw [joinGroupKey, mapM_except_cons]
    cases hg : g.expr.run ctx with
    | error m => simp [Except.map]
    | ok v =>
      simp only [Nat.zero_lt_succ, if_true]
      rw [ih]
      cases rest.mapM (m := Except String) fun g => g.expr.run ctx with
      | error m => simp [Except.map]
      | ok vs => simp [Except.map]

theorem buildGroupKey_eq (s : AccGroup) (ctx : Ctx) :
    s.buildGroupKey ctx = (s.groupDef.mapM (m := Except String) fun g => g.expr.run ctx).map nulJoin := by
  unfold AccGroup.buildGroupKey
  match hg : s.groupDef with
  | [] => simp [Except.map, pure, Except.pure, nulJoin]
  | [g] =>
    simp only [mapM_except_cons, List.mapM_nil, pure, Except.pure]
    cases g.expr.run ctx <;> simp [Except.map, nulJoin]
  | g :: g2 :: rest =>
    simp only
    rw [joinGroupKey, mapM_except_cons]
    cases g.expr.run ctx with
    | error m => simp [Except.map]
    | ok v =>
      simp only [Nat.lt_irrefl, if_false, List.nil_append]
      rw [joinGroupKey_succ]
      cases (g2 :: rest).mapM (m := Except String) fun g => g.expr.run ctx with
      | error m => simp [Except.map]
      | ok vs => simp [Except.map, nulJoin_cons]


/-! ### model definitions seen as spec definitions -/

def stageExpr (e : Stage) : SExpr := fun L => e.run { getMatch := L.part, getKey := L.key }

def AccDataDef.toSpec (d : AccDataDef) : SCol := ⟨d.name, d.initial, stageExpr d.expr⟩
def AccGroup.specCols (s : AccGroup) : List SCol := s.colDef.map AccDataDef.toSpec
def AccGroup.specGroups (s : AccGroup) : List SExpr := s.groupDef.map fun g => stageExpr g.expr

/-- Invariant of `AccumulatingGroup`: data-column names are distinct, `colIdxLookup` is exactly the
inverse of the column list, every row has one entry per data column, group names are distinct. -/
structure AccWF (s : AccGroup) : Prop where
  names_nodup : s.dataCols.Nodup
  idx : ∀ k j, aget s.colIdx k = some j ↔ s.dataCols[j]? = some k
  rows : ∀ k row, aget s.data k = some row → row.length = s.colDef.length
  gnames_nodup : s.groupCols.Nodup

theorem specCols_names (s : AccGroup) : s.specCols.map (·.name) = s.dataCols := by
  simp [AccGroup.specCols, AccGroup.dataCols, AccDataDef.toSpec]

theorem specCols_length (s : AccGroup) : s.specCols.length = s.colDef.length := by
  simp [AccGroup.specCols]

/-! ### named look-up -/

theorem zip_lookup_none (names : List Bytes) (row : List Bytes) (k : Bytes) (h : k ∉ names) :
    (names.zip row).lookup k = none := by
  induction names generalizing row with
  | nil => simp
  | cons n ns ih =>
    cases row with
    | nil => simp
    | cons r rs =>
      have hne : ¬ k = n := fun e => h (by simp [e])
      have : (k == n) = false := by simpa using hne
      simp only [List.zip_cons_cons, List.lookup_cons, this]
      exact ih rs (fun hm => h (List.mem_cons_of_mem _ hm))

theorem zip_lookup_some (names : List Bytes) (row : List Bytes) (k : Bytes) (j : Nat)
    (hn : names.Nodup) (hj : names[j]? = some k) : (names.zip row).lookup k = row[j]? := by
  induction names generalizing row j with
  | nil => simp at hj
  | cons n ns ih =>
    have hnd := List.nodup_cons.mp hn
    cases j with
    | zero =>
      have : n = k := by simpa using hj
      subst this
      cases row with
      | nil => simp
      | cons r rs => simp
    | succ j =>
      have hj' : ns[j]? = some k := by simpa using hj
      have hmem : k ∈ ns := List.mem_of_getElem? hj'
      have hne : (k == n) = false := by
        have : ¬ k = n := fun e => hnd.1 (e ▸ hmem)
        simpa using this
      cases row with
      | nil => simp
      | cons r rs =>
        simp only [List.zip_cons_cons, List.lookup_cons, hne, List.getElem?_cons_succ]
        exact ih rs j hnd.2 hj'

theorem accKeyLookup_eq (s : AccGroup) (wf : AccWF s) (row : List Bytes) (k : Bytes) :
    accKeyLookup s.colIdx row k = named s.dataCols row k := by
  unfold accKeyLookup named
  cases hg : aget s.colIdx k with
  | some j =>
    have := (wf.idx k j).mp hg
    rw [zip_lookup_some _ row k j wf.names_nodup this]
    simp [List.getD_eq_getElem?_getD]
  | none =>
    have hnot : k ∉ s.dataCols := by
      intro hm
      obtain ⟨j, hj⟩ := List.getElem?_of_mem hm
      have := (wf.idx k j).mpr hj
      rw [hg] at this; cases this
    rw [zip_lookup_none _ row k hnot]; rfl

/-- Every index the look-up closure uses is inside the row (no Go panic, no default value taken). -/
theorem accKeyLookup_in_range (s : AccGroup) (wf : AccWF s) (k : Bytes) (j : Nat) (row : List Bytes)
    (hrow : row.length = s.colDef.length) (h : aget s.colIdx k = some j) : j < row.length := by
  have := (wf.idx k j).mp h
  have hlt : j < s.dataCols.length := by
    rcases Nat.lt_or_ge j s.dataCols.length with h1 | h1
    · exact h1
    · rw [List.getElem?_eq_none h1] at this; cases this
  simpa [hrow, AccGroup.dataCols] using hlt

/-! ### the column loop -/

theorem sampleCols_length (colIdx : List (Bytes × Nat)) (e : Bytes) (ds : List AccDataDef) (i : Nat)
    (row row' : List Bytes) (h : sampleCols colIdx e ds i row = .ok row') : row'.length = row.length := by
  induction ds generalizing i row with
  | nil => simp [sampleCols] at h; subst h; rfl
  | cons d rest ih =>
    rw [sampleCols] at h
    split at h
    · cases h
    · split at h
      · cases h
      · have := ih _ _ h
        simpa using this

theorem accCtx_col (s : AccGroup) (wf : AccWF s) (e cur : Bytes) (row : List Bytes) (i : Nat)
    (hcur : row[i]? = some cur) :
    accCtx e cur (some (accKeyLookup s.colIdx row)) =
      { getMatch := (colLookups s.dataCols e row i).part, getKey := (colLookups s.dataCols e row i).key } := by
  unfold accCtx colLookups
  congr 1
  · exact accGetMatch_eq e
  · funext k
    unfold accGetKey dot
    by_cases hk : k = [46]
    · simp [hk, List.getD_eq_getElem?_getD, hcur]
    · simp only [hk, if_false]
      exact accKeyLookup_eq s wf row k

theorem updCol_at (cols : List SCol) (e : Bytes) (row : List Bytes) (i : Nat) (c : SCol) (h : cols[i]? = some c) :
    updCol cols e row i = (c.eval (colLookups (cols.map (·.name)) e row i)).map fun v => row.set i v := by
  unfold updCol; rw [h]

theorem sampleCols_eq (s : AccGroup) (wf : AccWF s) (e : Bytes) (k i : Nat) (row : List Bytes)
    (hk : k = s.colDef.length - i) (hrow : row.length = s.colDef.length) :
    sampleCols s.colIdx e (s.colDef.drop i) i row =
      (List.range' i k).foldlM (updCol s.specCols e) row := by
  induction k generalizing i row with
  | zero =>
    have : s.colDef.drop i = [] := List.drop_eq_nil_of_le (by omega)
    rw [this]; simp [sampleCols, pure, Except.pure]
  | succ k ih =>
    have hi : i < s.colDef.length := by omega
    rw [List.drop_eq_getElem_cons hi, sampleCols, List.range'_succ, List.foldlM_cons]
    have hcur : row[i]? = some row[i] := List.getElem?_eq_getElem (by omega)
    rw [hcur]
    simp only
    have hcol : s.specCols[i]? = some (s.colDef[i]).toSpec := by
      simp [AccGroup.specCols, List.getElem?_map, List.getElem?_eq_getElem hi]
    rw [updCol_at _ _ _ _ _ hcol]
    simp only [specCols_names, AccDataDef.toSpec, stageExpr]
    rw [accCtx_col s wf e row[i] row i hcur]
    cases hr : (s.colDef[i]).expr.run
        { getMatch := (colLookups s.dataCols e row i).part, getKey := (colLookups s.dataCols e row i).key } with
    | error m => simp [Except.map, bind, Except.bind]
    | ok v =>
      simp only [Except.map, bind, Except.bind]
      exact ih (i + 1) (row.set i v) (by omega) (by simpa using hrow)

theorem sampleCols_updRow (s : AccGroup) (wf : AccWF s) (e : Bytes) (row : List Bytes)
    (hrow : row.length = s.colDef.length) :
    sampleCols s.colIdx e s.colDef 0 row = updRow s.specCols row e := by
  have := sampleCols_eq s wf e s.colDef.length 0 row (by omega) hrow
  simpa [updRow, specCols_length, List.range_eq_range'] using this


/-! ### one sample, then a history -/

/-- The model state holds exactly the spec map. -/
def Holds (s : AccGroup) (st : SState) : Prop := ∀ k, aget s.data k = st k

/-- Only `data` differs. -/
def SameDefs (s s' : AccGroup) : Prop :=
  s'.groupDef = s.groupDef ∧ s'.colDef = s.colDef ∧ s'.colIdx = s.colIdx ∧ s'.sortExpr = s.sortExpr

theorem SameDefs.refl (s : AccGroup) : SameDefs s s := ⟨rfl, rfl, rfl, rfl⟩
theorem SameDefs.trans {a b c : AccGroup} (h1 : SameDefs a b) (h2 : SameDefs b c) : SameDefs a c :=
  ⟨h2.1.trans h1.1, h2.2.1.trans h1.2.1, h2.2.2.1.trans h1.2.2.1, h2.2.2.2.trans h1.2.2.2⟩

theorem SameDefs.specCols {a b : AccGroup} (h : SameDefs a b) : b.specCols = a.specCols := by
  unfold AccGroup.specCols; rw [h.2.1]
theorem SameDefs.specGroups {a b : AccGroup} (h : SameDefs a b) : b.specGroups = a.specGroups := by
  unfold AccGroup.specGroups; rw [h.1]

/-- Both sides fail with the same message, or both succeed with related results. -/
inductive ExRel {α β : Type} (R : α → β → Prop) : Except String α → Except String β → Prop
  | ok {a : α} {b : β} : R a b → ExRel R (.ok a) (.ok b)
  | error {m : String} : ExRel R (.error m) (.error m)

theorem ExRel.cases {α β : Type} {R : α → β → Prop} {x : Except String α} {y : Except String β}
    (h : ExRel R x y) : (∃ a b, x = .ok a ∧ y = .ok b ∧ R a b) ∨ (∃ m, x = .error m ∧ y = .error m) := by
  cases h with
  | ok r => exact Or.inl ⟨_, _, rfl, rfl, r⟩
  | error => exact Or.inr ⟨_, rfl, rfl⟩

theorem mapM_map_except {α β γ : Type} (f : α → β) (g : β → Except String γ) (l : List α) :
    (l.map f).mapM g = l.mapM (fun a => g (f a)) := by
  induction l with
  | nil => rfl
  | cons a l ih => rw [List.map_cons, mapM_except_cons, mapM_except_cons, ih]

theorem groupCtx_eq (e : Bytes) :
    accCtx e [] none = { getMatch := (groupLookups e).part, getKey := (groupLookups e).key } := by
  unfold accCtx groupLookups
  congr 1
  · exact accGetMatch_eq e
  · funext k; unfold accGetKey; split <;> rfl

theorem buildGroupKey_spec (s : AccGroup) (e : Bytes) :
    s.buildGroupKey (accCtx e [] none) = groupKeyOf s.specGroups e := by
  rw [buildGroupKey_eq, groupKeyOf, AccGroup.specGroups, mapM_map_except, groupCtx_eq]
  rfl

theorem initialRow_spec (s : AccGroup) : initialRow s.specCols = s.colDef.map (·.initial) := by
  simp [initialRow, AccGroup.specCols, AccDataDef.toSpec]

theorem sample_refines (s : AccGroup) (wf : AccWF s) (st : SState) (hh : Holds s st) (e : Bytes) :
    ExRel (fun s' st' => Holds s' st' ∧ AccWF s' ∧ SameDefs s s')
      (s.sample e) (specSample s.specGroups s.specCols st e) := by
  unfold AccGroup.sample specSample
  rw [buildGroupKey_spec]
  cases groupKeyOf s.specGroups e with
  | error m => exact ExRel.error
  | ok gk =>
    simp only
    have hrowEq : s.rowOrInit gk = (st gk).getD (initialRow s.specCols) := by
      unfold AccGroup.rowOrInit
      rw [← hh gk, initialRow_spec]
      cases aget s.data gk <;> rfl
    rw [hrowEq]
    have hlen : ((st gk).getD (initialRow s.specCols)).length = s.colDef.length := by
      rw [← hh gk]
      cases hg : aget s.data gk with
      | some row => simpa using wf.rows gk row hg
      | none => simp [initialRow_spec]
    rw [sampleCols_updRow s wf e _ hlen]
    cases hu : updRow s.specCols ((st gk).getD (initialRow s.specCols)) e with
    | error m => exact ExRel.error
    | ok row =>
      refine ExRel.ok ⟨?_, ?_, ⟨rfl, rfl, rfl, rfl⟩⟩
      · intro k
        show aget (aset s.data gk row) k = _
        rw [aget_aset]
        by_cases hk : gk = k
        · subst hk; simp
        · have : ¬ k = gk := fun e => hk e.symm
          simp [hk, this, hh k]
      · have hrl : row.length = s.colDef.length := by
          rw [← sampleCols_updRow s wf e _ hlen] at hu
          rw [sampleCols_length _ _ _ _ _ _ hu, hlen]
        refine ⟨wf.names_nodup, wf.idx, ?_, wf.gnames_nodup⟩
        intro k r hr
        change aget (aset s.data gk row) k = some r at hr
        rw [aget_aset] at hr
        by_cases hk : gk = k
        · simp [hk] at hr; subst hr; exact hrl
        · simp [hk] at hr; exact wf.rows k r hr

theorem foldlM_except_cons {α σ : Type} (f : σ → α → Except String σ) (s : σ) (a : α) (l : List α) :
    (a :: l).foldlM f s = (match f s a with
      | .error m => .error m
      | .ok s' => l.foldlM f s') := by
  rw [List.foldlM_cons]; cases f s a <;> rfl

theorem run_refines (s : AccGroup) (wf : AccWF s) (st : SState) (hh : Holds s st) (h : List Bytes) :
    ExRel (fun s' st' => Holds s' st' ∧ AccWF s' ∧ SameDefs s s')
      (s.run h) (h.foldlM (specSample s.specGroups s.specCols) st) := by
  induction h generalizing s st with
  | nil => exact ExRel.ok ⟨hh, wf, SameDefs.refl s⟩
  | cons e h ih =>
    unfold AccGroup.run
    rw [foldlM_except_cons, foldlM_except_cons]
    rcases (sample_refines s wf st hh e).cases with ⟨s1, st1, e1, e2, hh1, wf1, sd1⟩ | ⟨m, e1, e2⟩
    · rw [e1, e2]
      simp only
      have := ih s1 wf1 st1 hh1
      rw [sd1.specCols, sd1.specGroups] at this
      unfold AccGroup.run at this
      rcases this.cases with ⟨s2, st2, f1, f2, r2⟩ | ⟨m, f1, f2⟩
      · rw [f1, f2]; exact ExRel.ok ⟨r2.1, r2.2.1, sd1.trans r2.2.2⟩
      · rw [f1, f2]; exact ExRel.error
    · rw [e1, e2]; exact ExRel.error


/-! ### spec level: the row of a group is the fold over that group's own samples -/

theorem subHistory_cons_eq (gs : List SExpr) (e : Bytes) (h : List Bytes) (k : Bytes)
    (hk : groupKeyOf gs e = .ok k) : subHistory gs (e :: h) k = e :: subHistory gs h k := by
  simp [subHistory, hk]

theorem subHistory_cons_ne (gs : List SExpr) (e : Bytes) (h : List Bytes) (k k' : Bytes)
    (hk : groupKeyOf gs e = .ok k') (hne : k' ≠ k) : subHistory gs (e :: h) k = subHistory gs h k := by
  simp [subHistory, hk, hne]

theorem specFold_sub (gs : List SExpr) (cols : List SCol) (h : List Bytes) (st0 st : SState)
    (hr : h.foldlM (specSample gs cols) st0 = .ok st) (k : Bytes) :
    ∃ row, (subHistory gs h k).foldlM (updRow cols) ((st0 k).getD (initialRow cols)) = .ok row ∧
      st k = if subHistory gs h k = [] then st0 k else some row := by
  induction h generalizing st0 with
  | nil =>
    simp only [List.foldlM_nil, pure, Except.pure] at hr
    cases hr
    exact ⟨_, rfl, by simp [subHistory]⟩
  | cons e h ih =>
    rw [foldlM_except_cons] at hr
    cases h1 : specSample gs cols st0 e with
    | error m => rw [h1] at hr; cases hr
    | ok st1 =>
      rw [h1] at hr
      simp only at hr
      unfold specSample at h1
      cases hk : groupKeyOf gs e with
      | error m => rw [hk] at h1; cases h1
      | ok ke =>
        rw [hk] at h1
        simp only at h1
        cases hu : updRow cols ((st0 ke).getD (initialRow cols)) e with
        | error m => rw [hu] at h1; cases h1
        | ok row1 =>
          rw [hu] at h1
          simp only [Except.ok.injEq] at h1
          subst h1
          obtain ⟨row, hrow, hst⟩ := ih _ hr
          by_cases hkk : k = ke
          · subst hkk
            rw [subHistory_cons_eq gs e h k hk]
            simp only [if_true, Option.getD_some] at hrow hst
            refine ⟨row, ?_, ?_⟩
            · rw [foldlM_except_cons, hu]; exact hrow
            · simp only [reduceCtorEq, if_false]
              rw [hst]
              split
              · rename_i hnil
                rw [hnil] at hrow
                simp only [List.foldlM_nil, pure, Except.pure, Except.ok.injEq] at hrow
                rw [hrow]
              · rfl
          · have hne : ke ≠ k := fun e => hkk e.symm
            rw [subHistory_cons_ne gs e h k ke hk hne]
            simp only [hkk, if_false] at hrow hst
            exact ⟨row, hrow, hst⟩

/-- A history is accepted exactly when every group key evaluates; then `subHistory` partitions it. -/
theorem specRun_sub (gs : List SExpr) (cols : List SCol) (h : List Bytes) (st : SState)
    (hr : specRun gs cols h = .ok st) (k : Bytes) :
    ∃ row, (subHistory gs h k).foldlM (updRow cols) (initialRow cols) = .ok row ∧
      st k = if subHistory gs h k = [] then none else some row := by
  simpa using specFold_sub gs cols h (fun _ => none) st hr k

/-! ### spec level: samples of different groups commute -/

theorem specSample_comm (gs : List SExpr) (cols : List SCol) (st st1 st12 : SState) (e1 e2 k1 k2 : Bytes)
    (hk1 : groupKeyOf gs e1 = .ok k1) (hk2 : groupKeyOf gs e2 = .ok k2) (hne : k1 ≠ k2)
    (h1 : specSample gs cols st e1 = .ok st1) (h2 : specSample gs cols st1 e2 = .ok st12) :
    ∃ st2, specSample gs cols st e2 = .ok st2 ∧ specSample gs cols st2 e1 = .ok st12 := by
  unfold specSample at h1 h2 ⊢
  rw [hk1] at h1 ⊢
  rw [hk2] at h2 ⊢
  simp only at h1 h2 ⊢
  cases hu1 : updRow cols ((st k1).getD (initialRow cols)) e1 with
  | error m => rw [hu1] at h1; cases h1
  | ok row1 =>
    rw [hu1] at h1
    simp only [Except.ok.injEq] at h1
    subst h1
    have hne' : ¬ k2 = k1 := fun e => hne e.symm
    simp only [hne', if_false] at h2
    cases hu2 : updRow cols ((st k2).getD (initialRow cols)) e2 with
    | error m => rw [hu2] at h2; cases h2
    | ok row2 =>
      rw [hu2] at h2
      simp only [Except.ok.injEq] at h2
      subst h2
      refine ⟨_, rfl, ?_⟩
      simp only [hne, if_false, hu1, Except.ok.injEq]
      funext k'
      by_cases a : k' = k1
      · subst a; simp [hne]
      · simp [a]


/-! ### group keys and their parts -/

theorem splitOn_nul_cons (b : UInt8) (r : Bytes) :
    splitOn nul (b :: r) = if b = 0 then [] :: splitOn nul r else consHead b (splitOn nul r) := by
  rw [splitOn]
  by_cases hb : b = 0
  · subst hb; simp [nul, List.isPrefixOf]
  · have : List.isPrefixOf nul (b :: r) = false := by
      simp [nul, List.isPrefixOf]; exact fun e => hb e.symm
    simp [this, hb]

/-- Joining the parts of any key with NUL gives the key back. -/
theorem nulJoin_splitOn (k : Bytes) : nulJoin (splitOn nul k) = k := by
  induction k with
  | nil => simp [splitOn, nulJoin]
  | cons b r ih =>
    rw [splitOn_nul_cons]
    have hne := splitOn_ne_nil nul r
    cases hs : splitOn nul r with
    | nil => exact absurd hs hne
    | cons x xs =>
      rw [hs] at ih
      by_cases hb : b = 0
      · subst hb
        simp only [if_true]
        rw [nulJoin_cons] at ih ⊢
        simp only [List.flatMap_cons, List.nil_append]
        rw [List.append_assoc, ih]; rfl
      · simp only [hb, if_false, consHead]
        rw [nulJoin_cons] at ih ⊢
        simp only [List.cons_append]
        rw [ih]

theorem nulJoin_parts (k : Bytes) : nulJoin (groupKeyParts k) = k := by
  unfold groupKeyParts
  split
  · rename_i h; subst h; rfl
  · exact nulJoin_splitOn k

theorem splitOn_nul_free (k p : Bytes) (h : p ∈ splitOn nul k) : (0 : UInt8) ∉ p := by
  induction k generalizing p with
  | nil => simp [splitOn] at h; subst h; simp
  | cons b r ih =>
    rw [splitOn_nul_cons] at h
    have hne := splitOn_ne_nil nul r
    cases hs : splitOn nul r with
    | nil => exact absurd hs hne
    | cons x xs =>
      rw [hs] at h ih
      by_cases hb : b = 0
      · simp only [hb, if_true, List.mem_cons] at h
        rcases h with h | h
        · subst h; simp
        · exact ih p (by simpa using h)
      · simp only [hb, if_false, consHead, List.mem_cons] at h
        rcases h with h | h
        · subst h
          have := ih x (by simp)
          simp only [List.mem_cons, not_or]
          exact ⟨fun e => hb e.symm, this⟩
        · exact ih p (by simp [h])

theorem splitOn_free_append (v rest : Bytes) (hv : (0 : UInt8) ∉ v) :
    splitOn nul (v ++ 0 :: rest) = v :: splitOn nul rest := by
  induction v with
  | nil => rw [List.nil_append, splitOn_nul_cons]; simp
  | cons b v ih =>
    simp only [List.mem_cons, not_or] at hv
    have hb : ¬ b = 0 := fun e => hv.1 e.symm
    rw [List.cons_append, splitOn_nul_cons, ih hv.2]
    simp [hb, consHead]

theorem splitOn_free (v : Bytes) (hv : (0 : UInt8) ∉ v) : splitOn nul v = [v] := by
  induction v with
  | nil => simp [splitOn]
  | cons b v ih =>
    simp only [List.mem_cons, not_or] at hv
    have hb : ¬ b = 0 := fun e => hv.1 e.symm
    rw [splitOn_nul_cons, ih hv.2]
    simp [hb, consHead]

theorem splitOn_nulJoin (vs : List Bytes) (hne : vs ≠ []) (hfree : ∀ v ∈ vs, (0 : UInt8) ∉ v) :
    splitOn nul (nulJoin vs) = vs := by
  induction vs with
  | nil => exact absurd rfl hne
  | cons v r ih =>
    cases r with
    | nil => simpa [nulJoin] using splitOn_free v (hfree v (by simp))
    | cons w r =>
      rw [nulJoin]
      have : v ++ nul ++ nulJoin (w :: r) = v ++ 0 :: nulJoin (w :: r) := by simp [nul]
      rw [this, splitOn_free_append v _ (hfree v (by simp)), ih (by simp) (fun x hx => hfree x (by simp [hx]))]

theorem nulJoin_eq_nil (vs : List Bytes) : nulJoin vs = [] ↔ vs = [] ∨ vs = [[]] := by
  constructor
  · intro h
    cases vs with
    | nil => exact Or.inl rfl
    | cons v r =>
      cases r with
      | nil => right; simp [nulJoin] at h; rw [h]
      | cons w r => simp [nulJoin, nul] at h
  · rintro (h | h) <;> subst h <;> rfl

/-- `Parts` of a built group key gives the group values back exactly when no value contains NUL and
the key is not built from a single empty value (whose key "" has no parts at all). -/
theorem parts_nulJoin_iff (vs : List Bytes) :
    groupKeyParts (nulJoin vs) = vs ↔ (∀ v ∈ vs, (0 : UInt8) ∉ v) ∧ vs ≠ [[]] := by
  constructor
  · intro h
    constructor
    · intro v hv
      rw [← h] at hv
      unfold groupKeyParts at hv
      split at hv
      · simp at hv
      · exact splitOn_nul_free _ v hv
    · intro h1
      subst h1
      simp [nulJoin, groupKeyParts] at h
  · rintro ⟨hfree, hne1⟩
    unfold groupKeyParts
    by_cases hnil : nulJoin vs = []
    · rcases (nulJoin_eq_nil vs).mp hnil with h | h
      · subst h; rfl
      · exact absurd h hne1
    · rw [if_neg hnil]
      apply splitOn_nulJoin vs _ hfree
      intro h; subst h; exact hnil rfl

theorem parts_single_empty : groupKeyParts (nulJoin [[]]) = [] := by decide


/-! ### Groups: sorting -/

/-- A strict total order given as a Boolean `less` (what a `sorting.NameSorter` such as `ByName` is). -/
structure StrictTotal {α : Type} (lt : α → α → Bool) : Prop where
  irrefl : ∀ a, lt a a = false
  trans : ∀ a b c, lt a b = true → lt b c = true → lt a c = true
  total : ∀ a b, a ≠ b → lt a b = false → lt b a = true

theorem bLt_strictTotal : StrictTotal bLt :=
  ⟨bLt_irrefl, fun _ _ _ => bLt_trans, fun _ _ => bLt_total⟩

namespace StrictTotal
variable {α : Type} {lt : α → α → Bool} (h : StrictTotal lt)
include h

theorem asymm (a b : α) (hab : lt a b = true) : lt b a = false := by
  cases hba : lt b a with
  | false => rfl
  | true => have := h.trans a b a hab hba; rw [h.irrefl] at this; cases this

theorem le_total (a b : α) : (!lt b a || !lt a b) = true := by
  cases hab : lt a b with
  | false => simp
  | true => simp [h.asymm a b hab]

theorem le_trans (a b c : α) (h1 : (!lt b a) = true) (h2 : (!lt c b) = true) : (!lt c a) = true := by
  simp only [Bool.not_eq_true'] at h1 h2 ⊢
  cases hca : lt c a with
  | false => rfl
  | true =>
    -- c < a; b ≮ a so a = b or a < b; either way c < b
    by_cases hab : a = b
    · subst hab; rw [hca] at h2; cases h2
    · have := h.total b a (fun e => hab e.symm) h1
      have := h.trans c a b hca this
      rw [this] at h2; cases h2

theorem le_antisymm (a b : α) (h1 : (!lt b a) = true) (h2 : (!lt a b) = true) : a = b := by
  simp only [Bool.not_eq_true'] at h1 h2
  by_cases hab : a = b
  · exact hab
  · have := h.total a b hab h2
    rw [this] at h1; cases h1

/-- Two arrangements of the same elements that are both sorted are equal. -/
theorem sorted_unique (l1 l2 : List α) (hp : l1.Perm l2)
    (s1 : l1.Pairwise fun a b => (!lt b a) = true) (s2 : l2.Pairwise fun a b => (!lt b a) = true) : l1 = l2 :=
  List.Perm.eq_of_pairwise (fun a b _ _ h1 h2 => h.le_antisymm a b h1 h2) s1 s2 hp

theorem mergeSort_sorted (l : List α) : (l.mergeSort fun a b => !lt b a).Pairwise fun a b => (!lt b a) = true :=
  List.pairwise_mergeSort (le := fun a b => !lt b a) (fun a b c => h.le_trans a b c) (fun a b => h.le_total a b) l

theorem mergeSort_perm_eq (l1 l2 : List α) (hp : l1.Perm l2) :
    (l1.mergeSort fun a b => !lt b a) = l2.mergeSort fun a b => !lt b a :=
  h.sorted_unique _ _ (((List.mergeSort_perm l1 _).trans hp).trans (List.mergeSort_perm l2 _).symm)
    (h.mergeSort_sorted l1) (h.mergeSort_sorted l2)

end StrictTotal

/-- Sort key first (under `less`), equal sort keys by group key: again a strict total order. -/
theorem sortLess_strictTotal (less : Bytes → Bytes → Bool) (h : StrictTotal less) : StrictTotal (sortLess less) := by
  refine ⟨?_, ?_, ?_⟩
  · intro a; simp [sortLess, bLt_irrefl]
  · rintro ⟨a1, a2⟩ ⟨b1, b2⟩ ⟨c1, c2⟩ h1 h2
    unfold sortLess at h1 h2 ⊢
    simp only at h1 h2 ⊢
    by_cases e1 : a2 = b2
    · subst e1
      by_cases e2 : a2 = c2
      · subst e2
        simp only [if_true] at h1 h2 ⊢; exact bLt_trans h1 h2
      · simp only [e2, if_true, if_false] at h1 h2 ⊢; exact h2
    · by_cases e2 : b2 = c2
      · subst e2
        simp only [e1, if_true, if_false] at h1 h2 ⊢; exact h1
      · simp only [e1, e2, if_false] at h1 h2
        have hac := h.trans _ _ _ h1 h2
        by_cases e3 : a2 = c2
        · subst e3; rw [h.asymm _ _ h1] at h2; cases h2
        · simp only [e3, if_false]; exact hac
  · intro a b hne hab
    unfold sortLess at hab ⊢
    by_cases e1 : a.2 = b.2
    · have e1' : b.2 = a.2 := e1.symm
      simp only [e1, if_true] at hab
      simp only [e1', if_true]
      exact bLt_total (fun e => hne (Prod.ext e e1)) hab
    · have e1' : ¬ b.2 = a.2 := fun e => e1 e.symm
      simp only [e1, if_false] at hab
      simp only [e1', if_false]
      exact h.total _ _ e1 hab

/-- The sort key the model computes for a group ("" if the expression panics – then `groupsWith` fails). -/
def AccGroup.sortKeyD (s : AccGroup) (e : Stage) (g : Bytes) : Bytes :=
  match s.sortKey e g with
  | .ok k => k
  | .error _ => []

theorem mapM_keyed (f : Bytes → Except String Bytes) (l : List Bytes) (r : List (Bytes × Bytes))
    (h : l.mapM (fun g => (f g).map fun k => (g, k)) = .ok r) :
    r = l.map (fun g => (g, match f g with | .ok k => k | .error _ => [])) ∧ ∀ g ∈ l, ∃ k, f g = .ok k := by
  induction l generalizing r with
  | nil => simp [pure, Except.pure] at h; subst h; simp
  | cons a l ih =>
    rw [mapM_except_cons] at h
    generalize hl : l.mapM (fun g => (f g).map fun k => (g, k)) = X at h ih
    cases ha : f a with
    | error m => simp [ha, Except.map] at h
    | ok k =>
      simp only [ha, Except.map] at h
      cases X with
      | error m => cases h
      | ok r' =>
        simp only [Except.ok.injEq] at h
        obtain ⟨e1, e2⟩ := ih r' rfl
        subst h
        refine ⟨by simp [e1, ha], ?_⟩
        intro g hg
        rcases List.mem_cons.mp hg with rfl | hg
        · exact ⟨k, ha⟩
        · exact e2 g hg

/-- `Groups`: a permutation of the keys; without a sort expression sorted by `less`, with one sorted
by (sort key, group key). -/
theorem groupsWith_spec (s : AccGroup) (less : Bytes → Bytes → Bool) (hlt : StrictTotal less)
    (order res : List Bytes) (h : s.groupsWith less order = .ok res) :
    res.Perm order ∧
    match s.sortExpr with
    | none => res.Pairwise fun a b => (!less b a) = true
    | some e => res.Pairwise fun a b => (!sortLess less (b, s.sortKeyD e b) (a, s.sortKeyD e a)) = true := by
  unfold AccGroup.groupsWith at h
  cases hs : s.sortExpr with
  | none =>
    rw [hs] at h
    simp only [Except.ok.injEq] at h
    subst h
    exact ⟨List.mergeSort_perm _ _, hlt.mergeSort_sorted order⟩
  | some e =>
    rw [hs] at h
    simp only at h
    split at h
    · rename_i hle
      simp only [Except.ok.injEq] at h
      subst h
      refine ⟨List.Perm.refl _, ?_⟩
      match order, hle with
      | [], _ => exact List.Pairwise.nil
      | [a], _ => simp
    · cases hm : order.mapM (fun g => (s.sortKey e g).map fun k => (g, k)) with
      | error m => rw [hm] at h; cases h
      | ok keyed =>
        rw [hm] at h
        simp only [Except.ok.injEq] at h
        subst h
        obtain ⟨hk, _⟩ := mapM_keyed (s.sortKey e) order keyed hm
        have hk' : keyed = order.map (fun g => (g, s.sortKeyD e g)) := hk
        have hl2 := sortLess_strictTotal less hlt
        constructor
        · have := (List.mergeSort_perm keyed (fun a b => !sortLess less b a)).map (·.1)
          refine this.trans ?_
          rw [hk']; simp [Function.comp_def]
        · have srt := hl2.mergeSort_sorted keyed
          have hmem : ∀ p ∈ keyed.mergeSort (fun a b => !sortLess less b a), p = (p.1, s.sortKeyD e p.1) := by
            intro p hp
            have := (List.mergeSort_perm keyed _).mem_iff.mp hp
            rw [hk'] at this
            obtain ⟨g, _, rfl⟩ := List.mem_map.mp this
            rfl
          show List.Pairwise _ (List.map _ _)
          rw [List.pairwise_map]
          refine List.Pairwise.imp_of_mem ?_ srt
          intro a b ha hb hab
          rw [← hmem a ha, ← hmem b hb]; exact hab

/-- The answer of `Groups` does not depend on Go's map iteration order. -/
theorem groupsWith_deterministic (s : AccGroup) (less : Bytes → Bytes → Bool) (hlt : StrictTotal less)
    (o1 o2 r1 r2 : List Bytes) (hp : o1.Perm o2)
    (h1 : s.groupsWith less o1 = .ok r1) (h2 : s.groupsWith less o2 = .ok r2) : r1 = r2 := by
  obtain ⟨p1, s1⟩ := groupsWith_spec s less hlt o1 r1 h1
  obtain ⟨p2, s2⟩ := groupsWith_spec s less hlt o2 r2 h2
  have pp : r1.Perm r2 := (p1.trans hp).trans p2.symm
  cases hs : s.sortExpr with
  | none =>
    rw [hs] at s1 s2
    exact hlt.sorted_unique r1 r2 pp s1 s2
  | some e =>
    rw [hs] at s1 s2
    simp only at s1 s2
    have hl2 := sortLess_strictTotal less hlt
    have m1 : (r1.map fun g => (g, s.sortKeyD e g)) = r2.map fun g => (g, s.sortKeyD e g) :=
      hl2.sorted_unique _ _ (pp.map _) (by rw [List.pairwise_map]; exact s1) (by rw [List.pairwise_map]; exact s2)
    have := congrArg (List.map Prod.fst) m1
    simpa [Function.comp_def] using this


/-! ### every reachable aggregator is well-formed -/

theorem accwf_init : AccWF {} :=
  ⟨by simp [AccGroup.dataCols], by intro k j; simp [AccGroup.dataCols], by intro k row h; simp at h,
   by simp [AccGroup.groupCols]⟩

theorem wf_addGroup (s : AccGroup) (wf : AccWF s) (n : Bytes) (c : Option Stage) : AccWF (s.addGroupExpr n c).1 := by
  unfold AccGroup.addGroupExpr
  split
  · exact wf
  · split
    · exact wf
    · rename_i _ hdup
      cases c with
      | none => exact wf
      | some kb =>
        refine ⟨wf.names_nodup, wf.idx, wf.rows, ?_⟩
        show (List.map (·.name) (s.groupDef ++ [⟨n, kb⟩])).Nodup
        rw [List.map_append, List.nodup_append]
        refine ⟨wf.gnames_nodup, by simp, ?_⟩
        intro a ha b hb
        simp only [List.map_cons, List.map_nil, List.mem_singleton] at hb
        subst hb
        intro hab; subst hab
        apply hdup
        obtain ⟨g, hg, hn⟩ := List.mem_map.mp ha
        exact List.any_eq_true.mpr ⟨g, hg, by simp [hn]⟩

theorem not_mem_dataCols (s : AccGroup) (wf : AccWF s) (n : Bytes) (h : ¬ (aget s.colIdx n).isSome = true) :
    n ∉ s.dataCols := by
  intro hm
  obtain ⟨j, hj⟩ := List.getElem?_of_mem hm
  have := (wf.idx n j).mpr hj
  rw [this] at h; simp at h

theorem wf_addData (s : AccGroup) (wf : AccWF s) (n : Bytes) (c : Option Stage) (i : Bytes) :
    AccWF (s.addDataExpr n c i).1 := by
  unfold AccGroup.addDataExpr
  split
  · exact wf
  · rename_i hdata
    split
    · exact wf
    · rename_i hdup
      cases c with
      | none => exact wf
      | some kb =>
        have hnot := not_mem_dataCols s wf n hdup
        have hcols : AccGroup.dataCols { s with colDef := s.colDef ++ [⟨n, kb, i⟩], colIdx := aset s.colIdx n s.colDef.length } =
            s.dataCols ++ [n] := by simp [AccGroup.dataCols]
        have hlen : s.dataCols.length = s.colDef.length := by simp [AccGroup.dataCols]
        refine ⟨?_, ?_, ?_, wf.gnames_nodup⟩
        · rw [hcols, List.nodup_append]
          refine ⟨wf.names_nodup, by simp, ?_⟩
          intro a ha b hb
          simp only [List.mem_singleton] at hb
          subst hb
          intro hab; subst hab; exact hnot ha
        · intro k j
          rw [hcols]
          show aget (aset s.colIdx n s.colDef.length) k = some j ↔ _
          rw [aget_aset, List.getElem?_append]
          by_cases hk : n = k
          · subst hk
            simp only [if_true, Option.some.injEq]
            constructor
            · intro e; subst e; simp [hlen]
            · intro h
              split at h
              · exact absurd (List.mem_of_getElem? h) hnot
              · rename_i hge
                rcases Nat.lt_or_ge (j - s.dataCols.length) 1 with h1 | h1
                · omega
                · rw [List.getElem?_eq_none (by simpa using h1)] at h; cases h
          · simp only [hk, if_false]
            rw [wf.idx k j]
            split
            · rfl
            · rename_i hge
              have hnone : s.dataCols[j]? = none := List.getElem?_eq_none (by omega)
              rw [hnone]
              constructor
              · intro h; cases h
              · intro h
                have hm := List.mem_of_getElem? h
                simp only [List.mem_singleton] at hm
                exact absurd hm.symm hk
        · intro k row h
          have hnil : s.data = [] := by
            cases hd : s.data with
            | nil => rfl
            | cons a b => rw [hd] at hdata; simp at hdata
          change aget s.data k = some row at h
          rw [hnil] at h; simp at h

theorem wf_setSort (s : AccGroup) (wf : AccWF s) (c : Option Stage) : AccWF (s.setSort c).1 := by
  unfold AccGroup.setSort
  cases c with
  | none => exact wf
  | some kb => exact ⟨wf.names_nodup, wf.idx, wf.rows, wf.gnames_nodup⟩

theorem holds_self (s : AccGroup) : Holds s (fun k => aget s.data k) := fun _ => rfl

theorem wf_sample (s s' : AccGroup) (wf : AccWF s) (e : Bytes) (h : s.sample e = .ok s') : AccWF s' ∧ SameDefs s s' := by
  rcases (sample_refines s wf _ (holds_self s) e).cases with ⟨a, b, e1, _, _, wf1, sd1⟩ | ⟨m, e1, _⟩
  · rw [h] at e1; cases e1; exact ⟨wf1, sd1⟩
  · rw [h] at e1; cases e1

/-- States reachable from `NewAccumulatingGroup` by any sequence of calls (none of which panicked). -/
inductive AccReach : AccGroup → Prop
  | init : AccReach {}
  | step (s s' : AccGroup) (op : AccOp) (err : Option String) : AccReach s → s.apply op = .ok (s', err) → AccReach s'

theorem wf_apply (s s' : AccGroup) (wf : AccWF s) (op : AccOp) (err : Option String)
    (h : s.apply op = .ok (s', err)) : AccWF s' := by
  cases op with
  | addGroup n c =>
    simp only [AccGroup.apply, Except.ok.injEq] at h
    have := wf_addGroup s wf n c; rw [h] at this; exact this
  | addData n c i =>
    simp only [AccGroup.apply, Except.ok.injEq] at h
    have := wf_addData s wf n c i; rw [h] at this; exact this
  | setSort c =>
    simp only [AccGroup.apply, Except.ok.injEq] at h
    have := wf_setSort s wf c; rw [h] at this; exact this
  | sample e =>
    simp only [AccGroup.apply] at h
    cases hs : s.sample e with
    | error m => rw [hs] at h; cases h
    | ok s1 =>
      rw [hs] at h
      simp only [Except.map, Except.ok.injEq, Prod.mk.injEq] at h
      obtain ⟨rfl, _⟩ := h
      exact (wf_sample s s1 wf e hs).1

theorem reach_accwf {s : AccGroup} (h : AccReach s) : AccWF s := by
  induction h with
  | init => exact accwf_init
  | step s s' op err _ hstep ih => exact wf_apply s s' ih op err hstep


/-! ### which definitions are accepted -/

abbrev GCall := Bytes × Option Stage
abbrev DCall := Bytes × Option Stage × Bytes

def groupCalls : List AccOp → List GCall
  | [] => []
  | .addGroup n c :: r => (n, c) :: groupCalls r
  | _ :: r => groupCalls r

def dataCalls : List AccOp → List DCall
  | [] => []
  | .addData n c i :: r => (n, c, i) :: dataCalls r
  | _ :: r => dataCalls r

def toGDef (c : GCall) : Option AccGroupDef := c.2.map fun kb => ⟨c.1, kb⟩
def toDDef (c : DCall) : Option AccDataDef := c.2.1.map fun kb => ⟨c.1, kb, c.2.2⟩

def AccOp.isSample : AccOp → Bool
  | .sample _ => true
  | _ => false

/-- Perform a sequence of calls, discarding the returned errors. -/
def AccGroup.applyAll (s : AccGroup) (ops : List AccOp) : Except String AccGroup :=
  ops.foldlM (fun s op => (s.apply op).map (·.1)) s

/-- Left-to-right acceptance: a call is kept when it compiled and no kept call has its name. -/
def acceptStep {α : Type} (name : α → Bytes) (ok : α → Bool) (acc : List α) (c : α) : List α :=
  if ok c && !acc.any (fun x => name x == name c) then acc ++ [c] else acc

theorem accept_foldl {α : Type} (name : α → Bytes) (ok : α → Bool) (calls acc : List α) :
    calls.foldl (acceptStep name ok) acc =
      acc ++ (acceptedBy name ok calls).filter fun x => !acc.any (fun y => name y == name x) := by
  induction calls generalizing acc with
  | nil => simp [acceptedBy]
  | cons c r ih =>
    rw [List.foldl_cons, ih]
    by_cases hok : ok c = true
    · have ha : acceptedBy name ok (c :: r) = c :: (acceptedBy name ok r).filter (fun x => name x != name c) := by
        simp [acceptedBy, hok]
      rw [ha, List.filter_cons]
      by_cases hany : acc.any (fun x => name x == name c) = true
      · have hs : acceptStep name ok acc c = acc := by simp [acceptStep, hany]
        rw [hs]
        simp only [hany, Bool.not_true, Bool.false_eq_true, if_false, List.filter_filter]
        congr 1
        apply List.filter_congr
        intro x _
        cases hx : acc.any (fun y => name y == name x) with
        | true => simp
        | false =>
          simp only [Bool.not_false, Bool.true_and]
          symm
          simp only [bne_iff_ne, ne_eq]
          intro hxc
          obtain ⟨y, hy, hyc⟩ := List.any_eq_true.mp hany
          have : acc.any (fun y => name y == name x) = true :=
            List.any_eq_true.mpr ⟨y, hy, by rw [hxc]; exact hyc⟩
          rw [hx] at this; cases this
      · have hany' : acc.any (fun x => name x == name c) = false := by simpa using hany
        have hs : acceptStep name ok acc c = acc ++ [c] := by simp [acceptStep, hok, hany']
        rw [hs]
        simp only [hany', Bool.not_false, if_true, List.filter_filter, List.append_assoc, List.singleton_append]
        congr 2
        apply List.filter_congr
        intro x _
        simp only [List.any_append, List.any_cons, List.any_nil, Bool.or_false, Bool.not_or]
        have hsym : (name c == name x) = (name x == name c) := by
          rw [Bool.eq_iff_iff]; simp only [beq_iff_eq]; exact ⟨Eq.symm, Eq.symm⟩
        rw [hsym]
        have hb : (name x != name c) = !(name x == name c) := rfl
        rw [hb]
    · have hok' : ok c = false := by simpa using hok
      have ha : acceptedBy name ok (c :: r) = acceptedBy name ok r := by simp [acceptedBy, hok']
      have hs : acceptStep name ok acc c = acc := by simp [acceptStep, hok']
      rw [ha, hs]

/-- What the configuration calls made so far have accepted. -/
structure CfgInv (s : AccGroup) (ga : List GCall) (da : List DCall) : Prop where
  wf : AccWF s
  nodata : s.data = []
  groups : s.groupDef = ga.filterMap toGDef
  gok : ∀ c ∈ ga, c.2.isSome = true
  cols : s.colDef = da.filterMap toDDef
  dok : ∀ c ∈ da, c.2.1.isSome = true

theorem filterMap_names_g (ga : List GCall) (h : ∀ c ∈ ga, c.2.isSome = true) :
    (ga.filterMap toGDef).map (·.name) = ga.map (·.1) := by
  induction ga with
  | nil => rfl
  | cons c r ih =>
    obtain ⟨n, kb⟩ := c
    cases kb with
    | none => have := h (n, none) (by simp); simp at this
    | some kb =>
      simp only [List.filterMap_cons, toGDef, Option.map_some, List.map_cons]
      rw [ih (fun c hc => h c (List.mem_cons_of_mem _ hc))]

theorem filterMap_names_d (da : List DCall) (h : ∀ c ∈ da, c.2.1.isSome = true) :
    (da.filterMap toDDef).map (·.name) = da.map (·.1) := by
  induction da with
  | nil => rfl
  | cons c r ih =>
    obtain ⟨n, kb, i⟩ := c
    cases kb with
    | none => have := h (n, none, i) (by simp); simp at this
    | some kb =>
      simp only [List.filterMap_cons, toDDef, Option.map_some, List.map_cons]
      rw [ih (fun c hc => h c (List.mem_cons_of_mem _ hc))]

theorem cfg_addGroup (s : AccGroup) (ga : List GCall) (da : List DCall) (inv : CfgInv s ga da)
    (n : Bytes) (c : Option Stage) :
    CfgInv (s.addGroupExpr n c).1 (acceptStep (·.1) (·.2.isSome) ga (n, c)) da := by
  have hwf := wf_addGroup s inv.wf n c
  have hnames := filterMap_names_g ga inv.gok
  have hany : s.groupDef.any (fun g => g.name == n) = ga.any (fun x => x.1 == n) := by
    rw [inv.groups]
    have : ∀ l : List AccGroupDef, l.any (fun g => g.name == n) = (l.map (·.name)).any (· == n) := by
      intro l; simp [List.any_map, Function.comp_def]
    rw [this, hnames]; simp [List.any_map, Function.comp_def]
  unfold AccGroup.addGroupExpr acceptStep at *
  simp only [inv.nodata, List.length_nil, Nat.lt_irrefl, if_false] at hwf ⊢
  rw [hany] at hwf ⊢
  cases hdup : ga.any (fun x => x.1 == n) with
  | true => simpa using inv
  | false =>
    simp only [hdup, Bool.false_eq_true, if_false, Bool.not_false, Bool.and_true] at hwf ⊢
    cases c with
    | none => simpa using inv
    | some kb =>
      simp only [Option.isSome_some, if_true] at hwf ⊢
      refine ⟨hwf, rfl, ?_, ?_, inv.cols, inv.dok⟩
      · show s.groupDef ++ [⟨n, kb⟩] = _
        rw [inv.groups, List.filterMap_append]; rfl
      · intro c hc
        rcases List.mem_append.mp hc with h | h
        · exact inv.gok c h
        · simp at h; subst h; rfl

theorem cfg_addData (s : AccGroup) (ga : List GCall) (da : List DCall) (inv : CfgInv s ga da)
    (n : Bytes) (c : Option Stage) (i : Bytes) :
    CfgInv (s.addDataExpr n c i).1 ga (acceptStep (·.1) (·.2.1.isSome) da (n, c, i)) := by
  have hwf := wf_addData s inv.wf n c i
  have hnames := filterMap_names_d da inv.dok
  have hany : (aget s.colIdx n).isSome = da.any (fun x => x.1 == n) := by
    have hcols : s.dataCols = da.map (·.1) := by
      unfold AccGroup.dataCols; rw [inv.cols]; exact hnames
    rw [Bool.eq_iff_iff]
    constructor
    · intro h
      obtain ⟨j, hj⟩ := Option.isSome_iff_exists.mp h
      have := List.mem_of_getElem? ((inv.wf.idx n j).mp hj)
      rw [hcols] at this
      obtain ⟨x, hx, hxn⟩ := List.mem_map.mp this
      exact List.any_eq_true.mpr ⟨x, hx, by simp [hxn]⟩
    · intro h
      obtain ⟨x, hx, hxn⟩ := List.any_eq_true.mp h
      have hm : n ∈ s.dataCols := by
        rw [hcols]; exact List.mem_map.mpr ⟨x, hx, by simpa using hxn⟩
      obtain ⟨j, hj⟩ := List.getElem?_of_mem hm
      rw [(inv.wf.idx n j).mpr hj]; rfl
  unfold AccGroup.addDataExpr acceptStep at *
  simp only [inv.nodata, List.length_nil, Nat.lt_irrefl, if_false] at hwf ⊢
  rw [hany] at hwf ⊢
  cases hdup : da.any (fun x => x.1 == n) with
  | true => simpa using inv
  | false =>
    simp only [hdup, Bool.false_eq_true, if_false, Bool.not_false, Bool.and_true] at hwf ⊢
    cases c with
    | none => simpa using inv
    | some kb =>
      simp only [Option.isSome_some, if_true] at hwf ⊢
      refine ⟨hwf, rfl, inv.groups, inv.gok, ?_, ?_⟩
      · show s.colDef ++ [⟨n, kb, i⟩] = _
        rw [inv.cols, List.filterMap_append]; rfl
      · intro c hc
        rcases List.mem_append.mp hc with h | h
        · exact inv.dok c h
        · simp at h; subst h; rfl

theorem cfg_applyAll (ops : List AccOp) (hcfg : ∀ op ∈ ops, op.isSample = false)
    (s : AccGroup) (ga : List GCall) (da : List DCall) (inv : CfgInv s ga da) :
    ∃ s', s.applyAll ops = .ok s' ∧
      CfgInv s' ((groupCalls ops).foldl (acceptStep (·.1) (·.2.isSome)) ga)
        ((dataCalls ops).foldl (acceptStep (·.1) (·.2.1.isSome)) da) := by
  induction ops generalizing s ga da with
  | nil => exact ⟨s, rfl, inv⟩
  | cons op r ih =>
    have hr : ∀ op ∈ r, op.isSample = false := fun o ho => hcfg o (List.mem_cons_of_mem _ ho)
    unfold AccGroup.applyAll
    rw [foldlM_except_cons]
    cases op with
    | addGroup n c =>
      simp only [AccGroup.apply, Except.map, groupCalls, dataCalls, List.foldl_cons]
      exact ih hr _ _ _ (cfg_addGroup s ga da inv n c)
    | addData n c i =>
      simp only [AccGroup.apply, Except.map, groupCalls, dataCalls, List.foldl_cons]
      exact ih hr _ _ _ (cfg_addData s ga da inv n c i)
    | setSort c =>
      simp only [AccGroup.apply, Except.map, groupCalls, dataCalls]
      refine ih hr _ _ _ ?_
      cases c with
      | none => exact inv
      | some kb => exact ⟨wf_setSort s inv.wf (some kb), inv.nodata, inv.groups, inv.gok, inv.cols, inv.dok⟩
    | sample e => have := hcfg (.sample e) (by simp); simp [AccOp.isSample] at this

theorem cfg_init : CfgInv {} [] [] := ⟨accwf_init, rfl, rfl, by simp, rfl, by simp⟩


/-! ### model level: commutation, accessors -/

theorem foldlM_two {σ : Type} (f : σ → Bytes → Except String σ) (s : σ) (a b : Bytes) :
    [a, b].foldlM f s = (match f s a with | .error m => .error m | .ok s1 => f s1 b) := by
  rw [foldlM_except_cons]
  cases f s a with
  | error m => rfl
  | ok s1 =>
    simp only
    rw [foldlM_except_cons]
    cases f s1 b <;> rfl

theorem sample_comm_model (s s12 : AccGroup) (wf : AccWF s) (e1 e2 k1 k2 : Bytes)
    (hk1 : s.buildGroupKey (accCtx e1 [] none) = .ok k1) (hk2 : s.buildGroupKey (accCtx e2 [] none) = .ok k2)
    (hne : k1 ≠ k2) (h : s.run [e1, e2] = .ok s12) :
    ∃ s21, s.run [e2, e1] = .ok s21 ∧ (∀ k, aget s12.data k = aget s21.data k) ∧ SameDefs s12 s21 := by
  rw [buildGroupKey_spec] at hk1 hk2
  have r12 := run_refines s wf _ (holds_self s) [e1, e2]
  rcases r12.cases with ⟨a, st12, ea, eb, hh12, _, sd12⟩ | ⟨m, ea, _⟩
  · rw [h] at ea; cases ea
    rw [foldlM_two] at eb
    cases h1 : specSample s.specGroups s.specCols (fun k => aget s.data k) e1 with
    | error m => rw [h1] at eb; cases eb
    | ok st1 =>
      rw [h1] at eb
      simp only at eb
      obtain ⟨st2, g1, g2⟩ := specSample_comm _ _ _ st1 st12 e1 e2 k1 k2 hk1 hk2 hne h1 eb
      have r21 := run_refines s wf _ (holds_self s) [e2, e1]
      rw [foldlM_two, g1] at r21
      simp only at r21
      rw [g2] at r21
      rcases r21.cases with ⟨s21, st', fa, fb, hh21, _, sd21⟩ | ⟨m, _, fb⟩
      · cases fb
        refine ⟨s21, fa, fun k => (hh12 k).trans (hh21 k).symm, ?_⟩
        exact ⟨sd21.1.trans sd12.1.symm, sd21.2.1.trans sd12.2.1.symm, sd21.2.2.1.trans sd12.2.2.1.symm,
          sd21.2.2.2.trans sd12.2.2.2.symm⟩
      · cases fb
  · rw [h] at ea; cases ea

theorem akeys_aset_nodup {α : Type} (m : List (Bytes × α)) (k : Bytes) (v : α) (h : (akeys m).Nodup) :
    (akeys (aset m k v)).Nodup := by
  induction m with
  | nil => simp [aset, akeys]
  | cons e m ih =>
    obtain ⟨k0, v0⟩ := e
    simp only [akeys, List.map_cons, List.nodup_cons] at h
    by_cases hk : k0 = k
    · subst hk; simpa [aset, akeys] using h
    · simp only [aset, hk, if_false, akeys, List.map_cons, List.nodup_cons]
      refine ⟨?_, ih h.2⟩
      intro hm
      have : k0 ∈ akeys (aset m k v) := hm
      rw [mem_akeys_iff, aget_aset] at this
      rw [if_neg (fun e : k = k0 => hk e.symm)] at this
      exact h.1 ((mem_akeys_iff m k0).mpr this)

theorem sample_data_keys (s s' : AccGroup) (e : Bytes) (h : s.sample e = .ok s') (hn : (akeys s.data).Nodup) :
    (akeys s'.data).Nodup := by
  unfold AccGroup.sample at h
  split at h
  · cases h
  · split at h
    · cases h
    · simp only [Except.ok.injEq] at h
      subst h
      exact akeys_aset_nodup _ _ _ hn

theorem addGroupExpr_data (s : AccGroup) (n : Bytes) (c : Option Stage) : (s.addGroupExpr n c).1.data = s.data := by
  unfold AccGroup.addGroupExpr
  split; · rfl
  split; · rfl
  cases c <;> rfl

theorem addDataExpr_data (s : AccGroup) (n : Bytes) (c : Option Stage) (i : Bytes) :
    (s.addDataExpr n c i).1.data = s.data := by
  unfold AccGroup.addDataExpr
  split; · rfl
  split; · rfl
  cases c <;> rfl

theorem setSort_data (s : AccGroup) (c : Option Stage) : (s.setSort c).1.data = s.data := by
  unfold AccGroup.setSort
  cases c <;> rfl

theorem reach_keys_nodup {s : AccGroup} (h : AccReach s) : (akeys s.data).Nodup := by
  induction h with
  | init => simp [akeys]
  | step s s' op err _ hstep ih =>
    cases op with
    | addGroup n c =>
      simp only [AccGroup.apply, Except.ok.injEq] at hstep
      have : s'.data = s.data := by
        have := addGroupExpr_data s n c; rw [hstep] at this; exact this
      rw [this]; exact ih
    | addData n c i =>
      simp only [AccGroup.apply, Except.ok.injEq] at hstep
      have : s'.data = s.data := by
        have := addDataExpr_data s n c i; rw [hstep] at this; exact this
      rw [this]; exact ih
    | setSort c =>
      simp only [AccGroup.apply, Except.ok.injEq] at hstep
      have : s'.data = s.data := by
        have := setSort_data s c; rw [hstep] at this; exact this
      rw [this]; exact ih
    | sample e =>
      simp only [AccGroup.apply] at hstep
      cases hs : s.sample e with
      | error m => rw [hs] at hstep; cases hstep
      | ok s1 =>
        rw [hs] at hstep
        simp only [Except.map, Except.ok.injEq, Prod.mk.injEq] at hstep
        obtain ⟨rfl, _⟩ := hstep
        exact sample_data_keys s s1 e hs ih

theorem dataOf_row (s : AccGroup) (k : Bytes) (row : List Bytes) (h : aget s.data k = some row)
    (hl : row.length = s.colDef.length) : s.dataOf k = row := by
  unfold AccGroup.dataOf AccGroup.dataNoCopy
  rw [h, ← hl]
  apply List.ext_getElem
  · simp
  · intro i h1 h2
    simp only [Option.getD_some, List.getElem_map, List.getElem_range]
    rw [List.getD_eq_getElem?_getD, List.getElem?_eq_getElem (by simpa using h1)]
    rfl

theorem dataOf_missing (s : AccGroup) (k : Bytes) (h : aget s.data k = none) :
    s.dataOf k = List.replicate s.colDef.length [] := by
  unfold AccGroup.dataOf AccGroup.dataNoCopy
  rw [h]
  apply List.ext_getElem
  · simp
  · intro i h1 h2
    simp

end Rare.C07
