import Rare.Proofs.C04
/-! BufferedReadAhead (`pkg/readahead/buffered.go`): the same theorems as for the immediate scanner. -/
namespace Rare.C04

def Buf.pending (s : Buf) : Bytes := s.buf.drop s.offset

structure BInv (s : Buf) (C : Bytes) : Prop where
  off : s.offset ≤ s.buf.length
  del : s.delivered = C ++ s.pending
  bs : 2 ≤ s.maxBufLen

/-- What one `Scan()` of the buffered scanner achieved, relative to the consumed prefix `C`. -/
def BPost (C : Bytes) : Res → Buf → Prop
  | .tok v b, s' =>
      (ViewOK s'.arrays v ∧ readView s'.arrays v = b) ∧
      ((∃ a, nl ∉ a ∧ b = dropCR a ∧ BInv s' (C ++ a ++ [nl])) ∨
       (nl ∉ b ∧ b ≠ [] ∧ s'.eof = true ∧ s'.pending = [] ∧ BInv s' (C ++ b)))
  | .done, s' => s'.eof = true ∧ s'.pending = [] ∧ BInv s' C
  | .fuel, _ => True

/-- Predicates preserved by the buffered scanner's steps: emitting (only `offset` changes) and
    refilling (a new array built from the kept tail plus what `fill` read). -/
structure BClosed (P : Buf → Prop) : Prop where
  emit : ∀ (s : Buf) (o : Nat), P s → P { s with offset := o }
  refill : ∀ (s : Buf) (acc : Bytes) (rd' : Reader) (eof' : Bool) (errs' : Nat) (dl' : Bytes), P s → s.eof = false →
    Buf.fill (s.rd.measure + 2) (max s.maxBufLen ((s.buf.drop s.offset).length + s.maxBufLen / 2)) (s.buf.drop s.offset)
      s.rd s.errs s.delivered = some (acc, rd', eof', errs', dl') →
    P { s with mem := s.mem ++ [s.buf], buf := acc, offset := 0, rd := rd', eof := eof', errs := errs', delivered := dl' }

/-- Facts about the fill loop: it extends `acc` by exactly the bytes it adds to `delivered`, consumes
    them from the reader, and does not run out of fuel. -/
theorem fill_spec : ∀ (f cap : Nat) (acc : Bytes) (rd : Reader) (errs : Nat) (dl : Bytes), rd.measure + 1 < f →
    ∃ new rd' eof' errs', Buf.fill f cap acc rd errs dl = some (acc ++ new, rd', eof', errs', dl ++ new) ∧
      new ++ rd'.rest = rd.rest ∧ rd'.measure ≤ rd.measure ∧ errs ≤ errs' ∧ errs' ≤ errs + 1 ∧
      (errs' = errs + 1 → eof' = true) ∧
      (eof' = false → (acc ++ new).length ≥ cap ∧ (acc.length < cap → rd'.measure < rd.measure)) ∧
      (∀ st ∈ rd'.script, st ∈ rd.script) ∧
      ((∀ st ∈ rd.script, st.err ≠ some .fail) → errs' = errs) ∧
      ((∀ st ∈ rd.script, st.err = none) → eof' = true → rd'.rest = []) := by
  intro f
  induction f with
  | zero => intro cap acc rd errs dl h; omega
  | succ f ih =>
    intro cap acc rd errs dl hf
    simp only [Buf.fill]
    split
    · rename_i hlt
      have htd := read_take_drop rd (cap - acc.length)
      have hle := read_measure_le rd (cap - acc.length)
      have hsub := read_script_sub rd (cap - acc.length)
      have herr := read_err_mem rd (cap - acc.length)
      have hdec := read_measure rd (cap - acc.length) (by omega)
      generalize rd.read (cap - acc.length) = r at htd hle hsub herr hdec
      split
      · rename_i e heq
        refine ⟨r.1, r.2.2, true, _, rfl, htd, hle, ?_, ?_, ?_, by simp, hsub, ?_, ?_⟩
        · split <;> omega
        · split <;> omega
        · intro _; rfl
        · intro hnf
          have : e ≠ .fail := by
            intro he
            rcases herr e heq with ⟨h1, _⟩ | ⟨st, hst, hse⟩
            · rw [he] at h1; cases h1
            · exact hnf st hst (by rw [hse, he])
          simp [this]
        · intro hnone _
          rcases herr e heq with ⟨_, _, hr⟩ | ⟨st, hst, hse⟩
          · rw [hr] at htd; simp at htd; exact htd.2
          · rw [hnone st hst] at hse; cases hse
      · rename_i heq
        have hlt' := hdec heq
        obtain ⟨new, rd', eof', errs', hfill, h1, h2, h3, h4, h5, h6, h7, h8, h9⟩ :=
          ih cap (acc ++ r.1) r.2.2 errs (dl ++ r.1) (by omega)
        refine ⟨r.1 ++ new, rd', eof', errs', ?_, ?_, by omega, h3, h4, h5, ?_, fun st hst => hsub st (h7 st hst), ?_, ?_⟩
        · rw [hfill]; simp
        · rw [List.append_assoc, h1, htd]
        · intro he
          have := h6 he
          refine ⟨by simpa using this.1, fun _ => by omega⟩
        · intro hnf; exact h8 fun st hst => hnf st (hsub st hst)
        · intro hnone he; exact h9 (fun st hst => hnone st (hsub st hst)) he
    · rename_i hge
      exact ⟨[], rd, false, errs, by simp, by simp, Nat.le_refl _, Nat.le_refl _, by omega, by omega,
        fun _ => ⟨by simp; omega, fun h => by omega⟩, fun st h => h, fun _ => rfl, fun _ h => by cases h⟩

theorem bemit_view (s : Buf) (a r : Bytes) (hoff : s.offset ≤ s.buf.length) (hp : s.pending = a ++ nl :: r) (o : Nat) :
    ViewOK ({ s with offset := o } : Buf).arrays ⟨s.mem.length, s.offset, s.offset + (dropCR a).length⟩ ∧
    readView ({ s with offset := o } : Buf).arrays ⟨s.mem.length, s.offset, s.offset + (dropCR a).length⟩ = dropCR a := by
  have hlen : (dropCR a).length ≤ a.length := (dropCR_prefix a).length_le
  have hpl : s.pending.length = s.buf.length - s.offset := by simp [Buf.pending]
  rw [hp] at hpl; simp at hpl
  have hget : (s.mem ++ [s.buf]).getD s.mem.length [] = s.buf := by simp [List.getD]
  refine ⟨⟨by simp [Buf.arrays], by simp, ?_⟩, ?_⟩
  · show s.offset + (dropCR a).length ≤ ((s.mem ++ [s.buf]).getD s.mem.length []).length
    rw [hget]; omega
  · unfold readView
    show List.take (s.offset + (dropCR a).length - s.offset) (List.drop s.offset ((s.mem ++ [s.buf]).getD s.mem.length [])) = dropCR a
    rw [hget]
    have : s.buf.drop s.offset = a ++ nl :: r := hp
    rw [this, Nat.add_sub_cancel_left]
    have hpre : dropCR a <+: a ++ nl :: r := (dropCR_prefix a).trans (List.prefix_append _ _)
    exact (List.prefix_iff_eq_take.mp hpre).symm

theorem bscan_post (f : Nat) : ∀ {s : Buf} {C : Bytes}, BInv s C → BPost C (s.scan f).1 (s.scan f).2 := by
  induction f with
  | zero => intro s C _; simp [Buf.scan, BPost]
  | succ f ih =>
    intro s C h
    simp only [Buf.scan]
    split
    · -- a newline is in the window
      rename_i rel heq
      obtain ⟨a, r, ha, hp, hl⟩ := split_at_idx heq
      have hp' : s.pending = a ++ nl :: r := hp
      have hpl : s.pending.length = s.buf.length - s.offset := by simp [Buf.pending]
      rw [hp'] at hpl; simp at hpl
      have htake : (s.buf.drop s.offset).take rel = a := by rw [hp, ← hl]; simp
      have hv := bemit_view s a r h.off hp' (s.offset + rel + 1)
      simp only [BPost, htake]
      refine ⟨hv, Or.inl ⟨a, ha, rfl, ⟨by simp; omega, ?_, h.bs⟩⟩⟩
      have hd : s.buf.drop (s.offset + rel + 1) = r := by
        have : s.buf.drop (s.offset + (rel + 1)) = (s.buf.drop s.offset).drop (rel + 1) := by rw [List.drop_drop]
        rw [Nat.add_assoc, this, hp]
        have : rel + 1 = (a ++ [nl]).length := by simp [hl]
        rw [this, show a ++ nl :: r = (a ++ [nl]) ++ r by simp, List.drop_left]
      simp only [Buf.pending, hd]
      rw [h.del, hp']; simp
    · rename_i heq
      have hn : nl ∉ s.pending := idxNl_none.mp heq
      split
      · -- EOF tail
        rename_i hc
        simp only [Bool.and_eq_true, decide_eq_true_eq] at hc
        simp only [BPost]
        have hget : (s.mem ++ [s.buf]).getD s.mem.length [] = s.buf := by simp [List.getD]
        refine ⟨⟨⟨by simp [Buf.arrays], h.off, ?_⟩, ?_⟩, Or.inr ⟨hn, ?_, hc.1, by simp [Buf.pending], ⟨by simp, ?_, h.bs⟩⟩⟩
        · show s.buf.length ≤ ((s.mem ++ [s.buf]).getD s.mem.length []).length
          rw [hget]; exact Nat.le_refl _
        · unfold readView
          show List.take (s.buf.length - s.offset) (List.drop s.offset ((s.mem ++ [s.buf]).getD s.mem.length [])) = _
          rw [hget]; exact List.take_of_length_le (by simp)
        · intro hp
          have : (s.buf.drop s.offset).length = 0 := by rw [hp]; rfl
          simp at this; omega
        · simp [Buf.pending]; exact h.del
      · rename_i hc
        split
        · -- refill and look again
          rename_i hne
          have he : s.eof = false := by simpa using hne
          obtain ⟨new, rd', eof', errs', hfill, _⟩ :=
            fill_spec (s.rd.measure + 2) (max s.maxBufLen ((s.buf.drop s.offset).length + s.maxBufLen / 2))
              (s.buf.drop s.offset) s.rd s.errs s.delivered (by omega)
          rw [hfill]
          simp only
          apply ih
          refine ⟨by simp, ?_, h.bs⟩
          simp only [Buf.pending, List.drop_zero]
          rw [h.del]; simp [Buf.pending]
        · -- finished
          rename_i hne
          have he : s.eof = true := by simpa using hne
          simp only [BPost]
          refine ⟨he, ?_, h⟩
          have : ¬ s.offset < s.buf.length := by
            intro hlt; apply hc; simp [he, hlt]
          simp [Buf.pending]; omega

end Rare.C04

namespace Rare.C04

theorem bscan_closed {P : Buf → Prop} (hP : BClosed P) (f : Nat) : ∀ {s : Buf}, P s → P (s.scan f).2 := by
  induction f with
  | zero => intro s h; exact h
  | succ f ih =>
    intro s h
    simp only [Buf.scan]
    split
    · exact hP.emit _ _ h
    · split
      · exact hP.emit _ _ h
      · split
        · rename_i hne
          have he : s.eof = false := by simpa using hne
          cases hfill : Buf.fill (s.rd.measure + 2) (max s.maxBufLen ((s.buf.drop s.offset).length + s.maxBufLen / 2))
              (s.buf.drop s.offset) s.rd s.errs s.delivered with
          | none => exact h
          | some r =>
            obtain ⟨acc, rd', eof', errs', dl'⟩ := r
            exact ih (hP.refill s acc rd' eof' errs' dl' h he hfill)
        · exact h

/-- The refill step in terms of `fill_spec`'s witnesses. -/
theorem refill_facts (s : Buf) {acc : Bytes} {rd' : Reader} {eof' : Bool} {errs' : Nat} {dl' : Bytes}
    (hfill : Buf.fill (s.rd.measure + 2) (max s.maxBufLen ((s.buf.drop s.offset).length + s.maxBufLen / 2))
      (s.buf.drop s.offset) s.rd s.errs s.delivered = some (acc, rd', eof', errs', dl')) :
    ∃ new, acc = s.buf.drop s.offset ++ new ∧ dl' = s.delivered ++ new ∧ new ++ rd'.rest = s.rd.rest ∧
      rd'.measure ≤ s.rd.measure ∧ s.errs ≤ errs' ∧ errs' ≤ s.errs + 1 ∧ (errs' = s.errs + 1 → eof' = true) ∧
      (∀ st ∈ rd'.script, st ∈ s.rd.script) ∧
      ((∀ st ∈ s.rd.script, st.err ≠ some .fail) → errs' = s.errs) ∧
      ((∀ st ∈ s.rd.script, st.err = none) → eof' = true → rd'.rest = []) ∧
      (eof' = false → 2 ≤ s.maxBufLen → rd'.measure < s.rd.measure) := by
  obtain ⟨new, r2, e2, er2, hf, h1, h2, h3, h4, h5, h6, h7, h8, h9⟩ :=
    fill_spec (s.rd.measure + 2) (max s.maxBufLen ((s.buf.drop s.offset).length + s.maxBufLen / 2))
      (s.buf.drop s.offset) s.rd s.errs s.delivered (by omega)
  rw [hf] at hfill
  simp only [Option.some.injEq, Prod.mk.injEq] at hfill
  obtain ⟨rfl, rfl, rfl, rfl, rfl⟩ := hfill
  refine ⟨new, rfl, rfl, h1, h2, h3, h4, h5, h7, h8, h9, fun he hb => ?_⟩
  exact (h6 he).2 (by
    have : s.maxBufLen / 2 ≥ 1 := by omega
    omega)

theorem bclosed_stream (data : Bytes) : BClosed (fun s => s.delivered ++ s.rd.rest = data) where
  emit := fun s o h => h
  refill := fun s acc rd' eof' errs' dl' h _ hfill => by
    obtain ⟨new, _, rfl, h1, _⟩ := refill_facts s hfill
    simp only [List.append_assoc, h1]; exact h

theorem bclosed_measure (m : Nat) : BClosed (fun s => s.rd.measure ≤ m) where
  emit := fun s o h => h
  refill := fun s acc rd' eof' errs' dl' h _ hfill => by
    obtain ⟨new, _, _, _, h2, _⟩ := refill_facts s hfill
    simp only; omega

theorem bclosed_errs : BClosed (fun s => s.errs = 0 ∨ (s.errs = 1 ∧ s.eof = true)) where
  emit := fun s o h => h
  refill := fun s acc rd' eof' errs' dl' h he hfill => by
    obtain ⟨new, _, _, _, _, h3, h4, h5, _⟩ := refill_facts s hfill
    have h0 : s.errs = 0 := by
      rcases h with h | ⟨_, h⟩
      · exact h
      · rw [he] at h; cases h
    simp only
    by_cases hz : errs' = 0
    · exact Or.inl hz
    · exact Or.inr ⟨by omega, h5 (by omega)⟩

theorem bclosed_nofail : BClosed (fun s => (∀ st ∈ s.rd.script, st.err ≠ some .fail) ∧ s.errs = 0) where
  emit := fun s o h => h
  refill := fun s acc rd' eof' errs' dl' h _ hfill => by
    obtain ⟨new, _, _, _, _, _, _, _, h7, h8, _⟩ := refill_facts s hfill
    exact ⟨fun st hst => h.1 st (h7 st hst), by rw [h8 h.1]; exact h.2⟩

theorem bclosed_drained : BClosed (fun s => (∀ st ∈ s.rd.script, st.err = none) ∧ (s.eof = true → s.rd.rest = [])) where
  emit := fun s o h => h
  refill := fun s acc rd' eof' errs' dl' h _ hfill => by
    obtain ⟨new, _, _, _, _, _, _, _, h7, _, h9, _⟩ := refill_facts s hfill
    exact ⟨fun st hst => h.1 st (h7 st hst), fun he => h9 h.1 he⟩

theorem bclosed_ext (A : List Bytes) : BClosed (fun s => Ext A s.arrays) where
  emit := fun s o h => h
  refill := fun s acc rd' eof' errs' dl' h _ _ => by
    exact h.trans (by simpa [Buf.arrays] using Ext.append (s.mem ++ [s.buf]) [acc])

/-- The outer loop of the buffered `Scan()` never runs out of fuel. -/
theorem bscan_nofuel (f : Nat) : ∀ {s : Buf} {C : Bytes}, BInv s C → s.rd.measure + 1 < f → (s.scan f).1 ≠ .fuel := by
  induction f with
  | zero => intro s C _ h; omega
  | succ f ih =>
    intro s C h hf
    simp only [Buf.scan]
    split
    · simp
    · split
      · simp
      · split
        · rename_i hne
          have he : s.eof = false := by simpa using hne
          cases hfill : Buf.fill (s.rd.measure + 2) (max s.maxBufLen ((s.buf.drop s.offset).length + s.maxBufLen / 2))
              (s.buf.drop s.offset) s.rd s.errs s.delivered with
          | none =>
            obtain ⟨new, r2, e2, er2, hf2, _⟩ :=
              fill_spec (s.rd.measure + 2) (max s.maxBufLen ((s.buf.drop s.offset).length + s.maxBufLen / 2))
                (s.buf.drop s.offset) s.rd s.errs s.delivered (by omega)
            rw [hf2] at hfill; cases hfill
          | some r =>
            obtain ⟨acc, rd', eof', errs', dl'⟩ := r
            obtain ⟨new, hacc, hdl, _, hle, _, _, _, _, _, _, hdec⟩ := refill_facts s hfill
            simp only
            cases hef : eof' with
            | false =>
              have := hdec hef h.bs
              apply ih (C := C)
              · refine ⟨by simp, ?_, h.bs⟩
                simp only [Buf.pending, List.drop_zero]
                rw [hdl, hacc, h.del]; simp [Buf.pending]
              · simp only; omega
            | true =>
              -- with eof set the next round cannot refill again: it emits or finishes
              cases f with
              | zero => omega
              | succ f' =>
                simp only [Buf.scan]
                split
                · simp
                · split
                  · simp
                  · simp
        · simp

end Rare.C04

namespace Rare.C04

theorem bscan_final (f : Nat) {s : Buf} {C : Bytes} (h : BInv s C) (he : s.eof = true) (hp : s.pending = [])
    (hf : 0 < f) : s.scan f = (.done, s) := by
  obtain ⟨g, rfl⟩ : ∃ g, f = g + 1 := ⟨f - 1, by omega⟩
  have hl : (s.buf.drop s.offset).length = 0 := by
    have : s.buf.drop s.offset = [] := hp
    rw [this]; rfl
  have hge : ¬ s.offset < s.buf.length := by simp at hl; omega
  have hidx : idxNl (s.buf.drop s.offset) = none := by
    have : s.buf.drop s.offset = [] := hp
    rw [this]; rfl
  simp [Buf.scan, hidx, he, hge]

def BGood (s : Buf) (E : List Bytes) : Prop :=
  ∃ C, BInv s C ∧ (Boundary C E ∨ (s.eof = true ∧ s.pending = [] ∧ splitLines s.delivered = E))

theorem bgood_init (m : Nat) (rd : Reader) (h : 2 ≤ m) : BGood (Buf.init m rd) [] :=
  ⟨[], ⟨by simp [Buf.init], by simp [Buf.init, Buf.pending], h⟩, Or.inl Boundary.nil⟩

theorem bscan_good (f : Nat) (hf : 0 < f) {s : Buf} {E : List Bytes} (hg : BGood s E) :
    match s.scan f with
    | (.tok _ b, s') => BGood s' (E ++ [b])
    | (.done, s') => splitLines s'.delivered = E ∧ BGood s' E
    | (.fuel, _) => True := by
  obtain ⟨C, hinv, hb⟩ := hg
  rcases hb with hb | ⟨he, hp, hs⟩
  · have hpost := bscan_post f hinv
    generalize s.scan f = r at hpost
    obtain ⟨res, s'⟩ := r
    cases res with
    | tok v b =>
      simp only [BPost] at hpost
      rcases hpost with ⟨_, ⟨a, ha, rfl, hi⟩ | ⟨hnb, hne, he', hp', hi⟩⟩
      · exact ⟨_, hi, Or.inl (hb.line a ha)⟩
      · refine ⟨_, hi, Or.inr ⟨he', hp', ?_⟩⟩
        rw [hi.del, hp']
        have := hb (b ++ [])
        simp only [List.append_nil] at *
        rw [this, splitLines, splitGo_tail _ _ hnb]; simp [hne]
    | done =>
      simp only [BPost] at hpost
      obtain ⟨he', hp', hi⟩ := hpost
      have hs : splitLines s'.delivered = E := by
        rw [hi.del, hp']
        have := hb []
        simpa [splitLines, splitGo] using this
      exact ⟨hs, _, hi, Or.inr ⟨he', hp', hs⟩⟩
    | fuel => trivial
  · rw [bscan_final f hinv he hp hf]
    exact ⟨hs, C, hinv, Or.inr ⟨he, hp, hs⟩⟩

theorem bscanAll_good (f : Nat) (hf : 0 < f) : ∀ (n : Nat) {s : Buf} {E : List Bytes}, BGood s E →
    (s.scanAll f n).2.1 = true →
    splitLines (s.scanAll f n).2.2.delivered = E ++ (s.scanAll f n).1.map (·.2) := by
  intro n
  induction n with
  | zero => intro s E _ h; simp [Buf.scanAll] at h
  | succ n ih =>
    intro s E hg hdone
    have hsg := bscan_good f hf hg
    simp only [Buf.scanAll] at hdone ⊢
    generalize s.scan f = r at hsg hdone
    obtain ⟨res, s'⟩ := r
    cases res with
    | tok v b =>
      simp only at hsg hdone ⊢
      have := ih hsg hdone
      rw [this]; simp
    | done => simp only at hsg ⊢; simp [hsg.1]
    | fuel => simp at hdone

theorem bscanAll_closed {P} (hP : BClosed P) (f : Nat) (hf : 0 < f) : ∀ (n : Nat) {s : Buf} {E : List Bytes},
    BGood s E → P s → P (s.scanAll f n).2.2 := by
  intro n
  induction n with
  | zero => intro s E _ h; exact h
  | succ n ih =>
    intro s E hg h
    have hsg := bscan_good f hf hg
    have hc := bscan_closed hP f (s := s) h
    simp only [Buf.scanAll]
    generalize s.scan f = r at hsg hc
    obtain ⟨res, s'⟩ := r
    cases res with
    | tok v b => exact ih hsg hc
    | done => exact hc
    | fuel => exact hc

def Buf.consumed (s : Buf) : Nat := s.delivered.length - s.pending.length

theorem bconsumed_eq {s : Buf} {C : Bytes} (h : BInv s C) : s.consumed = C.length := by
  simp [Buf.consumed, h.del]

theorem bscanAll_done (f : Nat) (data : Bytes) : ∀ (n : Nat) {s : Buf} {E : List Bytes}, BGood s E →
    s.delivered ++ s.rd.rest = data → s.rd.measure + 1 < f → data.length - s.consumed < n →
    (s.scanAll f n).2.1 = true := by
  intro n
  induction n with
  | zero => intro s E _ _ _ h; omega
  | succ n ih =>
    intro s E hg hd hm hn
    obtain ⟨C, hinv, _⟩ := id hg
    have hsg := bscan_good f (by omega) hg
    have hpost := bscan_post f hinv
    have hnf := bscan_nofuel f hinv hm
    have hd' := bscan_closed (bclosed_stream data) f (s := s) hd
    have hm' := bscan_closed (bclosed_measure s.rd.measure) f (s := s) (Nat.le_refl _)
    simp only [Buf.scanAll]
    generalize s.scan f = r at hsg hpost hnf hd' hm'
    obtain ⟨res, s'⟩ := r
    cases res with
    | tok v b =>
      simp only at hsg hd' hm' ⊢
      apply ih hsg hd' (by omega)
      have hc := bconsumed_eq hinv
      have hlen : s'.consumed ≤ data.length ∧ s.consumed < s'.consumed := by
        simp only [BPost] at hpost
        rcases hpost with ⟨_, ⟨a, _, _, hi⟩ | ⟨_, hne, _, _, hi⟩⟩
        · have := bconsumed_eq hi
          have hle : s'.consumed ≤ s'.delivered.length := by simp [Buf.consumed]
          have : s'.delivered.length ≤ data.length := by rw [← hd']; simp
          simp at *; omega
        · have := bconsumed_eq hi
          have hle : s'.consumed ≤ s'.delivered.length := by simp [Buf.consumed]
          have : s'.delivered.length ≤ data.length := by rw [← hd']; simp
          have : 0 < b.length := List.length_pos_iff.mpr hne
          simp at *; omega
      omega
    | done => rfl
    | fuel => simp at hnf

theorem bscanAll_views (f : Nat) (hf : 0 < f) : ∀ (n : Nat) {s : Buf} {E : List Bytes}, BGood s E →
    ∀ vb ∈ (s.scanAll f n).1, readView (s.scanAll f n).2.2.arrays vb.1 = vb.2 := by
  intro n
  induction n with
  | zero => intro s E _ vb h; simp [Buf.scanAll] at h
  | succ n ih =>
    intro s E hg vb hvb
    obtain ⟨C, hinv, _⟩ := id hg
    have hsg := bscan_good f hf hg
    have hpost := bscan_post f hinv
    simp only [Buf.scanAll] at hvb ⊢
    generalize s.scan f = r at hsg hpost hvb
    obtain ⟨res, s'⟩ := r
    cases res with
    | tok v b =>
      simp only at hsg hvb ⊢
      simp only [List.mem_cons] at hvb
      rcases hvb with rfl | hmem
      · have hext := bscanAll_closed (bclosed_ext s'.arrays) f hf n hsg (Ext.refl _)
        simp only [BPost] at hpost
        rw [(readView_ext hext hpost.1.1).1]
        exact hpost.1.2
      · exact ih hsg vb hmem
    | done => simp at hvb
    | fuel => simp at hvb

theorem bscanAll_eof (f : Nat) (hf : 0 < f) : ∀ (n : Nat) {s : Buf} {E : List Bytes}, BGood s E →
    (s.scanAll f n).2.1 = true → (s.scanAll f n).2.2.eof = true := by
  intro n
  induction n with
  | zero => intro s E _ h; simp [Buf.scanAll] at h
  | succ n ih =>
    intro s E hg hdone
    obtain ⟨C, hinv, _⟩ := id hg
    have hsg := bscan_good f hf hg
    have hpost := bscan_post f hinv
    simp only [Buf.scanAll] at hdone ⊢
    generalize s.scan f = r at hsg hpost hdone
    obtain ⟨res, s'⟩ := r
    cases res with
    | tok v b => exact ih hsg hdone
    | done => exact hpost.1
    | fuel => simp at hdone

end Rare.C04
