import Rare.Proofs.C09C10
import Rare.Model.Expr.Std
/-!
C09 × C10: members of the *standard* function registry satisfy the registry hypothesis of
`print_compile` (`Implements`) – shown for a lazy builder (`if`, three arguments), a strict one (`not`)
and a variadic fold (`eq`, two arguments); the same two-line proof pattern works for every helper whose
stage only runs its argument stages and computes.

Not every standard helper can satisfy `Implements` (and for those the tree semantics "value = function
of the argument values" is not what rare documents either):
* helpers that demand *constant* arguments (`bucket`'s size, `format`'s pattern, `select`'s index …)
  answer a compile error for `{f {0} {1}}`;
* helpers that type-check constant arguments at compile time (`{sumi abc 1}`: compile error
  `ErrorNum` – the value `<BAD-TYPE>` is still what the tree semantics of `sumi` says, but "compiles
  without errors" fails; with integer or non-constant arguments they are pure functions);
* helpers that evaluate an argument in a sub-context (`@map`, `@filter`, `@reduce`, `@for`, user functions
  with `{0}` rebinding) – the argument's value in the caller's context is not what they use;
* `{time live}` / `{time delta}` (not a function of the arguments at all);
* helpers outside the model (`unmodelledBuilder`).
-/
namespace Rare.C09
open Rare Rare.Expr

def ifSem : List Bytes → Bytes
  | [c, t, e] => if truthy c then t else e
  | _ => []

def notSem : List Bytes → Bytes
  | [a] => if truthy a then FalsyVal else TruthyVal
  | _ => []

def eqSem : List Bytes → Bytes
  | [a, b] => if a = b then TruthyVal else FalsyVal
  | _ => []

theorem map_run_3 {ctx : Ctx} {c t e : Stage} {vals : List Bytes}
    (h : [c, t, e].map (·.run ctx) = vals.map .ok) :
    ∃ vc vt ve, vals = [vc, vt, ve] ∧ c.run ctx = .ok vc ∧ t.run ctx = .ok vt ∧ e.run ctx = .ok ve := by
  rcases vals with _ | ⟨vc, _ | ⟨vt, _ | ⟨ve, _ | ⟨x, r⟩⟩⟩⟩ <;> simp at h
  exact ⟨vc, vt, ve, rfl, h.1, h.2.1, h.2.2⟩

/-- `{if c t e}` is lazy (only one branch is run), yet implements if-then-else on the values. -/
theorem kfIf_implements : Implements Funcs.Logic.kfIf ifSem 3 := by
  intro cargs hlen _
  match cargs, hlen with
  | [c, t, e], _ =>
    refine ⟨_, rfl, fun ctx vals h => ?_⟩
    obtain ⟨vc, vt, ve, rfl, hc, ht, he⟩ := map_run_3 h
    show (c.bind fun v => if truthy v then t else e).run ctx = _
    rw [run_bind, hc]
    simp only [ifSem]
    split
    · exact ht
    · exact he

theorem kfNot_implements : Implements Funcs.Logic.kfNot notSem 1 := by
  intro cargs hlen _
  match cargs, hlen with
  | [a], _ =>
    refine ⟨_, rfl, fun ctx vals h => ?_⟩
    rcases vals with _ | ⟨va, _ | ⟨x, r⟩⟩ <;> simp at h
    show (a.bind fun v => .ret (if truthy v then FalsyVal else TruthyVal)).run ctx = _
    rw [run_bind, h]
    rfl

theorem kfEq_implements :
    Implements (Funcs.Logic.stringComparator fun a b => if a = b then TruthyVal else FalsyVal) eqSem 2 := by
  intro cargs hlen _
  match cargs, hlen with
  | [a, b], _ =>
    refine ⟨_, rfl, fun ctx vals h => ?_⟩
    rcases vals with _ | ⟨va, _ | ⟨vb, _ | ⟨x, r⟩⟩⟩ <;> simp at h
    show (a.bind fun v => b.bind fun w => .ret (if v = w then TruthyVal else FalsyVal)).run ctx = _
    rw [run_bind, h.1]
    simp only []
    rw [run_bind, h.2]
    rfl

/-- The standard registry (with any list of known-but-unmodelled names). -/
def stdRegistry (known : List String) : Registry := mkRegistry stdTable known

theorem std_if (known : List String) : stdRegistry known "if".toList = some Funcs.Logic.kfIf := by
  simp [stdRegistry, mkRegistry, lookupTable, stdTable, Funcs.Logic.table, List.find?]
theorem std_not (known : List String) : stdRegistry known "not".toList = some Funcs.Logic.kfNot := by
  simp [stdRegistry, mkRegistry, lookupTable, stdTable, Funcs.Logic.table, List.find?]
theorem std_eq (known : List String) : stdRegistry known "eq".toList =
    some (Funcs.Logic.stringComparator fun a b => if a = b then TruthyVal else FalsyVal) := by
  simp [stdRegistry, mkRegistry, lookupTable, stdTable, Funcs.Logic.table, List.find?]

/-- The meaning of the three names in the spec's environment. -/
def stdFn (f : List Char) : List Bytes → Bytes :=
  if f = "if".toList then ifSem else if f = "not".toList then notSem else if f = "eq".toList then eqSem
  else fun _ => []

/-- `{if {eq {0} "a b"} {not {k}} no}` -/
def stdTree : C09.Expr :=
  .call "if".toList [.call "eq".toList [.group 0, .lit "a b".toList], .call "not".toList [.key "k".toList], .lit "no".toList]

theorem stdTree_regSem (known : List String) : RegSem (stdRegistry known) stdFn stdTree := by
  simp only [stdTree, RegSem, RegSemArgs]
  exact ⟨⟨_, std_if known, kfIf_implements⟩, ⟨⟨_, std_eq known, kfEq_implements⟩, trivial, trivial, trivial⟩,
    ⟨⟨_, std_not known, kfNot_implements⟩, trivial, trivial⟩, trivial, trivial⟩

end Rare.C09
