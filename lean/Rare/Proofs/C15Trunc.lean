import Rare.Model.C15Trunc
import Rare.Proofs.C15PollLive
/-!
C15 – lemmas about in-place truncation (`Rare.Model.C15Trunc`): the notify reader never seeks backwards
and delivers nothing while its offset is at or beyond the end of the file; the polling reader with
re-open restarts a file it finds shorter than its offset from the beginning.
-/
namespace Rare.Follow
open Rare.C15.Spec

variable {β : Type}

theorem extract_read1 (c : List β) (p n : Nat) : extract c p (p + n) = (c.drop p).take n := by
  simp [extract]

/-! ### notify -/

/-- One step of the extended notify LTS, looked at through the open handle: as long as the same inode
    stays open its offset only grows, and what was delivered is exactly the bytes the file held between
    the two offsets at that moment. -/
theorem nstepT_forward {cfg : NCfg} {w : Who} {s s' : NSt β} (hs : NStepT cfg w s s') (h h' : Handle)
    (hf : s.f = some h) (hf' : s'.f = some h') (hino : h'.ino = h.ino) :
    h.pos ≤ h'.pos ∧ h'.start = h.start ∧
      s'.delivered = s.delivered ++ extract (s.fs.content h.ino) h.pos h'.pos := by
  have same : ∀ (t : NSt β), t.f = some h' → t.f = s.f → t.delivered = s.delivered →
      h.pos ≤ h'.pos ∧ h'.start = h.start ∧
        t.delivered = s.delivered ++ extract (s.fs.content h.ino) h.pos h'.pos := by
    intro t h0 h1 h2
    have : h' = h := by
      rw [h1, hf] at h0; exact (Option.some.inj h0).symm
    subst this
    rw [h2, extract_self]; simp
  cases hs with
  | truncate _ i n hp hn => exact same _ hf' rfl rfl
  | base hb =>
    cases hb with
    | append _ i bs hp hne => exact same _ hf' rfl rfl
    | remove _ i hp => exact same _ hf' rfl rfl
    | create _ hp => exact same _ hf' rfl rfl
    | noise _ => exact same _ hf' rfl rfl
    | dispatch _ e rest he =>
      cases e <;> exact same _ hf' rfl rfl
    | readSome _ x n hrd hx hn1 hn =>
      rw [hf] at hx; cases hx
      simp only [Option.some.injEq] at hf'
      subst hf'
      refine ⟨Nat.le_add_right _ _, rfl, ?_⟩
      simp only [unread, extract_read1]
    | readEmpty _ x hrd hx hu => exact same _ hf' rfl rfl
    | readNil _ hrd hx => rw [hf] at hx; cases hx
    | recvW _ hrd hpw =>
      have : (onWrite cfg { s with pw := s.pw - 1 }) = { s with pw := s.pw - 1 } := by
        simp [onWrite, hf]
      rw [this] at hf' ⊢
      exact same _ hf' rfl rfl
    | recvD _ hrd hpd hre =>
      by_cases hsf : sameFile { s with pd := s.pd - 1 } = true
      · have : reopenIfReplaced { s with pd := s.pd - 1 } = { s with pd := s.pd - 1 } := by
          simp [reopenIfReplaced, hsf]
        rw [this] at hf' ⊢
        exact same _ hf' rfl rfl
      · exfalso
        have hr : reopenIfReplaced { s with pd := s.pd - 1 } =
            { NSt.closeFile { s with pd := s.pd - 1 } with f := openAt s.fs 0 } := by
          simp [reopenIfReplaced, hsf, NSt.closeFile]
        rw [hr] at hf'
        simp only [openAt] at hf'
        cases hp : s.fs.path with
        | none => rw [hp] at hf'; cases hf'
        | some i =>
          rw [hp] at hf'
          simp only [Option.some.injEq] at hf'
          subst hf'
          simp only [sameFile, hf, hp] at hsf
          simp only at hino
          apply hsf
          simp [hino]
    | recvDPlain _ hrd hpd hre => simp [NSt.closeFile] at hf'

/-- While the open file is the one at the path and the offset is at or beyond its end (in particular
    after a truncation, whatever has been written below the offset since), no step of the fsnotify
    goroutine or the reader delivers anything, and the descriptor – if it stays open – stays where it is. -/
theorem nstep_blind_beyond_end {cfg : NCfg} {w : Who} {s s' : NSt β} (hw : w ≠ .writer) (hs : NStep cfg w s s')
    (h : Handle) (hf : s.f = some h) (hp : s.fs.path = some h.ino) (hb : beyondEnd s.fs h) :
    s'.delivered = s.delivered ∧ s'.fs = s.fs ∧ (s'.f = some h ∨ s'.f = none) := by
  cases hs with
  | append _ i bs hp hne => exact absurd rfl hw
  | remove _ i hp => exact absurd rfl hw
  | create _ hp => exact absurd rfl hw
  | noise _ => exact absurd rfl hw
  | dispatch _ e rest he => cases e <;> exact ⟨rfl, rfl, Or.inl hf⟩
  | readSome _ x n hrd hx hn1 hn =>
    exfalso
    rw [hf] at hx; cases hx
    have : (unread s.fs h).length = 0 := by
      simp only [unread, List.length_drop]; unfold beyondEnd at hb; omega
    omega
  | readEmpty _ x hrd hx hu => exact ⟨rfl, rfl, Or.inl hf⟩
  | readNil _ hrd hx => exact ⟨rfl, rfl, Or.inl hf⟩
  | recvW _ hrd hpw =>
    have : (onWrite cfg { s with pw := s.pw - 1 }) = { s with pw := s.pw - 1 } := by
      simp [onWrite, hf]
    rw [this]; exact ⟨rfl, rfl, Or.inl hf⟩
  | recvD _ hrd hpd hre =>
    have hsf : sameFile { s with pd := s.pd - 1 } = true := by simp [sameFile, hf, hp]
    have : reopenIfReplaced { s with pd := s.pd - 1 } = { s with pd := s.pd - 1 } := by
      simp [reopenIfReplaced, hsf]
    rw [this]; exact ⟨rfl, rfl, Or.inl hf⟩
  | recvDPlain _ hrd hpd hre => exact ⟨rfl, rfl, Or.inr rfl⟩

/-- Invariant of the extended notify LTS while nothing was removed: inode 0 stays open, no delete signal
    exists, and the number of delivered bytes is the distance the offset has travelled. -/
structure NTInv (st0 : Nat) (s : NSt β) : Prop where
  handle : ∃ p, s.f = some ⟨0, st0, p⟩ ∧ st0 ≤ p ∧ s.delivered.length + st0 = p
  path : s.fs.path = some 0
  nopd : s.pd = 0
  noev : Ev.remove ∉ s.evq
  nocr : Ev.create ∉ s.evq
  alive : s.rd ≠ .ended

theorem ntinv_init (c0 : List β) (tail : Bool) : NTInv (start0 (some c0) tail) (ninit (some c0) tail) := by
  refine ⟨⟨start0 (some c0) tail, rfl, Nat.le_refl _, by simp [ninit]⟩, rfl, rfl, by simp [ninit], by simp [ninit], by simp [ninit]⟩

theorem ntinv_step {cfg : NCfg} {st0 : Nat} {w : Who} {s s' : NSt β} (hi : NTInv st0 s) (hs : NStepT cfg w s s')
    (hrm' : s'.removes = 0) : NTInv st0 s' := by
  obtain ⟨⟨p, hf, hle, hlen⟩, hpath, hpd, hev, hcr, hal⟩ := hi
  cases hs with
  | truncate _ i n hp hn =>
    exact ⟨⟨p, hf, hle, hlen⟩, hpath, hpd, by simpa using hev, by simpa using hcr, hal⟩
  | base hb =>
    cases hb with
    | append _ i bs hp hne => exact ⟨⟨p, hf, hle, hlen⟩, hpath, hpd, by simpa using hev, by simpa using hcr, hal⟩
    | remove _ i hp => simp at hrm'
    | create _ hp => rw [hpath] at hp; cases hp
    | noise _ => exact ⟨⟨p, hf, hle, hlen⟩, hpath, hpd, by simpa using hev, by simpa using hcr, hal⟩
    | dispatch _ e rest he =>
      rw [he] at hev hcr
      cases e with
      | write => exact ⟨⟨p, hf, hle, hlen⟩, hpath, hpd, fun hm => hev (List.mem_cons_of_mem _ hm),
          fun hm => hcr (List.mem_cons_of_mem _ hm), hal⟩
      | remove => exact absurd List.mem_cons_self hev
      | create => exact absurd List.mem_cons_self hcr
      | other => exact ⟨⟨p, hf, hle, hlen⟩, hpath, hpd, fun hm => hev (List.mem_cons_of_mem _ hm),
          fun hm => hcr (List.mem_cons_of_mem _ hm), hal⟩
    | readSome _ x n hrd hx hn1 hn =>
      rw [hf] at hx; cases hx
      refine ⟨⟨p + n, rfl, by omega, ?_⟩, hpath, hpd, hev, hcr, by simp [hrd]⟩
      simp only [List.length_append, List.length_take]
      have : min n (unread s.fs ⟨0, st0, p⟩).length = n := Nat.min_eq_left hn
      omega
    | readEmpty _ x hrd hx hu => exact ⟨⟨p, hf, hle, hlen⟩, hpath, hpd, hev, hcr, by simp⟩
    | readNil _ hrd hx => rw [hf] at hx; cases hx
    | recvW _ hrd hpw =>
      have : (onWrite cfg { s with pw := s.pw - 1 }) = { s with pw := s.pw - 1 } := by
        simp [onWrite, hf]
      rw [this]
      exact ⟨⟨p, hf, hle, hlen⟩, hpath, hpd, hev, hcr, by simp⟩
    | recvD _ hrd hpd' hre => omega
    | recvDPlain _ hrd hpd' hre => omega

theorem nstepT_removes_mono {cfg : NCfg} {w : Who} {s s' : NSt β} (hs : NStepT cfg w s s') :
    s.removes ≤ s'.removes := by
  cases hs with
  | truncate _ i n hp hn => exact Nat.le_refl _
  | base hb =>
    cases hb with
    | remove _ i hp => exact Nat.le_succ _
    | dispatch _ e rest he => cases e <;> exact Nat.le_refl _
    | recvW _ hrd hpw => simp only [onWrite]; split <;> exact Nat.le_refl _
    | recvD _ hrd hpd hre => simp only [reopenIfReplaced]; split <;> exact Nat.le_refl _
    | _ => exact Nat.le_refl _

theorem ntinv_reach {cfg : NCfg} (c0 : List β) (tail : Bool) {s : NSt β}
    (hr : NReachT cfg (ninit (some c0) tail) s) (hrm : s.removes = 0) : NTInv (start0 (some c0) tail) s := by
  induction hr with
  | refl => exact ntinv_init c0 tail
  | step _ hs ih =>
    have := nstepT_removes_mono hs
    exact ntinv_step (ih (by omega)) hs hrm

/-! ### poll -/

/-- `k` empty reads in a row. -/
theorem poll_empty_reads {cfg : PCfg} (s : PSt β) (h : Handle) (hf : s.f = some h) (hu : unread s.fs h = []) :
    ∀ (k i : Nat), i + k = cfg.attempts → s.rd = .attempt i →
      PSysReach cfg s { s with rd := .attempt cfg.attempts } := by
  intro k
  induction k generalizing s with
  | zero =>
    intro i hi hrd
    have : i = cfg.attempts := by omega
    subst this
    have : ({ s with rd := .attempt cfg.attempts } : PSt β) = s := by
      cases s; simp only at hrd; subst hrd; rfl
    rw [this]; exact .refl _
  | succ k ih =>
    intro i hi hrd
    have hstep : PStep cfg .reader s { s with rd := .attempt (i + 1) } :=
      .readEmpty s h i hrd (by omega) hf hu
    have := ih { s with rd := .attempt (i + 1) } hf hu (i + 1) (by omega) rfl
    exact .step hstep this

/-- **The polling reader with re-open restarts a file it finds shorter than its offset.**  Reader at the
    top of `Read`, nothing left to read through the old descriptor, the file at the path (the same inode
    after a truncation, or a new one after a rotation) shorter than `readBytes`: with a silent writer the
    reader does its empty reads, `Stat`s, re-opens, resets the offset and delivers the WHOLE file at the
    path from its beginning. -/
theorem poll_restart_run {cfg : PCfg} (hA : 1 ≤ cfg.attempts) (hre : cfg.reopen = true) (s : PSt β) (h : Handle)
    (j : Nat) (hf : s.f = some h) (hp : s.fs.path = some j) (hrd : s.rd = .attempt 0)
    (hu : unread s.fs h = []) (hlt : (s.fs.content j).length < s.readBytes) :
    ∃ s', PSysReach cfg s s' ∧ s'.delivered = s.delivered ++ s.fs.content j ∧
      s'.f = some ⟨j, 0, (s.fs.content j).length⟩ ∧ s'.readBytes = (s.fs.content j).length ∧
      s'.skips = s.skips ∧ s'.fs = s.fs ∧ s'.hist = s.hist ++ [h] := by
  let sz := (s.fs.content j).length
  have r1 := poll_empty_reads (cfg := cfg) s h hf hu cfg.attempts 0 (by omega) hrd
  let s1 : PSt β := { s with rd := .attempt cfg.attempts }
  have st2 : PStep cfg .reader s1 { s1 with rd := .check } := .loopDone s1 h rfl hf
  let s2 : PSt β := { s1 with rd := .check }
  have st3 : PStep cfg .reader s2 { s2 with rd := .opening sz } :=
    .statDiff s2 j rfl hre hp (by show sz ≠ s.readBytes; omega)
  let s3 : PSt β := { s2 with rd := .opening sz }
  have st4 : PStep cfg .reader s3 (openStep s3 sz) := .reopen s3 sz rfl
  have hm : merges s3 sz = false := by
    simp only [merges, s3, s2, s1, hf, hp]
    have : ¬ s.readBytes ≤ sz := by omega
    simp [this]
  have hopen : openStep s3 sz =
      { s with f := some ⟨j, 0, 0⟩, readBytes := 0, hist := s.hist ++ [h], rd := .attempt 0 } := by
    have hn : ¬ s.readBytes ≤ sz := by omega
    unfold openStep
    rw [hm]
    simp only [Bool.false_eq_true, if_false, openNew, s3, s2, s1, hn, PSt.pushOld, hf, openAt, hp]
    simp
  let s4 : PSt β := { s with f := some ⟨j, 0, 0⟩, readBytes := 0, hist := s.hist ++ [h], rd := .attempt 0 }
  have r4 : PSysReach cfg s s4 :=
    r1.trans (.step st2 (.step st3 (.step (by rw [hopen] at st4; exact st4) (.refl _))))
  by_cases hz : sz = 0
  · refine ⟨s4, r4, ?_, ?_, ?_, rfl, rfl, rfl⟩
    · have : s.fs.content j = [] := List.eq_nil_of_length_eq_zero hz
      simp [s4, this]
    · show some (⟨j, 0, 0⟩ : Handle) = some ⟨j, 0, sz⟩; rw [hz]
    · show 0 = sz; omega
  · have hun : unread s4.fs ⟨j, 0, 0⟩ = s.fs.content j := by simp [unread, s4]
    have st5 : PStep cfg .reader s4 _ :=
      .readSome s4 ⟨j, 0, 0⟩ 0 sz rfl (by omega) rfl (by omega) (by rw [hun]; exact Nat.le_refl _)
    refine ⟨_, r4.trans (.step st5 (.refl _)), ?_, ?_, ?_, rfl, rfl, rfl⟩
    · simp only [hun]; simp [s4, sz]
    · simp [sz]
    · simp [s4, sz]

end Rare.Follow
