import Rare.Proofs.C12Parse
import Rare.Proofs.C16Table
/-!
Seam C16 ↔ C12: the name table the C16 model assumes for dissect (`C16.dissectNameTable`, a hand
copy of the `groupNames` part of `dissect.CompileEx`) is the table C12's model of `CompileEx`
(`C12.compileEx … .groupNames`) builds, and it rejects (`key conflict`) exactly where `CompileEx`
answers `ErrorKeyConflict`.
-/
namespace Rare.C16
open Rare.C12

/-- what C16 looks at of a compiled token: `(keyName, skipped)` -/
def tokenView (t : C12.Token) : Bytes × Bool := (t.name, t.skip)

/-- the same of a token of the pattern grammar -/
def tokView (t : C12.Tok) : Bytes × Bool := (t.name, t.skip)

/-- `map[string]int` entries of C12 (`Nat`) as C16 carries them (`Int`) -/
def castTable (m : List (Bytes × Nat)) : List (Bytes × Int) := m.map fun e => (e.1, (e.2 : Int))

theorem tokenView_tokOf (ic : Bool) (toks : List Tok) :
    (toks.map (tokOf ic)).map tokenView = toks.map tokView := by
  simp [tokenView, tokView, tokOf, Function.comp_def]

theorem mapSet_fresh {β : Type} (m : List (Bytes × β)) (k : Bytes) (v : β)
    (h : m.any (fun p => p.1 == k) = false) : mapSet m k v = m ++ [(k, v)] := by
  simp [mapSet, h]

theorem castTable_append (a b : List (Bytes × Nat)) : castTable (a ++ b) = castTable a ++ castTable b := by
  simp [castTable]

/-- no compile error ⇒ the C16 loop succeeds with the table of C12 (names in order, numbered
`g+1, g+2, …`), appended to what the map already held -/
theorem dissectTableGo_of_specErrors (u : Bool) : ∀ (toks : List Tok) (m : List (Bytes × Int)) (g : Nat)
    (seen : List Bytes),
    (∀ n, n ∈ seen ↔ m.any (fun p => p.1 == n) = true) →
    specErrors u toks seen = none →
    dissectTableGo m g (toks.map tokView) =
      .ok (m ++ castTable (((toks.filter (fun t => !t.skip)).map Tok.name).zipIdx (g + 1))) := by
  intro toks
  induction toks with
  | nil => intro m g seen _ _; simp [dissectTableGo, castTable]
  | cons t ts ih =>
    intro m g seen hseen hs
    simp only [specErrors] at hs
    split at hs
    · cases hs
    · split at hs
      · cases hs
      · rename_i hseq hconf
        simp only [List.map_cons, tokView, dissectTableGo]
        by_cases hsk : t.skip = true
        · simp only [hsk, if_true] at hs ⊢
          have := ih m g seen hseen hs
          rw [this]
          simp [List.filter, hsk]
        · have hsk' : t.skip = false := by simpa using hsk
          simp only [hsk', Bool.false_eq_true, if_false] at hs ⊢
          have hnot : ¬ (m.any (fun p => p.1 == t.name) = true) := by
            intro h
            exact hconf ⟨by simp [hsk'], (hseen t.name).mpr h⟩
          have hfalse : m.any (fun p => p.1 == t.name) = false := Bool.eq_false_iff.mpr hnot
          rw [if_neg hnot, mapSet_fresh m t.name _ hfalse]
          have := ih (m ++ [(t.name, ((g + 1 : Nat) : Int))]) (g + 1) (t.name :: seen) (by
            intro n
            simp only [List.mem_cons, List.any_append, List.any_cons, List.any_nil, Bool.or_false,
              Bool.or_eq_true, beq_iff_eq]
            rw [hseen n]
            constructor
            · rintro (h | h)
              · right; exact h.symm
              · left; exact h
            · rintro (h | h)
              · right; exact h
              · left; exact h.symm) hs
          rw [this]
          simp [List.filter, hsk', List.zipIdx_cons, castTable]

/-- `ErrorKeyConflict` in C12 ⇒ `key conflict` in the C16 loop -/
theorem dissectTableGo_of_conflict (u : Bool) : ∀ (toks : List Tok) (m : List (Bytes × Int)) (g : Nat)
    (seen : List Bytes),
    (∀ n, n ∈ seen ↔ m.any (fun p => p.1 == n) = true) →
    specErrors u toks seen = some .conflict →
    dissectTableGo m g (toks.map tokView) = .error "key conflict" := by
  intro toks
  induction toks with
  | nil => intro m g seen _ h; simp only [specErrors] at h; split at h <;> cases h
  | cons t ts ih =>
    intro m g seen hseen hs
    simp only [specErrors] at hs
    split at hs
    · cases hs
    · simp only [List.map_cons, tokView, dissectTableGo]
      split at hs
      · rename_i hconf
        have hsk' : t.skip = false := by simpa using hconf.1
        simp only [hsk', Bool.false_eq_true, if_false]
        rw [if_pos ((hseen t.name).mp hconf.2)]
      · rename_i hconf
        by_cases hsk : t.skip = true
        · simp only [hsk, if_true] at hs ⊢
          have := ih m g seen hseen hs
          exact this
        · have hsk' : t.skip = false := by simpa using hsk
          simp only [hsk', Bool.false_eq_true, if_false] at hs ⊢
          have hnot : ¬ (m.any (fun p => p.1 == t.name) = true) := by
            intro h
            exact hconf ⟨by simp [hsk'], (hseen t.name).mpr h⟩
          have hfalse : m.any (fun p => p.1 == t.name) = false := Bool.eq_false_iff.mpr hnot
          rw [if_neg hnot, mapSet_fresh m t.name _ hfalse]
          have := ih (m ++ [(t.name, ((g + 1 : Nat) : Int))]) (g + 1) (t.name :: seen) (by
            intro n
            simp only [List.mem_cons, List.any_append, List.any_cons, List.any_nil, Bool.or_false,
              Bool.or_eq_true, beq_iff_eq]
            rw [hseen n]
            constructor
            · rintro (h | h)
              · right; exact h.symm
              · left; exact h
            · rintro (h | h)
              · right; exact h
              · left; exact h.symm) hs
          exact this

theorem dissectNameTable_compiled {p : Pat} (h : specErrors false p.toks [] = none) :
    dissectNameTable (p.toks.map tokView) = .ok (castTable (nameTable p.toks)) := by
  have := dissectTableGo_of_specErrors false p.toks [] 0 [] (by simp) h
  simpa [dissectNameTable, nameTable] using this

/-- numbers of the C12 table: 1, 2, …, count -/
theorem nameTable_numbers (toks : List Tok) :
    (nameTable toks).map (·.2) = List.range' 1 (capCount toks) ∧
    (nameTable toks).map (·.1) = (toks.filter (fun t => !t.skip)).map Tok.name := by
  simp [nameTable, capCount, List.zipIdx_map_snd, List.zipIdx_map_fst]

end Rare.C16
