import Rare.Proofs.C16
/-! C16: a numeric capture and the JSON number emitted for it denote the same rational. -/
namespace Rare.C16

theorem digVal_foldl (b : Bytes) : ∀ acc : Nat,
    b.foldl (fun a c => a * 10 + (c.toNat - 48)) acc = acc * 10 ^ b.length + digVal b := by
  induction b with
  | nil => intro acc; simp [digVal]
  | cons c r ih =>
    intro acc
    simp only [List.foldl_cons, digVal, List.length_cons]
    rw [ih, ih (0 * 10 + (c.toNat - 48))]
    simp [Nat.pow_succ, Nat.add_mul, Nat.mul_assoc, Nat.mul_comm 10, Nat.add_assoc]

theorem digVal_append (a b : Bytes) : digVal (a ++ b) = digVal a * 10 ^ b.length + digVal b := by
  unfold digVal
  rw [List.foldl_append, digVal_foldl]
  rfl

theorem ten_pow_ne (n : Nat) : (10 : Rat) ^ n ≠ 0 := by
  have : (0 : Rat) < 10 ^ n := Rat.pow_pos (by decide)
  intro e; rw [e] at this; exact absurd this (by decide)

theorem ratOf_zero (m : Nat) : ratOf (m : Int) 0 = (m : Rat) := by
  simp [ratOf, Rat.intCast_natCast]

theorem ratOf_frac (a b n : Nat) :
    ratOf ((a * 10 ^ n + b : Nat) : Int) (-(n : Int)) = (a : Rat) + (b : Rat) / (10 : Rat) ^ n := by
  unfold ratOf
  rw [Rat.intCast_natCast, Rat.zpow_neg, Rat.zpow_natCast, Rat.natCast_add, Rat.natCast_mul, Rat.natCast_pow]
  have h := ten_pow_ne n
  have e : ((10 : Nat) : Rat) = 10 := rfl
  rw [e]
  grind

theorem decimalRat_int (ip : Bytes) (hne : ip ≠ []) (hall : ip.all isDig = true) :
    decimalRat ip = some (digVal ip : Rat) := by
  have hsp := span_digits ip [] hall (by intro c hc; simp at hc)
  simp only [List.append_nil] at hsp
  simp [decimalRat, hsp, hne]

theorem decimalRat_frac (ip fp : Bytes) (hne : ip ≠ []) (hall : ip.all isDig = true)
    (hfne : fp ≠ []) (hfall : fp.all isDig = true) :
    decimalRat (ip ++ 0x2e :: fp) = some ((digVal ip : Rat) + (digVal fp : Rat) / (10 : Rat) ^ fp.length) := by
  have hsp := span_digits ip (0x2e :: fp) hall (by intro c hc; simp at hc; subst hc; decide)
  simp only [decimalRat, hsp, hne, if_false]
  simp [hfne]
  simpa using hfall

/-- What `isNumeric` accepts, followed by a delimiter, is a JSON number, and the rational it
denotes is the rational the capture denotes when read as a decimal numeral. -/
theorem isNumeric_rat (s t : Bytes) (h : isNumeric s = true) (ht : EndsNumber t) :
    ∃ v q, parseNumber (s ++ t) = some (v, t) ∧ v.toRat = some q ∧ decimalRat s = some q := by
  obtain ⟨ip, fp, hne, hall, hfall, hnz, hcase⟩ := isNumeric_shape s h
  rcases hcase with ⟨e1, _⟩ | ⟨e1, hfne⟩
  · rw [e1]
    exact ⟨_, _, parseNumber_int ip t hne hall hnz ht, by simp [JVal.toRat, ratOf_zero],
      decimalRat_int ip hne hall⟩
  · rw [e1]
    have hp := parseNumber_frac ip fp t hne hall hfne hfall hnz ht
    refine ⟨_, _, by simpa using hp, ?_, decimalRat_frac ip fp hne hall hfne hfall⟩
    simp only [JVal.toRat, digVal_append]
    rw [ratOf_frac]

/-! ### the integer-pair reading used by `decodesTo` is the rational reading -/

theorem ratOf_shift (m e k : Int) (h : k ≤ e) : ratOf m e = ratOf (m * 10 ^ (e - k).toNat) k := by
  unfold ratOf
  have e1 : e = ((e - k).toNat : Int) + k := by omega
  conv => lhs; rw [e1]
  rw [Rat.zpow_add (by decide), Rat.zpow_natCast, Rat.intCast_mul, Rat.intCast_pow]
  have : ((10 : Int) : Rat) = 10 := rfl
  rw [this]
  grind

theorem sameValue_rat (m1 e1 m2 e2 : Int) (h : sameValue m1 e1 m2 e2 = true) : ratOf m1 e1 = ratOf m2 e2 := by
  unfold sameValue at h
  simp only [beq_iff_eq] at h
  rw [ratOf_shift m1 e1 (min e1 e2) (by omega), ratOf_shift m2 e2 (min e1 e2) (by omega), h]

theorem decimalValue_rat (s : Bytes) (m e : Int) (h : decimalValue s = some (m, e)) :
    decimalRat s = some (ratOf m e) := by
  unfold decimalValue at h
  unfold decimalRat
  simp only [] at h ⊢
  split at h
  · cases h
  · rename_i hne
    rw [if_neg hne]
    split at h
    · simp only [Option.some.injEq, Prod.mk.injEq] at h
      rw [← h.1, ← h.2, ratOf_zero]
    · rename_i c fp hr
      split at h
      · rename_i hc
        rw [if_pos hc]
        simp only [Option.some.injEq, Prod.mk.injEq] at h
        rw [← h.1, ← h.2, digVal_append, ratOf_frac]
      · cases h

/-- A member value that `decodesTo` a capture as a number denotes the rational the capture denotes. -/
theorem decodesTo_num_rat (m e : Int) (capture : Bytes) (h : decodesTo (.num m e) capture = true) :
    decimalRat capture = some (ratOf m e) := by
  unfold decodesTo at h
  simp only [] at h
  split at h
  · rename_i m' e' hd
    rw [decimalValue_rat capture m' e' hd, sameValue_rat m e m' e' h]
  · cases h

end Rare.C16
