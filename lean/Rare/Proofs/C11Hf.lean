import Rare.Proofs.C11Float
import Rare.Proofs.C17Atoi
import Rare.Spec.C11Hf
/-!
C11, `{hf}`: the sign of the rendering.  `humanizeFloat` keeps the sign of every finite value and of
`+Inf`; it drops the sign of `-Inf` (known finding).
-/
namespace Rare.C11
open Rare Rare.Expr Rare.Expr.Funcs

theorem natDigits_head' (n : Nat) : ∃ c r, natDigits n = c :: r ∧ isDigitB c = true := by
  have hne := C17.natDigits_ne_nil n
  have hall := C17.natDigits_all n
  cases h : natDigits n with
  | nil => exact absurd h hne
  | cons c r => rw [h] at hall; simp at hall; exact ⟨c, r, rfl, hall.1⟩

/-- The fixed rendering of a magnitude starts with a digit. -/
theorem placePoint_head (n fr : Nat) : ∃ c r, F64.placePoint (natDigits n) fr = c :: r ∧ isDigitB c = true := by
  obtain ⟨c, r, hcr, hc⟩ := natDigits_head' n
  unfold F64.placePoint
  split
  · exact ⟨c, r, hcr, hc⟩
  · split
    · rename_i h
      rw [hcr] at h ⊢
      simp only [List.length_cons] at h ⊢
      have : r.length + 1 - fr = (r.length - fr) + 1 := by omega
      rw [this, List.take_succ_cons]
      exact ⟨c, _, rfl, hc⟩
    · exact ⟨48, _, rfl, by decide⟩

theorem digit_ne_minus {c : UInt8} (h : isDigitB c = true) : c ≠ 45 ∧ c ≠ 46 := by
  constructor <;> (intro e; subst e; revert h; decide)

/-- `humanizeFloat` keeps the sign of every value that is not `-Inf` (and not NaN). -/
theorem humanizeFloat_sign (x : F64) (decimals : Int) (hd : 0 ≤ decimals) (hn : x.isNaN = false)
    (hi : ¬ (x.isInf = true ∧ x.sign = true)) :
    Spec.startsMinus (Float.humanizeFloat x decimals) = x.sign := by
  unfold Float.humanizeFloat
  simp only [hn, Bool.false_eq_true, if_false]
  by_cases hinf : x.isInf = true
  · simp only [hinf, if_true]
    have : x.sign = false := by
      cases hs : x.sign with
      | false => rfl
      | true => exact absurd ⟨hinf, hs⟩ hi
    rw [this]
    decide +kernel
  · simp only [hinf, Bool.false_eq_true, if_false]
    have hfmt : F64.format x decimals =
        if x.sign then 45 :: F64.fixedBody x.mag decimals.toNat else F64.fixedBody x.mag decimals.toNat := by
      unfold F64.format
      have : ¬ decimals < 0 := by omega
      simp [hn, hinf, this]
    obtain ⟨c, r, hcr, hc⟩ := placePoint_head (F64.roundNE (F64.magVal x.mag * F64.pow10 decimals.toNat)).toNat decimals.toNat
    have hbody : F64.fixedBody x.mag decimals.toNat = c :: r := hcr
    obtain ⟨hc45, hc46⟩ := digit_ne_minus hc
    split
    · -- no separators: the text of FormatFloat
      rw [hfmt, hbody]
      cases hs : x.sign with
      | true => simp [Spec.startsMinus]
      | false => simp [Spec.startsMinus, hc45]
    · rw [hfmt, hbody]
      cases hs : x.sign with
      | true => simp [Spec.startsMinus]
      | false =>
        simp only [Bool.false_eq_true, if_false, List.head?_cons, hc, if_true]
        have hneg : (some c == some (45 : UInt8)) = false := by simp [hc45]
        simp only [hneg, Bool.false_eq_true, if_false, List.nil_append]
        have htw : (c :: r).takeWhile (· != 46) = c :: r.takeWhile (· != 46) := by
          have : (c != 46) = true := by simp [hc46]
          simp only [List.takeWhile, this]
        rw [htw]
        unfold Float.commaLoop
        split <;> simp [Spec.startsMinus, hc45]

end Rare.C11
