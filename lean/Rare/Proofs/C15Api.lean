import Rare.Model.C15Api
import Rare.Proofs.C15Core
/-!
C15 – the sequential `Read`/`Drain`/`Close` model (`Rare.C15.Api`): the bytes returned since the last `Drain`
are the bytes of the file between the drain position and the offset, whatever the calls; a closed reader
stays closed and answers EOF.
-/
namespace Rare.C15.Api
open Rare.C15.Spec Rare.Follow

theorem take_min_length {α : Type} (l : List α) (n : Nat) : l.take (l.take n).length = l.take n := by
  rw [List.length_take]
  by_cases h : n ≤ l.length
  · rw [Nat.min_eq_left h]
  · have h' : l.length ≤ n := by omega
    rw [Nat.min_eq_right h', List.take_of_length_le (Nat.le_refl _), List.take_of_length_le h']

theorem extract_append_stable (c b : Bytes) (a p : Nat) (hp : p ≤ c.length) :
    extract (c ++ b) a p = extract c a p := by
  unfold extract
  by_cases ha : a ≤ c.length
  · rw [List.drop_append_of_le_length ha, List.take_append_of_le_length (by simp; omega)]
  · have : p - a = 0 := by omega
    simp [this]

/-- the ghost bookkeeping is right: offsets are ordered and `delivered` is the slice between them -/
def Inv (s : St) : Prop :=
  s.start ≤ s.pos ∧ s.pos ≤ s.content.length ∧ s.delivered = extract s.content s.start s.pos

theorem inv_init (c : Bytes) : Inv (init c) := by
  refine ⟨Nat.le_refl _, Nat.zero_le _, ?_⟩
  simp [init, extract]

theorem inv_step {s : St} (h : Inv s) (c : Call) : Inv (step s c).1 := by
  obtain ⟨h1, h2, h3⟩ := h
  cases c with
  | read n =>
    simp only [step]
    split
    · exact ⟨h1, h2, h3⟩
    · split
      · exact ⟨h1, h2, h3⟩
      · split
        · exact ⟨h1, h2, h3⟩
        · refine ⟨by simp only; omega, ?_, ?_⟩
          · simp only [List.length_take, List.length_drop]; omega
          · simp only
            rw [extract_read s.content s.start s.pos _ h1, h3, take_min_length]
  | drain =>
    simp only [step]
    split
    · exact ⟨Nat.le_refl _, Nat.le_refl _, by simp [extract]⟩
    · exact ⟨h1, h2, h3⟩
  | close => exact ⟨h1, h2, h3⟩
  | append b =>
    refine ⟨h1, by simp only [step, List.length_append]; omega, ?_⟩
    simp only [step]
    rw [extract_append_stable _ _ _ _ h2]; exact h3

theorem inv_run : ∀ (cs : List Call) (s : St), Inv s → Inv (run s cs).1 := by
  intro cs
  induction cs with
  | nil => intro s h; exact h
  | cons c cs ih =>
    intro s h
    have hs := inv_step h c
    simp only [run]
    cases hst : step s c with
    | mk s' r =>
      rw [hst] at hs
      cases r <;> first | exact ih s' hs | exact hs

theorem read_cases (s : St) (n : Nat) :
    step s (.read n) = (s, .eof) ∨ step s (.read n) = (s, .block) ∨
    step s (.read n) = ({ s with pos := s.pos + ((s.content.drop s.pos).take n).length,
                                 readBytes := s.readBytes + ((s.content.drop s.pos).take n).length,
                                 delivered := s.delivered ++ (s.content.drop s.pos).take n },
                        .bytes ((s.content.drop s.pos).take n)) := by
  simp only [step]
  split
  · exact Or.inl rfl
  · split
    · exact Or.inr (Or.inl rfl)
    · split
      · exact Or.inr (Or.inl rfl)
      · exact Or.inr (Or.inr rfl)

/-- the bytes of all successful `Read`s, in order -/
def bytesOf : List Res → Bytes
  | [] => []
  | .bytes b :: rs => b ++ bytesOf rs
  | _ :: rs => bytesOf rs

def noDrain : Call → Bool
  | .drain => false
  | _ => true

theorem delivered_run : ∀ (cs : List Call) (s : St), cs.all noDrain = true →
    (run s cs).1.delivered = s.delivered ++ bytesOf (run s cs).2 := by
  intro cs
  induction cs with
  | nil => intro s _; simp [run, bytesOf]
  | cons c cs ih =>
    intro s hnd
    simp only [List.all_cons, Bool.and_eq_true] at hnd
    have ih' := fun s' => ih s' hnd.2
    cases c with
    | drain => simp [noDrain] at hnd
    | close =>
      simp only [run, step]
      rw [ih']; simp [bytesOf]
    | append b =>
      simp only [run, step]
      rw [ih']; simp [bytesOf]
    | read n =>
      rcases read_cases s n with h | h | h
      · simp only [run, h]; rw [ih']; simp [bytesOf]
      · simp only [run, h]; simp [bytesOf]
      · simp only [run, h]; rw [ih']; simp [bytesOf]

theorem closed_step {s : St} (h : s.closed = true) (c : Call) : (step s c).1.closed = true := by
  cases c with
  | read n => simp [step, h]
  | drain => simp only [step]; split <;> exact h
  | close => rfl
  | append b => exact h

theorem closed_run : ∀ (cs : List Call) (s : St), s.closed = true → (run s cs).1.closed = true ∧
    ∀ r ∈ (run s cs).2, r = .eof ∨ r = .ok := by
  intro cs
  induction cs with
  | nil => intro s h; exact ⟨h, by simp [run]⟩
  | cons c cs ih =>
    intro s h
    have hc := closed_step h c
    cases c with
    | read n =>
      have hst : step s (.read n) = (s, .eof) := by simp [step, h]
      simp only [run, hst]
      obtain ⟨a, b⟩ := ih s h
      exact ⟨a, by intro r hr; simp only [List.mem_cons] at hr; rcases hr with rfl | hr; exact Or.inl rfl; exact b r hr⟩
    | drain =>
      have hst : (step s .drain).2 = .ok := by simp only [step]; split <;> rfl
      simp only [run]
      cases hs : step s .drain with
      | mk s' r =>
        rw [hs] at hst hc; simp only at hst hc; subst hst
        obtain ⟨a, b⟩ := ih s' hc
        exact ⟨a, by intro r hr; simp only [List.mem_cons] at hr; rcases hr with rfl | hr; exact Or.inr rfl; exact b r hr⟩
    | close =>
      simp only [run, step]
      obtain ⟨a, b⟩ := ih { s with isOpen := false, closed := true } rfl
      exact ⟨a, by intro r hr; simp only [List.mem_cons] at hr; rcases hr with rfl | hr; exact Or.inr rfl; exact b r hr⟩
    | append b' =>
      simp only [run, step]
      obtain ⟨a, b⟩ := ih { s with content := s.content ++ b' } h
      exact ⟨a, by intro r hr; simp only [List.mem_cons] at hr; rcases hr with rfl | hr; exact Or.inr rfl; exact b r hr⟩

end Rare.C15.Api
