import Rare.Proofs.C12Compile
/-! Putting compile + match + pool together: the observable `matchAll` equals the specification. -/
namespace Rare.C12

/-- the specification for either mode -/
def specFor (ic : Bool) (p : Pat) (line : Bytes) : Option (List Nat) :=
  if ic then specDissectIC p line else specDissect p line

/-- the compiled form of a well-formed pattern text -/
def compiled (ic : Bool) (p : Pat) : Dissect :=
  { tokens := p.toks.map (tokOf ic), pre := if ic then lower p.pre else p.pre, ic := ic,
    groupNames := nameTable p.toks, groupCount := capCount p.toks }

theorem compileEx_pat (ic : Bool) (p : Pat) (hp : p.Shape) :
    compileEx p.render ic =
      match specErrors false p.toks [] with
      | some e => .error (cerr e)
      | none => .ok (compiled ic p) := by
  have := compileEx_render ic p hp none (by intro j h; cases h)
  simp only [tailText, List.append_nil, Option.isSome_none] at this
  exact this

theorem compileEx_ok {ic : Bool} {p : Pat} (hp : p.Shape) {d : Dissect} (h : compileEx p.render ic = .ok d) :
    specErrors false p.toks [] = none ∧ d = compiled ic p := by
  rw [compileEx_pat ic p hp] at h
  cases he : specErrors false p.toks [] with
  | some e => rw [he] at h; cases h
  | none => rw [he] at h; cases h; exact ⟨rfl, rfl⟩

theorem tokRels_compiled (ic : Bool) (toks : List Tok) :
    TokRels (toks.map (tokOf ic)) (if ic then toks.map Tok.lowerLit else toks) := by
  induction toks with
  | nil => cases ic <;> exact TokRels.nil
  | cons t ts ih =>
    cases ic with
    | false => exact TokRels.cons ⟨rfl, rfl⟩ (by simpa using ih)
    | true => exact TokRels.cons ⟨rfl, rfl⟩ (by simpa using ih)

theorem capCount_lowerLit (toks : List Tok) : capCount (toks.map Tok.lowerLit) = capCount toks := by
  induction toks with
  | nil => rfl
  | cons t ts ih =>
    simp only [capCount, List.map_cons, List.filter, Tok.lowerLit_skip] at ih ⊢
    split <;> simp [ih]

theorem specFor_eq (ic : Bool) (p : Pat) (l : Bytes) :
    specFor ic p l =
      specDissect ⟨(compiled ic p).pre, if ic then p.toks.map Tok.lowerLit else p.toks⟩ (viewL ic l) := by
  cases ic <;> simp [specFor, specDissectIC, Pat.lowerLits, compiled, viewL]

/-- All results of one instance, re-read after the last call, are the specification's answers. -/
theorem matchAll_compiled (ic : Bool) (p : Pat) (lines : List Bytes) :
    matchAll (compiled ic p) lines = .ok (lines.map fun l => (specFor ic p l).map (·.map Int.ofNat)) := by
  have hcount : (compiled ic p).groupCount = capCount (if ic then p.toks.map Tok.lowerLit else p.toks) := by
    cases ic <;> simp [compiled, capCount_lowerLit]
  obtain ⟨vs, s', hr, _, _, hres, _⟩ :=
    runLines_spec (if ic then p.toks.map Tok.lowerLit else p.toks) lines (compiled ic p).createInstance
      (tokRels_compiled ic p.toks) hcount (Pool.new_wf _)
      (by simp only [Dissect.createInstance, Pool.new]; omega)
  simp only [matchAll, hr]
  congr 1
  rw [hres]
  apply List.map_congr_left
  intro l _
  rw [specFor_eq]
  rfl

theorem matchAll_eq {ic : Bool} {p : Pat} (hp : p.Shape) {d : Dissect}
    (hc : compileEx p.render ic = .ok d) (lines : List Bytes) :
    matchAll d lines = .ok (lines.map fun l => (specFor ic p l).map (·.map Int.ofNat)) := by
  rw [(compileEx_ok hp hc).2]; exact matchAll_compiled ic p lines

/-! ### lower-casing keeps the grammar -/

theorem lowerByte_eq_iff (c x : UInt8) (hx : ¬ (97 ≤ x ∧ x ≤ 122)) (hx2 : ¬ (65 ≤ x ∧ x ≤ 90)) :
    lowerByte c = x ↔ c = x := by
  unfold lowerByte
  split
  · rename_i h
    constructor
    · intro e
      exfalso
      apply hx
      subst e
      simp only [UInt8.le_iff_toNat_le, UInt8.toNat_add] at h ⊢
      have h1 : (65 : UInt8).toNat = 65 := rfl
      have h2 : (90 : UInt8).toNat = 90 := rfl
      have h3 : (97 : UInt8).toNat = 97 := rfl
      have h4 : (122 : UInt8).toNat = 122 := rfl
      have h5 : (32 : UInt8).toNat = 32 := rfl
      omega
    · intro e; subst e; exact absurd h hx2
  · rfl

theorem beq_lowerByte (x c : UInt8) (hx : ¬ (97 ≤ x ∧ x ≤ 122)) (hx2 : ¬ (65 ≤ x ∧ x ≤ 90)) :
    (x == lowerByte c) = (x == c) := by
  have := lowerByte_eq_iff c x hx hx2
  by_cases hc : c = x
  · have hl : lowerByte c = x := this.mpr hc
    rw [hl, hc]
  · have hn : ¬ x = lowerByte c := fun e => hc (this.mp e.symm)
    have hc' : ¬ x = c := fun e => hc e.symm
    rw [beq_eq_false_iff_ne.mpr hn, beq_eq_false_iff_ne.mpr hc']

theorem noTok_lower {l : Bytes} (h : NoTok l) : NoTok (lower l) := by
  induction l with
  | nil => simpa [lower] using h
  | cons c l ih =>
    obtain ⟨h1, h2⟩ := noTok_cons.mp h
    have ih' := ih h2
    simp only [lower, List.map_cons] at ih' ⊢
    refine noTok_cons.mpr ⟨?_, ih'⟩
    have e1 := beq_lowerByte pct c (by decide) (by decide)
    cases l with
    | nil => simp [List.isPrefixOf]
    | cons d l' =>
      have e2 := beq_lowerByte lbrace d (by decide) (by decide)
      simp only [List.isPrefixOf, List.map_cons, e1, e2] at h1 ⊢
      exact h1

theorem shape_lowerLits {p : Pat} (hp : p.Shape) : p.lowerLits.Shape := by
  refine ⟨noTok_lower hp.1, ?_⟩
  intro t ht
  simp only [Pat.lowerLits, List.mem_map] at ht
  obtain ⟨t0, ht0, rfl⟩ := ht
  exact ⟨(hp.2 t0 ht0).1, noTok_lower (hp.2 t0 ht0).2⟩

theorem specErrors_lowerLit (u : Bool) (toks : List Tok) (seen : List Bytes) :
    specErrors u (toks.map Tok.lowerLit) seen = specErrors u toks seen := by
  induction toks generalizing seen with
  | nil => rfl
  | cons t ts ih =>
    simp only [List.map_cons, specErrors, Tok.lowerLit_lit, lower_eq_nil, Tok.lowerLit_skip, ih]
    have : t.lowerLit.name = t.name := rfl
    simp [this]

end Rare.C12
