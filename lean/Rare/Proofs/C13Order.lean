import Rare.Spec.C13
/-! Order-theoretic helper lemmas for C13 (core Lean only). -/
namespace Rare.C13

/-! ### bytesLt -/

theorem bytesLt_nil_right (a : Bytes) : bytesLt a [] = false := by
  cases a <;> rfl

theorem bytesLt_irrefl : ∀ a : Bytes, bytesLt a a = false
  | [] => rfl
  | x :: xs => by
    simp [bytesLt, bytesLt_irrefl xs]

theorem bytesLt_cons (x y : UInt8) (xs ys : Bytes) :
    bytesLt (x :: xs) (y :: ys) = true ↔ x < y ∨ (x = y ∧ bytesLt xs ys = true) := by
  simp [bytesLt]

theorem bytesLt_trans : ∀ a b c : Bytes, bytesLt a b = true → bytesLt b c = true → bytesLt a c = true
  | _, [], _ => by intro h; simp [bytesLt_nil_right] at h
  | _, _ :: _, [] => by intro _ h; simp [bytesLt] at h
  | [], _ :: _, _ :: _ => by intros; rfl
  | x :: xs, y :: ys, z :: zs => by
    rw [bytesLt_cons, bytesLt_cons, bytesLt_cons]
    intro h1 h2
    rcases h1 with h1 | ⟨e1, h1⟩ <;> rcases h2 with h2 | ⟨e2, h2⟩
    · exact Or.inl (UInt8.lt_trans h1 h2)
    · subst e2; exact Or.inl h1
    · subst e1; exact Or.inl h2
    · subst e1; subst e2; exact Or.inr ⟨rfl, bytesLt_trans xs ys zs h1 h2⟩

theorem bytesLt_total : ∀ a b : Bytes, a ≠ b → bytesLt a b = true ∨ bytesLt b a = true
  | [], [] => by intro h; exact absurd rfl h
  | [], _ :: _ => by intro _; exact Or.inl rfl
  | _ :: _, [] => by intro _; exact Or.inr rfl
  | x :: xs, y :: ys => by
    intro h
    rw [bytesLt_cons, bytesLt_cons]
    by_cases hxy : x = y
    · subst hxy
      have hne : xs ≠ ys := fun e => h (by rw [e])
      rcases bytesLt_total xs ys hne with h | h
      · exact Or.inl (Or.inr ⟨rfl, h⟩)
      · exact Or.inr (Or.inr ⟨rfl, h⟩)
    · rcases Nat.lt_or_gt_of_ne (fun e => hxy (UInt8.toNat_inj.mp e)) with h | h
      · exact Or.inl (Or.inl (UInt8.lt_iff_toNat_lt.mpr h))
      · exact Or.inr (Or.inl (UInt8.lt_iff_toNat_lt.mpr h))

/-! ### strict total orders -/

abbrev StrictTotal {α : Type} (lt : α → α → Bool) : Prop := StrictTotalOn (fun _ => True) lt

theorem StrictTotalOn.asymm {α : Type} {P : α → Prop} {less : α → α → Bool} (h : StrictTotalOn P less)
    (a b : α) (ha : P a) (hb : P b) (hab : less a b = true) : less b a = false := by
  cases hba : less b a with
  | false => rfl
  | true =>
    have := h.trans a b a ha hb ha hab hba
    rw [h.irrefl a ha] at this
    exact absurd this (by decide)

theorem StrictTotalOn.mono {α : Type} {P Q : α → Prop} {less : α → α → Bool} (h : StrictTotalOn P less)
    (hq : ∀ a, Q a → P a) : StrictTotalOn Q less :=
  ⟨fun a ha => h.irrefl a (hq a ha),
   fun a b c ha hb hc => h.trans a b c (hq a ha) (hq b hb) (hq c hc),
   fun a b ha hb => h.total a b (hq a ha) (hq b hb)⟩

theorem StrictTotalOn.toOrderOn {α : Type} {P : α → Prop} {less : α → α → Bool} (h : StrictTotalOn P less) :
    OrderOn P less :=
  ⟨fun a b ha hb _ hab => h.asymm a b ha hb hab,
   fun a b ha hb hne => h.total a b ha hb hne,
   fun a b c ha hb hc _ _ _ => h.trans a b c ha hb hc⟩

theorem bytesLt_strictTotal : StrictTotal bytesLt :=
  ⟨fun a _ => bytesLt_irrefl a, fun a b c _ _ _ => bytesLt_trans a b c, fun a b _ _ => bytesLt_total a b⟩

theorem intLt_strictTotal : StrictTotal intLt :=
  ⟨fun a _ => by simp [intLt], fun a b c _ _ _ => by simp [intLt]; omega,
   fun a b _ _ h => by simp [intLt]; omega⟩

theorem natLt_strictTotal : StrictTotal natLt :=
  ⟨fun a _ => by simp [natLt], fun a b c _ _ _ => by simp [natLt]; omega,
   fun a b _ _ h => by simp [natLt]; omega⟩

theorem optLt_strictTotal : StrictTotal optLt := by
  refine ⟨?_, ?_, ?_⟩
  · intro a _; cases a <;> simp [optLt]
  · intro a b c _ _ _
    cases a <;> cases b <;> cases c <;> simp [optLt]; omega
  · intro a b _ _ h
    cases a <;> cases b <;> simp [optLt] at h ⊢; omega

theorem lexLt_strictTotal {α β : Type} [DecidableEq α] {lt1 : α → α → Bool} {lt2 : β → β → Bool}
    (h1 : StrictTotal lt1) (h2 : StrictTotal lt2) : StrictTotal (lexLt lt1 lt2) := by
  refine ⟨?_, ?_, ?_⟩
  · intro a _
    simp [lexLt, h1.irrefl a.1 trivial, h2.irrefl a.2 trivial]
  · intro a b c _ _ _ hab hbc
    simp only [lexLt, Bool.or_eq_true, Bool.and_eq_true, decide_eq_true_eq] at hab hbc ⊢
    rcases hab with hab | ⟨e1, hab⟩ <;> rcases hbc with hbc | ⟨e2, hbc⟩
    · exact Or.inl (h1.trans _ _ _ trivial trivial trivial hab hbc)
    · rw [← e2]; exact Or.inl hab
    · rw [e1]; exact Or.inl hbc
    · exact Or.inr ⟨e1.trans e2, h2.trans _ _ _ trivial trivial trivial hab hbc⟩
  · intro a b _ _ hne
    simp only [lexLt, Bool.or_eq_true, Bool.and_eq_true, decide_eq_true_eq]
    by_cases e : a.1 = b.1
    · have hne2 : a.2 ≠ b.2 := fun e2 => hne (Prod.ext e e2)
      rcases h2.total a.2 b.2 trivial trivial hne2 with h | h
      · exact Or.inl (Or.inr ⟨e, h⟩)
      · exact Or.inr (Or.inr ⟨e.symm, h⟩)
    · rcases h1.total a.1 b.1 trivial trivial e with h | h
      · exact Or.inl (Or.inl h)
      · exact Or.inr (Or.inl h)

/-- Pulling a strict total order back along a rank that is injective on `P`. -/
theorem byRank_strictTotalOn {κ ρ : Type} {P : κ → Prop} {rank : κ → ρ} {lt : ρ → ρ → Bool}
    (h : StrictTotal lt) (inj : ∀ a b, P a → P b → rank a = rank b → a = b) :
    StrictTotalOn P (byRank rank lt) :=
  ⟨fun _ _ => h.irrefl _ trivial,
   fun _ _ _ _ _ _ => h.trans _ _ _ trivial trivial trivial,
   fun a b ha hb hne => h.total _ _ trivial trivial (fun e => hne (inj a b ha hb e))⟩

/-- A rank whose last component is the key itself is injective. -/
theorem byRank_key_strictTotal {ρ : Type} [DecidableEq ρ] (f : Key → ρ) {lt : ρ → ρ → Bool} (h : StrictTotal lt) :
    StrictTotal (byRank (fun k => (f k, k)) (lexLt lt bytesLt)) :=
  byRank_strictTotalOn (lexLt_strictTotal h bytesLt_strictTotal)
    (fun a b _ _ e => by simpa using congrArg Prod.snd e)

/-! ### OrderOn: reversal and pull-back -/

theorem OrderOn.mono {α : Type} {P Q : α → Prop} {less : α → α → Bool} (h : OrderOn P less)
    (hq : ∀ a, Q a → P a) : OrderOn Q less :=
  ⟨fun a b ha hb => h.asymm a b (hq a ha) (hq b hb),
   fun a b ha hb => h.total a b (hq a ha) (hq b hb),
   fun a b c ha hb hc => h.trans a b c (hq a ha) (hq b hb) (hq c hc)⟩

/-- On distinct elements of `P`, `!less a b` is `less b a`. -/
theorem OrderOn.rev_eq {α : Type} {P : α → Prop} {less : α → α → Bool} (h : OrderOn P less)
    (a b : α) (ha : P a) (hb : P b) (hne : a ≠ b) : revLess less a b = less b a := by
  unfold revLess
  cases hab : less a b with
  | true => simp [h.asymm a b ha hb hne hab]
  | false =>
    rcases h.total a b ha hb hne with h' | h'
    · rw [hab] at h'; exact absurd h' (by decide)
    · simp [h']

theorem OrderOn.rev {α : Type} {P : α → Prop} {less : α → α → Bool} (h : OrderOn P less) :
    OrderOn P (revLess less) := by
  refine ⟨?_, ?_, ?_⟩
  · intro a b ha hb hne hab
    rw [h.rev_eq a b ha hb hne] at hab
    rw [h.rev_eq b a hb ha (Ne.symm hne)]
    exact h.asymm b a hb ha (Ne.symm hne) hab
  · intro a b ha hb hne
    rw [h.rev_eq a b ha hb hne, h.rev_eq b a hb ha (Ne.symm hne)]
    exact (h.total a b ha hb hne).symm
  · intro a b c ha hb hc hab hbc hac h1 h2
    rw [h.rev_eq a b ha hb hab] at h1
    rw [h.rev_eq b c hb hc hbc] at h2
    rw [h.rev_eq a c ha hc hac]
    exact h.trans c b a hc hb ha (Ne.symm hbc) (Ne.symm hab) (Ne.symm hac) h2 h1

theorem OrderOn.comap {α β : Type} {P : β → Prop} {Q : α → Prop} {less : β → β → Bool} (f : α → β)
    (h : OrderOn P less) (hP : ∀ a, Q a → P (f a)) (inj : ∀ a b, Q a → Q b → f a = f b → a = b) :
    OrderOn Q (fun a b => less (f a) (f b)) :=
  ⟨fun a b ha hb hne => h.asymm _ _ (hP a ha) (hP b hb) (fun e => hne (inj a b ha hb e)),
   fun a b ha hb hne => h.total _ _ (hP a ha) (hP b hb) (fun e => hne (inj a b ha hb e)),
   fun a b c ha hb hc hab hbc hac => h.trans _ _ _ (hP a ha) (hP b hb) (hP c hc)
     (fun e => hab (inj a b ha hb e)) (fun e => hbc (inj b c hb hc e)) (fun e => hac (inj a c ha hc e))⟩

theorem OrderOn.congr {α : Type} {P : α → Prop} {l1 l2 : α → α → Bool} (h : OrderOn P l1)
    (e : ∀ a b, P a → P b → l1 a b = l2 a b) : OrderOn P l2 :=
  ⟨fun a b ha hb hne hab => by rw [← e b a hb ha]; rw [← e a b ha hb] at hab; exact h.asymm a b ha hb hne hab,
   fun a b ha hb hne => by rw [← e a b ha hb, ← e b a hb ha]; exact h.total a b ha hb hne,
   fun a b c ha hb hc hab hbc hac h1 h2 => by
     rw [← e a b ha hb] at h1; rw [← e b c hb hc] at h2; rw [← e a c ha hc]
     exact h.trans a b c ha hb hc hab hbc hac h1 h2⟩

/-! ### sorted sequences are unique -/

theorem nodup_of_perm_nodup {α : Type} {out keys : List α} (hp : out.Perm keys) (hn : keys.Nodup) : out.Nodup :=
  hp.nodup_iff.mpr hn

theorem sorted_unique' {α : Type} {less : α → α → Bool} {keys o1 o2 : List α}
    (ho : OrderOn (· ∈ keys) less) (h1 : IsSorted less o1 keys) (h2 : IsSorted less o2 keys) :
    o1 = o2 := by
  refine List.Perm.eq_of_pairwise ?_ h1.2 h2.2 (h1.1.trans h2.1.symm)
  intro a b ha hb hab hba
  have ha' : a ∈ keys := h1.1.mem_iff.mp ha
  have hb' : b ∈ keys := h2.1.mem_iff.mp hb
  cases Classical.em (a = b) with
  | inl e => exact e
  | inr hne =>
    have := ho.asymm a b ha' hb' hne hab
    rw [hba] at this
    exact absurd this (by decide)

/-! ### the reference insertion sort meets the contract -/

theorem ins_perm {α : Type} (less : α → α → Bool) (x : α) : ∀ l : List α, (ins less x l).Perm (x :: l)
  | [] => List.Perm.refl _
  | y :: ys => by
    unfold ins
    split
    · exact List.Perm.refl _
    · exact ((ins_perm less x ys).cons y).trans (List.Perm.swap x y ys)

theorem isort_perm {α : Type} (less : α → α → Bool) : ∀ l : List α, (isort less l).Perm l
  | [] => List.Perm.refl _
  | x :: xs => (ins_perm less x _).trans ((isort_perm less xs).cons x)

theorem ins_pairwise {α : Type} {P : α → Prop} {less : α → α → Bool} (ho : OrderOn P less) (x : α) (hx : P x) :
    ∀ l : List α, (∀ y ∈ l, P y) → x ∉ l → l.Nodup → l.Pairwise (fun a b => less a b = true) →
      (ins less x l).Pairwise (fun a b => less a b = true)
  | [], _, _, _, _ => by simp [ins]
  | y :: ys, hP, hx', hnd, hpw => by
    have hy : P y := hP y (List.mem_cons_self ..)
    have hxy : x ≠ y := fun e => hx' (by rw [e]; exact List.mem_cons_self ..)
    have hxys : x ∉ ys := fun h => hx' (List.mem_cons_of_mem _ h)
    rw [List.nodup_cons] at hnd
    rw [List.pairwise_cons] at hpw
    unfold ins
    split
    · rename_i hlt
      refine List.pairwise_cons.mpr ⟨?_, List.pairwise_cons.mpr hpw⟩
      intro z hz
      rcases List.mem_cons.mp hz with e | hz
      · rw [e]; exact hlt
      · have hzy : y ≠ z := fun e => hnd.1 (by rw [e]; exact hz)
        have hxz : x ≠ z := fun e => hxys (by rw [e]; exact hz)
        exact ho.trans x y z hx hy (hP z (List.mem_cons_of_mem _ hz)) hxy hzy hxz hlt (hpw.1 z hz)
    · rename_i hnlt
      have hyx : less y x = true := by
        rcases ho.total x y hx hy hxy with h | h
        · exact absurd h hnlt
        · exact h
      refine List.pairwise_cons.mpr ⟨?_, ins_pairwise ho x hx ys (fun z hz => hP z (List.mem_cons_of_mem _ hz)) hxys hnd.2 hpw.2⟩
      intro z hz
      rcases List.mem_cons.mp ((ins_perm less x ys).mem_iff.mp hz) with e | hz
      · rw [e]; exact hyx
      · exact hpw.1 z hz

theorem isort_pairwise {α : Type} {P : α → Prop} {less : α → α → Bool} (ho : OrderOn P less) :
    ∀ l : List α, (∀ y ∈ l, P y) → l.Nodup → (isort less l).Pairwise (fun a b => less a b = true)
  | [], _, _ => by simp [isort]
  | x :: xs, hP, hnd => by
    rw [List.nodup_cons] at hnd
    have hp := isort_perm less xs
    exact ins_pairwise ho x (hP x (List.mem_cons_self ..)) _
      (fun y hy => hP y (List.mem_cons_of_mem _ (hp.mem_iff.mp hy)))
      (fun h => hnd.1 (hp.mem_iff.mp h)) (hp.nodup_iff.mpr hnd.2)
      (isort_pairwise ho xs (fun y hy => hP y (List.mem_cons_of_mem _ hy)) hnd.2)

theorem isort_sorted {α : Type} {less : α → α → Bool} {l : List α} (hnd : l.Nodup)
    (ho : OrderOn (· ∈ l) less) : IsSorted less (isort less l) l :=
  ⟨isort_perm less l, isort_pairwise ho l (fun _ h => h) hnd⟩

/-! ### comparison-based algorithms -/

theorem Algo.run_eq_runPure {α ρ σ : Type} (cmp : σ → α → α → Bool × σ) (less : α → α → Bool)
    (Inv : σ → Prop) (P : α → Prop)
    (hstep : ∀ s a b, Inv s → P a → P b → (cmp s a b).1 = less a b ∧ Inv (cmp s a b).2) :
    ∀ (alg : Algo α ρ), Algo.Within P alg → ∀ s, Inv s → (Algo.run cmp s alg).1 = Algo.runPure less alg := by
  intro alg hw
  induction hw with
  | done r => intro s _; rfl
  | ask a b k ha hb _ ih =>
    intro s hs
    have := hstep s a b hs ha hb
    simp only [Algo.run, Algo.runPure]
    rw [this.1]
    exact ih (less a b) _ this.2

/-- The contract pins the result: it is the reference sorted sequence. -/
theorem SortContract.result {α : Type} {alg : List α → Algo α (List α)} (hc : SortContract alg)
    {less : α → α → Bool} {l : List α} (hnd : l.Nodup) (ho : OrderOn (· ∈ l) less) :
    (alg l).runPure less = isort less l :=
  sorted_unique' ho (hc.sorted less l hnd ho) (isort_sorted hnd ho)

theorem isort_perm_invariant {α : Type} {less : α → α → Bool} {l l' : List α} (hnd : l.Nodup)
    (ho : OrderOn (· ∈ l) less) (hp : l.Perm l') : isort less l = isort less l' := by
  have hnd' : l'.Nodup := hp.nodup_iff.mp hnd
  have ho' : OrderOn (· ∈ l') less := ho.mono (fun a h => hp.mem_iff.mpr h)
  have s1 := isort_sorted hnd ho
  have s2 := isort_sorted hnd' ho'
  exact sorted_unique' ho s1 ⟨s2.1.trans hp.symm, s2.2⟩

end Rare.C13
