import Rare.Proofs.C09Errors
import Rare.Proofs.C09Digits
/-! C09: a printed expression tree as a layout of pieces; what the splitter returns for a printed statement.
    (The compile half – optimiser on or off – is `Rare/Proofs/C09C10.lean`.) -/
namespace Rare.C09
open Rare Rare.Expr

/-! ### the printed text as a layout of pieces -/

/-- What the splitter hands to the nested `Compile` for an argument. -/
def argString (σ : Style) : C09.Expr → List Char
  | .lit s => s
  | .group n => printArg σ (.group n)
  | .key k => printArg σ (.key k)
  | .call f args => printArg σ (.call f args)

def argStrings (σ : Style) : Nat → List C09.Expr → List (List Char)
  | _, [] => []
  | i, a :: rest => argString (σ.child i) a :: argStrings σ (i + 1) rest

def stmtBody (σ : Style) : C09.Expr → List Char
  | .lit _ => []
  | .group n => ws (σ []).lead ++ decimal n ++ ws (σ []).trail
  | .key k => ws (σ []).lead ++ k ++ ws (σ []).trail
  | .call f args => ws (σ []).lead ++ f ++ printArgs σ 0 args ++ ws (σ []).trail

def argPiece (σ : Style) : C09.Expr → Piece
  | .lit s => if (σ []).quote || !bare s then .quoted s else .bare s
  | e => .braced (stmtBody σ e)

def argLayout (σ : Style) : Nat → List C09.Expr → List (List Char × Piece)
  | _, [] => []
  | i, a :: rest => (sepWs ((σ []).sep i), argPiece (σ.child i) a) :: argLayout σ (i + 1) rest

theorem argPiece_text (σ : Style) (e : C09.Expr) : (argPiece σ e).text = printArg σ e := by
  cases e with
  | lit s => simp only [argPiece, printArg]; split <;> rfl
  | group n => simp [argPiece, stmtBody, printArg, Piece.text]
  | key k => simp [argPiece, stmtBody, printArg, Piece.text]
  | call f args => simp [argPiece, stmtBody, printArg, Piece.text]

theorem argPiece_value (σ : Style) (e : C09.Expr) : (argPiece σ e).value = argString σ e := by
  cases e with
  | lit s => simp only [argPiece, argString]; split <;> rfl
  | group n => simp [argPiece, stmtBody, printArg, Piece.value, argString]
  | key k => simp [argPiece, stmtBody, printArg, Piece.value, argString]
  | call f args => simp [argPiece, stmtBody, printArg, Piece.value, argString]

theorem printArgs_layout (σ : Style) : ∀ (l : List C09.Expr) (i : Nat), printArgs σ i l = layout (argLayout σ i l)
  | [], i => by simp [printArgs, argLayout, layout]
  | a :: rest, i => by
    simp only [printArgs, argLayout, layout, argPiece_text]
    rw [printArgs_layout σ rest (i + 1)]

theorem argLayout_values (σ : Style) : ∀ (l : List C09.Expr) (i : Nat),
    (argLayout σ i l).map (·.2.value) = argStrings σ i l
  | [], i => by simp [argLayout, argStrings]
  | a :: rest, i => by
    simp only [argLayout, argStrings, List.map_cons, argPiece_value]
    rw [argLayout_values σ rest (i + 1)]

theorem isSpace_wsChar (n : Nat) : isSpace (wsChar n) = true := by
  have h : ∀ k, k < 25 → isSpace (spaceRunes.getD k ' ') = true := by decide
  exact h (n % 25) (Nat.mod_lt _ (by decide))

theorem allSpace_ws (l : WsRun) : allSpace (ws l) = true := by
  simp only [allSpace, ws, List.all_map, List.all_eq_true]
  intro b _
  exact isSpace_wsChar b

/-- Every `White_Space` rune is one of the 25 a style can name. -/
theorem wsChar_complete (c : Char) (h : isSpace c = true) : ∃ n, wsChar n = c := by
  have hc : c = Char.ofNat c.toNat := by simp
  have hn : c.toNat ∈ [0x20, 9, 10, 11, 12, 13, 0x85, 0xA0, 0x1680, 0x2000, 0x2001, 0x2002, 0x2003, 0x2004, 0x2005,
      0x2006, 0x2007, 0x2008, 0x2009, 0x200a, 0x2028, 0x2029, 0x202f, 0x205f, 0x3000] := by
    simp only [isSpace, Bool.or_eq_true, Bool.and_eq_true, decide_eq_true_eq, beq_iff_eq] at h
    simp only [List.mem_cons, List.not_mem_nil, or_false]
    omega
  have key : ∀ k ∈ [0x20, 9, 10, 11, 12, 13, 0x85, 0xA0, 0x1680, 0x2000, 0x2001, 0x2002, 0x2003, 0x2004, 0x2005,
      0x2006, 0x2007, 0x2008, 0x2009, 0x200a, 0x2028, 0x2029, 0x202f, 0x205f, 0x3000],
      ∃ n, n < 25 ∧ wsChar n = Char.ofNat k := by decide
  obtain ⟨n, _, hn'⟩ := key _ hn
  exact ⟨n, by rw [hn', ← hc]⟩

theorem bare_decimal (n : Nat) : bare (decimal n) = true := by
  have hd : ∀ d, d < 10 → (!special (digitChar d) && !isSpace (digitChar d)) = true := by decide
  induction n using Nat.strongRecOn with
  | _ n ih =>
    rw [decimal]
    by_cases h : n < 10
    · simp only [h, dif_pos, bare, List.isEmpty_cons, Bool.not_false, List.all_cons, List.all_nil, Bool.and_true,
        Bool.true_and]
      exact hd n h
    · simp only [h, dif_neg, not_false_eq_true]
      have := ih (n / 10) (by omega)
      simp only [bare, Bool.and_eq_true] at this ⊢
      refine ⟨by simp, ?_⟩
      rw [List.all_append, this.2]
      simp only [List.all_cons, List.all_nil, Bool.and_true, Bool.true_and]
      exact hd (n % 10) (by omega)

mutual
theorem argPiece_ok : ∀ (e : C09.Expr) (σ : Style), Admissible e → (argPiece σ e).ok
  | .lit s, σ, h => by
    simp only [Admissible] at h
    simp only [argPiece]
    split
    · exact h
    · next hq =>
      simp only [Bool.or_eq_true, Bool.not_eq_true', not_or, Bool.not_eq_true, Bool.not_eq_false] at hq
      exact hq.2
  | .group n, σ, _ => by
    have hl : LayoutOk true [(ws (σ []).lead, Piece.bare (decimal n))] :=
      ⟨allSpace_ws _, Or.inl rfl, bare_decimal n, trivial⟩
    have := inner_append (inner_layout _ true hl) (inner_of_plain (plain_of_space (allSpace_ws (σ []).trail)))
    simpa [argPiece, stmtBody, Piece.ok, layout, Piece.text] using this
  | .key k, σ, h => by
    simp only [Admissible] at h
    have hl : LayoutOk true [(ws (σ []).lead, Piece.bare k)] := ⟨allSpace_ws _, Or.inl rfl, h.1, trivial⟩
    have := inner_append (inner_layout _ true hl) (inner_of_plain (plain_of_space (allSpace_ws (σ []).trail)))
    simpa [argPiece, stmtBody, Piece.ok, layout, Piece.text] using this
  | .call f args, σ, h => by
    simp only [Admissible] at h
    have hl : LayoutOk true ((ws (σ []).lead, Piece.bare f) :: argLayout σ 0 args) :=
      ⟨allSpace_ws _, Or.inl rfl, h.1, argLayout_ok args σ 0 h.2.2⟩
    have := inner_append (inner_layout _ true hl) (inner_of_plain (plain_of_space (allSpace_ws (σ []).trail)))
    simpa [argPiece, stmtBody, Piece.ok, layout, Piece.text, printArgs_layout] using this
theorem argLayout_ok : ∀ (l : List C09.Expr) (σ : Style) (i : Nat), AdmissibleArgs l → LayoutOk false (argLayout σ i l)
  | [], _, _, _ => trivial
  | a :: rest, σ, i, h => by
    simp only [AdmissibleArgs] at h
    exact ⟨allSpace_ws _, Or.inr (by simp [sepWs, ws]), argPiece_ok a (σ.child i) h.1, argLayout_ok rest σ (i + 1) h.2⟩
end

/-! ### what the splitter returns for a printed statement body -/

theorem split_call (σ : Style) (f : List Char) (args : List C09.Expr) (h : Admissible (.call f args)) :
    splitArgs (stmtBody σ (.call f args)) = f :: argStrings σ 0 args := by
  simp only [Admissible] at h
  have hl : LayoutOk true ((ws (σ []).lead, Piece.bare f) :: argLayout σ 0 args) :=
    ⟨allSpace_ws _, Or.inl rfl, h.1, argLayout_ok args σ 0 h.2.2⟩
  have := splitArgs_layout _ (ws (σ []).trail) hl (allSpace_ws _)
  simp only [List.map_cons, argLayout_values] at this
  have this' : splitArgs (layout ((ws (σ []).lead, Piece.bare f) :: argLayout σ 0 args) ++ ws (σ []).trail) =
      f :: argStrings σ 0 args := this
  rw [← this']
  simp [stmtBody, layout, Piece.text, printArgs_layout]

theorem split_word (σ : Style) (w : List Char) (h : bare w = true) :
    splitArgs (ws (σ []).lead ++ w ++ ws (σ []).trail) = [w] := by
  have hl : LayoutOk true [(ws (σ []).lead, Piece.bare w)] := ⟨allSpace_ws _, Or.inl rfl, h, trivial⟩
  have := splitArgs_layout _ (ws (σ []).trail) hl (allSpace_ws _)
  simpa [layout, Piece.text, Piece.value] using this

theorem printArg_stmt (σ : Style) (e : C09.Expr) (h : ∀ s, e ≠ .lit s) :
    printArg σ e = '{' :: (stmtBody σ e ++ ['}']) := by
  cases e with
  | lit s => exact absurd rfl (h s)
  | group n => simp [printArg, stmtBody]
  | key k => simp [printArg, stmtBody]
  | call f args => simp [printArg, stmtBody]

/-! ### compiling the pieces -/

mutual
def depth : C09.Expr → Nat
  | .call _ args => depthArgs args + 1
  | .lit _ => 1
  | .group _ => 1
  | .key _ => 1
def depthArgs : List C09.Expr → Nat
  | [] => 0
  | a :: rest => max (depth a) (depthArgs rest)
end

theorem depth_pos (e : C09.Expr) : 1 ≤ depth e := by cases e <;> simp [depth]

section
variable (reg : Registry) (fn : List Char → List Bytes → Bytes)

theorem run_seq_nil (ctx : Ctx) : (seqStages []).run ctx = .ok [] := rfl

theorem run_seq_cons (s : Stage) (r : List Stage) (ctx : Ctx) (a : Bytes) (b : List Bytes)
    (ha : s.run ctx = .ok a) (hb : (seqStages r).run ctx = .ok b) :
    (seqStages (s :: r)).run ctx = .ok (a :: b) := by
  simp only [seqStages]
  rw [run_bind, ha]
  simp only []
  rw [run_bind, hb]
  rfl

end


end Rare.C09
