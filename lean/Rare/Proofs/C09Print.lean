import Rare.Proofs.C09Errors
import Rare.Proofs.C09Digits
/-! C09: a printed expression tree compiles to stages that evaluate as the tree dictates. -/
namespace Rare.C09
open Rare Rare.Expr

/-! ### the printed text as a layout of pieces -/

/-- What the splitter hands to the nested `Compile` for an argument. -/
def argString (σ : Style) : C09.Expr → List Char
  | .lit s => s
  | .group n => printArg σ (.group n)
  | .key k => printArg σ (.key k)
  | .call f args => printArg σ (.call f args)

def argStrings (σ : Style) : Nat → List C09.Expr → List (List Char)
  | _, [] => []
  | i, a :: rest => argString (σ.child i) a :: argStrings σ (i + 1) rest

def stmtBody (σ : Style) : C09.Expr → List Char
  | .lit _ => []
  | .group n => ws (σ []).lead ++ decimal n ++ ws (σ []).trail
  | .key k => ws (σ []).lead ++ k ++ ws (σ []).trail
  | .call f args => ws (σ []).lead ++ f ++ printArgs σ 0 args ++ ws (σ []).trail

def argPiece (σ : Style) : C09.Expr → Piece
  | .lit s => if (σ []).quote || !bare s then .quoted s else .bare s
  | e => .braced (stmtBody σ e)

def argLayout (σ : Style) : Nat → List C09.Expr → List (List Char × Piece)
  | _, [] => []
  | i, a :: rest => (sepWs ((σ []).sep i), argPiece (σ.child i) a) :: argLayout σ (i + 1) rest

theorem argPiece_text (σ : Style) (e : C09.Expr) : (argPiece σ e).text = printArg σ e := by
  cases e with
  | lit s => simp only [argPiece, printArg]; split <;> rfl
  | group n => simp [argPiece, stmtBody, printArg, Piece.text]
  | key k => simp [argPiece, stmtBody, printArg, Piece.text]
  | call f args => simp [argPiece, stmtBody, printArg, Piece.text]

theorem argPiece_value (σ : Style) (e : C09.Expr) : (argPiece σ e).value = argString σ e := by
  cases e with
  | lit s => simp only [argPiece, argString]; split <;> rfl
  | group n => simp [argPiece, stmtBody, printArg, Piece.value, argString]
  | key k => simp [argPiece, stmtBody, printArg, Piece.value, argString]
  | call f args => simp [argPiece, stmtBody, printArg, Piece.value, argString]

theorem printArgs_layout (σ : Style) : ∀ (l : List C09.Expr) (i : Nat), printArgs σ i l = layout (argLayout σ i l)
  | [], i => by simp [printArgs, argLayout, layout]
  | a :: rest, i => by
    simp only [printArgs, argLayout, layout, argPiece_text]
    rw [printArgs_layout σ rest (i + 1)]

theorem argLayout_values (σ : Style) : ∀ (l : List C09.Expr) (i : Nat),
    (argLayout σ i l).map (·.2.value) = argStrings σ i l
  | [], i => by simp [argLayout, argStrings]
  | a :: rest, i => by
    simp only [argLayout, argStrings, List.map_cons, argPiece_value]
    rw [argLayout_values σ rest (i + 1)]

theorem allSpace_ws (l : List Bool) : allSpace (ws l) = true := by
  simp only [allSpace, ws, List.all_map, List.all_eq_true]
  intro b _
  cases b <;> decide

theorem bare_decimal (n : Nat) : bare (decimal n) = true := by
  have hd : ∀ d, d < 10 → (!special (digitChar d) && !isSpace (digitChar d)) = true := by decide
  induction n using Nat.strongRecOn with
  | _ n ih =>
    rw [decimal]
    by_cases h : n < 10
    · simp only [h, dif_pos, bare, List.isEmpty_cons, Bool.not_false, List.all_cons, List.all_nil, Bool.and_true,
        Bool.true_and]
      exact hd n h
    · simp only [h, dif_neg, not_false_eq_true]
      have := ih (n / 10) (by omega)
      simp only [bare, Bool.and_eq_true] at this ⊢
      refine ⟨by simp, ?_⟩
      rw [List.all_append, this.2]
      simp only [List.all_cons, List.all_nil, Bool.and_true, Bool.true_and]
      exact hd (n % 10) (by omega)

mutual
theorem argPiece_ok : ∀ (e : C09.Expr) (σ : Style), Admissible e → (argPiece σ e).ok
  | .lit s, σ, h => by
    simp only [Admissible] at h
    simp only [argPiece]
    split
    · exact h
    · next hq =>
      simp only [Bool.or_eq_true, Bool.not_eq_true', not_or, Bool.not_eq_true, Bool.not_eq_false] at hq
      exact hq.2
  | .group n, σ, _ => by
    have hl : LayoutOk true [(ws (σ []).lead, Piece.bare (decimal n))] :=
      ⟨allSpace_ws _, Or.inl rfl, bare_decimal n, trivial⟩
    have := inner_append (inner_layout _ true hl) (inner_of_plain (plain_of_space (allSpace_ws (σ []).trail)))
    simpa [argPiece, stmtBody, Piece.ok, layout, Piece.text] using this
  | .key k, σ, h => by
    simp only [Admissible] at h
    have hl : LayoutOk true [(ws (σ []).lead, Piece.bare k)] := ⟨allSpace_ws _, Or.inl rfl, h.1, trivial⟩
    have := inner_append (inner_layout _ true hl) (inner_of_plain (plain_of_space (allSpace_ws (σ []).trail)))
    simpa [argPiece, stmtBody, Piece.ok, layout, Piece.text] using this
  | .call f args, σ, h => by
    simp only [Admissible] at h
    have hl : LayoutOk true ((ws (σ []).lead, Piece.bare f) :: argLayout σ 0 args) :=
      ⟨allSpace_ws _, Or.inl rfl, h.1, argLayout_ok args σ 0 h.2.2⟩
    have := inner_append (inner_layout _ true hl) (inner_of_plain (plain_of_space (allSpace_ws (σ []).trail)))
    simpa [argPiece, stmtBody, Piece.ok, layout, Piece.text, printArgs_layout] using this
theorem argLayout_ok : ∀ (l : List C09.Expr) (σ : Style) (i : Nat), AdmissibleArgs l → LayoutOk false (argLayout σ i l)
  | [], _, _, _ => trivial
  | a :: rest, σ, i, h => by
    simp only [AdmissibleArgs] at h
    exact ⟨allSpace_ws _, Or.inr (by simp [sepWs, ws]), argPiece_ok a (σ.child i) h.1, argLayout_ok rest σ (i + 1) h.2⟩
end

/-! ### what the splitter returns for a printed statement body -/

theorem split_call (σ : Style) (f : List Char) (args : List C09.Expr) (h : Admissible (.call f args)) :
    splitArgs (stmtBody σ (.call f args)) = f :: argStrings σ 0 args := by
  simp only [Admissible] at h
  have hl : LayoutOk true ((ws (σ []).lead, Piece.bare f) :: argLayout σ 0 args) :=
    ⟨allSpace_ws _, Or.inl rfl, h.1, argLayout_ok args σ 0 h.2.2⟩
  have := splitArgs_layout _ (ws (σ []).trail) hl (allSpace_ws _)
  simp only [List.map_cons, argLayout_values] at this
  have this' : splitArgs (layout ((ws (σ []).lead, Piece.bare f) :: argLayout σ 0 args) ++ ws (σ []).trail) =
      f :: argStrings σ 0 args := this
  rw [← this']
  simp [stmtBody, layout, Piece.text, printArgs_layout]

theorem split_word (σ : Style) (w : List Char) (h : bare w = true) :
    splitArgs (ws (σ []).lead ++ w ++ ws (σ []).trail) = [w] := by
  have hl : LayoutOk true [(ws (σ []).lead, Piece.bare w)] := ⟨allSpace_ws _, Or.inl rfl, h, trivial⟩
  have := splitArgs_layout _ (ws (σ []).trail) hl (allSpace_ws _)
  simpa [layout, Piece.text, Piece.value] using this

theorem printArg_stmt (σ : Style) (e : C09.Expr) (h : ∀ s, e ≠ .lit s) :
    printArg σ e = '{' :: (stmtBody σ e ++ ['}']) := by
  cases e with
  | lit s => exact absurd rfl (h s)
  | group n => simp [printArg, stmtBody]
  | key k => simp [printArg, stmtBody]
  | call f args => simp [printArg, stmtBody]

/-! ### compiling the pieces -/

mutual
def depth : C09.Expr → Nat
  | .call _ args => depthArgs args + 1
  | .lit _ => 1
  | .group _ => 1
  | .key _ => 1
def depthArgs : List C09.Expr → Nat
  | [] => 0
  | a :: rest => max (depth a) (depthArgs rest)
end

theorem depth_pos (e : C09.Expr) : 1 ≤ depth e := by cases e <;> simp [depth]

section
variable (reg : Registry) (fn : List Char → List Bytes → Bytes)

theorem compileF_plain (fuel : Nat) (s : List Char) (h : plain s = true) :
    compileF (fuel + 1) reg false s = .ok (litStages s, []) := by
  obtain ⟨j, hj⟩ := loop_inert fuel reg false s s [] 0 ⟨[], [], [], 0, 0⟩ (plain_inert h)
  rw [List.append_nil, loop_nil] at hj
  rw [compileF_eq, hj]
  simp [finishC, litStages, utf8_eq]

/-- A braced statement with a single word: a variable reference. -/
theorem compileF_var (fuel : Nat) (σ : Style) (w : List Char) (h : bare w = true) :
    compileF (fuel + 1) reg false ('{' :: ((ws (σ []).lead ++ w ++ ws (σ []).trail) ++ ['}'])) =
      .ok ([stageSimpleVariable w], []) := by
  have hl : LayoutOk true [(ws (σ []).lead, Piece.bare w)] := ⟨allSpace_ws _, Or.inl rfl, h, trivial⟩
  have hin : Inner (ws (σ []).lead ++ w ++ ws (σ []).trail) := by
    have := inner_append (inner_layout _ true hl) (inner_of_plain (plain_of_space (allSpace_ws (σ []).trail)))
    simpa [layout, Piece.text] using this
  obtain ⟨j, hj⟩ := compileF_braced fuel reg false hin
  rw [hj, close_var fuel reg false _ j ⟨[], [], _, 0, 1⟩ w (split_word σ w h)]
  simp [finishC]

theorem run_seq_nil (ctx : Ctx) : (seqStages []).run ctx = .ok [] := rfl

theorem run_seq_cons (s : Stage) (r : List Stage) (ctx : Ctx) (a : Bytes) (b : List Bytes)
    (ha : s.run ctx = .ok a) (hb : (seqStages r).run ctx = .ok b) :
    (seqStages (s :: r)).run ctx = .ok (a :: b) := by
  simp only [seqStages]
  rw [run_bind, ha]
  simp only []
  rw [run_bind, hb]
  rfl

theorem run_single (s : Stage) (ctx : Ctx) :
    (joinStages [s]).run ctx = s.run ctx ∧ (buildKey [s]).run ctx = s.run ctx :=
  ⟨rfl, run_concat_single s ctx⟩

mutual
theorem arg_ok : ∀ (e : C09.Expr) (σ : Style) (fuel : Nat), Admissible e → RegOk reg fn e → depth e ≤ fuel →
    ∃ stages, compileF fuel reg false (argString σ e) = .ok (stages, []) ∧
      ∀ ctx, (joinStages stages).run ctx = .ok (evalTree (envOf ctx fn) e) ∧
             (buildKey stages).run ctx = .ok (evalTree (envOf ctx fn) e)
  | .lit s, σ, fuel, ha, _, hd => by
    obtain ⟨g, rfl⟩ : ∃ g, fuel = g + 1 := ⟨fuel - 1, by simp [depth] at hd; omega⟩
    simp only [Admissible] at ha
    refine ⟨litStages s, compileF_plain reg g s ha, fun ctx => ?_⟩
    have := run_litStages s ctx
    simp only [evalTree]
    exact ⟨this.2, this.1⟩
  | .group n, σ, fuel, ha, _, hd => by
    obtain ⟨g, rfl⟩ : ∃ g, fuel = g + 1 := ⟨fuel - 1, by simp [depth] at hd; omega⟩
    simp only [Admissible] at ha
    refine ⟨[stageSimpleVariable (decimal n)], ?_, fun ctx => ?_⟩
    · rw [argString, printArg_stmt σ _ (by intro s h; cases h)]
      exact compileF_var reg g σ (decimal n) (bare_decimal n)
    · have hs : stageSimpleVariable (decimal n) = Comp.match_ (n : Int) := by
        simp [stageSimpleVariable, utf8_eq, atoi_decimal n ha]
      have hr : (stageSimpleVariable (decimal n)).run ctx = .ok (evalTree (envOf ctx fn) (.group n)) := by
        rw [hs]; rfl
      have := run_single (stageSimpleVariable (decimal n)) ctx
      rw [this.1, this.2, hr]; exact ⟨rfl, rfl⟩
  | .key k, σ, fuel, ha, _, hd => by
    obtain ⟨g, rfl⟩ : ∃ g, fuel = g + 1 := ⟨fuel - 1, by simp [depth] at hd; omega⟩
    simp only [Admissible] at ha
    refine ⟨[stageSimpleVariable k], ?_, fun ctx => ?_⟩
    · rw [argString, printArg_stmt σ _ (by intro s h; cases h)]
      exact compileF_var reg g σ k ha.1
    · have hs : stageSimpleVariable k = Comp.key (utf8 k) := by
        simp [stageSimpleVariable, utf8_eq, ha.2]
      have hr : (stageSimpleVariable k).run ctx = .ok (evalTree (envOf ctx fn) (.key k)) := by
        rw [hs]; rfl
      have := run_single (stageSimpleVariable k) ctx
      rw [this.1, this.2, hr]; exact ⟨rfl, rfl⟩
  | .call f args, σ, fuel, ha, hreg, hd => by
    obtain ⟨g, rfl⟩ : ∃ g, fuel = g + 1 := ⟨fuel - 1, by simp [depth] at hd; omega⟩
    have hd' : depthArgs args ≤ g := by simp [depth] at hd; omega
    have hsplit := split_call σ f args ha
    have hpiece := argPiece_ok (.call f args) σ ha
    simp only [Admissible] at ha
    simp only [RegOk] at hreg
    obtain ⟨cargs, hc, hrun⟩ := args_ok args σ 0 g ha.2.2 hreg.2 hd'
    cases args with
    | nil => exact absurd rfl ha.2.1
    | cons a rest =>
      let stage : Stage := (seqStages cargs).bind fun vs => .ret (fn f vs)
      refine ⟨[stage], ?_, fun ctx => ?_⟩
      · rw [argString, printArg_stmt σ _ (by intro s h; cases h)]
        have hin : Inner (stmtBody σ (.call f (a :: rest))) := by
          simpa [argPiece, Piece.ok] using hpiece
        obtain ⟨j, hj⟩ := compileF_braced g reg false hin
        simp only [argStrings] at hsplit hc
        rw [hj, close_call g reg false ('{' :: (stmtBody σ (.call f (a :: rest)) ++ ['}'])) j
          ⟨[], [], stmtBody σ (.call f (a :: rest)), 0, 1⟩ f _ _ (pureBuilder (fn f)) cargs stage hsplit hreg.1 hc rfl]
        simp [finishC]
      · have hr : stage.run ctx = .ok (evalTree (envOf ctx fn) (.call f (a :: rest))) := by
          show ((seqStages cargs).bind fun vs => .ret (fn f vs)).run ctx = _
          rw [run_bind, hrun ctx]
          simp only [evalTree]
          rfl
        have := run_single stage ctx
        rw [this.1, this.2, hr]; exact ⟨rfl, rfl⟩
theorem args_ok : ∀ (l : List C09.Expr) (σ : Style) (i fuel : Nat), AdmissibleArgs l → RegOkArgs reg fn l →
    depthArgs l ≤ fuel →
    ∃ cargs, compileArgs fuel reg false (argStrings σ i l) = .ok (cargs, []) ∧
      ∀ ctx, (seqStages cargs).run ctx = .ok (evalArgs (envOf ctx fn) l)
  | [], σ, i, fuel, _, _, _ => ⟨[], by rw [argStrings, compileArgs], fun ctx => rfl⟩
  | a :: rest, σ, i, fuel, ha, hreg, hd => by
    simp only [AdmissibleArgs] at ha
    simp only [RegOkArgs] at hreg
    simp only [depthArgs] at hd
    obtain ⟨stages, h1, r1⟩ := arg_ok a (σ.child i) fuel ha.1 hreg.1 (by omega)
    obtain ⟨cargs, h2, r2⟩ := args_ok rest σ (i + 1) fuel ha.2 hreg.2 (by omega)
    refine ⟨joinStages stages :: cargs, ?_, fun ctx => ?_⟩
    · rw [argStrings, compileArgs, h1]
      simp only []
      rw [h2]
      simp
    · simp only [evalArgs]
      exact run_seq_cons _ _ ctx _ _ (r1 ctx).1 (r2 ctx)
end

end


end Rare.C09
