import Rare.Proofs.C09Loop
/-! C09: the recursion fuel of `compile` (template length + 1) always suffices. -/
namespace Rare.C09
open Rare Rare.Expr

/-! ### arguments are never longer than the text they were cut from -/

def splitSize (s : SplitSt) : Nat := (s.args.map List.length).sum + s.sb.length

theorem splitSize_step (s : SplitSt) (r : Char) : splitSize (splitStep s r) ≤ splitSize s + 1 := by
  unfold splitStep
  repeat' split
  all_goals simp [splitSize]
  all_goals omega

theorem splitSize_foldl (t : List Char) : ∀ s, splitSize (t.foldl splitStep s) ≤ splitSize s + t.length := by
  induction t with
  | nil => intro s; simp
  | cons c t ih =>
    intro s
    have h1 := ih (splitStep s c)
    have h2 := splitSize_step s c
    simp only [List.foldl_cons, List.length_cons]
    omega

theorem length_le_sum {a : List Char} {l : List (List Char)} (h : a ∈ l) : a.length ≤ (l.map List.length).sum := by
  induction l with
  | nil => cases h
  | cons b l ih =>
    rcases List.mem_cons.mp h with h | h
    · subst h; simp
    · have := ih h; simp; omega

theorem splitArgs_length {a t : List Char} (h : a ∈ splitArgs t) : a.length ≤ t.length := by
  have hs := splitSize_foldl t SplitSt.init
  simp only [splitArgs] at h
  have h0 : splitSize SplitSt.init = 0 := rfl
  rw [h0] at hs
  split at h
  · have := length_le_sum h
    simp only [splitSize] at hs; omega
  · have := length_le_sum h
    simp only [splitSize] at hs
    simp at this
    omega

/-! ### the scanner does not depend on fuel beyond what its arguments need -/

section
variable (g1 g2 : Nat) (reg : Registry) (opt : Bool)

theorem args_eq (fargs : List (List Char))
    (h : ∀ a ∈ fargs, compileF g1 reg opt a = compileF g2 reg opt a) :
    compileArgs g1 reg opt fargs = compileArgs g2 reg opt fargs := by
  induction fargs with
  | nil => rw [compileArgs, compileArgs]
  | cons a r ih =>
    rw [compileArgs, compileArgs, h a (by simp), ih (fun b hb => h b (by simp [hb]))]

theorem close_eq (all : List Char) (i : Nat) (st : CompSt)
    (h : ∀ a ∈ splitArgs st.sb, compileF g1 reg opt a = compileF g2 reg opt a) :
    closeStatement g1 reg opt all i st = closeStatement g2 reg opt all i st := by
  rw [closeStatement, closeStatement]
  match hs : splitArgs st.sb with
  | [] => rfl
  | [a] => rfl
  | name :: b :: r =>
    have : compileArgs g1 reg opt (b :: r) = compileArgs g2 reg opt (b :: r) :=
      args_eq g1 g2 reg opt _ (fun a ha => h a (by rw [hs]; simp [List.mem_cons.mp ha]))
    simp only [this]

theorem loop_eq (N : Nat) (all : List Char)
    (hA : ∀ a : List Char, a.length < N → compileF g1 reg opt a = compileF g2 reg opt a) :
    ∀ (m : Nat) (rest : List Char) (i : Nat) (st : CompSt), rest.length ≤ m →
      st.sb.length + rest.length ≤ N →
      compileLoop g1 reg opt all rest i st = compileLoop g2 reg opt all rest i st := by
  intro m
  induction m with
  | zero =>
    intro rest i st hm _
    have : rest = [] := List.length_eq_zero_iff.mp (by omega)
    subst this; rw [loop_nil, loop_nil]
  | succ m ih =>
    intro rest i st hm hN
    cases rest with
    | nil => rw [loop_nil, loop_nil]
    | cons r rest =>
      simp only [List.length_cons] at hm hN
      by_cases h1 : r = '\\'
      · subst h1
        cases rest with
        | nil => rw [loop_esc_last, loop_esc_last]
        | cons e rest =>
          simp only [List.length_cons] at hm hN
          rw [loop_esc, loop_esc]
          exact ih _ _ _ (by omega) (by simp; omega)
      · by_cases h2 : r = '{'
        · subst h2
          by_cases h0 : st.inStatement = 0
          · rw [loop_open0 _ _ _ _ _ _ _ h0, loop_open0 _ _ _ _ _ _ _ h0]
            exact ih _ _ _ (by omega) (by simp; omega)
          · rw [loop_openN _ _ _ _ _ _ _ h0, loop_openN _ _ _ _ _ _ _ h0]
            exact ih _ _ _ (by omega) (by simp; omega)
        · by_cases h3 : r = '}' ∧ st.inStatement ≠ 0
          · obtain ⟨h3, h4⟩ := h3
            subst h3
            by_cases h5 : st.inStatement = 1
            · rw [loop_close1 _ _ _ _ _ _ _ h5, loop_close1 _ _ _ _ _ _ _ h5,
                close_eq g1 g2 reg opt all i st (fun a ha => hA a (by have := splitArgs_length ha; omega))]
              cases closeStatement g2 reg opt all i st with
              | error m => rfl
              | ok st' => exact ih _ _ _ (by omega) (by simp; omega)
            · rw [loop_closeN _ _ _ _ _ _ _ (by omega), loop_closeN _ _ _ _ _ _ _ (by omega)]
              exact ih _ _ _ (by omega) (by simp; omega)
          · have h3' : r ≠ '}' ∨ st.inStatement = 0 := by
              by_cases hr : r = '}'
              · right; exact Classical.byContradiction fun hc => h3 ⟨hr, hc⟩
              · left; exact hr
            rw [loop_plain _ _ _ _ _ _ _ _ h1 h2 h3', loop_plain _ _ _ _ _ _ _ _ h1 h2 h3']
            exact ih _ _ _ (by omega) (by simp; omega)

theorem compileF_succ_eq (t : List Char)
    (hA : ∀ a : List Char, a.length < t.length → compileF g1 reg opt a = compileF g2 reg opt a) :
    compileF (g1 + 1) reg opt t = compileF (g2 + 1) reg opt t := by
  rw [compileF, compileF, loop_eq g1 g2 reg opt t.length t hA t.length t 0 _ (Nat.le_refl _) (by simp)]

end

/-- Fuel above the template length is never looked at. -/
theorem compileF_fuel_irrelevant (reg : Registry) (opt : Bool) :
    ∀ (L : Nat) (t : List Char), t.length < L → ∀ f1 f2, t.length < f1 → t.length < f2 →
      compileF f1 reg opt t = compileF f2 reg opt t := by
  intro L
  induction L with
  | zero => intro t h; omega
  | succ L ih =>
    intro t hL f1 f2 h1 h2
    obtain ⟨g1, rfl⟩ : ∃ g, f1 = g + 1 := ⟨f1 - 1, by omega⟩
    obtain ⟨g2, rfl⟩ : ∃ g, f2 = g + 1 := ⟨f2 - 1, by omega⟩
    exact compileF_succ_eq g1 g2 reg opt t (fun a ha => ih a (by omega) g1 g2 (by omega) (by omega))

/-! ### the out-of-fuel branch is never taken -/

/-- No function builder of the registry fails with the model's own out-of-fuel message. -/
def NoFuelMsg (reg : Registry) : Prop :=
  ∀ name f args, reg name = some f → f args ≠ .error "out of fuel"

section
variable (g : Nat) (reg : Registry) (hreg : NoFuelMsg reg)

omit hreg in
theorem args_ne (fargs : List (List Char))
    (h : ∀ a ∈ fargs, compileF g reg false a ≠ .error "out of fuel") :
    compileArgs g reg false fargs ≠ .error "out of fuel" := by
  induction fargs with
  | nil => rw [compileArgs]; simp
  | cons a r ih =>
    rw [compileArgs]
    have h1 := h a (by simp)
    have h2 := ih (fun b hb => h b (by simp [hb]))
    cases hc : compileF g reg false a with
    | error m => rw [hc] at h1; simpa using h1
    | ok p =>
      obtain ⟨st, er⟩ := p
      simp only []
      cases hc2 : compileArgs g reg false r with
      | error m => rw [hc2] at h2; simpa using h2
      | ok q => obtain ⟨ss, es⟩ := q; simp

include hreg

theorem close_ne (all : List Char) (i : Nat) (st : CompSt)
    (h : ∀ a ∈ splitArgs st.sb, compileF g reg false a ≠ .error "out of fuel") :
    closeStatement g reg false all i st ≠ .error "out of fuel" := by
  rw [closeStatement]
  match hs : splitArgs st.sb with
  | [] => simp
  | [a] => simp
  | name :: b :: r =>
    simp only []
    cases hr : reg name with
    | none => simp
    | some f =>
      simp only []
      have h2 := args_ne g reg (b :: r) (fun a ha => h a (by rw [hs]; simp [List.mem_cons.mp ha]))
      cases hc : compileArgs g reg false (b :: r) with
      | error m => rw [hc] at h2; simpa using h2
      | ok q =>
        obtain ⟨cargs, aerrs⟩ := q
        simp only []
        have h3 := hreg name f cargs hr
        cases hf : f cargs with
        | error m => rw [hf] at h3; simpa using h3
        | ok b => simp

theorem loop_ne (N : Nat) (all : List Char)
    (hA : ∀ a : List Char, a.length < N → compileF g reg false a ≠ .error "out of fuel") :
    ∀ (m : Nat) (rest : List Char) (i : Nat) (st : CompSt), rest.length ≤ m →
      st.sb.length + rest.length ≤ N →
      compileLoop g reg false all rest i st ≠ .error "out of fuel" := by
  intro m
  induction m with
  | zero =>
    intro rest i st hm _
    have : rest = [] := List.length_eq_zero_iff.mp (by omega)
    subst this; rw [loop_nil]; simp
  | succ m ih =>
    intro rest i st hm hN
    cases rest with
    | nil => rw [loop_nil]; simp
    | cons r rest =>
      simp only [List.length_cons] at hm hN
      by_cases h1 : r = '\\'
      · subst h1
        cases rest with
        | nil => rw [loop_esc_last]; simp
        | cons e rest =>
          simp only [List.length_cons] at hm hN
          rw [loop_esc]
          exact ih _ _ _ (by omega) (by simp; omega)
      · by_cases h2 : r = '{'
        · subst h2
          by_cases h0 : st.inStatement = 0
          · rw [loop_open0 _ _ _ _ _ _ _ h0]
            exact ih _ _ _ (by omega) (by simp; omega)
          · rw [loop_openN _ _ _ _ _ _ _ h0]
            exact ih _ _ _ (by omega) (by simp; omega)
        · by_cases h3 : r = '}' ∧ st.inStatement ≠ 0
          · obtain ⟨h3, h4⟩ := h3
            subst h3
            by_cases h5 : st.inStatement = 1
            · rw [loop_close1 _ _ _ _ _ _ _ h5]
              have hc := close_ne g reg hreg all i st (fun a ha => hA a (by have := splitArgs_length ha; omega))
              cases hcl : closeStatement g reg false all i st with
              | error m => rw [hcl] at hc; simpa using hc
              | ok st' => exact ih _ _ _ (by omega) (by simp; omega)
            · rw [loop_closeN _ _ _ _ _ _ _ (by omega)]
              exact ih _ _ _ (by omega) (by simp; omega)
          · have h3' : r ≠ '}' ∨ st.inStatement = 0 := by
              by_cases hr : r = '}'
              · right; exact Classical.byContradiction fun hc => h3 ⟨hr, hc⟩
              · left; exact hr
            rw [loop_plain _ _ _ _ _ _ _ _ h1 h2 h3']
            exact ih _ _ _ (by omega) (by simp; omega)

end

/-- With fuel above the template length the recursive compiler never runs out of fuel
    (optimiser off; the optimiser adds no recursion). -/
theorem compileF_ne_out_of_fuel (reg : Registry) (hreg : NoFuelMsg reg) :
    ∀ (L : Nat) (t : List Char), t.length < L → ∀ f, t.length < f →
      compileF f reg false t ≠ .error "out of fuel" := by
  intro L
  induction L with
  | zero => intro t h; omega
  | succ L ih =>
    intro t hL f h1
    obtain ⟨g, rfl⟩ : ∃ g, f = g + 1 := ⟨f - 1, by omega⟩
    have hl := loop_ne g reg hreg t.length t (fun a ha => ih a (by omega) g (by omega)) t.length t 0
      ⟨[], [], [], 0, 0⟩ (Nat.le_refl _) (by simp)
    rw [compileF]
    cases hc : compileLoop g reg false t t 0 ⟨[], [], [], 0, 0⟩ with
    | error m => rw [hc] at hl; simpa using hl
    | ok st => simp


end Rare.C09
