import Rare.Proofs.C07NumF64Err
import Rare.Proofs.C07Num
/-!
C07 – the ACCUMULATED rounding error of the running mean (Welford's update in binary64).

For samples `x_1 … x_n` (finite, `|x_i| ≤ M ≤ 2^1021`, `n ≤ 2^53`) let `m_k` be the float mean after `k` samples and
`S_k` the exact sum of the first `k` sample values.  One step satisfies `m_k = m_{k-1} + (x_k − m_{k-1})/k + δ_k` with
`|δ_k| ≤ B_k` (`mean_step_error_full`), hence – multiplying by `k` –

    k·m_k − S_k  =  ((k−1)·m_{k-1} − S_{k-1})  +  k·δ_k ,

a LINEAR recurrence (the factor `1 − 1/k` of the usual presentation disappears).  With `|m_k| ≤ M` (the mean stays
between the samples), `|x_k − m_{k-1}| ≤ 2M` and `|d| ≤ 2M(1+u) + η` the step term is `k·B_k ≤ (k+5)·M·u + (2k+2)·η`,
and the sum of these over `2 … n` (the first sample is exact) is at most `(n(n+1)/2 + 5n)·M·u + (n(n+1) + 2n)·η`.
Dividing by `n`:   `|m_n − S_n/n| ≤ (n+11)/2 · u · M + (n+3) · η`.
-/
namespace Rare.C07
open Rare Rare.F64

theorem absRat_le {q c : Rat} (h1 : -c ≤ q) (h2 : q ≤ c) : absRat q ≤ c := by
  unfold absRat; split <;> grind

theorem absRat_div_pos (q : Rat) {k : Rat} (hk : 0 < k) : absRat (q / k) = absRat q / k := by
  unfold absRat
  by_cases h : q < 0
  · have : q / k < 0 := by
      have := rat_div_pos (a := -q) (c := k) (by grind) hk
      rw [Rat.div_def] at this ⊢; grind
    rw [if_pos h, if_pos this, Rat.div_def, Rat.div_def]; grind
  · have : ¬ q / k < 0 := by
      have := div_nonneg' (d := q) (k := k) (by grind) hk
      grind
    rw [if_neg h, if_neg this]

theorem uF_pos : 0 < uF := by
  unfold uF; exact rat_div_pos (by decide) (natCast_pos_of_pos (by decide))

theorem uF_le_half : uF ≤ 1 / 2 := by decide +kernel

/-- `k · B_k ≤ (k+5)·M·u + (2k+2)·η`: the scaled step bound in terms of the magnitude bound `M`. -/
theorem scaled_step_bound (M K am' ad axm : Rat) (hK : 1 ≤ K) (hM : 0 ≤ M)
    (h1 : 0 ≤ am' ∧ am' ≤ M) (h3 : 0 ≤ axm ∧ axm ≤ 2 * M) (h2 : 0 ≤ ad ∧ ad ≤ axm + (axm * uF + etaF)) :
    K * ((am' * uF + etaF) + (ad / K * uF + etaF) + (axm * uF + etaF) / K) ≤
      (K + 5) * (M * uF) + (2 * K + 2) * etaF := by
  have hu := uF_pos
  have hu2 := uF_le_half
  have he := etaF_pos
  have hK0 : K ≠ 0 := by grind
  have e1 : K * (ad / K * uF) = ad * uF := by
    rw [Rat.div_def]
    have : K * K⁻¹ = 1 := Rat.mul_inv_cancel K hK0
    grind
  have e2 : K * ((axm * uF + etaF) / K) = axm * uF + etaF := by
    rw [Rat.div_def]
    have : K * K⁻¹ = 1 := Rat.mul_inv_cancel K hK0
    grind
  have e0 : K * ((am' * uF + etaF) + (ad / K * uF + etaF) + (axm * uF + etaF) / K) =
      K * (am' * uF) + 2 * K * etaF + K * (ad / K * uF) + K * ((axm * uF + etaF) / K) := by grind
  rw [e0, e1, e2]
  -- the products, as atoms
  have p1 : am' * uF ≤ M * uF := Rat.mul_le_mul_of_nonneg_right h1.2 (Rat.le_of_lt hu)
  have p1' : K * (am' * uF) ≤ K * (M * uF) := Rat.mul_le_mul_of_nonneg_left p1 (by grind)
  have p3 : axm * uF ≤ (2 * M) * uF := Rat.mul_le_mul_of_nonneg_right h3.2 (Rat.le_of_lt hu)
  have p2 : ad * uF ≤ (axm + (axm * uF + etaF)) * uF := Rat.mul_le_mul_of_nonneg_right h2.2 (Rat.le_of_lt hu)
  have q0 : 0 ≤ M * uF := Rat.mul_nonneg hM (Rat.le_of_lt hu)
  have p4 : (axm * uF) * uF ≤ (axm * uF) * (1 / 2) :=
    Rat.mul_le_mul_of_nonneg_left hu2 (Rat.mul_nonneg h3.1 (Rat.le_of_lt hu))
  have p5 : etaF * uF ≤ etaF * (1 / 2) := Rat.mul_le_mul_of_nonneg_left hu2 (Rat.le_of_lt he)
  grind

/-- Invariant of the run: `k = samples ≥ 1`, finite mean within `[-M, M]`, and `|k·mean − S| ≤ A(k)·M·u + C(k)·η`
for the exact sum `S` of the sample values so far. -/
structure MeanAcc (M : Rat) (s : NumF) (S : Rat) : Prop where
  meanF : s.mean.isFinite = true
  lo : -M ≤ s.mean.toRat
  hi : s.mean.toRat ≤ M
  up : (s.samples : Rat) * s.mean.toRat - S ≤
    ((s.samples : Rat) * ((s.samples : Rat) + 1) / 2 + 5 * (s.samples : Rat)) * (M * uF) +
    ((s.samples : Rat) * ((s.samples : Rat) + 1) + 2 * (s.samples : Rat)) * etaF
  dn : S - (s.samples : Rat) * s.mean.toRat ≤
    ((s.samples : Rat) * ((s.samples : Rat) + 1) / 2 + 5 * (s.samples : Rat)) * (M * uF) +
    ((s.samples : Rat) * ((s.samples : Rat) + 1) + 2 * (s.samples : Rat)) * etaF

theorem meanAcc_step (keep : Bool) (M : Rat) (hM : M ≤ bigB) (s : NumF) (S : Rat) (x : F64)
    (hk : 1 ≤ s.samples) (hn : s.samples + 1 ≤ P53) (h : MeanAcc M s S)
    (xf : x.isFinite = true) (xl : -M ≤ x.toRat) (xh : x.toRat ≤ M) :
    MeanAcc M (NumF.samplef keep s x) (S + x.toRat) := by
  have hM0 : 0 ≤ M := by have := h.lo; have := h.hi; grind
  obtain ⟨mf, df, e1, e2⟩ := mean_step_error_full keep s x hk hn h.meanF xf
    ⟨by have := h.lo; grind, by have := h.hi; grind⟩ ⟨by grind, by grind⟩
  -- the new mean stays between the old mean and the sample
  have st := mean_step_between s.mean x (s.samples + 1) (by omega) hn h.meanF xf
    ⟨by have := h.lo; grind, by have := h.hi; grind⟩ ⟨by grind, by grind⟩
  simp only [] at st
  rw [← samplefF_mean keep] at st
  obtain ⟨_, _, c1, c2⟩ := st
  have hlo := h.lo
  have hhi := h.hi
  have hbtw : -M ≤ (NumF.samplef keep s x).mean.toRat ∧ (NumF.samplef keep s x).mean.toRat ≤ M := by
    rcases Rat.le_total (a := s.mean.toRat) (b := x.toRat) with hle | hle
    · have := c1 hle; exact ⟨by grind, by grind⟩
    · have := c2 hle; exact ⟨by grind, by grind⟩
  -- the computed difference
  have hdd : F64.sub x s.mean = ofRatS (x.sign && !s.mean.sign) (x.toRat - s.mean.toRat) := sub_finite xf h.meanF
  have E1 := (ofRatS_err (x.sign && !s.mean.sign) (x.toRat - s.mean.toRat) (by rw [← hdd]; exact df)).1
  rw [← hdd, div_P53] at E1
  have hsK : ((NumF.samplef keep s x).samples : Rat) = (s.samples : Rat) + 1 := by
    rw [samplef_samples]; simp [Rat.natCast_add]
  have hKc : ((s.samples + 1 : Nat) : Rat) = (s.samples : Rat) + 1 := by simp [Rat.natCast_add]
  have hk1 : (1 : Rat) ≤ (s.samples : Rat) := by
    have := Rat.natCast_le_natCast.mpr hk
    exact this
  have hK0 : (0 : Rat) < (s.samples : Rat) + 1 := by grind
  rw [hKc] at e1 e2
  rw [absRat_div_pos _ hK0] at e1 e2
  have a1 := absRat_nonneg (NumF.samplef keep s x).mean.toRat
  have a1' := absRat_le hbtw.1 hbtw.2
  have a3 := absRat_nonneg (x.toRat - s.mean.toRat)
  have a3' : absRat (x.toRat - s.mean.toRat) ≤ 2 * M := absRat_le (by grind) (by grind)
  have a2 := absRat_nonneg (F64.sub x s.mean).toRat
  have a2' : absRat (F64.sub x s.mean).toRat ≤
      absRat (x.toRat - s.mean.toRat) + (absRat (x.toRat - s.mean.toRat) * uF + etaF) := by
    have hb0 : 0 ≤ absRat (x.toRat - s.mean.toRat) * uF + etaF := by
      have := Rat.mul_nonneg a3 (Rat.le_of_lt uF_pos)
      have := etaF_pos
      grind
    apply absRat_le
    · have : -(absRat (x.toRat - s.mean.toRat)) ≤ x.toRat - s.mean.toRat := by unfold absRat; split <;> grind
      grind
    · have : x.toRat - s.mean.toRat ≤ absRat (x.toRat - s.mean.toRat) := by unfold absRat; split <;> grind
      grind
  have sb := scaled_step_bound M ((s.samples : Rat) + 1) _ _ _ (by grind) hM0 ⟨a1, a1'⟩ ⟨a3, a3'⟩ ⟨a2, a2'⟩
  -- K·exact = k·m + x
  have hex : ((s.samples : Rat) + 1) * (s.mean.toRat + (x.toRat - s.mean.toRat) / ((s.samples : Rat) + 1)) =
      (s.samples : Rat) * s.mean.toRat + x.toRat := by
    have : ((s.samples : Rat) + 1) * ((x.toRat - s.mean.toRat) / ((s.samples : Rat) + 1)) = x.toRat - s.mean.toRat := by
      rw [Rat.div_def]
      have : ((s.samples : Rat) + 1) * ((s.samples : Rat) + 1)⁻¹ = 1 := Rat.mul_inv_cancel _ (by grind)
      grind
    grind
  have f1 := Rat.mul_le_mul_of_nonneg_left e1 (Rat.le_of_lt hK0)
  have f2 := Rat.mul_le_mul_of_nonneg_left e2 (Rat.le_of_lt hK0)
  have hu := h.up
  have hd := h.dn
  refine ⟨mf, hbtw.1, hbtw.2, ?_, ?_⟩
  · rw [hsK]; grind
  · rw [hsK]; grind

theorem meanAcc_fold (keep : Bool) (M : Rat) (hM : M ≤ bigB) (l : List F64) :
    ∀ (s : NumF) (S : Rat), 1 ≤ s.samples → s.samples + l.length ≤ P53 → MeanAcc M s S →
      (∀ x ∈ l, x.isFinite = true ∧ -M ≤ x.toRat ∧ x.toRat ≤ M) →
      MeanAcc M (l.foldl (NumF.samplef keep) s) (S + ratSum (l.map F64.toRat)) := by
  induction l with
  | nil =>
    intro s S _ _ h _
    have : S + ratSum (([] : List F64).map F64.toRat) = S := by simp [ratSum]; grind
    rw [this]; exact h
  | cons x l ih =>
    intro s S hk hn h hl
    obtain ⟨xf, xa, xb⟩ := hl x (by simp)
    simp only [List.length_cons] at hn
    rw [List.foldl_cons]
    have := ih _ _ (by rw [samplef_samples]; omega) (by rw [samplef_samples]; omega)
      (meanAcc_step keep M hM s S x hk (by omega) h xf xa xb) (fun y hy => hl y (by simp [hy]))
    have e : S + ratSum ((x :: l).map F64.toRat) = S + x.toRat + ratSum (l.map F64.toRat) := by
      simp [ratSum]; grind
    rw [e]; exact this

/-- **Accumulated error of the running mean.**  For a non-empty list of at most `2^53` finite samples of magnitude at
most `M ≤ 2^1021`: the float mean is finite and differs from the exact mean of the sample values by at most
`(n+11)/2 · u · M + (n+3) · η`. -/
theorem mean_acc_error (keep : Bool) (M : Rat) (hM : M ≤ bigB) (l : List F64) (hne : l ≠ []) (hn : l.length ≤ P53)
    (hl : ∀ x ∈ l, x.isFinite = true ∧ -M ≤ x.toRat ∧ x.toRat ≤ M) :
    let r := runFv keep l
    let n : Rat := (l.length : Rat)
    let R := (n + 11) / 2 * (M * uF) + (n + 3) * etaF
    r.mean.isFinite = true ∧ -M ≤ r.mean.toRat ∧ r.mean.toRat ≤ M ∧
    r.mean.toRat - mean (l.map F64.toRat) ≤ R ∧ mean (l.map F64.toRat) - r.mean.toRat ≤ R := by
  intro r n R
  obtain ⟨x, l', rfl⟩ := List.exists_cons_of_ne_nil hne
  obtain ⟨xf, xa, xb⟩ := hl x (by simp)
  obtain ⟨s1, s2, s3, _, _⟩ := first_step keep x xf
  simp only [List.length_cons] at hn
  have hM0 : 0 ≤ M := by grind
  have hu := uF_pos
  have he := etaF_pos
  have q0 : 0 ≤ M * uF := Rat.mul_nonneg hM0 (Rat.le_of_lt hu)
  have h1 : MeanAcc M (NumF.samplef keep NumF.new x) (0 + x.toRat) := by
    refine ⟨s2, by rw [s3]; exact xa, by rw [s3]; exact xb, ?_, ?_⟩
    · rw [s1, s3]; have : ((1 : Nat) : Rat) = 1 := rfl
      rw [this]; grind
    · rw [s1, s3]; have : ((1 : Nat) : Rat) = 1 := rfl
      rw [this]; grind
  have hf := meanAcc_fold keep M hM l' _ _ (by rw [s1]; omega) (by rw [s1]; omega) h1
    (fun y hy => hl y (by simp [hy]))
  have hr : r = l'.foldl (NumF.samplef keep) (NumF.samplef keep NumF.new x) := by
    show runFv keep (x :: l') = _
    unfold runFv; rw [List.foldl_cons]
  rw [← hr] at hf
  have hsum : 0 + x.toRat + ratSum (l'.map F64.toRat) = ratSum ((x :: l').map F64.toRat) := by
    simp [ratSum]; grind
  rw [hsum] at hf
  have hsn : (r.samples : Rat) = n := by
    show ((runFv keep (x :: l')).samples : Rat) = _
    rw [runFv_samples]
  have hn1 : (1 : Rat) ≤ n := by
    show (1 : Rat) ≤ (((x :: l').length : Nat) : Rat)
    have : 1 ≤ (x :: l').length := by simp
    have := Rat.natCast_le_natCast.mpr this
    exact this
  have hn0 : (0 : Rat) < n := by grind
  have up := hf.up
  have dn := hf.dn
  rw [hsn] at up dn
  have hmean : mean ((x :: l').map F64.toRat) = ratSum ((x :: l').map F64.toRat) / n := by
    unfold mean; simp [n]
  have hmul : n * (ratSum ((x :: l').map F64.toRat) / n) = ratSum ((x :: l').map F64.toRat) := by
    rw [Rat.div_def]
    have : n * n⁻¹ = 1 := Rat.mul_inv_cancel n (by grind)
    grind
  have hR : n * R = (n * (n + 1) / 2 + 5 * n) * (M * uF) + (n * (n + 1) + 2 * n) * etaF := by
    show n * ((n + 11) / 2 * (M * uF) + (n + 3) * etaF) = _
    grind
  refine ⟨hf.meanF, hf.lo, hf.hi, ?_, ?_⟩
  · rw [hmean]
    have : n * (r.mean.toRat - ratSum ((x :: l').map F64.toRat) / n) ≤ n * R := by
      rw [hR]; grind
    exact Rat.le_of_mul_le_mul_left this hn0
  · rw [hmean]
    have : n * (ratSum ((x :: l').map F64.toRat) / n - r.mean.toRat) ≤ n * R := by
      rw [hR]; grind
    exact Rat.le_of_mul_le_mul_left this hn0

end Rare.C07
