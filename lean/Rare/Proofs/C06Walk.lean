import Rare.Proofs.C06Resolve
/-! C06: `filepath.Walk` from a directory given by a simple path reports every non-directory below it once. -/
namespace Rare.C06.Glob

/-! ### looking up simple paths -/

theorem Node.at_append : ∀ (s1 s2 : List Name) (root : Node),
    root.at (s1 ++ s2) = (root.at s1).bind (fun n => n.at s2)
  | [], s2, root => by simp [Node.at]
  | c :: cs, s2, root => by
    cases root with
    | file => simp [Node.at]
    | link t => simp [Node.at]
    | dir e =>
      simp only [List.cons_append, Node.at]
      cases e.find c with
      | none => simp
      | some child => exact Node.at_append cs s2 child

theorem Node.at_dir_child (root : Node) (s : List Name) (e : Ents) (n : Name) (h : root.at s = some (.dir e)) :
    root.at (s ++ [n]) = e.find n := by
  rw [Node.at_append, h]
  simp only [Option.bind_some, Node.at]
  cases e.find n <;> simp

theorem comps_simple (ds : List Name) (hne : ds ≠ []) (hn : ∀ x ∈ ds, NormalName x) : comps (intercalateSlash ds) = ds := by
  unfold comps
  rw [splitSlash_intercalate ds hne (fun x hx => (hn x hx).2.1)]
  rw [List.filter_eq_self]
  intro x hx
  simp [(hn x hx).1]

theorem comps_simple_slash (ds : List Name) (hne : ds ≠ []) (hn : ∀ x ∈ ds, NormalName x) :
    comps (intercalateSlash ds ++ [47]) = ds := by
  unfold comps
  have : intercalateSlash ds ++ [47] = intercalateSlash ds ++ 47 :: [] := rfl
  rw [this, splitSlash_append_gen, splitSlash_intercalate ds hne (fun x hx => (hn x hx).2.1)]
  simp only [splitSlash, List.filter_append]
  rw [List.filter_eq_self.2 (by intro x hx; simp [(hn x hx).1])]
  simp

theorem simple_no_nul (ds : List Name) (hn : ∀ x ∈ ds, NormalName x) : ∀ (hne : ds ≠ []),
    (intercalateSlash ds).contains 0 = false := by
  induction ds with
  | nil => intro h; exact absurd rfl h
  | cons a rest ih =>
    intro _
    have ha : (0 : UInt8) ∉ a := (hn a (by simp)).2.2.1
    cases rest with
    | nil => simpa [intercalateSlash] using ha
    | cons b rest' =>
      have := ih (fun x hx => hn x (by simp [hx])) (by simp)
      simp only [List.contains_eq_mem, decide_eq_false_iff_not] at this ⊢
      simp only [intercalateSlash, List.mem_append, List.mem_cons, not_or]
      exact ⟨ha, by decide, this⟩

theorem simple_head (ds : List Name) (hne : ds ≠ []) (hn : ∀ x ∈ ds, NormalName x) :
    (intercalateSlash ds).head? ≠ some 47 := by
  rw [intercalateSlash_head ds hne (fun x h => (hn x h).1)]
  cases ds with
  | nil => exact absurd rfl hne
  | cons a rest =>
    simp only [List.head?_cons, Option.bind_some]
    intro e
    exact (hn a (by simp)).2.1 (List.mem_of_mem_head? e)

theorem enter_append (d : Nat) (root : Node) (st : RState) (xs ys : List Name) :
    enter d root st (xs ++ ys) = (enter d root st xs).bind (fun st' => enter d root st' ys) := by
  cases d <;> simp [enter, List.foldlM_append]

/-- entering a real sub-directory -/
theorem enter_dir_child (d : Nat) (root : Node) (st : RState) (e e' : Ents) (n : Name) (hn : NormalName n)
    (hat : root.at st.stack = some (.dir e)) (hc : e.find n = some (.dir e')) :
    enter d root st [n] = some { st with stack := st.stack ++ [n] } := by
  have h1 : root.at (st.stack ++ [n]) = some (.dir e') := by rw [Node.at_dir_child root _ e n hat, hc]
  cases d <;> simp [enter, enterStep, hn.2.2.2.1, hn.2.2.2.2, h1]

/-- `Lstat` of `ds/n`: walk through `ds`, then look `n` up without following it -/
theorem lstat_simple_child (root : Node) (ds : List Name) (n : Name) (hds : ∀ x ∈ ds, NormalName x) (hn : NormalName n)
    (st : RState) (e : Ents) (hent : enter maxSymlinks root rootState ds = some st)
    (hat : root.at st.stack = some (.dir e)) :
    lstat root (intercalateSlash (ds ++ [n])) = e.find n := by
  have hall : ∀ x ∈ ds ++ [n], NormalName x := by
    intro x hx
    rcases List.mem_append.1 hx with h | h
    · exact hds x h
    · simp only [List.mem_singleton] at h; subst h; exact hn
  have hne : ds ++ [n] ≠ [] := by simp
  unfold lstat resolveAt
  have h1 := intercalateSlash_ne_nil _ hne (fun x hx => (hall x hx).1)
  have h2 := simple_no_nul _ hall hne
  have h3 := simple_head _ hne hall
  have h4 := comps_simple _ hne hall
  have h5 := intercalateSlash_last_ne_slash _ hne (fun x hx => ⟨(hall x hx).1, (hall x hx).2.1⟩)
  simp only [h1, if_false, h2, Bool.false_eq_true, h3, h4, List.getLast?_append, List.getLast?_singleton,
    Option.some_or, List.dropLast_concat, hent, h5, hn.2.2.2.1, hn.2.2.2.2, or_self,
    Node.at_dir_child root _ e n hat]
  cases e.find n with
  | none => rfl
  | some node => cases node <;> rfl

/-- `Stat` (and the listing) of `ds/n` when `n` is a real directory -/
theorem stat_simple_dir (root : Node) (ds : List Name) (n : Name) (hds : ∀ x ∈ ds, NormalName x) (hn : NormalName n)
    (st : RState) (e e' : Ents) (hent : enter maxSymlinks root rootState ds = some st)
    (hat : root.at st.stack = some (.dir e)) (hc : e.find n = some (.dir e')) :
    stat root (intercalateSlash (ds ++ [n])) = some (.dir e') := by
  have hall : ∀ x ∈ ds ++ [n], NormalName x := by
    intro x hx
    rcases List.mem_append.1 hx with h | h
    · exact hds x h
    · simp only [List.mem_singleton] at h; subst h; exact hn
  have hne : ds ++ [n] ≠ [] := by simp
  unfold stat resolveAt
  have h1 := intercalateSlash_ne_nil _ hne (fun x hx => (hall x hx).1)
  have h2 := simple_no_nul _ hall hne
  have h3 := simple_head _ hne hall
  have h4 := comps_simple _ hne hall
  have h5 := intercalateSlash_last_ne_slash _ hne (fun x hx => ⟨(hall x hx).1, (hall x hx).2.1⟩)
  simp only [h1, if_false, h2, Bool.false_eq_true, h3, h4, List.getLast?_append, List.getLast?_singleton,
    Option.some_or, List.dropLast_concat, hent, h5, hn.2.2.2.1, hn.2.2.2.2, or_self,
    Node.at_dir_child root _ e n hat, hc]

/-- `Lstat`/`Stat` of `ds/`: walk through all of `ds` -/
theorem resolve_simple_slash (root : Node) (ds : List Name) (hne : ds ≠ []) (hds : ∀ x ∈ ds, NormalName x) (follow : Bool) :
    resolveAt maxSymlinks root rootState (intercalateSlash ds ++ [47]) follow =
      (enter maxSymlinks root rootState ds).bind (fun st => dirNodeAt root st.stack) := by
  unfold resolveAt
  have h1 : intercalateSlash ds ++ [47] ≠ [] := by simp
  have h2 : (intercalateSlash ds ++ [47]).contains 0 = false := by
    have := simple_no_nul ds hds hne
    simp only [List.contains_eq_mem, decide_eq_false_iff_not] at this ⊢
    simp only [List.mem_append, List.mem_singleton, not_or]
    exact ⟨this, by decide⟩
  have h3 : (intercalateSlash ds ++ [47]).head? ≠ some 47 := by
    rw [head?_append_ne' (intercalateSlash_ne_nil ds hne (fun x h => (hds x h).1))]
    exact simple_head ds hne hds
  have h4 := comps_simple_slash ds hne hds
  obtain ⟨init, last, rfl⟩ : ∃ init last, ds = init ++ [last] := ⟨ds.dropLast, ds.getLast hne, (List.dropLast_concat_getLast hne).symm⟩
  simp only [h1, if_false, h2, Bool.false_eq_true, h3, h4, List.getLast?_append, List.getLast?_singleton,
    Option.some_or, List.dropLast_concat, List.getLast?_concat, true_or, if_true,
    enter_append]
  cases enter maxSymlinks root rootState init with
  | none => rfl
  | some st1 =>
    simp only [Option.bind_some]
    cases enter maxSymlinks root st1 [last] <;> rfl

/-! ### the files below a directory -/

theorem Ents.find_size : ∀ (e : Ents) (n : Name) (child : Node), e.find n = some child → child.size ≤ e.size
  | .nil, _, _, h => by simp [Ents.find] at h
  | .cons m nd rest, n, child, h => by
    unfold Ents.find at h
    simp only [Ents.size]
    split at h
    · cases h; omega
    · have := Ents.find_size rest n child h; omega

theorem Node.size_pos : ∀ n : Node, 1 ≤ n.size
  | .file => by simp [Node.size]
  | .link _ => by simp [Node.size]
  | .dir _ => by simp [Node.size]

/-- the relative paths of the non-directories below a node, in the order of a sorted walk
    (fuel: the size of the node suffices) -/
def relFiles : Nat → Node → List (List Name)
  | 0, _ => []
  | f + 1, .dir e => (sortNames e.names).flatMap fun n =>
      match e.find n with
      | some child => (relFiles f child).map (n :: ·)
      | none => []
  | _ + 1, _ => [[]]

/-- `Below node rel leaf`: following the names `rel` from `node` through real directories (no symbolic
    link is followed) ends at `leaf`, which is not a directory – a regular file or a symbolic link. -/
inductive Below : Node → List Name → Node → Prop
  | here (n : Node) : n.isDir = false → Below n [] n
  | step {e : Ents} {name : Name} {child : Node} {rel : List Name} {leaf : Node} :
      e.find name = some child → Below child rel leaf → Below (.dir e) (name :: rel) leaf

theorem relFiles_iff (f : Nat) : ∀ (node : Node), node.size ≤ f → ∀ rel,
    rel ∈ relFiles f node ↔ ∃ leaf, Below node rel leaf := by
  induction f with
  | zero => intro node h; have := node.size_pos; omega
  | succ f ih =>
    intro node hsz rel
    cases node with
    | file =>
      simp only [relFiles, List.mem_singleton]
      constructor
      · intro h; subst h; exact ⟨.file, Below.here _ rfl⟩
      · intro ⟨leaf, h⟩; cases h; rfl
    | link t =>
      simp only [relFiles, List.mem_singleton]
      constructor
      · intro h; subst h; exact ⟨.link t, Below.here _ rfl⟩
      · intro ⟨leaf, h⟩; cases h; rfl
    | dir e =>
      simp only [relFiles, List.mem_flatMap, mem_sortNames]
      simp only [Node.size] at hsz
      constructor
      · intro ⟨n, hn, hr⟩
        cases hf : e.find n with
        | none => simp [hf] at hr
        | some child =>
          simp only [hf, List.mem_map] at hr
          obtain ⟨rel', hr', rfl⟩ := hr
          have := Ents.find_size e n child hf
          obtain ⟨leaf, hb⟩ := (ih child (by omega) rel').1 hr'
          exact ⟨leaf, Below.step hf hb⟩
      · intro ⟨leaf, h⟩
        cases h with
        | here _ hd => simp [Node.isDir] at hd
        | @step _ name child rel' _ hf hb =>
          have := Ents.find_size e name child hf
          refine ⟨name, Ents.find_mem_names e name child hf, ?_⟩
          simp only [hf, List.mem_map]
          exact ⟨rel', (ih child (by omega) rel').2 ⟨leaf, hb⟩, rfl⟩

theorem relFiles_nodup (f : Nat) : ∀ (node : Node), node.WF → (relFiles f node).Nodup := by
  induction f with
  | zero => intro node _; simp [relFiles]
  | succ f ih =>
    intro node hw
    cases node with
    | file => simp [relFiles]
    | link t => simp [relFiles]
    | dir e =>
      simp only [relFiles]
      simp only [Node.WF] at hw
      rw [List.Nodup, List.pairwise_flatMap]
      constructor
      · intro n _
        cases hf : e.find n with
        | none => simp
        | some child =>
          simp only
          exact List.Pairwise.map _ (fun a b hab h => hab (by simpa using h)) (ih child (Ents.find_wf e n child hw hf))
      · have hnd := sortNames_nodup (Ents.names_wf e hw).1
        apply List.Pairwise.imp _ hnd
        intro a b hab x hx1 y hx2 hxy
        subst hxy
        cases hfa : e.find a with
        | none => simp [hfa] at hx1
        | some ca =>
          cases hfb : e.find b with
          | none => simp [hfb] at hx2
          | some cb =>
            simp only [hfa, List.mem_map] at hx1
            simp only [hfb, List.mem_map] at hx2
            obtain ⟨r1, _, rfl⟩ := hx1
            obtain ⟨r2, _, h2⟩ := hx2
            simp only [List.cons.injEq] at h2
            exact hab h2.1.symm

/-! ### `walk` reports exactly those files -/

theorem readDirNames_of_stat (root : Node) (p : Bytes) (e : Ents) (h : stat root p = some (.dir e)) :
    readDirNames root p = some (sortNames e.names) := by
  simp [readDirNames, h]

/-- `walk(path, info, fn)` on a directory reached by the proper names `ds` (through any symbolic links on
    the way), `path` being a spelling of it to which `Join` adds names as expected. -/
theorem walkF_dir (root : Node) (hw : root.WF) : ∀ (f : Nat) (path : Bytes) (ds : List Name) (e : Ents) (st : RState),
    (∀ x ∈ ds, NormalName x) → ds ≠ [] →
    readDirNames root path = some (sortNames e.names) →
    (∀ n, NormalName n → join path n = intercalateSlash (ds ++ [n])) →
    enter maxSymlinks root rootState ds = some st → root.at st.stack = some (.dir e) →
    (Node.dir e).size ≤ f →
    walkF f root path (.dir e) = ((relFiles f (.dir e)).map (fun rel => intercalateSlash (ds ++ rel)), true) := by
  intro f
  induction f with
  | zero => intro path ds e st _ _ _ _ _ _ hsz; simp [Node.size] at hsz
  | succ f ih =>
    intro path ds e st hds hne hread hjoin hent hat hsz
    have hwe : e.WF := by
      have := Node.at_wf _ root _ hw hat
      simpa [Node.WF] using this
    simp only [walkF, hread, relFiles]
    simp only [Node.size] at hsz
    -- the loop over (any part of) the sorted names
    have loop : ∀ ns : List Name, (∀ n ∈ ns, n ∈ e.names) →
        walkNames (fun filename fi => walkF f root filename fi) root path ns =
          ((ns.flatMap fun n => match e.find n with
              | some child => (relFiles f child).map (n :: ·)
              | none => []).map (fun rel => intercalateSlash (ds ++ rel)), true) := by
      intro ns
      induction ns with
      | nil => intro _; rfl
      | cons n ns ihn =>
        intro hns
        have hnm : n ∈ e.names := hns n (by simp)
        have hnn : NormalName n := (Ents.names_wf e hwe).2 n hnm
        obtain ⟨child, hchild⟩ := Ents.mem_names_find e n hnm
        have hcs := Ents.find_size e n child hchild
        have hl : lstat root (intercalateSlash (ds ++ [n])) = some child := by
          rw [lstat_simple_child root ds n hds hnn st e hent hat, hchild]
        -- the recursive call on this entry
        have hrec : walkF f root (intercalateSlash (ds ++ [n])) child =
            ((relFiles f child).map (fun rel => intercalateSlash (ds ++ n :: rel)), true) := by
          cases child with
          | dir e' =>
            have hall : ∀ x ∈ ds ++ [n], NormalName x := by
              intro x hx
              rcases List.mem_append.1 hx with h | h
              · exact hds x h
              · simp only [List.mem_singleton] at h; subst h; exact hnn
            have hst := stat_simple_dir root ds n hds hnn st e e' hent hat hchild
            have := ih (intercalateSlash (ds ++ [n])) (ds ++ [n]) e' { st with stack := st.stack ++ [n] } hall (by simp)
              (readDirNames_of_stat root _ e' hst)
              (fun m hm => join_simple (ds ++ [n]) m (by simp) hall hm)
              (by rw [enter_append, hent]; exact enter_dir_child _ root st e e' n hnn hat hchild)
              (by rw [Node.at_dir_child root _ e n hat, hchild])
              (by omega)
            rw [this]
            simp
          | file =>
            cases f with
            | zero => simp [Node.size] at hcs; omega
            | succ f' => simp [walkF, relFiles]
          | link t =>
            cases f with
            | zero => simp [Node.size] at hcs; omega
            | succ f' => simp [walkF, relFiles]
        simp only [walkNames, hjoin n hnn, hl, hrec, if_true, ihn (fun x hx => hns x (by simp [hx])),
          List.flatMap_cons, hchild, List.map_append, List.map_map]
        rfl
    rw [loop _ (fun n hn => mem_sortNames.1 hn)]

/-! ### the root of the walk: `Stat(p)` says directory ⇒ `Lstat(p/)` is that directory -/

theorem dirNodeAt_eq (root : Node) (stack : List Name) (e : Ents) :
    dirNodeAt root stack = some (.dir e) ↔ root.at stack = some (.dir e) := by
  unfold dirNodeAt
  split
  · rename_i e' he; rw [he]
  · rename_i hne
    constructor
    · intro h; cases h
    · intro h; exact absurd h (hne e)

/-- Resolving a path with `Stat` to a directory is the same as walking through ALL its components as
    directories (which is what a trailing `/` asks for). -/
theorem resolve_dir_enter (root : Node) : ∀ (d : Nat) (st : RState) (t : Bytes) (e : Ents),
    resolveAt d root st t true = some (.dir e) →
    t ≠ [] ∧ (enter d root (if t.head? = some 47 then { st with stack := [] } else st) (comps t)).bind
      (fun st' => dirNodeAt root st'.stack) = some (.dir e) := by
  intro d
  induction d with
  | zero =>
    intro st t e h
    unfold resolveAt at h
    by_cases ht : t = []
    · simp [ht] at h
    · refine ⟨ht, ?_⟩
      simp only [ht, if_false] at h
      split at h
      · cases h
      · cases hg : (comps t).getLast? with
        | none =>
          have : comps t = [] := List.getLast?_eq_none_iff.1 hg
          simp only [hg] at h
          simp [this, enter, h]
        | some last =>
          simp only [hg] at h
          have hsplit : comps t = (comps t).dropLast ++ [last] := by
            have hne : comps t ≠ [] := by intro e0; rw [e0] at hg; simp at hg
            have := List.dropLast_concat_getLast hne
            rw [List.getLast?_eq_some_getLast hne] at hg
            simp only [Option.some.injEq] at hg
            rw [hg] at this
            exact this.symm
          rw [hsplit, enter_append]
          cases he : enter 0 root (if t.head? = some 47 then { st with stack := [] } else st) (comps t).dropLast with
          | none => simp [he] at h
          | some st1 =>
            simp only [he, Option.bind_some] at h ⊢
            split at h
            · cases hx : enter _ root st1 [last] with
              | none => simp [hx] at h
              | some st2 => simpa [hx] using h
            · rename_i hcond
              simp only [not_or] at hcond
              cases hat : root.at (st1.stack ++ [last]) with
              | none => simp [hat] at h
              | some node =>
                cases node with
                | link t' => simp [hat] at h
                | file => simp [hat] at h
                | dir e' =>
                  simp only [hat, Option.some.injEq, Node.dir.injEq] at h
                  subst h
                  simp [enter, enterStep, hcond.2.1, hcond.2.2, hat, dirNodeAt]
  | succ d ih =>
    intro st t e h
    unfold resolveAt at h
    by_cases ht : t = []
    · simp [ht] at h
    · refine ⟨ht, ?_⟩
      simp only [ht, if_false] at h
      split at h
      · cases h
      · cases hg : (comps t).getLast? with
        | none =>
          have : comps t = [] := List.getLast?_eq_none_iff.1 hg
          simp only [hg] at h
          simp [this, enter, h]
        | some last =>
          simp only [hg] at h
          have hsplit : comps t = (comps t).dropLast ++ [last] := by
            have hne : comps t ≠ [] := by intro e0; rw [e0] at hg; simp at hg
            have := List.dropLast_concat_getLast hne
            rw [List.getLast?_eq_some_getLast hne] at hg
            simp only [Option.some.injEq] at hg
            rw [hg] at this
            exact this.symm
          rw [hsplit, enter_append]
          cases he : enter (d + 1) root (if t.head? = some 47 then { st with stack := [] } else st) (comps t).dropLast with
          | none => simp [he] at h
          | some st1 =>
            simp only [he, Option.bind_some] at h ⊢
            split at h
            · cases hx : enter _ root st1 [last] with
              | none => simp [hx] at h
              | some st2 => simpa [hx] using h
            · rename_i hcond
              simp only [not_or] at hcond
              cases hat : root.at (st1.stack ++ [last]) with
              | none => simp [hat] at h
              | some node =>
                cases node with
                | file => simp [hat] at h
                | dir e' =>
                  simp only [hat, Option.some.injEq, Node.dir.injEq] at h
                  subst h
                  simp [enter, enterStep, hcond.2.1, hcond.2.2, hat, dirNodeAt]
                | link t' =>
                  simp only [hat, if_true] at h
                  by_cases hl : st1.links ≥ maxSymlinks
                  · simp [hl] at h
                  · simp only [hl, if_false] at h
                    obtain ⟨ht', hb⟩ := ih _ t' e h
                    simp only [enter, List.foldlM_cons, List.foldlM_nil, enterStep, hcond.2.1, hcond.2.2, if_false, hat,
                      hl, ht']
                    have hst : (if t'.head? = some 47 then ({ stack := [], links := st1.links + 1 } : RState)
                        else { stack := st1.stack, links := st1.links + 1 }) =
                        { stack := if t'.head? = some 47 then [] else st1.stack, links := st1.links + 1 } := by
                      split <;> rfl
                    simp only [hst] at hb
                    simpa using hb

/-- The root of rare's recursive walk: when `isDir(p)` holds, `Lstat(p + "/")` is the directory `Stat(p)` saw. -/
theorem walkRoot_dir (root : Node) (ds : List Name) (hne : ds ≠ []) (hds : ∀ x ∈ ds, NormalName x) (e : Ents)
    (h : stat root (intercalateSlash ds) = some (.dir e)) :
    lstat root (walkRoot (intercalateSlash ds)) = some (.dir e) ∧
    stat root (walkRoot (intercalateSlash ds)) = some (.dir e) ∧
    walkRoot (intercalateSlash ds) = intercalateSlash ds ++ [47] ∧
    ∃ st, enter maxSymlinks root rootState ds = some st ∧ root.at st.stack = some (.dir e) := by
  have hp := intercalateSlash_ne_nil ds hne (fun x hx => (hds x hx).1)
  have hlast := intercalateSlash_last_ne_slash ds hne (fun x hx => ⟨(hds x hx).1, (hds x hx).2.1⟩)
  have hwr : walkRoot (intercalateSlash ds) = intercalateSlash ds ++ [47] := by
    simp [walkRoot, hp, hlast]
  obtain ⟨_, hb⟩ := resolve_dir_enter root _ _ _ e h
  have hhead := simple_head ds hne hds
  simp only [hhead, if_false, comps_simple ds hne hds] at hb
  rw [hwr]
  refine ⟨by rw [lstat, resolve_simple_slash root ds hne hds]; exact hb,
    by rw [stat, resolve_simple_slash root ds hne hds]; exact hb, rfl, ?_⟩
  cases he : enter maxSymlinks root rootState ds with
  | none => simp [he] at hb
  | some st =>
    simp only [he, Option.bind_some] at hb
    exact ⟨st, rfl, (dirNodeAt_eq root _ e).1 hb⟩

theorem Node.at_size : ∀ (stack : List Name) (root node : Node), root.at stack = some node → node.size ≤ root.size
  | [], root, node, h => by simp only [Node.at, Option.some.injEq] at h; subst h; exact Nat.le_refl _
  | c :: cs, root, node, h => by
    cases root with
    | file => simp [Node.at] at h
    | link t => simp [Node.at] at h
    | dir e =>
      simp only [Node.at] at h
      cases hf : e.find c with
      | none => simp [hf] at h
      | some child =>
        simp only [hf] at h
        have h1 := Node.at_size cs child node h
        have h2 := Ents.find_size e c child hf
        simp only [Node.size]; omega

theorem Below.normal {node leaf : Node} {rel : List Name} (h : Below node rel leaf) (hw : node.WF) :
    ∀ x ∈ rel, NormalName x := by
  induction h with
  | here => simp
  | @step e name child rel leaf hf _ ih =>
    simp only [Node.WF] at hw
    intro x hx
    simp only [List.mem_cons] at hx
    rcases hx with rfl | hx
    · exact (Ents.names_wf e hw).2 _ (Ents.find_mem_names e _ child hf)
    · exact ih (Ents.find_wf e name child hw hf) x hx

/-- **The recursive walk.**  For a directory argument `p` made of proper names (symbolic links on the way and
    at the end are followed): what `filepath.Walk(walkRoot(p))` sends is the list of `p/rel` for the relative
    paths `rel` of the non-directories below the directory, in sorted walk order. -/
theorem walk_simple (root : Node) (hw : root.WF) (ds : List Name) (hne : ds ≠ []) (hds : ∀ x ∈ ds, NormalName x)
    (e : Ents) (h : stat root (intercalateSlash ds) = some (.dir e)) :
    walk root (walkRoot (intercalateSlash ds)) =
      (relFiles (root.size + 2) (.dir e)).map (fun rel => intercalateSlash (ds ++ rel)) := by
  obtain ⟨hl, hs, hwr, st, hent, hat⟩ := walkRoot_dir root ds hne hds e h
  unfold walk
  rw [hl]
  simp only
  have hsz := Node.at_size _ root _ hat
  rw [walkF_dir root hw (root.size + 2) _ ds e st hds hne (readDirNames_of_stat root _ e hs)
    (by intro n hn; rw [hwr]; exact join_simple_slash ds n hne hds hn) hent hat (by omega)]

end Rare.C06.Glob
