import Rare.Proofs.C15Notify
/-!
C15 – the inductive invariant of the polling transition system and its consequences.
-/
namespace Rare.Follow
open Rare.C15.Spec

variable {β : Type}

/-- Inductive invariant of the polling system. -/
structure PInv (cfg : PCfg) (ex : Bool) (st0 : Nat) (s : PSt β) : Prop where
  core : Core s.fs s.f s.hist s.delivered
  /-- the descriptor's offset is `readBytes` -/
  rb : ∀ h, s.f = some h → h.pos = s.readBytes
  ended : s.rd = .ended → cfg.reopen = false ∧ (ex = true → 0 < s.removes)
  inPlace : ex = true → s.removes = 0 → s.hist = [] ∧ s.fs.path = some 0 ∧ s.f = some ⟨0, st0, s.readBytes⟩ ∧
      s.readBytes ≤ (s.fs.content 0).length ∧ ∀ sz, s.rd = .opening sz → s.readBytes ≤ sz
  starts : s.skips = 0 → ∀ h ∈ s.hist ++ s.f.toList, h.start = 0 ∨ (h.ino = 0 ∧ h.start = st0)
  att : ∀ i, s.rd = .attempt i → i ≤ cfg.attempts
  noOpenPlain : cfg.reopen = false → ∀ sz, s.rd ≠ .opening sz

theorem pinv_init (cfg : PCfg) (c0 : Option (List β)) (tail : Bool) :
    PInv cfg c0.isSome (start0 c0 tail) (pinit c0 tail) := by
  cases c0 with
  | none =>
    refine ⟨⟨by simp [pinit, segments], by simp [pinit], by simp [pinit]⟩, by simp [pinit], by simp [pinit],
      by simp, by simp [pinit], by simp [pinit], by simp [pinit]⟩
  | some c =>
    refine ⟨⟨by simp [pinit, segments, extract], ?_, by simp [pinit]⟩, ?_, by simp [pinit], ?_,
      by simp [pinit, start0], by simp [pinit], by simp [pinit]⟩
    · intro h hh; simp [pinit] at hh; subst hh; simp [pinit]
    · intro h hh; simp [pinit] at hh; subst hh; simp [pinit]
    · intro _ _; simp [pinit, start0]; split <;> simp

variable {cfg : PCfg} {ex : Bool} {st0 : Nat}

theorem pinv_writer {s s' : PSt β} (h : PInv cfg ex st0 s) (hs : PStep cfg .writer s s') :
    PInv cfg ex st0 s' := by
  cases hs with
  | append _ i bs hp hbs =>
    refine ⟨h.core.append i bs, h.rb, h.ended, ?_, h.starts, h.att, h.noOpenPlain⟩
    intro he hr
    obtain ⟨h1, h2, h3, h4, h5⟩ := h.inPlace he hr
    exact ⟨h1, h2, h3, Nat.le_trans h4 (len_append_ge _ _ _ _), h5⟩
  | remove _ i hp =>
    refine ⟨h.core.remove, h.rb, ?_, ?_, h.starts, h.att, h.noOpenPlain⟩
    · intro hr; exact ⟨(h.ended hr).1, fun _ => Nat.succ_pos _⟩
    · intro _ hr; simp at hr
  | create _ hp =>
    refine ⟨h.core.create, h.rb, h.ended, ?_, h.starts, h.att, h.noOpenPlain⟩
    intro he hr
    have := (h.inPlace he hr).2.1
    rw [hp] at this; cases this

theorem merges_true {s : PSt β} {sz : Nat} (hm : merges s sz = true) :
    ∃ x, s.f = some x ∧ s.fs.path = some x.ino ∧ s.readBytes ≤ sz ∧ x.pos = s.readBytes := by
  simp only [merges] at hm
  cases hf : s.f with
  | none => simp [hf] at hm
  | some x =>
    cases hp : s.fs.path with
    | none => simp [hf, hp] at hm
    | some j =>
      simp only [hf, hp, Bool.and_eq_true, beq_iff_eq, decide_eq_true_eq] at hm
      exact ⟨x, rfl, by rw [hm.1.1], hm.1.2, hm.2⟩

theorem pinv_reader {s s' : PSt β} (h : PInv cfg ex st0 s) (hs : PStep cfg .reader s s') :
    PInv cfg ex st0 s' := by
  cases hs with
  | readSome _ x i n hrd hi hf h1 hn =>
    have hc : Core s.fs (some x) s.hist s.delivered := by have := h.core; rwa [hf] at this
    have hxm : x ∈ s.hist ++ s.f.toList := by simp [hf]
    have hrb := h.rb x hf
    refine ⟨hc.read n hn h1, ?_, by simp, ?_, ?_, ?_, ?_⟩
    · intro y hy; simp only [Option.some.injEq] at hy; subst hy; simp [hrb]
    · intro he hr
      obtain ⟨h1', h2, h3, h4, _⟩ := h.inPlace he hr
      rw [hf] at h3; simp only [Option.some.injEq] at h3; subst h3
      simp only [unread, List.length_drop] at hn
      refine ⟨h1', h2, rfl, ?_, by simp⟩
      show s.readBytes + n ≤ (s.fs.content 0).length
      omega
    · intro hsk y hy
      have hy' : y ∈ s.hist ∨ y = { x with pos := x.pos + n } := by simpa using hy
      rcases hy' with hy' | rfl
      · exact h.starts hsk y (by simp [hy'])
      · exact h.starts hsk x hxm
    · intro j hj; simp only [PRd.attempt.injEq] at hj; omega
    · intro hr sz; simp
  | readEmpty _ x i hrd hi hf hu =>
    refine ⟨h.core, h.rb, by simp, ?_, h.starts, ?_, by intro _ sz; simp⟩
    · intro he hr
      obtain ⟨h1, h2, h3, h4, _⟩ := h.inPlace he hr
      exact ⟨h1, h2, h3, h4, by simp⟩
    · intro j hj; simp only [PRd.attempt.injEq] at hj; omega
  | loopDone _ x hrd hf =>
    refine ⟨h.core, h.rb, by simp, ?_, h.starts, by simp, by intro _ sz; simp⟩
    intro he hr
    obtain ⟨h1, h2, h3, h4, _⟩ := h.inPlace he hr
    exact ⟨h1, h2, h3, h4, by simp⟩
  | nilSleep _ i hrd hf =>
    refine ⟨h.core, h.rb, by simp, ?_, h.starts, by simp, by intro _ sz; simp⟩
    intro he hr
    obtain ⟨h1, h2, h3, h4, _⟩ := h.inPlace he hr
    exact ⟨h1, h2, h3, h4, by simp⟩
  | statGone _ hrd hre hp =>
    refine ⟨h.core.closeOpt, by simp, ?_, ?_, ?_, by simp, by intro _ sz; simp⟩
    · intro _
      refine ⟨hre, fun he => ?_⟩
      cases hr : s.removes with
      | zero => have := (h.inPlace he hr).2.1; rw [hp] at this; cases this
      | succ k => exact Nat.succ_pos _
    · intro he hr
      have := (h.inPlace he hr).2.1; rw [hp] at this; cases this
    · intro hsk y hy; exact h.starts hsk y (by simpa [PSt.pushOld] using hy)
  | statThere _ j hrd hre hp =>
    refine ⟨h.core, h.rb, by simp, ?_, h.starts, by simp, by intro _ sz; simp⟩
    intro he hr
    obtain ⟨h1, h2, h3, h4, _⟩ := h.inPlace he hr
    exact ⟨h1, h2, h3, h4, by simp⟩
  | statNil _ hrd hre hp =>
    refine ⟨h.core, h.rb, by simp, ?_, h.starts, by simp, by intro _ sz; simp⟩
    intro he hr
    obtain ⟨h1, h2, h3, h4, _⟩ := h.inPlace he hr
    exact ⟨h1, h2, h3, h4, by simp⟩
  | statSame _ j hrd hre hp hsz =>
    refine ⟨h.core, h.rb, by simp, ?_, h.starts, by simp, by intro _ sz; simp⟩
    intro he hr
    obtain ⟨h1, h2, h3, h4, _⟩ := h.inPlace he hr
    exact ⟨h1, h2, h3, h4, by simp⟩
  | statDiff _ j hrd hre hp hsz =>
    refine ⟨h.core, h.rb, by simp, ?_, h.starts, by simp, by intro hr; rw [hre] at hr; cases hr⟩
    intro he hr
    obtain ⟨h1, h2, h3, h4, _⟩ := h.inPlace he hr
    refine ⟨h1, h2, h3, h4, ?_⟩
    intro sz hsz'
    simp only [PRd.opening.injEq] at hsz'
    have hj : s.fs.path = some j := hp
    rw [h2] at hj; simp only [Option.some.injEq] at hj
    subst hj
    show s.readBytes ≤ sz
    rw [← hsz']; exact h4
  | reopen _ sz hrd =>
    by_cases hm : merges s sz = true
    · have heq : openStep s sz = { s with rd := .attempt 0 } := by simp only [openStep]; rw [if_pos hm]
      rw [heq]
      refine ⟨h.core, h.rb, by simp, ?_, h.starts, by simp, by intro _ sz; simp⟩
      intro he hr
      obtain ⟨h1, h2, h3, h4, _⟩ := h.inPlace he hr
      exact ⟨h1, h2, h3, h4, by simp⟩
    · have heq : openStep s sz = openNew s sz := by simp only [openStep]; rw [if_neg hm]
      rw [heq]
      simp only [openNew]
      have hc : Core s.fs none (s.hist ++ s.f.toList) s.delivered := h.core.closeOpt
      refine ⟨hc.openAt _, ?_, by simp, ?_, ?_, by simp, by intro _ sz; simp⟩
      · intro y hy; exact (openAt_some _ _ _ hy).2.2
      · intro he hr
        exfalso
        obtain ⟨h1, h2, h3, h4, h5⟩ := h.inPlace he hr
        apply hm
        simp [merges, h3, h2, h5 sz hrd]
      · intro hsk y hy
        simp only at hsk
        have hnoskip : ¬ (s.readBytes ≤ sz ∧ 0 < s.readBytes ∧ s.fs.path.isSome = true) := by
          intro hc'; rw [if_pos hc'] at hsk; omega
        rw [if_neg hnoskip] at hsk
        have hy' : y ∈ s.hist ++ s.f.toList ∨ y ∈ (openAt s.fs (if s.readBytes ≤ sz then s.readBytes else 0)).toList := by
          simp only [PSt.pushOld] at hy
          exact List.mem_append.mp hy
        rcases hy' with hy' | hy'
        · exact h.starts hsk y hy'
        · have ho := openAt_some _ _ _ (by simpa using hy')
          left
          rw [ho.2.1]
          by_cases hle : s.readBytes ≤ sz
          · rw [if_pos hle]
            have : ¬ (0 < s.readBytes) := by
              intro hpos; exact hnoskip ⟨hle, hpos, by rw [ho.1]; rfl⟩
            omega
          · rw [if_neg hle]

theorem pinv_step {w : Who} {s s' : PSt β} (h : PInv cfg ex st0 s) (hs : PStep cfg w s s') : PInv cfg ex st0 s' := by
  cases w with
  | writer => exact pinv_writer h hs
  | kernel => cases hs
  | reader => exact pinv_reader h hs

theorem pinv_reach (c0 : Option (List β)) (tail : Bool) {s : PSt β}
    (hr : PReach cfg (pinit c0 tail) s) : PInv cfg c0.isSome (start0 c0 tail) s := by
  induction hr with
  | refl => exact pinv_init cfg c0 tail
  | step _ hs ih => exact pinv_step ih hs

end Rare.Follow
