import Rare.Model.C19
/-!
Helper lemmas for C19: simplification is invisible, `opCodeOrder` against `level`, and the
precedence-climbing invariant (`climb_post`) from which `parse_wellprec` follows.
-/
namespace Rare.C19

variable {α : Type} (A : Arith α)

/-! ### simplify -/

theorem probe_eval (e : Expr α) (h : (e.probe A).2 = 0) (b : Binding α) :
    e.eval A b = (e.probe A).1 := by
  induction e with
  | val v => rfl
  | named n => simp [Expr.probe] at h
  | idx i => simp [Expr.probe] at h
  | un m e ih =>
    simp only [Expr.probe] at h ⊢
    simp only [Expr.eval, ih h]
  | bin op l r ihl ihr =>
    simp only [Expr.probe] at h ⊢
    have h1 : (l.probe A).2 = 0 := by omega
    have h2 : (r.probe A).2 = 0 := by omega
    simp only [Expr.eval, ihl h1, ihr h2]

theorem simplify_eval (e : Expr α) (b : Binding α) : (simplify A e).eval A b = e.eval A b := by
  unfold simplify
  by_cases h : (e.probe A).2 = 0
  · simp only [h, if_true, Expr.eval]
    exact (probe_eval A e h b).symm
  · simp only [h, if_false]

/-! ### opCodeOrder and levels -/

theorem level_cons_hit {set : List Bytes} {rest : List (List Bytes)} {a : Bytes}
    (h : set.contains a = true) : level (set :: rest) a = some 0 := by
  simp only [level, h, if_true]

theorem level_cons_miss {set : List Bytes} {rest : List (List Bytes)} {a : Bytes}
    (h : set.contains a = false) : level (set :: rest) a = (level rest a).map (· + 1) := by
  simp only [level, h, Bool.false_eq_true, if_false]

theorem order_cons (set : List Bytes) (rest : List (List Bytes)) (a b : Bytes) :
    opCodeOrderGo (set :: rest) a b =
      if set.contains a = true ∧ set.contains b = true then .ok 0
      else if set.contains a = true then .ok (-1)
      else if set.contains b = true then .ok 1
      else opCodeOrderGo rest a b := by
  simp only [opCodeOrderGo]
  cases set.contains a <;> cases set.contains b <;> rfl

theorem order_one {t : List (List Bytes)} {a b : Bytes} (h : opCodeOrderGo t a b = .ok 1) :
    ∃ lb, level t b = some lb ∧ ∀ la, level t a = some la → lb < la := by
  induction t with
  | nil => simp [opCodeOrderGo] at h
  | cons set rest ih =>
    rw [order_cons] at h
    cases h0 : set.contains a <;> cases h1 : set.contains b <;>
      simp only [h0, h1, Bool.false_eq_true, false_and, and_false, and_self, if_true, if_false] at h
    · obtain ⟨lb, hlb, hlt⟩ := ih h
      refine ⟨lb + 1, by rw [level_cons_miss h1, hlb]; rfl, ?_⟩
      intro la hla
      rw [level_cons_miss h0] at hla
      cases hr : level rest a with
      | none => rw [hr] at hla; cases hla
      | some x =>
        rw [hr] at hla
        have := hlt x hr
        simp only [Option.map_some, Option.some.injEq] at hla
        omega
    · refine ⟨0, level_cons_hit h1, ?_⟩
      intro la hla
      rw [level_cons_miss h0] at hla
      cases hr : level rest a with
      | none => rw [hr] at hla; cases hla
      | some x =>
        rw [hr] at hla
        simp only [Option.map_some, Option.some.injEq] at hla
        omega
    · cases h
    · cases h

theorem order_not_one {t : List (List Bytes)} {a b : Bytes} {r : Int}
    (h : opCodeOrderGo t a b = .ok r) (hr : r ≠ 1) :
    ∃ la, level t a = some la ∧ ∀ lb, level t b = some lb → la ≤ lb := by
  induction t with
  | nil => simp [opCodeOrderGo] at h
  | cons set rest ih =>
    rw [order_cons] at h
    cases h0 : set.contains a <;> cases h1 : set.contains b <;>
      simp only [h0, h1, Bool.false_eq_true, false_and, and_false, and_self, if_true, if_false] at h
    · obtain ⟨la, hla, hle⟩ := ih h
      refine ⟨la + 1, by rw [level_cons_miss h0, hla]; rfl, ?_⟩
      intro lb hlb
      rw [level_cons_miss h1] at hlb
      cases hrb : level rest b with
      | none => rw [hrb] at hlb; cases hlb
      | some x =>
        rw [hrb] at hlb
        have := hle x hrb
        simp only [Option.map_some, Option.some.injEq] at hlb
        omega
    · injection h with h; exact absurd h.symm hr
    · exact ⟨0, level_cons_hit h0, fun lb _ => Nat.zero_le _⟩
    · exact ⟨0, level_cons_hit h0, fun lb _ => Nat.zero_le _⟩

theorem order_total {t : List (List Bytes)} {a b : Bytes} {lb : Nat} (h : level t b = some lb) :
    ∃ r, opCodeOrderGo t a b = .ok r := by
  induction t generalizing lb with
  | nil => simp [level] at h
  | cons set rest ih =>
    rw [order_cons]
    cases h0 : set.contains a <;> cases h1 : set.contains b <;>
      simp only [Bool.false_eq_true, false_and, and_false, and_self, if_true, if_false]
    · rw [level_cons_miss h1] at h
      cases hr : level rest b with
      | none => rw [hr] at h; cases h
      | some x => exact ih hr
    · exact ⟨_, rfl⟩
    · exact ⟨_, rfl⟩
    · exact ⟨_, rfl⟩

/-! ### The parser builds well-precedenced parse trees -/

/-- The tokenizer as a partial function. -/
def tok (s : Bytes) : Option (List Token) :=
  match tokenize s with
  | .ok l => some l
  | .error _ => none

/-- What every compiled (sub-)formula satisfies: its ghost tree is a common-order parse, groups
    are parses of their own text, and the (simplified) Go expression evaluates like the tree. -/
structure Good (t : Tree) (e : Expr α) : Prop where
  wp : WellPrec orderOfOps t
  deep : Deep tok t
  lits : t.allLits (fun v => (classify A v).isSome) = true
  ev : ∀ b, e.eval A b = t.eval A (classify A) b

/-- Hypothesis on the group compiler. -/
def Hcg (cg : Bytes → Except Err (Parsed α)) : Prop :=
  ∀ s t e, cg s = .ok (t, e) → tok s = some t.flatten ∧ Good A t e

theorem ofAtom_eval (a : Atom α) (b : Binding α) : (Expr.ofAtom a).eval A b = a.eval b := by
  cases a <;> rfl

theorem getNextExpr_post {cg : Bytes → Except Err (Parsed α)} (hcg : Hcg A cg) :
    ∀ (toks : List Token) (t : Tree) (e : Expr α) (rest : List Token),
      getNextExpr A cg toks = .ok ((t, e), rest) →
      t.isAtom = true ∧ toks = t.flatten ++ rest ∧ Good A t e := by
  intro toks
  induction toks with
  | nil => intro t e rest h; simp [getNextExpr] at h
  | cons tk tl ih =>
    intro t e rest h
    obtain ⟨val, ty⟩ := tk
    cases ty with
    | lit =>
      simp only [getNextExpr] at h
      cases hc : classifyE A val with
      | error err => rw [hc] at h; cases h
      | ok a =>
        rw [hc] at h
        injection h with h
        injection h with h1 h2
        injection h1 with ht he
        subst ht; subst he; subst h2
        refine ⟨rfl, rfl, ⟨WellPrec.lit _, Deep.lit _, by simp only [Tree.allLits, classify, hc]; rfl, ?_⟩⟩
        intro b
        simp only [Tree.eval, classify, hc, ofAtom_eval]
    | group =>
      simp only [getNextExpr] at h
      cases hc : cg val with
      | error err => rw [hc] at h; cases h
      | ok r =>
        obtain ⟨t0, e0⟩ := r
        rw [hc] at h
        injection h with h
        injection h with h1 h2
        injection h1 with ht he
        subst ht; subst he; subst h2
        obtain ⟨htok, g⟩ := hcg _ _ _ hc
        exact ⟨rfl, rfl, ⟨WellPrec.grp _ _ g.wp, Deep.grp _ _ htok g.deep, g.lits, fun b => g.ev b⟩⟩
    | mod =>
      simp only [getNextExpr] at h
      cases hc : getNextExpr A cg tl with
      | error err => rw [hc] at h; cases h
      | ok r =>
        obtain ⟨⟨t0, e0⟩, rest0⟩ := r
        rw [hc] at h
        injection h with h
        injection h with h1 h2
        injection h1 with ht he
        subst ht; subst he; subst h2
        obtain ⟨hat, hfl, g⟩ := ih _ _ _ hc
        refine ⟨rfl, ?_, ⟨WellPrec.un _ _ hat g.wp, Deep.un _ _ g.deep, g.lits, ?_⟩⟩
        · simp only [Tree.flatten, List.cons_append, hfl]
        · intro b; simp only [Expr.eval, Tree.eval, g.ev b]
    | op => simp [getNextExpr] at h

/-- Level of the operator the loop would see next. -/
def headLvl (toks : List Token) : Option Nat :=
  match toks with
  | [] => none
  | tk :: _ =>
    match getNextOp tk with
    | .ok (op, _) => level orderOfOps op
    | .error _ => none

/-- What one run of the loop of `compileTokens(last)` establishes. -/
structure Post (last : Bytes) (t : Tree) (toks : List Token) (t' : Tree) (e' : Expr α)
    (rest' : List Token) : Prop where
  flat : t.flatten ++ toks = t'.flatten ++ rest'
  good : Good A t' e'
  stop : rest' = [] ∨ ∃ la, level orderOfOps last = some la ∧ ∀ x, headLvl rest' = some x → la ≤ x
  root : ∀ x, t'.rootLvl orderOfOps = some x →
    t.rootLvl orderOfOps = some x ∨ ∀ l, level orderOfOps last = some l → x < l
  swg : t'.startsWithGroup = t.startsWithGroup
  len : rest'.length ≤ toks.length

theorem atom_rootLvl {t : Tree} (h : t.isAtom = true) : t.rootLvl orderOfOps = none := by
  cases t <;> simp_all [Tree.isAtom, Tree.rootLvl]

theorem getNextOp_ok {tk : Token} {op : Bytes} {c : Bool} (h : getNextOp tk = .ok (op, c)) :
    (c = true ∧ tk = ⟨op, .op⟩) ∨ (c = false ∧ op = starOp ∧ tk.t = .group) := by
  obtain ⟨val, ty⟩ := tk
  cases ty <;> simp only [getNextOp] at h
  · cases h
  · injection h with h; injection h with h1 h2; exact Or.inr ⟨h2.symm, h1.symm, rfl⟩
  · split at h
    · injection h with h; injection h with h1 h2; subst h1; exact Or.inl ⟨h2.symm, rfl⟩
    · cases h
  · cases h

theorem climb_post {cg : Bytes → Except Err (Parsed α)} (hcg : Hcg A cg) :
    ∀ (f : Nat) (last : Bytes) (t : Tree) (e : Expr α) (toks : List Token)
      (t' : Tree) (e' : Expr α) (rest' : List Token),
      climb A cg f last (t, e) toks = .ok ((t', e'), rest') →
      Good A t e →
      (∀ tl x, t.rootLvl orderOfOps = some tl → headLvl toks = some x → tl ≤ x) →
      Post A last t toks t' e' rest' := by
  intro f
  induction f with
  | zero => intro last t e toks t' e' rest' h; simp [climb] at h
  | succ f ih =>
    intro last t e toks t' e' rest' h g hpre
    cases toks with
    | nil =>
      simp only [climb] at h
      injection h with h
      injection h with h1 h2
      injection h1 with ht he
      subst ht; subst he; subst h2
      exact ⟨rfl, ⟨g.wp, g.deep, g.lits, fun b => by rw [simplify_eval]; exact g.ev b⟩, Or.inl rfl,
        fun x hx => Or.inl hx, rfl, Nat.le_refl _⟩
    | cons tk rest =>
      simp only [climb] at h
      cases hop : getNextOp tk with
      | error err => rw [hop] at h; cases h
      | ok oc =>
        obtain ⟨op, c⟩ := oc
        rw [hop] at h
        simp only at h
        have hhead : headLvl (tk :: rest) = level orderOfOps op := by
          simp only [headLvl, hop]
        cases hord : opCodeOrder last op with
        | error err => rw [hord] at h; cases h
        | ok ord =>
          rw [hord] at h
          simp only at h
          by_cases h1 : ord = 1
          · subst h1
            simp only [if_true] at h
            obtain ⟨lop, hlop, hlt⟩ := order_one hord
            cases hne : getNextExpr A cg (if c = true then rest else tk :: rest) with
            | error err => rw [hne] at h; cases h
            | ok r1 =>
              obtain ⟨⟨t1, e1⟩, toks1⟩ := r1
              rw [hne] at h
              simp only at h
              obtain ⟨hat1, hfl1, g1⟩ := getNextExpr_post A hcg _ _ _ _ hne
              cases hc1 : climb A cg f op (t1, e1) toks1 with
              | error err => rw [hc1] at h; cases h
              | ok r2 =>
                obtain ⟨⟨t2, e2⟩, toks2⟩ := r2
                rw [hc1] at h
                simp only at h
                have p1 := ih op t1 e1 toks1 t2 e2 toks2 hc1 g1
                  (by intro tl x htl; rw [atom_rootLvl hat1] at htl; cases htl)
                -- the new accumulated operand
                have hroot2 : ∀ x, t2.rootLvl orderOfOps = some x → x < lop := by
                  intro x hx
                  rcases p1.root x hx with h' | h'
                  · rw [atom_rootLvl hat1] at h'; cases h'
                  · exact h' lop hlop
                have himp : (!c) = true → op = starOp ∧ t2.startsWithGroup = true := by
                  intro hc
                  rcases getNextOp_ok hop with ⟨hc', _⟩ | ⟨_, hstar, hgrp⟩
                  · rw [hc'] at hc; cases hc
                  · refine ⟨hstar, ?_⟩
                    rw [p1.swg]
                    -- the first operand starts with the group token
                    have hc0 : c = false := by cases c <;> simp_all
                    rw [hc0] at hne
                    simp only [Bool.false_eq_true, if_false] at hne
                    obtain ⟨val, ty⟩ := tk
                    simp only at hgrp
                    subst hgrp
                    simp only [getNextExpr] at hne
                    cases hcgv : cg val with
                    | error err => rw [hcgv] at hne; cases hne
                    | ok r =>
                      obtain ⟨tg, eg⟩ := r
                      rw [hcgv] at hne
                      injection hne with hne
                      injection hne with ha hb
                      injection ha with ha1 ha2
                      rw [← ha1]; rfl
                have gbin : Good A (Tree.bin (!c) op t t2) (Expr.bin op (simplify A e) (simplify A e2)) := by
                  refine ⟨WellPrec.bin _ _ _ _ lop g.wp p1.good.wp hlop ?_ hroot2 himp,
                    Deep.bin _ _ _ _ g.deep p1.good.deep,
                    by simp only [Tree.allLits, g.lits, p1.good.lits, Bool.and_self], ?_⟩
                  · intro x hx
                    exact hpre x lop hx (by rw [hhead]; exact hlop)
                  · intro b
                    simp only [Expr.eval, Tree.eval, simplify_eval, g.ev b, p1.good.ev b]
                have p2 := ih last (Tree.bin (!c) op t t2) _ toks2 t' e' rest' h gbin
                  (by
                    intro tl x htl hx
                    simp only [Tree.rootLvl] at htl
                    rw [hlop] at htl
                    injection htl with htl
                    subst htl
                    rcases p1.stop with hnil | ⟨la, hla, hle⟩
                    · rw [hnil] at hx; cases hx
                    · rw [hlop] at hla
                      injection hla with hla
                      subst hla
                      exact hle x hx)
                refine ⟨?_, p2.good, p2.stop, ?_, ?_, ?_⟩
                · -- flatten
                  rw [← p2.flat]
                  simp only [Tree.flatten, List.append_assoc]
                  congr 1
                  rw [← p1.flat, ← hfl1]
                  rcases getNextOp_ok hop with ⟨hc', htk⟩ | ⟨hc', _, _⟩
                  · subst hc'; subst htk; simp
                  · subst hc'; simp
                · intro x hx
                  rcases p2.root x hx with h' | h'
                  · simp only [Tree.rootLvl] at h'
                    rw [hlop] at h'
                    injection h' with h'
                    subst h'
                    exact Or.inr hlt
                  · exact Or.inr h'
                · rw [p2.swg]; rfl
                · have l1 := p1.len
                  have l2 := p2.len
                  have l0 : toks1.length ≤ (tk :: rest).length := by
                    have := congrArg List.length hfl1
                    simp only [List.length_append] at this
                    split at this <;> simp only [List.length_cons] at this ⊢ <;> omega
                  omega
          · simp only [h1, if_false] at h
            injection h with h
            injection h with h1' h2
            injection h1' with ht he
            subst ht; subst he; subst h2
            obtain ⟨la, hla, hle⟩ := order_not_one hord h1
            refine ⟨rfl, g, Or.inr ⟨la, hla, ?_⟩, fun x hx => Or.inl hx, rfl, Nat.le_refl _⟩
            intro x hx
            rw [hhead] at hx
            exact hle x hx

theorem level_empty : level orderOfOps [] = none := by decide

theorem compileTokens_post {cg : Bytes → Except Err (Parsed α)} (hcg : Hcg A cg)
    (toks : List Token) (t : Tree) (e : Expr α)
    (h : compileTokens A cg toks = .ok (t, e)) : t.flatten = toks ∧ Good A t e := by
  simp only [compileTokens] at h
  cases hne : getNextExpr A cg toks with
  | error err => rw [hne] at h; cases h
  | ok r1 =>
    obtain ⟨⟨t1, e1⟩, rest⟩ := r1
    rw [hne] at h
    simp only at h
    obtain ⟨hat1, hfl1, g1⟩ := getNextExpr_post A hcg _ _ _ _ hne
    cases hc : climb A cg (rest.length + 1) [] (t1, e1) rest with
    | error err => rw [hc] at h; cases h
    | ok r2 =>
      obtain ⟨⟨t2, e2⟩, rest2⟩ := r2
      rw [hc] at h
      injection h with h
      injection h with ht he
      subst ht; subst he
      have p := climb_post A hcg _ _ _ _ _ _ _ _ hc g1
        (by intro tl x htl; rw [atom_rootLvl hat1] at htl; cases htl)
      refine ⟨?_, p.good⟩
      rcases p.stop with hnil | ⟨la, hla, _⟩
      · have := p.flat
        rw [hnil, List.append_nil] at this
        rw [hfl1, this]
      · rw [level_empty] at hla; cases hla

theorem compileF_post : ∀ (f : Nat) (s : Bytes) (t : Tree) (e : Expr α),
    compileF A f s = .ok (t, e) → tok s = some t.flatten ∧ Good A t e := by
  intro f
  induction f with
  | zero => intro s t e h; simp [compileF] at h
  | succ f ih =>
    intro s t e h
    simp only [compileF] at h
    cases htk : tokenize s with
    | error err => rw [htk] at h; cases h
    | ok toks =>
      rw [htk] at h
      simp only at h
      obtain ⟨hfl, g⟩ := compileTokens_post A (cg := compileF A f) ih toks t e h
      exact ⟨by simp only [tok, htk, hfl], g⟩

/-! ### No panic -/

theorem level_of_keys : opKeys.all (fun op => (level orderOfOps op).isSome) = true := by decide

theorem level_of_mem (op : Bytes) (h : opKeys.contains op = true) : (level orderOfOps op).isSome = true := by
  have := List.all_eq_true.mp level_of_keys op (List.contains_iff_mem.mp h)
  exact this

theorem level_star : level orderOfOps starOp = some 2 := by decide

def NoPanic (e : Err) : Prop := ∀ m, e ≠ .panic m

theorem tokStep_err {st : TokSt} {r : UInt8} {s : Bytes} {err : Err}
    (h : tokStep st r s = .error err) : err = .overclosed := by
  unfold tokStep at h
  repeat' split at h
  all_goals (cases h <;> rfl)

theorem tokLoop_err : ∀ (s : Bytes) (st : TokSt) (err : Err), tokLoop s st = .error err → err = .overclosed := by
  intro s
  induction s with
  | nil => intro st err h; simp [tokLoop] at h
  | cons r rest ih =>
    intro st err h
    simp only [tokLoop] at h
    cases hs : tokStep st r (r :: rest) with
    | error e2 => rw [hs] at h; injection h with h; subst h; exact tokStep_err hs
    | ok st' => rw [hs] at h; exact ih _ _ h

theorem tokenize_err {s : Bytes} {err : Err} (h : tokenize s = .error err) :
    err = .overclosed ∨ err = .unclosed := by
  simp only [tokenize] at h
  cases hl : tokLoop s ⟨[], [], 0, 0⟩ with
  | error e2 => rw [hl] at h; injection h with h; subst h; exact Or.inl (tokLoop_err _ _ _ hl)
  | ok st =>
    rw [hl] at h
    simp only at h
    split at h
    · injection h with h; exact Or.inr h.symm
    · cases h

theorem classifyE_err {v : Bytes} {err : Err} (h : classifyE A v = .error err) : NoPanic err := by
  unfold classifyE at h
  split at h
  · simp only at h
    split at h <;> cases h
  · split at h
    · cases h
    · injection h with h; subst h; intro m hm; cases hm
    · split at h
      · cases h
      · injection h with h; subst h; intro m hm; cases hm

theorem getNextExpr_noPanic {cg : Bytes → Except Err (Parsed α)}
    (hcg : ∀ s err, cg s = .error err → NoPanic err) :
    ∀ (toks : List Token) (err : Err), getNextExpr A cg toks = .error err → NoPanic err := by
  intro toks
  induction toks with
  | nil => intro err h; simp only [getNextExpr] at h; injection h with h; subst h; intro m hm; cases hm
  | cons tk tl ih =>
    intro err h
    obtain ⟨val, ty⟩ := tk
    cases ty <;> simp only [getNextExpr] at h
    · cases hc : classifyE A val with
      | error e2 => rw [hc] at h; injection h with h; subst h; exact classifyE_err A hc
      | ok a => rw [hc] at h; cases h
    · cases hc : cg val with
      | error e2 => rw [hc] at h; injection h with h; subst h; exact hcg _ _ hc
      | ok r => obtain ⟨t0, e0⟩ := r; rw [hc] at h; cases h
    · injection h with h; subst h; intro m hm; cases hm
    · cases hc : getNextExpr A cg tl with
      | error e2 => rw [hc] at h; injection h with h; subst h; exact ih _ hc
      | ok r => obtain ⟨⟨t0, e0⟩, r0⟩ := r; rw [hc] at h; cases h

theorem getNextOp_level {tk : Token} {op : Bytes} {c : Bool} (h : getNextOp tk = .ok (op, c)) :
    (level orderOfOps op).isSome = true := by
  obtain ⟨val, ty⟩ := tk
  cases ty <;> simp only [getNextOp] at h
  · cases h
  · injection h with h; injection h with h1 h2; subst h1; rw [level_star]; rfl
  · split at h
    · rename_i hk
      injection h with h; injection h with h1 h2; subst h1; exact level_of_mem _ hk
    · cases h
  · cases h

theorem getNextOp_err {tk : Token} {err : Err} (h : getNextOp tk = .error err) : NoPanic err := by
  obtain ⟨val, ty⟩ := tk
  cases ty <;> simp only [getNextOp] at h
  · injection h with h; subst h; intro m hm; cases hm
  · cases h
  · split at h
    · cases h
    · injection h with h; subst h; intro m hm; cases hm
  · injection h with h; subst h; intro m hm; cases hm

theorem climb_noPanic {cg : Bytes → Except Err (Parsed α)}
    (hcg : ∀ s err, cg s = .error err → NoPanic err) :
    ∀ (f : Nat) (last : Bytes) (ret : Parsed α) (toks : List Token) (err : Err),
      climb A cg f last ret toks = .error err → NoPanic err := by
  intro f
  induction f with
  | zero =>
    intro last ret toks err h
    simp only [climb] at h
    injection h with h; subst h; intro m hm; cases hm
  | succ f ih =>
    intro last ret toks err h
    cases toks with
    | nil => simp [climb] at h
    | cons tk rest =>
      simp only [climb] at h
      cases hop : getNextOp tk with
      | error e2 => rw [hop] at h; injection h with h; subst h; exact getNextOp_err hop
      | ok oc =>
        obtain ⟨op, c⟩ := oc
        rw [hop] at h
        simp only at h
        have hl := getNextOp_level hop
        cases hlv : level orderOfOps op with
        | none => rw [hlv] at hl; cases hl
        | some lb =>
          obtain ⟨ord, hord⟩ := order_total (a := last) hlv
          have hord' : opCodeOrder last op = .ok ord := hord
          rw [hord'] at h
          simp only at h
          by_cases h1 : ord = 1
          · simp only [h1, if_true] at h
            cases hne : getNextExpr A cg (if c = true then rest else tk :: rest) with
            | error e2 => rw [hne] at h; injection h with h; subst h; exact getNextExpr_noPanic A hcg _ _ hne
            | ok r1 =>
              obtain ⟨⟨t1, e1⟩, toks1⟩ := r1
              rw [hne] at h
              simp only at h
              cases hc1 : climb A cg f op (t1, e1) toks1 with
              | error e2 => rw [hc1] at h; injection h with h; subst h; exact ih _ _ _ _ hc1
              | ok r2 =>
                obtain ⟨⟨t2, e2⟩, toks2⟩ := r2
                rw [hc1] at h
                exact ih _ _ _ _ h
          · simp only [h1, if_false] at h
            cases h

theorem compileF_noPanic : ∀ (f : Nat) (s : Bytes) (err : Err),
    compileF A f s = .error err → NoPanic err := by
  intro f
  induction f with
  | zero => intro s err h; simp only [compileF] at h; injection h with h; subst h; intro m hm; cases hm
  | succ f ih =>
    intro s err h
    simp only [compileF] at h
    cases htk : tokenize s with
    | error e2 =>
      rw [htk] at h
      injection h with h; subst h
      rcases tokenize_err htk with h' | h' <;> subst h' <;> intro m hm <;> cases hm
    | ok toks =>
      rw [htk] at h
      simp only [compileTokens] at h
      cases hne : getNextExpr A (compileF A f) toks with
      | error e2 => rw [hne] at h; injection h with h; subst h; exact getNextExpr_noPanic A ih _ _ hne
      | ok r1 =>
        obtain ⟨⟨t1, e1⟩, rest⟩ := r1
        rw [hne] at h
        simp only at h
        cases hc : climb A (compileF A f) (rest.length + 1) [] (t1, e1) rest with
        | error e2 => rw [hc] at h; injection h with h; subst h; exact climb_noPanic A ih _ _ _ _ _ hc
        | ok r2 => obtain ⟨⟨t2, e2⟩, rest2⟩ := r2; rw [hc] at h; cases h

end Rare.C19
