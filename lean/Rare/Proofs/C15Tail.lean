import Rare.Model.C15Tail
import Rare.Proofs.C15Batch
import Rare.Proofs.C04
/-!
Invariant of the composed loop `Rare.C15.Tail.iter` (scanner of C04 + heap-explicit batching loop):

* the scanner state is `Good` for the bytes of the tokens handed out so far (C04);
* every token's view still reads as the bytes it had when it was handed out;
* the batch heap obeys `Batch.WF` and the loop state refines `Rare.Batcher` (`Batcher.Inv`);
* **`sentAt = out.map readBatch`**: every batch on the channel reads NOW exactly as it read when it
  was sent.
-/
namespace Rare.C15.Tail
open Rare.C04 Rare.C15.Batch

/-! ### value-level facts about `Rare.Batcher.Inv` -/

theorem inv_flat {α : Type} {s : Batcher.LoopSt α} {pre : List α} (h : Batcher.Inv s pre) :
    s.out.flatMap (·.lines) ++ s.cur = pre := by
  have := congrArg (List.map Prod.fst) h.nums
  simpa [List.map_flatMap, Batcher.lineNumbers, List.zipIdx_map_fst] using this

theorem flat_of_numbers {α : Type} {bs : List (Batcher.Batch α)} {pre : List α}
    (h : bs.flatMap Batcher.lineNumbers = pre.zipIdx 1) : bs.flatMap (·.lines) = pre := by
  have := congrArg (List.map Prod.fst) h
  simpa [List.map_flatMap, Batcher.lineNumbers, List.zipIdx_map_fst] using this

/-! ### projections of `advance` -/

@[simp] theorem advance_imm (s : TSt) (i : Imm) (b : St View) (l : Nat) (st : Status) (t : List (View × Bytes)) :
    (s.advance i b l st t).imm = i := rfl
@[simp] theorem advance_b (s : TSt) (i : Imm) (b : St View) (l : Nat) (st : Status) (t : List (View × Bytes)) :
    (s.advance i b l st t).b = b := rfl
@[simp] theorem advance_lines (s : TSt) (i : Imm) (b : St View) (l : Nat) (st : Status) (t : List (View × Bytes)) :
    (s.advance i b l st t).lines = l := rfl
@[simp] theorem advance_status (s : TSt) (i : Imm) (b : St View) (l : Nat) (st : Status) (t : List (View × Bytes)) :
    (s.advance i b l st t).status = st := rfl
@[simp] theorem advance_toks (s : TSt) (i : Imm) (b : St View) (l : Nat) (st : Status) (t : List (View × Bytes)) :
    (s.advance i b l st t).toks = t := rfl

theorem readBatch_advance (s : TSt) (i : Imm) (b : St View) (l : Nat) (st : Status) (t : List (View × Bytes))
    (sl : Slice) : (s.advance i b l st t).readBatch sl = (readSlice b.heap sl).map (readView i.arrays) := rfl

theorem advance_sentAt (s : TSt) (i : Imm) (b : St View) (l : Nat) (st : Status) (t : List (View × Bytes)) :
    (s.advance i b l st t).sentAt =
      s.sentAt ++ (b.out.drop s.b.out.length).map fun x => (readSlice b.heap x.batch).map (readView i.arrays) := rfl

/-! ### the invariant -/

structure J (source : String) (s : TSt) : Prop where
  good : s.status ≠ .stuck → Good s.imm (s.toks.map (·.2))
  views : ∀ vb ∈ s.toks, ViewOK s.imm.arrays vb.1 ∧ readView s.imm.arrays vb.1 = vb.2
  lines : s.lines = s.toks.length
  /-- while the loop runs: heap discipline + refinement of the value-level loop -/
  loop : s.status ≠ .closed → WF s.b ∧ Batcher.Inv s.b.abs (s.toks.map (·.1))
  /-- after the loop: the batches are a numbered partition of ALL tokens, which are the lines of the stream -/
  fin : s.status = .closed →
    (s.b.out.map s.b.read).flatMap Batcher.lineNumbers = (s.toks.map (·.1)).zipIdx 1 ∧
    (∀ b ∈ s.b.out.map s.b.read, b.lines ≠ []) ∧
    splitLines s.imm.delivered = s.toks.map (·.2) ∧ s.imm.eof = true
  /-- every line of every sent batch is one of the tokens -/
  mem : ∀ b ∈ s.b.out, ∀ v ∈ readSlice s.b.heap b.batch, v ∈ s.toks.map (·.1)
  /-- **stability**: what was recorded at the moment of each send is what the batch reads as now -/
  sent : s.sentAt = s.b.out.map fun b => s.readBatch b.batch
  src : ∀ b ∈ s.b.out, b.source = source

theorem j_init (source : String) (bufSize batchSize : Nat) (rd : Reader) (h : 1 ≤ bufSize) :
    J source (TSt.init bufSize batchSize rd) where
  good := fun _ => good_init bufSize rd h
  views := by simp [TSt.init]
  lines := rfl
  loop := fun _ => ⟨wf_init batchSize, by simpa [TSt.init, St.abs, St.init, readSlice, cells] using Batcher.inv_init⟩
  fin := by simp [TSt.init]
  mem := by simp [TSt.init, St.init]
  sent := by simp [TSt.init, St.init]
  src := by simp [TSt.init, St.init]

/-- Re-reading a list of tokens' views after the scanner's arrays were extended. -/
theorem map_readView_ext {A B : List Bytes} (hext : Ext A B) (vs : List View) (h : ∀ v ∈ vs, ViewOK A v) :
    vs.map (readView B) = vs.map (readView A) :=
  List.map_congr_left fun v hv => (readView_ext hext (h v hv)).1

theorem scan_ext (f : Nat) {s : Imm} {C : Bytes} (hinv : Inv s C) : Ext s.arrays (s.scan f).2.arrays :=
  scan_closed (closed_ext s.arrays) f hinv (Ext.refl _)

/-- the recorded reads are updated consistently by `advance` when old batches read the same -/
theorem advance_sent {s : TSt} {i : Imm} {b : St View} {l : Nat} {st : Status} {t : List (View × Bytes)}
    (hs : s.sentAt = s.b.out.map fun x => s.readBatch x.batch) (hp : s.b.out <+: b.out)
    (hold : ∀ x ∈ s.b.out, (readSlice b.heap x.batch).map (readView i.arrays) = s.readBatch x.batch) :
    (s.advance i b l st t).sentAt = (s.advance i b l st t).b.out.map fun x => (s.advance i b l st t).readBatch x.batch := by
  rw [advance_sentAt, hs]
  have hb : b.out = s.b.out ++ b.out.drop s.b.out.length := (List.prefix_iff_eq_append.mp hp).symm
  show _ = b.out.map fun x => (readSlice b.heap x.batch).map (readView i.arrays)
  conv => rhs; rw [hb]
  rw [List.map_append]
  congr 1
  exact (List.map_congr_left hold).symm

theorem j_iter {source : String} (batchSize fuel : Nat) (timer : Nat → Bool) {s : TSt} (h : J source s) :
    J source (iter source batchSize fuel timer s) := by
  unfold iter
  split
  · rename_i hrun
    have hgood := h.good (by rw [hrun]; decide)
    obtain ⟨C, hinv, _⟩ := id hgood
    have hsg := scan_good fuel hgood
    have hpost := scan_post fuel hinv
    have hext := scan_ext fuel hinv
    obtain ⟨hwf, hbinv⟩ := h.loop (by rw [hrun]; decide)
    -- old views stay valid and keep their contents
    have hviews : ∀ vb ∈ s.toks, ViewOK (s.imm.scan fuel).2.arrays vb.1 ∧
        readView (s.imm.scan fuel).2.arrays vb.1 = vb.2 := by
      intro vb hvb
      obtain ⟨h1, h2⟩ := h.views vb hvb
      obtain ⟨h3, h4⟩ := readView_ext hext h1
      exact ⟨h4, by rw [h3, h2]⟩
    have hok : ∀ x ∈ s.b.out, ∀ v ∈ readSlice s.b.heap x.batch, ViewOK s.imm.arrays v := by
      intro x hx v hv
      have := h.mem x hx v hv
      simp only [List.mem_map] at this
      obtain ⟨vb, hvb, rfl⟩ := this
      exact (h.views vb hvb).1
    generalize hsc : s.imm.scan fuel = r at hsg hpost hext hviews
    obtain ⟨res, imm'⟩ := r
    cases res with
    | tok v bytes =>
      simp only at hsg hpost hext hviews ⊢
      obtain ⟨hwf', habs⟩ := step_abs hwf source batchSize (v, timer s.lines)
      obtain ⟨hfro, hpre, _⟩ := step_frozen hwf source batchSize (v, timer s.lines)
      have hbinv' := Batcher.inv_step batchSize hbinv (v, timer s.lines)
      rw [← habs] at hbinv'
      have hflat := inv_flat hbinv'
      refine ⟨fun _ => by simpa using hsg, ?_, by simp [h.lines], ?_, by simp, ?_, ?_, ?_⟩
      · intro vb hvb
        simp only [advance_toks, List.mem_append, List.mem_singleton] at hvb
        rcases hvb with hvb | rfl
        · exact hviews vb hvb
        · exact hpost.1
      · intro _
        exact ⟨hwf', by simpa using hbinv'⟩
      · intro x hx u hu
        simp only [advance_b, advance_toks, List.map_append, List.map_cons, List.map_nil] at hx hu ⊢
        rw [← hflat]
        simp only [St.abs, List.flatMap_map, St.read, List.mem_append, List.mem_flatMap]
        exact Or.inl ⟨x, hx, hu⟩
      · apply advance_sent h.sent hpre
        intro x hx
        have h1 : readSlice (step source batchSize s.b (v, timer s.lines)).heap x.batch = readSlice s.b.heap x.batch := by
          have := hfro x hx
          simp only [St.read, Batcher.Batch.mk.injEq] at this
          exact this.1
        rw [h1]
        exact map_readView_ext hext _ (hok x hx)
      · intro x hx
        simp only [advance_b] at hx
        exact step_src source batchSize _ h.src x hx
    | done =>
      simp only at hsg hpost hext hviews ⊢
      have hfa := finish_abs hwf source
      have hfs := Batcher.finish_spec hbinv
      have hheap := finish_heap source s.b
      have hflat := inv_flat hbinv
      refine ⟨fun _ => by simpa using hsg.2, by simpa using hviews, by simpa using h.lines, by simp, ?_, ?_, ?_, ?_⟩
      · intro _
        simp only [advance_b, advance_toks, advance_imm]
        rw [hfa]
        exact ⟨hfs.1, hfs.2, hsg.1, hpost.1⟩
      · intro x hx u hu
        simp only [advance_b, advance_toks, hheap] at hx hu ⊢
        rcases finish_out source s.b with ho | ho <;> rw [ho] at hx
        · exact h.mem x hx u hu
        · simp only [List.mem_append, List.mem_singleton] at hx
          rcases hx with hx | rfl
          · exact h.mem x hx u hu
          · rw [← hflat]
            simp only [St.abs, List.mem_append]
            exact Or.inr hu
      · apply advance_sent h.sent (finish_prefix source s.b)
        intro x hx
        rw [hheap]
        exact map_readView_ext hext _ (hok x hx)
      · intro x hx
        simp only [advance_b] at hx
        exact finish_src source h.src x hx
    | fuel =>
      simp only at hext hviews ⊢
      refine ⟨by simp, by simpa using hviews, by simpa using h.lines, ?_, by simp, ?_, ?_, ?_⟩
      · intro _; exact ⟨hwf, by simpa using hbinv⟩
      · intro x hx u hu
        simp only [advance_b, advance_toks] at hx hu ⊢
        exact h.mem x hx u hu
      · apply advance_sent h.sent (List.prefix_refl _)
        intro x hx
        exact map_readView_ext hext _ (hok x hx)
      · intro x hx
        simp only [advance_b] at hx
        exact h.src x hx
  · exact h

theorem j_iterN {source : String} (batchSize fuel : Nat) (timer : Nat → Bool) (k : Nat) :
    ∀ {s : TSt}, J source s → J source (iterN source batchSize fuel timer k s) := by
  induction k with
  | zero => intro s h; exact h
  | succ k ih => intro s h; exact ih (j_iter batchSize fuel timer h)

/-! ### monotonicity: the channel and the record of sends only grow -/

theorem iter_mono {source : String} (batchSize fuel : Nat) (timer : Nat → Bool) {s : TSt} (h : J source s) :
    s.b.out <+: (iter source batchSize fuel timer s).b.out ∧
    s.sentAt <+: (iter source batchSize fuel timer s).sentAt := by
  unfold iter
  split
  · rename_i hrun
    obtain ⟨hwf, _⟩ := h.loop (by rw [hrun]; decide)
    generalize s.imm.scan fuel = r
    obtain ⟨res, imm'⟩ := r
    cases res with
    | tok v bytes =>
      exact ⟨(step_frozen hwf source batchSize (v, timer s.lines)).2.1, by rw [advance_sentAt]; exact List.prefix_append _ _⟩
    | done => exact ⟨finish_prefix source s.b, by rw [advance_sentAt]; exact List.prefix_append _ _⟩
    | fuel => exact ⟨List.prefix_refl _, by rw [advance_sentAt]; exact List.prefix_append _ _⟩
  · exact ⟨List.prefix_refl _, List.prefix_refl _⟩

theorem iterN_mono {source : String} (batchSize fuel : Nat) (timer : Nat → Bool) (k : Nat) :
    ∀ {s : TSt}, J source s →
    s.b.out <+: (iterN source batchSize fuel timer k s).b.out ∧
    s.sentAt <+: (iterN source batchSize fuel timer k s).sentAt := by
  induction k with
  | zero => intro s _; exact ⟨List.prefix_refl _, List.prefix_refl _⟩
  | succ k ih =>
    intro s h
    have h1 := iter_mono batchSize fuel timer h
    have h2 := ih (j_iter batchSize fuel timer h)
    exact ⟨h1.1.trans h2.1, h1.2.trans h2.2⟩

/-- **Stability across any number of further trips**: a batch that is on the channel in state `s`
    reads in every later state exactly as it reads in `s`. -/
theorem iterN_stable {source : String} (batchSize fuel : Nat) (timer : Nat → Bool) (k : Nat) {s : TSt}
    (h : J source s) :
    ∀ x ∈ s.b.out, (iterN source batchSize fuel timer k s).readBatch x.batch = s.readBatch x.batch := by
  have h' := j_iterN batchSize fuel timer k h
  obtain ⟨hout, hsent⟩ := iterN_mono batchSize fuel timer k h
  generalize iterN source batchSize fuel timer k s = s' at h' hout hsent
  obtain ⟨t, ht⟩ := hout
  have h1 := h'.sent
  rw [← ht, List.map_append] at h1
  have h2 := h.sent
  -- `s.sentAt` is the prefix of `s'.sentAt` of length `|s.b.out|`, and so is `s.b.out.map (readBatch s')`
  have h3 : s.sentAt = s.b.out.map fun b => s'.readBatch b.batch := by
    have hl : s.sentAt.length = (s.b.out.map fun b => s'.readBatch b.batch).length := by rw [h2]; simp
    have := List.prefix_iff_eq_take.mp hsent
    rw [this, h1, hl, List.take_left']
    rfl
  rw [h2] at h3
  intro x hx
  exact ((List.map_inj_left.mp h3) x hx).symm

/-! ### termination and the scanner's share -/

theorem iterN_not_running (source : String) (batchSize fuel : Nat) (timer : Nat → Bool) (k : Nat) :
    ∀ {s : TSt}, s.status ≠ .running → iterN source batchSize fuel timer k s = s := by
  induction k with
  | zero => intro s _; rfl
  | succ k ih =>
    intro s h
    have : iter source batchSize fuel timer s = s := by
      unfold iter; split
      · rename_i hr; exact absurd hr h
      · rfl
    simp only [iterN, this]; exact ih h

/-- The composed loop reaches the end exactly when "call `Scan()` until it answers false" does, with
    the same final scanner state. -/
theorem iterN_scanAll (source : String) (batchSize fuel : Nat) (timer : Nat → Bool) (k : Nat) :
    ∀ {s : TSt}, s.status = .running → (s.imm.scanAll fuel k).2.1 = true →
      (iterN source batchSize fuel timer k s).status = .closed ∧
      (iterN source batchSize fuel timer k s).imm = (s.imm.scanAll fuel k).2.2 ∧
      (iterN source batchSize fuel timer k s).toks = s.toks ++ (s.imm.scanAll fuel k).1 := by
  induction k with
  | zero => intro s _ h; simp [Imm.scanAll] at h
  | succ k ih =>
    intro s hrun hdone
    simp only [Imm.scanAll] at hdone ⊢
    simp only [iterN]
    have hit : iter source batchSize fuel timer s =
        match s.imm.scan fuel with
        | (.tok v bytes, imm') =>
          s.advance imm' (step source batchSize s.b (v, timer s.lines)) (s.lines + 1) .running (s.toks ++ [(v, bytes)])
        | (.done, imm') => s.advance imm' (finish source s.b) s.lines .closed s.toks
        | (.fuel, imm') => s.advance imm' s.b s.lines .stuck s.toks := by
      unfold iter; rw [hrun]; rfl
    rw [hit]
    generalize s.imm.scan fuel = r at hdone
    obtain ⟨res, imm'⟩ := r
    cases res with
    | tok v bytes =>
      simp only at hdone ⊢
      have := ih (s := s.advance imm' (step source batchSize s.b (v, timer s.lines)) (s.lines + 1) .running
        (s.toks ++ [(v, bytes)])) rfl hdone
      simpa using this
    | done =>
      simp only
      rw [iterN_not_running _ _ _ _ _ (by simp)]
      simp
    | fuel => simp at hdone

/-- Predicates of the scanner state that every step of `Scan()` preserves carry over to the loop. -/
theorem iterN_pred {P : Imm → Prop} (hP : Closed P) {source : String} (batchSize fuel : Nat) (timer : Nat → Bool)
    (k : Nat) : ∀ {s : TSt}, J source s → P s.imm → P (iterN source batchSize fuel timer k s).imm := by
  induction k with
  | zero => intro s _ h; exact h
  | succ k ih =>
    intro s hj hp
    apply ih (j_iter batchSize fuel timer hj)
    unfold iter
    split
    · rename_i hrun
      obtain ⟨C, hinv, _⟩ := id (hj.good (by rw [hrun]; decide))
      have := scan_closed hP fuel hinv hp
      generalize s.imm.scan fuel = r at this
      obtain ⟨res, imm'⟩ := r
      cases res <;> exact this
    · exact hp

/-- With fuel above the reader's progress measure no `Scan()` of the loop ever runs out of fuel. -/
theorem iterN_nostuck {source : String} (batchSize fuel : Nat) (timer : Nat → Bool) (k : Nat) :
    ∀ {s : TSt}, J source s → s.status ≠ .stuck → s.imm.rd.measure < fuel →
      (iterN source batchSize fuel timer k s).status ≠ .stuck := by
  induction k with
  | zero => intro s _ h _; exact h
  | succ k ih =>
    intro s hj hs hm
    have hj' := j_iter batchSize fuel timer hj
    have hstep : (iter source batchSize fuel timer s).status ≠ .stuck ∧
        (iter source batchSize fuel timer s).imm.rd.measure < fuel := by
      unfold iter
      split
      · rename_i hrun
        obtain ⟨C, hinv, _⟩ := id (hj.good (by rw [hrun]; decide))
        have hnf := scan_nofuel fuel hinv hm
        have hmm := scan_closed (closed_measure s.imm.rd.measure) fuel hinv (Nat.le_refl _)
        generalize s.imm.scan fuel = r at hnf hmm
        obtain ⟨res, imm'⟩ := r
        cases res with
        | tok v b => exact ⟨by simp, by simp only [advance_imm]; simp only at hmm; omega⟩
        | done => exact ⟨by simp, by simp only [advance_imm]; simp only at hmm; omega⟩
        | fuel => simp at hnf
      · exact ⟨hs, hm⟩
    exact ih hj' hstep.1 hstep.2

end Rare.C15.Tail
