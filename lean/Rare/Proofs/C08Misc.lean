import Rare.Proofs.C08Arith
import Rare.Model.Expr.Funcs.Misc
/-!
C08 for the `Misc` family: `lookup`, `haskey` (table built at compile time from a constant, for any
table text) and the path helpers `basename`, `dirname`, `extname` are panic-free on safe
arguments, and so is `repeat` (negative counts and outputs above 1 MiB yield `<VALUE>`).  No builder
of this family answers `unmodelled`.
-/
namespace Rare.Expr.Funcs.Misc
open Rare.Expr

theorem lookupBuilder_safe (render : Option Bytes → Bytes) : SafeBuilder (lookupBuilder render) := by
  intro args h
  show SafeResult _
  unfold lookupBuilder
  split
  · exact SafeResult.errArgCount
  · split
    · rename_i a0 a1 rest _
      obtain ⟨v, b, hp⟩ := (h a1 (by simp)).probe
      rw [hp]
      cases b with
      | false => exact SafeResult.errConst
      | true =>
        simp only []
        obtain ⟨cp, hcp⟩ := evalStageIndexOrDefault_safe h 2 []
        rw [hcp]
        exact SafeResult.ok (Safe.bind' (h a0 (by simp)) fun key => Safe.pure _)
    · exact SafeResult.errArgCount

theorem kfLookupKey_safe : SafeBuilder kfLookupKey := lookupBuilder_safe _
theorem kfHasKey_safe : SafeBuilder kfHasKey := lookupBuilder_safe _

theorem pathHelper_safe (f : Bytes → Bytes) : SafeBuilder (pathHelper f) := by
  intro args h
  show SafeResult _
  unfold pathHelper
  split
  · rename_i a
    exact SafeResult.ok (Safe.bind' (h a (by simp)) fun v => Safe.pure _)
  · exact SafeResult.errArgCount

theorem kfRepeat_safe : SafeBuilder kfRepeat := by
  intro args h
  show SafeResult _
  unfold kfRepeat
  split
  · rename_i a0 a1
    obtain ⟨v, b, hp⟩ := (h a0 (by simp)).probe
    rw [hp]
    cases b with
    | false => exact SafeResult.errConst
    | true =>
      apply SafeResult.ok
      apply Safe.bind' (h a1 (by simp))
      intro c
      cases atoi c with
      | none => exact Safe.pure _
      | some count =>
        simp only []
        split
        · exact Safe.pure _
        · split <;> exact Safe.pure _
  · exact SafeResult.errArgCount

/-- Builders that can answer `unmodelled`: none in this family. -/
def miscUnmodelled : List String := []

theorem misc_safe : ∀ p ∈ table, p.1 ∉ miscUnmodelled → SafeBuilder p.2 := by
  intro p hp hn
  simp only [table, List.mem_cons, List.not_mem_nil, or_false] at hp
  rcases hp with e | e | e | e | e | e <;>
    subst e <;> first
      | exact kfLookupKey_safe
      | exact kfHasKey_safe
      | exact pathHelper_safe _
      | exact kfRepeat_safe
      | exact absurd (by decide) hn

end Rare.Expr.Funcs.Misc
