import Rare.Proofs.C14Histo
/-!
# C14: the bar graph as a whole renderer – every row of a render is drawn at the current scale

`BarCfg` is what a drawn row depends on (stacked or grouped, first line, lines per row, the running maximum,
scaler, formatter, bar width).  `RowDrawn`: the line(s) of row `i` show its key and values drawn with the
CURRENT running maximum – the number is `Formatter(value, 0, maxLineVal)`, a grouped bar is
`BarWrite(Scale(value, 0, maxLineVal), BarSize)`, a stacked bar `BarWriteStacked(maxLineVal, BarSize, values)`.

`bars_render_inv`: from ANY state in which the running maximum covers the stored rows (`BarPre`; true of a new
graph, and after every render), one render – `SetKeys`, then `WriteBar(0…n-1)` as `cmd/bargraph.go` does – returns
and ALL rows of the render are drawn with the FINAL running maximum (bars of one graph are proportional to
each other), whatever redraws happened on the way; `BarPre` holds again.  After a20c03a (rows keep snapshots).
Proved for every float instance satisfying `UnitLaws`.
-/
namespace Rare.C14
open Rare Rare.C20

section
variable {α : Type} {A : Arith α} {Dom : Int → Prop} {Unit : α → Prop} {le : α → α → Prop}

/-- what a drawn row depends on -/
structure BarCfg where
  stacked : Bool
  /-- first line of row 0 -/
  first : Nat
  /-- `len(subKeys)` -/
  nsub : Nat
  /-- the running maximum -/
  max : Int
  scaler : Scaler
  fmt : Fmt
  barSize : Int
  /-- the width of the key column (`maxKeyLength`) -/
  keyw : Int

def BarGraph.cfg (g : BarGraph) : BarCfg :=
  { stacked := g.stacked, first := g.prefixLines.toNat, nsub := g.subKeys.length, max := g.maxLineVal,
    scaler := g.scaler, fmt := g.fmt, barSize := g.barSize, keyw := g.maxKeyLength }

/-- the value the running maximum is compared with for a row -/
def rowMax (stacked : Bool) (vals : List Int) : Int := if stacked then sumPositive vals else maxi64 vals

/-- first line of row `i`, and the lines reserved for a row -/
def BarCfg.slot (c : BarCfg) : Nat := if c.stacked then 1 else c.nsub
def BarCfg.rowStart (c : BarCfg) (i : Nat) : Nat := c.first + i * c.slot

theorem BarCfg.rowStart_succ (c : BarCfg) (i : Nat) : c.rowStart (i + 1) = c.rowStart i + c.slot := by
  unfold BarCfg.rowStart; rw [Nat.add_mul]; omega

theorem BarCfg.rowStart_mono (c : BarCfg) {i j : Nat} (h : i < j) : c.rowStart i + c.slot ≤ c.rowStart j := by
  unfold BarCfg.rowStart
  have : (i + 1) * c.slot ≤ j * c.slot := Nat.mul_le_mul_right _ h
  rw [Nat.add_mul] at this; omega

/-- the text of a stacked row (key padded to `w`) -/
def BarCfg.stackedText (c : BarCfg) (env : Env) (w : Int) (key : Bytes) (vals : List Int) : Bytes :=
  wrap env cYellow (padVis env key w) ++ ascii "  " ++
    (match barWriteStacked env c.max c.barSize vals with | .ok b => b | .error _ => []) ++ ascii "  " ++
    c.fmt.apply (sumWrap vals) 0 c.max

/-- the bytes of the bar of one value of a grouped row -/
def BarCfg.barBytes (c : BarCfg) (A : Arith α) (env : Env) (v : Int) : Bytes :=
  match barWrite A env (scale A c.scaler v 0 c.max) c.barSize with
  | .ok b => b
  | .error _ => []

/-- line `j` of a grouped row (key padded to `w`; the lines below the first are indented by `w + 2`) -/
def BarCfg.groupedText (c : BarCfg) (A : Arith α) (env : Env) (w : Int) (key : Bytes) (j : Nat) (v : Int) : Bytes :=
  (if j > 0 then spaces (w + 2) else wrap env cYellow (padVis env key w) ++ ascii "  ") ++
    colorWrite env (groupColors.getD (j % groupColors.length) []) (c.barBytes A env v) ++ [32] ++ c.fmt.apply v 0 c.max

/-- row `i` is on the screen, drawn with the configuration `c` (in particular its running maximum and its key column width) -/
def RowDrawn (A : Arith α) (env : Env) (c : BarCfg) (vt : VirtualTerm) (i : Nat) (row : Bytes × List Int) : Prop :=
  if c.stacked then vt.lines[c.rowStart i]? = some (c.stackedText env c.keyw row.1 row.2)
  else ∀ (j : Nat) (v : Int), row.2[j]? = some v → vt.lines[c.rowStart i + j]? = some (c.groupedText A env c.keyw row.1 j v)

/-- the row fits its slot (always for a stacked row; a grouped row has at most one value per sub-key) -/
def RowFits (c : BarCfg) (row : Bytes × List Int) : Prop := c.stacked = true ∨ row.2.length ≤ c.nsub

/-- lines a row occupies -/
def rowLines (c : BarCfg) (row : Bytes × List Int) : Nat := if c.stacked then 1 else row.2.length

theorem rowLines_le_slot (c : BarCfg) (row : Bytes × List Int) (h : RowFits c row) : rowLines c row ≤ c.slot := by
  unfold rowLines BarCfg.slot
  rcases h with h | h
  · simp [h]
  · split <;> omega

/-- a row stays drawn when only lines outside it change -/
theorem RowDrawn.keep {env : Env} {c : BarCfg} {vt vt' : VirtualTerm} {i : Nat} {row : Bytes × List Int}
    (h : RowDrawn A env c vt i row)
    (hk : ∀ j x, c.rowStart i ≤ j → j < c.rowStart i + rowLines c row → vt.lines[j]? = some x → vt'.lines[j]? = some x) :
    RowDrawn A env c vt' i row := by
  unfold RowDrawn rowLines at *
  by_cases hs : c.stacked = true
  · rw [if_pos hs] at h hk ⊢
    exact hk _ _ (Nat.le_refl _) (by omega) h
  · rw [if_neg hs] at h hk ⊢
    intro j v hj
    have hw := h j v hj
    have hlt : j < row.2.length := by
      rcases Nat.lt_or_ge j row.2.length with hh | hh
      · exact hh
      · rw [List.getElem?_eq_none hh] at hj; cases hj
    exact hk _ _ (by omega) (by omega) hw

/-! ### one row -/

def BarGraph.withMaxRows (g : BarGraph) (m : Int) : BarGraph := { g with maxRows := m }

theorem withMaxRows_cfg (g : BarGraph) (m : Int) : (g.withMaxRows m).cfg = g.cfg := rfl

theorem ite_withMaxRows (g : BarGraph) (c : Prop) [Decidable c] (x : Int) :
    (if c then { g with maxRows := x } else g) = g.withMaxRows (if c then x else g.maxRows) := by
  split <;> rfl

/-- `writeBarStacked` of a row the running maximum covers: only `maxRows` changes, one line is written -/
theorem bars_stacked_row (env : Env) (g : BarGraph) (vt : VirtualTerm) (ho : vt.closed = false) (i : Nat) (key : Bytes) (vals : List Int)
    (hcov : sumPositive vals ≤ g.maxLineVal) (hp : 0 ≤ g.prefixLines) (hsm : i + g.prefixLines.toNat < 4611686018427387904) :
    ∃ m vt', g.writeBarStacked env vt (i : Int) key vals = .ok (g.withMaxRows m, vt') ∧ vt'.closed = false ∧
      vt'.lines[g.prefixLines.toNat + i]? = some (g.cfg.stackedText env g.maxKeyLength key vals) ∧
      (∀ j x, j ≠ g.prefixLines.toNat + i → vt.lines[j]? = some x → vt'.lines[j]? = some x) := by
  have hg1 : (if sumPositive vals > g.maxLineVal then { g with maxLineVal := sumPositive vals } else g) = g := by
    rw [if_neg (by omega)]
  unfold BarGraph.writeBarStacked
  simp only [hg1]
  obtain ⟨bar, hbar⟩ := barWriteStacked_ok env g.maxLineVal g.barSize vals
  have hwrap : wrap64 ((i : Int) + g.prefixLines) = ((g.prefixLines.toNat + i : Nat) : Int) := by
    rw [wrap64_small (by omega) (by omega)]; omega
  rw [hwrap, ite_withMaxRows]
  generalize (if ((g.prefixLines.toNat + i : Nat) : Int) + 1 > g.maxRows then ((g.prefixLines.toNat + i : Nat) : Int) + 1 else g.maxRows) = m
  obtain ⟨vt', hw, ho', hl, hk⟩ := vt_write_ok vt ho (g.prefixLines.toNat + i) (g.cfg.stackedText env g.maxKeyLength key vals)
  refine ⟨m, vt', ?_, ho', hl, hk⟩
  have ht : g.cfg.stackedText env g.maxKeyLength key vals =
      wrap env cYellow (padVis env key g.maxKeyLength) ++ ascii "  " ++ bar ++ ascii "  " ++ g.fmt.apply (sumWrap vals) 0 g.maxLineVal := by
    unfold BarCfg.stackedText BarGraph.cfg
    simp only [hbar]
  rw [ht] at hw
  show (do let bar ← barWriteStacked env g.maxLineVal g.barSize vals
           let vt' ← vt.writeForLine _ (wrap env cYellow (padVis env key g.maxKeyLength) ++ ascii "  " ++ bar ++ ascii "  " ++ g.fmt.apply (sumWrap vals) 0 g.maxLineVal)
           (pure (g.withMaxRows _, vt') : Res (BarGraph × VirtualTerm))) = _
  rw [hbar]
  show (do let vt' ← vt.writeForLine _ _; (pure (g.withMaxRows _, vt') : Res (BarGraph × VirtualTerm))) = _
  rw [hw]; rfl

/-! ### a grouped row -/

theorem foldl_max_ge (vals : List Int) : ∀ m0 : Int,
    m0 ≤ vals.foldl (fun m v => if v > m then v else m) m0 ∧ ∀ v ∈ vals, v ≤ vals.foldl (fun m v => if v > m then v else m) m0 := by
  induction vals with
  | nil => intro m0; exact ⟨Int.le_refl _, by intro v hv; cases hv⟩
  | cons x rest ih =>
    intro m0
    simp only [List.foldl_cons]
    obtain ⟨a, b⟩ := ih (if x > m0 then x else m0)
    generalize List.foldl (fun m v => if v > m then v else m) (if x > m0 then x else m0) rest = r at a b
    refine ⟨by split at a <;> omega, ?_⟩
    intro v hv
    rcases List.mem_cons.mp hv with rfl | hv
    · split at a <;> omega
    · exact b v hv

theorem foldl_max_fix (vals : List Int) (m : Int) (h : ∀ v ∈ vals, v ≤ m) : vals.foldl (fun m v => if v > m then v else m) m = m := by
  induction vals with
  | nil => rfl
  | cons x rest ih =>
    simp only [List.foldl_cons]
    rw [if_neg (by have := h x (by simp); omega)]
    exact ih (fun v hv => h v (by simp [hv]))

theorem maxi64_ge (vals : List Int) : 0 ≤ maxi64 vals ∧ ∀ v ∈ vals, v ≤ maxi64 vals := foldl_max_ge vals 0

theorem flatten_replicate_blank (k : Nat) : (List.replicate k ([32] : Bytes)).flatten = List.replicate k (32 : UInt8) := by
  induction k with
  | zero => rfl
  | succ k ih => simp [List.replicate_succ, ih]

/-- one iteration of the loop of `writeBarGrouped` -/
def groupedStep (A : Arith α) (env : Env) (g : BarGraph) (head : Bytes) (line : Int) (v : VirtualTerm) (vi : Int × Nat) : Res VirtualTerm := do
  let pre ← if vi.2 > 0 then repeatStr [32] (g.maxKeyLength + 2) else pure (if vi.2 = 0 then head else [])
  let c ← getIdx groupColors ((vi.2 : Int) % groupColors.length)
  let bar ← barWrite A env (scale A g.scaler vi.1 0 g.maxLineVal) g.barSize
  let s := pre ++ colorWrite env c bar ++ [32] ++ g.fmt.apply vi.1 0 g.maxLineVal
  v.writeForLine (line + vi.2) s

theorem groupedStep_ok (U : UnitLaws A Dom Unit le) (env : Env) (g : BarGraph) (key : Bytes) (start : Nat) (vt : VirtualTerm) (ho : vt.closed = false)
    (v : Int) (j : Nat) (hd : Dom v) (hm : Dom g.maxLineVal) (hk : 0 ≤ g.maxKeyLength) (hb : 0 ≤ g.barSize) (hb' : g.barSize ≤ 1000000000000000) :
    ∃ vt', groupedStep A env g (wrap env cYellow (padVis env key g.maxKeyLength) ++ ascii "  ") (start : Int) vt (v, j) = .ok vt' ∧ vt'.closed = false ∧
      vt'.lines[start + j]? = some (g.cfg.groupedText A env g.maxKeyLength key j v) ∧
      (∀ x y, x ≠ start + j → vt.lines[x]? = some y → vt'.lines[x]? = some y) := by
  obtain ⟨bar, hbar⟩ := U.barWrite_ok env (U.scale_unit g.scaler hd U.dom_zero hm) hb hb'
  have hcol : getIdx groupColors ((j : Int) % groupColors.length) = .ok (groupColors.getD (j % groupColors.length) []) := by
    have e : ((j : Int) % (groupColors.length : Int)) = ((j % groupColors.length : Nat) : Int) := by
      have : groupColors.length = 12 := by decide
      rw [this]; omega
    rw [e]
    exact getIdx_nat groupColors _ [] (Nat.mod_lt _ (by decide))
  have htext : g.cfg.groupedText A env g.maxKeyLength key j v =
      (if j > 0 then spaces (g.maxKeyLength + 2) else wrap env cYellow (padVis env key g.maxKeyLength) ++ ascii "  ") ++
        colorWrite env (groupColors.getD (j % groupColors.length) []) bar ++ [32] ++ g.fmt.apply v 0 g.maxLineVal := by
    unfold BarCfg.groupedText BarCfg.barBytes BarGraph.cfg
    simp only [hbar]
  obtain ⟨vt', hw, ho', hl, hkeep⟩ := vt_write_ok vt ho (start + j) (g.cfg.groupedText A env g.maxKeyLength key j v)
  refine ⟨vt', ?_, ho', hl, hkeep⟩
  rw [htext] at hw
  have e : (start : Int) + (j : Int) = ((start + j : Nat) : Int) := by omega
  unfold groupedStep
  by_cases hj : j > 0
  · have hp : repeatStr [32] (g.maxKeyLength + 2) = .ok (spaces (g.maxKeyLength + 2)) := by
      unfold repeatStr spaces
      rw [if_neg (by omega), flatten_replicate_blank]
    rw [if_pos hj] at hw
    simp only [hj, if_true, hp, hcol, hbar, bind, Except.bind]
    rw [e, hw]
  · rw [if_neg hj] at hw
    have hj0 : j = 0 := by omega
    subst hj0
    simp only [gt_iff_lt, Nat.lt_irrefl, ↓reduceIte, hcol, hbar, bind, Except.bind, pure, Except.pure]
    rw [e, hw]

theorem grouped_loop_ok (U : UnitLaws A Dom Unit le) (env : Env) (g : BarGraph) (key : Bytes) (start : Nat)
    (hm : Dom g.maxLineVal) (hk : 0 ≤ g.maxKeyLength) (hb : 0 ≤ g.barSize) (hb' : g.barSize ≤ 1000000000000000) :
    ∀ (l : List Int) (b : Nat) (vt : VirtualTerm), vt.closed = false → (∀ v ∈ l, Dom v) →
    ∃ vt', (l.zipIdx b).foldlM (groupedStep A env g (wrap env cYellow (padVis env key g.maxKeyLength) ++ ascii "  ") (start : Int)) vt = .ok vt' ∧
      vt'.closed = false ∧
      (∀ (j : Nat) (v : Int), l[j]? = some v → vt'.lines[start + (b + j)]? = some (g.cfg.groupedText A env g.maxKeyLength key (b + j) v)) ∧
      (∀ x y, (x < start + b ∨ start + b + l.length ≤ x) → vt.lines[x]? = some y → vt'.lines[x]? = some y) := by
  intro l
  induction l with
  | nil => intro b vt ho _; exact ⟨vt, rfl, ho, by intro j v h; simp at h, fun x y _ h => h⟩
  | cons v l ih =>
    intro b vt ho hdom
    obtain ⟨vt1, hs, ho1, hl1, hk1⟩ := groupedStep_ok U env g key start vt ho v b (hdom v (by simp)) hm hk hb hb'
    obtain ⟨vt2, hf, ho2, hrows, hk2⟩ := ih (b + 1) vt1 ho1 (fun x hx => hdom x (by simp [hx]))
    refine ⟨vt2, ?_, ho2, ?_, ?_⟩
    · rw [List.zipIdx_cons, List.foldlM_cons, hs]; exact hf
    · intro j x hj
      cases j with
      | zero =>
        simp at hj; subst hj
        exact hk2 _ _ (Or.inl (by omega)) hl1
      | succ j =>
        have := hrows j x (by simpa using hj)
        rwa [show b + 1 + j = b + (j + 1) by omega] at this
    · intro x y hx hy
      apply hk2 x y (by simp at hx ⊢; omega)
      exact hk1 x y (by simp at hx; omega) hy

theorem writeBarGrouped_eq (env : Env) (g : BarGraph) (vt : VirtualTerm) (idx : Int) (key : Bytes) (vals : List Int) :
    g.writeBarGrouped A env vt idx key vals =
      (let g1 : BarGraph := { g with maxLineVal := vals.foldl (fun m v => if v > m then v else m) g.maxLineVal }
       let line := wrap64 (g1.prefixLines + wrap64 (idx * g1.subKeys.length))
       let g2 := g1.withMaxRows (if wrap64 (line + g1.subKeys.length) > g1.maxRows then wrap64 (line + g1.subKeys.length) else g1.maxRows)
       do let vt' ← vals.zipIdx.foldlM (groupedStep A env g2 (wrap env cYellow (padVis env key g1.maxKeyLength) ++ ascii "  ") line) vt
          pure (g2, vt')) := by
  unfold BarGraph.writeBarGrouped BarGraph.withMaxRows
  by_cases hc : wrap64 (wrap64 (g.prefixLines + wrap64 (idx * ↑g.subKeys.length)) + ↑g.subKeys.length) > g.maxRows
  · simp only [hc, if_true]; rfl
  · simp only [hc, if_false]; rfl

/-- `writeBarGrouped` when no value exceeds the running maximum: the state changes in `maxRows` only -/
theorem writeBarGrouped_covered (env : Env) (g : BarGraph) (vt : VirtualTerm) (idx : Int) (key : Bytes) (vals : List Int)
    (hfix : vals.foldl (fun m v => if v > m then v else m) g.maxLineVal = g.maxLineVal) :
    ∃ M, g.writeBarGrouped A env vt idx key vals = (do
      let vt' ← vals.zipIdx.foldlM (groupedStep A env (g.withMaxRows M) (wrap env cYellow (padVis env key g.maxKeyLength) ++ ascii "  ")
        (wrap64 (g.prefixLines + wrap64 (idx * g.subKeys.length)))) vt
      pure (g.withMaxRows M, vt')) := by
  rw [writeBarGrouped_eq]
  simp only [hfix]
  exact ⟨_, rfl⟩

/-- `writeBarGrouped` of a row the running maximum covers: only `maxRows` changes, one line per value is written -/
theorem bars_grouped_row (U : UnitLaws A Dom Unit le) (env : Env) (g : BarGraph) (vt : VirtualTerm) (ho : vt.closed = false) (i : Nat) (key : Bytes)
    (vals : List Int) (hcov : ∀ v ∈ vals, v ≤ g.maxLineVal) (hdom : ∀ v ∈ vals, Dom v) (hm : Dom g.maxLineVal) (hk : 0 ≤ g.maxKeyLength)
    (hb : 0 ≤ g.barSize) (hb' : g.barSize ≤ 1000000000000000) (hp : 0 ≤ g.prefixLines)
    (hsm : g.prefixLines.toNat + i * g.subKeys.length + g.subKeys.length < 4611686018427387904) :
    ∃ m vt', g.writeBarGrouped A env vt (i : Int) key vals = .ok (g.withMaxRows m, vt') ∧ vt'.closed = false ∧
      (∀ (j : Nat) (v : Int), vals[j]? = some v →
        vt'.lines[g.prefixLines.toNat + i * g.subKeys.length + j]? = some (g.cfg.groupedText A env g.maxKeyLength key j v)) ∧
      (∀ x y, (x < g.prefixLines.toNat + i * g.subKeys.length ∨ g.prefixLines.toNat + i * g.subKeys.length + vals.length ≤ x) →
        vt.lines[x]? = some y → vt'.lines[x]? = some y) := by
  have hfix : vals.foldl (fun m v => if v > m then v else m) g.maxLineVal = g.maxLineVal :=
    foldl_max_fix vals _ hcov
  have hline : wrap64 (g.prefixLines + wrap64 ((i : Int) * g.subKeys.length)) = ((g.prefixLines.toNat + i * g.subKeys.length : Nat) : Int) := by
    have e : ((i : Int) * (g.subKeys.length : Int)) = ((i * g.subKeys.length : Nat) : Int) := by rw [Int.natCast_mul]
    rw [e]
    generalize i * g.subKeys.length = n at hsm ⊢
    rw [wrap64_small (x := (n : Int)) (by omega) (by omega), wrap64_small (by omega) (by omega)]; omega
  obtain ⟨M, hM⟩ := writeBarGrouped_covered (A := A) env g vt (i : Int) key vals hfix
  rw [hM, hline]
  obtain ⟨vt', hf, ho', hrows, hkeep⟩ := grouped_loop_ok U env (g.withMaxRows M) key (g.prefixLines.toNat + i * g.subKeys.length)
    hm hk hb hb' vals 0 vt ho hdom
  have hf' : vals.zipIdx.foldlM (groupedStep A env (g.withMaxRows M) (wrap env cYellow (padVis env key g.maxKeyLength) ++ ascii "  ")
      ((g.prefixLines.toNat + i * g.subKeys.length : Nat) : Int)) vt = .ok vt' := hf
  refine ⟨M, vt', ?_, ho', ?_, ?_⟩
  · rw [hf']; rfl
  · intro j v hj
    have := hrows j v hj
    rw [Nat.zero_add] at this
    exact this
  · intro x y hx hy
    exact hkeep x y (by rw [Nat.add_zero]; exact hx) hy

/-- `writeBar` of a row the running maximum covers: the state changes in `maxRows` only, the row is drawn
with the current configuration, nothing outside its lines changes -/
theorem bars_writeBar_row (U : UnitLaws A Dom Unit le) (env : Env) (g : BarGraph) (vt : VirtualTerm) (ho : vt.closed = false) (i : Nat) (key : Bytes)
    (vals : List Int) (hcov : rowMax g.stacked vals ≤ g.maxLineVal) (hdom : ∀ v ∈ vals, Dom v) (hm : Dom g.maxLineVal) (hk : 0 ≤ g.maxKeyLength)
    (hb : 0 ≤ g.barSize) (hb' : g.barSize ≤ 1000000000000000) (hp : 0 ≤ g.prefixLines)
    (hsm : g.cfg.rowStart i + g.cfg.slot < 4611686018427387904) :
    ∃ m vt', g.writeBar A env vt (i : Int) key vals = .ok (g.withMaxRows m, vt') ∧ vt'.closed = false ∧
      RowDrawn A env g.cfg vt' i (key, vals) ∧
      (∀ x y, (x < g.cfg.rowStart i ∨ g.cfg.rowStart i + rowLines g.cfg (key, vals) ≤ x) → vt.lines[x]? = some y → vt'.lines[x]? = some y) := by
  unfold BarGraph.writeBar
  by_cases hs : g.stacked = true
  · have hst : g.cfg.stacked = true := hs
    have hstart : g.cfg.rowStart i = g.prefixLines.toNat + i := by
      simp [BarCfg.rowStart, BarCfg.slot, hst]; rfl
    have hslot : g.cfg.slot = 1 := by simp [BarCfg.slot, hst]
    rw [if_pos hs]
    obtain ⟨m, vt', hw, ho', hl, hkeep⟩ := bars_stacked_row env g vt ho i key vals (by simpa [rowMax, hs] using hcov) hp (by omega)
    refine ⟨m, vt', hw, ho', ?_, ?_⟩
    · unfold RowDrawn; rw [if_pos hst, hstart]; exact hl
    · intro x y hx hy
      have : rowLines g.cfg (key, vals) = 1 := by simp [rowLines, hst]
      exact hkeep x y (by omega) hy
  · have hs' : g.stacked = false := by simpa using hs
    have hst : g.cfg.stacked = false := hs'
    have hstart : g.cfg.rowStart i = g.prefixLines.toNat + i * g.subKeys.length := by
      simp [BarCfg.rowStart, BarCfg.slot, hst]; rfl
    have hslot : g.cfg.slot = g.subKeys.length := by simp [BarCfg.slot, hst]; rfl
    rw [if_neg hs]
    obtain ⟨m, vt', hw, ho', hl, hkeep⟩ := bars_grouped_row U env g vt ho i key vals
      (fun v hv => Int.le_trans ((maxi64_ge vals).2 v hv) (by simpa [rowMax, hs] using hcov)) hdom hm hk hb hb' hp (by omega)
    refine ⟨m, vt', hw, ho', ?_, ?_⟩
    · unfold RowDrawn; rw [if_neg (by simp [hst]), hstart]
      intro j v hj; exact hl j v hj
    · intro x y hx hy
      have : rowLines g.cfg (key, vals) = vals.length := by simp [rowLines, hst]
      exact hkeep x y (by omega) hy

/-- the running maximum after the loop at the head of `writeBarGrouped` -/
def groupedMax (g : BarGraph) (vals : List Int) : Int := vals.foldl (fun m v => if v > m then v else m) g.maxLineVal

theorem dom_foldl_max (l : List Int) : ∀ (r : Int), Dom r → (∀ v ∈ l, Dom v) → Dom (l.foldl (fun r v => if v > r then v else r) r) := by
  induction l with
  | nil => intro r hr _; exact hr
  | cons v l ih =>
    intro r hr hl
    simp only [List.foldl_cons]
    apply ih _ _ (fun x hx => hl x (by simp [hx]))
    split
    · exact hl v (by simp)
    · exact hr

/-- `writeBarGrouped` first raises the running maximum to the row's largest value; the rest is the call on that state -/
theorem writeBarGrouped_raise (env : Env) (g : BarGraph) (vt : VirtualTerm) (idx : Int) (key : Bytes) (vals : List Int) :
    g.writeBarGrouped A env vt idx key vals = ({ g with maxLineVal := groupedMax g vals } : BarGraph).writeBarGrouped A env vt idx key vals := by
  have hfix : vals.foldl (fun m v => if v > m then v else m) (groupedMax g vals) = groupedMax g vals :=
    foldl_max_fix vals _ (foldl_max_ge vals g.maxLineVal).2
  rw [writeBarGrouped_eq, writeBarGrouped_eq]
  simp only [hfix]
  rfl

/-- THE GROUPED-BARS LINE THEOREM: `writeBarGrouped(idx, key, vals…)` on any state, any values: it returns; the running
maximum is raised to the largest value first; line `j` of the row is the key (first line) or the indentation, the bar
`BarWrite(Scale(vals[j], 0, maxLineVal'), BarSize)` in the group colour, a blank and `Formatter(vals[j], 0, maxLineVal')` for
the maximum AFTER raising; nothing outside the row's lines changes -/
theorem bars_grouped_line (U : UnitLaws A Dom Unit le) (env : Env) (g : BarGraph) (vt : VirtualTerm) (ho : vt.closed = false) (i : Nat) (key : Bytes)
    (vals : List Int) (hdom : ∀ v ∈ vals, Dom v) (hm : Dom g.maxLineVal) (hk : 0 ≤ g.maxKeyLength)
    (hb : 0 ≤ g.barSize) (hb' : g.barSize ≤ 1000000000000000) (hp : 0 ≤ g.prefixLines)
    (hsm : g.prefixLines.toNat + i * g.subKeys.length + g.subKeys.length < 4611686018427387904) :
    ∃ m vt', g.writeBarGrouped A env vt (i : Int) key vals = .ok (({ g with maxLineVal := groupedMax g vals } : BarGraph).withMaxRows m, vt') ∧
      vt'.closed = false ∧ g.maxLineVal ≤ groupedMax g vals ∧ (∀ v ∈ vals, v ≤ groupedMax g vals) ∧
      (∀ (j : Nat) (v : Int), vals[j]? = some v →
        vt'.lines[g.prefixLines.toNat + i * g.subKeys.length + j]? =
          some (({ g with maxLineVal := groupedMax g vals } : BarGraph).cfg.groupedText A env g.maxKeyLength key j v)) ∧
      (∀ x y, (x < g.prefixLines.toNat + i * g.subKeys.length ∨ g.prefixLines.toNat + i * g.subKeys.length + vals.length ≤ x) →
        vt.lines[x]? = some y → vt'.lines[x]? = some y) := by
  obtain ⟨ge0, gev⟩ := foldl_max_ge vals g.maxLineVal
  rw [writeBarGrouped_raise]
  obtain ⟨m, vt', hw, ho', hl, hkeep⟩ := bars_grouped_row U env ({ g with maxLineVal := groupedMax g vals } : BarGraph) vt ho i key vals
    gev hdom (dom_foldl_max vals g.maxLineVal hm hdom) hk hb hb' hp hsm
  exact ⟨m, vt', hw, ho', ge0, gev, hl, hkeep⟩

/-! ### the redraw loop -/

theorem withMaxRows_twice (g : BarGraph) (a b : Int) : (g.withMaxRows a).withMaxRows b = g.withMaxRows b := rfl

/-- `for idx, row := range s.rows { s.writeBar(idx, row.name, row.vals...) }` when the running maximum covers every
row: every row that fits its slot ends up drawn with the (unchanged) configuration, whatever was on the screen -/
theorem bars_redraw_ok (U : UnitLaws A Dom Unit le) (env : Env) (g : BarGraph) (hm : Dom g.maxLineVal) (hk : 0 ≤ g.maxKeyLength)
    (hb : 0 ≤ g.barSize) (hb' : g.barSize ≤ 1000000000000000) (hp : 0 ≤ g.prefixLines) :
    ∀ (l : List (Bytes × List Int)) (b : Nat) (m0 : Int) (vt : VirtualTerm), vt.closed = false →
    (∀ row ∈ l, rowMax g.stacked row.2 ≤ g.maxLineVal ∧ ∀ v ∈ row.2, Dom v) →
    g.cfg.rowStart (b + l.length) + g.cfg.slot < 4611686018427387904 →
    ∃ m vt', (l.zipIdx b).foldlM (fun (st : BarGraph × VirtualTerm) (ri : (Bytes × List Int) × Nat) =>
        st.1.writeBar A env st.2 ri.2 ri.1.1 ri.1.2) (g.withMaxRows m0, vt) = .ok (g.withMaxRows m, vt') ∧ vt'.closed = false ∧
      (∀ (i : Nat) (row : Bytes × List Int), l[i]? = some row → RowFits g.cfg row → RowDrawn A env g.cfg vt' (b + i) row) ∧
      (∀ x y, x < g.cfg.rowStart b → vt.lines[x]? = some y → vt'.lines[x]? = some y) := by
  intro l
  induction l with
  | nil => intro b m0 vt ho _ _; exact ⟨m0, vt, rfl, ho, by intro i row h; simp at h, fun x y _ h => h⟩
  | cons row l ih =>
    intro b m0 vt ho hrows hsm
    simp only [List.length_cons] at hsm
    have hmono : g.cfg.rowStart b + g.cfg.slot ≤ g.cfg.rowStart (b + (l.length + 1)) := g.cfg.rowStart_mono (by omega)
    obtain ⟨hc, hd⟩ := hrows row (by simp)
    obtain ⟨m1, vt1, hw, ho1, hdr, hkeep1⟩ := bars_writeBar_row U env (g.withMaxRows m0) vt ho b row.1 row.2 hc hd hm hk hb hb' hp
      (by rw [withMaxRows_cfg]; omega)
    rw [withMaxRows_twice, withMaxRows_cfg] at *
    obtain ⟨m2, vt2, hf, ho2, hdrawn, hkeep2⟩ := ih (b + 1) m1 vt1 ho1 (fun r hr => hrows r (by simp [hr]))
      (by rw [show b + 1 + l.length = b + (l.length + 1) by omega]; exact hsm)
    refine ⟨m2, vt2, ?_, ho2, ?_, ?_⟩
    · rw [List.zipIdx_cons, List.foldlM_cons]
      show (do let s ← (g.withMaxRows m0).writeBar A env vt (b : Int) row.1 row.2; List.foldlM _ s _) = _
      rw [hw]; exact hf
    · intro i r hi hfit
      cases i with
      | zero =>
        simp at hi; subst hi
        have hle := rowLines_le_slot g.cfg row hfit
        have hdr' : RowDrawn A env g.cfg vt1 b row := hdr
        apply RowDrawn.keep hdr'
        intro j x h1 h2 hx
        exact hkeep2 j x (by rw [g.cfg.rowStart_succ]; omega) hx
      | succ i =>
        have := hdrawn i r (by simpa using hi) hfit
        rwa [show b + 1 + i = b + (i + 1) by omega] at this
    · intro x y hx hy
      apply hkeep2 x y (by rw [g.cfg.rowStart_succ]; omega)
      exact hkeep1 x y (Or.inl hx) hy

/-! ### `WriteBar` -/

/-- the stored rows after `WriteBar(j, key, vals)` (`j ≤ len(rows)`: the commands write rows in order) -/
def rowsAfterBar (rows : List (Bytes × List Int)) (j : Nat) (row : Bytes × List Int) : List (Bytes × List Int) :=
  (rows ++ List.replicate ((j : Int) + 1 - rows.length).toNat (([] : Bytes), ([] : List Int))).set j row

theorem rowsAfterBar_get (rows : List (Bytes × List Int)) (j : Nat) (row : Bytes × List Int) (hj : j ≤ rows.length) :
    (rowsAfterBar rows j row)[j]? = some row ∧ (∀ i, i ≠ j → (rowsAfterBar rows j row)[i]? = rows[i]?) ∧
    j < (rowsAfterBar rows j row).length ∧ (rowsAfterBar rows j row).length ≤ rows.length + 1 := by
  unfold rowsAfterBar
  by_cases hlt : j < rows.length
  · have e : ((j : Int) + 1 - rows.length).toNat = 0 := by omega
    rw [e, List.replicate_zero, List.append_nil]
    refine ⟨getElem?_set_self' _ _ _ hlt, fun i hi => getElem?_set_ne' _ _ _ _ hi, by simpa using hlt, by simp⟩
  · have hje : j = rows.length := by omega
    have e : ((j : Int) + 1 - rows.length).toNat = 1 := by omega
    rw [e]
    have hl : j < (rows ++ List.replicate 1 (([] : Bytes), ([] : List Int))).length := by simp; omega
    refine ⟨getElem?_set_self' _ _ _ hl, ?_, by simpa using hl, by simp⟩
    intro i hi
    rw [getElem?_set_ne' _ _ _ _ hi]
    by_cases hil : i < rows.length
    · rw [List.getElem?_append_left hil]
    · rw [List.getElem?_eq_none (by simp; omega), List.getElem?_eq_none (by omega)]

theorem rowsAfterBar_mem (rows : List (Bytes × List Int)) (j : Nat) (row : Bytes × List Int) (hj : j ≤ rows.length)
    (r : Bytes × List Int) (hr : r ∈ rowsAfterBar rows j row) : r = row ∨ r ∈ rows := by
  obtain ⟨i, hi⟩ := List.getElem?_of_mem hr
  obtain ⟨a, b, _, _⟩ := rowsAfterBar_get rows j row hj
  by_cases e : i = j
  · subst e; rw [a] at hi; cases hi; exact Or.inl rfl
  · rw [b i e] at hi; exact Or.inr (List.mem_of_getElem? hi)

/-- the state after `WriteBar(j, key, vals)`, up to `maxRows` -/
def BarGraph.afterBar (env : Env) (g : BarGraph) (j : Nat) (key : Bytes) (vals : List Int) : BarGraph :=
  { g with maxKeyLength := if strLen env key > g.maxKeyLength then strLen env key else g.maxKeyLength,
           rows := rowsAfterBar g.rows j (key, vals),
           maxLineVal := if rowMax g.stacked vals > g.maxLineVal then rowMax g.stacked vals else g.maxLineVal }

set_option linter.unusedSimpArgs false in
theorem writeBarTop_unfold (env : Env) (g : BarGraph) (vt : VirtualTerm) (j : Nat) (key : Bytes) (vals : List Int) :
    g.writeBarTop A env vt (j : Int) key vals =
      if strLen env key > g.maxKeyLength ∨ rowMax g.stacked vals > g.maxLineVal then
        (g.afterBar env j key vals).rows.zipIdx.foldlM (fun (st : BarGraph × VirtualTerm) (ri : (Bytes × List Int) × Nat) =>
          st.1.writeBar A env st.2 ri.2 ri.1.1 ri.1.2) (g.afterBar env j key vals, vt)
      else (g.afterBar env j key vals).writeBar A env vt (j : Int) key vals := by
  have hset : ∀ rows : List (Bytes × List Int), rows = g.rows →
      setIdx (rows ++ List.replicate ((j : Int) + 1 - rows.length).toNat (([] : Bytes), ([] : List Int))) (j : Int) (key, vals)
        = .ok (rowsAfterBar g.rows j (key, vals)) := by
    intro rows e; subst e
    unfold setIdx rowsAfterBar
    rw [if_neg (by simp; omega)]; simp
  unfold BarGraph.writeBarTop BarGraph.afterBar rowMax
  by_cases h1 : strLen env key > g.maxKeyLength
  · simp only [h1, if_true, hset g.rows rfl, bind, Except.bind]
    by_cases h2 : (if g.stacked = true then sumPositive vals else maxi64 vals) > g.maxLineVal
    · simp only [h2, if_true, decide_true, decide_false, Bool.or_true, Bool.or_false, Bool.true_or, Bool.false_or, true_or, or_true, or_self, or_false, false_or, Bool.false_eq_true, if_false]
    · simp only [h2, if_false, decide_true, decide_false, Bool.or_true, Bool.or_false, Bool.true_or, Bool.false_or, true_or, or_true, or_self, or_false, false_or, Bool.false_eq_true, if_true]
  · simp only [h1, if_false, hset g.rows rfl, bind, Except.bind]
    by_cases h2 : (if g.stacked = true then sumPositive vals else maxi64 vals) > g.maxLineVal
    · simp only [h2, if_true, decide_true, decide_false, Bool.or_true, Bool.or_false, Bool.true_or, Bool.false_or, true_or, or_true, or_self, or_false, false_or, Bool.false_eq_true, if_false]
    · simp only [h2, if_false, decide_true, decide_false, Bool.or_true, Bool.or_false, Bool.true_or, Bool.false_or, true_or, or_true, or_self, or_false, false_or, Bool.false_eq_true, if_true]

/-- what every call leaves true: the running maximum covers every stored row -/
structure BarPre (Dom : Int → Prop) (g : BarGraph) (vt : VirtualTerm) : Prop where
  isOpen : vt.closed = false
  dom_max : Dom g.maxLineVal
  dom_rows : ∀ row ∈ g.rows, ∀ v ∈ row.2, Dom v
  covered : ∀ row ∈ g.rows, rowMax g.stacked row.2 ≤ g.maxLineVal
  key_nonneg : 0 ≤ g.maxKeyLength
  prefix_nonneg : 0 ≤ g.prefixLines
  bar_size : 0 ≤ g.barSize ∧ g.barSize ≤ 1000000000000000

/-- the rows `0 … j-1` fit their slots and are drawn with the current configuration -/
def DrawnBelow (A : Arith α) (env : Env) (g : BarGraph) (vt : VirtualTerm) (j : Nat) : Prop :=
  ∀ (i : Nat) (row : Bytes × List Int), i < j → g.rows[i]? = some row → RowFits g.cfg row ∧ RowDrawn A env g.cfg vt i row

theorem dom_sumPositive (U : UnitLaws A Dom Unit le) (vals : List Int) : Dom (sumPositive vals) := by
  unfold sumPositive
  have : ∀ (l : List Int) (r : Int), Dom r → Dom (l.foldl (fun r v => if v > 0 then wrap64 (r + v) else r) r) := by
    intro l
    induction l with
    | nil => intro r hr; exact hr
    | cons v l ih =>
      intro r hr
      simp only [List.foldl_cons]
      apply ih
      split
      · exact U.dom_wrap _
      · exact hr
  exact this vals 0 U.dom_zero

theorem dom_maxi64 (U : UnitLaws A Dom Unit le) (vals : List Int) (hd : ∀ v ∈ vals, Dom v) : Dom (maxi64 vals) := by
  unfold maxi64
  have : ∀ (l : List Int) (r : Int), Dom r → (∀ v ∈ l, Dom v) → Dom (l.foldl (fun r v => if v > r then v else r) r) := by
    intro l
    induction l with
    | nil => intro r hr _; exact hr
    | cons v l ih =>
      intro r hr hl
      simp only [List.foldl_cons]
      apply ih _ _ (fun x hx => hl x (by simp [hx]))
      split
      · exact hl v (by simp)
      · exact hr
  exact this vals 0 U.dom_zero hd

theorem dom_rowMax (U : UnitLaws A Dom Unit le) (st : Bool) (vals : List Int) (hd : ∀ v ∈ vals, Dom v) : Dom (rowMax st vals) := by
  unfold rowMax; split
  · exact dom_sumPositive U vals
  · exact dom_maxi64 U vals hd

theorem afterBar_cfg (env : Env) (g : BarGraph) (j : Nat) (key : Bytes) (vals : List Int) :
    (g.afterBar env j key vals).cfg = { g.cfg with max := if rowMax g.stacked vals > g.maxLineVal then rowMax g.stacked vals else g.maxLineVal,
                                                    keyw := if strLen env key > g.maxKeyLength then strLen env key else g.maxKeyLength } := rfl

theorem afterBar_pre (U : UnitLaws A Dom Unit le) (env : Env) (g : BarGraph) (vt : VirtualTerm) (hpre : BarPre Dom g vt) (j : Nat) (key : Bytes)
    (vals : List Int) (hj : j ≤ g.rows.length) (hd : ∀ v ∈ vals, Dom v) (m : Int) (vt' : VirtualTerm) (ho : vt'.closed = false) :
    BarPre Dom ((g.afterBar env j key vals).withMaxRows m) vt' := by
  have hmax : g.maxLineVal ≤ (if rowMax g.stacked vals > g.maxLineVal then rowMax g.stacked vals else g.maxLineVal) ∧
      rowMax g.stacked vals ≤ (if rowMax g.stacked vals > g.maxLineVal then rowMax g.stacked vals else g.maxLineVal) := by
    split <;> omega
  refine ⟨ho, ?_, ?_, ?_, ?_, hpre.prefix_nonneg, hpre.bar_size⟩
  · show Dom (if rowMax g.stacked vals > g.maxLineVal then rowMax g.stacked vals else g.maxLineVal)
    split
    · exact dom_rowMax U _ vals hd
    · exact hpre.dom_max
  · intro row hr
    rcases rowsAfterBar_mem g.rows j (key, vals) hj row hr with rfl | hr'
    · exact hd
    · exact hpre.dom_rows row hr'
  · intro row hr
    show rowMax g.stacked row.2 ≤ (if rowMax g.stacked vals > g.maxLineVal then rowMax g.stacked vals else g.maxLineVal)
    rcases rowsAfterBar_mem g.rows j (key, vals) hj row hr with rfl | hr'
    · exact hmax.2
    · exact Int.le_trans (hpre.covered row hr') hmax.1
  · show 0 ≤ (if strLen env key > g.maxKeyLength then strLen env key else g.maxKeyLength)
    have := hpre.key_nonneg
    split <;> omega

/-- ONE `WriteBar(j, key, vals)` with the rows `0 … j-1` current: it returns, the rows `0 … j` are current – drawn with
the running maximum AFTER the call – and the running maximum covers every stored row again.  (`N` bounds the
number of rows: line numbers stay far below 2^62.) -/
theorem bars_writeBarTop_step (U : UnitLaws A Dom Unit le) (env : Env) (g : BarGraph) (vt : VirtualTerm) (hpre : BarPre Dom g vt) (j : Nat)
    (hdr : DrawnBelow A env g vt j) (key : Bytes) (vals : List Int) (hj : j ≤ g.rows.length) (hd : ∀ v ∈ vals, Dom v)
    (hfit : RowFits g.cfg (key, vals)) (N : Nat) (hN : g.rows.length + 1 ≤ N) (hgeo : g.cfg.rowStart N + g.cfg.slot < 4611686018427387904) :
    ∃ m vt', g.writeBarTop A env vt (j : Int) key vals = .ok ((g.afterBar env j key vals).withMaxRows m, vt') ∧
      BarPre Dom ((g.afterBar env j key vals).withMaxRows m) vt' ∧
      DrawnBelow A env ((g.afterBar env j key vals).withMaxRows m) vt' (j + 1) := by
  rw [writeBarTop_unfold]
  obtain ⟨rj, rne, rlen, rlen'⟩ := rowsAfterBar_get g.rows j (key, vals) hj
  by_cases hgt : strLen env key > g.maxKeyLength ∨ rowMax g.stacked vals > g.maxLineVal
  · -- the key column or the running maximum grows: everything is redrawn
    rw [if_pos hgt]
    have hpre1 := afterBar_pre U env g vt hpre j key vals hj hd g.maxRows vt hpre.isOpen
    have hgeo1 : (g.afterBar env j key vals).cfg.rowStart (0 + (g.afterBar env j key vals).rows.length) +
        (g.afterBar env j key vals).cfg.slot < 4611686018427387904 := by
      have h1 : (g.afterBar env j key vals).rows.length ≤ N := by
        show (rowsAfterBar g.rows j (key, vals)).length ≤ N; omega
      have h2 : (g.afterBar env j key vals).cfg.rowStart (0 + (g.afterBar env j key vals).rows.length) ≤ g.cfg.rowStart N := by
        rw [Nat.zero_add]
        show g.cfg.first + (g.afterBar env j key vals).rows.length * g.cfg.slot ≤ g.cfg.first + N * g.cfg.slot
        have := Nat.mul_le_mul_right g.cfg.slot h1
        omega
      have h3 : (g.afterBar env j key vals).cfg.slot = g.cfg.slot := rfl
      omega
    obtain ⟨m, vt', hf, ho', hdrawn, _⟩ := bars_redraw_ok U env (g.afterBar env j key vals) hpre1.dom_max hpre1.key_nonneg
      hpre1.bar_size.1 hpre1.bar_size.2 hpre1.prefix_nonneg (g.afterBar env j key vals).rows 0 g.maxRows vt hpre.isOpen
      (fun row hr => ⟨hpre1.covered row hr, hpre1.dom_rows row hr⟩) hgeo1
    refine ⟨m, vt', hf, afterBar_pre U env g vt hpre j key vals hj hd m vt' ho', ?_⟩
    intro i row hi hrow
    have hrow' : (rowsAfterBar g.rows j (key, vals))[i]? = some row := hrow
    have hfit' : RowFits (g.afterBar env j key vals).cfg row := by
      by_cases e : i = j
      · subst e; rw [rj] at hrow'; cases hrow'; exact hfit
      · rw [rne i e] at hrow'
        exact (hdr i row (by omega) hrow').1
    have := hdrawn i row hrow hfit'
    rw [Nat.zero_add] at this
    exact ⟨hfit', this⟩
  · -- no new maximum: only this row is written
    rw [if_neg hgt]
    have hgt1 : ¬ strLen env key > g.maxKeyLength := fun h => hgt (Or.inl h)
    have hgt2 : ¬ rowMax g.stacked vals > g.maxLineVal := fun h => hgt (Or.inr h)
    have hcfg : (g.afterBar env j key vals).cfg = g.cfg := by
      rw [afterBar_cfg, if_neg hgt1, if_neg hgt2]; rfl
    have hpre1 := afterBar_pre U env g vt hpre j key vals hj hd g.maxRows vt hpre.isOpen
    have hstart : g.cfg.rowStart j + g.cfg.slot ≤ g.cfg.rowStart N := g.cfg.rowStart_mono (by omega)
    obtain ⟨m, vt', hw, ho', hdj, hkeep⟩ := bars_writeBar_row U env (g.afterBar env j key vals) vt hpre.isOpen j key vals
      (by show rowMax g.stacked vals ≤ (if rowMax g.stacked vals > g.maxLineVal then rowMax g.stacked vals else g.maxLineVal)
          rw [if_neg hgt2]; omega)
      hd hpre1.dom_max hpre1.key_nonneg hpre1.bar_size.1 hpre1.bar_size.2 hpre1.prefix_nonneg (by rw [hcfg]; omega)
    refine ⟨m, vt', hw, afterBar_pre U env g vt hpre j key vals hj hd m vt' ho', ?_⟩
    intro i row hi hrow
    have hrow' : (rowsAfterBar g.rows j (key, vals))[i]? = some row := hrow
    show RowFits (g.afterBar env j key vals).cfg row ∧ RowDrawn A env (g.afterBar env j key vals).cfg vt' i row
    rw [hcfg] at hdj hkeep ⊢
    by_cases e : i = j
    · subst e; rw [rj] at hrow'; cases hrow'; exact ⟨hfit, hdj⟩
    · rw [rne i e] at hrow'
      obtain ⟨f, d⟩ := hdr i row (by omega) hrow'
      refine ⟨f, RowDrawn.keep d ?_⟩
      intro x y h1 h2 hy
      have hle := rowLines_le_slot g.cfg row f
      have := g.cfg.rowStart_mono (show i < j by omega)
      exact hkeep x y (Or.inl (by omega)) hy

/-! ### a render: `SetKeys`, then `WriteBar(0 … n-1)` -/

/-- same layout and settings, possibly another running maximum -/
def BarCfg.SameLayout (c c' : BarCfg) : Prop := c' = { c with max := c'.max, keyw := c'.keyw }

theorem BarCfg.SameLayout.refl (c : BarCfg) : c.SameLayout c := rfl

theorem BarCfg.SameLayout.trans {a b c : BarCfg} (h1 : a.SameLayout b) (h2 : b.SameLayout c) : a.SameLayout c := by
  unfold BarCfg.SameLayout at *
  rw [h2, h1]

theorem BarCfg.SameLayout.fits {c c' : BarCfg} (h : c.SameLayout c') (row : Bytes × List Int) : RowFits c' row ↔ RowFits c row := by
  unfold BarCfg.SameLayout at h
  rw [h]; exact Iff.rfl

theorem BarCfg.SameLayout.geo {c c' : BarCfg} (h : c.SameLayout c') (N : Nat) : c'.rowStart N + c'.slot = c.rowStart N + c.slot := by
  unfold BarCfg.SameLayout at h
  rw [h]; rfl

theorem afterBar_layout (env : Env) (g : BarGraph) (j : Nat) (key : Bytes) (vals : List Int) (m : Int) :
    g.cfg.SameLayout ((g.afterBar env j key vals).withMaxRows m).cfg ∧ g.maxLineVal ≤ ((g.afterBar env j key vals).withMaxRows m).maxLineVal := by
  refine ⟨rfl, ?_⟩
  show g.maxLineVal ≤ (if rowMax g.stacked vals > g.maxLineVal then rowMax g.stacked vals else g.maxLineVal)
  split <;> omega

/-- the row loop of a render, from a state where the rows `0 … j-1` are current -/
theorem bars_loop_inv (U : UnitLaws A Dom Unit le) (env : Env) (N : Nat) : ∀ (l : List (Bytes × List Int)) (g : BarGraph) (vt : VirtualTerm) (j : Nat),
    BarPre Dom g vt → DrawnBelow A env g vt j → j ≤ g.rows.length →
    (∀ row ∈ l, (∀ v ∈ row.2, Dom v) ∧ RowFits g.cfg row) → g.rows.length + l.length ≤ N →
    g.cfg.rowStart N + g.cfg.slot < 4611686018427387904 →
    ∃ g' vt', l.foldlM (fun (s : BarGraph × VirtualTerm × Int) (row : Bytes × List Int) => do
        let (g, vt) ← s.1.writeBarTop A env s.2.1 s.2.2 row.1 row.2
        pure (g, vt, s.2.2 + 1)) (g, vt, (j : Int)) = .ok (g', vt', ((j + l.length : Nat) : Int)) ∧
      BarPre Dom g' vt' ∧ DrawnBelow A env g' vt' (j + l.length) ∧
      (∀ (i : Nat) (row : Bytes × List Int), l[i]? = some row → g'.rows[j + i]? = some row) ∧
      (∀ i, i < j → g'.rows[i]? = g.rows[i]?) ∧ j + l.length ≤ g'.rows.length ∧
      g.cfg.SameLayout g'.cfg ∧ g.maxLineVal ≤ g'.maxLineVal ∧
      g.maxKeyLength ≤ g'.maxKeyLength ∧ (∀ row ∈ l, strLen env row.1 ≤ g'.maxKeyLength) := by
  intro l
  induction l with
  | nil =>
    intro g vt j hpre hdr hj _ _ _
    exact ⟨g, vt, rfl, hpre, hdr, by intro i row h; simp at h, fun i _ => rfl, hj, BarCfg.SameLayout.refl _, Int.le_refl _, Int.le_refl _,
      by intro row h; cases h⟩
  | cons row l ih =>
    intro g vt j hpre hdr hj hrows hN hgeo
    simp only [List.length_cons] at hN ⊢
    obtain ⟨hd, hfit⟩ := hrows row (by simp)
    obtain ⟨m, vt1, hw, hpre1, hdr1⟩ := bars_writeBarTop_step U env g vt hpre j hdr row.1 row.2 hj hd hfit N (by omega) hgeo
    obtain ⟨hlay, hmx⟩ := afterBar_layout env g j row.1 row.2 m
    obtain ⟨rj, rne, rlen, rlen'⟩ := rowsAfterBar_get g.rows j (row.1, row.2) hj
    generalize hg1 : (g.afterBar env j row.1 row.2).withMaxRows m = g1 at hw hpre1 hdr1 hlay hmx
    have hrows1 : g1.rows = rowsAfterBar g.rows j (row.1, row.2) := by rw [← hg1]; rfl
    have hkey1 : g.maxKeyLength ≤ g1.maxKeyLength ∧ strLen env row.1 ≤ g1.maxKeyLength := by
      rw [← hg1]
      show g.maxKeyLength ≤ (if strLen env row.1 > g.maxKeyLength then strLen env row.1 else g.maxKeyLength) ∧
        strLen env row.1 ≤ (if strLen env row.1 > g.maxKeyLength then strLen env row.1 else g.maxKeyLength)
      split <;> omega
    obtain ⟨g2, vt2, hf, hpre2, hdr2, hget, hlow, hlen2, hlay2, hmx2, hkw2, hkc2⟩ := ih g1 vt1 (j + 1) hpre1 hdr1 (by rw [hrows1]; omega)
      (fun r hr => ⟨(hrows r (by simp [hr])).1, (hlay.fits r).mpr (hrows r (by simp [hr])).2⟩)
      (by rw [hrows1]; omega) (by rw [hlay.geo]; exact hgeo)
    refine ⟨g2, vt2, ?_, hpre2, ?_, ?_, ?_, by omega, hlay.trans hlay2, by omega, by omega, ?_⟩
    rotate_left 4
    · intro r hr
      rcases List.mem_cons.mp hr with rfl | hr'
      · omega
      · exact hkc2 r hr'
    · rw [List.foldlM_cons]
      simp only [hw, bind, Except.bind, pure, Except.pure]
      have e1 : ((j : Int) + 1) = ((j + 1 : Nat) : Int) := by omega
      have e2 : j + (l.length + 1) = j + 1 + l.length := by omega
      simp only [bind, Except.bind, pure, Except.pure] at hf
      rw [e1, e2]
      exact hf
    · rw [show j + (l.length + 1) = j + 1 + l.length by omega]; exact hdr2
    · intro i r hi
      cases i with
      | zero =>
        simp at hi; subst hi
        rw [Nat.add_zero, hlow j (by omega), hrows1]; exact rj
      | succ i =>
        have := hget i r (by simpa using hi)
        rwa [show j + 1 + i = j + (i + 1) by omega] at this
    · intro i hi
      rw [hlow i (by omega), hrows1]; exact rne i (by omega)

theorem barKey_ok (env : Env) (idx : Nat) : ∃ b, barKey env (idx : Int) = .ok b := by
  unfold barKey
  by_cases hc : env.color
  · obtain ⟨c, hcx⟩ := getIdx_ok groupColors (i := (idx : Int) % groupColors.length)
      (Int.emod_nonneg _ (by decide)) (Int.emod_lt_of_pos _ (by decide))
    exact ⟨wrap env c (encodeRune (if env.unicode = true then fullBlock else nonUnicodeBlock)), by simp [hc, hcx, bind, Except.bind, pure, Except.pure]⟩
  · obtain ⟨c, hcx⟩ := getIdx_ok barAscii (i := (idx : Int) % barAscii.length)
      (Int.emod_nonneg _ (by decide)) (Int.emod_lt_of_pos _ (by decide))
    exact ⟨encodeRune c, by simp [hc, hcx, bind, Except.bind, pure, Except.pure]⟩

/-- `SetKeys`: the sub-keys are stored, the first line becomes 1 when a legend is written; nothing else changes -/
theorem bars_setKeys_ok (env : Env) (g : BarGraph) (vt : VirtualTerm) (ho : vt.closed = false) (hk : 0 ≤ g.maxKeyLength) (keys : List Bytes) :
    ∃ p vt', g.setKeys env vt keys = .ok ({ g with subKeys := keys, prefixLines := p }, vt') ∧ vt'.closed = false ∧
      (p = g.prefixLines ∨ p = 1) := by
  unfold BarGraph.setKeys
  simp only
  split
  · obtain ⟨parts, hparts, _⟩ := mapM_ok (fun (x : Bytes × Nat) => match x with
        | (item, idx) => do
          let k ← barKey env idx
          (pure (ascii "  " ++ k ++ [32] ++ item) : Res Bytes)) keys.zipIdx
      (by
        intro x _
        obtain ⟨item, idx⟩ := x
        obtain ⟨k, hk'⟩ := barKey_ok env idx
        exact ⟨_, by simp only [hk', bind, Except.bind]; rfl⟩)
    have hrep : repeatStr [32] (g.maxKeyLength + 2) = .ok (spaces (g.maxKeyLength + 2)) := by
      unfold repeatStr spaces
      rw [if_neg (by omega), flatten_replicate_blank]
    obtain ⟨vt', hw, ho', _, _⟩ := vt_write_ok vt ho 0 (spaces (g.maxKeyLength + 2) ++ parts.flatten)
    refine ⟨1, vt', ?_, ho', Or.inr rfl⟩
    simp only [bind, Except.bind] at hparts ⊢
    rw [hrep]
    simp only [hparts]
    simp only [Int.natCast_zero] at hw
    rw [hw]; rfl
  · exact ⟨g.prefixLines, vt, rfl, ho, Or.inl rfl⟩

/-- a new bar graph (`NewBarGraph`, then the settings the command sets) on an empty terminal -/
theorem bars_new_pre (U : UnitLaws A Dom Unit le) (stacked : Bool) (barSize : Int) (scaler : Scaler) (fmt : Fmt)
    (hb : 0 ≤ barSize) (hb' : barSize ≤ 1000000000000000) :
    BarPre Dom ({ stacked := stacked, barSize := barSize, scaler := scaler, fmt := fmt } : BarGraph) VirtualTerm.new :=
  ⟨rfl, U.dom_zero, (by intro row hr; cases hr), (by intro row hr; cases hr), (show (0 : Int) ≤ 4 by decide), (show (0 : Int) ≤ 0 by decide), hb, hb'⟩

/-- ONE RENDER of `rare bars` (`SetKeys(subKeys…)`, then `WriteBar(i, key_i, vals_i…)` for the rows in order) from ANY state in
which the running maximum covers the stored rows – a new graph, or the state after any number of earlier
renders: it returns; that property holds again; and EVERY row of this render is stored and drawn with the
FINAL running maximum, whichever calls redrew the graph on the way.  (`N` bounds the number of rows.) -/
theorem bars_render_inv (U : UnitLaws A Dom Unit le) (env : Env) (g : BarGraph) (vt : VirtualTerm) (hpre : BarPre Dom g vt)
    (subKeys : List Bytes) (rows : List (Bytes × List Int))
    (hrows : ∀ row ∈ rows, (∀ v ∈ row.2, Dom v) ∧ (g.stacked = true ∨ row.2.length ≤ subKeys.length))
    (N : Nat) (hN : g.rows.length + rows.length ≤ N)
    (hgeo : g.prefixLines.toNat + 1 + (N + 1) * (subKeys.length + 1) < 4611686018427387904) :
    ∃ g' vt', g.writeOutput A env vt subKeys rows = .ok (g', vt') ∧ BarPre Dom g' vt' ∧
      (∀ (i : Nat) (row : Bytes × List Int), rows[i]? = some row → g'.rows[i]? = some row ∧ RowDrawn A env g'.cfg vt' i row) ∧
      g'.cfg.stacked = g.stacked ∧ g'.cfg.nsub = subKeys.length ∧ g'.cfg.scaler = g.scaler ∧ g'.cfg.fmt = g.fmt ∧
      g'.cfg.barSize = g.barSize ∧ g'.cfg.max = g'.maxLineVal ∧ g.maxLineVal ≤ g'.maxLineVal ∧
      (g'.cfg.first = g.prefixLines.toNat ∨ g'.cfg.first = 1) ∧
      g'.cfg.keyw = g'.maxKeyLength ∧ g.maxKeyLength ≤ g'.maxKeyLength ∧ (∀ row ∈ rows, strLen env row.1 ≤ g'.maxKeyLength) := by
  obtain ⟨p, vt1, hs, ho1, hp⟩ := bars_setKeys_ok env g vt hpre.isOpen hpre.key_nonneg subKeys
  generalize hg1 : ({ g with subKeys := subKeys, prefixLines := p } : BarGraph) = g1 at hs
  have e_rows : g1.rows = g.rows := by rw [← hg1]
  have e_max : g1.maxLineVal = g.maxLineVal := by rw [← hg1]
  have e_st : g1.stacked = g.stacked := by rw [← hg1]
  have e_cfg : g1.cfg = { g.cfg with first := p.toNat, nsub := subKeys.length } := by rw [← hg1]; rfl
  have hp0 : 0 ≤ p := by have := hpre.prefix_nonneg; rcases hp with h | h <;> omega
  have hpre1 : BarPre Dom g1 vt1 := by
    rw [← hg1]
    exact ⟨ho1, hpre.dom_max, hpre.dom_rows, hpre.covered, hpre.key_nonneg, hp0, hpre.bar_size⟩
  have hslot : g1.cfg.slot ≤ subKeys.length + 1 := by
    rw [e_cfg]; unfold BarCfg.slot; simp only; split <;> omega
  have hgeo1 : g1.cfg.rowStart N + g1.cfg.slot < 4611686018427387904 := by
    have hfirst : g1.cfg.first ≤ g.prefixLines.toNat + 1 := by
      rw [e_cfg]; simp only; have := hpre.prefix_nonneg; rcases hp with h | h <;> omega
    have h1 : N * g1.cfg.slot ≤ N * (subKeys.length + 1) := Nat.mul_le_mul_left _ hslot
    have h2 : (N + 1) * (subKeys.length + 1) = N * (subKeys.length + 1) + (subKeys.length + 1) := by rw [Nat.add_mul]; omega
    unfold BarCfg.rowStart
    omega
  have e_key : g1.maxKeyLength = g.maxKeyLength := by rw [← hg1]
  obtain ⟨g2, vt2, hf, hpre2, hdr2, hget, _, _, hlay, hmx, hkw, hkc⟩ := bars_loop_inv U env N rows g1 vt1 0 hpre1
    (by intro i row hi; omega) (by omega)
    (by
      intro row hr
      obtain ⟨a, b⟩ := hrows row hr
      refine ⟨a, ?_⟩
      show g1.cfg.stacked = true ∨ row.2.length ≤ g1.cfg.nsub
      rw [e_cfg]
      exact b)
    (by rw [e_rows]; exact hN) hgeo1
  have hcfg2 : g2.cfg = { g1.cfg with max := g2.cfg.max, keyw := g2.cfg.keyw } := hlay
  refine ⟨g2, vt2, ?_, hpre2, ?_, ?_, ?_, ?_, ?_, ?_, rfl, by omega, ?_, rfl, by omega, hkc⟩
  · unfold BarGraph.writeOutput
    have e0 : ((0 : Nat) : Int) = 0 := rfl
    rw [e0] at hf
    simp only [bind, Except.bind, pure, Except.pure] at hf
    simp only [hs, bind, Except.bind, pure, Except.pure]
    rw [hf]
  · intro i row hi
    have h1 := hget i row hi
    rw [Nat.zero_add] at h1
    have hil : i < rows.length := by
      rcases Nat.lt_or_ge i rows.length with hh | hh
      · exact hh
      · rw [List.getElem?_eq_none hh] at hi; cases hi
    exact ⟨h1, (hdr2 i row (by omega) h1).2⟩
  · rw [hcfg2, e_cfg]; rfl
  · rw [hcfg2, e_cfg]
  · rw [hcfg2, e_cfg]; rfl
  · rw [hcfg2, e_cfg]; rfl
  · rw [hcfg2, e_cfg]; rfl
  · have : g2.cfg.first = p.toNat := by rw [hcfg2, e_cfg]
    rw [this]
    rcases hp with h | h
    · exact Or.inl (by rw [h])
    · exact Or.inr (by rw [h]; rfl)

end
end Rare.C14
