import Rare.Proofs.C07Counter
/-! Table (table.go): state after a sample history = folds of the parsed history; ComputeMinMax. -/
namespace Rare.C07

theorem Table.sample_eq (t : Table) (e : Bytes) (hd : t.delim ≠ []) :
    t.sample e = match (parseTable t.delim e).inc with
      | none => { t with errors := t.errors + 1 }
      | some n => t.sampleItem (parseTable t.delim e).k1 (parseTable t.delim e).k2 n := by
  obtain ⟨a0, a1, b1, a2, b2⟩ := splitter_fields t.delim e hd
  unfold Table.sample parseTable
  simp only [a0, a1, b1, a2, b2]
  have hne := splitOn_ne_nil t.delim e
  rcases hs : splitOn t.delim e with _ | ⟨c, _ | ⟨r, _ | ⟨v, rest⟩⟩⟩
  · exact absurd hs hne
  · simp
  · simp
  · simp only [List.headD_cons, List.tail_cons, List.isEmpty_cons, Bool.not_false, if_true]
    cases atoi v <;> rfl

theorem Table.sample_delim (t : Table) (e : Bytes) : (t.sample e).delim = t.delim := by
  unfold Table.sample
  simp only
  split
  · split <;> simp [Table.sampleItem]
  · split <;> simp [Table.sampleItem]

/-! ### key-uniqueness of association lists built by `aset` -/

theorem akeys_aset_mem {α : Type} (m : List (Bytes × α)) (k : Bytes) (v : α) (x : Bytes) :
    x ∈ akeys (aset m k v) ↔ x = k ∨ x ∈ akeys m := by
  rw [mem_akeys_iff, mem_akeys_iff, aget_aset]
  by_cases h : k = x
  · subst h; simp
  · have : x ≠ k := fun e => h e.symm
    simp [h, this]

theorem nodup_aset {α : Type} (m : List (Bytes × α)) (k : Bytes) (v : α) (h : (akeys m).Nodup) :
    (akeys (aset m k v)).Nodup := by
  induction m with
  | nil => simp [aset, akeys]
  | cons e m ih =>
    obtain ⟨k0, v0⟩ := e
    simp only [akeys, List.map_cons, List.nodup_cons] at h
    by_cases hk : k0 = k
    · subst hk; simpa [aset, akeys] using h
    · simp only [aset, hk, if_false, akeys, List.map_cons, List.nodup_cons]
      refine ⟨?_, ih h.2⟩
      intro hm
      have := (akeys_aset_mem m k v k0).mp hm
      rcases this with h1 | h1
      · exact hk h1
      · exact h.1 h1

theorem mem_iff_aget {α : Type} (m : List (Bytes × α)) (h : (akeys m).Nodup) (k : Bytes) (v : α) :
    (k, v) ∈ m ↔ aget m k = some v := by
  induction m with
  | nil => simp
  | cons e m ih =>
    obtain ⟨k0, v0⟩ := e
    simp only [akeys, List.map_cons, List.nodup_cons] at h
    by_cases hk : k0 = k
    · subst hk
      simp only [List.mem_cons, Prod.mk.injEq, true_and, aget, if_true, Option.some.injEq]
      constructor
      · rintro (h1 | h1)
        · exact h1.symm
        · exact absurd (List.mem_map.mpr ⟨(k0, v), h1, rfl⟩) h.1
      · intro h1; exact Or.inl h1.symm
    · have hk' : ¬ (k = k0) := fun e => hk e.symm
      simp only [List.mem_cons, Prod.mk.injEq, hk', false_and, false_or, aget, hk, if_false]
      exact ih h.2

/-! ### exact sum of the values of an association list -/

theorem sumBy_aset (m : List (Bytes × Int)) (k : Bytes) (v : Int) :
    sumBy (·.2) (aset m k v) = sumBy (·.2) m - (aget m k).getD 0 + v := by
  induction m with
  | nil => simp [aset, sumBy]
  | cons e m ih =>
    obtain ⟨k0, v0⟩ := e
    by_cases hk : k0 = k
    · simp [aset, aget, hk, sumBy]; omega
    · simp [aset, aget, hk, sumBy, ih]; omega

theorem foldl_wrap_sum (m : List (Bytes × Int)) (a : Int) :
    m.foldl (fun acc kv => wrap64 (acc + kv.2)) a = (if m = [] then a else wrap64 (a + sumBy (·.2) m)) := by
  induction m generalizing a with
  | nil => simp
  | cons e m ih =>
    simp only [List.foldl_cons, ih, reduceCtorEq, if_false, sumBy]
    split
    · rename_i h; subst h; simp [sumBy]
    · rw [wrap64_add_left]; congr 1; omega

theorem beq_decide (a b : Bytes) : (a == b) = decide (a = b) := by
  by_cases h : a = b <;> simp [h]

/-! ### the invariant -/

structure RowOK (r : Bytes) (row : TableRow) (hp : List Parsed) : Prop where
  name : row.name = r
  sum : row.sum = total (selRow r) hp
  cells : ∀ c, aget row.cols c = if present (selCell c r) hp then some (total (selCell c r) hp) else none
  nodup : (akeys row.cols).Nodup
  cellsSum : wrap64 (sumBy (·.2) row.cols) = row.sum

structure TableInv (t : Table) (hp : List Parsed) : Prop where
  cols : ∀ c, aget t.cols c = if present (selCol c) hp then some (total (selCol c) hp) else none
  rowsPresent : ∀ r, (aget t.rows r).isSome = present (selRow r) hp
  rows : ∀ r row, aget t.rows r = some row → RowOK r row hp
  grand : wrap64 (sumBy (·.2) t.cols) = total selAll hp
  errors : t.errors = errorCount hp
  nodupRows : (akeys t.rows).Nodup
  nodupCols : (akeys t.cols).Nodup

theorem tableInv_init (d : Bytes) : TableInv { delim := d } [] := by
  constructor <;> simp [present, Rare.C07.total, sumBy, errorCount, wrap64_zero, akeys]

theorem aget_upd (m : List (Bytes × Int)) (k k' : Bytes) (inc : Int) (sel : Bytes → Parsed → Bool) (hp : List Parsed)
    (p : Parsed) (hinc : p.inc = some inc) (hsel : ∀ x, sel x p = decide (k = x))
    (h : ∀ x, aget m x = if present (sel x) hp then some (total (sel x) hp) else none) :
    aget (aset m k (wrap64 ((aget m k).getD 0 + inc))) k' =
      if present (sel k') (hp ++ [p]) then some (total (sel k') (hp ++ [p])) else none := by
  rw [aget_aset, present_snoc, total_snoc]
  simp only [incIf, hinc, Option.isSome_some, Bool.true_and, hsel]
  by_cases hk : k = k'
  · subst hk
    simp only [if_true, decide_true, Bool.or_true]
    rw [h k]
    by_cases hp' : present (sel k) hp = true
    · simp [hp']
    · have hp'' : present (sel k) hp = false := by simpa using hp'
      simp [hp'', total_of_not_present _ _ hp'']
  · simp only [hk, if_false, decide_false, Bool.or_false, Int.add_zero, Bool.false_eq_true]
    rw [h k']; simp [total_wrap]

theorem tableInv_step (t : Table) (hp : List Parsed) (e : Bytes) (hd : t.delim ≠ []) (h : TableInv t hp) :
    TableInv (t.sample e) (hp ++ [parseTable t.delim e]) := by
  rw [Table.sample_eq t e hd]
  generalize parseTable t.delim e = p
  cases hi : p.inc with
  | none =>
    have hz : ∀ sel, incIf sel p = 0 := fun sel => incIf_none sel p hi
    constructor
    · intro c; simp [present_snoc, total_snoc_skip _ _ _ (hz _), hi, h.cols c]
    · intro r; simp [present_snoc, hi, h.rowsPresent r]
    · intro r row hr
      have := h.rows r row hr
      constructor
      · exact this.name
      · simp [total_snoc_skip _ _ _ (hz _), this.sum]
      · intro c; simp [present_snoc, total_snoc_skip _ _ _ (hz _), hi, this.cells c]
      · exact this.nodup
      · exact this.cellsSum
    · simp [total_snoc_skip _ _ _ (hz _), h.grand]
    · simp [errorCount_snoc, hi, h.errors]
    · exact h.nodupRows
    · exact h.nodupCols
  | some n =>
    simp only
    have hrowOld : ∀ r row, aget t.rows r = some row → RowOK r row hp := h.rows
    constructor
    · intro c
      exact aget_upd t.cols p.k1 c n selCol hp p hi (by intro x; simp [selCol, beq_decide]) h.cols
    · intro r
      simp only [Table.sampleItem, aget_aset, present_snoc, hi, Option.isSome_some, Bool.true_and, selRow]
      by_cases hk : p.k2 = r
      · simp [hk]
      · simp [hk, h.rowsPresent r, selRow]
    · intro r row hr
      simp only [Table.sampleItem, aget_aset] at hr
      by_cases hk : p.k2 = r
      · subst hk
        simp only [if_true, Option.some.injEq] at hr
        subst hr
        -- the row that receives the sample
        cases hold : aget t.rows p.k2 with
        | none =>
          have hnp : present (selRow p.k2) hp = false := by
            have := h.rowsPresent p.k2; simpa [hold] using this.symm
          have hcell : ∀ c, present (selCell c p.k2) hp = false := by
            intro c
            cases hc : present (selCell c p.k2) hp with
            | false => rfl
            | true =>
              exfalso
              simp only [present, List.any_eq_true, Bool.and_eq_true] at hc
              obtain ⟨x, hx, hs, hsel⟩ := hc
              have : present (selRow p.k2) hp = true := by
                simp only [present, List.any_eq_true, Bool.and_eq_true]
                refine ⟨x, hx, hs, ?_⟩
                simp only [selCell, Bool.and_eq_true] at hsel
                simpa [selRow] using hsel.2
              rw [hnp] at this; exact Bool.noConfusion this
          constructor
          · simp
          · simp [total_snoc, incIf, hi, selRow, total_of_not_present _ _ hnp, wrap64_zero]
          · intro c
            simp only [Option.getD_none]
            have := aget_upd ([] : List (Bytes × Int)) p.k1 c n (fun x => selCell x p.k2) hp p hi
              (by intro x; simp [selCell, beq_decide]) (by intro x; simp [hcell x])
            simpa using this
          · simp [aset, akeys]
          · simp [aset, aget, sumBy, wrap64_idem]
        | some row0 =>
          have ok := hrowOld p.k2 row0 hold
          constructor
          · simpa using ok.name
          · simp [total_snoc, incIf, hi, selRow, ok.sum]
          · intro c
            simp only [Option.getD_some]
            exact aget_upd row0.cols p.k1 c n (fun x => selCell x p.k2) hp p hi
              (by intro x; simp [selCell, beq_decide]) ok.cells
          · simp only [Option.getD_some]; exact nodup_aset _ _ _ ok.nodup
          · simp only [Option.getD_some]
            rw [sumBy_aset, ← ok.cellsSum]
            generalize sumBy (·.2) row0.cols = a
            generalize (aget row0.cols p.k1).getD 0 = o
            unfold wrap64; omega
      · simp only [hk, if_false] at hr
        have ok := hrowOld r row hr
        have hs : ∀ c, selCell c r p = false := by intro c; simp [selCell, hk]
        have hs2 : selRow r p = false := by simp [selRow, hk]
        constructor
        · exact ok.name
        · rw [total_snoc_skip _ _ _ (by simp [incIf, hi, hs2])]; exact ok.sum
        · intro c
          rw [present_snoc, total_snoc_skip _ _ _ (by simp [incIf, hi, hs c])]
          simp [hs c, ok.cells c]
        · exact ok.nodup
        · exact ok.cellsSum
    · simp only [Table.sampleItem]
      rw [sumBy_aset, total_snoc]
      simp only [incIf, hi, selAll, if_true]
      rw [← h.grand]
      generalize sumBy (·.2) t.cols = a
      generalize (aget t.cols p.k1).getD 0 = o
      unfold wrap64; omega
    · simp [Table.sampleItem, errorCount_snoc, hi, h.errors]
    · simp only [Table.sampleItem]; exact nodup_aset _ _ _ h.nodupRows
    · simp only [Table.sampleItem]; exact nodup_aset _ _ _ h.nodupCols

theorem tableInv_foldl (l : List Bytes) (t : Table) (hp : List Parsed) (hd : t.delim ≠ []) (h : TableInv t hp) :
    TableInv (l.foldl Table.sample t) (hp ++ l.map (parseTable t.delim)) ∧ (l.foldl Table.sample t).delim = t.delim := by
  induction l generalizing t hp with
  | nil => simpa using h
  | cons e l ih =>
    have hd' : (t.sample e).delim ≠ [] := by rw [Table.sample_delim]; exact hd
    have := ih (t.sample e) _ hd' (tableInv_step t hp e hd h)
    rw [Table.sample_delim] at this
    simpa [List.append_assoc] using this

theorem tableInv_run (d : Bytes) (hd : d ≠ []) (h : List Bytes) :
    TableInv (Table.run d h) (h.map (parseTable d)) := by
  have := (tableInv_foldl h { delim := d } [] hd (tableInv_init d)).1
  simpa [Table.run] using this

end Rare.C07
