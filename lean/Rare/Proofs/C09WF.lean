import Rare.Proofs.C09Errors
import Rare.Spec.C09WF
/-! C09: a template compiles without syntax errors iff it is `WellFormed` – for all templates. -/
namespace Rare.C09
open Rare Rare.Expr

/-- the three error kinds the parser itself reports (a builder's own error – arity, type … – is `.func`) -/
def syntactic : ErrKind → Bool
  | .unterminated => true
  | .emptyStatement => true
  | .missingFunction => true
  | .func _ => false

def SynFree (errs : List CErr) : Prop := ∀ e ∈ errs, syntactic e.kind = false

theorem synFree_nil : SynFree [] := fun _ h => by cases h

theorem synFree_append {a b : List CErr} : SynFree (a ++ b) ↔ SynFree a ∧ SynFree b := by
  simp only [SynFree, List.mem_append]
  exact ⟨fun h => ⟨fun e he => h e (Or.inl he), fun e he => h e (Or.inr he)⟩,
    fun h e he => he.elim (h.1 e) (h.2 e)⟩

theorem synFree_shift (l : List CErr) (k : Nat) :
    SynFree (l.map fun e => { e with index := e.index + k }) ↔ SynFree l := by
  simp only [SynFree, List.mem_map]
  constructor
  · intro h e he; exact h { e with index := e.index + k } ⟨e, he, rfl⟩
  · rintro h _ ⟨e, he, rfl⟩; exact h e he

theorem not_synFree_snoc (l : List CErr) (e : CErr) (h : syntactic e.kind = true) : ¬ SynFree (l ++ [e]) := by
  intro hs
  have := hs e (by simp)
  rw [h] at this; cases this

theorem unescapeSpec_eq (c : Char) : unescapeSpec c = unescape c := rfl

/-! ### unfolding `bodiesGo` -/

theorem bodies_nil (d : Nat) (cur : List Char) : bodiesGo false d cur [] = [] := by rw [bodiesGo]
theorem bodies_esc_last (d : Nat) (cur : List Char) : bodiesGo false d cur ['\\'] = [] := by
  rw [bodiesGo]; simp [bodiesGo]
theorem bodies_esc (d : Nat) (cur : List Char) (e : Char) (rest : List Char) :
    bodiesGo false d cur ('\\' :: e :: rest) = bodiesGo false d (cur ++ [unescape e]) rest := by
  rw [bodiesGo]; simp [bodiesGo, unescapeSpec_eq]
theorem bodies_open0 (cur rest : List Char) : bodiesGo false 0 cur ('{' :: rest) = bodiesGo false 1 [] rest := by
  rw [bodiesGo]; simp
theorem bodies_openN (d : Nat) (hd : d ≠ 0) (cur rest : List Char) :
    bodiesGo false d cur ('{' :: rest) = bodiesGo false (d + 1) (cur ++ ['{']) rest := by
  rw [bodiesGo]; simp [hd]
theorem bodies_close1 (cur rest : List Char) : bodiesGo false 1 cur ('}' :: rest) = cur :: bodiesGo false 0 [] rest := by
  rw [bodiesGo]; simp
theorem bodies_closeN (d : Nat) (hd : 1 < d) (cur rest : List Char) :
    bodiesGo false d cur ('}' :: rest) = bodiesGo false (d - 1) (cur ++ ['}']) rest := by
  have h0 : d ≠ 0 := by omega
  have h1 : d ≠ 1 := by omega
  rw [bodiesGo]; simp [h0, h1]
theorem bodies_plain (d : Nat) (cur : List Char) (r : Char) (rest : List Char)
    (h1 : r ≠ '\\') (h2 : r ≠ '{') (h3 : r ≠ '}' ∨ d = 0) :
    bodiesGo false d cur (r :: rest) = bodiesGo false d (cur ++ [r]) rest := by
  rw [bodiesGo]
  rcases h3 with h3 | h3
  · simp [h1, h2, h3]
  · by_cases hr : r = '}'
    · subst hr; simp [h3]
    · simp [h1, h2, hr]

/-! ### one statement -/

section
variable (g : Nat) (reg : Registry) (opt : Bool)

abbrev knownOf (reg : Registry) : List Char → Bool := fun n => (reg n).isSome

abbrev WFT (reg : Registry) := WellFormed splitArgs (knownOf reg)
abbrev WFS (reg : Registry) := WellFormedStmt splitArgs (knownOf reg)

theorem args_wf (fargs : List (List Char))
    (hA : ∀ a ∈ fargs, ∀ s e, compileF g reg opt a = .ok (s, e) → (SynFree e ↔ WFT reg a)) :
    ∀ cargs aerrs, compileArgs g reg opt fargs = .ok (cargs, aerrs) →
      (SynFree aerrs ↔ ∀ a ∈ fargs, WFT reg a) := by
  induction fargs with
  | nil =>
    intro cargs aerrs h
    rw [compileArgs] at h; cases h
    exact ⟨fun _ a ha => (by cases ha), fun _ => synFree_nil⟩
  | cons a r ih =>
    intro cargs aerrs h
    rw [compileArgs] at h
    cases h1 : compileF g reg opt a with
    | error m => rw [h1] at h; cases h
    | ok p =>
      obtain ⟨s, e⟩ := p
      rw [h1] at h
      cases h2 : compileArgs g reg opt r with
      | error m => rw [h2] at h; cases h
      | ok q =>
        obtain ⟨ss, es⟩ := q
        rw [h2] at h
        cases h
        have ha := hA a (by simp) s e h1
        have hr := ih (fun b hb => hA b (by simp [hb])) ss es h2
        rw [synFree_append, ha, hr]
        simp

theorem close_wf (all : List Char) (i : Nat) (st st' : CompSt)
    (hA : ∀ a ∈ splitArgs st.sb, ∀ s e, compileF g reg opt a = .ok (s, e) → (SynFree e ↔ WFT reg a))
    (h : closeStatement g reg opt all i st = .ok st') :
    SynFree st'.errs ↔ (SynFree st.errs ∧ WFS reg st.sb) := by
  rw [closeStatement] at h
  match hs : splitArgs st.sb with
  | [] =>
    simp only [hs] at h; cases h
    simp only [synFree_append]
    constructor
    · intro h; exact absurd (synFree_append.mpr h) (not_synFree_snoc _ _ rfl)
    · rintro ⟨_, h2⟩
      cases h2 with
      | lone _ a h => rw [hs] at h; cases h
      | call _ n x xs h => rw [hs] at h; cases h
  | [a] =>
    simp only [hs] at h; cases h
    exact ⟨fun h => ⟨h, .lone _ a hs⟩, fun h => h.1⟩
  | name :: b :: r =>
    simp only [hs] at h
    cases hr : reg name with
    | none =>
      simp only [hr] at h; cases h
      simp only [synFree_append]
      constructor
      · intro h; exact absurd (synFree_append.mpr h) (not_synFree_snoc _ _ rfl)
      · rintro ⟨_, h2⟩
        cases h2 with
        | lone _ a h => rw [hs] at h; cases h
        | call _ n x xs h hk =>
          rw [hs] at h; cases h
          simp [knownOf, hr] at hk
    | some f =>
      simp only [hr] at h
      cases hc : compileArgs g reg opt (b :: r) with
      | error m => simp only [hc] at h; cases h
      | ok p =>
        obtain ⟨cargs, aerrs⟩ := p
        simp only [hc] at h
        cases hf : f cargs with
        | error m => simp only [hf] at h; cases h
        | ok bt =>
          simp only [hf] at h
          cases h
          have hargs := args_wf g reg opt (b :: r) (fun a ha => hA a (by rw [hs]; simp at ha ⊢; exact Or.inr ha)) cargs aerrs hc
          have hwfs : WFS reg st.sb ↔ ∀ a ∈ b :: r, WFT reg a := by
            constructor
            · intro h2
              cases h2 with
              | lone _ a h => rw [hs] at h; cases h
              | call _ n x xs h _ hall => rw [hs] at h; cases h; exact hall
            · intro hall; exact .call _ name b r hs (by simp [knownOf, hr]) hall
          rw [hwfs, ← hargs]
          cases bt.err with
          | none => simp only [synFree_append, synFree_shift]
          | some tag =>
            simp only [synFree_append, synFree_shift]
            constructor
            · rintro ⟨h1, _⟩; exact h1
            · intro h1; exact ⟨h1, fun e he => by simp at he; subst he; rfl⟩

/-! ### the rune loop -/

theorem loop_wf (N : Nat) (all : List Char)
    (hA : ∀ a : List Char, a.length < N → ∀ s e, compileF g reg opt a = .ok (s, e) → (SynFree e ↔ WFT reg a)) :
    ∀ (m : Nat) (rest : List Char) (i : Nat) (st st' : CompSt), rest.length ≤ m →
      st.sb.length + rest.length ≤ N →
      compileLoop g reg opt all rest i st = .ok st' →
      (SynFree st'.errs ↔ (SynFree st.errs ∧ ∀ b ∈ bodiesGo false st.inStatement st.sb rest, WFS reg b)) := by
  intro m
  induction m with
  | zero =>
    intro rest i st st' hm _ h
    have : rest = [] := List.length_eq_zero_iff.mp (by omega)
    subst this; rw [loop_nil] at h; cases h; simp [bodies_nil]
  | succ m ih =>
    intro rest i st st' hm hN h
    cases rest with
    | nil => rw [loop_nil] at h; cases h; simp [bodies_nil]
    | cons r rest =>
      simp only [List.length_cons] at hm hN
      by_cases h1 : r = '\\'
      · subst h1
        cases rest with
        | nil => rw [loop_esc_last] at h; cases h; simp [bodies_esc_last]
        | cons e rest =>
          simp only [List.length_cons] at hm hN
          rw [loop_esc] at h
          rw [bodies_esc]
          exact ih _ _ _ _ (by omega) (by simp; omega) h
      · by_cases h2 : r = '{'
        · subst h2
          by_cases h0 : st.inStatement = 0
          · rw [loop_open0 _ _ _ _ _ _ _ h0] at h
            rw [h0, bodies_open0]
            exact ih _ _ _ _ (by omega) (by simp; omega) h
          · rw [loop_openN _ _ _ _ _ _ _ h0] at h
            rw [bodies_openN _ h0]
            exact ih _ _ _ _ (by omega) (by simp; omega) h
        · by_cases h3 : r = '}' ∧ st.inStatement ≠ 0
          · obtain ⟨h3, h4⟩ := h3
            subst h3
            by_cases h5 : st.inStatement = 1
            · rw [loop_close1 _ _ _ _ _ _ _ h5] at h
              cases hc : closeStatement g reg opt all i st with
              | error e => rw [hc] at h; cases h
              | ok st2 =>
                rw [hc] at h
                have hcl := close_wf g reg opt all i st st2
                  (fun a ha => hA a (by have := splitArgs_length ha; omega)) hc
                have := ih _ _ _ _ (by omega) (by simp; omega) h
                rw [h5, bodies_close1]
                simp only at this
                rw [this, hcl]
                simp only [List.mem_cons, forall_eq_or_imp]
                constructor
                · rintro ⟨⟨a, b⟩, c⟩; exact ⟨a, b, c⟩
                · rintro ⟨a, b, c⟩; exact ⟨⟨a, b⟩, c⟩
            · rw [loop_closeN _ _ _ _ _ _ _ (by omega)] at h
              rw [bodies_closeN _ (by omega)]
              exact ih _ _ _ _ (by omega) (by simp; omega) h
          · have h3' : r ≠ '}' ∨ st.inStatement = 0 := by
              by_cases hr : r = '}'
              · right; exact Classical.byContradiction fun hc => h3 ⟨hr, hc⟩
              · left; exact hr
            rw [loop_plain _ _ _ _ _ _ _ _ h1 h2 h3'] at h
            rw [bodies_plain _ _ _ _ h1 h2 h3']
            exact ih _ _ _ _ (by omega) (by simp; omega) h

end

theorem wfTemplate_iff (split : List Char → List (List Char)) (known : List Char → Bool) (t : List Char) :
    WellFormed split known t ↔ (braceDepth false 0 t = 0 ∧ ∀ b ∈ bodies t, WellFormedStmt split known b) :=
  ⟨fun h => by cases h with | mk _ h1 h2 => exact ⟨h1, h2⟩, fun h => .mk t h.1 h.2⟩

/-- **Main lemma**: for every fuel above the template length. -/
theorem compileF_wf (reg : Registry) (opt : Bool) :
    ∀ (L : Nat) (t : List Char), t.length < L → ∀ f, t.length < f → ∀ s e,
      compileF f reg opt t = .ok (s, e) → (SynFree e ↔ WFT reg t) := by
  intro L
  induction L with
  | zero => intro t h; omega
  | succ L ih =>
    intro t hL f hf s e h
    obtain ⟨g, rfl⟩ : ∃ g, f = g + 1 := ⟨f - 1, by omega⟩
    rw [compileF_eq] at h
    cases hl : compileLoop g reg opt t t 0 ⟨[], [], [], 0, 0⟩ with
    | error m => rw [hl] at h; cases h
    | ok st =>
      rw [hl] at h
      have hd := loop_depth g reg opt t t.length t 0 _ st (Nat.le_refl _) hl
      have he := finishC_errs h
      have hw := loop_wf g reg opt t.length t
        (fun a ha s' e' h' => ih a (by omega) g (by omega) s' e' h') t.length t 0 _ st (Nat.le_refl _) (by simp) hl
      simp only at hd hw
      show SynFree e ↔ WellFormed splitArgs (knownOf reg) t
      rw [wfTemplate_iff, he]
      show _ ↔ (_ ∧ ∀ b ∈ bodiesGo false 0 [] t, WFS reg b)
      by_cases hz : st.inStatement = 0
      · rw [if_neg (by simpa using hz), hw]
        rw [hd] at hz
        exact ⟨fun h => ⟨hz, h.2⟩, fun h => ⟨synFree_nil, h.2⟩⟩
      · rw [if_pos hz]
        rw [hd] at hz
        constructor
        · intro h; exact absurd h (not_synFree_snoc _ _ rfl)
        · intro h; exact absurd h.1 hz

end Rare.C09
