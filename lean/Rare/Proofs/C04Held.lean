import Rare.Proofs.C04More
import Rare.Proofs.C04Buf
/-!
Round 4b helpers for C04:

* every array the immediate scanner ever allocated (the archived ones included) is bounded,
* the tokens of the first `j` calls are a prefix of the tokens of the first `j + k` calls (so the statement
  "a held slice reads back unchanged" holds at EVERY later call, not only after the last one),
* every micro-step of `Scan()` (regrow, `Read` appending bytes, error flag, handing out a token) extends the
  arrays: a held slice reads back unchanged between any two steps (the batcher's consumers read batches
  while the reader goroutine is inside `Scan()`).
-/
namespace Rare.C04

/-! ### all arrays of the immediate scanner are bounded -/

/-- every archived array is at most "an unterminated fragment of the delivered bytes + bufSize" long
    (`w = []` is the initial size) -/
def MemOK (s : Imm) : Prop :=
  ∀ a ∈ s.mem, ∃ w, w <:+: s.delivered ∧ nl ∉ w ∧ a.length ≤ w.length + s.bufSize

/-- the three facts carried together: `end ≤ len(buf)`, the current size, the archived sizes -/
def AllOK (s : Imm) : Prop := s.buf.length ≤ s.cap ∧ AllocOK s ∧ MemOK s

theorem memOK_of_eq {s s' : Imm} (h : MemOK s) (hm : s'.mem = s.mem) (hb : s'.bufSize = s.bufSize)
    (hd : ∃ bs, s'.delivered = s.delivered ++ bs) : MemOK s' := by
  obtain ⟨bs, hd⟩ := hd
  intro a ha
  rw [hm] at ha
  obtain ⟨w, hw, hn, hl⟩ := h a ha
  exact ⟨w, by rw [hd]; exact infix_append_right bs hw, hn, by rw [hb]; exact hl⟩

theorem allOK_of_eq {s s' : Imm} (h : AllOK s) (hc : s'.cap = s.cap) (hb : s'.bufSize = s.bufSize)
    (hm : s'.mem = s.mem) (hl : s'.buf.length ≤ s'.cap)
    (hd : ∃ bs, s'.delivered = s.delivered ++ bs) : AllOK s' :=
  ⟨hl, allocOK_of_eq h.2.1 hc hb hd, memOK_of_eq h.2.2 hm hb hd⟩

theorem emitAt_allOK {s : Imm} (k : Nat) (h : AllOK s) : AllOK (s.emitAt k).2 :=
  allOK_of_eq h rfl rfl rfl h.1 ⟨[], by simp [Imm.emitAt]⟩

theorem emitTail_allOK {s : Imm} (h : AllOK s) : AllOK s.emitTail.2 :=
  allOK_of_eq h rfl rfl rfl h.1 ⟨[], by simp [Imm.emitTail]⟩

theorem topEof_allOK {s : Imm} (h : AllOK s) : AllOK s.topEof.2 := by
  unfold Imm.topEof
  split
  · split
    · exact emitAt_allOK _ h
    · exact emitTail_allOK h
  · exact h

theorem grown_allOK {s : Imm} {C : Bytes} (hinv : Inv s C) (hn : nl ∉ s.pending) (h : AllOK s) :
    AllOK s.grown := by
  refine ⟨?_, grown_alloc hinv hn h.2.1, ?_⟩
  · exact Nat.le_of_lt (grown_spec hinv).2.2.1
  · unfold Imm.grown
    split
    · intro a ha
      simp only [Imm.regrow, List.mem_append, List.mem_singleton] at ha
      rcases ha with ha | rfl
      · exact h.2.2 a ha
      · -- the array being archived: its valid part is at most its size, which `AllocOK` bounds
        rcases h.2.1 with hc | ⟨w, hw, hnw, hc⟩
        · exact ⟨[], List.nil_infix, by simp, by have := h.1; simp [Imm.regrow]; omega⟩
        · exact ⟨w, hw, hnw, by have := h.1; simp [Imm.regrow]; omega⟩
    · exact h.2.2

theorem readLoop_allOK (f : Nat) : ∀ {s : Imm} {C : Bytes}, Inv s C → nl ∉ s.pending → AllOK s →
    AllOK (s.readLoop f).2 := by
  induction f with
  | zero => intro s C _ _ h; exact h
  | succ f ih =>
    intro s C hinv hn h
    have hg := grown_spec hinv
    have hga := grown_allOK hinv hn h
    simp only [Imm.readLoop]
    have hlen := read_len s.grown.rd (s.grown.cap - s.grown.buf.length)
    generalize s.grown.rd.read (s.grown.cap - s.grown.buf.length) = r at hlen
    have h1 := recv_spec hg.1 r.1 r.2.2
    have hra : AllOK (s.grown.recv r.1 r.2.2) :=
      allOK_of_eq hga rfl rfl rfl (by have := hg.2.2.1; simp [Imm.recv]; omega) ⟨r.1, by simp [Imm.recv]⟩
    split
    · rename_i e _
      exact topEof_allOK (allOK_of_eq hra rfl rfl rfl hra.1 ⟨[], by simp [Imm.fail]⟩)
    · split
      · exact emitAt_allOK _ hra
      · rename_i heq
        have hnb : nl ∉ r.1 := idxNl_none.mp heq
        apply ih h1.1 _ hra
        rw [h1.2.1, hg.2.1]; simp; exact ⟨hn, hnb⟩

theorem scan_allOK (f : Nat) {s : Imm} {C : Bytes} (hinv : Inv s C) (h : AllOK s) :
    AllOK (s.scan f).2 := by
  unfold Imm.scan
  split
  · rename_i r ht
    unfold Imm.top at ht
    split at ht
    · split at ht
      · simp at ht; rw [← ht]; exact emitAt_allOK _ h
      · split at ht
        · simp at ht; rw [← ht]; exact emitTail_allOK h
        · simp at ht
    · split at ht
      · simp at ht; rw [← ht]; exact h
      · simp at ht
  · rename_i ht
    exact readLoop_allOK f hinv (top_none ht).1 h

theorem scanAll_allOK (f : Nat) : ∀ (n : Nat) {s : Imm} {E : List Bytes}, Good s E →
    AllOK s → AllOK (s.scanAll f n).2.2 := by
  intro n
  induction n with
  | zero => intro s E _ h; exact h
  | succ n ih =>
    intro s E hg h
    obtain ⟨C, hinv, _⟩ := id hg
    have hsg := scan_good f hg
    have hc := scan_allOK f hinv h
    simp only [Imm.scanAll]
    generalize s.scan f = r at hsg hc
    obtain ⟨res, s'⟩ := r
    cases res with
    | tok v b => exact ih hsg hc
    | done => exact hc
    | fuel => exact hc

theorem allOK_init (b : Nat) (rd : Reader) : AllOK (Imm.init b rd) :=
  ⟨by simp [Imm.init], Or.inl rfl, by intro a ha; simp [Imm.init] at ha⟩

/-! ### tokens of fewer calls are a prefix of the tokens of more calls -/

theorem scanAll_prefix (f : Nat) : ∀ (j k : Nat) (s : Imm),
    (s.scanAll f j).1 <+: (s.scanAll f (j + k)).1 := by
  intro j
  induction j with
  | zero => intro k s; simp [Imm.scanAll]
  | succ j ih =>
    intro k s
    have e : j + 1 + k = (j + k) + 1 := by omega
    rw [e]
    simp only [Imm.scanAll]
    generalize s.scan f = r
    obtain ⟨res, s'⟩ := r
    cases res with
    | tok v b =>
      simp only
      exact List.prefix_cons_inj _ |>.mpr (ih k s')
    | done => simp
    | fuel => simp

theorem bscanAll_prefix (f : Nat) : ∀ (j k : Nat) (s : Buf),
    (s.scanAll f j).1 <+: (s.scanAll f (j + k)).1 := by
  intro j
  induction j with
  | zero => intro k s; simp [Buf.scanAll]
  | succ j ih =>
    intro k s
    have e : j + 1 + k = (j + k) + 1 := by omega
    rw [e]
    simp only [Buf.scanAll]
    generalize s.scan f = r
    obtain ⟨res, s'⟩ := r
    cases res with
    | tok v b =>
      simp only
      exact List.prefix_cons_inj _ |>.mpr (ih k s')
    | done => simp
    | fuel => simp

/-! ### every micro-step only appends -/

theorem grown_ext (s : Imm) : Ext s.arrays s.grown.arrays :=
  (closed_ext s.arrays).grown s (Ext.refl _)

theorem recv_ext (s : Imm) (bs : Bytes) (rd' : Reader) : Ext s.arrays (s.recv bs rd').arrays := by
  simpa [Imm.arrays, Imm.recv] using Ext.last s.mem s.buf bs

/-- the refill of the buffered scanner archives the old array unchanged and fills a fresh one -/
theorem refill_ext (s : Buf) (acc : Bytes) (rd' : Reader) (eof' : Bool) (errs' : Nat) (dl' : Bytes) :
    Ext s.arrays ({ s with mem := s.mem ++ [s.buf], buf := acc, offset := 0, rd := rd',
                           eof := eof', errs := errs', delivered := dl' } : Buf).arrays := by
  simpa [Buf.arrays] using Ext.append (s.mem ++ [s.buf]) [acc]

end Rare.C04
